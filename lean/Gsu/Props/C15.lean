/-
C15 — Metadata tables behave as persistent maps and survive persist cycles.

"The in-memory schema/info tables behave as maps under any sequence of puts and deletes, and
older versions are never affected by later changes. Writing them through any number of persist
cycles (with chunk chaining, flattening and tombstones) and reading them back yields exactly the
current live entries."

Property theorems only; the lemmas are in `Gsu/Proofs/Chain.lean`, `Gsu/Proofs/HamtGen.lean`.
The definitions (`writeChainWith`, `readChain`, `trieOps` …) are the ones `drv_c15` executes.

Status.
* Map part (first sentence): `hamt_map` — FULL for the functional trie mirror: for every hash function
  the trie is a lawful map (`MapLaws (trieOps hf) (WFR hf)`), so all chain theorems apply to it with
  no hypothesis left (`trie_chain_roundtrip`, `trie_meta_roundtrip`).
* Chain part (second sentence): FULL, for any lawful in-memory map and ANY merge schedule, including
  sessions reopened from disk — `chain_inv`, `chain_roundtrip`, `ages_sorted`, `lastmod_ge_age`.
* db19/meta level: the `created` protocol (PutNew / alter / RenameTable / Drop / persist / reopen) is
  sound — `meta_inv`, `meta_drop_sound`, `meta_roundtrip` (model `Gsu.Model.MetaProto`, with fixes
  12 and 45; not replayed by a driver, tied by the `meta` suite's reopen oracle only).
* `hamt_persistent` over an explicit node heap with generations: not modelled (values of the
  mirror are immutable); tied by the suite's re-read of every frozen version after every op
  (seeded change C15-1 is caught there).
-/
import Gsu.Proofs.Chain
import Gsu.Proofs.ChainRead
import Gsu.Proofs.MetaProto
import Gsu.Proofs.HamtGen
import Gsu.Proofs.Hamt
namespace Gsu.Props.C15
open Gsu.Hamt

/-- chain states reachable by the operations `db19/meta` performs: `Put` of an item stamped with
the current clock (live or tombstone), `Delete` without tombstone of a key that is on no linked
chunk, `WriteChain` merging any number `merge ≤ no` of chunks, and reopening from the chain on disk -/
inductive Reach {M : Type} (ops : MapOps M) : Chain M → Prop
  | init : Reach ops { ht := ops.empty, chunks := [], clock := 0 }
  | put (c : Chain M) (k v : Nat) (tomb : Bool) :
      Reach ops c → Reach ops { c with ht := ops.put c.ht ⟨k, v, tomb, c.clock⟩ }
  | del (c : Chain M) (k : Nat) :
      Reach ops c → lookupD c.chunks k = none → Reach ops { c with ht := ops.del c.ht k }
  | write (c : Chain M) (merge id : Nat) :
      Reach ops c → merge ≤ c.chunks.length → Reach ops (writeChainWith ops c merge id).2
  | reopen (c rc : Chain M) :
      Reach ops c → readChain ops c.chunks = some rc → Reach ops rc

/-- the chain invariant (DESIGN A.5) holds in every reachable state -/
theorem chain_inv {M : Type} {ops : MapOps M} {ok : M → Prop} (L : MapLaws ops ok)
    {c : Chain M} (hr : Reach ops c) : ChInv ops ok c := by
  induction hr with
  | init => exact empty_inv L
  | put c k v tomb _ ih => exact put_inv L ih ⟨k, v, tomb, c.clock⟩ rfl
  | del c k _ hk ih => exact del_inv L ih k hk
  | write c merge id _ hm ih => exact write_inv L ih merge id hm
  | reopen c rc _ hread _ => exact read_inv L c.chunks rc hread

/-- **chain_roundtrip**: in every reachable state, after `WriteChain` with ANY number of merged
chunks (so independently of `nmerge`), `ReadChain` of the written chain yields exactly the live
entries of the in-memory table: same keys, same values, tombstoned and deleted keys absent. -/
theorem chain_roundtrip {M : Type} {ops : MapOps M} {ok : M → Prop} (L : MapLaws ops ok)
    {c : Chain M} (hr : Reach ops c) (merge id : Nat) (hm : merge ≤ c.chunks.length)
    (rc : Chain M) (hread : readChain ops (writeChainWith ops c merge id).2.chunks = some rc) :
    ∀ k, live (ops.get rc.ht k) = live (ops.get c.ht k) :=
  roundtrip_of_inv L (chain_inv L hr) merge id hm rc hread

/-- the same for the code's own schedule `merge = nmerge(no, clock)` (regenerated definition) -/
theorem chain_roundtrip_nmerge {M : Type} {ops : MapOps M} {ok : M → Prop} (L : MapLaws ops ok)
    {c : Chain M} (hr : Reach ops c) (id : Nat) (rc : Chain M)
    (hread : readChain ops (writeChainWith ops c
      (Gsu.Gen.Hamt.nmerge c.chunks.length c.clock).toNat id).2.chunks = some rc) :
    ∀ k, live (ops.get rc.ht k) = live (ops.get c.ht k) := by
  have hb := nmerge_bounds (c.chunks.length : Int) c.clock (by omega)
  exact chain_roundtrip L hr _ id (by omega) rc hread

/-- **ages_sorted**: ages never increase towards older chunks -/
theorem ages_sorted {M : Type} {ops : MapOps M} {ok : M → Prop} (L : MapLaws ops ok)
    {c : Chain M} (hr : Reach ops c) :
    c.chunks.Pairwise (fun newer older => older.age ≤ newer.age) :=
  (chain_inv L hr).sorted

/-- **lastMod ≥ age of the containing chunk**: an in-memory item that is not modified at the current
clock is a tombstone of a key on no chunk, or equals the newest version on the chain and that
version's chunk is not younger than the item's lastMod; and lastMod ≤ clock -/
theorem lastmod_ge_age {M : Type} {ops : MapOps M} {ok : M → Prop} (L : MapLaws ops ok)
    {c : Chain M} (hr : Reach ops c) (k : Nat) (it : Item) (hg : ops.get c.ht k = some it) :
    it.mod ≤ c.clock ∧ (it.mod = c.clock ∨ SyncedTo c.chunks k it) :=
  ⟨(chain_inv L hr).modLe k it hg, (chain_inv L hr).synced k it hg⟩

/-- keys deleted without tombstone stay off the chain: a key absent from memory is on no linked
chunk (what finding 12 violates at the `meta` level by comparing the wrong `created`) -/
theorem absent_not_on_disk {M : Type} {ops : MapOps M} {ok : M → Prop} (L : MapLaws ops ok)
    {c : Chain M} (hr : Reach ops c) (k : Nat) (hg : ops.get c.ht k = none) :
    lookupD c.chunks k = none :=
  (chain_inv L hr).absent k hg


/-! ### db19/meta level: the `created` protocol (PutNew / alter / RenameTable / Drop / persist / reopen)

The chain theorems above need two things from `db19/meta`: every item it puts is stamped with the
clock OF THAT CHAIN (`Reach.put`; seeded change C15-2 breaks it), and an entry is deleted without a
tombstone only when its key is on no linked chunk (`Reach.del`).  The second is what the `created`
field is for; `Gsu.Model.MetaProto` mirrors the protocol (with fixes 12 and 45) and the theorems
below discharge it for every history, including sessions reopened from disk (clock 0, created 0:
the guard `created != 0` that seeded change C15-3 removes). -/

/-- states reachable by meta operations on one chain -/
inductive MReach {M : Type} (ops : MapOps M) : MState M → Prop
  | init : MReach ops { c := { ht := ops.empty, chunks := [], clock := 0 }, created := fun _ => 0 }
  | putNew (s : MState M) (k v : Nat) : MReach ops s → MReach ops (mPutNew ops s k v)
  | alter (s : MState M) (k v : Nat) : MReach ops s → MReach ops (mAlter ops s k v)
  | rename (s : MState M) (frm to v : Nat) : MReach ops s → MReach ops (mRename ops s frm to v)
  | drop (s : MState M) (k : Nat) : MReach ops s → MReach ops (mDrop ops s k)
  | write (s : MState M) (merge id : Nat) :
      MReach ops s → merge ≤ s.c.chunks.length → MReach ops (mWrite ops s merge id)
  | reopen (s : MState M) (rc : Chain M) :
      MReach ops s → readChain ops s.c.chunks = some rc →
      MReach ops { c := rc, created := fun _ => 0 }

/-- **the `created` protocol is sound**: in every reachable meta state the chain invariant holds and
an entry whose `created` is non-zero and equals the clock is on no linked chunk -/
theorem meta_inv {M : Type} {ops : MapOps M} {ok : M → Prop} (L : MapLaws ops ok)
    {s : MState M} (hr : MReach ops s) : MInv ops ok s := by
  induction hr with
  | init => exact mInit_inv L
  | putNew s k v _ ih => exact mPutNew_inv L ih k v
  | alter s k v _ ih => exact mAlter_inv L ih k v
  | rename s frm to v _ ih => exact mRename_inv L ih frm to v
  | drop s k _ ih => exact mDrop_inv L ih k
  | write s merge id _ hm ih => exact mWrite_inv L ih merge id hm
  | reopen s rc _ hread _ => exact mReopen_inv L s.c.chunks rc hread

/-- a Drop that deletes without tombstone only ever removes a key that is on no linked chunk -/
theorem meta_drop_sound {M : Type} {ops : MapOps M} {ok : M → Prop} (L : MapLaws ops ok)
    {s : MState M} (hr : MReach ops s) (k : Nat)
    (hdel : s.created k ≠ 0 ∧ s.created k = s.c.clock) : lookupD s.c.chunks k = none :=
  (meta_inv L hr).crNew k hdel.1 hdel.2

/-- **meta_roundtrip**: after any history of meta operations, persists and reopens, a persist (any
merge schedule) followed by ReadChain yields exactly the live entries of the in-memory table -/
theorem meta_roundtrip {M : Type} {ops : MapOps M} {ok : M → Prop} (L : MapLaws ops ok)
    {s : MState M} (hr : MReach ops s) (merge id : Nat) (hm : merge ≤ s.c.chunks.length)
    (rc : Chain M) (hread : readChain ops (mWrite ops s merge id).c.chunks = some rc) :
    ∀ k, live (ops.get rc.ht k) = live (ops.get s.c.ht k) :=
  roundtrip_of_inv L (meta_inv L hr).ch merge id hm rc hread

/-- non-vacuity: create 3, persist, drop 3 is a reachable meta history -/
example : MReach (trieOps id) (mDrop (trieOps id) (mWrite (trieOps id) (mPutNew (trieOps id)
    { c := { ht := .nil, chunks := [], clock := 0 }, created := fun _ => 0 } 3 7) 0 1) 3) :=
  MReach.drop _ 3 (MReach.write _ 0 1 (MReach.putNew _ 3 7 MReach.init) (Nat.le_refl 0))

/-- (G) **nmerge_bounds**, about the regenerated `nmerge`/`maxChain`: never more than the chain
has, and everything (a flatten) once the chain has `maxChain` chunks -/
theorem nmerge_bounds (no clock : Int) (h : 0 ≤ no) :
    0 ≤ Gsu.Gen.Hamt.nmerge no clock ∧ Gsu.Gen.Hamt.nmerge no clock ≤ no ∧
    (Gsu.Gen.Hamt.maxChain ≤ no → Gsu.Gen.Hamt.nmerge no clock = no) :=
  Gsu.Hamt.nmerge_bounds no clock h

/-- (G) the trie geometry of the model is the one in hamt.go today: 5 bits per level, mask 31,
levels while `shift < 32` (7 levels), overflow nodes from `shift >= 32` in `with` and `without` -/
theorem gen_geometry :
    Gsu.Gen.Hamt.bitsPerItemNode = 5 ∧ Gsu.Gen.Hamt.maskItem = 31 ∧ Gsu.Gen.Hamt.levelBound = 32 ∧
    Gsu.Gen.Hamt.overflowAt_with = Gsu.Gen.Hamt.levelBound ∧
    Gsu.Gen.Hamt.overflowAt_without = Gsu.Gen.Hamt.levelBound ∧
    (nLevels - 1) * Gsu.Gen.Hamt.bitsPerItemNode < Gsu.Gen.Hamt.levelBound ∧
    Gsu.Gen.Hamt.levelBound ≤ nLevels * Gsu.Gen.Hamt.bitsPerItemNode := by decide

/-- (G) the regenerated `hashbit` selects the slot given by the model's digit -/
theorem gen_hashbit (h s : Nat) : Gsu.Gen.Hamt.hashbit h s = 2 ^ ((h / 2 ^ s) % 32) :=
  hashbit_eq h s

/-- (G) the model's digits are the `hashbit` slots at shifts `bitsPerItemNode * i` -/
theorem gen_digits (h : Nat) :
    digits h = (List.range nLevels).map fun i => (h / 2 ^ (Gsu.Gen.Hamt.bitsPerItemNode * i)) % 32 :=
  digits_eq h

/-- **hamt_map**: for ANY hash function the trie (`get`/`with`/`without`/`pullUp`/`forEach` mirror,
collisions pushed down to overflow nodes) is a lawful map on well-formed roots: `WFR` holds for the
empty trie and is preserved by put and delete; `get` after `put`/`delete` is map update/removal;
`get` only returns items stored under that key; `all` lists exactly the items `get` finds. -/
theorem hamt_map (hf : Nat → Nat) : MapLaws (trieOps hf) (WFR hf) where
  ok_empty := wfr_empty hf
  get_empty := trie_get_empty hf
  ok_put := fun m x h => wfr_put hf m x h
  get_put := fun m x k _ => trie_get_put hf m x k
  ok_del := fun m k h => wfr_del hf m k h
  get_del := fun m k k' h => trie_get_del hf m k k' h
  get_key := fun m k x _ h => trie_get_key hf m k x h
  mem_all := fun m x h => trie_mem_all hf x h.1

/-- `all` never lists two items with the same key -/
theorem hamt_keys_unique (hf : Nat → Nat) (t : T) (h : WFR hf t) (x y : Item)
    (hx : x ∈ (trieOps hf).all t) (hy : y ∈ (trieOps hf).all t) (hk : y.key = x.key) : y = x :=
  key_unique nLevels (fun k => digits (hf k)) (fun _ => digits_length _) t h.1 x y hx hy hk

/-- `chain_roundtrip` for the trie the code uses, with no hypothesis left -/
theorem trie_chain_roundtrip (hf : Nat → Nat) {c : Chain T} (hr : Reach (trieOps hf) c)
    (merge id : Nat) (hm : merge ≤ c.chunks.length) (rc : Chain T)
    (hread : readChain (trieOps hf) (writeChainWith (trieOps hf) c merge id).2.chunks = some rc) :
    ∀ k, live ((trieOps hf).get rc.ht k) = live ((trieOps hf).get c.ht k) :=
  chain_roundtrip (hamt_map hf) hr merge id hm rc hread

/-- `meta_roundtrip` for the trie, with no hypothesis left -/
theorem trie_meta_roundtrip (hf : Nat → Nat) {s : MState T} (hr : MReach (trieOps hf) s)
    (merge id : Nat) (hm : merge ≤ s.c.chunks.length) (rc : Chain T)
    (hread : readChain (trieOps hf) (mWrite (trieOps hf) s merge id).c.chunks = some rc) :
    ∀ k, live ((trieOps hf).get rc.ht k) = live ((trieOps hf).get s.c.ht k) :=
  meta_roundtrip (hamt_map hf) hr merge id hm rc hread

/-- non-vacuity: a reachable state of the trie-backed chain … -/
example : Reach (trieOps id) (writeChainWith (trieOps id)
    { ht := (trieOps id).put .nil ⟨3, 7, false, 0⟩, chunks := [], clock := 0 } 0 1).2 :=
  Reach.write _ 0 1 (Reach.put _ 3 7 false Reach.init) (Nat.le_refl 0)

/-- … and the hypotheses of `chain_roundtrip` are met by a concrete write/read cycle -/
example : (readChain (trieOps id) (writeChainWith (trieOps id)
    { ht := (trieOps id).put .nil ⟨3, 7, false, 0⟩, chunks := [], clock := 0 } 0 1).2.chunks).isSome = true := by
  decide

end Gsu.Props.C15
