/-
C33 — Date arithmetic follows the Gregorian calendar.

"Adding years, months, days, hours, minutes, seconds or milliseconds to a date gives the
proleptic Gregorian date obtained by normalizing the overflowed fields, day and millisecond
differences are consistent with such additions, date ordering is chronological, and a date's
literal text parses back to the same date."

Property theorems only; helper lemmas live in `Gsu/Proofs/Date.lean`. The definitions are the
executable mirror `Gsu/Model/Date.lean` the driver runs against the Go code; `jdn` is the
REGENERATED `julianDayNumber` of core/sudate.go.
-/
import Gsu.Proofs.Date
import Gsu.Proofs.Date2
import Gsu.Proofs.Date3
import Gsu.Proofs.Date4
import Gsu.Gen.Date
namespace Gsu.Props.C33
open Gsu.Date

/-! ## (G) regenerated definitions -/

/-- the field ranges of `valid` and the shifts of the bit packing in sudate.go today are the
ones the model uses (`packDate = yr·2^9 + mon·2^5 + day`, `packTime = hr·2^22 + min·2^16 + sec·2^10 + ms`) -/
theorem gen_constants :
    [Gsu.Gen.Date.mmYearMin, Gsu.Gen.Date.mmYearMax, Gsu.Gen.Date.mmMonthMin, Gsu.Gen.Date.mmMonthMax,
      Gsu.Gen.Date.mmDayMin, Gsu.Gen.Date.mmDayMax, Gsu.Gen.Date.mmHourMin, Gsu.Gen.Date.mmHourMax,
      Gsu.Gen.Date.mmMinuteMin, Gsu.Gen.Date.mmMinuteMax, Gsu.Gen.Date.mmSecondMin,
      Gsu.Gen.Date.mmSecondMax, Gsu.Gen.Date.mmMillisecondMin, Gsu.Gen.Date.mmMillisecondMax] =
      [0, 3000, 1, 12, 1, 31, 0, 23, 0, 59, 0, 59, 0, 999] ∧
    [2 ^ Gsu.Gen.Date.shift_yr, 2 ^ Gsu.Gen.Date.shift_mon, 2 ^ Gsu.Gen.Date.shift_hr,
      2 ^ Gsu.Gen.Date.shift_min, 2 ^ Gsu.Gen.Date.shift_sec] = [512, 32, 4194304, 65536, 1024] := by
  decide

/-- the generated `julianDayNumber` at a known date (2000-01-01 is JDN 2451545) -/
theorem jdn_known : jdn 2000 1 1 = 2451545 ∧ jdn 1700 1 1 = 2341973 ∧ jdn 3000 1 1 = 2816788 := by
  decide

/-! ## the calendar -/

/-- Consecutive calendar days (same month, month end incl. the Gregorian leap rule, year end)
have consecutive day numbers — stated about the GENERATED `julianDayNumber`. -/
theorem jdn_succ (y m d : Int) (hy : 0 ≤ y) (hm1 : 1 ≤ m) (hm2 : m ≤ 12) (hd1 : 1 ≤ d)
    (hd2 : d ≤ daysInMonth y m) :
    jdn (nextDay y m d).1 (nextDay y m d).2.1 (nextDay y m d).2.2 = jdn y m d + 1 :=
  Gsu.Date.jdn_succ y m d hy hm1 hm2 hd1 hd2

example : nextDay 2000 2 28 = (2000, 2, 29) ∧ nextDay 1900 2 28 = (1900, 3, 1) ∧
    nextDay 2999 12 31 = (3000, 1, 1) := by decide

/-- The day of the week advances by one (mod 7) from each calendar day to the next, and
2000-01-01 was a Saturday (`WeekDay`, Sunday = 0). -/
theorem weekDay_succ (f : Fields) (hy : 0 ≤ f.yr) (hm1 : 1 ≤ f.mon) (hm2 : f.mon ≤ 12) (hd1 : 1 ≤ f.day)
    (hd2 : f.day ≤ daysInMonth f.yr f.mon) :
    weekDay ⟨(nextDay f.yr f.mon f.day).1, (nextDay f.yr f.mon f.day).2.1, (nextDay f.yr f.mon f.day).2.2,
      f.hr, f.min, f.sec, f.ms⟩ = (weekDay f + 1) % 7 ∧ weekDay ⟨2000, 1, 1, 0, 0, 0, 0⟩ = 6 := by
  have := Gsu.Date.jdn_succ f.yr f.mon f.day hy hm1 hm2 hd1 hd2
  refine ⟨?_, by decide⟩
  simp only [weekDay, this]
  omega

/-! ## addition = normalisation of the overflowed fields -/

/-- `Plus` is `normalize` of the field-wise sum, and whenever `normalize` returns a date it is a
valid calendar date/time denoting the same instant as the overflowed fields (`absMs`: months
carried into years, day/hour/minute/second/ms offsets linear on the proleptic Gregorian day
number). A valid date/time is determined by its instant (`instant_determines_date` below), so
this fixes the result (`plus_unique`). That `normalize` does return a date on the supported range
is `plus_total` below. -/
theorem plus_normalize (d off e : Fields) (h : plus d off = some e) :
    normalize (addFields d off) = some e ∧ valid e = true ∧ absMs e = absMs (addFields d off) :=
  ⟨h, Gsu.Date.normalize_spec _ _ h⟩

/-- The generated `julianDayNumber` is injective on calendar days (so day differences are 0 only
for the same day), and a valid date/time is determined by the instant it denotes. -/
theorem instant_determines_date :
    (∀ y m d y' m' d' : Int, validYMD y m d = true → validYMD y' m' d' = true →
      jdn y m d = jdn y' m' d' → y = y' ∧ m = m' ∧ d = d') ∧
    (∀ a b : Fields, valid a = true → valid b = true → absMs a = absMs b → a = b) := by
  refine ⟨?_, Gsu.Date.absMs_inj⟩
  intro y m d y' m' d' h h' hj
  simp only [validYMD, Bool.and_eq_true, decide_eq_true_eq] at h h'
  obtain ⟨⟨⟨⟨⟨a1, _⟩, a3⟩, a4⟩, a5⟩, a6⟩ := h
  obtain ⟨⟨⟨⟨⟨b1, _⟩, b3⟩, b4⟩, b5⟩, b6⟩ := h'
  exact Gsu.Date.jdn_inj _ _ _ _ _ _ (by omega) (by omega) a3 a4 a5 a6 b3 b4 b5 b6 hj

/-- the result of `Plus` is THE valid date/time at the instant denoted by the overflowed sum -/
theorem plus_unique (d off e e' : Fields) (h : plus d off = some e) (hv : valid e' = true)
    (hi : absMs e' = absMs (addFields d off)) : e' = e := by
  obtain ⟨hv2, hi2⟩ := Gsu.Date.normalize_spec _ _ h
  exact Gsu.Date.absMs_inj e' e hv hv2 (hi.trans hi2.symm)

/-- Totality: when the month-normalised year is not absurd (−4000..10000, outside the model
answers NilDate without looking at the days) and the instant denoted by the overflowed sum lies
between 0000-01-01 00:00:00.000 and 3000-01-01 00:00:00.000 inclusive, `Plus` returns a date — the
valid date/time at exactly that instant. (The model converts the day number back with the closed
formula `civil` and CHECKS it against the generated `julianDayNumber`; `civil_inverts_jdn` shows
the check cannot fail.) -/
theorem plus_total (d off : Fields)
    (hy0 : -4000 ≤ normYear (d.yr + off.yr) (d.mon + off.mon))
    (hy1 : normYear (d.yr + off.yr) (d.mon + off.mon) ≤ 10000)
    (h0 : absMs ⟨0, 1, 1, 0, 0, 0, 0⟩ ≤ absMs (addFields d off))
    (h1 : absMs (addFields d off) ≤ absMs ⟨3000, 1, 1, 0, 0, 0, 0⟩) :
    ∃ e, plus d off = some e ∧ valid e = true ∧ absMs e = absMs (addFields d off) := by
  have e0 : absMs ⟨0, 1, 1, 0, 0, 0, 0⟩ = 1721060 * 86400000 := by decide
  have e1 : absMs ⟨3000, 1, 1, 0, 0, 0, 0⟩ = 2816788 * 86400000 := by decide
  obtain ⟨e, he⟩ := Gsu.Date.normalize_total (addFields d off) hy0 hy1 (e0 ▸ h0) (e1 ▸ h1)
  exact ⟨e, he, Gsu.Date.normalize_spec _ _ he⟩

/-- the closed-form civil date used by the model inverts the GENERATED `julianDayNumber` on every
day number from 0000-01-01 to 3000-01-01 and yields a calendar day of the supported years, so the
checked inversion `fromJdn` never fails there -/
theorem civil_inverts_jdn (n : Int) (h0 : jdn 0 1 1 ≤ n) (h1 : n ≤ jdn 3000 1 1) :
    fromJdn n = some (civil n) ∧ jdn (civil n).1 (civil n).2.1 (civil n).2.2 = n ∧
      validYMD (civil n).1 (civil n).2.1 (civil n).2.2 = true := by
  have e0 : jdn 0 1 1 = 1721060 := by decide
  have e1 : jdn 3000 1 1 = 2816788 := by decide
  rw [e0] at h0; rw [e1] at h1
  exact ⟨Gsu.Date.fromJdn_total n h0 h1, Gsu.Date.civil_spec n h0 h1⟩

example : plus ⟨2024, 1, 31, 23, 59, 59, 999⟩ ⟨0, 1, 0, 0, 0, 0, 1⟩ = some ⟨2024, 3, 3, 0, 0, 0, 0⟩ := by
  decide

/-- Day differences are consistent with additions: `(d + n days) − d = n` days, and the time of
day is unchanged. -/
theorem minusDays_plus (d e : Fields) (n : Int) (hd : valid d = true)
    (h : plus d ⟨0, 0, n, 0, 0, 0, 0⟩ = some e) :
    minusDays e d = n ∧ timeAsMs e = timeAsMs d := by
  obtain ⟨a, b⟩ := Gsu.Date.plus_days d e n hd h
  exact ⟨by simp only [minusDays]; omega, b⟩

example : valid ⟨1900, 2, 28, 12, 0, 0, 0⟩ = true ∧
    plus ⟨1900, 2, 28, 12, 0, 0, 0⟩ ⟨0, 0, 36525, 0, 0, 0, 0⟩ = some ⟨2000, 2, 29, 12, 0, 0, 0⟩ := by decide

/-- Millisecond differences are consistent with additions: `(d + k ms) − d = k` ms (both
branches of `MinusMs`). -/
theorem minusMs_plus (d e : Fields) (k : Int) (hd : valid d = true)
    (h : plus d ⟨0, 0, 0, 0, 0, 0, k⟩ = some e) : minusMs e d = k := by
  obtain ⟨a, hv⟩ := Gsu.Date.plus_ms d e k hd h
  rw [Gsu.Date.minusMs_eq e d (Gsu.Date.valid_inRange _ hv) (Gsu.Date.valid_inRange _ hd)]
  exact a

/-! ## order -/

/-- Date ordering is chronological: comparing the packed words (`SuDate.Compare`, and by C13
`date_order` the packed bytes) is comparing (year, month, day, hour, minute, second, ms)
lexicographically. -/
theorem field_pack_monotone (a b : Fields) (ha : valid a = true) (hb : valid b = true) :
    compare a b = cmpFields a b :=
  Gsu.Date.field_pack_monotone a b (Gsu.Date.valid_inRange _ ha) (Gsu.Date.valid_inRange _ hb)

example : valid ⟨2024, 2, 29, 23, 59, 59, 999⟩ = true ∧ valid ⟨2024, 3, 1, 0, 0, 0, 0⟩ = true := by decide

/-! ## literal text -/

/-- A date's literal text parses back to the same date: `DateFromLiteral (d.String()) = d` for
EVERY valid date — `String` picks one of the four trimmed forms `#yyyymmdd`, `#yyyymmdd.hhmm`,
`#yyyymmdd.hhmmss`, `#yyyymmdd.hhmmssmmm` (`toLiteral`), all are covered — and the result is a
plain date (extra = 0). -/
theorem literal_roundtrip (f : Fields) (hv : valid f = true) :
    fromLiteral (toLiteral f) = some (f, 0) :=
  Gsu.Date.literal_roundtrip f hv

/-- the same for the spelling without the leading `#` (`DateFromLiteral` accepts both) -/
theorem literal_roundtrip_nohash (f : Fields) (hv : valid f = true) :
    fromLiteral (toLiteral f).tail = some (f, 0) :=
  Gsu.Date.literal_roundtrip_nohash f hv

/-- A timestamp's literal text (`SuTimestamp.String`: full date and time plus the three-digit
extra counter) parses back to the same date and the same counter, for every valid date part and
every counter 1..255. -/
theorem ts_literal_roundtrip (f : Fields) (x : Int) (hv : valid f = true) (hx0 : 0 < x) (hx1 : x < 256) :
    fromLiteral (tsLiteral f x) = some (f, x) :=
  Gsu.Date.ts_literal_roundtrip f x hv hx0 hx1

/-- one instance per trimmed form and a timestamp -/
example :
    fromLiteral (toLiteral ⟨2024, 2, 29, 0, 0, 0, 0⟩) = some (⟨2024, 2, 29, 0, 0, 0, 0⟩, 0) ∧
    fromLiteral (toLiteral ⟨1700, 1, 1, 23, 59, 0, 0⟩) = some (⟨1700, 1, 1, 23, 59, 0, 0⟩, 0) ∧
    fromLiteral (toLiteral ⟨2999, 12, 31, 1, 2, 3, 0⟩) = some (⟨2999, 12, 31, 1, 2, 3, 0⟩, 0) ∧
    fromLiteral (toLiteral ⟨2000, 10, 5, 1, 2, 3, 40⟩) = some (⟨2000, 10, 5, 1, 2, 3, 40⟩, 0) ∧
    fromLiteral (tsLiteral ⟨2000, 10, 5, 1, 2, 3, 40⟩ 255) = some (⟨2000, 10, 5, 1, 2, 3, 40⟩, 255) ∧
    toLiteral ⟨2000, 10, 5, 1, 2, 0, 0⟩ = [35, 50, 48, 48, 48, 49, 48, 48, 53, 46, 48, 49, 48, 50] := by
  decide

end Gsu.Props.C33
