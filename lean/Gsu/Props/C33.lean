/-
C33 — Date arithmetic follows the Gregorian calendar.

"Adding years, months, days, hours, minutes, seconds or milliseconds to a date gives the
proleptic Gregorian date obtained by normalizing the overflowed fields, day and millisecond
differences are consistent with such additions, date ordering is chronological, and a date's
literal text parses back to the same date."

Property theorems only; helper lemmas live in `Gsu/Proofs/Date.lean`. The definitions are the
executable mirror `Gsu/Model/Date.lean` the driver runs against the Go code; `jdn` is the
REGENERATED `julianDayNumber` of core/sudate.go.
-/
import Gsu.Proofs.Date
import Gsu.Proofs.Date2
import Gsu.Gen.Date
namespace Gsu.Props.C33
open Gsu.Date

/-! ## (G) regenerated definitions -/

/-- the field ranges of `valid` and the shifts of the bit packing in sudate.go today are the
ones the model uses (`packDate = yr·2^9 + mon·2^5 + day`, `packTime = hr·2^22 + min·2^16 + sec·2^10 + ms`) -/
theorem gen_constants :
    [Gsu.Gen.Date.mmYearMin, Gsu.Gen.Date.mmYearMax, Gsu.Gen.Date.mmMonthMin, Gsu.Gen.Date.mmMonthMax,
      Gsu.Gen.Date.mmDayMin, Gsu.Gen.Date.mmDayMax, Gsu.Gen.Date.mmHourMin, Gsu.Gen.Date.mmHourMax,
      Gsu.Gen.Date.mmMinuteMin, Gsu.Gen.Date.mmMinuteMax, Gsu.Gen.Date.mmSecondMin,
      Gsu.Gen.Date.mmSecondMax, Gsu.Gen.Date.mmMillisecondMin, Gsu.Gen.Date.mmMillisecondMax] =
      [0, 3000, 1, 12, 1, 31, 0, 23, 0, 59, 0, 59, 0, 999] ∧
    [2 ^ Gsu.Gen.Date.shift_yr, 2 ^ Gsu.Gen.Date.shift_mon, 2 ^ Gsu.Gen.Date.shift_hr,
      2 ^ Gsu.Gen.Date.shift_min, 2 ^ Gsu.Gen.Date.shift_sec] = [512, 32, 4194304, 65536, 1024] := by
  decide

/-- the generated `julianDayNumber` at a known date (2000-01-01 is JDN 2451545) -/
theorem jdn_known : jdn 2000 1 1 = 2451545 ∧ jdn 1700 1 1 = 2341973 ∧ jdn 3000 1 1 = 2816788 := by
  decide

/-! ## the calendar -/

/-- Consecutive calendar days (same month, month end incl. the Gregorian leap rule, year end)
have consecutive day numbers — stated about the GENERATED `julianDayNumber`. -/
theorem jdn_succ (y m d : Int) (hy : 0 ≤ y) (hm1 : 1 ≤ m) (hm2 : m ≤ 12) (hd1 : 1 ≤ d)
    (hd2 : d ≤ daysInMonth y m) :
    jdn (nextDay y m d).1 (nextDay y m d).2.1 (nextDay y m d).2.2 = jdn y m d + 1 :=
  Gsu.Date.jdn_succ y m d hy hm1 hm2 hd1 hd2

example : nextDay 2000 2 28 = (2000, 2, 29) ∧ nextDay 1900 2 28 = (1900, 3, 1) ∧
    nextDay 2999 12 31 = (3000, 1, 1) := by decide

/-- The day of the week advances by one (mod 7) from each calendar day to the next, and
2000-01-01 was a Saturday (`WeekDay`, Sunday = 0). -/
theorem weekDay_succ (f : Fields) (hy : 0 ≤ f.yr) (hm1 : 1 ≤ f.mon) (hm2 : f.mon ≤ 12) (hd1 : 1 ≤ f.day)
    (hd2 : f.day ≤ daysInMonth f.yr f.mon) :
    weekDay ⟨(nextDay f.yr f.mon f.day).1, (nextDay f.yr f.mon f.day).2.1, (nextDay f.yr f.mon f.day).2.2,
      f.hr, f.min, f.sec, f.ms⟩ = (weekDay f + 1) % 7 ∧ weekDay ⟨2000, 1, 1, 0, 0, 0, 0⟩ = 6 := by
  have := Gsu.Date.jdn_succ f.yr f.mon f.day hy hm1 hm2 hd1 hd2
  refine ⟨?_, by decide⟩
  simp only [weekDay, this]
  omega

/-! ## addition = normalisation of the overflowed fields -/

/-- `Plus` is `normalize` of the field-wise sum, and whenever `normalize` returns a date it is a
valid calendar date/time denoting the same instant as the overflowed fields (`absMs`: months
carried into years, day/hour/minute/second/ms offsets linear on the proleptic Gregorian day
number). A valid date/time is determined by its instant, so this fixes the result.
NOT proved (tied by the correspondence run only): that `normalize` does return a date whenever
the normalised instant lies in the supported years (the model converts the day number back with
a closed formula and CHECKS it against `julianDayNumber`; a failed check would show up as a
`!bad` answer the Go code does not give). -/
theorem plus_normalize (d off e : Fields) (h : plus d off = some e) :
    normalize (addFields d off) = some e ∧ valid e = true ∧ absMs e = absMs (addFields d off) :=
  ⟨h, Gsu.Date.normalize_spec _ _ h⟩

example : plus ⟨2024, 1, 31, 23, 59, 59, 999⟩ ⟨0, 1, 0, 0, 0, 0, 1⟩ = some ⟨2024, 3, 3, 0, 0, 0, 0⟩ := by
  decide

/-- Day differences are consistent with additions: `(d + n days) − d = n` days, and the time of
day is unchanged. -/
theorem minusDays_plus (d e : Fields) (n : Int) (hd : valid d = true)
    (h : plus d ⟨0, 0, n, 0, 0, 0, 0⟩ = some e) :
    minusDays e d = n ∧ timeAsMs e = timeAsMs d := by
  obtain ⟨a, b⟩ := Gsu.Date.plus_days d e n hd h
  exact ⟨by simp only [minusDays]; omega, b⟩

example : valid ⟨1900, 2, 28, 12, 0, 0, 0⟩ = true ∧
    plus ⟨1900, 2, 28, 12, 0, 0, 0⟩ ⟨0, 0, 36525, 0, 0, 0, 0⟩ = some ⟨2000, 2, 29, 12, 0, 0, 0⟩ := by decide

/-- Millisecond differences are consistent with additions: `(d + k ms) − d = k` ms (both
branches of `MinusMs`). -/
theorem minusMs_plus (d e : Fields) (k : Int) (hd : valid d = true)
    (h : plus d ⟨0, 0, 0, 0, 0, 0, k⟩ = some e) : minusMs e d = k := by
  obtain ⟨a, hv⟩ := Gsu.Date.plus_ms d e k hd h
  rw [Gsu.Date.minusMs_eq e d (Gsu.Date.valid_inRange _ hv) (Gsu.Date.valid_inRange _ hd)]
  exact a

/-! ## order -/

/-- Date ordering is chronological: comparing the packed words (`SuDate.Compare`, and by C13
`date_order` the packed bytes) is comparing (year, month, day, hour, minute, second, ms)
lexicographically. -/
theorem field_pack_monotone (a b : Fields) (ha : valid a = true) (hb : valid b = true) :
    compare a b = cmpFields a b :=
  Gsu.Date.field_pack_monotone a b (Gsu.Date.valid_inRange _ ha) (Gsu.Date.valid_inRange _ hb)

example : valid ⟨2024, 2, 29, 23, 59, 59, 999⟩ = true ∧ valid ⟨2024, 3, 1, 0, 0, 0, 0⟩ = true := by decide

/-! ## literal text -/

/-- A date's literal text parses back to the same date: `DateFromLiteral (d.String()) = d` for
EVERY valid date — `String` picks one of the four trimmed forms `#yyyymmdd`, `#yyyymmdd.hhmm`,
`#yyyymmdd.hhmmss`, `#yyyymmdd.hhmmssmmm` (`toLiteral`), all are covered — and the result is a
plain date (extra = 0). -/
theorem literal_roundtrip (f : Fields) (hv : valid f = true) :
    fromLiteral (toLiteral f) = some (f, 0) :=
  Gsu.Date.literal_roundtrip f hv

/-- the same for the spelling without the leading `#` (`DateFromLiteral` accepts both) -/
theorem literal_roundtrip_nohash (f : Fields) (hv : valid f = true) :
    fromLiteral (toLiteral f).tail = some (f, 0) :=
  Gsu.Date.literal_roundtrip_nohash f hv

/-- A timestamp's literal text (`SuTimestamp.String`: full date and time plus the three-digit
extra counter) parses back to the same date and the same counter, for every valid date part and
every counter 1..255. -/
theorem ts_literal_roundtrip (f : Fields) (x : Int) (hv : valid f = true) (hx0 : 0 < x) (hx1 : x < 256) :
    fromLiteral (tsLiteral f x) = some (f, x) :=
  Gsu.Date.ts_literal_roundtrip f x hv hx0 hx1

/-- one instance per trimmed form and a timestamp -/
example :
    fromLiteral (toLiteral ⟨2024, 2, 29, 0, 0, 0, 0⟩) = some (⟨2024, 2, 29, 0, 0, 0, 0⟩, 0) ∧
    fromLiteral (toLiteral ⟨1700, 1, 1, 23, 59, 0, 0⟩) = some (⟨1700, 1, 1, 23, 59, 0, 0⟩, 0) ∧
    fromLiteral (toLiteral ⟨2999, 12, 31, 1, 2, 3, 0⟩) = some (⟨2999, 12, 31, 1, 2, 3, 0⟩, 0) ∧
    fromLiteral (toLiteral ⟨2000, 10, 5, 1, 2, 3, 40⟩) = some (⟨2000, 10, 5, 1, 2, 3, 40⟩, 0) ∧
    fromLiteral (tsLiteral ⟨2000, 10, 5, 1, 2, 3, 40⟩ 255) = some (⟨2000, 10, 5, 1, 2, 3, 40⟩, 255) ∧
    toLiteral ⟨2000, 10, 5, 1, 2, 0, 0⟩ = [35, 50, 48, 48, 48, 49, 48, 48, 53, 46, 48, 49, 48, 50] := by
  decide

end Gsu.Props.C33
