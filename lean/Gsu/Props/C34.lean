/-
C34 — Timestamps are unique and increasing.

"Every timestamp handed out by the database, directly or through any client's local batching, is
distinct from every other timestamp handed out during the server's lifetime, and the timestamps
one caller receives strictly increase."
Quantifier: all interleavings of the server clock tick, server timestamp requests and any number
of clients consuming their batches, from any starting millisecond.

Model: `Gsu.Ts` — the machine `drv_c34` replays against `db19.Timestamp`, the ticker's critical
section, `Thread.Timestamp` and `tsExpire`. Every operation runs under `tsLock` (server) or the
client's `tsLock`, so an interleaving is a sequence of `Op`s; `run` returns the log of
`(caller, stamp)` pairs, newest first. Regenerated: `Gsu.Gen.Ts`.

Property theorems only; lemmas are in `Gsu/Proofs/Ts.lean`.
-/
import Gsu.Proofs.Ts
import Gsu.Gen.Ts
namespace Gsu.Props.C34
open Gsu.Ts Gsu.Gen.Ts

/-- The reserved-window invariant holds after every schedule from every initial millisecond
`ts0` and any number `n` of client processes: everything issued and every client's remaining
batch lies strictly below the server's next stamp, batches are pairwise disjoint, contain
nothing issued yet and lie above what their client already received. (full) -/
theorem reserved_window (ts0 n : Nat) (ops : List Op) :
    TsInv (run (init ts0 n) [] ops).1 (run (init ts0 n) [] ops).2 :=
  run_inv ops _ _ (inv_init ts0 n)

/-- All stamps handed out — by direct server calls and through every client's batching — are
pairwise distinct, for every interleaving `ops` of ticks (any clock values, also backwards),
server calls, client calls and client expiries, any number of clients, any start. (full) -/
theorem ts_unique (ts0 n : Nat) (ops : List Op) :
    (run (init ts0 n) [] ops).2.Pairwise (fun a b => a.2 ≠ b.2) :=
  (reserved_window ts0 n ops).unique

/-- The stamps one caller receives strictly increase (`CompareSuTimestamp`): for client process
`some i` its own sequence; for `none` even the merged sequence of all direct server callers.
The log is newest first. (full) -/
theorem ts_increasing_per_caller (ts0 n : Nat) (ops : List Op) :
    (run (init ts0 n) [] ops).2.Pairwise (fun newer older => newer.1 = older.1 → slt older.2 newer.2) :=
  (reserved_window ts0 n ops).increasing

/-- A stamp obtained from the server (directly or by a client's fetch) is larger than every
stamp handed out before it, to anyone: everything issued is below the server's next stamp. -/
theorem ts_server_above_all (ts0 n : Nat) (ops : List Op) :
    ∀ e ∈ (run (init ts0 n) [] ops).2, slt e.2 ((run (init ts0 n) [] ops).1.ts, 0) :=
  (reserved_window ts0 n ops).issuedLt

/-- (G) the relations between the constants of `core/idbms.go`, `db19.Timestamp` and
`Thread.Timestamp` the proof uses: the client's batch fits into the window the server skips,
the client uses batch mode only where the server skipped a window, `AddMs(TsInitialBatch)`
cannot cross a second (where `AddMs` would add 1 only), the extra byte cannot wrap. -/
theorem gen_constants :
    fastInc = 1 ∧ tsInitialBatch = clientBatch ∧ clientBatch ≤ srvBumpLow ∧
    clientThreshold ≤ srvThreshold ∧ srvThreshold + srvBumpLow ≤ 1000 ∧ 0 < srvBumpLow ∧
    0 < srvBumpHigh ∧ extraLimit ≤ 256 ∧ clientBatch ≠ extraLimit ∧ clientBatch ≤ 256 ∧
    srvThreshold = tsThreshold ∧ clientThreshold = tsThreshold ∧ srvBumpLow = tsInitialBatch := by
  decide

/-- (G) the statement lists the machine mirrors are the ones in the source today -/
theorem gen_shape :
    serverBody = [
      "tsLock.Lock()", "defer tsLock.Unlock()", "ts := timestamp",
      "if ts.Millisecond() < TsThreshold {", "timestamp = timestamp.AddMs(TsInitialBatch)",
      "} else {", "timestamp = timestamp.AddMs(1)", "}", "return ts"] ∧
    tickerCritical = ["if t.Compare(timestamp) > 0 {", "timestamp = t", "}"] ∧
    tickerWrites = 1 ∧
    clientBody = [
      "tsLock.Lock()", "defer tsLock.Unlock()",
      "if tsCount++; tsCount < tsLimit {",
      "if tsLimit == TsInitialBatch {", "tsLast = tsLast.AddMs(1)", "return tsLast", "}",
      "return SuTimestamp{SuDate: tsLast, extra: uint8(tsCount)}", "}",
      "if tsLimit == 0 {", "go tsExpire()", "}",
      "tsLast = th.Dbms().Timestamp()", "tsCount = 0",
      "if tsLast.Millisecond() < TsThreshold {", "tsLimit = TsInitialBatch",
      "} else {", "tsLimit = 256", "}", "return tsLast"] ∧
    expireBody = [
      "for {", "time.Sleep(1 * time.Second)", "tsLock.Lock()", "tsCount = tsLimit + 1",
      "tsLock.Unlock()", "}"] ∧
    addMsBody = [
      "assert.That(0 < ms && ms < 100)", "orig := d",
      "if int(d.Millisecond())+ms < 1000 {", "d.time += uint32(ms)", "return d", "}",
      "return orig.Plus(0, 0, 0, 0, 0, 0, 1)"] := by
  decide

/-- The mirror of `SuDate.AddMs` adds exactly `k` ms wherever the timestamp code calls it
(server: `TsInitialBatch` below the threshold, 1 otherwise; client: 1) — its fallback branch,
which adds 1 ms whatever `k` is, is only reached with `k = 1`. -/
theorem addMs_exact (t : Nat) :
    addMs t 1 = t + 1 ∧ (t % 1000 < srvThreshold → addMs t srvBumpLow = t + srvBumpLow) := by
  refine ⟨addMs_one t, fun h => ?_⟩
  have := (genFacts).nowrap
  unfold addMs
  rw [if_pos (by omega)]

-- non-vacuity: a schedule with two clients, a direct caller, ticks (one backwards) and an expiry,
-- starting at ms 998 of a second (extra-byte mode first, batch mode after the second rolls over)
example :
    let ops := [Op.client 0, .client 0, .server, .client 1, .tick 500, .client 0, .expire 0,
                .client 0, .client 1, .tick 5000, .client 1, .client 1, .server]
    (run (init 998 2) [] ops).2.reverse =
      [(some 0, (998, 0)), (some 0, (998, 1)), (none, (999, 0)), (some 1, (1000, 0)),
       (some 0, (998, 2)), (some 0, (1005, 0)), (some 1, (1001, 0)), (some 1, (1002, 0)),
       (some 1, (1003, 0)), (none, (5000, 0))] := by decide

end Gsu.Props.C34
