import Gsu.Proofs.SchemaAlg
/-!
# C21 Schema changes keep metadata consistent

"After any sequence of create, ensure, alter (create/drop/rename columns and indexes), rename
table, view and drop operations, every table has at least one key, every index refers to
existing columns, foreign-key links in both directions refer to the correct tables and indexes,
data read through every index is unchanged, and the schema text re-parses to the same schema."
— over any sequence of admin requests (valid or invalid) over tables with data and foreign
keys, including self-referencing foreign keys.

The theorems are about `Gsu.SchemaAlg` (Model/SchemaAlg.lean), the definitions that
`Drive/C21.lean` executes against the real `DoAdmin` in the correspondence suite.
`data_unchanged` and `schema_text_roundtrip` have no Lean statement here (the model has no
rows and no parser); they are direct oracles of the suite only.
-/
namespace Gsu.Props.C21
open Gsu.SchemaAlg

/-- One admin request of the model (views do not touch table metadata and are kept in the
driver only). -/
inductive Op where
  | create (t : String) (cols : List String) (specs : List Index)
  | alterCreate (t : String) (hasData : Bool) (cols : List String) (specs : List Index)
  | ensure (t : String) (hasData : Bool) (cols : List String) (specs : List Index)
  | alterDrop (t : String) (cols : List String) (idxs : List (List String))
  | renameCol (t : String) (from_ to : List String)
  | renameTable (from_ to : String)
  | drop (t : String)

def Op.run (db : Db) : Op → Option Db
  | .create t c s => Gsu.SchemaAlg.create db t c s
  | .alterCreate t d c s => Gsu.SchemaAlg.alterCreate db t d c s
  | .ensure t d c s => Gsu.SchemaAlg.ensure db t d c s
  | .alterDrop t c i => Gsu.SchemaAlg.alterDrop db t c i
  | .renameCol t f to => Gsu.SchemaAlg.alterRenameCol db t f to
  | .renameTable f to => Gsu.SchemaAlg.renameTable db f to
  | .drop t => Gsu.SchemaAlg.drop db t

/-- the metadata after a history of requests, accepted or rejected -/
def runAll (db : Db) : List Op → Db
  | [] => db
  | op :: r => runAll (keep db (op.run db)) r

/-- `rejected_is_noop`: a request that is rejected leaves the metadata as it was. -/
theorem rejected_is_noop (db : Db) (op : Op) (h : op.run db = none) : keep db (op.run db) = db := by
  rw [h]; rfl

/-- `schema_wf`, FULL STATEMENT (not proved): `WF db → WF (keep db (op.run db))` for every `op`,
where `WF` = `valid` ∧ `fkcols` ∧ `inv` (Proofs/SchemaAlg.lean).
PROVED here, for all seven operations and every history, accepted or rejected: the `valid`
component — every table has ≥ 1 key, index columns exist, no duplicate index, and every `Fk`
names an existing table in which `Fk.columns` is the key at position `Fk.iindex`.
MISSING: preservation of `fkcols` and of `inv` (FkToHere = exact inverse of Fk) by the
operations; `inv` is only covered by the suite's direct oracle and the differential replay. -/
theorem schema_wf_partial (db : Db) (op : Op) (h : validate db = true) :
    validate (keep db (op.run db)) = true := by
  cases hr : op.run db with
  | none => exact h
  | some db' =>
    show validate db' = true
    cases op with
    | create t c s => exact create_valid hr
    | alterCreate t d c s => exact alterCreate_valid hr
    | ensure t d c s => exact ensure_valid h hr
    | alterDrop t c i => exact alterDrop_valid hr
    | renameCol t f to => exact alterRenameCol_valid hr
    | renameTable f to => exact renameTable_valid hr
    | drop t => exact drop_valid hr

/-- `schema_wf_partial` over whole histories starting from the empty database. -/
theorem schema_wf_history_partial (ops : List Op) : validate (runAll [] ops) = true := by
  suffices ∀ db, validate db = true → validate (runAll db ops) = true from this [] rfl
  induction ops with
  | nil => intro db h; exact h
  | cons op r ih => intro db h; exact ih _ (schema_wf_partial db op h)

/-- what `validate` means, table by table: at least one key -/
theorem wf_has_key {db : Db} (h : validate db = true) {t : Table} (ht : t ∈ db) :
    ∃ ix ∈ t.indexes, ix.mode = 'k' := validate_hasKey h ht

/-- … every index column is a column of the table -/
theorem wf_index_columns_exist {db : Db} (h : validate db = true) {t : Table} (ht : t ∈ db)
    {ix : Index} (hix : ix ∈ t.indexes) {c : String} (hc : c ∈ ix.columns) : c ∈ t.columns :=
  validate_idxCols h ht hix hc

/-- … every foreign key designates, by `iindex`, a key of an existing table with `Fk.columns` -/
theorem wf_fk_points_at_key {db : Db} (h : validate db = true) {t : Table} (ht : t ∈ db)
    {ix : Index} (hix : ix ∈ t.indexes) (hfk : ix.fk.table ≠ "") :
    ∃ target j, getT db ix.fk.table = some target ∧ findIdx target ix.fk.columns = some j ∧
      (getIdx target j).mode = 'k' ∧ ix.fk.iindex = j := validate_fk h ht hix hfk

/-- `fk_links_inverse` / `linkFkeys_restores`: on well-formed metadata, relinking from the `Fk`
fields (ReadMeta after a reopen) gives back the same metadata up to the order of the
`FkToHere` lists — the incremental maintenance and the rebuild agree. -/
theorem fk_links_inverse {db : Db} (w : WF db) : DbEquiv (linkFkeys db) db :=
  linkFkeys_restores w

/-! ### non-vacuity: a database with a cross-table and a self-referencing foreign key -/

/-- `create ta (a,b) key(a)` ; `create tb (a,b,c) key(a) index(c) in ta(a) cascade index(b) in tb(a)` -/
def exDb : Db :=
  [ { name := "ta", columns := ["a", "b"],
      indexes := [ { mode := 'k', columns := ["a"], fkToHere := [⟨"tb", ["c"], 1, 3⟩] } ] },
    { name := "tb", columns := ["a", "b", "c"],
      indexes := [ { mode := 'k', columns := ["a"], fkToHere := [⟨"tb", ["b"], 2, 0⟩] },
                   { mode := 'i', columns := ["c"], bestKey := ["a"], fk := ⟨"ta", ["a"], 0, 3⟩ },
                   { mode := 'i', columns := ["b"], bestKey := ["a"], fk := ⟨"tb", ["a"], 0, 0⟩ } ] } ]

/-- the model's own operations build it -/
example : ((create [] "ta" ["a", "b"] [{ mode := 'k', columns := ["a"] }]).bind fun d =>
    create d "tb" ["a", "b", "c"] [ { mode := 'k', columns := ["a"] },
      { mode := 'i', columns := ["c"], fk := ⟨"ta", ["a"], 0, 3⟩ },
      { mode := 'i', columns := ["b"], fk := ⟨"tb", ["a"], 0, 0⟩ } ]) = some exDb := by decide

example : WF exDb := ⟨by decide, by decide, by decide⟩

/-- dropping the self-referencing index removes its `FkToHere` entry (finding 20, repaired) -/
example : (alterDrop exDb "tb" [] [["b"]]).map schemaText =
    some "ta(a,b)|k:a~<tb:c:1:3;tb(a,b,c)|k:a~|i:c~a>ta:a:0:3" := by decide

end Gsu.Props.C21
