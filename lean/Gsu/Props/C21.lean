import Gsu.Proofs.SchemaAlg8
import Gsu.Proofs.SchemaAlgRen3
/-!
# C21 Schema changes keep metadata consistent

"After any sequence of create, ensure, alter (create/drop/rename columns and indexes), rename
table, view and drop operations, every table has at least one key, every index refers to
existing columns, foreign-key links in both directions refer to the correct tables and indexes,
data read through every index is unchanged, and the schema text re-parses to the same schema."
— over any sequence of admin requests (valid or invalid) over tables with data and foreign
keys, including self-referencing foreign keys.

The theorems are about `Gsu.SchemaAlg` (Model/SchemaAlg.lean), the definitions that
`Drive/C21.lean` executes against the real `DoAdmin` in the correspondence suite.
`data_unchanged` and `schema_text_roundtrip` have no Lean statement here (the model has no
rows and no parser); they are direct oracles of the suite only.

PROVED (full `schema_wf`): every one of the seven modelled operations, accepted or rejected,
preserves `WF2 db := WF db ∧ no two tables of the same name`, where `WF` = `valid` ∧ `fkcols` ∧
`inv` (Proofs/SchemaAlg.lean): `inv` says that the `FkToHere` list of every index is, as a
multiset, exactly the set of `Fk`s that designate it — the exact inverse in both directions,
self references included — so it also holds after every history from the empty database
(`schema_wf_history`).  The only hypothesis on the requests is `OpOk`: an index spec with a
foreign key carries explicit `Fk.columns` (the parser always fills them in from the index
columns; `createFkeys` falls back to the index columns but stores the empty list).  Without it
the `fkcols` clause (not `valid`, not `inv` as far as testing shows) can fail for one shape only,
`key() in t()` — an empty key referring to an empty key (`schema_wf_fkcols_counter`).
The development is in Proofs/SchemaAlg2…8.lean and Proofs/SchemaAlgRen…Ren3.lean (lookup
calculus `look`, `LInv` = duplicate free + exactly the `Link`s, equivalent to `WF.inv`).
MISSING: nothing of `schema_wf`; `data_unchanged` / `schema_text_roundtrip` remain suite oracles.
-/
namespace Gsu.Props.C21
open Gsu.SchemaAlg

/-- One admin request of the model (views do not touch table metadata and are kept in the
driver only). -/
inductive Op where
  | create (t : String) (cols : List String) (specs : List Index)
  | alterCreate (t : String) (hasData : Bool) (cols : List String) (specs : List Index)
  | ensure (t : String) (hasData : Bool) (cols : List String) (specs : List Index)
  | alterDrop (t : String) (cols : List String) (idxs : List (List String))
  | renameCol (t : String) (from_ to : List String)
  | renameTable (from_ to : String)
  | drop (t : String)

def Op.run (db : Db) : Op → Option Db
  | .create t c s => Gsu.SchemaAlg.create db t c s
  | .alterCreate t d c s => Gsu.SchemaAlg.alterCreate db t d c s
  | .ensure t d c s => Gsu.SchemaAlg.ensure db t d c s
  | .alterDrop t c i => Gsu.SchemaAlg.alterDrop db t c i
  | .renameCol t f to => Gsu.SchemaAlg.alterRenameCol db t f to
  | .renameTable f to => Gsu.SchemaAlg.renameTable db f to
  | .drop t => Gsu.SchemaAlg.drop db t

/-- the metadata after a history of requests, accepted or rejected -/
def runAll (db : Db) : List Op → Db
  | [] => db
  | op :: r => runAll (keep db (op.run db)) r

/-- `rejected_is_noop`: a request that is rejected leaves the metadata as it was. -/
theorem rejected_is_noop (db : Db) (op : Op) (h : op.run db = none) : keep db (op.run db) = db := by
  rw [h]; rfl

/-- the index specs a request carries -/
def Op.specs : Op → List Index
  | .create _ _ s => s
  | .alterCreate _ _ _ s => s
  | .ensure _ _ _ s => s
  | _ => []

/-- the request's index specs with a foreign key have explicit `Fk.columns` (what the parser
always produces: `in t` without a column list gets the index columns) -/
def OpOk (op : Op) : Prop := ∀ s ∈ op.specs, s.fk.table ≠ "" → s.fk.columns ≠ []

/-- the inductive invariant is `WF` plus unique table names … -/
theorem wf2_wf {db : Db} (h : WF2 db) : WF db := h.1

/-- … and the empty database has it -/
theorem wf2_nil : WF2 [] := wf2_of_lwf lwf_nil

/-- `schema_wf` for `create` -/
theorem schema_wf_create (db : Db) (t : String) (cols : List String) (specs : List Index)
    (hop : OpOk (.create t cols specs)) (h : WF2 db) : WF2 (keep db (create db t cols specs)) :=
  keep_wf2 h (fun _ hr => create_lwf (lwf_of_wf2 h) hop hr)

/-- `schema_wf` for `alter … create` -/
theorem schema_wf_alterCreate (db : Db) (t : String) (d : Bool) (cols : List String) (specs : List Index)
    (hop : OpOk (.alterCreate t d cols specs)) (h : WF2 db) :
    WF2 (keep db (alterCreate db t d cols specs)) :=
  keep_wf2 h (fun _ hr => alterCreate_lwf (lwf_of_wf2 h) hop hr)

/-- `schema_wf` for `ensure` -/
theorem schema_wf_ensure (db : Db) (t : String) (d : Bool) (cols : List String) (specs : List Index)
    (hop : OpOk (.ensure t d cols specs)) (h : WF2 db) : WF2 (keep db (ensure db t d cols specs)) :=
  keep_wf2 h (fun _ hr => ensure_lwf (lwf_of_wf2 h) hop hr)

/-- `schema_wf` for `alter … drop` (index positions shift; `updateFkeysIIndex` repairs them) -/
theorem schema_wf_alterDrop (db : Db) (t : String) (cols : List String) (idxs : List (List String))
    (h : WF2 db) : WF2 (keep db (alterDrop db t cols idxs)) :=
  keep_wf2 h (fun _ hr => alterDrop_lwf (lwf_of_wf2 h) hr)

/-- `schema_wf` for `alter … rename` (columns) -/
theorem schema_wf_renameCol (db : Db) (t : String) (from_ to : List String) (h : WF2 db) :
    WF2 (keep db (alterRenameCol db t from_ to)) :=
  keep_wf2 h (fun _ hr => alterRenameCol_lwf (lwf_of_wf2 h) hr)

/-- `schema_wf` for `rename` (table) -/
theorem schema_wf_renameTable (db : Db) (from_ to : String) (h : WF2 db) :
    WF2 (keep db (renameTable db from_ to)) :=
  keep_wf2 h (fun _ hr => renameTable_lwf (lwf_of_wf2 h) hr)

/-- `schema_wf` for `drop` -/
theorem schema_wf_drop (db : Db) (t : String) (h : WF2 db) : WF2 (keep db (drop db t)) :=
  keep_wf2 h (fun _ hr => drop_lwf (lwf_of_wf2 h) hr)

/-- `schema_wf`, FULL: every request, accepted or rejected, keeps the metadata well formed
(`valid` ∧ `fkcols` ∧ `inv`, and table names unique). -/
theorem schema_wf (db : Db) (op : Op) (hop : OpOk op) (h : WF2 db) : WF2 (keep db (op.run db)) := by
  cases op with
  | create t c s => exact schema_wf_create db t c s hop h
  | alterCreate t d c s => exact schema_wf_alterCreate db t d c s hop h
  | ensure t d c s => exact schema_wf_ensure db t d c s hop h
  | alterDrop t c i => exact schema_wf_alterDrop db t c i h
  | renameCol t f to => exact schema_wf_renameCol db t f to h
  | renameTable f to => exact schema_wf_renameTable db f to h
  | drop t => exact schema_wf_drop db t h

/-- `schema_wf` over whole histories starting from the empty database. -/
theorem schema_wf_history (ops : List Op) (hops : ∀ op ∈ ops, OpOk op) : WF2 (runAll [] ops) := by
  suffices ∀ db, WF2 db → WF2 (runAll db ops) from this [] wf2_nil
  induction ops with
  | nil => intro db h; exact h
  | cons op r ih =>
    intro db h
    exact ih (fun o ho => hops o (List.mem_cons_of_mem _ ho)) _
      (schema_wf db op (hops op (by simp)) h)

/-- … in particular `WF` itself -/
theorem schema_wf_history_wf (ops : List Op) (hops : ∀ op ∈ ops, OpOk op) : WF (runAll [] ops) :=
  (schema_wf_history ops hops).1

/-- the `valid` clause alone needs no hypothesis on the request at all -/
theorem schema_valid (db : Db) (op : Op) (h : validate db = true) :
    validate (keep db (op.run db)) = true := by
  cases hr : op.run db with
  | none => exact h
  | some db' =>
    show validate db' = true
    cases op with
    | create t c s => exact create_valid hr
    | alterCreate t d c s => exact alterCreate_valid hr
    | ensure t d c s => exact ensure_valid h hr
    | alterDrop t c i => exact alterDrop_valid hr
    | renameCol t f to => exact alterRenameCol_valid hr
    | renameTable f to => exact renameTable_valid hr
    | drop t => exact drop_valid hr

/-- `schema_valid` over whole histories starting from the empty database. -/
theorem schema_valid_history (ops : List Op) : validate (runAll [] ops) = true := by
  suffices ∀ db, validate db = true → validate (runAll db ops) = true from this [] rfl
  induction ops with
  | nil => intro db h; exact h
  | cons op r ih => intro db h; exact ih _ (schema_valid db op h)

/-- what `validate` means, table by table: at least one key -/
theorem wf_has_key {db : Db} (h : validate db = true) {t : Table} (ht : t ∈ db) :
    ∃ ix ∈ t.indexes, ix.mode = 'k' := validate_hasKey h ht

/-- … every index column is a column of the table -/
theorem wf_index_columns_exist {db : Db} (h : validate db = true) {t : Table} (ht : t ∈ db)
    {ix : Index} (hix : ix ∈ t.indexes) {c : String} (hc : c ∈ ix.columns) : c ∈ t.columns :=
  validate_idxCols h ht hix hc

/-- … every foreign key designates, by `iindex`, a key of an existing table with `Fk.columns` -/
theorem wf_fk_points_at_key {db : Db} (h : validate db = true) {t : Table} (ht : t ∈ db)
    {ix : Index} (hix : ix ∈ t.indexes) (hfk : ix.fk.table ≠ "") :
    ∃ target j, getT db ix.fk.table = some target ∧ findIdx target ix.fk.columns = some j ∧
      (getIdx target j).mode = 'k' ∧ ix.fk.iindex = j := validate_fk h ht hix hfk

/-- `fk_links_inverse` / `linkFkeys_restores`: on well-formed metadata, relinking from the `Fk`
fields (ReadMeta after a reopen) gives back the same metadata up to the order of the
`FkToHere` lists — the incremental maintenance and the rebuild agree. -/
theorem fk_links_inverse {db : Db} (w : WF db) : DbEquiv (linkFkeys db) db :=
  linkFkeys_restores w

/-- hence after every history of `OpOk` requests a reopen changes nothing -/
theorem fk_links_inverse_history (ops : List Op) (hops : ∀ op ∈ ops, OpOk op) :
    DbEquiv (linkFkeys (runAll [] ops)) (runAll [] ops) :=
  linkFkeys_restores (schema_wf_history_wf ops hops)

/-! ### non-vacuity: a database with a cross-table and a self-referencing foreign key -/

/-- `create ta (a,b) key(a)` ; `create tb (a,b,c) key(a) index(c) in ta(a) cascade index(b) in tb(a)` -/
def exDb : Db :=
  [ { name := "ta", columns := ["a", "b"],
      indexes := [ { mode := 'k', columns := ["a"], fkToHere := [⟨"tb", ["c"], 1, 3⟩] } ] },
    { name := "tb", columns := ["a", "b", "c"],
      indexes := [ { mode := 'k', columns := ["a"], fkToHere := [⟨"tb", ["b"], 2, 0⟩] },
                   { mode := 'i', columns := ["c"], bestKey := ["a"], fk := ⟨"ta", ["a"], 0, 3⟩ },
                   { mode := 'i', columns := ["b"], bestKey := ["a"], fk := ⟨"tb", ["a"], 0, 0⟩ } ] } ]

def exOp1 : Op := .create "ta" ["a", "b"] [{ mode := 'k', columns := ["a"] }]
def exOp2 : Op := .create "tb" ["a", "b", "c"] [ { mode := 'k', columns := ["a"] },
      { mode := 'i', columns := ["c"], fk := ⟨"ta", ["a"], 0, 3⟩ },
      { mode := 'i', columns := ["b"], fk := ⟨"tb", ["a"], 0, 0⟩ } ]

/-- the model's own operations build it -/
example : runAll [] [exOp1, exOp2] = exDb := by decide

/-- `OpOk` is satisfiable: these requests have it -/
example : OpOk exOp1 ∧ OpOk exOp2 := by
  constructor <;> (intro s hs; simp only [exOp1, exOp2, Op.specs] at hs; revert s; decide)

example : WF exDb := ⟨by decide, by decide, by decide⟩

example : WF2 exDb := ⟨⟨by decide, by decide, by decide⟩, by unfold NamesNodup names; decide⟩

/-- dropping the self-referencing index removes its `FkToHere` entry (finding 20, repaired) -/
example : (alterDrop exDb "tb" [] [["b"]]).map schemaText =
    some "ta(a,b)|k:a~<tb:c:1:3;tb(a,b,c)|k:a~|i:c~a>ta:a:0:3" := by decide

/-! ### `OpOk` is needed for the `fkcols` clause (and only for the empty-key shape) -/

/-- `create ta (a) key()` -/
def cxDb : Db := [ { name := "ta", columns := ["a"], indexes := [ { mode := 'k', columns := [] } ] } ]

/-- `create tb (a) key() in ta()` with the `Fk.columns` left empty: accepted, `valid` and `inv`
hold, but `Fk.columns` is not explicit.  (No defect of the code: `fkCols` falls back to the
index columns, which are empty too; it only shows that `WF.fkcols` needs `OpOk`.) -/
def cxSpec : Index := { mode := 'k', columns := [], fk := ⟨"ta", [], 0, 0⟩ }

/-- what the model answers to that request -/
def cxDb' : Db :=
  [ { name := "ta", columns := ["a"], indexes := [ { mode := 'k', columns := [], fkToHere := [⟨"tb", [], 0, 0⟩] } ] },
    { name := "tb", columns := ["a"], indexes := [ cxSpec ] } ]

theorem schema_wf_fkcols_counter :
    WF2 cxDb ∧ ¬ OpOk (.create "tb" ["a"] [cxSpec]) ∧
    create cxDb "tb" ["a"] [cxSpec] = some cxDb' ∧ validate cxDb' = true ∧ ¬ WF cxDb' := by
  refine ⟨⟨⟨by decide, by decide, by decide⟩, by unfold NamesNodup names; decide⟩, ?_, by decide, by decide, ?_⟩
  · intro h
    exact h cxSpec (by simp [Op.specs]) (by decide) rfl
  · intro w
    have := w.fkcols
    revert this
    decide

end Gsu.Props.C21
