/-
C43 — Shared values are safe under concurrent use.

"Objects, records, closures and classes that are made reachable from several threads can be read
and modified concurrently without data races, torn reads or crashes."
Quantifier: all interleavings of concurrent operations on shared containers and shared closure
variables.

PARTIAL BY NATURE. What is proved is a lockset argument about the *source*: the per-method facts
`Gsu.Gen.LockFacts.methods` are regenerated from core/suobject.go, core/surecord.go and
core/frame.go on every run (which lock is held at every access of a receiver field and at every
call of an unlocked helper, following `x.Unlock(); defer x.Lock()` windows); `discipline_partial`
decides over them that every write happens under `Lock`, every read under `RLock|Lock`, helpers are
only called with a sufficient lock, except for an explicit list; `discipline_implies_exclusion`
shows that under reader/writer-lock semantics a holder of the write lock excludes every other
holder, so two conflicting accesses that both follow the discipline are never simultaneously
enabled. `stored_values_marked` / `setconcurrent_reaches_referents` / `observers_copy_on_write` decide
the `SetConcurrent` propagation and copy-on-write facts extracted from the same sources.
NOT covered: the Go memory model itself, propagation through paths other than the extracted
storing methods (e.g. closure slots written by the interpreter), atomics
(`copyCount`), values other than SuObject/SuRecord/Frame.Shared, and the formal link between the
extracted facts and an operational semantics of the methods (the facts are an abstraction computed
by tools/extract/t_lockfacts.go; its reading of the source is trusted).
-/
import Gsu.Proofs.Lockset
namespace Gsu.Props.C43
open Gsu.Lockset Gsu.Gen.LockFacts

-- `decide` over string-keyed tables needs a deeper elaborator recursion (not a heartbeat limit)
set_option maxRecDepth 100000

/-- accesses outside the discipline that are accepted, with the reason -/
def exempt : List Viol := [
  -- public helper without locking of its own; its callers in core hold the object lock
  .readNoLock "SuObject.NamedGet" "named",
  -- SetConcurrent / SetChildConc run before the value becomes reachable from a second thread
  .readNoLock "SuObject.SetConcurrent" "readonly",
  .callNeedsR "SuObject.SetConcurrent" "SuObject.SetChildConc",
  .readNoLock "SuObject.SetChildConc" "defval",
  .readNoLock "SuObject.SetChildConc" "list",
  .readNoLock "SuObject.SetChildConc" "named",
  .readNoLock "SuRecord.SetConcurrent" "activeObservers",
  .readNoLock "SuRecord.SetConcurrent" "attachedRules",
  .readNoLock "SuRecord.SetConcurrent" "hdr",
  .writeNoLock "SuRecord.SetConcurrent" "hdr",
  .readNoLock "SuRecord.SetConcurrent" "observers",
  .callNeedsR "SuRecord.SetConcurrent" "SuObject.SetChildConc",
  -- artefacts of the extraction: a method value (`r.ob.delete`) passed as an argument, and
  -- iter2 whose *returned closures* lock (they run after Iter has released the lock)
  .readNoLock "SuRecord.Delete" "ob.delete",
  .readNoLock "SuRecord.Erase" "ob.erase",
  .reentry "SuRecord.Iter" "SuObject.iter2"
]

/-- accesses that do violate the discipline in the current source (findings/C43.md) -/
def known : List Viol := [
  -- SuObject.ToRecord holds only the read lock and calls set (for a `_TS` field)
  .callNeedsW "SuObject.ToRecord" "SuObject.set" .r,
  -- Sort(lt) releases the lock and keeps rewriting ob.list while it calls `lt`;
  -- the `sorting` flag stops writers but not readers
  .readNoLock "SuObject.Sort" "list",
  .writeNoLock "SuObject.Sort" "list",
  -- unlocked reads of fields that other methods write under the lock
  .readNoLock "SuRecord.IsNew" "status",
  .readNoLock "SuRecord.Table" "table",
  .readNoLock "SuRecord.DbUpdate" "hdr"
]

/-- violations for which a repair is proposed (fixes/43-unique-unlock-window.patch): Unique on a
concurrent object compacts ob.list in place after releasing the lock. They are accepted here
without a counter-claim so that the theorems hold for the source with and without the repair;
the suite's deterministic probe is what reports the defect on the unrepaired source. -/
def pendingFix : List Viol := [
  .readNoLock "SuObject.Unique" "list",
  .writeNoLock "SuObject.Unique" "list"
]

/-- Lock discipline (design name `discipline`), partial: every exported method of SuObject,
SuRecord and the shared-slot accessors of Frame writes receiver state only under `Lock`, reads it
only under `RLock`/`Lock`, calls unlocked helpers only with a sufficient lock held and never calls
a locking method with the write lock held — except the listed `exempt` (by contract), `known`
(genuine) and `pendingFix` (genuine, repair proposed) cases. The full statement is `violations = []`; it is false of the current source, see
`discipline_counter`. Regenerated facts: a new unguarded access breaks this theorem. -/
theorem discipline_partial : ∀ v ∈ violations, v ∈ exempt ∨ v ∈ known ∨ v ∈ pendingFix := by decide

/-- the `known` entries are real: each is reported by the analysis of the current source -/
theorem discipline_counter : ∀ v ∈ known, v ∈ violations := by decide

/-- the three shared-slot accessors of closures (`getSharedSlot`, `setSharedSlot`,
`getSetSharedSlot`) exist and touch `shared.values` only with the `Shared` lock taken by
themselves (read-modify-write of a shared closure variable is one critical section) -/
theorem frame_shared_guarded :
    (∀ n ∈ ["getSharedSlot", "setSharedSlot", "getSetSharedSlot"],
      ∃ m ∈ methods, m.recv = "Frame" ∧ m.name = n ∧ ∃ a ∈ m.accs, a.field = "shared.values") ∧
    ∀ m ∈ methods, m.recv = "Frame" →
      m.name ∈ ["getSharedSlot", "setSharedSlot", "getSetSharedSlot"] →
      ∀ a ∈ m.accs, a.field = "shared.values" → a.held = .w := by decide

/-- SetConcurrent propagation into containers (regenerated `storeFacts`): no exported method of
SuObject / SuRecord stores a `Value` parameter into the receiver (assignment, `named.Put`,
`observers.Push`, or handing it to a helper that stores it) at a point where the parameter has
not been marked with `SetConcurrent()` under the `concurrent` / `Lock()` guard. So every value
that becomes reachable from a shared container through these methods is itself made concurrent.
(Syntactic, per method; the helpers `add` and `attachRule` rely on their callers, see
`gen_store_facts_live`.) -/
theorem stored_values_marked : ∀ f ∈ storeFacts, f.2.2.1 = true → f.2.2.2 = false := by decide

/-- the analysis is not vacuous: it sees the storing methods, and it does flag the helpers that
store without marking -/
theorem gen_store_facts_live :
    ("SuObject.add", "val", false, true) ∈ storeFacts ∧
    ("SuRecord.attachRule", "callable", false, true) ∈ storeFacts ∧
    (∀ m ∈ [("SuObject.Add", "val"), ("SuObject.Insert", "val"), ("SuObject.Put", "key"),
            ("SuObject.Put", "val"), ("SuObject.Set", "val"), ("SuObject.CompareAndSet", "newval"),
            ("SuObject.GetPut", "v"), ("SuObject.SetDefault", "def"), ("SuRecord.Put", "val"),
            ("SuRecord.Observer", "ofn"), ("SuRecord.AttachRule", "callable")],
       (m.1, m.2, true, false) ∈ storeFacts) := by decide

/-- SetConcurrent reaches everything a shared value refers to: a closure marks its `this` before
any early return and marks its shared variables; an object marks list members, named keys and
values and the default value; a record marks attached rules, observers (also the active ones) and
its members. (Order/presence of the marking calls in the source.) -/
theorem setconcurrent_reaches_referents :
    markedBeforeReturn (eventsOf "SuClosure.SetConcurrent") "mark:this" = true ∧
    (eventsOf "SuClosure.SetConcurrent").contains "mark:shared.values" = true ∧
    (∀ m ∈ ["mark:list", "mark:named", "mark:defval"], m ∈ eventsOf "SuObject.SetChildConc") ∧
    "children" ∈ eventsOf "SuObject.SetConcurrent" ∧
    (∀ m ∈ ["mark:attachedRules", "mark:observers.List", "mark:activeObservers.List", "children"],
       m ∈ eventsOf "SuRecord.SetConcurrent") := by decide

/-- the observer list is copy-on-write: `Observer` and `RemoveObserver` clone the list before
changing it, so a notification round that is iterating the old list (with the lock released
around each callback) is not disturbed -/
theorem observers_copy_on_write :
    (∀ f ∈ cowFacts, f.2 = true) ∧
    ("SuRecord.Observer", true) ∈ cowFacts ∧ ("SuRecord.RemoveObserver", true) ∈ cowFacts := by decide

/-- Under reader/writer-lock semantics (`sync.RWMutex` as a transition system) every reachable lock
state has no reader next to a writer, and then: while a writer holds the lock neither `Lock` nor
`RLock` is enabled, and while a reader holds it `Lock` is not enabled. Hence two accesses of which
one is a write and which both follow the discipline are never simultaneously enabled. -/
theorem discipline_implies_exclusion (evs : List Ev) (s : RW) (h : rwRun {} evs = some s) :
    RWInv s ∧
    (s.writer = true → rwStep s .lock = none ∧ rwStep s .rlock = none) ∧
    (s.readers ≠ 0 → rwStep s .lock = none) := by
  refine ⟨rwRun_inv evs (by intro h; cases h) h, ?_, ?_⟩
  · intro hw; simp [rwStep, hw]
  · intro hr; simp [rwStep, hr]

-- non-vacuity: two readers then a writer that has to wait
example : (rwRun {} [.rlock, .rlock]).map (fun s => (s.readers, rwStep s .lock |>.isSome)) = some (2, false) := by
  decide
example : (rwRun {} [.rlock, .runlock, .lock]).map (·.writer) = some true := by decide

end Gsu.Props.C43
