/-
C43 — Shared values are safe under concurrent use.

"Objects, records, closures and classes that are made reachable from several threads can be read
and modified concurrently without data races, torn reads or crashes."
Quantifier: all interleavings of concurrent operations on shared containers and shared closure
variables.

PARTIAL BY NATURE. What is proved is a lockset argument about the *source*: the per-method facts
`Gsu.Gen.LockFacts.methods` are regenerated from core/suobject.go, core/surecord.go and
core/frame.go on every run (which lock is held at every access of a receiver field and at every
call of an unlocked helper, following `x.Unlock(); defer x.Lock()` windows); `discipline_partial`
decides over them that every write happens under `Lock`, every read under `RLock|Lock`, helpers are
only called with a sufficient lock, except for an explicit list; `discipline_implies_exclusion`
shows that under reader/writer-lock semantics a holder of the write lock excludes every other
holder, so two conflicting accesses that both follow the discipline are never simultaneously
enabled. NOT covered: the Go memory model itself, `SetConcurrent` propagation (every value
reachable from a shared value is marked before publication — checked by the suite only), atomics
(`copyCount`), values other than SuObject/SuRecord/Frame.Shared, and the formal link between the
extracted facts and an operational semantics of the methods (the facts are an abstraction computed
by tools/extract/t_lockfacts.go; its reading of the source is trusted).
-/
import Gsu.Proofs.Lockset
namespace Gsu.Props.C43
open Gsu.Lockset Gsu.Gen.LockFacts

-- `decide` over string-keyed tables needs a deeper elaborator recursion (not a heartbeat limit)
set_option maxRecDepth 100000

/-- accesses outside the discipline that are accepted, with the reason -/
def exempt : List Viol := [
  -- public helper without locking of its own; its callers in core hold the object lock
  .readNoLock "SuObject.NamedGet" "named",
  -- SetConcurrent / SetChildConc run before the value becomes reachable from a second thread
  .readNoLock "SuObject.SetConcurrent" "readonly",
  .callNeedsR "SuObject.SetConcurrent" "SuObject.SetChildConc",
  .readNoLock "SuObject.SetChildConc" "defval",
  .readNoLock "SuObject.SetChildConc" "list",
  .readNoLock "SuObject.SetChildConc" "named",
  .readNoLock "SuRecord.SetConcurrent" "activeObservers",
  .readNoLock "SuRecord.SetConcurrent" "attachedRules",
  .readNoLock "SuRecord.SetConcurrent" "hdr",
  .writeNoLock "SuRecord.SetConcurrent" "hdr",
  .readNoLock "SuRecord.SetConcurrent" "observers",
  .callNeedsR "SuRecord.SetConcurrent" "SuObject.SetChildConc",
  -- artefacts of the extraction: a method value (`r.ob.delete`) passed as an argument, and
  -- iter2 whose *returned closures* lock (they run after Iter has released the lock)
  .readNoLock "SuRecord.Delete" "ob.delete",
  .readNoLock "SuRecord.Erase" "ob.erase",
  .reentry "SuRecord.Iter" "SuObject.iter2"
]

/-- accesses that do violate the discipline in the current source (findings/C43.md) -/
def known : List Viol := [
  -- SuObject.ToRecord holds only the read lock and calls set (for a `_TS` field)
  .callNeedsW "SuObject.ToRecord" "SuObject.set" .r,
  -- Sort(lt) releases the lock and keeps rewriting ob.list while it calls `lt`;
  -- the `sorting` flag stops writers but not readers
  .readNoLock "SuObject.Sort" "list",
  .writeNoLock "SuObject.Sort" "list",
  -- unlocked reads of fields that other methods write under the lock
  .readNoLock "SuRecord.IsNew" "status",
  .readNoLock "SuRecord.Table" "table",
  .readNoLock "SuRecord.DbUpdate" "hdr"
]

/-- violations for which a repair is proposed (fixes/43-unique-unlock-window.patch): Unique on a
concurrent object compacts ob.list in place after releasing the lock. They are accepted here
without a counter-claim so that the theorems hold for the source with and without the repair;
the suite's deterministic probe is what reports the defect on the unrepaired source. -/
def pendingFix : List Viol := [
  .readNoLock "SuObject.Unique" "list",
  .writeNoLock "SuObject.Unique" "list"
]

/-- Lock discipline (design name `discipline`), partial: every exported method of SuObject,
SuRecord and the shared-slot accessors of Frame writes receiver state only under `Lock`, reads it
only under `RLock`/`Lock`, calls unlocked helpers only with a sufficient lock held and never calls
a locking method with the write lock held — except the listed `exempt` (by contract), `known`
(genuine) and `pendingFix` (genuine, repair proposed) cases. The full statement is `violations = []`; it is false of the current source, see
`discipline_counter`. Regenerated facts: a new unguarded access breaks this theorem. -/
theorem discipline_partial : ∀ v ∈ violations, v ∈ exempt ∨ v ∈ known ∨ v ∈ pendingFix := by decide

/-- the `known` entries are real: each is reported by the analysis of the current source -/
theorem discipline_counter : ∀ v ∈ known, v ∈ violations := by decide

/-- the three shared-slot accessors of closures (`getSharedSlot`, `setSharedSlot`,
`getSetSharedSlot`) exist and touch `shared.values` only with the `Shared` lock taken by
themselves (read-modify-write of a shared closure variable is one critical section) -/
theorem frame_shared_guarded :
    (∀ n ∈ ["getSharedSlot", "setSharedSlot", "getSetSharedSlot"],
      ∃ m ∈ methods, m.recv = "Frame" ∧ m.name = n ∧ ∃ a ∈ m.accs, a.field = "shared.values") ∧
    ∀ m ∈ methods, m.recv = "Frame" →
      m.name ∈ ["getSharedSlot", "setSharedSlot", "getSetSharedSlot"] →
      ∀ a ∈ m.accs, a.field = "shared.values" → a.held = .w := by decide

/-- Under reader/writer-lock semantics (`sync.RWMutex` as a transition system) every reachable lock
state has no reader next to a writer, and then: while a writer holds the lock neither `Lock` nor
`RLock` is enabled, and while a reader holds it `Lock` is not enabled. Hence two accesses of which
one is a write and which both follow the discipline are never simultaneously enabled. -/
theorem discipline_implies_exclusion (evs : List Ev) (s : RW) (h : rwRun {} evs = some s) :
    RWInv s ∧
    (s.writer = true → rwStep s .lock = none ∧ rwStep s .rlock = none) ∧
    (s.readers ≠ 0 → rwStep s .lock = none) := by
  refine ⟨rwRun_inv evs (by intro h; cases h) h, ?_, ?_⟩
  · intro hw; simp [rwStep, hw]
  · intro hr; simp [rwStep, hr]

-- non-vacuity: two readers then a writer that has to wait
example : (rwRun {} [.rlock, .rlock]).map (fun s => (s.readers, rwStep s .lock |>.isSome)) = some (2, false) := by
  decide
example : (rwRun {} [.rlock, .runlock, .lock]).map (·.writer) = some true := by decide

end Gsu.Props.C43
