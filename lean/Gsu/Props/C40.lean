/-
C40  Client-server access behaves like local access  (framing part)

"… Concurrent sessions sharing one connection each receive exactly their own responses,
complete and in order, for messages of any size."

Theorems about `Gsu.Model.Mux` (the definitions `Drive/C40.lean` executes against the real
`conn.reader` and `WriteBuf`), with the layout constants and the reader's empty-message
behaviour regenerated from dbms/mux (`Gsu.Gen.Mux`).

The first sentence of the property ("every database operation through the protocol returns the
same results … as performing it directly") is tied differentially only (suite `dbms`
client/server vs DbmsLocal); value/record transport is C13/C14.
-/
import Gsu.Model.Mux
import Gsu.Gen.Mux
import Gsu.Proofs.Mux
import Gsu.Proofs.MuxBytes
namespace Gsu.Props.C40
open Gsu.Mux Gsu.Proofs.Mux

/-- (G) the regenerated layout of dbms/mux is the model's: constants, and writer (`putHdr`) and
    reader agree with each other and with `encHdr`/`decHdr` on the field offsets -/
theorem gen_layout :
    Gsu.Gen.Mux.headerSize = headerSize ∧ Gsu.Gen.Mux.maxSize = maxSize ∧
    Gsu.Gen.Mux.bufSize = bufSize ∧ Gsu.Gen.Mux.maxio ≤ maxSize ∧
    (Gsu.Gen.Mux.wSizeOff, Gsu.Gen.Mux.wIdOff, Gsu.Gen.Mux.wFinalOff) = (sizeOff, idOff, finalOff) ∧
    (Gsu.Gen.Mux.rSizeOff, Gsu.Gen.Mux.rIdOff, Gsu.Gen.Mux.rFinalOff) = (sizeOff, idOff, finalOff) ∧
    finalOff + 1 = headerSize := by
  decide

/-- `header_roundtrip`: what `putHdr` writes is what the reader decodes, for every size and
    session id that fit the 32 bit fields and any final byte; the header is HeaderSize bytes. -/
theorem header_roundtrip (size sid : Nat) (fb : UInt8) (h1 : size < 4294967296) (h2 : sid < 4294967296) :
    decHdr (encHdr size sid fb) = some (size, sid, fb) ∧
    (encHdr size sid fb).length = Gsu.Gen.Mux.headerSize :=
  ⟨decHdr_encHdr size sid fb h1 h2, rfl⟩

/-- `frames_reassemble`: let `fs` be the frames arriving on a connection in any order such that,
    for every session `i`, the frames of `i` (in arrival order) are *some* fragmentation of the
    messages `ms i` — each message cut into zero or more non-final frames and one final frame,
    fragments and messages of any size (empty included) with each message ≤ maxSize.  Then the
    reader never stops and delivers to every session exactly its messages, complete and in
    order, and keeps no partial message.
    (`Frag`: `Sess false [] frs ms`, see `any_fragmentation` for the explicit form.) -/
theorem frames_reassemble (fs : List Frame) (ms : Nat → List Bytes)
    (h : ∀ i, Sess false [] (fs.filter (·.sid = i)) (ms i)) :
    let s := run Gsu.Gen.Mux.readerAssertsNonNil RSt.init fs
    s.status = .running ∧ ∀ i, delivered s i = ms i ∧ s.part i = [] := by
  have ha : Gsu.Gen.Mux.readerAssertsNonNil = false := by decide
  rw [ha]
  have := run_sess false fs RSt.init ms rfl h
  simpa [RSt.init, delivered] using this

/-- the same for the code as it is when the reader asserts non-nil buffers: holds for
    non-empty messages (this is what the unchanged tree satisfies) -/
theorem frames_reassemble_nonempty (a : Bool) (fs : List Frame) (ms : Nat → List Bytes)
    (h : ∀ i, Sess a [] (fs.filter (·.sid = i)) (ms i)) :
    let s := run a RSt.init fs
    s.status = .running ∧ ∀ i, delivered s i = ms i ∧ s.part i = [] := by
  have := run_sess a fs RSt.init ms rfl h
  simpa [RSt.init, delivered] using this

/-- any fragmentation of a message is a fragmentation in the sense of `frames_reassemble`:
    non-final frames carrying `parts` (any number, any sizes), then a final frame carrying
    `last`, followed by the session's further frames. -/
theorem any_fragmentation (i : Nat) (parts : List Bytes) (last : Bytes) (rest : List Frame)
    (ms : List Bytes) (hl : (parts.flatten ++ last).length ≤ maxSize) (hr : Sess false [] rest ms) :
    Sess false []
      (parts.map (fun x => (⟨i, x, false⟩ : Frame)) ++ [⟨i, last, true⟩] ++ rest)
      ((parts.flatten ++ last) :: ms) := by
  have := sess_fragments false i parts last [] rest ms (by simpa using hl) (by simp) hr
  simpa using this

/-- `writebuf_concat`: the frames WriteBuf hands to the connection for a message written by any
    sequence of `Write`/`WriteString` calls and `EndMsg`: zero or more non-final frames and
    exactly one final frame, all of the writer's session, whose payloads concatenate to the
    concatenation of the writes; the buffer is empty afterwards. -/
theorem writebuf_concat (sid : Nat) (ws : List Bytes) :
    ∃ (parts : List Bytes) (last : Bytes),
      (writeMsg sid WSt.init ws).sent =
        parts.map (fun x => (⟨sid, x, false⟩ : Frame)) ++ [⟨sid, last, true⟩] ∧
      parts.flatten ++ last = ws.flatten ∧ (writeMsg sid WSt.init ws).buf = [] :=
  writeMsg_frames sid ws

/-- `Write1` keeps the same invariant (what went out plus what is buffered = what was written) -/
theorem writebuf_write1 (sid : Nat) (w : WSt) (written : Bytes) (b : UInt8)
    (h : WInv sid w written) : WInv sid (write1 sid w b) (written ++ [b]) :=
  write1_inv sid w written b h

/-- writer and reader together: what WriteBuf emits for a message of at most maxSize bytes is a
    fragmentation the reader reassembles to exactly that message, however the frames of other
    sessions are interleaved with it (by `frames_reassemble`). -/
theorem write_then_read (sid : Nat) (ws : List Bytes) (hl : ws.flatten.length ≤ maxSize) :
    Sess false [] (writeMsg sid WSt.init ws).sent [ws.flatten] ∧
    delivered (run Gsu.Gen.Mux.readerAssertsNonNil RSt.init (writeMsg sid WSt.init ws).sent) sid
      = [ws.flatten] := by
  have hs := writeMsg_sess false sid ws hl (by simp)
  refine ⟨hs, ?_⟩
  obtain ⟨parts, last, hsent, _, _⟩ := writeMsg_frames sid ws
  have hall : ∀ f ∈ (writeMsg sid WSt.init ws).sent, f.sid = sid := by
    rw [hsent]
    intro f hf
    simp only [List.mem_append, List.mem_map, List.mem_singleton] at hf
    rcases hf with ⟨_, _, rfl⟩ | rfl <;> rfl
  have := frames_reassemble (writeMsg sid WSt.init ws).sent
    (fun i => if i = sid then [ws.flatten] else []) (by
      intro i
      by_cases e : i = sid
      · subst e
        rw [List.filter_eq_self.mpr (by intro f hf; simpa using hall f hf)]
        simpa using hs
      · have : (writeMsg sid WSt.init ws).sent.filter (·.sid = i) = [] := by
          rw [List.filter_eq_nil_iff]
          intro f hf
          simp only [hall f hf, decide_eq_true_eq]
          exact fun x => e x.symm
        rw [this]
        simp [e, Sess])
  simpa using (this.2 sid).1

/-- the reader on bytes is the reader on frames: reading the concatenated encodings of any
    frames (header by io.ReadFull, then `size` bytes) — i.e. whatever way the transport chops
    the stream — processes exactly those frames in order and then stops at end of stream.
    With `frames_reassemble` this gives the property for the byte stream on the wire. -/
theorem reader_on_wire (fs : List Frame)
    (h : ∀ f ∈ fs, f.payload.length < 4294967296 ∧ f.sid < 4294967296) :
    reader Gsu.Gen.Mux.readerAssertsNonNil (wire fs) =
      atEof (run Gsu.Gen.Mux.readerAssertsNonNil RSt.init fs) :=
  reader_wire _ fs h

/-! non-vacuity -/

/-- two sessions, interleaved, one message in three fragments (one empty), one empty message -/
example :
    let fs : List Frame := [⟨1, [1, 2], false⟩, ⟨2, [], true⟩, ⟨1, [], false⟩, ⟨1, [3], true⟩]
    (∀ i, Sess false [] (fs.filter (·.sid = i))
        (if i = 1 then [[1, 2, 3]] else if i = 2 then [[]] else [])) ∧
    delivered (run false RSt.init fs) 1 = [[1, 2, 3]] ∧ delivered (run false RSt.init fs) 2 = [[]] ∧
    (run true RSt.init fs).status = .assert := by
  refine ⟨fun i => ?_, by decide, by decide, by decide⟩
  by_cases h1 : i = 1
  · subst h1; simp [Sess, maxSize]
  · by_cases h2 : i = 2
    · subst h2; simp [Sess, maxSize]
    · have e1 : ¬ 1 = i := fun x => h1 x.symm
      have e2 : ¬ 2 = i := fun x => h2 x.symm
      simp [Sess, h1, h2, e1, e2]

end Gsu.Props.C40
