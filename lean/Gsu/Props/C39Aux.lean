/-
C39 (secondary containers) — "Ordered sets, range sets and sort lists behave as their abstract
types: … the sorted lists used for index building, and the cache, bloom filter, bitmap and
concurrent map utilities behave exactly like their mathematical models (membership, ordering,
no false negatives) for every sequence of operations up to their documented capacity."

Property theorems only, about the executable mirrors in `Gsu/Model/Containers.lean` that the
driver `Drive/C39Aux.lean` runs against the Go code; lemmas live in `Gsu/Proofs/Containers.lean`.
Fidelity of each mirror (faithful / run level / spec level) is stated in the model file and
repeated at each theorem.
-/
import Gsu.Proofs.Containers
import Gsu.Gen.Containers
namespace Gsu.Props.C39Aux
open Gsu.Containers Gsu.Gen.Containers

/-! ### regenerated constants are the ones the mirrors use -/

/-- the model's block size is sortlist.go's `blockSize`; it is positive (blocks make progress) -/
theorem gen_sortlist_blockSize : SL.blockSize = sortlistBlockSize ∧ 0 < sortlistBlockSize :=
  ⟨rfl, by decide⟩

/-- bloom.go: `Add` and `Test` use the same position formula (regenerated from both method
bodies), and on naturals it is the model's `Bloom.pos` (`h1 = uint32(h)`, `h2 = h>>32`);
`newBitset` rounds up to whole words of `bloomWordBits` bits. -/
theorem gen_bloom_pos (h i n : Nat) :
    bloomAddPos (h % 2 ^ 32 : Nat) (h >>> 32 : Nat) i n = bloomTestPos (h % 2 ^ 32 : Nat) (h >>> 32 : Nat) i n ∧
    bloomAddPos (h % 2 ^ 32 : Nat) (h >>> 32 : Nat) i n = (Bloom.pos n h i : Nat) ∧
    bloomNewDiv = bloomWordBits ∧ bloomNewRound + 1 = bloomWordBits :=
  ⟨rfl, Gsu.Proofs.Containers.Bloom.gen_pos h i n, rfl, rfl⟩

/-- roaring.go: the value split `x>>16`, `x&0xFFFF` is a bijection onto (base, low 16 bits);
a bitmap block of `roaringArrayMax` uint16 words holds exactly the 2^16 bits of a container;
`addBit`/`hasBit` address word `x>>4`, bit `x&15`; values are below 2^48. -/
theorem gen_roaring_consts :
    roaringLowMask + 1 = 2 ^ roaringShift ∧ roaringArrayMax * 2 ^ roaringWordShift = 2 ^ roaringShift ∧
    roaringWordMask + 1 = 2 ^ roaringWordShift ∧ roaringMaxValue = 2 ^ 48 := by decide

/-- lrucache.go: every selectable size (and the default) fits the `uint8` entry index, sizes
are positive, and `New` always picks one of them. -/
theorem gen_lru_sizes (req : Nat) :
    (∀ n ∈ lruSizes, 0 < n ∧ n ≤ 256) ∧ lruMaxSize ≤ 256 ∧
    0 < Lru.pickSize req ∧ Lru.pickSize req ≤ lruMaxSize ∧ 0 < lruNoMoveDiv :=
  ⟨by decide, by decide, (Gsu.Proofs.Containers.Lru.pickSize_pos req).1,
   (Gsu.Proofs.Containers.Lru.pickSize_pos req).2, by decide⟩

/-- cache.go / shmap/map.go constants: the ring size is positive; a shmap group has 8 slots
(one control byte each in a uint64), `deleted`/`empty` have the high bit clear, the load factor
leaves at least one empty slot per 8, h2 is 7 bits. (shmap is modelled at spec level only.) -/
theorem gen_cache_shmap_consts :
    0 < cacheSize ∧ shmapGroupSize * 8 = 64 ∧ shmapEmpty = 0 ∧ shmapDeleted < 2 ^ shmapH2Bits ∧
    shmapEmpty ≠ shmapDeleted ∧ shmapLoadFactor < shmapGroupSize ∧ 2 ^ shmapH2Bits = 128 := by decide

/-! ### sortlist (run-level mirror: real block structure, binary-counter merges, the code's merge
with its shortcut and tie rule; `finishMerges` by its effect, see model) -/

/-- For every input sequence and every key function, the list produced by Add…/Finish
(equally Sort) is ordered by the key and is a permutation of the values added. -/
theorem sortlist_sorted_perm (k : Nat → Nat) (xs : List Nat) :
    (SL.finish k xs).Pairwise (fun a b => k a ≤ k b) ∧ (SL.finish k xs).Perm xs :=
  ⟨Gsu.Proofs.Containers.SL.finish_sorted k xs, Gsu.Proofs.Containers.SL.finish_perm k xs⟩

/-- the code's own merge of two sorted runs (`Builder.merge`, including the "nothing to do"
shortcut) yields a sorted permutation of both -/
theorem sortlist_merge_sorted_perm (k : Nat → Nat) (l r : List Nat)
    (hl : l.Pairwise (fun a b => k a ≤ k b)) (hr : r.Pairwise (fun a b => k a ≤ k b)) :
    (SL.mergeRuns k l r).Pairwise (fun a b => k a ≤ k b) ∧ (SL.mergeRuns k l r).Perm (l ++ r) :=
  ⟨Gsu.Proofs.Containers.SL.mergeRuns_sorted k l r hl hr, Gsu.Proofs.Containers.SL.mergeRuns_perm k l r⟩

-- non-vacuity: ties go to the right (newer) run; the shortcut path concatenates
example : SL.mergeRuns (· / 10) [11, 25, 31] [12, 26, 40] = [12, 11, 26, 25, 31, 40] := by
  simp [SL.mergeRuns, SL.mergeL]
example : SL.mergeRuns (· / 10) [11, 25] [31, 40] = [11, 25, 31, 40] := by simp [SL.mergeRuns]
example : SL.finish id [3, 1, 2, 3, 1] = [1, 1, 2, 3, 3] := by
  simp [SL.finish, SL.Builder.add, SL.Builder.finish, SL.Builder.flush, SL.blockSize, sortlistBlockSize,
    SL.collapse, SL.merges, SL.mergesLoop, SL.sortBlock, List.mergeSort, List.MergeSort.Internal.splitInTwo]

/-! ### bloom (faithful mirror of New/Add/Test, bitset flattened to one Nat) -/

/-- No false negatives: after any sequence of Adds, every added hash tests true
(any m, k, any initial filter). -/
theorem bloom_no_false_negative (b : Bloom.T) (hs : List Nat) (g : Nat) (hg : g ∈ hs) :
    Bloom.test (hs.foldl Bloom.add b) g = true :=
  Gsu.Proofs.Containers.Bloom.no_false_negative hs b g hg

/-- Adds never clear a membership answer -/
theorem bloom_add_monotone (b : Bloom.T) (hs : List Nat) (g : Nat) (ht : Bloom.test b g = true) :
    Bloom.test (hs.foldl Bloom.add b) g = true :=
  Gsu.Proofs.Containers.Bloom.foldl_add_mono hs b g ht

-- non-vacuity: a filter that answers false for something not added
example : Bloom.test (Bloom.add (Bloom.new 100 3) 12345678901234) 5 = false ∧
    Bloom.test (Bloom.add (Bloom.new 100 3) 12345678901234) 12345678901234 = true := by decide

/-! ### roaring (mirror at container level: ordered containers, array→bitmap conversion at
`roaringArrayMax`; searches by their result on ordered data; bitmap block flattened) -/

/-- After `Add x`, `Has x`; `Has y` is unchanged for every other `y` (any bitmap state). -/
theorem roaring_add_contains (t : Roaring.T) (x y : Nat) :
    Roaring.has (Roaring.add t x) y = true ↔ (y = x ∨ Roaring.has t y = true) :=
  Gsu.Proofs.Containers.Roaring.has_add t x y

/-- Set refinement: starting from the empty bitmap, `Has y` holds exactly for the values added
(no false negatives and no false positives), for every sequence of Adds. -/
theorem roaring_refines_set (xs : List Nat) (y : Nat) :
    Roaring.has (xs.foldl Roaring.add []) y = true ↔ y ∈ xs := by
  rw [Gsu.Proofs.Containers.Roaring.has_foldl_add]; simp [Gsu.Proofs.Containers.Roaring.has_nil]

-- non-vacuity: two containers, one value each
example : Roaring.has (Roaring.add (Roaring.add [] 70000) 5) 70000 = true ∧
    Roaring.has (Roaring.add (Roaring.add [] 70000) 5) 70001 = false := by decide

/-! ### lrucache (faithful mirror; the embedded shmap at spec level) -/

open Gsu.Proofs.Containers.Lru in
/-- For every history of Put/Get from `New(req)`: the number of entries never exceeds the
capacity, and the capacity is at most `lruMaxSize`. -/
theorem lru_size_le_capacity (req : Nat) (ops : List Op) :
    (run (Lru.new req) ops).entries.length ≤ (run (Lru.new req) ops).size ∧
    (run (Lru.new req) ops).size ≤ lruMaxSize := by
  refine ⟨(run_inv req ops).cap, ?_⟩
  rw [run_size]; exact (pickSize_pos req).2

open Gsu.Proofs.Containers.Lru in
/-- In every reachable state, `Get k` right after `Put k v` hits and returns `v`. -/
theorem lru_get_after_put (req : Nat) (ops : List Op) (k v : Nat) :
    (Lru.get (Lru.put (run (Lru.new req) ops) k v) k).2 = some v :=
  get_after_put _ _ k v (run_inv req ops)

open Gsu.Proofs.Containers.Lru in
/-- Map refinement: in every reachable state a hit returns the value of the latest `Put` of
that key in the history (`latest`), never a stale or foreign value. (Which keys are resident —
the eviction order — is fixed by the mirror and compared differentially, not characterised
by a theorem.) -/
theorem lru_hit_returns_latest_put (req : Nat) (ops : List Op) (k v : Nat)
    (h : (Lru.get (run (Lru.new req) ops) k).2 = some v) : latest ops k = some v :=
  (get_inv _ _ k (run_inv req ops)).2 v h

open Gsu.Proofs.Containers.Lru in
example : (Lru.get (run (Lru.new 3) [.putOp 1 10, .putOp 2 20, .putOp 1 11]) 1).2 = some 11 := by decide

/-! ### cache (faithful mirror of the 8-slot ring) -/

/-- With a pure getter `f`, every `Get k` of every history returns `f k`. -/
theorem cache_get_eq_getter (f : Nat → Nat) (ks : List Nat) :
    Gsu.Proofs.Containers.Cache8.runGets f {} ks = ks.map f :=
  Gsu.Proofs.Containers.Cache8.runGets_eq f {} (Gsu.Proofs.Containers.Cache8.new_inv f) ks

/-- PARTIAL ("the getter is called at most once while the entry is resident" in full would also
need: a resident key is always found by the scan, i.e. the scan covers all `cacheSize` slots).
Proved: when the getter is not called, the returned value was resident under that key. -/
theorem cache_no_call_resident_partial (c : Cache8.T) (key fv : Nat)
    (h : (Cache8.get c key fv).2.2 = false) :
    ∃ j : Nat, c.slots[j]? = some (some (key, (Cache8.get c key fv).2.1)) :=
  Gsu.Proofs.Containers.Cache8.hit_resident c key fv h

example : (Cache8.get (Cache8.get {} 5 50).1 5 51).2 = (50, false) := by decide

/-- `Get(k) = getter(k)` also in histories where some getter calls fail (panic, recovered by the
caller: nothing may be cached for that key) and some getters re-enter the cache with another
`Get`: every value handed out — by outer and inner calls — is the getter's value for its key. -/
theorem cache_get_eq_getter_ops (f : Nat → Nat) (ops : List Gsu.Proofs.Containers.Cache8.Op) :
    ∀ p ∈ Gsu.Proofs.Containers.Cache8.runOps f {} ops, p.2 = f p.1 :=
  Gsu.Proofs.Containers.Cache8.runOps_sound f {} (Gsu.Proofs.Containers.Cache8.new_inv f) ops

/-- a failed getter leaves no entry behind: the slots are unchanged -/
theorem cache_failed_getter_caches_nothing (c : Cache8.T) (k : Nat) :
    (Cache8.getFail c k).1.slots = c.slots := by
  unfold Cache8.getFail; split <;> rfl

/-! ### shmap — SPEC LEVEL ONLY (association list; the Swiss table itself is tied only by the
differential run) -/

/-- the abstract map the differential run compares shmap with: Get after Put / Del -/
theorem shmap_spec_get_put_del (m : Assoc.Map) (k v k' : Nat) :
    Assoc.get (Assoc.put m k v) k' = (if k' = k then some v else Assoc.get m k') ∧
    Assoc.get (Assoc.del m k) k' = (if k' = k then none else Assoc.get m k') :=
  ⟨Gsu.Proofs.Containers.Assoc.get_put m k v k', Gsu.Proofs.Containers.Assoc.get_del m k k'⟩

end Gsu.Props.C39Aux
