/-
C07 — Key and unique constraints hold in every committed state.

"No two visible rows of a table ever have the same value for a key (including an empty key, and
at most one row for an empty key list), and no two visible rows share the same non-empty value
of a unique index. This holds even when concurrent transactions try to add or change rows to the
same value."

Model: `Gsu.Dup.dupChecks` — the duplicate checks of `UpdateTran.Output/update` with the
REGENERATED `needsDupCheck` — (suite `dup` replays it against tran.go) and the checker mirror
`Gsu.Ck` of C01.  The model follows the repaired order of fixes/18-dup-read.patch.
-/
import Gsu.Proofs.Dup
import Gsu.Props.C01
namespace Gsu.Props.C07
open Gsu.Ck Gsu.Dup

/-- `dup_point_read`: an Output (`upd = false`) / Update (`upd = true`) that passes its duplicate
checks has registered the point read `[k,k]` on every duplicate-checked index
(`[“”,“”]` for `key()`), and the snapshot lookup found no row there. -/
theorem dup_point_read (upd : Bool) (xs : List IxIn) (h : (dupChecks upd 0 xs).2 = true)
    (j : Nat) (x : IxIn) (hj : xs[j]? = some x) (hc : checked upd x = true) :
    (j, readKey upd x, readKey upd x) ∈ (dupChecks upd 0 xs).1 ∧ x.present = false := by
  have := dup_ok_reads upd xs 0 h j x hj hc
  simpa using this

/-- `dup_error_read` (finding 18, repaired code): a "duplicate key" error is an observation
that is validated too — the point read of the offending index is registered before the error. -/
theorem dup_error_read (upd : Bool) (xs : List IxIn) (h : (dupChecks upd 0 xs).2 = false) :
    ∃ j x, xs[j]? = some x ∧ checked upd x = true ∧ x.present = true ∧
      (j, readKey upd x, readKey upd x) ∈ (dupChecks upd 0 xs).1 := by
  have := dup_err_read upd xs 0 h
  simpa using this

/-- the generated `needsDupCheck` of tran.go: primary keys always, unique indexes that do not
contain a key unless all their fields are empty -/
theorem gen_needsDupCheck (p u c e : Bool) :
    Gsu.Gen.Check.needsDupCheck p u c e = (p || (u && !c && !e)) := by
  cases p <;> cases u <;> cases c <;> cases e <;> rfl

/-- the generated `uniqueIndexEmpty` of tran.go: a (composite) unique value is exempt from the
duplicate check only when ALL its fields are empty — exactly the case in which `ixkey.Spec.Key`
makes the entry unique by appending the key fields -/
theorem gen_uniqueIndexEmpty (es : List Bool) :
    Gsu.Gen.Check.uniqueIndexEmpty es = es.all id := by
  induction es with
  | nil => rfl
  | cons e r ih => cases e <;> simp [Gsu.Gen.Check.uniqueIndexEmpty, ih]

/-- a unique index (not containing a key) whose value has at least one non-empty field is
duplicate-checked on insert, and on update when its key changes -/
theorem checked_partly_empty (x : IxIn) (hu : x.modeU = true) (hc : x.containsKey = false)
    (hne : false ∈ x.fieldsEmpty) :
    (x.emptyKey = false → checked false x = true) ∧ (x.changed = true → checked true x = true) := by
  have : Gsu.Gen.Check.uniqueIndexEmpty x.fieldsEmpty = false := by
    rw [gen_uniqueIndexEmpty]
    cases h : x.fieldsEmpty.all id with
    | false => rfl
    | true => rw [List.all_eq_true] at h; have := h false hne; simp at this
  simp [checked, gen_needsDupCheck, this, hu, hc]

/-- every primary key index, the `key()` index of an Output and every unique index with a
non-empty value (that does not contain a key) is duplicate-checked -/
theorem checked_cases (x : IxIn) :
    (x.primary = true → checked false x = true) ∧ (x.emptyKey = true → checked false x = true) ∧
    (x.modeU = true → x.containsKey = false → Gsu.Gen.Check.uniqueIndexEmpty x.fieldsEmpty = false →
      checked false x = true) ∧
    (x.changed = true → x.primary = true → checked true x = true) ∧
    (x.changed = true → x.modeU = true → x.containsKey = false →
      Gsu.Gen.Check.uniqueIndexEmpty x.fieldsEmpty = false → checked true x = true) := by
  simp only [checked, gen_needsDupCheck]
  refine ⟨?_, ?_, ?_, ?_, ?_⟩ <;> intros <;> simp_all

/-- `unique_inv` (concurrent part): in no reachable checker state are there two transactions
that both introduced key `k` on a duplicate-checked index (`A` read `[k,k]` and wrote, `B` wrote
`k`) where `A` can still commit and overlaps `B` — so of two overlapping transactions that add
the same key / unique value at most one commits.

Full statement of the design: in every committed state no two live rows share a key on a
primary key index or a non-empty value on a `u` index.  Missing for the lift: the M-DB layer —
that a transaction which starts after `B` committed finds `B`'s row by its snapshot lookup
(`x.present`), and the row-level bookkeeping.  That part is covered by the direct oracle of the
suites `keys`/`serial` only. -/
theorem unique_inv_partial (ops : List Op) (A B : Tran)
    (hA : A ∈ (run {} ops).trans) (hB : B ∈ (run {} ops).trans) (hne : A.start ≠ B.start)
    (hact : A.active = true) (hov : overlap A.start A.end_ B.start B.end_ = true)
    (tbl idx : Nat) (k k' : Key) (hr : A.hasRead tbl idx k k) (hwA : A.hasWrite tbl idx k')
    (hwB : B.hasWrite tbl idx k) : False := by
  have hu := (Gsu.Props.C01.ck_inv ops).wrUpd A hA tbl idx k' hwA
  exact Gsu.Props.C01.ck_first_committer ops A B hA hB hne hact hu hov tbl idx k k k hr hwB
    (by simp [inRange])

/-! ### non-vacuity -/

-- key(k) + unique(a): inserting a row with a non-empty `a` checks both indexes
example : dupChecks false 0
    [{ emptyKey := false, primary := true, modeU := false, containsKey := true, fieldsEmpty := [false],
       changed := true, present := false, key := [97] },
     { emptyKey := false, primary := false, modeU := true, containsKey := false, fieldsEmpty := [false],
       changed := true, present := true, key := [98] }] = ([(0, [97], [97]), (1, [98], [98])], false) := by
  decide
-- key(): the read is ["",""]
example : dupChecks false 0
    [{ emptyKey := true, primary := true, modeU := false, containsKey := true, fieldsEmpty := [],
       changed := true, present := true, key := [] }] = ([(0, [], [])], false) := by decide
-- composite unique(a,b) with the partly empty value ("", x): checked, and a duplicate is refused
example : dupChecks false 0
    [{ emptyKey := false, primary := false, modeU := true, containsKey := false, fieldsEmpty := [true, false],
       changed := true, present := true, key := [0, 0, 120] }] = ([(0, [0, 0, 120], [0, 0, 120])], false) := by
  decide
-- two writers of the same key: the second is aborted by the first one's dup-check read
example : ((run {} [.start, .start, .read 3 0 0 [97] [97] [] [], .output 3 0 [[97]] [] [],
    .read 5 0 0 [97] [97] [] [], .output 5 0 [[97]] [] []]).trans.map (·.start)) = [3] := by decide

end Gsu.Props.C07
