/-
C32 — The lexer and parser are total and faithful to the source.

"On any input text the lexer and parser terminate without crashing the process: they either
produce a program or report a syntax error. Lexer token positions strictly increase, and every
token's source span tiles the input."
Quantifier: all byte strings, including truncated programs, unbalanced brackets, invalid
numbers and stray bytes.

The theorems are about `Gsu.Lexer.next` / `lexAll`, the mirror of compile/lexer/lexer.go that
the driver drv_c32 executes against lexer.NewLexer and lexer.NewQueryLexer (token kind,
position and Item.Text of every item). Keyword tables and the operator table are regenerated
from the source (`Gsu.Gen.Lexer`). Lemmas: `Gsu/Proofs/Lexer.lean`.

Parser totality is NOT a theorem (the recursive descent parser is not mirrored); it is tied by
the correspondence suites only: every generated input returns a value or a message-carrying
panic, never a Go runtime error, in bounded time.
-/
import Gsu.Proofs.Lexer
namespace Gsu.Props.C32
open Gsu.Proto Gsu.Ascii Gsu.Lexer

/-- `next_progress`: at any position before the end of the source, for both lexers, the next
item ends strictly after its start and not beyond the end of the source -/
theorem next_progress (query : Bool) (src : Bytes) (pos : Nat) (h : pos < src.length) :
    pos < (nextAt query src pos).2 ∧ (nextAt query src pos).2 ≤ src.length := by
  unfold nextAt
  have hl : (src.drop pos).length = src.length - pos := List.length_drop
  cases hd : src.drop pos with
  | nil => rw [hd] at hl; simp at hl; omega
  | cons c0 r =>
    have := next_bounds query c0 r
    rw [hd] at hl
    simp only [List.length_cons] at this hl
    simp only; omega

/-- at the end of the source (and only via the empty rest) the item is Eof, zero width -/
theorem next_eof (query : Bool) (src : Bytes) (pos : Nat) (h : src.length ≤ pos) :
    nextAt query src pos = (⟨"Eof", []⟩, pos) := by
  unfold nextAt
  rw [List.drop_eq_nil_of_le h]
  rfl

/-- `tokens_tile`: the spans [start, end) of the successive items of the whole stream are
contiguous from 0 and their source texts concatenate to the source -/
theorem tokens_tile (query : Bool) (src : Bytes) :
    spansOf src (lexAll query src) = src ∧ Contiguous 0 (lexAll query src) := by
  have := lexFrom_tile query src (src.length + 1) src 0 (by simp) (Nat.le_refl _)
  exact ⟨this.1, this.2.1⟩

/-- positions strictly increase (the final Eof included unless the source is empty) -/
theorem positions_increase (query : Bool) (src : Bytes) : Increasing (lexAll query src) :=
  (lexFrom_increasing query _ src 0).1

/-- `lexer_total`: fuel = length + 1 suffices: the stream ends with Eof at the end of the
source, and more fuel yields the same stream -/
theorem lexer_total (query : Bool) (src : Bytes) :
    (lexAll query src).getLast? = some (⟨"Eof", []⟩, src.length, src.length) ∧
    ∀ f, src.length + 1 ≤ f → lexFrom query f src 0 = lexAll query src := by
  have := lexFrom_tile query src (src.length + 1) src 0 (by simp) (Nat.le_refl _)
  refine ⟨by simpa [lexAll] using this.2.2, fun f hf => lexFrom_fuel query f src 0 hf⟩

-- non-vacuity: `x=.5//c` lexes into 5 items incl. Eof that tile the 7 bytes
example : (lexAll false [120, 61, 46, 53, 47, 47, 99]).map (fun t => (t.1.tok, t.2.1, t.2.2)) =
    [("Identifier", 0, 1), ("Eq", 1, 2), ("Number", 2, 4), ("Comment", 4, 7), ("Eof", 7, 7)] := by
  decide

/-! (G) tables and functions regenerated from compile/lexer/lexer.go, querylexer.go -/

/-- every operator is non-empty and every proper prefix of an operator is an operator: the
nested `if lxr.match(..)` clauses (a greedy trie walk) are the longest match over the table -/
theorem gen_optable_prefix_closed :
    (∀ e ∈ Gsu.Gen.Lexer.opTable, e.1 ≠ []) ∧
    (∀ e ∈ Gsu.Gen.Lexer.opTable, e.1.length ≤ 1 ∨
      (Gsu.Gen.Lexer.opTable.map (·.1)).contains e.1.dropLast = true) := by decide

/-- operators do not start with a byte that another clause of `switch c` handles
(space, letter, digit, `_`, the hand-mirrored special cases) and the table has no duplicates -/
theorem gen_optable_disjoint :
    (∀ e ∈ Gsu.Gen.Lexer.opTable, ∀ c ∈ e.1.head?,
      isSpace c = false ∧ isLetter c = false ∧ isDigit c = false ∧
      Gsu.Gen.Lexer.specials.contains c.toNat = false) ∧
    (Gsu.Gen.Lexer.opTable.map (·.1)).Nodup := by decide

/-- the clauses that are mirrored by hand are exactly `" # ' . / 0-9 _` and back quote -/
theorem gen_specials : Gsu.Gen.Lexer.specials =
    [34, 35, 39, 46, 47, 48, 49, 50, 51, 52, 53, 54, 55, 56, 57, 95, 96] ∧
    Gsu.Gen.Lexer.eofByte = 0 ∧ Gsu.Gen.Lexer.fallToken = "Error" := by decide

/-- keyword tables: the length in each `case` is the length of the keywords under it (no
unreachable entry), keywords are distinct -/
theorem gen_keywords_wellformed :
    (∀ e ∈ Gsu.Gen.Lexer.keywords, e.1 = e.2.1.length) ∧
    (∀ e ∈ Gsu.Gen.Lexer.queryKeywords, e.1 = e.2.1.length) ∧
    (Gsu.Gen.Lexer.keywords.map (·.2.1)).Nodup ∧
    (Gsu.Gen.Lexer.queryKeywords.map (·.2.1)).Nodup := by decide

/-- no keyword is lexed as Eof / Error / a literal token -/
theorem gen_keywords_tokens :
    ∀ e ∈ Gsu.Gen.Lexer.keywords ++ Gsu.Gen.Lexer.queryKeywords,
      e.2.2 ∉ ["Eof", "Error", "String", "Number", "Identifier", "Symbol", "Whitespace", "Newline", "Comment"] := by
  decide

set_option maxRecDepth 100000 in
/-- lexer.digit and lexer.isIdentChar as written today agree with the model on all bytes -/
theorem gen_lexer_bytefns : ∀ n : Nat, n < 256 →
    Gsu.Gen.Lexer.digit n 16 = digit (UInt8.ofNat n) 16 ∧
    Gsu.Gen.Lexer.isIdentChar n = isIdentChar (UInt8.ofNat n) := by decide

end Gsu.Props.C32
