/-
C41  Unauthenticated clients cannot access data or gain access

"When the database has users, a client connection that has not authenticated can only
authenticate, obtain a nonce, set or read its session id, list and fetch library code, and end
its session; every other request is refused (or fails for lack of an open transaction, query or
cursor) and has no effect on data, on other sessions, or on what it can later do.
Authentication succeeds only with a valid user password hash over a fresh nonce issued to that
connection, or with a one-time token that was issued to an already authenticated party."

The theorems are about `Gsu.Srv.genCfg`: the command table (control-flow paths of every `cmdX`)
and the `DbmsUnauth` method table regenerated from dbms/dbmsserver.go and dbms/dbmsunauth.go,
and the `AuthUser` empty-passhash flag regenerated from dbms/auth.go, interpreted by
`Gsu.Srv.evalPath` / `Gsu.Srv.step` — the same definitions `Drive/C41.lean` executes against the
implementation.  `H` is the hash function (SHA-1 in the driver; arbitrary here).
-/
import Gsu.Model.SrvCfg
import Gsu.Proofs.Srv
namespace Gsu.Props.C41
open Gsu.SrvEv Gsu.Srv Gsu.Proofs.Srv

/-- (G) shape of the regenerated table: indices are positions, every command of the property's
    allowed list exists, the wrapper has a verdict for every method a command calls. -/
theorem gen_table_shape :
    genCfg.cmds.map (·.idx) = List.range genCfg.cmds.length ∧
    (allowed.all fun n => (findCmd genCfg.cmds n).isSome) = true ∧
    (genCfg.cmds.all fun c => c.paths.all fun p => p.all fun e =>
      match e with
      | .dbms m => (lookupUA genCfg.unauth m).isSome
      | _ => true) = true := by
  decide

/-- the decision over the regenerated tables all table theorems below rest on -/
theorem only_allowed_table : onlyAllowed genCfg = true := by decide

/-- `unauth_only_allowed`: every command outside the allowed list, sent on an unauthenticated
    connection that owns no handle, ends in an error response on every control-flow path and
    for either kind of transaction-number argument — it is refused by the `DbmsUnauth` wrapper,
    or needs a transaction/query/cursor handle, before any call outside `benign` is reached. -/
theorem unauth_only_allowed (c : Cmd) (hc : c ∈ genCfg.cmds) (hn : c.name ∉ allowed)
    (hq : c.name ≠ "cmdLog") (tn0 : Bool) (p : List Ev) (hp : p ∈ c.paths) :
    (evalPath genCfg.unauth false tn0 Hs.none false p).2 = Out.refused := by
  have h := onlyAllowed_spec (cfg := genCfg) only_allowed_table c hc hn (by simpa [quietOk] using hq) tn0
  unfold cmdRefused cmdOuts at h
  have := (List.all_eq_true.mp h) _ (List.mem_map_of_mem hp)
  simpa using this

/-- the exception: `cmdLog` runs `limitLog` (the caller's own log quota) before the `Log` guard;
    with an empty message or a used-up quota it answers `true` without logging.  Like every
    other command outside the allowed list it never reaches a call outside `benign`. -/
theorem unauth_never_effect (c : Cmd) (hc : c ∈ genCfg.cmds) (hn : c.name ∉ allowed)
    (tn0 : Bool) (p : List Ev) (hp : p ∈ c.paths) :
    (evalPath genCfg.unauth false tn0 Hs.none false p).2 = Out.refused ∨
    (evalPath genCfg.unauth false tn0 Hs.none false p).2 = Out.answered := by
  have h := onlyAllowed_quiet (cfg := genCfg) only_allowed_table c hc hn tn0
  unfold cmdQuiet cmdOuts at h
  have := (List.all_eq_true.mp h) _ (List.mem_map_of_mem hp)
  simpa using this

/-- the `DbmsUnauth` wrapper of a connection is removed (`ss.sc.dbms = …`) by no command other
    than `cmdAuth`, and there only on paths that called `ss.auth` before. -/
theorem wrapper_removed_only_by_auth :
    (genCfg.cmds.all fun c => c.paths.all fun p =>
      if p.contains (.call "set:ss.sc.dbms") then
        c.name == "cmdAuth" &&
          (p.takeWhile (· != .call "set:ss.sc.dbms")).contains (.call "ss.auth")
      else true) = true := by
  decide

/-- `handles_unobtainable`: in every state reachable from a locked server by any sequence of
    requests on any connections, a connection that is (still) unauthenticated owns no
    transaction, query or cursor. -/
theorem handles_unobtainable (H : Bytes → Bytes) (users : List (Bytes × Bytes)) (ops : List Op)
    (c : Nat) (hu : ((run genCfg H (init users) ops).conns c).authed = false) :
    ((run genCfg H (init users) ops).conns c).hs = Hs.none :=
  run_inv HsInv (fun st op => hsInv_step (by decide) st op) ops (init users)
    (fun _ _ => rfl) c hu

/-- in every reachable state, any command outside the allowed list (cmdToken is the `token`
    operation, see `token_refused_unauth`) on an unauthenticated connection gets an error
    response and changes neither any connection's state nor the tokens. -/
theorem unauth_requests_refused (H : Bytes → Bytes) (users : List (Bytes × Bytes)) (ops : List Op)
    (c idx : Nat) (tn0 : Bool) (cmd : Cmd)
    (hu : ((run genCfg H (init users) ops).conns c).authed = false)
    (hget : genCfg.cmds[idx]? = some cmd) (hna : cmd.name ∉ allowed) (hq : cmd.name ≠ "cmdLog")
    (hnt : cmd.name ≠ "cmdToken") :
    let st := run genCfg H (init users) ops
    (step genCfg H st (.cmd c idx tn0)).2 = "!refused" ∧
    (∀ i, (step genCfg H st (.cmd c idx tn0)).1.conns i = st.conns i) ∧
    (step genCfg H st (.cmd c idx tn0)).1.tokens = st.tokens :=
  unauth_cmd_refused only_allowed_table (by decide) _
    (run_inv HsInv (fun st op => hsInv_step (by decide) st op) ops (init users) (fun _ _ => rfl))
    c idx tn0 cmd hu hget hna (by simpa [quietOk] using hq) hnt

/-- an unauthenticated connection cannot obtain a token, in any state -/
theorem token_refused_unauth (H : Bytes → Bytes) (st : St) (c : Nat) (t : Bytes)
    (hu : (st.conns c).authed = false) : step genCfg H st (.token c t) = (st, "!refused") := by
  have hg : tokenGuarded genCfg = true := by decide
  simp only [step]
  split
  · rfl
  · rename_i cmd hf
    rw [hu, tokenGuarded_spec hg cmd hf]
    rfl

/-- `auth_only_with_credentials`: in any reachable state, a step turns `authed` of connection
    `c` from false to true only if it is an Auth request on `c` whose string is either
    user ++ NUL ++ H(nonce ++ passhash) for an existing user with a non-empty password hash and
    the connection's current non-empty nonce, or an outstanding token that was obtained by an
    authenticated connection. -/
theorem auth_only_with_credentials (H : Bytes → Bytes) (users : List (Bytes × Bytes))
    (ops : List Op) (op : Op) (c : Nat)
    (h0 : ((run genCfg H (init users) ops).conns c).authed = false)
    (h1 : ((step genCfg H (run genCfg H (init users) ops) op).1.conns c).authed = true) :
    let st := run genCfg H (init users) ops
    ∃ s, op = .auth c s ∧
      (ValidCred H st.users (st.conns c).nonce s ∨
       ∃ t ∈ st.tokens, t.tok = s ∧ t.byAuthed = true) := by
  intro st
  have hr : genCfg.rejectEmpty = true := by decide
  have hti : TokInv st :=
    run_inv TokInv (fun st op => tokInv_step (by decide) st op) ops (init users)
      (fun _ h => absurd h (by simp [init]))
  rcases authed_step h0 h1 with ⟨s, rfl, ha | ht⟩
  · rw [hr] at ha
    exact ⟨s, rfl, Or.inl (authUser_valid ha)⟩
  · refine ⟨s, rfl, Or.inr ?_⟩
    simp only [hasTok, List.any_eq_true, beq_iff_eq] at ht
    rcases ht with ⟨t, hm, he⟩
    exact ⟨t, hm, he, hti t hm⟩

/-- end to end: starting from a locked server (nobody authenticated, no tokens), whatever
    requests are made on whatever connections, if no Auth request carries a valid user
    credential (a user's hash over some non-empty nonce) then nobody is ever authenticated
    and no token is ever issued. -/
theorem no_access_without_credentials (H : Bytes → Bytes) (users : List (Bytes × Bytes))
    (ops : List Op) (hn : ∀ op ∈ ops, NoCred H users op) :
    (∀ c, ((run genCfg H (init users) ops).conns c).authed = false) ∧
    (run genCfg H (init users) ops).tokens = [] := by
  have key : ∀ (ops : List Op) (st : St), st.users = users → Locked st →
      (∀ op ∈ ops, NoCred H users op) → Locked (run genCfg H st ops) := by
    intro ops
    induction ops with
    | nil => intro st _ hl _; exact hl
    | cons o os ih =>
      intro st hu hl hn
      simp only [run, List.foldl_cons]
      refine ih _ ((step_users genCfg H st o).trans hu) ?_ (fun op h => hn op (List.mem_cons_of_mem _ h))
      exact locked_step (by decide) (by decide) st o hl (hu ▸ hn o (List.mem_cons_self ..))
  exact key ops (init users) rfl ⟨fun _ => rfl, rfl⟩ hn

/-- `nonce_single_use`: an Auth request consumes the connection's nonce whatever its result, and
    without a nonce no user credential is accepted: a second Auth on the same connection can
    only succeed with a token. -/
theorem nonce_single_use (H : Bytes → Bytes) (st : St) (c : Nat) (s s' : Bytes)
    (hu : (st.conns c).authed = false) :
    let st1 := (step genCfg H st (.auth c s)).1
    (st1.conns c).nonce = [] ∧
    (((step genCfg H st1 (.auth c s')).1.conns c).authed = true →
      (st1.conns c).authed = true ∨ hasTok st1.tokens s' = true) := by
  intro st1
  have hnonce : (st1.conns c).nonce = [] := by
    show ((step genCfg H st (.auth c s)).1.conns c).nonce = []
    simp only [step, hu, Bool.false_eq_true, ↓reduceIte]
    split
    · rw [setConn_same]
    · split
      · show ((st.setConn c _).conns c).nonce = []
        rw [setConn_same]
      · rw [setConn_same]
  refine ⟨hnonce, fun h => ?_⟩
  cases ha : (st1.conns c).authed with
  | true => exact Or.inl rfl
  | false =>
    rcases authed_step ha h with ⟨x, hx, hv | ht⟩
    · rw [hnonce, authUser_nil] at hv
      exact absurd hv (by simp)
    · cases hx
      exact Or.inr ht

/-- `token_single_use`: a token that authenticated a connection is no longer outstanding. -/
theorem token_single_use (H : Bytes → Bytes) (st : St) (c : Nat) (s : Bytes)
    (hu : (st.conns c).authed = false)
    (hnu : authUser H genCfg.rejectEmpty st.users s (st.conns c).nonce = false)
    (ht : hasTok st.tokens s = true) :
    (step genCfg H st (.auth c s)).2 = "t" ∧
    hasTok (step genCfg H st (.auth c s)).1.tokens s = false := by
  simp only [step, hu, hnu, ht, Bool.false_eq_true, ↓reduceIte, true_and]
  exact hasTok_delTok _ _

/-- tokens and nonces that are not used expire after two ticks of the background task -/
theorem token_nonce_expire (H : Bytes → Bytes) (st : St) (c : Nat) :
    let st2 := (step genCfg H (step genCfg H st .expire).1 .expire).1
    st2.tokens = [] ∧ (st2.conns c).nonce = [] :=
  ⟨expireToks_twice _, expireConn_twice _⟩

/-! non-vacuity: the hypotheses above are satisfiable and the machine does authenticate -/

/-- a command outside the allowed list exists and is in the table (cmdAdmin) -/
example : ∃ c ∈ genCfg.cmds, c.name ∉ allowed ∧ c.paths ≠ [] :=
  ⟨Gsu.Gen.SrvCmds.c1, by simp [genCfg, Gsu.Gen.SrvCmds.cmds], by decide, by decide⟩

/-- with the identity "hash": nonce, then a valid credential authenticates; a wrong one does not;
    an authenticated connection obtains a token which authenticates a second connection once -/
example :
    let users : List (Bytes × Bytes) := [([102], [49, 50, 51])]
    let good : Bytes := [102, 0, 7, 7, 49, 50, 51]
    let ops := [Op.nonce 0 [7, 7], .auth 0 good, .token 0 [9], .auth 1 [9], .auth 2 [9]]
    let st := run genCfg id (init users) ops
    (st.conns 0).authed = true ∧ (st.conns 1).authed = true ∧ (st.conns 2).authed = false ∧
    ((run genCfg id (init users) [.nonce 0 [7, 7], .auth 0 [102, 0, 7, 7]]).conns 0).authed = false := by
  decide

end Gsu.Props.C41
