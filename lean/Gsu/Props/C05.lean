/-
C05 — Crash recovery restores the latest durable state.

"If the process dies at any point after the database file was created, the damaged file is
refused on open until repaired, and repair produces a database that opens cleanly and whose
contents equal the most recent state that was completely persisted before the crash. Check and
repair always terminate with a clear result rather than crashing, whatever the file's tail
contains."
Quantifier: every byte offset at which the file can end, with the unwritten tail absent,
zero-filled, or filled with garbage, after any workload containing several persists.

The theorems are about `Gsu.Model.Repair` (the definitions `Drive/C05.lean` executes):
`search` mirrors `repair.search` (as repaired by fixes/04-repair-empty.patch) over an arbitrary
check predicate `good` and `n = len(offsets)`; `openTail`/`fix`/`stripZeros` mirror the tail
marker logic; `goodCut`/`recovered` are the crash model. Lemmas: `Gsu/Proofs/Repair.lean`.

What is NOT a theorem here (tied by the fault-enumeration suites only): that `repair.check` of a
state whose bytes and everything it references lie below the cut succeeds, and that it fails for
a state the cut damaged — the hypothesis `hcheck` of `crash_monotone` ("garbage does not forge a
checksum"; checksums are 16 bit, so this is a probabilistic fact about the implementation).
-/
import Gsu.Proofs.Repair
import Gsu.Gen.Repair
namespace Gsu.Props.C05
open Gsu.Proto Gsu.Repair

/-- `repair.search` terminates (it is a total function: structural recursion on fuel that the
proofs below show is never exhausted early) and never indexes outside `offsets`, for every check
predicate and every number of offsets INCLUDING `offsets = []`; an index it returns is inside
`offsets` and designates a state that passed the check. No assumption on `good`. -/
theorem search_total (good : Nat → Bool) (n : Nat) :
    search good n ≠ .oob ∧ (n = 0 → search good n = .none) ∧
    ∀ k, search good n = .found k → k < n ∧ good k = true :=
  ⟨search_ne_oob good n, fun h => by subst h; rfl, fun k h => search_found_sound good n k h⟩

/-- the unrepaired loop does index outside `offsets` when there are none (finding 4) -/
theorem search_unguarded_counter (good : Nat → Bool) : searchG false good 0 = .oob := rfl

/-- When good and bad states are not mixed (`good` monotone in state age), `search` finds the
NEWEST good state: nothing newer is good; and it reports "no valid states" only if none is. -/
theorem search_finds_newest_good (good : Nat → Bool) (n : Nat) (hmono : MonoOn good n) :
    (∀ k, search good n = .found k → k < n ∧ good k = true ∧ ∀ j, j < k → good j = false) ∧
    (search good n = .none → ∀ j, j < n → good j = false) :=
  ⟨fun k h => ⟨(search_found_sound good n k h).1, (search_found_sound good n k h).2,
      search_found_newest good n k hmono h⟩,
   search_none_all_bad good n hmono⟩

/-- The open decision: a file is opened (its last state read) only if, after the trailing-zero
strip, it ends in the shutdown marker; every other tail — cut anywhere, zero-filled, garbage, or
the corrupt marker — is refused. -/
theorem open_refuses_unless_shutdown (file : Bytes) :
    (∀ off, openTail file = .state off → tailOf (stripZeros file) = shutdown) ∧
    (tailOf (stripZeros file) ≠ shutdown → openTail file = .corruptMarker ∨ openTail file = .notShutdown) := by
  unfold openTail
  constructor
  · intro off h
    by_cases ht : tailOf (stripZeros file) = shutdown
    · exact ht
    · simp only [ht, if_false] at h
      split at h <;> cases h
  · intro ht
    simp only [ht, if_false]
    split
    · exact Or.inl rfl
    · exact Or.inr rfl

/-- `repair.fix(off)` yields a file that the open decision accepts, reading the state at exactly
`off` (whatever followed the good state in the damaged file). -/
theorem fix_yields_shutdown_file (file : Bytes) (off : Nat) (h : off + stateLen ≤ file.length) :
    openTail (fix file off) = .state off :=
  openTail_fix file off h

/-- Crash model. `ends` = end offsets of the persisted states (oldest first, increasing because
storage is append-only); the file is cut at `cut`. IF the check of a state succeeds exactly when
the state ends at or below the cut (`hcheck`: an intact state checks, and garbage / zeros / a
missing tail do not forge the checksums of a damaged one), THEN `good` is monotone in state age,
and `search` returns the latest state that was completely written before the cut, or reports
"no valid states" when there is none. -/
theorem crash_monotone (ends : List Nat) (cut : Nat) (hs : ends.Pairwise (· < ·))
    (good : Nat → Bool) (hcheck : ∀ i, i < ends.length → good i = goodCut ends cut i) :
    MonoOn good ends.length ∧
    (∀ k, search good ends.length = .found k →
      ∃ e, ends.reverse[k]? = some e ∧ e ≤ cut ∧ ∀ j e', j < k → ends.reverse[j]? = some e' → cut < e') ∧
    (search good ends.length = .none → ∀ e ∈ ends, cut < e) := by
  have hm : MonoOn good ends.length := by
    intro i j hij hj hg
    rw [hcheck j hj]
    rw [hcheck i (by omega)] at hg
    exact goodCut_mono ends cut hs i j hij hj hg
  refine ⟨hm, ?_, ?_⟩
  · intro k hk
    have hb := search_found_sound good _ k hk
    have hnew := search_found_newest good _ k hm hk
    have hkl : k < ends.reverse.length := by simpa using hb.1
    refine ⟨ends.reverse[k], List.getElem?_eq_getElem hkl, ?_, ?_⟩
    · have := hb.2
      rw [hcheck k hb.1] at this
      simpa [goodCut, List.getElem?_eq_getElem hkl] using this
    · intro j e' hj he'
      have := hnew j hj
      rw [hcheck j (by omega)] at this
      simp only [goodCut, he'] at this
      have : ¬ e' ≤ cut := by simpa using this
      omega
  · intro hn e he
    have hall := search_none_all_bad good _ hm hn
    obtain ⟨s, hsl, rfl⟩ := List.getElem_of_mem he
    have h1 := goodCut_at ends cut s ends[s] (List.getElem?_eq_getElem hsl)
    have h2 := hall (ends.length - 1 - s) (by omega)
    rw [hcheck _ (by omega), h1] at h2
    have : ¬ ends[s] ≤ cut := by simpa using h2
    omega

/-- the predicted state of the crash suites: `recovered ends cut` (what the driver computes) is
the latest state ending at or below the cut / none iff there is no such state -/
theorem recovered_is_latest_durable (ends : List Nat) (cut : Nat) (hs : ends.Pairwise (· < ·)) :
    (∀ s, recovered ends cut = some s →
      ∃ e, ends[s]? = some e ∧ e ≤ cut ∧ ∀ s' e', s < s' → ends[s']? = some e' → cut < e') ∧
    (recovered ends cut = none → ∀ e ∈ ends, cut < e) :=
  ⟨fun s h => recovered_some ends cut s hs h, recovered_none ends cut hs⟩

-- non-vacuity: a monotone predicate with the boundary in the middle; a sorted list of ends
example : MonoOn (fun i => decide (5 ≤ i)) 12 := by
  intro i j hij _ hg; simp only [decide_eq_true_eq] at hg ⊢; omega
example : search (fun i => decide (5 ≤ i)) 12 = .found 5 := by decide
example : [100, 250, 400].Pairwise (· < ·) := by decide
example : recovered [100, 250, 400] 399 = some 1 ∧ recovered [100, 250, 400] 99 = none := by decide
example : ∀ i, i < 3 → (goodCut [100, 250, 400] 300) i = goodCut [100, 250, 400] 300 i := fun _ _ => rfl

/-- (G) constants of the state record, the tail markers, and the shape of `repair.search`,
re-read from the source on every run: the guard for `offsets = []` is present (finding 4
repaired), `skip` starts at 1 and doubles, the bisection continues while `lo < hi-1` with
`mid = lo + (hi-lo)/2`. -/
theorem gen_search_guard : Gsu.Gen.Repair.emptyGuard = true := rfl

/-- (G) the scanner only lists candidates whose whole record lies inside the file (the crash
model's "a state not completely below the cut is not a state"; without the length test the
read-only mapping is read past the end of the file — findings/C05.md, SIGBUS) -/
theorem gen_scanner_bounds : Gsu.Gen.Repair.scannerBoundsCheck = true := rfl

theorem gen_constants :
    Gsu.Gen.Repair.magic1 = magic1 ∧ Gsu.Gen.Repair.magic2 = magic2 ∧
    Gsu.Gen.Repair.shutdown = shutdown ∧ Gsu.Gen.Repair.corrupt = corrupt ∧
    Gsu.Gen.Repair.dateSize = dateSize ∧ Gsu.Gen.Repair.smallOffsetLen = smallOffsetLen ∧
    Gsu.Gen.Repair.cksumLen = cksumLen ∧ Gsu.Gen.Repair.stateLen = stateLen ∧
    Gsu.Gen.Repair.magic2at = magic2at ∧ Gsu.Gen.Repair.tailSize = tailSize ∧
    Gsu.Gen.Repair.shutdown.length = tailSize ∧ Gsu.Gen.Repair.corrupt.length = tailSize := by
  decide

theorem gen_search_shape :
    Gsu.Gen.Repair.skipInit = 1 ∧ Gsu.Gen.Repair.skipMul = 2 ∧
    (∀ lo hi : Nat, Gsu.Gen.Repair.bisectCont lo hi = decide (lo + 1 < hi)) ∧
    (∀ lo hi : Nat, lo ≤ hi → Gsu.Gen.Repair.bisectMid lo hi = ((lo + (hi - lo) / 2 : Nat) : Int)) := by
  refine ⟨rfl, rfl, ?_, ?_⟩
  · intro lo hi
    simp only [Gsu.Gen.Repair.bisectCont]
    by_cases h : lo + 1 < hi
    · simp [h]; omega
    · simp [h]; omega
  · intro lo hi h
    simp only [Gsu.Gen.Repair.bisectMid]
    rw [Int.tdiv_eq_ediv_of_nonneg (by omega)]
    omega

end Gsu.Props.C05
