/-
C04 — Clean shutdown and reopen preserve the database exactly.

"After any history of committed transactions and schema changes followed by a clean close,
reopening the database shows exactly the same tables, views, columns, indexes, foreign keys, rows
and row counts as were visible before closing. Nothing that was committed is lost and nothing
uncommitted appears."

Full statement (`reopen_id`): `logical (open (close s)) = logical s` for every reachable database
state `s`.  Proved here (CORE, `reopen_id_bytes_partial`): the metadata path of close/open down to
the bytes —
(1) the state record written by the final persist is read back to the same schema/info offsets and
    time, with the checksum the code uses (`state_roundtrip_real`; `state_roundtrip` for any
    checksum function; layout constants regenerated from state.go: `gen_state_layout`; the 36 bytes
    of every record the suites write are replayed through `encodeReal`/`decodeReal`),
(2) the item codecs: `ReadSchema ∘ Schema.Write = id` (`schema_item_roundtrip`) and
    `ReadInfo ∘ Info.Write = id` on merged infos (`info_item_roundtrip`), and the chunk frame +
    item loop of `Hamt.Write`/`Hamt.read` (`schema_chunk_roundtrip`, `info_chunk_roundtrip`);
    the real chunk and item bytes are replayed through these model functions,
(3) `ReadChain` of the schema chain and of the info chain written by the final persist (any merge
    schedule) yield exactly the live entries of the in-memory tables (C15 `chain_roundtrip`).
Missing for `reopen_id`: the btree/overlay save (C10/C16), the shutdown marker/`readTail`,
`linkFkeys_restores` (relinking from `Fk` rebuilds the incremental `FkToHere`; stated and proved
with the C21 schema algebra, `Gsu.Props.C21`), the derived `Ixspecs`, and the identification of
store offsets with chunks.  These are tied by the model-free reopen suite over real files only.
-/
import Gsu.Proofs.StateRec
import Gsu.Proofs.Chain
import Gsu.Props.C15
import Gsu.Gen.StateRec
import Gsu.Proofs.MetaItem
namespace Gsu.Props.C04
open Gsu.Hamt Gsu.StateRec Gsu.MetaItem

/-- the state record round-trips: `readState (writeState t offSchema offInfo)` returns the same
offsets and time, for any 2-byte checksum function, 5-byte offsets that precede the record -/
theorem state_roundtrip (ck : Bytes → Bytes) (hck : ∀ b, (ck b).length = 2)
    (t offS offI off : Nat) (ht : t < 2 ^ 64) (hs : offS < 2 ^ 40) (hi : offI < 2 ^ 40)
    (hso : offS < off) (hio : offI < off) :
    decode ck off (encode ck t offS offI) = some (offS, offI, t) :=
  Gsu.StateRec.state_roundtrip ck hck t offS offI off ht hs hi hso hio

example : decode (fun _ => [7, 9]) 100 (encode (fun _ => [7, 9]) 1700000000000 40 60) =
    some (40, 60, 1700000000000) := by decide

/-- (G) the layout the model uses is the one in state.go / stor / cksum today:
8 + 8 + 2·5 + 2 + 8 = 36 bytes -/
theorem gen_state_layout :
    Gsu.Gen.StateRec.magic1 = magic1 ∧ Gsu.Gen.StateRec.magic2 = magic2 ∧
    Gsu.Gen.StateRec.dateSize = 8 ∧ Gsu.Gen.StateRec.smallOffsetLen = 5 ∧
    Gsu.Gen.StateRec.cksumLen = 2 ∧
    (encode (fun _ => [0, 0]) 0 0 0).length =
      Gsu.Gen.StateRec.magic1.length + Gsu.Gen.StateRec.dateSize +
      2 * Gsu.Gen.StateRec.smallOffsetLen + Gsu.Gen.StateRec.cksumLen +
      Gsu.Gen.StateRec.magic2.length := by decide

/-- (G) util/cksum still stores `byte(cs), byte(cs>>8)` of crc32 with the Castagnoli table (shape
checked by the extractor), whose reversed polynomial is the one the mirror `crc32c` uses -/
theorem gen_cksum_poly : Gsu.Gen.StateRec.crcPoly = crcPoly.toNat ∧
    ∀ b, (cksum b).length = Gsu.Gen.StateRec.cksumLen := ⟨by decide, fun _ => rfl⟩

/-- **reopen_id (PARTIAL: metadata path)**. For reachable schema and info chains, after the final
persist (each chain written with any number of merged chunks) the state record reads back to the
offsets written, and reading both chains back yields exactly the live schema and info entries. -/
theorem reopen_id_partial {M : Type} {ops : MapOps M} {ok : M → Prop} (L : MapLaws ops ok)
    {cs ci : Chain M} (hs : Gsu.Props.C15.Reach ops cs) (hi : Gsu.Props.C15.Reach ops ci)
    (ms mi ids idi : Nat) (hms : ms ≤ cs.chunks.length) (hmi : mi ≤ ci.chunks.length)
    (rs ri : Chain M)
    (hrs : readChain ops (writeChainWith ops cs ms ids).2.chunks = some rs)
    (hri : readChain ops (writeChainWith ops ci mi idi).2.chunks = some ri)
    (ck : Bytes → Bytes) (hck : ∀ b, (ck b).length = 2)
    (t offS offI off : Nat) (ht : t < 2 ^ 64) (hso : offS < off) (hio : offI < off)
    (hoff : off < 2 ^ 40) :
    decode ck off (encode ck t offS offI) = some (offS, offI, t) ∧
    (∀ k, live (ops.get rs.ht k) = live (ops.get cs.ht k)) ∧
    (∀ k, live (ops.get ri.ht k) = live (ops.get ci.ht k)) :=
  ⟨Gsu.StateRec.state_roundtrip ck hck t offS offI off ht (by omega) (by omega) hso hio,
   Gsu.Props.C15.chain_roundtrip L hs ms ids hms rs hrs,
   Gsu.Props.C15.chain_roundtrip L hi mi idi hmi ri hri⟩

/-- the same for the trie the code uses (C15 `hamt_map`): no map hypothesis left -/
theorem reopen_id_trie_partial (hf : Nat → Nat)
    {cs ci : Chain T} (hs : Gsu.Props.C15.Reach (trieOps hf) cs) (hi : Gsu.Props.C15.Reach (trieOps hf) ci)
    (ms mi ids idi : Nat) (hms : ms ≤ cs.chunks.length) (hmi : mi ≤ ci.chunks.length)
    (rs ri : Chain T)
    (hrs : readChain (trieOps hf) (writeChainWith (trieOps hf) cs ms ids).2.chunks = some rs)
    (hri : readChain (trieOps hf) (writeChainWith (trieOps hf) ci mi idi).2.chunks = some ri) :
    (∀ k, live ((trieOps hf).get rs.ht k) = live ((trieOps hf).get cs.ht k)) ∧
    (∀ k, live ((trieOps hf).get ri.ht k) = live ((trieOps hf).get ci.ht k)) :=
  ⟨Gsu.Props.C15.trie_chain_roundtrip hf hs ms ids hms rs hrs,
   Gsu.Props.C15.trie_chain_roundtrip hf hi mi idi hmi ri hri⟩

/-! ## byte level (the model functions below are replayed by `Drive/C04.lean` on the bytes the
real code writes: state records, chunk frames, schema and info items) -/

/-- the state record round-trips with the checksum the code uses (low 16 bits of crc32-Castagnoli,
`Gsu.StateRec.cksum`, tied byte for byte by the `stenc`/`stdec` replay): no hypothesis on the
checksum function left -/
theorem state_roundtrip_real (t offS offI off : Nat) (ht : t < 2 ^ 64) (hs : offS < 2 ^ 40)
    (hi : offI < 2 ^ 40) (hso : offS < off) (hio : offI < off) :
    decodeReal off (encodeReal t offS offI) = some (offS, offI, t) :=
  Gsu.StateRec.state_roundtrip cksum cksum_length t offS offI off ht hs hi hso hio

/-- `ReadSchema (Schema.Write s)` = `s` for every schema that `Schema.Write` accepts (table,
columns, derived, indexes with mode / columns / best key / foreign key table, mode, columns),
followed by any bytes; the reader stops exactly at the end of the item.  Well-formed = keys carry
no best key and foreign key columns only occur with a foreign key table (otherwise the read-back
value is the normal form `normSchema s`, see `schema_item_roundtrip_norm`). -/
theorem schema_item_roundtrip (s : Schema) (hwf : SchemaWF s) (bs rest : Bytes)
    (h : writeSchema s = some bs) : readSchema (bs ++ rest) = some (s, rest) := by
  rw [readSchema_writeSchema s bs rest h, normSchema_of_wf s hwf]

theorem schema_item_roundtrip_norm (s : Schema) (bs rest : Bytes) (h : writeSchema s = some bs) :
    readSchema (bs ++ rest) = some (normSchema s, rest) :=
  readSchema_writeSchema s bs rest h

/-- the hypotheses are satisfiable: a table `t (a,b) key(a) index(b) in u(a) cascade` and its bytes -/
example : writeSchema ⟨[116], [[97], [98]], [], [⟨107, [[97]], none, ⟨[], 0, []⟩⟩,
    ⟨105, [[98]], some [[97]], ⟨[117], 1, [[97]]⟩⟩]⟩ =
  some [1, 0, 116, 2, 0, 1, 0, 97, 1, 0, 98, 0, 0, 2,
        107, 1, 0, 1, 0, 97, 0, 0, 0, 0, 0,
        105, 1, 0, 1, 0, 98, 1, 0, 1, 0, 97, 1, 0, 117, 1, 1, 0, 1, 0, 97] := by decide

example : SchemaWF ⟨[116], [[97], [98]], [], [⟨107, [[97]], none, ⟨[], 0, []⟩⟩,
    ⟨105, [[98]], some [[97]], ⟨[117], 1, [[97]]⟩⟩]⟩ := by
  intro ix hix; simp at hix; rcases hix with rfl | rfl <;> simp [modeKey]

/-- `ReadInfo (Info.Write i)` = `i` when the in-memory deltas are zero (Nrows = BtreeNrows and
Size = BtreeSize: what `Meta.CheckAllMerged` asserts for a persisted state): table, row count,
size, and for every index the btree root offset and tree levels -/
theorem info_item_roundtrip (i : Info) (hn : i.nrows = i.btreeNrows) (hz : i.size = i.btreeSize)
    (bs rest : Bytes) (h : writeInfo i = some bs) : readInfo (bs ++ rest) = some (i, rest) := by
  rw [readInfo_writeInfo i bs rest h]
  cases i; simp only [normInfo] at *; subst hn; subst hz; rfl

example : writeInfo ⟨[116], [⟨300, 1⟩], 5, 70, 5, 70⟩ =
  some [1, 0, 116, 5, 0, 0, 0, 70, 0, 0, 0, 0, 1, 44, 1, 0, 0, 0, 1] := by decide

/-- in general the read-back info has lost the deltas -/
theorem info_item_roundtrip_norm (i : Info) (bs rest : Bytes) (h : writeInfo i = some bs) :
    readInfo (bs ++ rest) = some (normInfo i, rest) :=
  readInfo_writeInfo i bs rest h

/-- a schema chunk (`Hamt.Write`: size, prevOff, items checksum, the items, crc) is read back by
`Hamt.read` + `ReadSchema` to the same prevOff, checksum and items, whatever follows it in the store -/
theorem schema_chunk_roundtrip (xs : List Schema) (hwf : ∀ s ∈ xs, SchemaWF s) (prev : Int) (ck : Nat)
    (body bs tail : Bytes) (hb : writeItems writeSchema xs = some body)
    (hc : writeChunk prev ck body = some bs) :
    readChunk (bs ++ tail) = some (prev.toNat, ck, body) ∧
    readItems readSchema body.length body = some xs := by
  refine ⟨by simpa using (readChunk_writeChunk prev ck body bs tail hc).1, ?_⟩
  rw [readItems_writeItems writeSchema readSchema normSchema readSchema_writeSchema
    writeSchema_ne_nil xs body hb body.length (Nat.le_refl _)]
  congr 1
  calc xs.map normSchema = xs.map id := List.map_congr_left fun s hs => normSchema_of_wf s (hwf s hs)
    _ = xs := List.map_id _

/-- the same for an info chunk -/
theorem info_chunk_roundtrip (xs : List Info)
    (hm : ∀ i ∈ xs, i.nrows = i.btreeNrows ∧ i.size = i.btreeSize) (prev : Int) (ck : Nat)
    (body bs tail : Bytes) (hb : writeItems writeInfo xs = some body)
    (hc : writeChunk prev ck body = some bs) :
    readChunk (bs ++ tail) = some (prev.toNat, ck, body) ∧
    readItems readInfo body.length body = some xs := by
  refine ⟨by simpa using (readChunk_writeChunk prev ck body bs tail hc).1, ?_⟩
  rw [readItems_writeItems writeInfo readInfo normInfo readInfo_writeInfo
    writeInfo_ne_nil xs body hb body.length (Nat.le_refl _)]
  congr 1
  have : ∀ i ∈ xs, normInfo i = id i := by
    intro i hi
    obtain ⟨h1, h2⟩ := hm i hi
    cases i; simp only [normInfo, id] at *; subst h1; subst h2; rfl
  calc xs.map normInfo = xs.map id := List.map_congr_left this
    _ = xs := List.map_id _

/-- **reopen_id (PARTIAL: metadata path down to the bytes)**.  For reachable schema and info chains
(trie of the code, any merge schedule of the final persist), with `σ`/`ι` giving the schema / info
an abstract chain item denotes:
(1) the state record written with the real checksum reads back to the offsets and time written;
(2) every chunk of the written schema chain, encoded by the real frame and `Schema.Write`, is decoded
    by `Hamt.read`/`ReadSchema` to the same prevOff, checksum and items; (3) the same for info;
(4) reading the chains of these items back yields exactly the live schema and info entries.
Still missing for the full `reopen_id`: btree/overlay save (C10/C16), the shutdown marker/`readTail`,
`linkFkeys` (C21), and the identification of store offsets with chunks (suite only). -/
theorem reopen_id_bytes_partial (hf : Nat → Nat)
    {cs ci : Chain T} (hs : Gsu.Props.C15.Reach (trieOps hf) cs) (hi : Gsu.Props.C15.Reach (trieOps hf) ci)
    (ms mi ids idi : Nat) (hms : ms ≤ cs.chunks.length) (hmi : mi ≤ ci.chunks.length)
    (rs ri : Chain T)
    (hrs : readChain (trieOps hf) (writeChainWith (trieOps hf) cs ms ids).2.chunks = some rs)
    (hri : readChain (trieOps hf) (writeChainWith (trieOps hf) ci mi idi).2.chunks = some ri)
    (t offS offI off : Nat) (ht : t < 2 ^ 64) (hso : offS < off) (hio : offI < off)
    (hoff : off < 2 ^ 40)
    (σ : Item → Schema) (hσ : ∀ it, SchemaWF (σ it))
    (ι : Item → Info) (hι : ∀ it, (ι it).nrows = (ι it).btreeNrows ∧ (ι it).size = (ι it).btreeSize) :
    decodeReal off (encodeReal t offS offI) = some (offS, offI, t) ∧
    (∀ ch ∈ (writeChainWith (trieOps hf) cs ms ids).2.chunks, ∀ (prev : Int) (body bs tail : Bytes),
      writeItems writeSchema (ch.items.map σ) = some body → writeChunk prev ch.ck body = some bs →
      readChunk (bs ++ tail) = some (prev.toNat, ch.ck, body) ∧
      readItems readSchema body.length body = some (ch.items.map σ)) ∧
    (∀ ch ∈ (writeChainWith (trieOps hf) ci mi idi).2.chunks, ∀ (prev : Int) (body bs tail : Bytes),
      writeItems writeInfo (ch.items.map ι) = some body → writeChunk prev ch.ck body = some bs →
      readChunk (bs ++ tail) = some (prev.toNat, ch.ck, body) ∧
      readItems readInfo body.length body = some (ch.items.map ι)) ∧
    (∀ k, live ((trieOps hf).get rs.ht k) = live ((trieOps hf).get cs.ht k)) ∧
    (∀ k, live ((trieOps hf).get ri.ht k) = live ((trieOps hf).get ci.ht k)) :=
  ⟨state_roundtrip_real t offS offI off ht (by omega) (by omega) hso hio,
   fun ch _ prev body bs tail hb hc =>
     schema_chunk_roundtrip _ (by intro s hs; simp at hs; obtain ⟨it, _, rfl⟩ := hs; exact hσ it)
       prev ch.ck body bs tail hb hc,
   fun ch _ prev body bs tail hb hc =>
     info_chunk_roundtrip _ (by intro s hs; simp at hs; obtain ⟨it, _, rfl⟩ := hs; exact hι it)
       prev ch.ck body bs tail hb hc,
   Gsu.Props.C15.trie_chain_roundtrip hf hs ms ids hms rs hrs,
   Gsu.Props.C15.trie_chain_roundtrip hf hi mi idi hmi ri hri⟩

end Gsu.Props.C04
