/-
C04 — Clean shutdown and reopen preserve the database exactly.

"After any history of committed transactions and schema changes followed by a clean close,
reopening the database shows exactly the same tables, views, columns, indexes, foreign keys, rows
and row counts as were visible before closing. Nothing that was committed is lost and nothing
uncommitted appears."

Full statement (`reopen_id`): `logical (open (close s)) = logical s` for every reachable database
state `s`.  Proved here (CORE, `reopen_id_partial`): the metadata path of close/open —
(1) the state record written by the final persist is read back to the same schema/info offsets and
    time (`state_roundtrip`, layout constants regenerated from state.go: `gen_state_layout`),
(2) `ReadChain` of the schema chain and of the info chain written by the final persist (any merge
    schedule) yield exactly the live entries of the in-memory tables (C15 `chain_roundtrip`).
Missing for `reopen_id`: the byte level of the chunk/item encodings (C14), the btree/overlay save
(C10/C16), the shutdown marker/`readTail`, and `linkFkeys_restores` (relinking from `Fk` rebuilds
the incremental `FkToHere`; stated and proved with the C21 schema algebra, `Gsu.Props.C21`).
These are tied by the model-free reopen suite over real files only.
-/
import Gsu.Proofs.StateRec
import Gsu.Proofs.Chain
import Gsu.Props.C15
import Gsu.Gen.StateRec
namespace Gsu.Props.C04
open Gsu.Hamt Gsu.StateRec

/-- the state record round-trips: `readState (writeState t offSchema offInfo)` returns the same
offsets and time, for any 2-byte checksum function, 5-byte offsets that precede the record -/
theorem state_roundtrip (ck : Bytes → Bytes) (hck : ∀ b, (ck b).length = 2)
    (t offS offI off : Nat) (ht : t < 2 ^ 64) (hs : offS < 2 ^ 40) (hi : offI < 2 ^ 40)
    (hso : offS < off) (hio : offI < off) :
    decode ck off (encode ck t offS offI) = some (offS, offI, t) :=
  Gsu.StateRec.state_roundtrip ck hck t offS offI off ht hs hi hso hio

example : decode (fun _ => [7, 9]) 100 (encode (fun _ => [7, 9]) 1700000000000 40 60) =
    some (40, 60, 1700000000000) := by decide

/-- (G) the layout the model uses is the one in state.go / stor / cksum today:
8 + 8 + 2·5 + 2 + 8 = 36 bytes -/
theorem gen_state_layout :
    Gsu.Gen.StateRec.magic1 = magic1 ∧ Gsu.Gen.StateRec.magic2 = magic2 ∧
    Gsu.Gen.StateRec.dateSize = 8 ∧ Gsu.Gen.StateRec.smallOffsetLen = 5 ∧
    Gsu.Gen.StateRec.cksumLen = 2 ∧
    (encode (fun _ => [0, 0]) 0 0 0).length =
      Gsu.Gen.StateRec.magic1.length + Gsu.Gen.StateRec.dateSize +
      2 * Gsu.Gen.StateRec.smallOffsetLen + Gsu.Gen.StateRec.cksumLen +
      Gsu.Gen.StateRec.magic2.length := by decide

/-- **reopen_id (PARTIAL: metadata path)**. For reachable schema and info chains, after the final
persist (each chain written with any number of merged chunks) the state record reads back to the
offsets written, and reading both chains back yields exactly the live schema and info entries. -/
theorem reopen_id_partial {M : Type} {ops : MapOps M} {ok : M → Prop} (L : MapLaws ops ok)
    {cs ci : Chain M} (hs : Gsu.Props.C15.Reach ops cs) (hi : Gsu.Props.C15.Reach ops ci)
    (ms mi ids idi : Nat) (hms : ms ≤ cs.chunks.length) (hmi : mi ≤ ci.chunks.length)
    (rs ri : Chain M)
    (hrs : readChain ops (writeChainWith ops cs ms ids).2.chunks = some rs)
    (hri : readChain ops (writeChainWith ops ci mi idi).2.chunks = some ri)
    (ck : Bytes → Bytes) (hck : ∀ b, (ck b).length = 2)
    (t offS offI off : Nat) (ht : t < 2 ^ 64) (hso : offS < off) (hio : offI < off)
    (hoff : off < 2 ^ 40) :
    decode ck off (encode ck t offS offI) = some (offS, offI, t) ∧
    (∀ k, live (ops.get rs.ht k) = live (ops.get cs.ht k)) ∧
    (∀ k, live (ops.get ri.ht k) = live (ops.get ci.ht k)) :=
  ⟨Gsu.StateRec.state_roundtrip ck hck t offS offI off ht (by omega) (by omega) hso hio,
   Gsu.Props.C15.chain_roundtrip L hs ms ids hms rs hrs,
   Gsu.Props.C15.chain_roundtrip L hi mi idi hmi ri hri⟩

/-- the same for the trie the code uses (C15 `hamt_map`): no map hypothesis left -/
theorem reopen_id_trie_partial (hf : Nat → Nat)
    {cs ci : Chain T} (hs : Gsu.Props.C15.Reach (trieOps hf) cs) (hi : Gsu.Props.C15.Reach (trieOps hf) ci)
    (ms mi ids idi : Nat) (hms : ms ≤ cs.chunks.length) (hmi : mi ≤ ci.chunks.length)
    (rs ri : Chain T)
    (hrs : readChain (trieOps hf) (writeChainWith (trieOps hf) cs ms ids).2.chunks = some rs)
    (hri : readChain (trieOps hf) (writeChainWith (trieOps hf) ci mi idi).2.chunks = some ri) :
    (∀ k, live ((trieOps hf).get rs.ht k) = live ((trieOps hf).get cs.ht k)) ∧
    (∀ k, live ((trieOps hf).get ri.ht k) = live ((trieOps hf).get ci.ht k)) :=
  ⟨Gsu.Props.C15.trie_chain_roundtrip hf hs ms ids hms rs hrs,
   Gsu.Props.C15.trie_chain_roundtrip hf hi mi idi hmi ri hri⟩

end Gsu.Props.C04
