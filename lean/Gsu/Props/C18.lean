/-
C18 — Concurrent storage allocations never overlap.

"Allocations made concurrently from the database storage never overlap each other, never
straddle a chunk boundary, and always lie within the storage size; an allocation either returns
such a range or fails loudly."
Quantifier: all interleavings of two or more concurrent allocators of arbitrary sizes up to the
chunk size, across chunk boundaries.

Model: `Gsu.Alloc` — `tstep` is one atomic step of `Stor.Alloc`/`Stor.extend` (the driver runs it
single-threaded against the real `Alloc`); `Step`/`Reach` are all interleavings of any number of
threads calling `Alloc(n)`, `0 < n ≤ C`, any number of times, from any freshly opened storage.
`ret` lists the intervals handed out as `(chunk, end, n)` = `[end - n, end)`.
Regenerated: `Gsu.Gen.Alloc` (statement-by-statement step lists of `Alloc` and `extend`,
`maxRetries`).

Property theorems only; lemmas are in `Gsu/Proofs/Alloc.lean`.
-/
import Gsu.Proofs.Alloc
import Gsu.Gen.Alloc
namespace Gsu.Props.C18
open Gsu.Alloc

/-- The invariant of DESIGN A.2 (I1–I4: mutual exclusion, `nchunks = a+1` outside the
Store…Add window, loaded `ac ≤ a`, `size ≥ a·C`, every returnable interval inside its chunk and
below `size`) and pairwise disjointness of returned and in-flight intervals hold in every state
reachable by any interleaving of any number of threads. (full) -/
theorem alloc_inv (C size0 nchunks0 : Nat) (hC : 0 < C) (hn : 0 < nchunks0)
    (h0 : (nchunks0 - 1) * C ≤ size0) (s : St) (h : Reach C size0 nchunks0 s) :
    AInv C s ∧ DInv C s :=
  inv_reach C size0 nchunks0 hC hn h0 s h

/-- Allocations never overlap: the intervals handed out so far are pairwise disjoint. (full) -/
theorem alloc_disjoint (C size0 nchunks0 : Nat) (hC : 0 < C) (hn : 0 < nchunks0)
    (h0 : (nchunks0 - 1) * C ≤ size0) (s : St) (h : Reach C size0 nchunks0 s) :
    s.sh.ret.Pairwise (fun x y => x.2.1 ≤ y.2.1 - y.2.2 ∨ y.2.1 ≤ x.2.1 - x.2.2) :=
  (inv_reach C size0 nchunks0 hC hn h0 s h).2.d1

/-- Allocations never straddle a chunk boundary: first and last byte of a returned interval
`[new - n, new)` lie in the same chunk, and the interval is non-empty. (full) -/
theorem alloc_in_chunk (C size0 nchunks0 : Nat) (hC : 0 < C) (hn : 0 < nchunks0)
    (h0 : (nchunks0 - 1) * C ≤ size0) (s : St) (h : Reach C size0 nchunks0 s)
    (ac new n : Nat) (hr : (ac, new, n) ∈ s.sh.ret) :
    0 < n ∧ n ≤ new ∧ (new - n) / C = (new - 1) / C ∧ (new - 1) / C = ac := by
  obtain ⟨h1, h2, h3, h4, _⟩ := returned_in_chunk C s (inv_reach C size0 nchunks0 hC hn h0 s h).1 ac new n hr
  exact ⟨h1, h2, h3.trans h4.symm, h4⟩

/-- Allocations lie within the storage size, and in a chunk that exists. (full) -/
theorem alloc_below_size (C size0 nchunks0 : Nat) (hC : 0 < C) (hn : 0 < nchunks0)
    (h0 : (nchunks0 - 1) * C ≤ size0) (s : St) (h : Reach C size0 nchunks0 s)
    (ac new n : Nat) (hr : (ac, new, n) ∈ s.sh.ret) :
    new ≤ s.sh.size ∧ ac ≤ s.sh.a ∧ s.sh.a < s.sh.nchunks := by
  have inv := (inv_reach C size0 nchunks0 hC hn h0 s h).1
  obtain ⟨_, _, _, _, h5, h6⟩ := inv.good ac new n (Or.inl hr)
  refine ⟨h5, h6, ?_⟩
  by_cases hm : ∀ t, (s.pcs t).mid = false
  · have := inv.norm hm; omega
  · have : ∃ t, (s.pcs t).mid = true := by
      apply Classical.byContradiction
      intro hne
      apply hm
      intro t
      cases hmt : (s.pcs t).mid with
      | false => rfl
      | true => exact absurd ⟨t, hmt⟩ hne
    obtain ⟨t, ht⟩ := this
    cases hp : s.pcs t <;> simp [hp, Pc.mid] at ht
    · have := (inv.app t _ _ _ hp).2; omega
    · have := (inv.szd t _ _ _ hp).2.1; omega

/-- An allocation either returns or fails loudly, it cannot hang or loop: every own step of a
call strictly decreases `rank` (which is `10·maxRetries + 1` at the call), the only step that can
be disabled is `s.lock.Lock()` while another thread holds the lock, and the holder of the lock is
inside its critical section, where every step is enabled. (full on the model) -/
theorem alloc_or_panic (C : Nat) :
    (∀ t sh sh' pc pc', tstep C t sh pc = some (sh', pc') → rank pc' < rank pc) ∧
    (∀ t sh pc, tstep C t sh pc = none →
      pc = .idle ∨ pc = .panicked ∨ (∃ n r ac, pc = .lockw n r ac ∧ sh.lock ≠ none)) ∧
    (∀ n, rank (.start n Gsu.Gen.Alloc.maxRetries) = 10 * Gsu.Gen.Alloc.maxRetries + 1) ∧
    (∀ size0 nchunks0 s, 0 < C → 0 < nchunks0 → (nchunks0 - 1) * C ≤ size0 → Reach C size0 nchunks0 s →
      ∀ u, s.sh.lock = some u → (s.pcs u).crit = true ∧ ∃ r, tstep C u s.sh (s.pcs u) = some r) := by
  refine ⟨fun t sh sh' pc pc' h => rank_decreases C t sh sh' pc pc' h,
    fun t sh pc h => blocked_only_on_lock C t sh pc h, fun n => rfl, ?_⟩
  intro size0 nchunks0 s hC hn h0 hr u hu
  have inv := (inv_reach C size0 nchunks0 hC hn h0 s hr).1
  have hc := (inv.mutex u).mpr hu
  refine ⟨hc, ?_⟩
  cases hp : s.pcs u <;> simp [hp, Pc.crit] at hc <;> simp only [tstep]
  · exact ⟨_, rfl⟩
  · split <;> exact ⟨_, rfl⟩
  · exact ⟨_, rfl⟩
  · exact ⟨_, rfl⟩
  · exact ⟨_, rfl⟩

/-- The lock protects `extend`: at most one thread is between `Lock` and `Unlock`. -/
theorem alloc_mutex (C size0 nchunks0 : Nat) (hC : 0 < C) (hn : 0 < nchunks0)
    (h0 : (nchunks0 - 1) * C ≤ size0) (s : St) (h : Reach C size0 nchunks0 s) (t u : Nat)
    (ht : (s.pcs t).crit = true) (hu : (s.pcs u).crit = true) : u = t :=
  crit_unique C s (inv_reach C size0 nchunks0 hC hn h0 s h).1 t u ht hu

/-- (G) the statement-by-statement atomic-step lists of `Stor.Alloc` and `Stor.extend` in the
source today are the ones `tstep` mirrors (load allocChunk; add size; compare; lock; load chunks;
test; append + store chunks; store size; add allocChunk; deferred unlock; retry ≤ maxRetries;
panic), and `maxRetries` is positive. -/
theorem gen_steps :
    Gsu.Gen.Alloc.allocSteps = expectedAlloc ∧ Gsu.Gen.Alloc.extendSteps = expectedExtend ∧
    0 < Gsu.Gen.Alloc.maxRetries := by
  decide

-- non-vacuity: two threads race across a chunk boundary (C = 8, one chunk, size 5): thread 0
-- loads allocChunk and adds 2 (interval [5,7)), thread 1 loads and adds 3 (would straddle:
-- [7,10)), thread 0 returns 5, thread 1 goes through extend and retries, getting [8,11).
example : ∃ s, Reach 8 5 1 s ∧ s.sh.ret = [(1, 11, 3), (0, 7, 2)] ∧ s.sh.size = 11 ∧ s.sh.nchunks = 2 := by
  let step (s : St) (t : Nat) : St :=
    match tstep 8 t s.sh (s.pcs t) with
    | some (sh', pc') => ⟨sh', upd s.pcs t pc'⟩
    | none => s
  have hstep : ∀ s t r, Reach 8 5 1 s → tstep 8 t s.sh (s.pcs t) = some r → Reach 8 5 1 ⟨r.1, upd s.pcs t r.2⟩ :=
    fun s t r hr h => Reach.step s _ hr (Step.step s t r.1 r.2 h)
  have r0 : Reach 8 5 1 (initSt 5 1) := Reach.init
  have r1 := Reach.step _ _ r0 (Step.call (initSt 5 1) 0 2 rfl (by decide))
  have r2 := Reach.step _ _ r1 (Step.call _ 1 3 rfl (by decide))
  -- schedule: thread ids whose next step runs
  have r3 := hstep _ 0 _ r2 rfl   -- 0: start → loaded
  have r4 := hstep _ 0 _ r3 rfl   -- 0: add 2 → [5,7)
  have r5 := hstep _ 1 _ r4 rfl   -- 1: start → loaded (ac 0)
  have r6 := hstep _ 1 _ r5 rfl   -- 1: add 3 → new 10, straddles
  have r7 := hstep _ 0 _ r6 rfl   -- 0: compare ok → returned 5
  have r8 := hstep _ 1 _ r7 rfl   -- 1: compare fails → lockw
  have r9 := hstep _ 1 _ r8 rfl   -- 1: lock
  have r10 := hstep _ 1 _ r9 rfl  -- 1: load chunks
  have r11 := hstep _ 1 _ r10 rfl -- 1: test fails → append
  have r12 := hstep _ 1 _ r11 rfl -- 1: store size 8
  have r13 := hstep _ 1 _ r12 rfl -- 1: allocChunk 1
  have r14 := hstep _ 1 _ r13 rfl -- 1: unlock → start
  have r15 := hstep _ 1 _ r14 rfl -- 1: load ac 1
  have r16 := hstep _ 1 _ r15 rfl -- 1: add 3 → 11
  have r17 := hstep _ 1 _ r16 rfl -- 1: compare ok → returned 8
  exact ⟨_, r17, rfl, rfl, rfl⟩

end Gsu.Props.C18
