/-
C35 — Record rules always reflect current field values.

"A record field computed by a rule always returns the value the rule would compute from the
record's current field values: changing a field that a rule used causes the rule to be
recomputed on next access, and observers are notified of each such invalidation."
Quantifier: any sequence of sets, gets, deletes and copies on records with chains of pure rules.

The machine is `Gsu.Model.RecRules` (mirror of the rule cache of core/surecord.go; the same
definitions the driver `drv_c35` executes).

PROVED (full statement):
  `rule_coherent`: for every acyclic unguarded rule set (acyclicity given by a rank function:
  every field read by the rule of k has smaller rank; fuel `n` above every rank) and every history
  of put (of plain fields), get/delete/Invalidate (of any field, incl. deleting the cached member of
  a rule field), Copy, observer attachment from the empty record (`run n rules ops`), in the
  reached state: for each rule field k with
  `lk vals k = some v` and `k ∉ invalid`, v is the specification value `specN n rules (plainEnv
  vals) k` (pure evaluation of the rule bodies on the current plain fields, independent of the
  fuel above the rank), every field f read by the rule of k has `k ∈ depsOf f`, and every rule field
  read by it is itself cached and valid.
  `get_rule_current`: in every such state `getN n rules [] r k` of a rule field k returns
  `some (specification value of k)` and leaves k cached with that value and valid; the plain
  fields are not changed by a get.
  `rule_coherent_driver`/`get_rule_current_driver`: the same for the driver's fuel (40).
  The proof (Proofs/RecRules2–4) is an inductive invariant (coherence + soundness of recorded
  dependents + closure of the invalid set under recorded dependents + duplicate-free invalid set),
  shown to survive nested rule evaluation (with the fields under evaluation exempted) and the
  depth-first `invalidate` (which, with fuel above the ranks, reaches every transitive dependent).
EXCLUDED BY HYPOTHESIS (and why):
  * guarded rules (`guard = some _`, a rule that may yield nothing): coherence is FALSE for them,
    `rule_coherent_guard_counter` — when the guard fails `callRule` has already removed the field
    from the invalid set and stores nothing, so the previous, stale value counts as valid and is
    returned; the value then depends on the history, not only on the current plain fields.
  * put of a rule field: assigning a rule field overrides its rule by design,
    `rule_coherent_assign_counter`.
  * cyclic rule sets (the active-rule check `k ∈ act` then returns the old value).
Also kept: the one-step facts (`get_rule_cached_partial`, `get_rule_recompute_partial`, valid for
arbitrary records, not only reachable ones) and the complete specification of
invalidation/notification (`observers_notified`, `invalidate_once`).
-/
import Gsu.Proofs.RecRules4
namespace Gsu.Props.C35
open Gsu.RecRules

/-- `invalidate(key)`: the fields marked invalid by one call are pairwise distinct, were not
invalid before, and exactly these are appended (in marking order) to the observer queue; values
and dependencies are untouched. -/
theorem invalidate_once (n : Nat) (r : Rec) (key : Field) (hn : r.invalid.Nodup) :
    ∃ new : List Field, new.Nodup ∧ (∀ f ∈ new, f ∉ r.invalid) ∧
      (invalidateN n r key).queue = r.queue ++ new ∧
      (invalidateN n r key).invalid = new.reverse ++ r.invalid ∧
      (invalidateN n r key).vals = r.vals ∧ (invalidateN n r key).deps = r.deps := by
  obtain ⟨new, h, k⟩ := invalidateN_spec n r key
  have := h.fresh (k hn)
  exact ⟨new, this.1, this.2, h.1, h.2.1, h.2.2.1, h.2.2.2.1⟩

/-- Observers are notified of each invalidation exactly once per change: a `Put` that changes the
value of `k` on a record with an attached observer and no pending notifications tells the observer
about `k` and then about every field that this change newly invalidated (`new`: pairwise distinct,
not invalid before), in invalidation order, and leaves no notification pending. -/
theorem observers_notified (n : Nat) (r : Rec) (k : Field) (v : Int)
    (hchg : lk r.vals k ≠ some (some v)) (hq : r.queue = []) (ho : r.obs = true)
    (hn : r.invalid.Nodup) :
    ∃ new : List Field, new.Nodup ∧ (∀ f ∈ new, f ∉ r.invalid.erase k) ∧
      (put n r k v).log = r.log ++ k :: new.filter (fun f => decide (f ≠ k)) ∧
      (put n r k v).invalid = new.reverse ++ r.invalid.erase k ∧
      (put n r k v).queue = [] ∧ lk (put n r k v).vals k = some (some v) := by
  let r0 : Rec := { r with invalid := r.invalid.erase k, vals := setv r.vals k (some v) }
  obtain ⟨new, h, kk⟩ := invalidateDependents_spec n r0 k
  have hn0 : r0.invalid.Nodup := hn.erase k
  have hf := h.fresh (kk hn0)
  refine ⟨new, hf.1, hf.2, ?_, ?_, ?_, ?_⟩
  all_goals simp only [put, hchg, if_false, callObservers]
  · have : (invalidateDependents n r0 k).obs = true := by rw [h.2.2.2.2.2]; exact ho
    simp only [r0] at this
    simp only [this, if_true]
    have hl := h.2.2.2.2.1
    have hq' := h.1
    simp only [r0] at hl hq'
    rw [hl, hq', hq]; simp
  · exact h.2.1
  · have := h.2.2.1
    simp only [r0] at this
    rw [this, lk_setv]; simp

-- non-vacuity: a record where changing f0 invalidates the chain f4 → f5 and notifies 0, 4, 5
example :
    let r : Rec := { vals := [(0, some 1), (4, some 1), (5, some 2)], deps := [(0, [4]), (4, [5])], obs := true }
    (put 10 r 0 7).log = [0, 4, 5] ∧ (put 10 r 0 7).invalid = [5, 4] := by decide

/-- (part of `get_rule_current`) a cached rule value that is not invalid is returned as is and the
record is unchanged -/
theorem get_rule_cached_partial (n : Nat) (rules : Rules) (r : Rec) (k : Field) (v : Val)
    (hv : lk r.vals k = some v) (hi : k ∉ r.invalid) :
    getN (n + 1) rules [] r k = (r, some v) := getN_cached n rules r k v hv hi

/-- (part of `get_rule_current`) changing a field a rule used marks the rule field invalid
(`observers_notified`), and an invalid or absent rule field is recomputed on the next access:
the result of `get` is the rule body evaluated with every `.f` read through `get` in the record
(with `k` removed from the invalid set), and that result is cached under `k`. (Stated for a rule
without guard; a guarded rule whose guard fails stores nothing.) -/
theorem get_rule_recompute_partial (n : Nat) (rules : Rules) (r : Rec) (k : Field) (e : Expr)
    (hr : lk rules k = some ⟨none, e⟩) (hi : lk r.vals k = none ∨ k ∈ r.invalid) :
    let x := evalE (fun r f => let y := getN n rules [k] r f; (y.1, y.2.getD none)) e
      { r with invalid := r.invalid.erase k }
    getN (n + 1) rules [] r k = ({ x.1 with vals := setv x.1.vals k x.2 }, some x.2) ∧
    lk (getN (n + 1) rules [] r k).1.vals k = some x.2 := by
  have h := getN_recompute n rules r k e hr hi
  refine ⟨h, ?_⟩
  simp only at h
  rw [h, lk_setv]; simp

-- non-vacuity: f4 := .f0 + .f1 recomputed after f0 changed
example :
    let rules : Rules := [(4, ⟨none, .add (.fld 0) (.fld 1)⟩)]
    let r : Rec := { vals := [(0, some 5), (1, some 2), (4, some 3)], invalid := [4] }
    (getN 5 rules [] r 4).2 = some (some 7) ∧ (getN 5 rules [] r 4).1.invalid = [] ∧
    depsOf (getN 5 rules [] r 4).1 0 = [4] := by decide

/-! ### the global statement -/

/-- `rule_coherent`: in every state reached from the empty record by a history of put of plain
fields, get/delete/Invalidate of any field, Copy and observer attachment (acyclic unguarded rules,
fuel above every rank): a cached, valid rule field holds the specification value of its rule on
the current plain fields; every field its rule reads lists it as dependent; every rule field its
rule reads is itself valid and cached. -/
theorem rule_coherent (rules : Rules) (rank : Field → Nat) (n : Nat)
    (hacyc : ∀ k rule, lk rules k = some rule → ∀ f ∈ fields rule.body, rank f < rank k)
    (hung : ∀ k rule, lk rules k = some rule → rule.guard = none)
    (hfuel : ∀ k, rank k < n)
    (ops : List Op) (hops : ∀ op ∈ ops, op.ok rules) :
    let r := run n rules ops
    ∀ k rule v, lk rules k = some rule → lk r.vals k = some v → k ∉ r.invalid →
      v = specN n rules (plainEnv r.vals) k ∧
      ∀ f ∈ fields rule.body, k ∈ depsOf r f ∧
        (lk rules f ≠ none → f ∉ r.invalid ∧ ∃ w, lk r.vals f = some w) := by
  intro r k rule v hr hv hi
  have ha : Acyc rules rank := ⟨hacyc, hung⟩
  obtain ⟨h1, h2⟩ := (run_tinv ha hfuel ops hops).coh k rule v hr hv hi (by simp)
  refine ⟨by rw [h1, specN_stable ha _ n k (hfuel k)], ?_⟩
  intro f hf
  refine ⟨(h2 f hf).1, ?_⟩
  intro hne
  cases hrf : lk rules f with
  | none => exact absurd hrf hne
  | some rf => exact (h2 f hf).2 rf hrf

/-- `get_rule_current`: in every reachable state a get of a rule field returns the value of its
rule on the current plain fields; afterwards the field is cached with that value and valid, and
the plain fields are as before. -/
theorem get_rule_current (rules : Rules) (rank : Field → Nat) (n : Nat)
    (hacyc : ∀ k rule, lk rules k = some rule → ∀ f ∈ fields rule.body, rank f < rank k)
    (hung : ∀ k rule, lk rules k = some rule → rule.guard = none)
    (hfuel : ∀ k, rank k < n)
    (ops : List Op) (hops : ∀ op ∈ ops, op.ok rules) :
    let r := run n rules ops
    ∀ k rule, lk rules k = some rule →
      (getN n rules [] r k).2 = some (specN n rules (plainEnv r.vals) k) ∧
      lk (getN n rules [] r k).1.vals k = some (specN n rules (plainEnv r.vals) k) ∧
      k ∉ (getN n rules [] r k).1.invalid ∧
      ∀ f, lk rules f = none → plainEnv (getN n rules [] r k).1.vals f = plainEnv r.vals f := by
  intro r k rule hr
  have ha : Acyc rules rank := ⟨hacyc, hung⟩
  have hp := get_post ha hfuel (run_tinv ha hfuel ops hops) k
  rw [specN_stable ha _ n k (hfuel k)]
  exact ⟨hp.valr rule hr, hp.cached rule hr, hp.valid, hp.pa⟩

/-- a get of a plain field in a reachable state returns the stored member (nothing if absent) -/
theorem get_plain_current (rules : Rules) (rank : Field → Nat) (n : Nat)
    (hacyc : ∀ k rule, lk rules k = some rule → ∀ f ∈ fields rule.body, rank f < rank k)
    (hung : ∀ k rule, lk rules k = some rule → rule.guard = none)
    (hfuel : ∀ k, rank k < n)
    (ops : List Op) (hops : ∀ op ∈ ops, op.ok rules) (k : Field) (hk : lk rules k = none) :
    ((getN n rules [] (run n rules ops) k).2).getD none = plainEnv (run n rules ops).vals k := by
  have ha : Acyc rules rank := ⟨hacyc, hung⟩
  exact (get_post ha hfuel (run_tinv ha hfuel ops hops) k).valp hk

/-- `rule_coherent` for the fuel the driver uses -/
theorem rule_coherent_driver (rules : Rules) (rank : Field → Nat)
    (hacyc : ∀ k rule, lk rules k = some rule → ∀ f ∈ fields rule.body, rank f < rank k)
    (hung : ∀ k rule, lk rules k = some rule → rule.guard = none)
    (hfuel : ∀ k, rank k < 40)
    (ops : List Op) (hops : ∀ op ∈ ops, op.ok rules) :
    let r := run fuel rules ops
    ∀ k rule v, lk rules k = some rule → lk r.vals k = some v → k ∉ r.invalid →
      v = specN fuel rules (plainEnv r.vals) k ∧
      ∀ f ∈ fields rule.body, k ∈ depsOf r f ∧
        (lk rules f ≠ none → f ∉ r.invalid ∧ ∃ w, lk r.vals f = some w) :=
  rule_coherent rules rank fuel hacyc hung hfuel ops hops

/-- `get_rule_current` for the fuel the driver uses -/
theorem get_rule_current_driver (rules : Rules) (rank : Field → Nat)
    (hacyc : ∀ k rule, lk rules k = some rule → ∀ f ∈ fields rule.body, rank f < rank k)
    (hung : ∀ k rule, lk rules k = some rule → rule.guard = none)
    (hfuel : ∀ k, rank k < 40)
    (ops : List Op) (hops : ∀ op ∈ ops, op.ok rules) :
    let r := run fuel rules ops
    ∀ k rule, lk rules k = some rule →
      (getN fuel rules [] r k).2 = some (specN fuel rules (plainEnv r.vals) k) :=
  fun k rule hr => (get_rule_current rules rank fuel hacyc hung hfuel ops hops k rule hr).1

/-! ### non-vacuity: a chain of three rules -/

/-- f4 := .f0 + .f1;  f5 := .f4 * .f2;  f6 := .f5 - .f4 -/
def exRules : Rules :=
  [(4, ⟨none, .add (.fld 0) (.fld 1)⟩), (5, ⟨none, .mul (.fld 4) (.fld 2)⟩),
   (6, ⟨none, .sub (.fld 5) (.fld 4)⟩)]

def exRank (k : Field) : Nat := if k = 4 then 1 else if k = 5 then 2 else if k = 6 then 3 else 0

def exOps : List Op :=
  [.put 0 1, .put 1 2, .put 2 3, .get 6, .obs, .put 0 5, .get 5, .inv 4, .del 1, .copy, .get 6,
   .del 5, .get 6]

theorem exRules_lk (k : Field) (rule : Rule) (h : lk exRules k = some rule) :
    (k = 4 ∧ rule = ⟨none, .add (.fld 0) (.fld 1)⟩) ∨ (k = 5 ∧ rule = ⟨none, .mul (.fld 4) (.fld 2)⟩) ∨
      (k = 6 ∧ rule = ⟨none, .sub (.fld 5) (.fld 4)⟩) := by
  simp only [exRules, lk] at h
  split at h
  · rename_i hk; cases h; exact Or.inl ⟨hk.symm, rfl⟩
  · split at h
    · rename_i hk; cases h; exact Or.inr (Or.inl ⟨hk.symm, rfl⟩)
    · split at h
      · rename_i hk; cases h; exact Or.inr (Or.inr ⟨hk.symm, rfl⟩)
      · cases h

-- the hypotheses of `rule_coherent` are satisfiable for a chain of rules (f6 reads f5 reads f4)
example :
    (∀ k rule, lk exRules k = some rule → ∀ f ∈ fields rule.body, exRank f < exRank k) ∧
    (∀ k rule, lk exRules k = some rule → rule.guard = none) ∧ (∀ k, exRank k < 40) ∧
    (∀ op ∈ exOps, op.ok exRules) := by
  refine ⟨?_, ?_, ?_, ?_⟩
  · intro k rule h f hf
    rcases exRules_lk k rule h with ⟨rfl, rfl⟩ | ⟨rfl, rfl⟩ | ⟨rfl, rfl⟩ <;>
      simp [fields] at hf <;> rcases hf with rfl | rfl <;> decide
  · intro k rule h
    rcases exRules_lk k rule h with ⟨_, rfl⟩ | ⟨_, rfl⟩ | ⟨_, rfl⟩ <;> rfl
  · intro k; unfold exRank; split <;> (try split) <;> (try split) <;> omega
  · decide

-- … and the conclusion is not trivial: the history leaves f4, f5, f6 cached and valid
example :
    let r := run fuel exRules exOps
    lk r.vals 4 = some (some 5) ∧ lk r.vals 5 = some (some 15) ∧ lk r.vals 6 = some (some 10) ∧
    r.invalid = [] ∧ depsOf r 4 = [5, 6] ∧
    specN fuel exRules (plainEnv r.vals) 6 = some 10 := by decide

/-! ### guarded rules: coherence fails -/

/-- f4 := if .f0 > 0 { return .f1 }  (yields nothing when the guard fails) -/
def guardRules : Rules := [(4, ⟨some (.fld 0), .fld 1⟩)]

/-- Counter-witness for rules with a guard (a rule that may yield nothing): two histories that end
with the same plain fields (f0 = 0, f1 = 7). In the first, f4 was computed (5) while the guard
held; then f0 := 0 and f1 := 7 invalidate it, and the next get finds the guard false: `callRule`
has already removed f4 from the invalid set and stores nothing, so the stale 5 is returned, is
cached and counts as valid from then on — although the rule body on the current fields is 7
and a fresh record with the same fields yields nothing for f4. -/
theorem rule_coherent_guard_counter :
    let opsA : List Op := [.put 0 1, .put 1 5, .get 4, .put 0 0, .put 1 7, .get 4]
    let opsB : List Op := [.put 0 0, .put 1 7, .get 4]
    let rA := run fuel guardRules opsA
    let rB := run fuel guardRules opsB
    (∀ op ∈ opsA ++ opsB, op.ok guardRules) ∧
    plainEnv rA.vals 0 = plainEnv rB.vals 0 ∧ plainEnv rA.vals 1 = plainEnv rB.vals 1 ∧
    lk rA.vals 4 = some (some 5) ∧ 4 ∉ rA.invalid ∧
    (getN fuel guardRules [] rA 4).2 = some (some 5) ∧
    (getN fuel guardRules [] rB 4).2 = none ∧
    specE (plainEnv rA.vals) (.fld 1) = some 7 := by decide

/-- Counter-witness for `put` on a rule field (excluded by `Op.ok`): the assigned value overrides
the rule (by design) until a dependency changes. -/
theorem rule_coherent_assign_counter :
    let rules : Rules := [(4, ⟨none, .fld 0⟩)]
    let r := run fuel rules [.put 0 1, .put 4 9]
    lk r.vals 4 = some (some 9) ∧ 4 ∉ r.invalid ∧ specN fuel rules (plainEnv r.vals) 4 = some 1 := by
  decide

end Gsu.Props.C35
