/-
C35 — Record rules always reflect current field values.

"A record field computed by a rule always returns the value the rule would compute from the
record's current field values: changing a field that a rule used causes the rule to be
recomputed on next access, and observers are notified of each such invalidation."
Quantifier: any sequence of sets, gets, deletes and copies on records with chains of pure rules.

The machine is `Gsu.Model.RecRules` (mirror of the rule cache of core/surecord.go; the same
definitions the driver `drv_c35` executes).

FULL STATEMENT (design name `rule_coherent`), NOT PROVED HERE:
  for acyclic pure rules and every history of put/delete (of plain fields)/get/copy from the empty
  record, in every reached state: for each rule field k with `lk vals k = some v` and
  `k ∉ invalid`, v is the rule of k evaluated on the current plain fields, every field f read by
  that rule has `k ∈ depsOf f`, and every rule field read by it is itself cached and valid;
  hence `getN` returns the rule's value on the current fields (`get_rule_current`).
What is proved are the parts below (`…_partial`): the two local steps of `get` (a valid cached
value is returned unchanged; an absent or invalid rule field is recomputed by its rule, cached and
marked valid) and the complete specification of invalidation/notification (`observers_notified`,
`invalidate_once`). Missing for the full statement: the inductive invariant tying cached values
to the specification evaluator across nested rule evaluation, and completeness of the depth-first
`invalidate` (every valid transitive dependent is reached). Those are covered only by the
correspondence run and its direct oracle (value of a rule field == rule evaluated on the current
fields, 19 000+ checks per quick run).
-/
import Gsu.Proofs.RecRules
namespace Gsu.Props.C35
open Gsu.RecRules

/-- `invalidate(key)`: the fields marked invalid by one call are pairwise distinct, were not
invalid before, and exactly these are appended (in marking order) to the observer queue; values
and dependencies are untouched. -/
theorem invalidate_once (n : Nat) (r : Rec) (key : Field) (hn : r.invalid.Nodup) :
    ∃ new : List Field, new.Nodup ∧ (∀ f ∈ new, f ∉ r.invalid) ∧
      (invalidateN n r key).queue = r.queue ++ new ∧
      (invalidateN n r key).invalid = new.reverse ++ r.invalid ∧
      (invalidateN n r key).vals = r.vals ∧ (invalidateN n r key).deps = r.deps := by
  obtain ⟨new, h, k⟩ := invalidateN_spec n r key
  have := h.fresh (k hn)
  exact ⟨new, this.1, this.2, h.1, h.2.1, h.2.2.1, h.2.2.2.1⟩

/-- Observers are notified of each invalidation exactly once per change: a `Put` that changes the
value of `k` on a record with an attached observer and no pending notifications tells the observer
about `k` and then about every field that this change newly invalidated (`new`: pairwise distinct,
not invalid before), in invalidation order, and leaves no notification pending. -/
theorem observers_notified (n : Nat) (r : Rec) (k : Field) (v : Int)
    (hchg : lk r.vals k ≠ some (some v)) (hq : r.queue = []) (ho : r.obs = true)
    (hn : r.invalid.Nodup) :
    ∃ new : List Field, new.Nodup ∧ (∀ f ∈ new, f ∉ r.invalid.erase k) ∧
      (put n r k v).log = r.log ++ k :: new.filter (fun f => decide (f ≠ k)) ∧
      (put n r k v).invalid = new.reverse ++ r.invalid.erase k ∧
      (put n r k v).queue = [] ∧ lk (put n r k v).vals k = some (some v) := by
  let r0 : Rec := { r with invalid := r.invalid.erase k, vals := setv r.vals k (some v) }
  obtain ⟨new, h, kk⟩ := invalidateDependents_spec n r0 k
  have hn0 : r0.invalid.Nodup := hn.erase k
  have hf := h.fresh (kk hn0)
  refine ⟨new, hf.1, hf.2, ?_, ?_, ?_, ?_⟩
  all_goals simp only [put, hchg, if_false, callObservers]
  · have : (invalidateDependents n r0 k).obs = true := by rw [h.2.2.2.2.2]; exact ho
    simp only [r0] at this
    simp only [this, if_true]
    have hl := h.2.2.2.2.1
    have hq' := h.1
    simp only [r0] at hl hq'
    rw [hl, hq', hq]; simp
  · exact h.2.1
  · have := h.2.2.1
    simp only [r0] at this
    rw [this, lk_setv]; simp

-- non-vacuity: a record where changing f0 invalidates the chain f4 → f5 and notifies 0, 4, 5
example :
    let r : Rec := { vals := [(0, some 1), (4, some 1), (5, some 2)], deps := [(0, [4]), (4, [5])], obs := true }
    (put 10 r 0 7).log = [0, 4, 5] ∧ (put 10 r 0 7).invalid = [5, 4] := by decide

/-- (part of `get_rule_current`) a cached rule value that is not invalid is returned as is and the
record is unchanged -/
theorem get_rule_cached_partial (n : Nat) (rules : Rules) (r : Rec) (k : Field) (v : Val)
    (hv : lk r.vals k = some v) (hi : k ∉ r.invalid) :
    getN (n + 1) rules [] r k = (r, some v) := getN_cached n rules r k v hv hi

/-- (part of `get_rule_current`) changing a field a rule used marks the rule field invalid
(`observers_notified`), and an invalid or absent rule field is recomputed on the next access:
the result of `get` is the rule body evaluated with every `.f` read through `get` in the record
(with `k` removed from the invalid set), and that result is cached under `k`. (Stated for a rule
without guard; a guarded rule whose guard fails stores nothing.) -/
theorem get_rule_recompute_partial (n : Nat) (rules : Rules) (r : Rec) (k : Field) (e : Expr)
    (hr : lk rules k = some ⟨none, e⟩) (hi : lk r.vals k = none ∨ k ∈ r.invalid) :
    let x := evalE (fun r f => let y := getN n rules [k] r f; (y.1, y.2.getD none)) e
      { r with invalid := r.invalid.erase k }
    getN (n + 1) rules [] r k = ({ x.1 with vals := setv x.1.vals k x.2 }, some x.2) ∧
    lk (getN (n + 1) rules [] r k).1.vals k = some x.2 := by
  have h := getN_recompute n rules r k e hr hi
  refine ⟨h, ?_⟩
  simp only at h
  rw [h, lk_setv]; simp

-- non-vacuity: f4 := .f0 + .f1 recomputed after f0 changed
example :
    let rules : Rules := [(4, ⟨none, .add (.fld 0) (.fld 1)⟩)]
    let r : Rec := { vals := [(0, some 5), (1, some 2), (4, some 3)], invalid := [4] }
    (getN 5 rules [] r 4).2 = some (some 7) ∧ (getN 5 rules [] r 4).1.invalid = [] ∧
    depsOf (getN 5 rules [] r 4).1 0 = [4] := by decide

end Gsu.Props.C35
