/-
C29 — Closures and blocks follow the documented scoping model.

"A variable used in a block denotes the same storage as that name in the nearest enclosing function
or block that uses it, block parameters hide outer variables, and a block variable that no
enclosing scope uses is private to each call of the block. Storage shared between scopes exists
once per call of the outermost function, so every closure created by that call sees the others'
updates, and whether a block is compiled as a closure or as a plain function never changes a
program's result."

Stated over the reference semantics `Gsu.Model.LangBlocks` (the definitions the driver executes):
`bindingGo` / `cellOf` choose the cell a name denotes, `readVar` / `writeVar` / `evalE` run programs.
SPEC LEVEL: the bytecode generator (compile/codegen.go, ast/blocks.go slot assignment) and the
interpreter (core/interp.go, frame.go) are not mirrored; they are tied to this semantics only by the
correspondence suite (program results, and `Block.CompileAsFunction` of every block).
-/
import Gsu.Proofs.LangBlocks
namespace Gsu.Props.C29
open Gsu.LangBlocks

/-- Lexical scoping: the scope whose storage a name denotes is the scope itself or one of its
enclosing scopes that uses the name — never anything determined at run time. -/
theorem scoping_lexical (chain : List Scope) (s : Scope) (v : Nat) :
    bindingGo chain s v = s ∨
      (bindingGo chain s v ∈ chain ∧ usesD (bindingGo chain s v) v = true) :=
  binding_lexical chain s v

/-- Nearest enclosing user: seen from a block that does not declare `v` as a parameter, `v` is
the `v` of the nearest enclosing scope that uses it; scopes that do not use it are transparent. -/
theorem scoping_nearest_user (p : Scope) (rest : List Scope) (s : Scope) (v : Nat)
    (hs : isParam s v = false) :
    (usesD p v = true → bindingGo (p :: rest) s v = bindingGo rest p v) ∧
    (usesD p v = false → bindingGo (p :: rest) s v = bindingGo rest s v) :=
  ⟨binding_nearest_user p rest s v hs, binding_skip_nonuser p rest s v hs⟩

/-- …and it is the same storage cell: a block nested directly in `p` that uses `v` denotes the
cell that `p` itself denotes by `v` (scope ids unique, as `hidk`/`hidp` say). -/
theorem same_storage_as_enclosing_user (p k : Scope) (rest : List Scope) (v : Nat)
    (hk : k ∈ kids p) (hpar : isParam k v = false) (hu : usesD k v = true)
    (hp : usesD p v = true)
    (hidk : (bindingGo rest p v).id ≠ k.id)
    (hidp : bindingGo rest p v = p ∨ (bindingGo rest p v).id ≠ p.id) :
    cellOf k (p :: rest) v = cellOf p rest v :=
  cell_same_as_parent p k rest v hk hpar hu hp hidk hidp

-- non-vacuity: function(){ x = 1; b = {|| x } } — the block's x is the function's x
example :
    let k := Scope.mk 2 [] [] (.var 0)
    let p := Scope.mk 1 [] [.assign 0 (.num 1), .assign 3 (.block k)] (.num 0)
    isParam k 0 = false ∧ usesD k 0 = true ∧ usesD p 0 = true ∧
      cellOf k [p] 0 = .shared 1 0 ∧ cellOf p [] 0 = .shared 1 0 := by decide
example :
    Scope.mk 2 [] [] (.var 0) ∈
      kids (Scope.mk 1 [] [.assign 0 (.num 1), .assign 3 (.block (Scope.mk 2 [] [] (.var 0)))] (.num 0)) := by
  simp [kids, Scope.body, Scope.result, exprKids, stmtKids]

/-- Block parameters hide outer variables: a parameter is bound by its own block whatever the
enclosing scopes use. -/
theorem params_hide (chain : List Scope) (s : Scope) (v : Nat) (h : isParam s v = true) :
    bindingGo chain s v = s :=
  binding_param chain s v h

/-- A private name is private to each call: a new invocation (fresh frame) finds it
uninitialized whatever the store contains, and writing it never touches the shared store. -/
theorem private_per_call (s : Scope) (chain : List Scope) (act v n : Nat) (st : State) (l : Locals)
    (x : Val) (h : cellOf s chain v = .priv n) :
    readVar ⟨s, chain, act, []⟩ st v = none ∧ (writeVar ⟨s, chain, act, l⟩ st v x).2 = st :=
  ⟨private_fresh s chain act v st n h, private_write_keeps_store s chain act l st v x n h⟩

/-- Shared storage exists once per call of the outermost function: within one call (activation
`act`) the cell is named by (binding scope, name) only, so a write through any frame of any scope
(any call of any closure created by that call, whatever its private locals) is read back through
every other one that denotes the same cell … -/
theorem shared_once_per_outer_call (s1 s2 : Scope) (c1 c2 : List Scope) (act : Nat)
    (l1 l2 : Locals) (st : State) (v w : Nat) (x : Val) (p n : Nat)
    (h1 : cellOf s1 c1 v = .shared p n) (h2 : cellOf s2 c2 w = .shared p n) :
    readVar ⟨s2, c2, act, l2⟩ (writeVar ⟨s1, c1, act, l1⟩ st v x).2 w = some x :=
  shared_write_read s1 s2 c1 c2 act l1 l2 st v w x p n h1 h2

/-- … and a different call of the function (another activation, e.g. a recursive or later call of
a nested function) has storage of its own: nothing written in one call is visible in another. -/
theorem distinct_calls_distinct_storage (s1 s2 : Scope) (c1 c2 : List Scope) (a1 a2 : Nat)
    (l1 l2 : Locals) (st : State) (v w : Nat) (x : Val) (hne : a1 ≠ a2) :
    readVar ⟨s2, c2, a2, l2⟩ (writeVar ⟨s1, c1, a1, l1⟩ st v x).2 w =
      readVar ⟨s2, c2, a2, l2⟩ st w :=
  other_call_unaffected s1 s2 c1 c2 a1 a2 l1 l2 st v w x hne

/-- The catch variable of `try … catch (v)` is a use of `v` in the scope that contains the try —
so it denotes the enclosing scope's `v` like any other mention (`scoping_nearest_user`). -/
theorem catch_variable_is_a_use (s : Scope) (x w : Nat) (e : Expr)
    (h : Stmt.tryc x e w ∈ s.body) : usesD s w = true :=
  catch_var_is_use s x w e h

/-- Closure vs plain function, static part: a block that the sharing analysis compiles as a
plain function (`isClosure = false`, the mirror of `Block.CompileAsFunction`) binds every name it
mentions itself, contains no `return`, and so do all blocks nested in it.
PARTIAL: the full statement — running such a block with a fresh store (as a plain function does)
gives the same result and leaves the caller's store unchanged, for every program — needs an
induction over `evalE` that is not done; the suite checks it by re-running every such program
with all blocks forced to be closures. -/
theorem closure_vs_function_partial (n : Nat) (chain : List Scope) (k : Scope)
    (h : isClosure (n + 1) chain k = false) :
    (∀ v ∈ namesD k, (bindingGo chain k v).id = k.id) ∧ hasRet k = false ∧
    (∀ c ∈ kids k, isClosure n (k :: chain) c = false) :=
  ⟨function_block_binds_itself n chain k h, function_block_kids n chain k h⟩

-- non-vacuity: function(){ b = {|y| z = y; z } } — the block shares nothing
example : isClosure 3 [Scope.mk 1 [] [] (.num 0)] (Scope.mk 2 [1] [.assign 2 (.var 1)] (.var 2)) = false := by
  decide

end Gsu.Props.C29
