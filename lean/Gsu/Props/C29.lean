/-
C29 — Closures and blocks follow the documented scoping model.

"A variable used in a block denotes the same storage as that name in the nearest enclosing function
or block that uses it, block parameters hide outer variables, and a block variable that no
enclosing scope uses is private to each call of the block. Storage shared between scopes exists
once per call of the outermost function, so every closure created by that call sees the others'
updates, and whether a block is compiled as a closure or as a plain function never changes a
program's result."

Stated over the reference semantics `Gsu.Model.LangBlocks` (the definitions the driver executes):
`bindingGo` / `cellOf` choose the cell a name denotes, `readVar` / `writeVar` / `evalE` run programs.
SPEC LEVEL: the bytecode generator (compile/codegen.go, ast/blocks.go slot assignment) and the
interpreter (core/interp.go, frame.go) are not mirrored; they are tied to this semantics only by the
correspondence suite (program results, and `Block.CompileAsFunction` of every block).
-/
import Gsu.Proofs.LangBlocks
import Gsu.Proofs.LangBlocks4
import Gsu.Proofs.LangBlocks7
namespace Gsu.Props.C29
open Gsu.LangBlocks

/-- Lexical scoping: the scope whose storage a name denotes is the scope itself or one of its
enclosing scopes that uses the name — never anything determined at run time. -/
theorem scoping_lexical (chain : List Scope) (s : Scope) (v : Nat) :
    bindingGo chain s v = s ∨
      (bindingGo chain s v ∈ chain ∧ usesD (bindingGo chain s v) v = true) :=
  binding_lexical chain s v

/-- Nearest enclosing user: seen from a block that does not declare `v` as a parameter, `v` is
the `v` of the nearest enclosing scope that uses it; scopes that do not use it are transparent. -/
theorem scoping_nearest_user (p : Scope) (rest : List Scope) (s : Scope) (v : Nat)
    (hs : isParam s v = false) :
    (usesD p v = true → bindingGo (p :: rest) s v = bindingGo rest p v) ∧
    (usesD p v = false → bindingGo (p :: rest) s v = bindingGo rest s v) :=
  ⟨binding_nearest_user p rest s v hs, binding_skip_nonuser p rest s v hs⟩

/-- …and it is the same storage cell: a block nested directly in `p` that uses `v` denotes the
cell that `p` itself denotes by `v` (scope ids unique, as `hidk`/`hidp` say). -/
theorem same_storage_as_enclosing_user (p k : Scope) (rest : List Scope) (v : Nat)
    (hk : k ∈ kids p) (hpar : isParam k v = false) (hu : usesD k v = true)
    (hp : usesD p v = true)
    (hidk : (bindingGo rest p v).id ≠ k.id)
    (hidp : bindingGo rest p v = p ∨ (bindingGo rest p v).id ≠ p.id) :
    cellOf k (p :: rest) v = cellOf p rest v :=
  cell_same_as_parent p k rest v hk hpar hu hp hidk hidp

-- non-vacuity: function(){ x = 1; b = {|| x } } — the block's x is the function's x
example :
    let k := Scope.mk 2 [] [] (.var 0)
    let p := Scope.mk 1 [] [.assign 0 (.num 1), .assign 3 (.block k)] (.num 0)
    isParam k 0 = false ∧ usesD k 0 = true ∧ usesD p 0 = true ∧
      cellOf k [p] 0 = .shared 1 0 ∧ cellOf p [] 0 = .shared 1 0 := by decide
example :
    Scope.mk 2 [] [] (.var 0) ∈
      kids (Scope.mk 1 [] [.assign 0 (.num 1), .assign 3 (.block (Scope.mk 2 [] [] (.var 0)))] (.num 0)) := by
  simp [kids, Scope.body, Scope.result, exprKids, stmtKids]

/-- Block parameters hide outer variables: a parameter is bound by its own block whatever the
enclosing scopes use. -/
theorem params_hide (chain : List Scope) (s : Scope) (v : Nat) (h : isParam s v = true) :
    bindingGo chain s v = s :=
  binding_param chain s v h

/-- A private name is private to each call: a new invocation (fresh frame) finds it
uninitialized whatever the store contains, and writing it never touches the shared store. -/
theorem private_per_call (s : Scope) (chain : List Scope) (act v n : Nat) (st : State) (l : Locals)
    (x : Val) (h : cellOf s chain v = .priv n) :
    readVar ⟨s, chain, act, []⟩ st v = none ∧ (writeVar ⟨s, chain, act, l⟩ st v x).2 = st :=
  ⟨private_fresh s chain act v st n h, private_write_keeps_store s chain act l st v x n h⟩

/-- Shared storage exists once per call of the outermost function: within one call (activation
`act`) the cell is named by (binding scope, name) only, so a write through any frame of any scope
(any call of any closure created by that call, whatever its private locals) is read back through
every other one that denotes the same cell … -/
theorem shared_once_per_outer_call (s1 s2 : Scope) (c1 c2 : List Scope) (act : Nat)
    (l1 l2 : Locals) (st : State) (v w : Nat) (x : Val) (p n : Nat)
    (h1 : cellOf s1 c1 v = .shared p n) (h2 : cellOf s2 c2 w = .shared p n) :
    readVar ⟨s2, c2, act, l2⟩ (writeVar ⟨s1, c1, act, l1⟩ st v x).2 w = some x :=
  shared_write_read s1 s2 c1 c2 act l1 l2 st v w x p n h1 h2

/-- … and a different call of the function (another activation, e.g. a recursive or later call of
a nested function) has storage of its own: nothing written in one call is visible in another. -/
theorem distinct_calls_distinct_storage (s1 s2 : Scope) (c1 c2 : List Scope) (a1 a2 : Nat)
    (l1 l2 : Locals) (st : State) (v w : Nat) (x : Val) (hne : a1 ≠ a2) :
    readVar ⟨s2, c2, a2, l2⟩ (writeVar ⟨s1, c1, a1, l1⟩ st v x).2 w =
      readVar ⟨s2, c2, a2, l2⟩ st w :=
  other_call_unaffected s1 s2 c1 c2 a1 a2 l1 l2 st v w x hne

/-- The catch variable of `try … catch (v)` is a use of `v` in the scope that contains the try —
so it denotes the enclosing scope's `v` like any other mention (`scoping_nearest_user`). -/
theorem catch_variable_is_a_use (s : Scope) (x w : Nat) (e : Expr)
    (h : Stmt.tryc x e w ∈ s.body) : usesD s w = true :=
  catch_var_is_use s x w e h

/-- Closure vs plain function, static part: a block that the sharing analysis compiles as a
plain function (`isClosure = false`, the mirror of `Block.CompileAsFunction`) binds every name it
mentions itself, contains no `return`, and so do all blocks nested in it. (The dynamic statement is
`closure_vs_function_equiv` below; this lemma is what its proof starts from.) -/
theorem closure_vs_function_static (n : Nat) (chain : List Scope) (k : Scope)
    (h : isClosure (n + 1) chain k = false) :
    (∀ v ∈ namesD k, (bindingGo chain k v).id = k.id) ∧ hasRet k = false ∧
    (∀ c ∈ kids k, isClosure n (k :: chain) c = false) :=
  ⟨function_block_binds_itself n chain k h, function_block_kids n chain k h⟩

-- non-vacuity: function(){ b = {|y| z = y; z } } — the block shares nothing
example : isClosure 3 [Scope.mk 1 [] [] (.num 0)] (Scope.mk 2 [1] [.assign 2 (.var 1)] (.var 2)) = false := by
  decide

/-- Static consequence used by the dynamic theorem: every name of a block that may be compiled as
a plain function (`cfAll`: `isClosure = false` and its scope id is not reused by an enclosing or a
nested scope) denotes a PRIVATE cell in the reference semantics — no name of it lives in the shared
store, whatever the enclosing scopes use. -/
theorem function_block_cells_private (chain : List Scope) (s : Scope) (h : cfAll chain s = true) :
    ∀ v ∈ namesD s, cellOf s chain v = .priv v :=
  plain_cells chain s h

/-- Closure vs plain function, dynamic part, FULL mini language (return out of blocks, try/catch,
conditional assignment, nested function literals, recursion through shared names included).
`runTop₂ cf` (Proofs/LangBlocks2.lean) is the second semantics: a clause-for-clause copy of the
reference semantics `runTop`/`evalE`/`runBody` in which every call of a block value `(s, chain)`
with `cf chain s = true` is run as a plain function — every name of that frame lives in a fresh
private store of the call and the frame never reads or writes the shared store. For EVERY decision
`cf` that only picks blocks the analysis allows (`cfAll`), every program, every fuel and argument,
the two semantics return the same thing: the same value, or both fail (exception / out of fuel).
So whether a block is compiled as a closure or as a plain function never changes a program's result.

`cfAll chain s = !isClosure reachFuel chain s && idsOK chain s`: `idsOK` says the scope id of `s` is
its own (differs from the ids of the enclosing scopes and of the blocks nested in it). The store of
the reference semantics is keyed by scope id, so a program that numbers two nested scopes alike is
not a program of the language (`closure_vs_function_needs_ids_counter`); the generator numbers
scopes uniquely (assumption in checks/C29.json), then `cfAll` IS `!isClosure`:
`closure_vs_function_equiv_unique_ids` below states that with a static hypothesis. -/
theorem closure_vs_function_equiv (cf : List Scope → Scope → Bool)
    (hcf : ∀ chain s, cf chain s = true → cfAll chain s = true)
    (program : Scope) (fuel : Nat) (arg : Int) :
    runTop₂ cf fuel program arg = runTop fuel program arg :=
  runTop₂_eq cf hcf fuel program arg

/-- … in particular for the maximal decision (every block that is not a closure runs as a plain
function) and the minimal one (every block is a closure: `runTop₂` is then `runTop` itself). -/
theorem closure_vs_function_equiv_all (program : Scope) (fuel : Nat) (arg : Int) :
    runTop₂ cfAll fuel program arg = runTop fuel program arg ∧
    runTop₂ (fun _ _ => false) fuel program arg = runTop fuel program arg :=
  ⟨runTop₂_eq cfAll (fun _ _ h => h) fuel program arg,
   runTop₂_eq _ (fun _ _ h => by cases h) fuel program arg⟩

/-- The agreement holds at every level, not only for whole programs: in any frame whose mentioned
names are private cells whenever it is marked plain, expressions and statement lists evaluate to
the same `Res` (value, frame, store, pending return, error state) in both semantics. -/
theorem closure_vs_function_equiv_steps (cf : List Scope → Scope → Bool)
    (hcf : ∀ chain s, cf chain s = true → cfAll chain s = true) (fuel : Nat) :
    (∀ pl fr st e, (∀ v ∈ exprNames e, Priv pl fr v) →
      evalE₂ cf fuel pl fr st e = evalE fuel fr st e) ∧
    (∀ pl fr st b, (∀ t ∈ b, ∀ v ∈ stmtNames t, Priv pl fr v) →
      runBody₂ cf fuel pl fr st b = runBody fuel fr st b) :=
  ⟨(agree_all cf hcf fuel).1, (agree_all cf hcf fuel).2.2⟩

private def valInt : Option Val → Option Int
  | some (.int i) => some i
  | _ => none

-- non-vacuity: function(){ x = 1; b = {|y| z = y; z }; c = {|y| x = x + y; x }; r = b(5); q = c(7); x + r }
-- b is run as a plain function, c is a closure (shares x); both semantics give 13
example :
    let bB := Scope.mk 2 [4] [.assign 5 (.var 4)] (.var 5)
    let bC := Scope.mk 3 [4] [.assign 0 (.add (.var 0) (.var 4))] (.var 0)
    let top := Scope.mk 1 [] [.assign 0 (.num 1), .assign 1 (.block bB), .assign 2 (.block bC),
      .assign 3 (.call 1 (.num 5)), .assign 6 (.call 2 (.num 7))] (.add (.var 0) (.var 3))
    cfAll [top] bB = true ∧ cfAll [top] bC = false ∧
      valInt (runTop₂ cfAll 20 top 0) = some 13 ∧ valInt (runTop 20 top 0) = some 13 := by decide

-- the private store of a plain call is really separate: with the (wrong) decision "every block is a
-- plain function" the closure c above loses its shared x and the program fails, so `runTop₂` is
-- not `runTop` in disguise and the hypothesis `hcf` is needed
example :
    let bB := Scope.mk 2 [4] [.assign 5 (.var 4)] (.var 5)
    let bC := Scope.mk 3 [4] [.assign 0 (.add (.var 0) (.var 4))] (.var 0)
    let top := Scope.mk 1 [] [.assign 0 (.num 1), .assign 1 (.block bB), .assign 2 (.block bC),
      .assign 3 (.call 1 (.num 5)), .assign 6 (.call 2 (.num 7))] (.add (.var 0) (.var 3))
    valInt (runTop₂ (fun _ _ => true) 20 top 0) = none ∧ valInt (runTop 20 top 0) = some 13 := by
  decide

/-- Why `idsOK` is part of `cfAll`: function(){ b = {|y| x = y; c = {|u| x = 5; 0 }; q = c(0); x }; b(3) }
with the inner block numbered like the outer one (id 2 twice). Both blocks pass `isClosure = false`
(each binds an `x` "of scope 2"), but the store key (activation, 2, x) makes them share x: the
reference semantics returns 5, running them as plain functions returns 3. Scope ids must be
unique for the model to describe the language at all. -/
theorem closure_vs_function_needs_ids_counter :
    let bC := Scope.mk 2 [7] [.assign 0 (.num 5)] (.num 0)
    let bB := Scope.mk 2 [4] [.assign 0 (.var 4), .assign 1 (.block bC), .assign 6 (.call 1 (.num 0))] (.var 0)
    let top := Scope.mk 1 [] [.assign 2 (.block bB)] (.call 2 (.num 3))
    isClosure reachFuel [top] bB = false ∧ idsOK [top] bB = false ∧
      valInt (runTop 20 top 0) = some 5 ∧
      valInt (runTop₂ (fun chain s => !isClosure reachFuel chain s) 20 top 0) = some 3 := by
  decide

/-- The same with a STATIC condition on the program instead of the per-call id check: in the
second semantics EVERY block with `isClosure = false` is run as a plain function (fresh private
store for all its names, no access to the shared store). If at every lexical position of the
program (`Pos`: the outermost function, blocks below the scope they are written in, nested function
literals as roots of their own) the scope id is not reused by an enclosing or nested scope, both
semantics give the same result for every fuel and argument. The proof carries the run-time
invariant that every block / function value in the store, in private cells and in results is a
lexical position of the program (`inv_all`). By `closure_vs_function_needs_ids_counter` the
condition on the ids cannot be dropped. -/
theorem closure_vs_function_equiv_unique_ids (program : Scope)
    (hids : ∀ chain s, Pos program chain s → idsOK chain s = true) (fuel : Nat) (arg : Int) :
    runTop₂ (fun chain s => !isClosure reachFuel chain s) fuel program arg =
      runTop fuel program arg :=
  runTop₂_eq_G (G := Pos program) (pos_closed program)
    (fun chain s hp hc => by simp only [cfAll, hids chain s hp, Bool.and_true]; exact hc)
    fuel program Pos.root arg

-- non-vacuity of the id condition: the two-block program above satisfies it
example :
    let bB := Scope.mk 2 [4] [.assign 5 (.var 4)] (.var 5)
    let bC := Scope.mk 3 [4] [.assign 0 (.add (.var 0) (.var 4))] (.var 0)
    let top := Scope.mk 1 [] [.assign 0 (.num 1), .assign 1 (.block bB), .assign 2 (.block bC),
      .assign 3 (.call 1 (.num 5)), .assign 6 (.call 2 (.num 7))] (.add (.var 0) (.var 3))
    ∀ chain s, Pos top chain s → idsOK chain s = true := by
  intro bB bC top chain s h
  have key : (chain = [] ∧ s = top) ∨ (chain = [top] ∧ s = bB) ∨ (chain = [top] ∧ s = bC) := by
    induction h with
    | root => exact Or.inl ⟨rfl, rfl⟩
    | kid _ hk ih =>
      rcases ih with ⟨rfl, rfl⟩ | ⟨rfl, rfl⟩ | ⟨rfl, rfl⟩
      · simp [top, kids, stmtKids, exprKids, Scope.body, Scope.result] at hk
        rcases hk with rfl | rfl
        · exact Or.inr (Or.inl ⟨rfl, rfl⟩)
        · exact Or.inr (Or.inr ⟨rfl, rfl⟩)
      · simp [bB, kids, stmtKids, exprKids, Scope.body, Scope.result] at hk
      · simp [bC, kids, stmtKids, exprKids, Scope.body, Scope.result] at hk
    | fn _ hf ih =>
      rcases ih with ⟨rfl, rfl⟩ | ⟨rfl, rfl⟩ | ⟨rfl, rfl⟩
      · simp [top, fnsOf, stmtFns, exprFns, Scope.body, Scope.result] at hf
      · simp [bB, fnsOf, stmtFns, exprFns, Scope.body, Scope.result] at hf
      · simp [bC, fnsOf, stmtFns, exprFns, Scope.body, Scope.result] at hf
  rcases key with ⟨rfl, rfl⟩ | ⟨rfl, rfl⟩ | ⟨rfl, rfl⟩ <;> decide

end Gsu.Props.C29
