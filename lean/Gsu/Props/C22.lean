/-
C22 — Query results do not depend on optimization or strategy.

"For any query over any database, the set of rows returned (with duplicates removed as the
relational operators specify) is the same as the result defined by the relational meaning of the
query as written, whatever transformations, index choices, join orders, temporary indexes or other
strategies the optimizer picks, and whether rows are read forwards or backwards."

PARTIAL (specification theorems + translation validation). The optimiser (`Transform`,
`Optimize`, the strategies) is *not* mirrored in Lean. What is proved here, about the reference
semantics `Gsu.Qry.evalQ` that the correspondence run compares every executed query with:
the algebraic laws that justify the optimiser's rewrite families, each with its exact side
condition, and — for the two rewrites past a `summarize` — that the side condition the code
tests today (regenerated from `Where.Transform` / `Project.Transform` into `Gsu.Gen.QryCond`)
is the sound one, with `decide`d two-row counter-models for the weaker conditions.
The full statement "executed result = evalQ of the query as written" for *every* query is tied
only by the differential run (harness/inject/dbms/query/zz_verif_c22_test.go).
Not proved here: rename/extend pushing, join commutativity/association, the right side of
where-into-join, leftjoin restriction (sort order / reverse reading: see C23).
-/
import Gsu.Proofs.Qry
import Gsu.Gen.QryCond
namespace Gsu.Props.C22
open Gsu.Proto Gsu.QVal Gsu.QExpr Gsu.Qry

/-- consecutive restrictions combine (`Where.Transform`, case `*Where`) -/
theorem where_where (db : Db) (q : Query) (e1 e2 : Expr) :
    evalQ db (.where_ (.where_ q e1) e2) = evalQ db (.where_ q (.and e1 e2)) :=
  Gsu.Qry.where_where db q e1 e2

/-- a restriction moves before a projection that keeps its columns -/
theorem where_project_comm (db : Db) (q : Query) (cs : List Col) (e : Expr) (h : Sub e.cols cs) :
    SetEq (evalQ db (.where_ (.project q cs) e)) (evalQ db (.project (.where_ q e) cs)) :=
  Gsu.Qry.where_project_comm db q cs e h

/-- consecutive projections combine -/
theorem project_project (db : Db) (q : Query) (cs cs' : List Col) (h : Sub cs cs') :
    SetEq (evalQ db (.project (.project q cs') cs)) (evalQ db (.project q cs)) :=
  Gsu.Qry.project_project db q cs cs' h

/-- a restriction distributes over union (columns a source lacks read as `""`) -/
theorem where_over_union (db : Db) (a b : Query) (e : Expr)
    (h : Sub e.cols (unionCols (colsQ db a) (colsQ db b))) :
    SetEq (evalQ db (.where_ (.union a b) e)) (evalQ db (.union (.where_ a e) (.where_ b e))) :=
  Gsu.Qry.where_over_union db a b e h

theorem where_over_intersect (db : Db) (a b : Query) (e : Expr)
    (h : Sub e.cols (interCols (colsQ db a) (colsQ db b))) :
    SetEq (evalQ db (.where_ (.intersect a b) e))
      (evalQ db (.intersect (.where_ a e) (.where_ b e))) :=
  Gsu.Qry.where_over_intersect db a b e h

theorem where_over_minus (db : Db) (a b : Query) (e : Expr)
    (h : Sub e.cols (unionCols (colsQ db a) (colsQ db b))) :
    SetEq (evalQ db (.where_ (.minus a b) e)) (evalQ db (.minus (.where_ a e) (.where_ b e))) :=
  Gsu.Qry.where_over_minus db a b e h

/-- union is commutative as a set of rows (read over any column layout `cs`) -/
theorem union_comm (db : Db) (a b : Query) (cs : List Col) :
    SetEq ((evalQ db (.union a b)).map (restrict cs)) ((evalQ db (.union b a)).map (restrict cs)) :=
  Gsu.Qry.union_comm db a b cs

/-- a restriction that reads only the first source's columns moves into that source of a join
(`Where.split`) -/
theorem where_into_join_side (db : Db) (a b : Query) (e : Expr) (h : Sub e.cols (colsQ db a)) :
    SetEq (evalQ db (.where_ (.join a b) e)) (evalQ db (.join (.where_ a e) b)) :=
  Gsu.Qry.where_into_join_left db a b e h

/-- the same for a product; `hwf`: the first source's rows carry the columns the restriction reads -/
theorem where_into_times_side (db : Db) (a b : Query) (e : Expr)
    (hwf : ∀ r1, r1 ∈ evalQ db a → ∀ c, c ∈ e.cols → r1.lookup c ≠ none) :
    SetEq (evalQ db (.where_ (.times a b) e)) (evalQ db (.times (.where_ a e) b)) :=
  Gsu.Qry.where_into_times_left db a b e hwf

/-! ### past a summarize -/

/-- a restriction may move below a (grouping) summarize iff it only reads `by` columns — this is
the sound direction; `where_over_summarize_counter` shows that "reads only source columns" is not
enough -/
theorem where_over_summarize (db : Db) (q : Query) (by_ : List Col)
    (aggs : List (Col × Agg × Col)) (e : Expr) (h : Sub e.cols by_) :
    SetEq (evalQ db (.where_ (.summarize q false by_ aggs) e))
      (evalQ db (.summarize (.where_ q e) false by_ aggs)) :=
  Gsu.Qry.where_over_summarize db q by_ aggs e h

/-- columns: 0 = a, 1 = b, 2 = c -/
def cdb : Db :=
  [Table.mk [0, 1, 2]
    [[(0, .int 1), (1, .int 1), (2, .int 9)], [(0, .int 2), (1, .int 7), (2, .int 0)]]]

/-- finding 13: `(t summarize a, c = max b) where c < 5` with a source column also named `c`.
The predicate reads only source columns, yet moving it below the summarize changes the result:
`(a=1, c=1)` is in the result as written and not in the rewritten one. -/
theorem where_over_summarize_counter :
    let e : Expr := .cmp .lt (.col 2) (.const (.int 5))
    Sub e.cols (colsQ cdb (.table 0)) ∧
    [(0, .int 1), (2, .int 1)] ∈ evalQ cdb (.where_ (.summarize (.table 0) false [0] [(2, .max, 1)]) e) ∧
    [(0, .int 1), (2, .int 1)] ∉ evalQ cdb (.summarize (.where_ (.table 0) e) false [0] [(2, .max, 1)]) := by
  refine ⟨?_, by decide, by decide⟩
  intro c hc
  simp only [Expr.cols, List.append_nil, List.mem_singleton] at hc
  subst hc; decide

/-- the same defect without a name collision: a whole-row `summarize max b` followed by a
restriction on another source column -/
theorem where_over_summarize_whole_counter :
    let e : Expr := .cmp .gt (.col 2) (.const (.int 5))
    evalQ cdb (.where_ (.summarize (.table 0) true [] [(3, .max, 1)]) e) ≠
      evalQ cdb (.summarize (.where_ (.table 0) e) true [] [(3, .max, 1)]) := by
  decide

/-- a projection on `by` columns only makes the (grouping) summarize unnecessary -/
theorem project_over_summarize (db : Db) (q : Query) (by_ cs : List Col)
    (aggs : List (Col × Agg × Col)) (h : Sub cs by_) :
    SetEq (evalQ db (.project (.summarize q false by_ aggs) cs)) (evalQ db (.project q cs)) :=
  Gsu.Qry.project_over_summarize db q by_ cs aggs h

/-- finding 17: `t summarize max b project a` (whole-row summarize: the result has the source
columns). No summary column is left in the projection, yet the projection of the source has two
rows where the query as written has one. -/
theorem project_over_summarize_counter :
    (evalQ cdb (.project (.summarize (.table 0) true [] [(3, .max, 1)]) [0])).length = 1 ∧
    (evalQ cdb (.project (.table 0) [0])).length = 2 := by
  decide

/-! ### (G) the side conditions the code tests today -/

/-- the test `Where.Transform` applies before moving a conjunct below a summarize, for each shape
the extractor recognises (`cols1 := …; set.HasSubset(cols1, e.Columns())`) -/
def pushTest (t : Gsu.Gen.QryCond.ColSet) (srcCols by_ sumCols : List Col) (e : Expr) : Prop :=
  match t with
  | .sourceCols => Sub e.cols srcCols
  | .byCols => Sub e.cols by_
  | .sourceMinusSummaryCols => Sub e.cols (diffCols srcCols sumCols)

/-- the test as the code has it today (regenerated) -/
def codeWhereTest (srcCols by_ sumCols : List Col) (e : Expr) : Prop :=
  pushTest Gsu.Gen.QryCond.whereSummarizeTests srcCols by_ sumCols e

/-- every shape except "source columns" implies `⊆ by` for a restriction that is valid on the
result of a grouping (not whole-row) summarize, whose columns are `by ++ summary columns` -/
theorem pushTest_sub_by (t : Gsu.Gen.QryCond.ColSet) (ht : t ≠ .sourceCols)
    (srcCols by_ sumCols : List Col) (e : Expr) (hvalid : Sub e.cols (by_ ++ sumCols))
    (h : pushTest t srcCols by_ sumCols e) : Sub e.cols by_ := by
  cases t with
  | sourceCols => exact absurd rfl ht
  | byCols => exact h
  | sourceMinusSummaryCols =>
    intro c hc
    have h1 := (mem_diffCols srcCols sumCols c).1 (h c hc)
    rcases List.mem_append.1 (hvalid c hc) with hb | hs
    · exact hb
    · exact absurd hs h1.2

/-- the rewrite `Where.Transform` performs on a grouping (not whole-row) summarize is sound under
the condition the code tests: that condition implies `cols ⊆ by`. (Does not build while the code
tests the source columns — finding 13.) For a whole-row summarize the code's present condition
(source columns that are not summary columns) is NOT sufficient:
`where_over_summarize_whole_counter` — open known finding, pinned by the repository's own
`TestTransform`. -/
theorem gen_where_over_summarize (db : Db) (q : Query) (by_ : List Col)
    (aggs : List (Col × Agg × Col)) (e : Expr)
    (hvalid : Sub e.cols (colsQ db (.summarize q false by_ aggs)))
    (h : codeWhereTest (colsQ db q) by_ (aggs.map (·.1)) e) :
    SetEq (evalQ db (.where_ (.summarize q false by_ aggs) e))
      (evalQ db (.summarize (.where_ q e) false by_ aggs)) :=
  Gsu.Qry.where_over_summarize db q by_ aggs e
    (pushTest_sub_by Gsu.Gen.QryCond.whereSummarizeTests (by decide) _ _ _ e hvalid h)

/-- the whole-row remainder, stated on the code's present condition: the counter-model's
predicate passes the regenerated test although the rewrite changes the result -/
theorem gen_where_over_wholerow_summarize_open :
    pushTest .sourceMinusSummaryCols (colsQ cdb (.table 0)) [] [3]
        (.cmp .gt (.col 2) (.const (.int 5))) ∧
    evalQ cdb (.where_ (.summarize (.table 0) true [] [(3, .max, 1)]) (.cmp .gt (.col 2) (.const (.int 5)))) ≠
      evalQ cdb (.summarize (.where_ (.table 0) (.cmp .gt (.col 2) (.const (.int 5)))) true [] [(3, .max, 1)]) := by
  refine ⟨?_, by decide⟩
  intro c hc
  simp only [Expr.cols, List.append_nil, List.mem_singleton] at hc
  subst hc; decide

/-- the guard of `Project.Transform`'s "no summaries left" rewrite, as regenerated -/
def codeProjectGuard (by_ cs : List Col) : Prop :=
  match Gsu.Gen.QryCond.projectNoSummariesGuarded with
  | true => Sub cs by_
  | false => True

/-- "no summaries left → project of the source" is sound under the guard the code applies, for
grouping and whole-row summarizes alike. `hshape` is how `NewSummarize` builds a whole-row
summarize (no `by`, one operation). (Does not build while the rewrite is unguarded — finding 17.) -/
theorem gen_project_no_summaries (db : Db) (q : Query) (whole : Bool) (by_ cs : List Col)
    (aggs : List (Col × Agg × Col))
    (hshape : whole = true → by_ = [] ∧ ∃ a, aggs = [a])
    (hguard : codeProjectGuard by_ cs) :
    SetEq (evalQ db (.project (.summarize q whole by_ aggs) cs)) (evalQ db (.project q cs)) := by
  have hsub : Sub cs by_ := hguard
  cases whole with
  | false => exact Gsu.Qry.project_over_summarize db q by_ cs aggs hsub
  | true =>
    obtain ⟨hby, a, ha⟩ := hshape rfl
    subst hby; subst ha
    have hcs : cs = [] := by
      cases cs with
      | nil => rfl
      | cons x xs => exact absurd (hsub x (List.mem_cons_self ..)) (by simp)
    subst hcs
    obtain ⟨c, op, on⟩ := a
    intro r
    rw [mem_project, mem_project]
    simp only [evalQ, if_true]
    constructor
    · rintro ⟨r0, h0, rfl⟩
      cases hsrc : evalQ db q with
      | nil => rw [hsrc] at h0; simp [wholeRows] at h0
      | cons x xs => exact ⟨x, List.mem_cons_self .., rfl⟩
    · rintro ⟨r0, h0, rfl⟩
      cases hsrc : evalQ db q with
      | nil => rw [hsrc] at h0; cases h0
      | cons x xs =>
        simp only [wholeRows]
        refine ⟨_, List.mem_singleton.2 rfl, ?_⟩
        rfl

/-- "remove unused summaries" must not produce a whole-row summarize (it would add the source
columns back): the code checks it -/
theorem gen_project_drop_checks_whole : Gsu.Gen.QryCond.projectDropChecksWhole = true := rfl

-- non-vacuity: the sound conditions are met by real queries over a non-empty table
example : Sub (Expr.cmp .lt (.col 0) (.const (.int 5))).cols [0] ∧
    (evalQ cdb (.where_ (.summarize (.table 0) false [0] [(2, .max, 1)])
      (.cmp .lt (.col 0) (.const (.int 2))))).length = 1 := by
  refine ⟨?_, by decide⟩
  intro c hc
  simp only [Expr.cols, List.append_nil, List.mem_singleton] at hc
  subst hc; decide

example : (evalQ cdb (.project (.summarize (.table 0) false [0] [(2, .max, 1)]) [0])).length = 2 := by
  decide

end Gsu.Props.C22
