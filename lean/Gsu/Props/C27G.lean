/-
C27 (G): constants and the pow10 / halfpow10 tables of util/dnum/dnum.go (regenerated) are the
ones the model uses.
-/
import Gsu.Model.Dnum
import Gsu.Model.Div128
import Gsu.Gen.Dnum
namespace Gsu.Props.C27G
open Gsu.Dnum

theorem gen_constants :
    Gsu.Gen.Dnum.signPosInf = signPosInf ∧ Gsu.Gen.Dnum.signNegInf = signNegInf ∧
    Gsu.Gen.Dnum.expMin = expMin ∧ Gsu.Gen.Dnum.expMax = expMax ∧
    Gsu.Gen.Dnum.coefMin = coefMin ∧ Gsu.Gen.Dnum.coefMax = coefMax ∧
    Gsu.Gen.Dnum.digitsMax = digitsMax ∧ Gsu.Gen.Dnum.shiftMax = shiftMax ∧
    Gsu.Gen.Dnum.e7 = e7 ∧ Gsu.Gen.Dnum.e16 = 10 ^ 16 := by decide

theorem gen_pow10 : Gsu.Gen.Dnum.pow10Tab = (List.range 19).map pow10 := by decide

theorem gen_halfpow10 : Gsu.Gen.Dnum.halfpow10Tab = (List.range 20).map halfpow10 := by decide

/-- the 32 bit halves of `e16` used by the mirrored `div128` (div128.go: `e16Hi = e16 >> 32`,
`e16Lo = e16 & longMask`) are those of the regenerated constant -/
theorem gen_e16_halves :
    e16Hi = Gsu.Gen.Dnum.e16 / two32 ∧ e16Lo = Gsu.Gen.Dnum.e16 % two32 ∧ two32 = 2 ^ 32 ∧
    two64 = 2 ^ 64 := by decide

end Gsu.Props.C27G
