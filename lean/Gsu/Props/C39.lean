/-
C39 — Ordered sets, range sets and sort lists behave as their abstract types.

"The ordered key sets and range sets used for conflict checking, the sorted lists used for index
building, and the cache, bloom filter, bitmap and concurrent map utilities behave exactly like
their mathematical models (membership, range intersection, ordering, no false negatives) for
every sequence of operations up to their documented capacity."

This file: `util/ordset` and `util/ranges` (the sort list, bloom, roaring, lru/cache, shmap parts
are in `Gsu.Props.C39Aux`). The theorems are about `Gsu.Ordset.Set.*` / `Gsu.Ranges.Ranges.*`, the
array mirrors (stale slots included) that `Drive/C39.lean` runs against the Go code, instantiated
with the constants regenerated from the source (`genParams`).

Finding 1 (DESIGN §6): the theorems need `leafNode.insert` to test `i < leaf.size` before
`leaf.slots[i] == key`. The extractor reads that test from the source; `gen_params_valid` does not
build while the guard is missing (and the suite reports `ordset-empty-key` with the input).
Property theorems only; lemmas live in `Gsu/Proofs/Ordset.lean`, `Gsu/Proofs/Ranges.lean`,
`Gsu/Proofs/RangesIns.lean`, `Gsu/Proofs/RangesTree.lean` … `RangesTree6.lean`.
-/
import Gsu.Proofs.Ordset
import Gsu.Proofs.Ranges
import Gsu.Proofs.RangesIns
import Gsu.Proofs.RangesTree6
namespace Gsu.Props.C39
open Gsu.Ordset

/-- (G) the regenerated constants (`nodeSize`, the three split points of `split`, the guard of the
duplicate test in `leafNode.insert`) satisfy what the proofs need: split points strictly inside
the node and the `i < leaf.size` guard present. -/
theorem gen_params_valid : genParams.Valid :=
  ⟨by decide, by decide, by decide, by decide⟩

/-- (G) the values themselves, as in the source today -/
theorem gen_ordset_constants :
    genParams.nodeSize = 128 ∧ genParams.leftHi = 96 ∧ genParams.leftLo = 32 ∧ genParams.leftMid = 64 := by
  decide

/-- The invariant (array length, size bound, live slots strictly ascending, separators bound
their leaves, no empty leaf, first separator empty) holds after every sequence of `Insert`s, and
the keys held are exactly the keys whose `Insert` returned true. -/
theorem ordset_invariant (ks : List Key) :
    SetOK genParams (runInserts genParams ks).1 ∧
      ∀ x, x ∈ (runInserts genParams ks).1.elems ↔ x ∈ (runInserts genParams ks).2 :=
  reachable_ok genParams gen_params_valid ks

/-- `Contains(k)` after any sequence of `Insert`s is true exactly for the keys whose `Insert`
returned true — in particular for `""`, for keys equal to stale slot contents, at any size. -/
theorem ordset_insert_contains (ks : List Key) (k : Key) :
    (runInserts genParams ks).1.contains genParams k = true ↔ k ∈ (runInserts genParams ks).2 := by
  obtain ⟨h1, h2⟩ := reachable_ok genParams gen_params_valid ks
  rw [set_contains_iff genParams _ k h1, h2]

/-- `AnyInRange(from, to)` is true exactly when some inserted key lies in `[from, to]`. -/
theorem ordset_anyInRange_iff (ks : List Key) (f t : Key) :
    (runInserts genParams ks).1.anyInRange genParams f t = true ↔
      ∃ x ∈ (runInserts genParams ks).2, f ≤ x ∧ x ≤ t := by
  obtain ⟨h1, h2⟩ := reachable_ok genParams gen_params_valid ks
  rw [set_anyInRange_iff genParams _ f t h1]
  constructor
  · rintro ⟨x, hx, h⟩; exact ⟨x, (h2 x).mp hx, h⟩
  · rintro ⟨x, hx, h⟩; exact ⟨x, (h2 x).mpr hx, h⟩

/-- One `Insert` on any set satisfying the invariant: invariant kept; on `true` the key set grows
by exactly `k`; on `false` nothing changes. -/
theorem ordset_insert_step (s : Set) (k : Key) (h : SetOK genParams s) :
    SetOK genParams (s.insert genParams k).1 ∧
      ((s.insert genParams k).2 = true →
        ∀ x, x ∈ (s.insert genParams k).1.elems ↔ x = k ∨ x ∈ s.elems) ∧
      ((s.insert genParams k).2 = false → (s.insert genParams k).1 = s) :=
  set_insert_spec genParams gen_params_valid s k h

/-- Capacity: `Insert` returns false only when the tree node already has `nodeSize` leaves
(so the set holds at least `nodeSize` keys), and then the set is unchanged (`ordset_insert_step`). -/
theorem ordset_capacity_false (s : Set) (k : Key) (h : SetOK genParams s)
    (hf : (s.insert genParams k).2 = false) :
    ∃ t, s = .big t ∧ genParams.nodeSize ≤ t.length ∧ genParams.nodeSize ≤ s.elems.length := by
  obtain ⟨t, rfl, hl⟩ := set_insert_false genParams gen_params_valid s k h hf
  exact ⟨t, rfl, hl, Nat.le_trans hl (full_tree_count genParams t h)⟩

-- non-vacuity: the hypothesis `SetOK genParams s` is met by every reachable set, e.g. after
-- three inserts one of which is the empty key
example : SetOK genParams (runInserts genParams [[2], [], [1]]).1 := (ordset_invariant _).1
example : SetOK genParams (Set.empty genParams) := empty_ok _

/-! ## util/ranges -/

section ranges
open Gsu.Ranges

/-- (G) `nodeSize` and the split points of `ranges.split` as in the source today (the textual
shape of the split conditions, of `overlap`, `leafSlot.contains` and of both binary-search tests
is checked by the extractor, which fails when they change) -/
theorem gen_ranges_constants :
    Gsu.Ranges.genParams.nodeSize = 128 ∧ Gsu.Ranges.genParams.leftHi = 96 ∧
      Gsu.Ranges.genParams.leftLo = 32 ∧ Gsu.Ranges.genParams.leftMid = 64 ∧
      Gsu.Gen.Ordset.rangesExisted = 0 ∧ Gsu.Gen.Ordset.rangesAdded = 1 := by
  decide

/-
Full statement (DESIGN `ranges_contains_iff`, `ranges_disjoint_sorted`): after any sequence of
`Insert(from ≤ to)` that did not return Full, `Contains v` ⟺ some inserted range covers `v`, and the
stored slots are ascending, pairwise disjoint, with `tree.slots[ti].val = leaf_ti.slots[0].from`.

Proved below, all about the array mirror `Gsu.Ranges.Ranges.*` that the driver runs (stale slots,
positions `(ti, li)` for the iterator, the write through the `prev` pointer, fuel = count + 1):
* the *query* half for every state satisfying that invariant, leaf form and tree form, stale slots
  unconstrained (`ranges_contains_iff_partial`);
* the *update* half for every such state (`ranges_insert_step`): one `Insert(f ≤ t)` either answers
  Full — then nothing changed, the tree node has `nodeSize` leaves and the routed leaf is full — or
  answers an increment `n ≤ 1`, the invariant holds again, the covered set grew by exactly `[f, t]`
  and the number of stored ranges changed by `n`. This goes through `split` (three split points, the
  leaf form → tree form transition, `treeNode.insert`, the repeated search), `leaf.insert`,
  `iter.prev` (into the previous leaf: by the separator bound the slot found there never reaches
  `f`, so `prev` stays the new slot), `iter.next`/`next2` across leaves, `merge`, `iter.remove` with
  the removal of an emptied leaf from the tree node and the separator update when slot 0 goes;
  in particular "overflow after split" cannot happen;
* hence for every history from the zero value (`ranges_disjoint_sorted`, `ranges_contains_iff`,
  `ranges_contains_iff_accepted`): the invariant always holds; `Contains v` ⟺ a range whose `Insert`
  was not refused covers `v`; with no Full in the history ⟺ some inserted range covers `v`;
* capacity (`ranges_full_capacity`, `ranges_nofull_of_length`, `ranges_contains_iff_capacity`): Full
  needs `nodeSize` leaves one of which is full, i.e. at least `2·nodeSize − 1 = 255` stored ranges,
  so histories shorter than `2·nodeSize = 256` never see Full. (This is the guaranteed capacity: an
  adversary can merge leaves down to one range each, so the bound cannot be pushed near the nominal
  `nodeSize²`; the theorems with the explicit no-Full hypothesis cover every longer history.)
The older leaf-form results (`ranges_insert_leaf`, `ranges_contains_iff_leaf_partial`) are kept; they
are now special cases. Not stated: nothing about `f > t` inserts (the code does not guard them; the
checker never issues them).
-/

/-- (G) the split points of `ranges.split` lie strictly inside the node -/
theorem gen_ranges_params_valid : Gsu.Ranges.genParams.Valid :=
  ⟨by decide, by decide, by decide⟩

/-- `Contains(v)` on any state satisfying the invariant (disjoint ascending slots per leaf,
separators bounding the leaves, separator invariant) is true iff a stored range covers `v`. -/
theorem ranges_contains_iff_partial (rs : Ranges) (v : Key)
    (h : RangesOK Gsu.Ranges.genParams rs) :
    rs.contains Gsu.Ranges.genParams v = true ↔ ∃ s ∈ rs.flat, s.frm ≤ v ∧ v ≤ s.to :=
  ranges_contains_flat Gsu.Ranges.genParams rs v h

/-- One `Insert(f ≤ t)` into the leaf form with room: the result is again the leaf form, the
invariant holds, at most one slot more, and the covered set grows by exactly `[f, t]`. -/
theorem ranges_insert_leaf (l : Gsu.Ranges.Leaf) (f t : Key) (hft : f ≤ t)
    (h : Gsu.Ranges.LeafOK Gsu.Ranges.genParams l) (hsz : l.size < Gsu.Ranges.genParams.nodeSize) :
    ∃ l' r, Ranges.insert Gsu.Ranges.genParams (.small l) f t = (.small l', .inc r) ∧
      Gsu.Ranges.LeafOK Gsu.Ranges.genParams l' ∧ l'.size ≤ l.size + 1 ∧
      ∀ v, covL l'.live v ↔ (covL l.live v ∨ (f ≤ v ∧ v ≤ t)) :=
  insert_small Gsu.Ranges.genParams l f t hft h hsz

/-- `ranges_contains_iff` for histories of at most `nodeSize` (=128) inserts with `from ≤ to`:
`Contains v` ⟺ some inserted range covers `v`. -/
theorem ranges_contains_iff_leaf_partial (ops : List (Key × Key)) (v : Key)
    (hw : ∀ o ∈ ops, o.1 ≤ o.2) (hn : ops.length ≤ Gsu.Ranges.genParams.nodeSize) :
    (runR Gsu.Ranges.genParams ops).contains Gsu.Ranges.genParams v = true ↔
      ∃ o ∈ ops, o.1 ≤ v ∧ v ≤ o.2 := by
  obtain ⟨l, e, hok, hcov⟩ := run_small Gsu.Ranges.genParams ops hw hn
  rw [e, ranges_contains_flat Gsu.Ranges.genParams (.small l) v hok]
  exact hcov v

/-- One `Insert(f ≤ t)` on any state satisfying the invariant (leaf form or tree form).
Full: nothing changed, the tree node has `nodeSize` leaves and the leaf `f` routes to is full.
Increment `n`: `n ≤ 1`, the invariant holds again, the covered set is the old one plus exactly
`[f, t]`, and the number of stored ranges changed by `n`. -/
theorem ranges_insert_step (rs : Ranges) (f t : Key) (hft : f ≤ t)
    (h : RangesOK Gsu.Ranges.genParams rs) :
    ((rs.insert Gsu.Ranges.genParams f t).2 = .full →
        (rs.insert Gsu.Ranges.genParams f t).1 = rs ∧
        ∃ tr, rs = .big tr ∧ Gsu.Ranges.genParams.nodeSize ≤ tr.length ∧
          Gsu.Ranges.genParams.nodeSize ≤
            (Gsu.Ranges.Tree.leafAt Gsu.Ranges.genParams tr (Gsu.Ranges.Tree.search tr f - 1)).size) ∧
    (∀ n, (rs.insert Gsu.Ranges.genParams f t).2 = .inc n →
        RangesOK Gsu.Ranges.genParams (rs.insert Gsu.Ranges.genParams f t).1 ∧
        (∀ v, covL (rs.insert Gsu.Ranges.genParams f t).1.flat v ↔ (covL rs.flat v ∨ (f ≤ v ∧ v ≤ t))) ∧
        ((rs.insert Gsu.Ranges.genParams f t).1.count : Int) = (rs.count : Int) + n ∧ n ≤ 1) :=
  insert_ok Gsu.Ranges.genParams gen_ranges_params_valid rs f t hft h

/-- `ranges_disjoint_sorted`: after every history of `Insert(from ≤ to)` from the zero value the
invariant holds (per leaf ascending, pairwise disjoint, `from ≤ to`; separators bound the leaves;
`tree.slots[ti].val = leaf_ti.slots[0].from`; no empty leaf; at most `nodeSize` leaves). -/
theorem ranges_disjoint_sorted (ops : List (Key × Key)) (hw : ∀ o ∈ ops, o.1 ≤ o.2) :
    RangesOK Gsu.Ranges.genParams (runR Gsu.Ranges.genParams ops) :=
  (run_ok Gsu.Ranges.genParams gen_ranges_params_valid ops hw).1

/-- `ranges_contains_iff`: after a history of `Insert(from ≤ to)` none of which answered Full,
`Contains v` ⟺ some inserted range covers `v`. -/
theorem ranges_contains_iff (ops : List (Key × Key)) (v : Key) (hw : ∀ o ∈ ops, o.1 ≤ o.2)
    (hnf : NoFull Gsu.Ranges.genParams (Ranges.empty Gsu.Ranges.genParams) ops) :
    (runR Gsu.Ranges.genParams ops).contains Gsu.Ranges.genParams v = true ↔
      ∃ o ∈ ops, o.1 ≤ v ∧ v ≤ o.2 :=
  run_contains_noFull Gsu.Ranges.genParams gen_ranges_params_valid ops hw hnf v

/-- … and for every history, Full or not: `Contains v` ⟺ a range whose `Insert` was not refused
covers `v` (a refused `Insert` changes nothing). -/
theorem ranges_contains_iff_accepted (ops : List (Key × Key)) (v : Key) (hw : ∀ o ∈ ops, o.1 ≤ o.2) :
    (runR Gsu.Ranges.genParams ops).contains Gsu.Ranges.genParams v = true ↔
      ∃ o ∈ accepted Gsu.Ranges.genParams (Ranges.empty Gsu.Ranges.genParams) ops, o.1 ≤ v ∧ v ≤ o.2 :=
  run_contains Gsu.Ranges.genParams gen_ranges_params_valid ops hw v

/-- Capacity: `Insert` answers Full only on a tree node with `nodeSize` leaves holding at least
`2·nodeSize − 1` ranges. -/
theorem ranges_full_capacity (rs : Ranges) (f t : Key) (hft : f ≤ t)
    (h : RangesOK Gsu.Ranges.genParams rs) (hf : (rs.insert Gsu.Ranges.genParams f t).2 = .full) :
    Gsu.Ranges.genParams.nodeSize ≤ rs.nLeaves ∧ 2 * Gsu.Ranges.genParams.nodeSize ≤ rs.count + 1 := by
  obtain ⟨_, tr, rfl, c1, c2⟩ :=
    (insert_ok Gsu.Ranges.genParams gen_ranges_params_valid rs f t hft h).1 hf
  exact ⟨c1, full_count Gsu.Ranges.genParams tr f h c1 c2⟩

/-- … hence no history shorter than `2·nodeSize` (= 256) sees Full -/
theorem ranges_nofull_of_length (ops : List (Key × Key)) (hw : ∀ o ∈ ops, o.1 ≤ o.2)
    (hn : ops.length < 2 * Gsu.Ranges.genParams.nodeSize) :
    NoFull Gsu.Ranges.genParams (Ranges.empty Gsu.Ranges.genParams) ops :=
  noFull_of_length Gsu.Ranges.genParams gen_ranges_params_valid ops hw hn

/-- `ranges_contains_iff` under the capacity hypothesis alone -/
theorem ranges_contains_iff_capacity (ops : List (Key × Key)) (v : Key) (hw : ∀ o ∈ ops, o.1 ≤ o.2)
    (hn : ops.length < 2 * Gsu.Ranges.genParams.nodeSize) :
    (runR Gsu.Ranges.genParams ops).contains Gsu.Ranges.genParams v = true ↔
      ∃ o ∈ ops, o.1 ≤ v ∧ v ≤ o.2 :=
  ranges_contains_iff ops v hw (ranges_nofull_of_length ops hw hn)

/-- `merge`: when `overlap` holds the merged slot covers exactly the union of the two -/
theorem ranges_merge_covers (p n : Slot) (ho : overlap p n = true) (v : Key) :
    (Slot.mk (kmin p.frm n.frm) (kmax p.to n.to)).covers v ↔ p.covers v ∨ n.covers v :=
  merge_covers p n ho v

/-- the loop stops only when the next range starts strictly above the merged one -/
theorem ranges_no_overlap_separated (p n : Slot) (hpn : p.frm ≤ n.frm) (hn : n.frm ≤ n.to)
    (ho : overlap p n = false) : p.to < n.frm :=
  no_overlap_separated p n hpn hn ho

/-- `Insert` answers Existed only when a stored range already contains `[from, to]` (leaf level) -/
theorem ranges_existing_sound (l : Gsu.Ranges.Leaf) (f t : Key)
    (h : Gsu.Ranges.LeafOK Gsu.Ranges.genParams l)
    (he : (l.insert Gsu.Ranges.genParams f t).2 = .existing) :
    (l.insert Gsu.Ranges.genParams f t).1 = l ∧ ∃ s ∈ l.live, s.frm ≤ f ∧ t ≤ s.to :=
  leaf_insert_existing h f t he

-- non-vacuity of `RangesOK`: a tree-form state with two leaves
example : RangesOK ⟨2, 1, 1, 1⟩
    (.big [⟨[], ⟨[⟨[1], [2]⟩, Slot.zero], 1⟩⟩, ⟨[5], ⟨[⟨[5], [7]⟩, ⟨[9], [9]⟩], 2⟩⟩]) := by
  refine ⟨by simp, by simp, by simp, ?_, ?_, ?_⟩
  · intro s hs
    simp only [List.mem_cons, List.not_mem_nil, or_false] at hs
    rcases hs with rfl | rfl
    · exact ⟨⟨rfl, by decide, ⟨by simp [Gsu.Ranges.Leaf.live]; decide, by simp [Gsu.Ranges.Leaf.live]⟩⟩,
        by decide, by simp [Gsu.Ranges.Leaf.live]⟩
    · exact ⟨⟨rfl, by decide, ⟨by simp [Gsu.Ranges.Leaf.live]; decide, by simp [Gsu.Ranges.Leaf.live]; decide⟩⟩,
        by decide, by simp [Gsu.Ranges.Leaf.live]; decide⟩
  · simp [Gsu.Ranges.Before, Gsu.Ranges.Leaf.live]; decide
  · simp [Gsu.Ranges.Leaf.live]

-- non-vacuity of the update theorems on a small instance (`nodeSize = 2`), evaluated by the kernel:
-- the parameters are valid; a history of four inserts goes through the leaf form → tree form
-- split (third insert) and a merge across two leaves with removal of slot 0 and separator update
-- (fourth insert) without Full; the state is then a full tree node and the next `Insert` is Full.
example : (⟨2, 1, 1, 1⟩ : Gsu.Ranges.Params).Valid := ⟨by decide, by decide, by decide⟩
example : ∀ o ∈ [(([1] : Key), ([2] : Key)), ([5], [6]), ([8], [9]), ([3], [5])], o.1 ≤ o.2 := by decide
example : NoFull ⟨2, 1, 1, 1⟩ (Ranges.empty ⟨2, 1, 1, 1⟩) [([1], [2]), ([5], [6]), ([8], [9]), ([3], [5])] := by
  decide +kernel
example : runR ⟨2, 1, 1, 1⟩ [([1], [2]), ([5], [6]), ([8], [9]), ([3], [5])] =
    .big [⟨[], ⟨[⟨[1], [2]⟩, ⟨[3], [6]⟩], 2⟩⟩, ⟨[8], ⟨[⟨[8], [9]⟩, ⟨[8], [9]⟩], 1⟩⟩] := by decide +kernel
example : (Ranges.insert ⟨2, 1, 1, 1⟩
    (runR ⟨2, 1, 1, 1⟩ [([1], [2]), ([5], [6]), ([8], [9]), ([3], [5])]) [0] [0]).2 = .full := by decide +kernel
-- and on the real constants: the hypotheses of `ranges_contains_iff_capacity` are met by any
-- history of fewer than 256 well-formed ranges
example : (runR Gsu.Ranges.genParams [([1], [2]), ([5], [6])]).contains Gsu.Ranges.genParams [5, 0] = true :=
  (ranges_contains_iff_capacity _ _ (by decide) (by decide)).mpr ⟨([5], [6]), by simp, by decide⟩

end ranges

end Gsu.Props.C39
