/-
C39 — Ordered sets, range sets and sort lists behave as their abstract types.

"The ordered key sets and range sets used for conflict checking, the sorted lists used for index
building, and the cache, bloom filter, bitmap and concurrent map utilities behave exactly like
their mathematical models (membership, range intersection, ordering, no false negatives) for
every sequence of operations up to their documented capacity."

This file: `util/ordset` and `util/ranges` (the sort list, bloom, roaring, lru/cache, shmap parts
are in `Gsu.Props.C39Aux`). The theorems are about `Gsu.Ordset.Set.*` / `Gsu.Ranges.Ranges.*`, the
array mirrors (stale slots included) that `Drive/C39.lean` runs against the Go code, instantiated
with the constants regenerated from the source (`genParams`).

Finding 1 (DESIGN §6): the theorems need `leafNode.insert` to test `i < leaf.size` before
`leaf.slots[i] == key`. The extractor reads that test from the source; `gen_params_valid` does not
build while the guard is missing (and the suite reports `ordset-empty-key` with the input).
Property theorems only; lemmas live in `Gsu/Proofs/Ordset.lean`, `Gsu/Proofs/Ranges.lean`.
-/
import Gsu.Proofs.Ordset
import Gsu.Proofs.Ranges
import Gsu.Proofs.RangesIns
namespace Gsu.Props.C39
open Gsu.Ordset

/-- (G) the regenerated constants (`nodeSize`, the three split points of `split`, the guard of the
duplicate test in `leafNode.insert`) satisfy what the proofs need: split points strictly inside
the node and the `i < leaf.size` guard present. -/
theorem gen_params_valid : genParams.Valid :=
  ⟨by decide, by decide, by decide, by decide⟩

/-- (G) the values themselves, as in the source today -/
theorem gen_ordset_constants :
    genParams.nodeSize = 128 ∧ genParams.leftHi = 96 ∧ genParams.leftLo = 32 ∧ genParams.leftMid = 64 := by
  decide

/-- The invariant (array length, size bound, live slots strictly ascending, separators bound
their leaves, no empty leaf, first separator empty) holds after every sequence of `Insert`s, and
the keys held are exactly the keys whose `Insert` returned true. -/
theorem ordset_invariant (ks : List Key) :
    SetOK genParams (runInserts genParams ks).1 ∧
      ∀ x, x ∈ (runInserts genParams ks).1.elems ↔ x ∈ (runInserts genParams ks).2 :=
  reachable_ok genParams gen_params_valid ks

/-- `Contains(k)` after any sequence of `Insert`s is true exactly for the keys whose `Insert`
returned true — in particular for `""`, for keys equal to stale slot contents, at any size. -/
theorem ordset_insert_contains (ks : List Key) (k : Key) :
    (runInserts genParams ks).1.contains genParams k = true ↔ k ∈ (runInserts genParams ks).2 := by
  obtain ⟨h1, h2⟩ := reachable_ok genParams gen_params_valid ks
  rw [set_contains_iff genParams _ k h1, h2]

/-- `AnyInRange(from, to)` is true exactly when some inserted key lies in `[from, to]`. -/
theorem ordset_anyInRange_iff (ks : List Key) (f t : Key) :
    (runInserts genParams ks).1.anyInRange genParams f t = true ↔
      ∃ x ∈ (runInserts genParams ks).2, f ≤ x ∧ x ≤ t := by
  obtain ⟨h1, h2⟩ := reachable_ok genParams gen_params_valid ks
  rw [set_anyInRange_iff genParams _ f t h1]
  constructor
  · rintro ⟨x, hx, h⟩; exact ⟨x, (h2 x).mp hx, h⟩
  · rintro ⟨x, hx, h⟩; exact ⟨x, (h2 x).mpr hx, h⟩

/-- One `Insert` on any set satisfying the invariant: invariant kept; on `true` the key set grows
by exactly `k`; on `false` nothing changes. -/
theorem ordset_insert_step (s : Set) (k : Key) (h : SetOK genParams s) :
    SetOK genParams (s.insert genParams k).1 ∧
      ((s.insert genParams k).2 = true →
        ∀ x, x ∈ (s.insert genParams k).1.elems ↔ x = k ∨ x ∈ s.elems) ∧
      ((s.insert genParams k).2 = false → (s.insert genParams k).1 = s) :=
  set_insert_spec genParams gen_params_valid s k h

/-- Capacity: `Insert` returns false only when the tree node already has `nodeSize` leaves
(so the set holds at least `nodeSize` keys), and then the set is unchanged (`ordset_insert_step`). -/
theorem ordset_capacity_false (s : Set) (k : Key) (h : SetOK genParams s)
    (hf : (s.insert genParams k).2 = false) :
    ∃ t, s = .big t ∧ genParams.nodeSize ≤ t.length ∧ genParams.nodeSize ≤ s.elems.length := by
  obtain ⟨t, rfl, hl⟩ := set_insert_false genParams gen_params_valid s k h hf
  exact ⟨t, rfl, hl, Nat.le_trans hl (full_tree_count genParams t h)⟩

-- non-vacuity: the hypothesis `SetOK genParams s` is met by every reachable set, e.g. after
-- three inserts one of which is the empty key
example : SetOK genParams (runInserts genParams [[2], [], [1]]).1 := (ordset_invariant _).1
example : SetOK genParams (Set.empty genParams) := empty_ok _

/-! ## util/ranges -/

section ranges
open Gsu.Ranges

/-- (G) `nodeSize` and the split points of `ranges.split` as in the source today (the textual
shape of the split conditions, of `overlap`, `leafSlot.contains` and of both binary-search tests
is checked by the extractor, which fails when they change) -/
theorem gen_ranges_constants :
    Gsu.Ranges.genParams.nodeSize = 128 ∧ Gsu.Ranges.genParams.leftHi = 96 ∧
      Gsu.Ranges.genParams.leftLo = 32 ∧ Gsu.Ranges.genParams.leftMid = 64 ∧
      Gsu.Gen.Ordset.rangesExisted = 0 ∧ Gsu.Gen.Ordset.rangesAdded = 1 := by
  decide

/-
Full statement (DESIGN `ranges_contains_iff`, `ranges_disjoint_sorted`): after any sequence of
`Insert(from ≤ to)` that did not return Full, `Contains v` ⟺ some inserted range covers `v`, and the
stored slots are ascending, pairwise disjoint, with `tree.slots[ti].val = leaf_ti.slots[0].from`.

Proved below:
* the *query* half for every state satisfying that invariant, leaf form and tree form, stale slots
  unconstrained (`ranges_contains_iff_partial`);
* the *update* half for the leaf form (`tree == nil`): one `Insert` with room keeps the invariant and
  adds exactly `[from, to]` to the covered set — through the mirror of `leaf.insert`, `iter.prev`,
  the `prev` pointer, `merge`, `iter.remove` with its stale slots (`ranges_insert_leaf`) — hence both
  statements for every history of at most `nodeSize` inserts (`ranges_contains_iff_leaf_partial`,
  `ranges_disjoint_sorted_partial`).
Missing: preservation of the invariant by `Insert` once the tree exists (split, the iterator
crossing leaves, removal of emptied leaves, separator update). That part is tied by the
correspondence only: the suite compares the whole arrays with the mirror and checks exactly this
invariant (`c39inv`) and the coverage on the real structure after every `Insert`.
-/

/-- `Contains(v)` on any state satisfying the invariant (disjoint ascending slots per leaf,
separators bounding the leaves, separator invariant) is true iff a stored range covers `v`. -/
theorem ranges_contains_iff_partial (rs : Ranges) (v : Key)
    (h : RangesOK Gsu.Ranges.genParams rs) :
    rs.contains Gsu.Ranges.genParams v = true ↔ ∃ s ∈ rs.flat, s.frm ≤ v ∧ v ≤ s.to :=
  ranges_contains_flat Gsu.Ranges.genParams rs v h

/-- One `Insert(f ≤ t)` into the leaf form with room: the result is again the leaf form, the
invariant holds, at most one slot more, and the covered set grows by exactly `[f, t]`. -/
theorem ranges_insert_leaf (l : Gsu.Ranges.Leaf) (f t : Key) (hft : f ≤ t)
    (h : Gsu.Ranges.LeafOK Gsu.Ranges.genParams l) (hsz : l.size < Gsu.Ranges.genParams.nodeSize) :
    ∃ l' r, Ranges.insert Gsu.Ranges.genParams (.small l) f t = (.small l', .inc r) ∧
      Gsu.Ranges.LeafOK Gsu.Ranges.genParams l' ∧ l'.size ≤ l.size + 1 ∧
      ∀ v, covL l'.live v ↔ (covL l.live v ∨ (f ≤ v ∧ v ≤ t)) :=
  insert_small Gsu.Ranges.genParams l f t hft h hsz

/-- `ranges_contains_iff` for histories of at most `nodeSize` (=128) inserts with `from ≤ to`:
`Contains v` ⟺ some inserted range covers `v`. -/
theorem ranges_contains_iff_leaf_partial (ops : List (Key × Key)) (v : Key)
    (hw : ∀ o ∈ ops, o.1 ≤ o.2) (hn : ops.length ≤ Gsu.Ranges.genParams.nodeSize) :
    (runR Gsu.Ranges.genParams ops).contains Gsu.Ranges.genParams v = true ↔
      ∃ o ∈ ops, o.1 ≤ v ∧ v ≤ o.2 := by
  obtain ⟨l, e, hok, hcov⟩ := run_small Gsu.Ranges.genParams ops hw hn
  rw [e, ranges_contains_flat Gsu.Ranges.genParams (.small l) v hok]
  exact hcov v

/-- `ranges_disjoint_sorted` for histories of at most `nodeSize` inserts: the invariant holds
(ascending, pairwise disjoint, `from ≤ to`; the separator clause is vacuous in the leaf form). -/
theorem ranges_disjoint_sorted_partial (ops : List (Key × Key))
    (hw : ∀ o ∈ ops, o.1 ≤ o.2) (hn : ops.length ≤ Gsu.Ranges.genParams.nodeSize) :
    RangesOK Gsu.Ranges.genParams (runR Gsu.Ranges.genParams ops) := by
  obtain ⟨l, e, hok, _⟩ := run_small Gsu.Ranges.genParams ops hw hn
  rw [e]; exact hok

/-- `merge`: when `overlap` holds the merged slot covers exactly the union of the two -/
theorem ranges_merge_covers (p n : Slot) (ho : overlap p n = true) (v : Key) :
    (Slot.mk (kmin p.frm n.frm) (kmax p.to n.to)).covers v ↔ p.covers v ∨ n.covers v :=
  merge_covers p n ho v

/-- the loop stops only when the next range starts strictly above the merged one -/
theorem ranges_no_overlap_separated (p n : Slot) (hpn : p.frm ≤ n.frm) (hn : n.frm ≤ n.to)
    (ho : overlap p n = false) : p.to < n.frm :=
  no_overlap_separated p n hpn hn ho

/-- `Insert` answers Existed only when a stored range already contains `[from, to]` (leaf level) -/
theorem ranges_existing_sound (l : Gsu.Ranges.Leaf) (f t : Key)
    (h : Gsu.Ranges.LeafOK Gsu.Ranges.genParams l)
    (he : (l.insert Gsu.Ranges.genParams f t).2 = .existing) :
    (l.insert Gsu.Ranges.genParams f t).1 = l ∧ ∃ s ∈ l.live, s.frm ≤ f ∧ t ≤ s.to :=
  leaf_insert_existing h f t he

-- non-vacuity of `RangesOK`: a tree-form state with two leaves
example : RangesOK ⟨2, 1, 1, 1⟩
    (.big [⟨[], ⟨[⟨[1], [2]⟩, Slot.zero], 1⟩⟩, ⟨[5], ⟨[⟨[5], [7]⟩, ⟨[9], [9]⟩], 2⟩⟩]) := by
  refine ⟨by simp, by simp, by simp, ?_, ?_, ?_⟩
  · intro s hs
    simp only [List.mem_cons, List.not_mem_nil, or_false] at hs
    rcases hs with rfl | rfl
    · exact ⟨⟨rfl, by decide, ⟨by simp [Gsu.Ranges.Leaf.live]; decide, by simp [Gsu.Ranges.Leaf.live]⟩⟩,
        by decide, by simp [Gsu.Ranges.Leaf.live]⟩
    · exact ⟨⟨rfl, by decide, ⟨by simp [Gsu.Ranges.Leaf.live]; decide, by simp [Gsu.Ranges.Leaf.live]; decide⟩⟩,
        by decide, by simp [Gsu.Ranges.Leaf.live]; decide⟩
  · simp [Gsu.Ranges.Before, Gsu.Ranges.Leaf.live]; decide
  · simp [Gsu.Ranges.Leaf.live]

end ranges

end Gsu.Props.C39
