/-
C08 — Foreign key rules hold in every committed state.

"Every non-empty foreign key value in a committed state refers to an existing row of the target
table. Deleting or changing a referenced target row is refused unless the foreign key cascades
that kind of change, in which case the referencing rows are deleted or updated with it, as the
documentation specifies for 'cascade' and 'cascade update'."

The theorems are about `Gsu.Model.LDb` — the definitions the driver `drv_c08` executes and the
correspondence suite compares with `db19/tran.go` — with DESIGN §6 findings 3 and 19 repaired
(the model blocks a delete unless the key cascades deletes; the update cascade skips the empty
key). Helper lemmas: `Gsu/Proofs/LDb.lean`.
-/
import Gsu.Proofs.LDb
import Gsu.Gen.FkModes
namespace Gsu.Props.C08
open Gsu.Proto Gsu.LDb

/-- `fk_inv`, proved part. Full statement: for EVERY history of begin / output / delete / update /
commit / abort (and trigger switches) the committed state and the running transaction's view
satisfy `FkOk` (every non-empty foreign key value of a live source row has a live target row).

Proved here for every schema (self-referencing keys, chains of cascades of any depth, composite
keys) and every history in which each update leaves the keys that some foreign key points to
unchanged (`OpOk`: updates of source rows, of non-key columns, of unreferenced keys). Deletes
with their recursive cascades are covered in full.

Missing: updates that change a referenced key (blocked, or cascaded by `runUpd`). They are tied
to the code by the correspondence only; that the statement is in fact false there for the
current code is `fk_inv_counter`. -/
theorem fk_inv_partial (s : St) (ops : List Op) (hops : ∀ op ∈ ops, OpOk s.env.sch op)
    (h : FkOk s.env.sch s.committed ∧ FkOk s.env.sch s.w.db) :
    FkOk (run s ops).env.sch (run s ops).committed ∧ FkOk (run s ops).env.sch (run s ops).w.db :=
  run_inv ops s hops h

/-- a concrete self-referencing schema: t0 (c0, c1) key(c0) index(c1) in t0(c0) -/
def selfSchema (mode : Nat) : Schema := [⟨2, [⟨0, [0], none⟩, ⟨1, [1], some ⟨0, 0, mode⟩⟩]⟩]
def selfEnv (mode : Nat) : Env := ⟨selfSchema mode, fun _ => 0, fun _ => 0⟩
def selfDb (rows : List Row) : Db := fun t => if t = 0 then rows else []

-- non-vacuity of `fk_inv_partial`: a state satisfying the invariant and operations satisfying `OpOk`
-- (an update that changes the foreign key column only)
example : OpOk (selfSchema 3) (.upd 0 [[1], []] [[1], [1]]) := by
  intro ix i hix hne
  have : i = 0 ∨ i = 1 := by
    have := (mem_enumIdxs.mp hix)
    have hlt := (List.getElem?_eq_some_iff.mp this).1
    simp [idxsOf, selfSchema] at hlt
    omega
  rcases this with rfl | rfl
  · have := mem_enumIdxs.mp hix
    simp [idxsOf, selfSchema] at this
    subst this; rfl
  · exfalso; apply hne; decide

/-- Deleting a row with all its cascades (any depth, any schema, self-references included) keeps
every foreign key satisfied. -/
theorem delete_cascade_inv (env : Env) (w w' : W) (t : Nat) (row : Row)
    (h : opDelete env w t row = .ok w') (hok : FkOk env.sch w.db) : FkOk env.sch w'.db :=
  opDelete_fkOk h hok

/-- `cascade_spec`, refusal of deletes: a target row referenced (non-empty key) through a foreign
key that does not cascade deletes — `block` AND `cascade update` — cannot be deleted; the
transaction stays usable and unchanged. -/
theorem cascade_spec_delete_blocked (env : Env) (w : W) (t : Nat) (row : Row) (ix : Index) (i : Nat)
    (f : FkTo) (hrow : row ∈ w.db t) (hix : (ix, i) ∈ enumIdxs env.sch t)
    (hf : f ∈ fkToHere env.sch t i) (hne : emptyKey (proj ix.cols row) = false)
    (hm : f.mode = mBlock ∨ f.mode = mCascadeUpdates)
    (hr : refs env.sch w.db f (proj ix.cols row) = true) :
    opDelete env w t row = .err .fkdel true := by
  refine opDelete_blocked hrow hix hf hne ?_ hr
  rcases hm with h | h <;> rw [h] <;> decide

-- the hypotheses are satisfiable: row [a] of t0 referenced by [b, a] under `cascade update`
example : ([[97], []] : Row) ∈ selfDb [[[97], []], [[98], [97]]] 0 ∧
    ((⟨0, [0], none⟩ : Index), 0) ∈ enumIdxs (selfSchema 1) 0 ∧
    (⟨0, 1, 1⟩ : FkTo) ∈ fkToHere (selfSchema 1) 0 0 ∧
    refs (selfSchema 1) (selfDb [[[97], []], [[98], [97]]]) ⟨0, 1, 1⟩ [[97]] = true :=
  ⟨by simp [selfDb], mem_enumIdxs.mpr rfl, by decide, by decide⟩

/-- `cascade_spec`, refusal of updates: changing the key of a target row referenced through a
`block` foreign key is refused (with some error; the transaction stays usable and unchanged). -/
theorem cascade_spec_update_blocked (env : Env) (w : W) (t : Nat) (old new : Row) (ix : Index) (i : Nat)
    (f : FkTo) (hrow : old ∈ w.db t) (hix : (ix, i) ∈ enumIdxs env.sch t)
    (hf : f ∈ fkToHere env.sch t i) (hkey : ix.mode = 0)
    (hchg : proj ix.cols old ≠ proj ix.cols new) (hne : emptyKey (proj ix.cols old) = false)
    (hm : f.mode = mBlock) (hr : refs env.sch w.db f (proj ix.cols old) = true) :
    ∃ e, opUpdate env w t old new = .err e true :=
  opUpdate_blocked hrow hix hf hkey hchg hne (by rw [hm]; decide) hr

/-- `fk_inv` is FALSE for updates in a self-referencing table (new finding, not in DESIGN §6): the
update `[a, ""] → [b, a]` changes the key and makes the row reference its own OLD key; the
target check (`fkeyOutputBlock`) runs against the state before the update, finds the row itself,
and the update is accepted — afterwards `a` has no target. The implementation agrees with the
model here (correspondence) and the direct oracle reports it (`dangling-fk:upd-self-old-key`). -/
theorem fk_inv_counter :
    (match opUpdate (selfEnv 0) ⟨selfDb [[[97], []]], []⟩ 0 [[97], []] [[98], [97]] with
     | .ok w' => (w'.db 0 == [[[98], [97]]]) && !hasKey (w'.db 0) [0] [[97]]
     | .err _ _ => false) = true := by
  decide

/-- (G) the mode bits, the mode tests of `fkeyDeleteBlock` (as reached from `Delete` and from
`update`), of `fkeyDeleteCascade` / `fkeyUpdateCascade` in today's `tran.go`/`schema.go` are the
ones of the model, for every mode value. Fails on a tree without the fix for finding 3. -/
theorem gen_modes :
    Gsu.Gen.FkModes.cBlock = mBlock ∧ Gsu.Gen.FkModes.cCascadeUpdates = mCascadeUpdates ∧
    Gsu.Gen.FkModes.cCascadeDeletes = mCascadeDeletes ∧
    Gsu.Gen.FkModes.cCascade = mCascadeUpdates ||| mCascadeDeletes ∧
    (∀ m, m < 4 → Gsu.Gen.FkModes.deleteBlocks m = deleteBlocks m) ∧
    (∀ m, m < 4 → Gsu.Gen.FkModes.updateBlocks m = updateBlocks m) ∧
    (∀ m, m < 4 → Gsu.Gen.FkModes.cascadesDeletes m = cascadesDeletes m) ∧
    (∀ m, m < 4 → Gsu.Gen.FkModes.skipsUpdates m = !cascadesUpdates m) := by
  decide

/-- (G) the three helpers start with the `key == ""` guard, as the model assumes (`blocked`,
`cascDel`, `cascUpd`). Fails on a tree without the fix for finding 19. -/
theorem gen_guards :
    Gsu.Gen.FkModes.guardDeleteBlock = true ∧ Gsu.Gen.FkModes.guardDeleteCascade = true ∧
    Gsu.Gen.FkModes.guardUpdateCascade = true := by
  decide

end Gsu.Props.C08
