/-
C08 — Foreign key rules hold in every committed state.

"Every non-empty foreign key value in a committed state refers to an existing row of the target
table. Deleting or changing a referenced target row is refused unless the foreign key cascades
that kind of change, in which case the referencing rows are deleted or updated with it, as the
documentation specifies for 'cascade' and 'cascade update'."

The theorems are about `Gsu.Model.LDb` — the definitions the driver `drv_c08` executes and the
correspondence suite compares with `db19/tran.go` — with DESIGN §6 findings 3 and 19 repaired
(the model blocks a delete unless the key cascades deletes; the update cascade skips the empty
key). Helper lemmas: `Gsu/Proofs/LDb.lean` (deletes, updates that keep referenced keys),
`LDb2.lean`/`LDb3.lean`/`LDb4.lean` (updates that change a referenced key: the shape of the
cascade stack, its invariant, histories), `LDb5.lean`/`LDb6.lean` (what a cascade removes /
rewrites).

What is proved about `fk_inv` ("every non-empty foreign key value of a live row has a live
target", over every history):
* `fk_inv_partial`: every schema, every history whose updates leave referenced keys unchanged;
* `fk_inv_rekey_partial`: ALSO updates that change a referenced key — refused under `block`,
  cascaded to any depth under `cascade update` — for schemas satisfying `SchOk` and updates
  satisfying `UpdOk2`.  The excluded cases are exactly where the statement is false of the code:
  - KF-C08-1 (an update changes a referenced key and, at the same time, points a foreign key of
    the row at a row of the same table, e.g. its own old key): `UpdOk2`, witness `fk_inv_counter`;
    the same through two tables (`fk_inv_cycle_counter`) — the changed foreign key value must
    point to an EARLIER table;
  - NEW, KF-C08-4 (a cascade rewrites columns that a second foreign key of the row shares; that
    key is not re-checked): `SchOk.sep`, witness `fk_inv_overlap_counter`;
  - `SchOk.ord` (a cascading foreign key points to an earlier table or is a self reference from
    an index that is not itself referenced) gives "earlier table" in `UpdOk2` its meaning: with
    cascading foreign keys in a cycle of tables the row a new foreign key value points to can
    again be re-keyed by the cascade of the same update (KF-C08-1 once more, found by random
    search on the model); inside `ord` no violation exists (proved);
  - KF-C08-2 (raw single-column key: range instead of equality) and KF-C08-3 (a row made
    self-referencing and re-keyed in ONE transaction) are not visible in the model: it compares
    keys as field tuples (C12) and refuses the second update (`pendingUpd`, what the code does
    across transactions); the suite keeps both as fixed probes.
-/
import Gsu.Proofs.LDb6
import Gsu.Gen.FkModes
namespace Gsu.Props.C08
open Gsu.Proto Gsu.LDb

/-- `fk_inv`, proved part. Full statement: for EVERY history of begin / output / delete / update /
commit / abort (and trigger switches) the committed state and the running transaction's view
satisfy `FkOk` (every non-empty foreign key value of a live source row has a live target row).

Proved here for every schema (self-referencing keys, chains of cascades of any depth, composite
keys) and every history in which each update leaves the keys that some foreign key points to
unchanged (`OpOk`: updates of source rows, of non-key columns, of unreferenced keys). Deletes
with their recursive cascades are covered in full.

Updates that change a referenced key (blocked, or cascaded by `runUpd`) are covered by
`fk_inv_rekey_partial` below, for the schemas `SchOk`; that the statement is in fact false for
some of them for the current code is `fk_inv_counter`. -/
theorem fk_inv_partial (s : St) (ops : List Op) (hops : ∀ op ∈ ops, OpOk s.env.sch op)
    (h : FkOk s.env.sch s.committed ∧ FkOk s.env.sch s.w.db) :
    FkOk (run s ops).env.sch (run s ops).committed ∧ FkOk (run s ops).env.sch (run s ops).w.db :=
  run_inv ops s hops h

/-- a concrete self-referencing schema: t0 (c0, c1) key(c0) index(c1) in t0(c0) -/
def selfSchema (mode : Nat) : Schema := [⟨2, [⟨0, [0], none⟩, ⟨1, [1], some ⟨0, 0, mode⟩⟩]⟩]
def selfEnv (mode : Nat) : Env := ⟨selfSchema mode, fun _ => 0, fun _ => 0⟩
def selfDb (rows : List Row) : Db := fun t => if t = 0 then rows else []

-- non-vacuity of `fk_inv_partial`: a state satisfying the invariant and operations satisfying `OpOk`
-- (an update that changes the foreign key column only)
example : OpOk (selfSchema 3) (.upd 0 [[1], []] [[1], [1]]) := by
  intro ix i hix hne
  have : i = 0 ∨ i = 1 := by
    have := (mem_enumIdxs.mp hix)
    have hlt := (List.getElem?_eq_some_iff.mp this).1
    simp [idxsOf, selfSchema] at hlt
    omega
  rcases this with rfl | rfl
  · have := mem_enumIdxs.mp hix
    simp [idxsOf, selfSchema] at this
    subst this; rfl
  · exfalso; apply hne; decide

/-- An accepted update that changes referenced keys keeps every foreign key satisfied: under
`block` it is only accepted when no row references the old key, under `cascade update` the
referencing rows are rewritten, recursively (a rewritten row may itself be referenced).
Hypotheses: the schema conditions `SchOk` (targets are keys; the columns of a cascading foreign
key are distinct columns of the table and not shared with another foreign key source or target
index of the table; cascading foreign keys point to earlier tables or are self references from
an unreferenced index), rows as wide as their table, and `UpdOk2`: a foreign key value that the
update itself changes to a non-empty value points to an earlier table (KF-C08-1 excluded). -/
theorem update_cascade_inv (env : Env) (w w' : W) (t : Nat) (old new : Row) (hsch : SchOk env.sch)
    (h : opUpdate env w t old new = .ok w') (hlen : new.length = ncols env.sch t)
    (hu : UpdOk2 env.sch t old new) (hok : FkOk env.sch w.db) (hl : LenOk env.sch w.db) :
    FkOk env.sch w'.db ∧ LenOk env.sch w'.db :=
  opUpdate_fkOk2 hsch h hlen hu hok hl

/-- `fk_inv` for histories with updates that change referenced keys.  For every schema satisfying
`SchOk` and EVERY history of begin / output / delete / update / commit / abort / trigger switches
whose rows are as wide as their tables and whose updates either leave referenced keys unchanged
or satisfy `UpdOk2` (`OpOk2`), the committed state and the running transaction's view satisfy
`FkOk`.  Still partial: `SchOk`, `UpdOk2` exclude KF-C08-1 and KF-C08-4 (see the header), where
the statement is false — `fk_inv_counter`, `fk_inv_cycle_counter`, `fk_inv_overlap_counter`. -/
theorem fk_inv_rekey_partial (s : St) (ops : List Op) (hsch : SchOk s.env.sch)
    (hops : ∀ op ∈ ops, OpOk2 s.env.sch op)
    (h : (FkOk s.env.sch s.committed ∧ FkOk s.env.sch s.w.db) ∧
      (LenOk s.env.sch s.committed ∧ LenOk s.env.sch s.w.db)) :
    (FkOk (run s ops).env.sch (run s ops).committed ∧ FkOk (run s ops).env.sch (run s ops).w.db) ∧
    (LenOk (run s ops).env.sch (run s ops).committed ∧ LenOk (run s ops).env.sch (run s ops).w.db) :=
  run_inv2 ops s hsch hops h

/-- a chain: t0 key(c0); t1 key(c0) in t0 cascade update; t2 key(c0) index(c1) in t1(c0) cascade update -/
def chainSchema : Schema :=
  [⟨2, [⟨0, [0], none⟩]⟩, ⟨2, [⟨0, [0], some ⟨0, 0, 1⟩⟩]⟩, ⟨2, [⟨0, [0], none⟩, ⟨1, [1], some ⟨1, 0, 1⟩⟩]⟩]
def chainDb : Db := fun t =>
  if t = 0 then [[[97], []]] else if t = 1 then [[[97], [120]]]
  else if t = 2 then [[[107], [97]], [[108], [97]]] else []

-- non-vacuity: the hypotheses hold for the self-referencing schema (every mode) and the chain …
example : SchOk (selfSchema 0) ∧ SchOk (selfSchema 1) ∧ SchOk (selfSchema 3) ∧ SchOk chainSchema :=
  ⟨schOkB_spec (by decide), schOkB_spec (by decide), schOkB_spec (by decide), schOkB_spec (by decide)⟩

-- … for an update of the key of a self-referencing table (the foreign key column stays) …
example : OpOk2 (selfSchema 1) (.upd 0 [[97], []] [[98], []]) := by
  refine ⟨rfl, Or.inr ?_⟩
  intro j fk hfk
  rcases j with _ | _ | j
  · simp [fkOf, idxsOf, selfSchema] at hfk
  · left; rfl
  · simp [fkOf, idxsOf, selfSchema] at hfk

-- … such an update is accepted and cascades: in the chain the change of t0's key is carried
-- through t1's key into t2's foreign key column (two levels of recursion)
example : (match opUpdate ⟨chainSchema, fun _ => 0, fun _ => 0⟩ ⟨chainDb, []⟩ 0 [[97], []] [[98], []] with
     | .ok w' => (w'.db 0 == [[[98], []]]) && (w'.db 1 == [[[98], [120]]]) &&
         (w'.db 2 == [[[107], [98]], [[108], [98]]])
     | .err _ _ => false) = true := by decide

/-- Deleting a row with all its cascades (any depth, any schema, self-references included) keeps
every foreign key satisfied. -/
theorem delete_cascade_inv (env : Env) (w w' : W) (t : Nat) (row : Row)
    (h : opDelete env w t row = .ok w') (hok : FkOk env.sch w.db) : FkOk env.sch w'.db :=
  opDelete_fkOk h hok

/-- `cascade_spec`, refusal of deletes: a target row referenced (non-empty key) through a foreign
key that does not cascade deletes — `block` AND `cascade update` — cannot be deleted; the
transaction stays usable and unchanged. -/
theorem cascade_spec_delete_blocked (env : Env) (w : W) (t : Nat) (row : Row) (ix : Index) (i : Nat)
    (f : FkTo) (hrow : row ∈ w.db t) (hix : (ix, i) ∈ enumIdxs env.sch t)
    (hf : f ∈ fkToHere env.sch t i) (hne : emptyKey (proj ix.cols row) = false)
    (hm : f.mode = mBlock ∨ f.mode = mCascadeUpdates)
    (hr : refs env.sch w.db f (proj ix.cols row) = true) :
    opDelete env w t row = .err .fkdel true := by
  refine opDelete_blocked hrow hix hf hne ?_ hr
  rcases hm with h | h <;> rw [h] <;> decide

-- the hypotheses are satisfiable: row [a] of t0 referenced by [b, a] under `cascade update`
example : ([[97], []] : Row) ∈ selfDb [[[97], []], [[98], [97]]] 0 ∧
    ((⟨0, [0], none⟩ : Index), 0) ∈ enumIdxs (selfSchema 1) 0 ∧
    (⟨0, 1, 1⟩ : FkTo) ∈ fkToHere (selfSchema 1) 0 0 ∧
    refs (selfSchema 1) (selfDb [[[97], []], [[98], [97]]]) ⟨0, 1, 1⟩ [[97]] = true :=
  ⟨by simp [selfDb], mem_enumIdxs.mpr rfl, by decide, by decide⟩

/-- `cascade_spec`, refusal of updates: changing the key of a target row referenced through a
`block` foreign key is refused (with some error; the transaction stays usable and unchanged). -/
theorem cascade_spec_update_blocked (env : Env) (w : W) (t : Nat) (old new : Row) (ix : Index) (i : Nat)
    (f : FkTo) (hrow : old ∈ w.db t) (hix : (ix, i) ∈ enumIdxs env.sch t)
    (hf : f ∈ fkToHere env.sch t i) (hkey : ix.mode = 0)
    (hchg : proj ix.cols old ≠ proj ix.cols new) (hne : emptyKey (proj ix.cols old) = false)
    (hm : f.mode = mBlock) (hr : refs env.sch w.db f (proj ix.cols old) = true) :
    ∃ e, opUpdate env w t old new = .err e true :=
  opUpdate_blocked hrow hix hf hkey hchg hne (by rw [hm]; decide) hr

/-- `cascade_spec`, positive half for deletes ("removing a target row will remove matching source
rows"), every schema: an accepted delete of `row` (1) only removes rows, (2) keeps every row that
does not reference the deleted row — directly or through other removed rows — by foreign keys
that cascade deletes (`DelReach`), (3) leaves no row that references a key of a reached row, so
(4) every reached row other than `row` is gone, and (5) so is `row` (if it was there once). -/
theorem cascade_spec_delete_removes (env : Env) (w w' : W) (t : Nat) (row : Row)
    (h : opDelete env w t row = .ok w') :
    (∀ s, (w'.db s).Sublist (w.db s)) ∧
    (∀ s x, x ∈ w.db s → ¬ DelReach env.sch w.db t row s x → x ∈ w'.db s) ∧
    (∀ s x, DelReach env.sch w.db t row s x → NoRefs env.sch w'.db s x) ∧
    (∀ s x, DelReach env.sch w.db t row s x → (s ≠ t ∨ x ≠ row) → x ∉ w'.db s) ∧
    ((w.db t).count row ≤ 1 → row ∉ w'.db t) :=
  opDelete_spec h

-- non-vacuity: under `cascade` the delete of [a] takes the referencing rows [b,a] and [c,b] with it
example : (match opDelete (selfEnv 3) ⟨selfDb [[[97], []], [[98], [97]], [[99], [98]], [[100], []]], []⟩ 0 [[97], []] with
     | .ok w' => w'.db 0 == [[[100], []]]
     | .err _ _ => false) = true := by decide

/-- `cascade_spec`, positive half for updates ("updating a target row will update matching source
rows"), for the schemas and updates of `update_cascade_inv`: there is a list `log` of row changes
`(table, old row, new row)` such that the user's change is in it; every other entry rewrites a
row that referenced the old value of a key changed by another entry, through a foreign key that
cascades updates — its foreign key columns get the key of that entry's new row, every other
column is kept (`Rewrite`, `substFk`); the rows before and after differ exactly by these changes
(nothing else appears, disappears or changes; row counts are the same); and afterwards no row
references the old value of a key the user's change replaced. -/
theorem cascade_spec_update_rewrites_partial (env : Env) (w w' : W) (t : Nat) (old new : Row)
    (hsch : SchOk env.sch) (h : opUpdate env w t old new = .ok w')
    (hlen : new.length = ncols env.sch t) (hu : UpdOk2 env.sch t old new)
    (hok : FkOk env.sch w.db) (hl : LenOk env.sch w.db) :
    ∃ log : List (Nat × Row × Row),
      (new ≠ old → (t, old, new) ∈ log) ∧
      (∀ e ∈ log, e = (t, old, new) ∨
        Rewrite env.sch (fun T o n => (T, o, n) ∈ log) e.1 e.2.1 e.2.2) ∧
      (∀ s x, x ∈ w.db s → x ∈ w'.db s ∨ ∃ x', (s, x, x') ∈ log) ∧
      (∀ s x, x ∈ w'.db s → x ∈ w.db s ∨ ∃ r, (s, r, x) ∈ log) ∧
      (∀ s, (w'.db s).length = (w.db s).length) ∧
      NoRefsChanged env.sch w'.db t old new :=
  opUpdate_spec hsch h hlen hu hok hl

/-- `fk_inv` is FALSE for updates in a self-referencing table (new finding, not in DESIGN §6): the
update `[a, ""] → [b, a]` changes the key and makes the row reference its own OLD key; the
target check (`fkeyOutputBlock`) runs against the state before the update, finds the row itself,
and the update is accepted — afterwards `a` has no target. The implementation agrees with the
model here (correspondence) and the direct oracle reports it (`dangling-fk:upd-self-old-key`). -/
theorem fk_inv_counter :
    (match opUpdate (selfEnv 0) ⟨selfDb [[[97], []]], []⟩ 0 [[97], []] [[98], [97]] with
     | .ok w' => (w'.db 0 == [[[98], [97]]]) && !hasKey (w'.db 0) [0] [[97]]
     | .err _ _ => false) = true := by
  decide

/-- KF-C08-1 through two tables (`UpdOk2` asks for an EARLIER table, not only "another table"):
t0 (c0,c1) key(c0) index(c1) in t1(c0); t1 (c0) key(c0) in t0(c0) cascade update.  The update
`[a, ""] → [b, a]` of t0 is accepted (t1 has the row `a`), its cascade re-keys that row of t1 to
`b`, and t0's new row keeps `c1 = a` without target.  The schema satisfies `SchOk`.  Confirmed
on the implementation (scratch test, see findings/C08.md). -/
def cycleSchema : Schema :=
  [⟨2, [⟨0, [0], none⟩, ⟨1, [1], some ⟨1, 0, 0⟩⟩]⟩, ⟨2, [⟨0, [0], some ⟨0, 0, 1⟩⟩]⟩]
def cycleDb : Db := fun t => if t = 0 then [[[97], []]] else if t = 1 then [[[97], []]] else []

theorem fk_inv_cycle_counter :
    schOkB cycleSchema = true ∧
    (match opUpdate ⟨cycleSchema, fun _ => 0, fun _ => 0⟩ ⟨cycleDb, []⟩ 0 [[97], []] [[98], [97]] with
     | .ok w' => (w'.db 0 == [[[98], [97]]]) && (w'.db 1 == [[[98], []]]) && !hasKey (w'.db 1) [0] [[97]]
     | .err _ _ => false) = true := by
  decide

/-- NEW finding KF-C08-4 (`SchOk.sep` is needed): a cascade rewrites columns shared with a second
foreign key of the row and does not re-check it (`update(…, block = false)` skips
`fkeyOutputBlock`).  t0 (c0,c1) key(c0); t1 (c0,c1) key(c0,c1); t2 (c0,c1,c2) key(c0)
index(c1) in t0(c0) cascade update, index(c1,c2) in t1(c0,c1).  Rows t0 `[a,""]`, t1 `[a,x]`,
t2 `[k,a,x]`; `update t0 [a,""] → [b,""]` rewrites t2's row to `[k,b,x]`, whose second foreign
key `(b,x)` has no target in t1.  Confirmed on the implementation (findings/C08.md). -/
def overlapSchema : Schema :=
  [⟨2, [⟨0, [0], none⟩]⟩, ⟨2, [⟨0, [0, 1], none⟩]⟩,
   ⟨3, [⟨0, [0], none⟩, ⟨1, [1], some ⟨0, 0, 1⟩⟩, ⟨1, [1, 2], some ⟨1, 0, 0⟩⟩]⟩]
def overlapDb : Db := fun t =>
  if t = 0 then [[[97], []]] else if t = 1 then [[[97], [120]]]
  else if t = 2 then [[[107], [97], [120]]] else []

theorem fk_inv_overlap_counter :
    (match opUpdate ⟨overlapSchema, fun _ => 0, fun _ => 0⟩ ⟨overlapDb, []⟩ 0 [[97], []] [[98], []] with
     | .ok w' => (w'.db 2 == [[[107], [98], [120]]]) && (w'.db 1 == [[[97], [120]]]) &&
         !hasKey (w'.db 1) [0, 1] [[98], [120]]
     | .err _ _ => false) = true := by
  decide

/-- (G) the mode bits, the mode tests of `fkeyDeleteBlock` (as reached from `Delete` and from
`update`), of `fkeyDeleteCascade` / `fkeyUpdateCascade` in today's `tran.go`/`schema.go` are the
ones of the model, for every mode value. Fails on a tree without the fix for finding 3. -/
theorem gen_modes :
    Gsu.Gen.FkModes.cBlock = mBlock ∧ Gsu.Gen.FkModes.cCascadeUpdates = mCascadeUpdates ∧
    Gsu.Gen.FkModes.cCascadeDeletes = mCascadeDeletes ∧
    Gsu.Gen.FkModes.cCascade = mCascadeUpdates ||| mCascadeDeletes ∧
    (∀ m, m < 4 → Gsu.Gen.FkModes.deleteBlocks m = deleteBlocks m) ∧
    (∀ m, m < 4 → Gsu.Gen.FkModes.updateBlocks m = updateBlocks m) ∧
    (∀ m, m < 4 → Gsu.Gen.FkModes.cascadesDeletes m = cascadesDeletes m) ∧
    (∀ m, m < 4 → Gsu.Gen.FkModes.skipsUpdates m = !cascadesUpdates m) := by
  decide

/-- (G) the three helpers start with the `key == ""` guard, as the model assumes (`blocked`,
`cascDel`, `cascUpd`). Fails on a tree without the fix for finding 19. -/
theorem gen_guards :
    Gsu.Gen.FkModes.guardDeleteBlock = true ∧ Gsu.Gen.FkModes.guardDeleteCascade = true ∧
    Gsu.Gen.FkModes.guardUpdateCascade = true := by
  decide

end Gsu.Props.C08
