/-
C20 — Dump, load and compact preserve the logical database.

"Dumping any database (or table) and loading the dump, or compacting the database file, produces
a database with the same tables, schema, views and rows as the original, and loading refuses
data that would violate a key or unique index (foreign key data is deliberately not re-checked on
load)."
Quantifier: any database produced by any history, including deleted columns, empty trailing
fields, large records and foreign keys.

The theorems are about `Gsu.Model.Dump` (the definitions `Drive/C20.lean` executes).
Full strength is reached for the record framing (byte level) and for `squeeze` (field level).
The database-level statements are at TOKEN level and therefore `…_partial`: the schema line is
an opaque token (its text syntax and `query.NewAdminParser` are not modelled), a record is its
list of raw fields (the binary record layout is C14), indexes are rebuilt = the duplicate check
only (btree construction is C10), foreign keys are not modelled. Lemmas: `Gsu/Proofs/Dump.lean`.
-/
import Gsu.Proofs.Dump
import Gsu.Gen.Dump
namespace Gsu.Props.C20
open Gsu.Proto Gsu.Dump

/-- Byte level, full: what `readRecords` reads from a table section written by `dumpTable2`
(each record as 4-byte big-endian length + bytes, then a zero length) is exactly the list of
records, and the reader stops exactly at the end of the section — for all records of 1 … 2³²−1
bytes (records are never empty: the empty record is `"\x00"`; the maximum is 1 000 000) and
whatever follows. -/
theorem frame_roundtrip (recs : List Bytes) (rest : Bytes)
    (h : ∀ r ∈ recs, 0 < r.length ∧ r.length < 4294967296) :
    readRecords (writeRecs recs ++ rest) = some (recs, rest) := by
  unfold readRecords
  exact readRecs_writeRecs recs rest h _ (by
    have := length_writeRecs_ge recs
    simp only [List.length_append]; omega)

/-- Field level, full: `squeeze` keeps every live column: the value of physical column `i`
(not deleted) is found at that column's position among the remaining columns; `Trim` only drops
trailing empty fields, which `GetRaw` reports as empty anyway. For every record (shorter or
longer than the column list) and every column list (any number of deleted columns). -/
theorem squeeze_preserves_live_columns (rec : Row) (cols : List String) (i : Nat) (c : String)
    (hi : cols[i]? = some c) (hc : c ≠ "-") :
    getRaw (squeeze rec cols) (liveIdx cols i) = getRaw rec i :=
  squeeze_get rec cols i c hi hc

/-- FULL STATEMENT (not proved): `LoadDatabase (Dump db)` is a database with the same tables,
schema, views and rows as `db`, at the level of files and schema text.
PROVED (token level): loading the token stream of a dump yields exactly the views and, per table,
the normalised table (deleted columns removed from the column list, rows as dump writes them),
provided no normalised table violates a key/unique index; and normalisation preserves every live
column of every row (second part). Missing: schema text round trip, record binary layout, index
construction, foreign keys. -/
theorem load_dump_id_partial (db : Db) (hok : ∀ t ∈ db.tables, tableOk (normTable t) = true) :
    loadDb (dumpDb db) = .ok ⟨db.tables.map normTable, db.views⟩ ∧
    ∀ t ∈ db.tables, (normTable t).cols = liveCols t.cols ∧
      (normTable t).rows.length = t.rows.length ∧
      ∀ (j : Nat) (r : Row), t.rows[j]? = some r → ∀ (i : Nat) (c : String), t.cols[i]? = some c → c ≠ "-" →
        ((normTable t).rows[j]?.map fun r' => getRaw r' (liveIdx t.cols i)) = some (getRaw r i) := by
  refine ⟨loadDb_dumpDb db hok, fun t _ => ⟨rfl, by simp [normTable], ?_⟩⟩
  intro j r hj i c hi hc
  simp only [normTable, List.getElem?_map, hj, Option.map_some]
  rw [dumpRow_get r t.cols i c hi hc]

/-- Loading refuses duplicates, for ANY token stream (not only dumps): every table of a
successfully loaded database satisfies every key and unique index of its schema (a unique index
may repeat only the entirely empty value). -/
theorem load_rejects_dups (toks : List Tok) (db : Db) (h : loadDb toks = .ok db) :
    ∀ t ∈ db.tables, tableOk t = true := by
  unfold loadDb at h
  split at h
  · next rest =>
    split at h
    · cases h
    · next vrows rest' _ =>
      cases hl : loadTables (rest'.length + 1) rest' [] with
      | ok d =>
        rw [hl] at h
        injection h with h; subst h
        exact loadTables_ok_tables _ _ _ d hl (fun _ ht => by cases ht)
      | dup n => rw [hl] at h; cases h
      | bad => rw [hl] at h; cases h
  · cases h

/-- FULL STATEMENT (not proved): `Compact` yields a database file with the same logical content.
PROVED (table level): the compacted table has the live columns, as many rows, and every live
column of every row has its value (rows are squeezed when the table has deleted columns or the
row has a trailing empty field, copied otherwise). Missing as for `load_dump_id_partial`. -/
theorem compact_id_partial (t : Table) :
    (compactTable t).cols = liveCols t.cols ∧ (compactTable t).rows.length = t.rows.length ∧
    (compactTable t).idxs = t.idxs ∧
    ∀ (j : Nat) (r : Row), t.rows[j]? = some r → ∀ (i : Nat) (c : String), t.cols[i]? = some c → c ≠ "-" →
      ((compactTable t).rows[j]?.map fun r' => getRaw r' (liveIdx t.cols i)) = some (getRaw r i) := by
  refine ⟨rfl, by simp [compactTable], rfl, ?_⟩
  intro j r hj i c hi hc
  simp only [compactTable, List.getElem?_map, hj, Option.map_some]
  rw [compactRow_get r t.cols i c hi hc]

/-- Tables with several indexes: dump prints, and load/compact build, the indexes in the order
"chosen one first, then the others in schema order". That order contains every index exactly
once (so the dumped schema has the same indexes), and storing each built index AT ITS OWN
POSITION (`ov[i] = …`) gives every index of the schema its own btree, whichever index is built
first. Storing them in the order built (`append`) does not, as soon as the chosen index is not
index 0 (`…_counter`; this is the seeded change C20-1). -/
theorem index_order_complete (n first : Nat) (hf : first < n) :
    (indexOrder n first).Nodup ∧ (∀ i, i ∈ indexOrder n first ↔ i < n) ∧
    ∀ {α} (built : Nat → α),
      placeByIndex n (indexOrder n first) built = (List.range n).map fun i => some (built i) :=
  ⟨indexOrder_nodup n first,
   fun i => ⟨indexOrder_lt n first i hf, indexOrder_mem n first i hf⟩,
   fun built => placeByIndex_aligned n first hf built⟩

theorem append_misaligns_counter :
    placeByAppend (indexOrder 3 2) (fun i => i) ≠ (List.range 3).map fun i => some i := by decide

-- non-vacuity
example : squeeze [[1], [2], [], [4], []] ["a", "-", "b", "c", "-"] = [[1], [], [4]] := by decide
example : liveIdx ["a", "-", "b", "c", "-"] 3 = 2 := by decide
example : readRecords (writeRecs [[1, 2, 3], [0]] ++ [9, 9]) = some ([[1, 2, 3], [0]], [9, 9]) := by decide
example : loadDb (dumpDb ⟨[⟨"t", ["k", "-", "a"], [⟨.key, ["k"]⟩], [[[1], [7], [2]], [[2]]]⟩], [([118], [100])]⟩)
    = .ok ⟨[⟨"t", ["k", "a"], [⟨.key, ["k"]⟩], [[[1], [2]], [[2]]]⟩], [([118], [100])]⟩ := by decide
example : loadDb [.header, .views, .endRecs, .table "t" ["k"] [⟨.key, ["k"]⟩], .row [[1]], .row [[1]], .endRecs]
    = .dup "t" := by decide

/-- (G) the texts and the small facts the model builds in, re-read from dump.go / load.go /
compact.go: version line, section prefix (the one dump writes is the one load expects), views
header, byte order of `writeInt`, the deleted-column mark, and when dump / compact squeeze. -/
theorem gen_constants :
    Gsu.Gen.Dump.dumpVersion = dumpVersion ∧ Gsu.Gen.Dump.tablePrefix = tablePrefix ∧
    Gsu.Gen.Dump.viewsHeader = viewsHeader ∧
    (∀ p ∈ Gsu.Gen.Dump.loadPrefixes, p = tablePrefix) ∧
    Gsu.Gen.Dump.writeIntShifts = [24, 16, 8, 0] ∧ Gsu.Gen.Dump.deletedMark = deletedMark ∧
    Gsu.Gen.Dump.dumpSqueezeCond = "hasdel" ∧
    Gsu.Gen.Dump.compactSqueezeCond = "hasdel||hasTrailingEmpty" := by
  decide

/-- (G) `buildIndexes` stores each overlay at the position of its index (the premise of
`index_order_complete`), and `LoadDatabase` waits for the index-building workers before it
looks at their error value (otherwise a duplicate found late is not refused); a section is
taken for the views section only if its schema LINE starts with `views ` (the header dump writes
is `views (view_name,…`), not when a table's name merely starts with `views`. -/
theorem gen_load_structure :
    Gsu.Gen.Dump.overlayPlacedByIndex = true ∧ Gsu.Gen.Dump.waitBeforeErrCheck = true ∧
    Gsu.Gen.Dump.viewsSectionTest = "schema|views " :=
  ⟨rfl, rfl, rfl⟩

end Gsu.Props.C20
