/-
C28 (G): the `Ord` constants and the `Order` function of core/value.go (regenerated) are the type
order of the model.
-/
import Gsu.Model.Value
import Gsu.Gen.ValueOrd
namespace Gsu.Props.C28G
open Gsu.Val Gsu.Gen.ValueOrd

/-- the `types.Type` number of a model value -/
def typeOf : Value → Int
  | .bool _ => typesBoolean
  | .num _ => typesNumber
  | .str .except _ => typesExcept
  | .str _ _ => typesString
  | .date _ _ => typesDate
  | .ts _ _ _ => typesDate
  | .obj true _ _ => typesRecord
  | .obj false _ _ => typesObject

theorem gen_ord_constants : ordBool = 0 ∧ ordNum = 1 ∧ ordStr = 2 ∧ ordDate = 3 ∧ ordObject = 4 ∧
    OrdStr = ordStr ∧ ordBool < ordNum ∧ ordNum < ordStr ∧ ordStr < ordDate ∧ ordDate < ordObject := by
  decide

/-- the generated `Order` agrees with the model's `order` on every model value -/
theorem gen_order (v : Value) : Gsu.Gen.ValueOrd.order (typeOf v) = (Val.order v : Int) := by
  cases v with
  | str k s => cases k <;> rfl
  | obj r l n => cases r <;> rfl
  | _ => rfl

end Gsu.Props.C28G
