/-
C36 — Container operations match list and map semantics.

"Object and record operations (add, insert, set, delete, erase, find, size, members, sort,
unique, slicing) behave as an ordered list plus a keyed map, sorting orders by value comparison
and is stable, and read-only objects reject every mutation."
Quantifier: any sequence of container operations with any keys (including integer keys at and
beyond the list size).

The machine is `Gsu.Model.Container` (mirror of core/suobject.go; the same definitions the driver
`drv_c36` executes). The abstract view of a container `c` is its observable map `get c : Key →
Option V` (`getIfPresent`); the list part is *determined* by that map (`split_canonical`): it is
the maximal run 0..n-1 of integer keys, which is what `migrate` maintains (`wf_reachable`).
Each operation is characterised by its effect on the observable map (map laws for Put / Add /
Erase / Delete of a named member / Insert outside the list; list-shift laws for Insert / Delete
inside the list).

Property theorems only; lemmas are in `Gsu/Proofs/Container.lean`.
-/
import Gsu.Proofs.Container
import Gsu.Gen.Container
namespace Gsu.Props.C36
open Gsu.Container

variable {V : Type}

/-! ## representation invariant -/

/-- Every state reachable from the empty container by any sequence of public operations is well
formed: distinct named keys and no integer key in `[0, len]` among the named members — i.e. an
integer key that becomes contiguous with the list has been migrated into it. -/
theorem wf_reachable [DecidableEq V] (srt : List V → List V) (hs : ∀ l, (srt l).Perm l)
    (ops : List (Op V)) : WF (ops.foldl (fun c op => (apply srt c op).1) ({} : Cont V)) :=
  wf_run srt (fun l => (hs l).length_eq) ops

/-- The list/named split is canonical: two well-formed containers with the same observable map
have the same list and the same named members. (So "list ++ map" is a function of the map.) -/
theorem split_canonical {c d : Cont V} (hc : WF c) (hd : WF d) (hg : ∀ k, get c k = get d k) :
    c.list = d.list ∧ ∀ k, nget c.named k = nget d.named k :=
  Gsu.Container.split_canonical hc hd hg

/-- `migrate` never changes what is observable -/
theorem migrate_refines (c : Cont V) (k : Key) : get (migrate c) k = get c k := get_migrate c k

/-! ## per-operation refinement to the map / list specification -/

/-- `Put(k, v)`: a map update, for every key — also `k = len` (appends and migrates) and `k`
inside the list (overwrites) -/
theorem set_refines (c : Cont V) (k k' : Key) (v : V) :
    get (setRaw c k v) k' = if k' = k then some v else get c k' := get_setRaw c k k' v

/-- `Add(v)` is `Put(len, v)` -/
theorem add_refines (c : Cont V) (v : V) (k' : Key) :
    get (addRaw c v) k' = if k' = .int c.list.length then some v else get c k' := get_addRaw c v k'

/-- `Erase(k)` is the map delete for every key (list members after an erased index keep their
keys: they move to the named part) and reports whether the key was present -/
theorem erase_refines (c : Cont V) (hwf : WF c) (k k' : Key) :
    get (eraseRaw c k).1 k' = (if k' = k then none else get c k') ∧
    (eraseRaw c k).2 = (get c k).isSome :=
  ⟨get_eraseRaw c hwf k k', eraseRaw_result c k⟩

/-- `Delete(k)` of a key outside the list is the map delete -/
theorem delete_named_refines (c : Cont V) (k k' : Key)
    (hk : ∀ i, k = .int i → ¬ inRange i c.list.length = true) :
    get (deleteRaw c k).1 k' = (if k' = k then none else get c k') ∧
    (deleteRaw c k).2 = (get c k).isSome := get_deleteRaw_named c k k' hk

/-- `Delete(i)` inside the list is the list delete: `list.eraseIdx i`, named members untouched;
on the observable map: following list members move down by one and the last index disappears -/
theorem delete_list_refines (c : Cont V) (hwf : WF c) (i : Int) (h : inRange i c.list.length = true) :
    ((deleteRaw c (.int i)).1.list = c.list.eraseIdx i.toNat ∧
     (deleteRaw c (.int i)).1.named = c.named ∧ (deleteRaw c (.int i)).2 = true) ∧
    ∀ k', get (deleteRaw c (.int i)).1 k' =
      match k' with
      | .int j =>
        if 0 ≤ j ∧ j < i then get c (.int j)
        else if i ≤ j ∧ j + 1 < c.list.length then get c (.int (j + 1))
        else if j + 1 = c.list.length then none
        else get c (.int j)
      | .str s => get c (.str s) :=
  ⟨deleteRaw_list c i h, get_deleteRaw_list c hwf i h⟩

/-- `Insert(at, v)` with `0 ≤ at ≤ len` is the list insert (members from `at` on move up) -/
theorem insert_list_refines (c : Cont V) (a : Int) (v : V) (h : 0 ≤ a ∧ a ≤ c.list.length) (k' : Key) :
    get (insertRaw c a v) k' =
      match k' with
      | .int j =>
        if 0 ≤ j ∧ j < a then get c (.int j)
        else if j = a then some v
        else if a < j ∧ j ≤ c.list.length then get c (.int (j - 1))
        else get c (.int j)
      | .str s => get c (.str s) := get_insertRaw_list c a v h k'

/-- `Insert(at, v)` outside the list (negative or beyond the size) is `Put(at, v)` -/
theorem insert_outside_refines (c : Cont V) (a : Int) (v : V) (h : ¬ (0 ≤ a ∧ a ≤ c.list.length))
    (k' : Key) : get (insertRaw c a v) k' = if k' = .int a then some v else get c k' :=
  get_insertRaw_outside c a v h k'

/-- `Size` / `Members`: the members are exactly the keys that `get` finds, each once, and
`Size` counts them -/
theorem size_members {c : Cont V} (hc : WF c) :
    (members c).Nodup ∧ (∀ k, k ∈ members c ↔ (get c k).isSome = true) ∧
    size c = (members c).length :=
  ⟨nodup_members hc, mem_members_iff c, size_eq_members c⟩

/-- `Find(v)`: a returned key holds `v`; a list hit is the first list occurrence; `false` means no
member holds `v` -/
theorem find_spec [DecidableEq V] {c : Cont V} (hc : WF c) (v : V) :
    (∀ k, find c v = some k → get c k = some v) ∧
    (∀ i, findIdx v c.list 0 = some i → find c v = some (.int i) ∧ ∀ j, j < i → c.list[j]? ≠ some v) ∧
    (find c v = none → ∀ k, get c k ≠ some v) := by
  refine ⟨?_, ?_, ?_⟩
  · intro k h
    simp only [find] at h
    cases hi : findIdx v c.list 0 with
    | some i =>
      simp only [hi, Option.some.injEq] at h; subst h
      have := findIdx_some v c.list 0 i hi
      have hlt : i < c.list.length := by
        have := this.2.1; simp only [Nat.sub_zero] at this
        exact (List.getElem?_eq_some_iff.1 this).1
      rw [get_list_of_lt c i hlt]; simpa using this.2.1
    | none =>
      simp only [hi] at h
      have hn := findNamed_some v c.named hc.nodup k h
      cases k with
      | str s => exact hn
      | int j =>
        simp only [Container.get]
        by_cases hr : inRange j c.list.length = true
        · have hr' := (inRange_iff _ _).1 hr
          rw [hc.noInt j hr'.1 (by omega)] at hn; cases hn
        · simpa [hr] using hn
  · intro i hi
    have := findIdx_some v c.list 0 i hi
    exact ⟨by simp [find, hi], by simpa using this.2.2⟩
  · intro h k
    simp only [find] at h
    cases hi : findIdx v c.list 0 with
    | some i => simp [hi] at h
    | none =>
      simp only [hi] at h
      have h1 := findIdx_none v c.list 0 hi
      have h2 := findNamed_none v c.named h
      cases k with
      | str s => exact h2 _
      | int j =>
        simp only [Container.get]
        split
        · intro e; exact h1 (List.mem_of_getElem? e)
        · exact h2 _

/-! ## sort -/

/-- `Sort` (parameterised by the contract `StableSort le srt` of `slices.SortStableFunc`): the new
list is a permutation of the old one, ordered by the value comparison, and stable (every already
ordered subsequence — in particular any run of elements that compare equal — keeps its order);
named members and the read-only flag are untouched. -/
theorem sort_stable_perm_sorted [DecidableEq V] (le : V → V → Bool) (srt : List V → List V)
    (hs : StableSort le srt) (c : Cont V) (hro : c.readonly = false) :
    let c' := (apply srt c .sort).1
    c'.list.Perm c.list ∧ c'.list.Pairwise (fun a b => le a b = true) ∧
    (∀ ys : List V, ys.Pairwise (fun a b => le a b = true) → ys.Sublist c.list → ys.Sublist c'.list) ∧
    c'.named = c.named ∧ c'.readonly = c.readonly := by
  simp only [apply, hro, Bool.false_eq_true, if_false]
  exact ⟨hs.perm _, hs.sorted _, hs.stable _, trivial, trivial⟩

/-- The sorts the driver executes (`List.mergeSort` with the mirror of `Value.Compare`, and with
the order induced by the `lt` callable of the suite) satisfy the contract. -/
theorem driver_sort_contract :
    StableSort leVal (stableSort leVal) ∧ StableSort leDesc (stableSort leDesc) :=
  ⟨mergeSort_stableSort leVal leVal_trans leVal_total,
   mergeSort_stableSort leDesc leDesc_trans leDesc_total⟩

-- non-vacuity: a tie (two values comparing equal, not equal) is kept in order by the driver's sort
example : leVal ⟨2, 1⟩ ⟨2, 2⟩ = true ∧ leVal ⟨2, 2⟩ ⟨2, 1⟩ = true ∧ (⟨2, 1⟩ : Val) ≠ ⟨2, 2⟩ := by decide

/-- `Unique`: the result is a subsequence of the list with no two adjacent equal members and the
same set of members -/
theorem unique_spec [DecidableEq V] (l : List V) :
    (unique l).Sublist l ∧ NoAdjEq (unique l) ∧ ∀ x, x ∈ unique l ↔ x ∈ l :=
  ⟨unique_sublist l, noAdj_unique l, mem_unique l⟩

/-! ## read-only -/

/-- A read-only container rejects every mutation: no public operation changes it, and every
operation that would change something answers "can't modify readonly objects". -/
theorem readonly_rejects [DecidableEq V] (srt : List V → List V) (c : Cont V) (h : c.readonly = true)
    (op : Op V) :
    (apply srt c op).1 = c ∧ (op.mutates c = true → (apply srt c op).2 = .readonlyErr) :=
  ⟨readonly_state srt c h op, readonly_error srt c h op⟩

-- non-vacuity: a read-only, non-empty container exists and is reachable
example : (apply (stableSort leVal) (apply (stableSort leVal) {} (.add ⟨1, 0⟩)).1 .setReadonly).1.readonly = true := rfl

/-! ## slicing -/

/-- (G) the range index arithmetic of `core/ops.go` (translated from the source) is the one the
model uses -/
theorem gen_prep (a b s : Int) :
    Gsu.Gen.Container.prepFrom a s = prepFrom a s ∧ Gsu.Gen.Container.prepTo a b s = prepTo a b s ∧
    Gsu.Gen.Container.prepLen a s = prepLen a s := by
  refine ⟨?_, ?_, ?_⟩
  · simp only [Gsu.Gen.Container.prepFrom, prepFrom, decide_eq_true_eq]; grind
  · simp only [Gsu.Gen.Container.prepTo, prepTo, decide_eq_true_eq]; grind
  · simp only [Gsu.Gen.Container.prepLen, prepLen, decide_eq_true_eq]

/-- (G) stated about the generated functions: the bounds handed to `rangeTo` are always inside
the list (`0 ≤ from ≤ to ≤ size`), so `ob[i..j]` / `ob[i::n]` never index out of range -/
theorem gen_range_in_bounds (frm to n size : Int) (hs : 0 ≤ size) :
    let f := Gsu.Gen.Container.prepFrom frm size
    (0 ≤ f ∧ f ≤ size) ∧
    (f ≤ Gsu.Gen.Container.prepTo f to size ∧ Gsu.Gen.Container.prepTo f to size ≤ size) ∧
    (0 ≤ Gsu.Gen.Container.prepLen n (size - f) ∧ f + Gsu.Gen.Container.prepLen n (size - f) ≤ size) := by
  simp only [Gsu.Gen.Container.prepFrom, Gsu.Gen.Container.prepTo, Gsu.Gen.Container.prepLen,
    decide_eq_true_eq]
  grind

/-- `ob[from..to]`: exactly the list members with index in `[from', to')`, no named members,
not read-only -/
theorem range_spec (c : Cont V) (frm to : Int) :
    let f := prepFrom frm c.list.length
    let t := prepTo f to c.list.length
    (rangeToOp c frm to).list = (c.list.take t.toNat).drop f.toNat ∧
    (rangeToOp c frm to).named = [] ∧ (rangeToOp c frm to).readonly = false :=
  ⟨rfl, rfl, rfl⟩

/-- (G) every exported `*SuObject` method that (transitively) assigns `list`/`named`/`defval` or
calls a mutating method of `named` also reaches `mustBeMutable` — the table is regenerated from
core/suobject.go, so a new mutator without the guard breaks this theorem. -/
theorem gen_mutators_guarded :
    ∀ e ∈ Gsu.Gen.Container.guardTable, e.2.1 = true → e.2.2 = true := by decide

/-- (G) the mutators the model guards are in the generated table as guarded writers -/
theorem gen_modelled_mutators :
    ∀ m ∈ ["Add", "Put", "Set", "Insert", "Delete", "Erase", "PopFirst", "PopLast", "Sort", "Unique",
           "Reverse", "DeleteAll"], (m, true, true) ∈ Gsu.Gen.Container.guardTable := by decide

end Gsu.Props.C36
