/-
C13 — Packed values round-trip, are canonical and sort like values.

"Packing any storable value and unpacking it returns an equal value, equal scalar values (however
they are represented internally) pack to identical bytes, and for booleans, numbers, non-empty
strings, dates and timestamps the byte order of packed values equals the language's value order.
The empty string packs to the smallest encoding."

Property theorems only; helper lemmas live in `Gsu/Proofs/Pack.lean`. The definitions
(`packDnum`, `packInt`, `unpackNumber`, `unpack`, `cmpDnum`, …) are the executable mirror
`Gsu/Model/Pack.lean` that the driver runs against the Go code.
-/
import Gsu.Proofs.Pack
import Gsu.Proofs.PackUnpack
import Gsu.Proofs.PackRound
import Gsu.Proofs.PackTree
import Gsu.Gen.Pack
namespace Gsu.Props.C13
open Gsu.Proto Gsu.Pack

/-! ## (G) regenerated constants -/

/-- The pack tags of `core/pack.go` today are strictly increasing in the order
False < True < Minus < Plus < String < Date < Object < Record (this order is the order of packed
values of different types), and they are the tags the model uses. -/
theorem tag_order :
    Gsu.Gen.Pack.tagsInOrder.Pairwise (· < ·) ∧
    Gsu.Gen.Pack.tagsInOrder =
      [tagFalse, tagTrue, tagMinus, tagPlus, tagString, tagDate, tagObject, tagRecord].map (·.toNat) := by
  decide

/-- The divisors of the unrolled coefficient loop of `SuDnum.Pack` are 100^7 … 100^1 (what
`coefBytes 7` divides by), the dnum coefficient range is the model's, the nesting limit is 16. -/
theorem gen_constants :
    [Gsu.Gen.Pack.cE14, Gsu.Gen.Pack.cE12, Gsu.Gen.Pack.cE10, Gsu.Gen.Pack.cE8, Gsu.Gen.Pack.cE6,
      Gsu.Gen.Pack.cE4, Gsu.Gen.Pack.cE2] = [100 ^ 7, 100 ^ 6, 100 ^ 5, 100 ^ 4, 100 ^ 3, 100 ^ 2, 100 ^ 1] ∧
    Gsu.Gen.Pack.coefMin = coefMin ∧ Gsu.Gen.Pack.coefMax = coefMax ∧
    Gsu.Gen.Pack.digitsMax = 16 ∧ Gsu.Gen.Pack.nestingLimit = 16 := by
  decide

/-- packed values of different types sort by their tag -/
theorem type_order (t1 t2 : UInt8) (a b : Bytes) (h : t1 < t2) : cmpB (t1 :: a) (t2 :: b) = .lt := by
  simp [cmpB, h]

/-! ## order: numbers -/

/-- Positive normalised numbers (any 16-digit coefficient, any int8 exponent): the byte order of
the packed values is `dnum.Compare`. -/
theorem pack_order_nonneg (x y : Dnum) (hx : x.Norm) (hy : y.Norm) (sx : x.sign = 1) (sy : y.sign = 1) :
    cmpB (packDnum x) (packDnum y) = cmpDnum x y :=
  Gsu.Pack.pack_order_pos x y hx hy sx sy

example : (⟨1, 1500000000000000, 1⟩ : Dnum).Norm ∧ (⟨1, 1550000000000000, -3⟩ : Dnum).Norm := by decide

/-- zero sorts below every positive number, every negative number below zero and the positive ones -/
theorem pack_order_zero_sign (x y : Dnum) :
    (0 < y.sign → cmpB (packDnum ⟨0, 0, 0⟩) (packDnum y) = .lt) ∧
    (x.sign < 0 → 0 ≤ y.sign → cmpB (packDnum x) (packDnum y) = .lt) :=
  ⟨Gsu.Pack.pack_zero_lt_pos y, Gsu.Pack.pack_neg_lt_nonneg x y⟩

/-- the infinities are the extremes: every positive number is below +inf, -inf below every
negative number -/
theorem pack_order_inf (x : Dnum) (hx : x.Norm) :
    (x.sign = 1 → cmpB (packDnum x) (packDnum ⟨2, 1, 0⟩) = .lt) ∧
    (x.sign = -1 → cmpB (packDnum ⟨-2, 1, 0⟩) (packDnum x) = .lt) :=
  ⟨Gsu.Pack.pack_lt_posInf x hx, Gsu.Pack.negInf_lt_pack x hx⟩

/-- FULL statement (false of the current code, finding 9): for all negative normalised x y,
`cmpB (packDnum x) (packDnum y) = cmpDnum x y`.
PROVED: the same with the excluding hypothesis "when the exponents are equal and the coefficients
differ, neither digit-pair string is a prefix of the other". What is missing is exactly the case
described by `pack_order_neg_prefix` below (a stored-format property, open known finding). -/
theorem pack_order_neg_partial (x y : Dnum) (hx : x.Norm) (hy : y.Norm)
    (sx : x.sign = -1) (sy : y.sign = -1)
    (hpre : x.exp = y.exp → x.coef ≠ y.coef →
      ¬ coefBytes 7 x.coef <+: coefBytes 7 y.coef ∧ ¬ coefBytes 7 y.coef <+: coefBytes 7 x.coef) :
    cmpB (packDnum x) (packDnum y) = cmpDnum x y :=
  Gsu.Pack.pack_order_neg x y hx hy sx sy hpre

-- the hypothesis is satisfiable by two close negative numbers (-1.5 and -1.6)
example : (⟨-1, 1500000000000000, 1⟩ : Dnum).Norm ∧ (⟨-1, 1600000000000000, 1⟩ : Dnum).Norm ∧
    ¬ coefBytes 7 1500000000000000 <+: coefBytes 7 1600000000000000 ∧
    ¬ coefBytes 7 1600000000000000 <+: coefBytes 7 1500000000000000 := by decide

/-- The exception characterised: negative, equal exponents, the digit-pair string of `x` a proper
prefix of that of `y`. Then `x > y` as numbers but `Pack x < Pack y` (always, not only for the
witness). -/
theorem pack_order_neg_prefix (x y : Dnum) (hx : x.Norm) (hy : y.Norm) (sx : x.sign = -1)
    (sy : y.sign = -1) (he : x.exp = y.exp) (hne : x.coef ≠ y.coef)
    (hpre : coefBytes 7 x.coef <+: coefBytes 7 y.coef) :
    cmpB (packDnum x) (packDnum y) = .lt ∧ cmpDnum x y = .gt :=
  Gsu.Pack.pack_order_neg_prefix x y hx hy sx sy he hne hpre

/-- finding 9, the concrete witness: -1.5 > -1.55 but Pack(-1.5) < Pack(-1.55). -/
theorem pack_order_neg_counter :
    cmpDnum ⟨-1, 1500000000000000, 1⟩ ⟨-1, 1550000000000000, 1⟩ = .gt ∧
    cmpB (packDnum ⟨-1, 1500000000000000, 1⟩) (packDnum ⟨-1, 1550000000000000, 1⟩) = .lt := by
  decide

/-! ## order: strings, booleans, dates, timestamps; the empty string -/

/-- The empty string packs to the empty (smallest) encoding. -/
theorem empty_smallest : packStr [] = [] ∧ ∀ b : Bytes, b ≠ [] → cmpB (packStr []) b = .lt := by
  refine ⟨rfl, fun b hb => ?_⟩
  cases b with
  | nil => exact absurd rfl hb
  | cons x xs => rfl

/-- non-empty strings: byte order of the packed values = byte order of the strings -/
theorem string_order (a b : Bytes) (ha : a ≠ []) (hb : b ≠ []) :
    cmpB (packStr a) (packStr b) = cmpB a b := by
  simp [packStr, ha, hb, Gsu.Pack.cmpB_cons_same]

theorem bool_order : cmpB (packBool false) (packBool true) = .lt := by decide

/-- dates: byte order = order of (date word, time word); `field_pack_monotone` (C33) relates the
words to the calendar fields -/
theorem date_order (d1 t1 d2 t2 : Nat) (h1 : d1 < 4294967296) (h2 : t1 < 4294967296)
    (h3 : d2 < 4294967296) (h4 : t2 < 4294967296) :
    cmpB (packDate d1 t1) (packDate d2 t2) = cmpDT d1 t1 0 d2 t2 0 := by
  have := Gsu.Pack.cmpB_packDate d1 t1 d2 t2 h1 h2 h3 h4 [] []
  simp only [List.append_nil] at this
  rw [this]; simp [cmpDT, cmpNat, cmpB]

/-- timestamps among themselves and against plain dates (`CompareSuTimestamp`: a date is a
timestamp with extra = 0) -/
theorem timestamp_order (d1 t1 x1 d2 t2 x2 : Nat) (h1 : d1 < 4294967296) (h2 : t1 < 4294967296)
    (h3 : d2 < 4294967296) (h4 : t2 < 4294967296) (hx1 : 0 < x1 ∧ x1 < 256) (hx2 : 0 < x2 ∧ x2 < 256) :
    cmpB (packTs d1 t1 x1) (packTs d2 t2 x2) = cmpDT d1 t1 x1 d2 t2 x2 ∧
    cmpB (packDate d1 t1) (packTs d2 t2 x2) = cmpDT d1 t1 0 d2 t2 x2 := by
  have a := Gsu.Pack.cmpB_packDate d1 t1 d2 t2 h1 h2 h3 h4 [UInt8.ofNat x1] [UInt8.ofNat x2]
  have b := Gsu.Pack.cmpB_packDate d1 t1 d2 t2 h1 h2 h3 h4 [] [UInt8.ofNat x2]
  simp only [List.append_nil] at b
  have e1 : (UInt8.ofNat x1).toNat = x1 := by rw [UInt8.toNat_ofNat']; omega
  have e2 : (UInt8.ofNat x2).toNat = x2 := by rw [UInt8.toNat_ofNat']; omega
  constructor
  · simp only [packTs]; rw [a]; simp [cmpDT, cmpNat, cmpB, UInt8.lt_iff_toNat_lt, e1, e2]
  · simp only [packTs]; rw [b]
    have : 0 < x2 := hx2.1
    simp [cmpDT, cmpNat, cmpB, this]

/-! ## round trip and canonical form of numbers
Proved in full (developments in `Gsu/Proofs/PackDigits.lean`, `PackUnpack.lean`, `PackInt.lean`,
`PackRound.lean`): `pack_canonical`, `packInt_unpack` (every int64), `packDnum_unpack` (every
normalised finite number: itself, or the int64 of equal value exactly on `intable`'s path),
`packDnum_unpack_exact` (exactly when which), `number_roundtrip` (through `Unpack`'s tag
dispatch), `packDnum_unpack_bigexp`.
Containers (`Gsu/Proofs/PackContainer.lean`, `PackTree.lean`): `container_roundtrip` (one framing
level, every member list), `container_roundtrip_nested` (every tree of packed values up to the
nesting limit, by induction over the tree). -/

/-- Equal scalars, identical bytes: an integer of at most 16 digits packs to the same bytes as
SuInt64 (`packInt`) and as smi / integer-valued SuDnum (`FromInt` + `SuDnum.Pack`). -/
theorem pack_canonical (n : Int) (h0 : n ≠ 0) (h : n.natAbs ≤ coefMax) :
    packInt n = packDnum (fromInt n) :=
  Gsu.Pack.pack_canonical n h0 h

example : (-120000 : Int) ≠ 0 ∧ (-120000 : Int).natAbs ≤ coefMax ∧ packInt 0 = packDnum (fromInt 0) := by
  decide

/-- FULL round trip of `SuDnum.Pack` / `UnpackNumber`: a finite normalised number (any 16-digit
coefficient, any int8 exponent, either sign) unpacks as exactly itself, or — on `intable`'s path:
exponent 0…19, integer-valued, inside the int64 range — as the int64 `n` of equal value
(`|n|·10^16 = coef·10^exp`, i.e. `n = ±0.coef·10^exp`, with the sign of `d`). It never unpacks as
an infinity, an error, or a different number. -/
theorem packDnum_unpack (d : Dnum) (h : d.Norm) :
    unpackNumber (packDnum d) = .dnum d ∨
      ∃ n : Int, unpackNumber (packDnum d) = .int n ∧ 0 ≤ d.exp ∧ d.exp ≤ 19 ∧
        n.natAbs * 10 ^ 16 = d.coef * 10 ^ d.exp.toNat ∧ (n < 0 ↔ d.sign < 0) ∧
        -9223372036854775808 ≤ n ∧ n ≤ 9223372036854775807 :=
  Gsu.Pack.unpack_packDnum_full d h

/-- EXACTLY when which: if the value of `d` is an integer `n` of the int64 range
(`|n|·10^16 = coef·10^exp`, `exp ≥ 0`, same sign) then `d` unpacks as that integer; if there is no
such integer it unpacks as exactly `d`. Together with `packDnum_unpack` this determines
`UnpackNumber ∘ SuDnum.Pack` on every normalised finite number. -/
theorem packDnum_unpack_exact (d : Dnum) (h : d.Norm) :
    (∀ n : Int, -9223372036854775808 ≤ n → n ≤ 9223372036854775807 → 0 ≤ d.exp →
      n.natAbs * 10 ^ 16 = d.coef * 10 ^ d.exp.toNat → (n < 0 ↔ d.sign < 0) →
      unpackNumber (packDnum d) = .int n) ∧
    ((¬ ∃ n : Int, -9223372036854775808 ≤ n ∧ n ≤ 9223372036854775807 ∧ 0 ≤ d.exp ∧
        n.natAbs * 10 ^ 16 = d.coef * 10 ^ d.exp.toNat ∧ (n < 0 ↔ d.sign < 0)) →
      unpackNumber (packDnum d) = .dnum d) :=
  ⟨fun n h1 h2 he hv hs => Gsu.Pack.unpack_packDnum_int d h n h1 h2 he hv hs,
   Gsu.Pack.unpack_packDnum_nonint d h⟩

-- both hypotheses are satisfiable: -0.12e5 = -12000; 0.15e1 = 1.5 is not an integer
example : (⟨-1, 1200000000000000, 5⟩ : Dnum).Norm ∧
    (12000 : Nat) * 10 ^ 16 = 1200000000000000 * 10 ^ (5 : Int).toNat := by decide
example : unpackNumber (packDnum ⟨1, 1500000000000000, 1⟩) = .dnum ⟨1, 1500000000000000, 1⟩ := by decide

/-- Through the tag dispatch of `Unpack`: a packed int64 comes back as that integer, a packed
normalised finite number as the number `packDnum_unpack` describes (never an error). -/
theorem number_roundtrip (n : Int) (h1 : -9223372036854775808 ≤ n) (h2 : n ≤ 9223372036854775807)
    (d : Dnum) (h : d.Norm) :
    unpack (packInt n) = .num (.int n) ∧ unpack (packDnum d) = .num (unpackNumber (packDnum d)) :=
  ⟨Gsu.Pack.unpack_packInt n h1 h2, Gsu.Pack.unpack_packDnum_num d h⟩

/-- Full round trip for every finite number whose exponent is outside 0…19 (fractions < 0.1,
magnitudes ≥ 1e19, in particular the extreme exponents −128 and +127). -/
theorem packDnum_unpack_bigexp (d : Dnum) (h : d.Norm) (he : d.exp < 0 ∨ 19 < d.exp) :
    unpackNumber (packDnum d) = .dnum d :=
  Gsu.Pack.unpack_packDnum_bigexp d h he

example : (⟨-1, 9999999999999999, 127⟩ : Dnum).Norm ∧ (19 : Int) < 127 := by decide

/-- FULL integer round trip: every int64 packed by `SuInt64.Pack` (`packInt`) unpacks through
`UnpackNumber` (`intable` + `unpackInt`) as itself — including MinInt64, MaxInt64 and the numbers
whose digit pairs are a proper prefix of MinInt64's (finding 26; `intable` is the repaired test). -/
theorem packInt_unpack (n : Int) (h1 : -9223372036854775808 ≤ n) (h2 : n ≤ 9223372036854775807) :
    unpackNumber (packInt n) = .int n :=
  Gsu.Pack.packInt_unpack n h1 h2

example : unpackNumber (packInt (-9223372036854775800)) = .int (-9223372036854775800) :=
  packInt_unpack _ (by decide) (by decide)

theorem packDnum_unpack_instances :
    unpackNumber (packDnum ⟨1, 1500000000000000, 1⟩) = .dnum ⟨1, 1500000000000000, 1⟩ ∧
    unpackNumber (packDnum ⟨-1, 1234567890123456, -128⟩) = .dnum ⟨-1, 1234567890123456, -128⟩ ∧
    unpackNumber (packDnum ⟨1, 9999999999999999, 127⟩) = .dnum ⟨1, 9999999999999999, 127⟩ ∧
    unpackNumber (packDnum ⟨-1, 1200000000000000, 5⟩) = .int (-12000) ∧
    unpackNumber (packDnum ⟨1, 9223372036854775, 19⟩) = .int 9223372036854775000 ∧
    unpackNumber (packDnum ⟨2, 1, 0⟩) = .dnum ⟨2, 1, 0⟩ ∧
    unpackNumber (packDnum ⟨-2, 1, 0⟩) = .dnum ⟨-2, 1, 0⟩ ∧
    unpackNumber (packDnum ⟨0, 0, 0⟩) = .int 0 := by
  decide

/-! ## round trip of containers -/

/-- FULL container round trip, one framing level: for EVERY list of packed members and every list
of packed key/value pairs, `unpackObject` on the output of `SuObject.pack` returns exactly these
members (varint counts, varint-length framed members, the one-byte form of the empty container).
The only side conditions are that the counts and member lengths fit the 10 byte varint (below
2^70; a Go `int` always is). Members are arbitrary byte strings — scalars or packed containers. -/
theorem container_roundtrip (tag : UInt8) (list : List Bytes) (named : List (Bytes × Bytes))
    (hl : list.length < 128 ^ 10) (hn : named.length < 128 ^ 10)
    (hml : ∀ m ∈ list, m.length < 128 ^ 10)
    (hmn : ∀ kv ∈ named, kv.1.length < 128 ^ 10 ∧ kv.2.length < 128 ^ 10) :
    unpackObj (packObj tag list named) = some (list, named) :=
  Gsu.Pack.unpackObj_packObj tag list named hl hn hml hmn

-- the former `container_roundtrip_partial` instances (2-byte varint member, empty member, empty record)
example :
    unpackObj (packObj tagObject [[3, 129, 10], [], packStr [97, 98]] [(packStr [107], [3])]) =
      some ([[3, 129, 10], [], packStr [97, 98]], [(packStr [107], [3])]) ∧
    unpackObj (packObj tagRecord [] []) = some ([], []) := by
  decide

/-- FULL nested round trip, by induction over the tree with the nesting limit: a tree of values
(leaves = packed scalars, i.e. bytes not starting with the object/record tag; nodes = objects or
records with list and named members, keys included) packed bottom-up with `packObj` and unpacked
top-down with `unpackObj` comes back as the same tree, for every tree of at most `nestingLimit`
(= 16, regenerated) container levels — the trees `packSize` accepts. `packTree`/`unpackTree`
(`Gsu/Proofs/PackTree.lean`) only compose the model's one-level functions along the tree. -/
theorem container_roundtrip_nested (t : PTree) (ok : TreeOK t)
    (hd : depth t ≤ Gsu.Gen.Pack.nestingLimit) :
    unpackTree Gsu.Gen.Pack.nestingLimit (packTree t) = some t :=
  Gsu.Pack.tree_roundtrip_limit t ok hd

/-- the same with any budget of container levels that covers the tree; a deeper tree is refused -/
theorem container_roundtrip_depth (t : PTree) (b : Nat) (ok : TreeOK t) :
    (depth t ≤ b → unpackTree b (packTree t) = some t) ∧
    (b < depth t → unpackTree b (packTree t) = none) :=
  ⟨Gsu.Pack.unpackTree_packTree t b ok, Gsu.Pack.unpackTree_overflow t b ok⟩

-- non-vacuity: a record inside an object inside an object, with a named member whose key is a string
example : TreeOK (.node false (.cons (.node false (.cons (.node true .nil
      (.cons (.leaf (packStr [107])) (.leaf [3, 129, 10]) .nil)) .nil) .nil) (.cons (.leaf []) .nil)) .nil) ∧
    depth (.node false (.cons (.node false (.cons (.node true .nil
      (.cons (.leaf (packStr [107])) (.leaf [3, 129, 10]) .nil)) .nil) .nil) (.cons (.leaf []) .nil)) .nil) = 3 := by
  refine ⟨?_, by decide⟩
  simp only [TreeOK, ListOK, NamedOK, PList.length, PNamed.length]
  decide

/-! ## round trip: strings, booleans, dates, timestamps -/

theorem string_roundtrip (s : Bytes) : unpack (packStr s) = .str s := by
  cases s with
  | nil => rfl
  | cons x xs =>
    simp [packStr, unpack, show tagString ≠ tagFalse by decide, show tagString ≠ tagTrue by decide]

theorem bool_roundtrip (b : Bool) : unpack (packBool b) = .bool b := by
  cases b <;> decide

theorem date_roundtrip (d t : Nat) (h1 : d < 4294967296) (h2 : t < 4294967296) :
    unpack (packDate d t) = .date d t := by
  have := Gsu.Pack.unpackDate_packDate d t h1 h2
  rw [show packDate d t = tagDate :: (be32 d ++ be32 t) from rfl] at this ⊢
  simp only [unpack, show tagDate ≠ tagFalse by decide, show tagDate ≠ tagTrue by decide,
    show tagDate ≠ tagString by decide, if_false, if_true, this]

theorem timestamp_roundtrip (d t x : Nat) (h1 : d < 4294967296) (h2 : t < 4294967296)
    (hx : 0 < x ∧ x < 256) : unpack (packTs d t x) = .ts d t x := by
  have := Gsu.Pack.unpackDate_packTs d t x h1 h2 hx
  rw [show packTs d t x = tagDate :: (be32 d ++ be32 t ++ [UInt8.ofNat x]) from rfl] at this ⊢
  simp only [unpack, show tagDate ≠ tagFalse by decide, show tagDate ≠ tagTrue by decide,
    show tagDate ≠ tagString by decide, if_false, if_true, this]
  cases x with
  | zero => omega
  | succ n => rfl

end Gsu.Props.C13
