/-
C42  Transaction blocks commit exactly when the block completes

"A transaction given a block is completed if the block finishes normally (including returning
from the enclosing function) and rolled back if the block throws, and the exception still
propagates."

`Gsu.TxnBlock.leave` is the deferred function of builtin/transaction.go `Transaction` with its
two conditions and branch order regenerated from the source (`Gsu.Gen.TxnBlock`); it is the
definition `Drive/C42.lean` runs against real Suneido block bodies.
-/
import Gsu.Model.TxnBlock
namespace Gsu.Props.C42
open Gsu.TxnBlock

/-- (G) the regenerated conditions are the intended ones: roll back iff an exception other than
    a block return is in flight; re-raise iff anything is in flight. -/
theorem gen_conditions (eNil eBR : Bool) :
    Gsu.Gen.TxnBlock.guardNotEnded = true ∧
    (if Gsu.Gen.TxnBlock.thenIsRollback then Gsu.Gen.TxnBlock.cond1 eNil eBR
     else !Gsu.Gen.TxnBlock.cond1 eNil eBR) = (!eNil && !eBR) ∧
    Gsu.Gen.TxnBlock.condRepanic eNil eBR = !eNil := by
  cases eNil <;> cases eBR <;> decide

/-- `txn_block_outcome`, the decision table for a block that does not end the transaction
    itself: normal completion and `return` commit (a `return` keeps propagating to the
    enclosing function); throw, break and continue roll back and keep propagating.
    If the commit itself fails (conflict) the transaction is rolled back and
    "transaction.Complete failed" is raised. -/
theorem txn_block_outcome (exit : Exit) (commitOk : Bool) :
    leave .active exit commitOk =
      match exit with
      | .normal => if commitOk then ⟨.committed, .none⟩ else ⟨.rolledBack, .completeFailed⟩
      | .blockReturn => if commitOk then ⟨.committed, .same⟩ else ⟨.rolledBack, .completeFailed⟩
      | .throw => ⟨.rolledBack, .same⟩
      | .blockBreak => ⟨.rolledBack, .same⟩
      | .blockContinue => ⟨.rolledBack, .same⟩ := by
  cases exit <;> cases commitOk <;> decide

/-- the property as worded: committed exactly when the block finishes normally or returns (and
    the commit succeeds); whatever was in flight when the block was left still propagates unless
    the commit failure replaces it. -/
theorem commit_iff_completes (exit : Exit) (commitOk : Bool) :
    ((leave .active exit commitOk).db = .committed ↔
      (exit = .normal ∨ exit = .blockReturn) ∧ commitOk = true) ∧
    (exit ≠ .normal → (leave .active exit commitOk).raised ≠ .none) ∧
    (exit = .normal ∧ commitOk = true → (leave .active exit commitOk).raised = .none) := by
  cases exit <;> cases commitOk <;> decide

/-- a block that ended the transaction itself (`t.Complete()` / `t.Rollback()`): the deferred
    function leaves it alone and whatever is in flight propagates. -/
theorem explicit_end_respected (exit : Exit) (commitOk : Bool) :
    leave .completed exit commitOk = ⟨.committed, if exit = .normal then .none else .same⟩ ∧
    leave .aborted exit commitOk = ⟨.rolledBack, if exit = .normal then .none else .same⟩ := by
  cases exit <;> cases commitOk <;> decide

/-- non-vacuity: both database outcomes and all three `raised` values occur -/
example : (leave .active .normal true).db = .committed ∧ (leave .active .throw true).db = .rolledBack ∧
    (leave .active .blockReturn true).raised = .same ∧ (leave .active .normal false).raised = .completeFailed := by
  decide

end Gsu.Props.C42
