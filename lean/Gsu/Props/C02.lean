/-
C02 — Transactions read a stable snapshot.

"A read transaction sees exactly the database state that was current when it started, no matter
what other transactions commit afterwards, and repeated reads within it return identical results.
An update transaction sees that same start snapshot plus its own changes, never another
transaction's uncommitted or later-committed changes."

Model: Gsu/Model/Db.lean. A transaction holds a *value* (`Tran.snap`, `Tran.dif`); its reads are
functions of these two only (`TDif.ovs`, `Overlay.lookup`, see `viewOf` in DbDrive).
The second half (no_shared_mutation) is about the heap model Gsu/Model/Share.lean.
-/
import Gsu.Proofs.DbStep
import Gsu.Proofs.Share
import Gsu.Proofs.DbIter
import Gsu.Gen.Share
namespace Gsu.Props.C02
open Gsu.Db

/-- snapshot_stable: whatever other transactions, commits, merges, persists and index builds do
(`ops` contains no operation *of* transaction `id`), transaction `id` still holds the same snapshot
and the same own buffers — so every read returns what it returned before. -/
theorem snapshot_stable (s : State) (ops : List Op) (id : Nat) (t : Tran)
    (ht : s.tran? id = some t) (h : ∀ op ∈ ops, op.tranId ≠ some id) :
    ∃ t', (run s ops).tran? id = some t' ∧ t'.snap = t.snap ∧ t'.dif = t.dif :=
  run_sameTran s ops id h t ht

/-- a transaction starts from the state that is current when it starts, with empty buffers -/
theorem starts_from_current (s : State) (id : Nat) (h : s.tran? id = none) :
    (step s (.begin_ id)).1.tran? id = some ⟨id, s.mt, s.mt.map TDif.start, 0, false⟩ := by
  simp only [step, State.tran?, List.find?_append]
  simp only [State.tran?] at h
  rw [h]
  simp

/-- update_sees_own: a read through the transaction's overlay returns the transaction's own change
of that key if it has one, otherwise exactly what the snapshot returns. -/
theorem update_sees_own (ov : Overlay) (m : Layer) (k : Key) :
    (ov.withMut m).lookup k = eff (m.get k) (ov.lookup k) :=
  lookup_withMut ov m k

/-- and that read is the meaning "snapshot, then own change" -/
theorem update_sees_own_sem (ov : Overlay) (m : Layer) (k : Key) :
    (ov.withMut m).sem k = (ov.sem k).bind (fun s => appO s (m.get k)) :=
  sem_withMut ov m k

/-- update_sees_own through ITERATION: what a scan (or an iterator advanced step by step, the
`scan` / `next` observations the drivers replay) of the transaction's overlay yields is exactly
the keys its Lookup finds, with the offsets Lookup returns — i.e. snapshot + own changes, own
deletes hidden, own updates with their latest version, whenever the iterator was opened. -/
theorem iteration_sees_own (ov : Overlay) (m : Layer) (k : Key) (o : Off) :
    (k, o) ∈ (ov.withMut m).entries ↔ eff (m.get k) (ov.lookup k) = some o := by
  rw [← lookup_withMut]
  exact ⟨entries_sound _ k o, entries_complete _ k o⟩

/-- the code's top-down Lookup returns the meaning of the layers -/
theorem lookup_is_sem (ov : Overlay) (k : Key) (v : KS) (h : ov.sem k = some v) : ov.lookup k = v :=
  lookup_of_sem ov k v h

/-! ### no_shared_mutation (heap level)

The functional model above cannot see Go aliasing: a snapshot's `*Meta` shares hamt nodes, Schema
structs, `Indexes` and `FkToHere` slices with later states.  `Gsu/Model/Share.lean` models those as
cells of an explicit heap and mirrors the in-place writes of the schema mutators.  `Frame b h h'` =
every cell below address `b` is unchanged; with `b` the heap size when the operation starts this is
"the operation wrote only into cells it allocated itself". `Closed b h ts` = the schema value `ts`
of an older state lives below `b`; `obs h ts` = everything readable through it. -/

open Gsu.Share in
/-- AlterRename (with `tsNew.Indexes = slc.Clone(ts.Indexes)`) changes nothing any older state
can observe: not of the renamed table, not of any other schema value. -/
theorem no_shared_mutation_rename (h : Heap) (ts old : Schema) (frm to : Nat)
    (hc : Closed h.length h old) :
    obs (alterRename true h ts frm to).1 old = obs h old :=
  obs_frame old (alterRename_frame h ts frm to) hc

open Gsu.Share in
/-- updateOtherFkToHere (alter drop renumbering a foreign key; getSchema's clone of `Indexes` and
the per-entry clone of `FkToHere`) changes nothing any older state can observe. -/
theorem no_shared_mutation_fk (h : Heap) (target old : Schema) (table : Nat) (cols fkCols : List Nat)
    (iindex : Nat) (hc : Closed h.length h old) :
    obs (updateOtherFkToHere true true h target table cols fkCols iindex).1 old = obs h old :=
  obs_frame old (updateOtherFkToHere_frame h target table cols fkCols iindex) hc

open Gsu.Share in
/-- hamt pullUp (Delete of an unpersisted table) with the path-copy guard: if every node of the
current generation was allocated after `Mutable()` (address ≥ b), every cell below `b` is unchanged
— for every depth, every shape of the child chain — and so are the items any older root reaches. -/
theorem no_shared_mutation_hamt (b gen fuel : Nat) (h : Heap) (a : Nat)
    (hb : b ≤ h.length) (hg : GenFresh b gen h) :
    Frame b h (pullUp true gen fuel h a).1 ∧
    ∀ (f root : Nat), root < b →
      (∀ (x : Nat) g v p, h[x]? = some (.node g v p) → x < b → ∀ c ∈ p, c < b) →
      items f (pullUp true gen fuel h a).1 root = items f h root :=
  ⟨(pullUp_frame fuel h a hb hg).1,
   fun f root hr hcl => items_frame (pullUp_frame fuel h a hb hg).1 f root hcl hr⟩

open Gsu.Share in
/-- counter-witnesses: without the copies the same mutators change what an older state observes
(the three seeded changes C02-1, C02-2, C02-3 in miniature) -/
theorem shared_mutation_counter :
    -- AlterRename without the clone of Indexes
    (let h : Heap := [.fks [], .idxs [⟨[1], 0, 0, 0⟩]]
     obs (alterRename false h ⟨1, [1], 1⟩ 1 99).1 ⟨1, [1], 1⟩ ≠ obs h ⟨1, [1], 1⟩) ∧
    -- updateOtherFkToHere without the clone of FkToHere
    (let h : Heap := [.fks [⟨10, [3], 2⟩], .idxs [⟨[1], 0, 0, 0⟩]]
     obs (updateOtherFkToHere true false h ⟨1, [1, 2], 1⟩ 10 [3] [1] 1).1 ⟨1, [1, 2], 1⟩ ≠ obs h ⟨1, [1, 2], 1⟩) ∧
    -- pullUp without the guard: the older root {100, child{200,201}} loses 201
    (let h : Heap := [.node 1 [200, 201] [], .node 1 [100] [0]]
     items 3 (pullUp false 2 3 h 0).1 1 ≠ items 3 h 1) := by
  refine ⟨by decide, by decide, by decide⟩

/-- (G) the code copies before it writes: metaUpdate.getSchema clones `Indexes`, AlterRename clones
`Indexes` before its loop, updateOtherFkToHere clones `FkToHere` inside the loops before the write
of `IIndex`, renameFkey clones `FkToHere` before its loop, and `with`/`without`/`pullUp` of
util/hamt start with the generation guard + `dup()`. The model's mutators read these flags. -/
theorem gen_copy_before_write :
    Gsu.Gen.Share.getSchemaClonesIndexes = true ∧ Gsu.Gen.Share.cloneIndexesInAlterRename = true ∧
    Gsu.Gen.Share.cloneFkToHereBeforeWrite = true ∧ Gsu.Gen.Share.renameFkeyClonesFkToHere = true ∧
    Gsu.Gen.Share.pullUpGuard = true ∧ Gsu.Gen.Share.hamtPathCopies = true :=
  ⟨rfl, rfl, rfl, rfl, rfl, rfl⟩

/-
no_shared_mutation — what remains PARTIAL.  Mirrored and proved: AlterRename, metaUpdate.getSchema +
updateOtherFkToHere, hamt pullUp.  Not mirrored (same two patterns; tied only by the generated guard
facts above and by the correspondence suite, which re-observes every open transaction's schema
view after every schema change): createFkeys (`slc.With` on FkToHere), dropFkeys (fresh slice),
renameFkey, updateOtherFk, dropIndexes/createIndexes (`slices.Clip` + append), hamt `with`/`without`
bodies, `Info.Indexes`/`Deltas`/overlay `layers` (`slc.With`/`slc.Clone`), and column slices
(modelled as values).  Go aliasing outside these call sites is seen only by the correspondence.
-/

-- non-vacuity: a transaction open across another one's commit
example : ∃ t', (run (run State.init [.table 1, .begin_ 0]) [.begin_ 1, .out 1 0 ⟨20, 5, [[1]]⟩, .commit 1]).tran? 0
    = some t' ∧ t'.snap = [newInfo 1] := by
  obtain ⟨t', h1, h2, _⟩ := snapshot_stable (run State.init [.table 1, .begin_ 0])
    [.begin_ 1, .out 1 0 ⟨20, 5, [[1]]⟩, .commit 1] 0 ⟨0, [newInfo 1], [newInfo 1].map TDif.start, 0, false⟩
    (by rfl) (by intro op hop; simp at hop; rcases hop with rfl | rfl | rfl <;> simp [Op.tranId])
  exact ⟨t', h1, h2⟩

end Gsu.Props.C02
