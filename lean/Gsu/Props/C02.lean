/-
C02 — Transactions read a stable snapshot.

"A read transaction sees exactly the database state that was current when it started, no matter
what other transactions commit afterwards, and repeated reads within it return identical results.
An update transaction sees that same start snapshot plus its own changes, never another
transaction's uncommitted or later-committed changes."

Model: Gsu/Model/Db.lean. A transaction holds a *value* (`Tran.snap`, `Tran.dif`); its reads are
functions of these two only (`TDif.ovs`, `Overlay.lookup`, see `viewOf` in DbDrive).
-/
import Gsu.Proofs.DbStep
namespace Gsu.Props.C02
open Gsu.Db

/-- snapshot_stable: whatever other transactions, commits, merges, persists and index builds do
(`ops` contains no operation *of* transaction `id`), transaction `id` still holds the same snapshot
and the same own buffers — so every read returns what it returned before. -/
theorem snapshot_stable (s : State) (ops : List Op) (id : Nat) (t : Tran)
    (ht : s.tran? id = some t) (h : ∀ op ∈ ops, op.tranId ≠ some id) :
    ∃ t', (run s ops).tran? id = some t' ∧ t'.snap = t.snap ∧ t'.dif = t.dif :=
  run_sameTran s ops id h t ht

/-- a transaction starts from the state that is current when it starts, with empty buffers -/
theorem starts_from_current (s : State) (id : Nat) (h : s.tran? id = none) :
    (step s (.begin_ id)).1.tran? id = some ⟨id, s.mt, s.mt.map TDif.start, 0, false⟩ := by
  simp only [step, State.tran?, List.find?_append]
  simp only [State.tran?] at h
  rw [h]
  simp

/-- update_sees_own: a read through the transaction's overlay returns the transaction's own change
of that key if it has one, otherwise exactly what the snapshot returns. -/
theorem update_sees_own (ov : Overlay) (m : Layer) (k : Key) :
    (ov.withMut m).lookup k = eff (m.get k) (ov.lookup k) :=
  lookup_withMut ov m k

/-- and that read is the meaning "snapshot, then own change" -/
theorem update_sees_own_sem (ov : Overlay) (m : Layer) (k : Key) :
    (ov.withMut m).sem k = (ov.sem k).bind (fun s => appO s (m.get k)) :=
  sem_withMut ov m k

/-- the code's top-down Lookup returns the meaning of the layers -/
theorem lookup_is_sem (ov : Overlay) (k : Key) (v : KS) (h : ov.sem k = some v) : ov.lookup k = v :=
  lookup_of_sem ov k v h

/-
no_shared_mutation (DESIGN §7 C02) — NOT PROVED here: the model is purely functional, so sharing
of Go slices / hamt nodes between an old DbState and a new one is not expressible in it; that part
of the property is tied only by the correspondence (every open transaction re-read after every
step) and the direct oracles `stale-read` / `read-not-repeatable`.
-/

-- non-vacuity: a transaction open across another one's commit
example : ∃ t', (run (run State.init [.table 1, .begin_ 0]) [.begin_ 1, .out 1 0 ⟨20, 5, [[1]]⟩, .commit 1]).tran? 0
    = some t' ∧ t'.snap = [newInfo 1] := by
  obtain ⟨t', h1, h2, _⟩ := snapshot_stable (run State.init [.table 1, .begin_ 0])
    [.begin_ 1, .out 1 0 ⟨20, 5, [[1]]⟩, .commit 1] 0 ⟨0, [newInfo 1], [newInfo 1].map TDif.start, 0, false⟩
    (by rfl) (by intro op hop; simp at hop; rcases hop with rfl | rfl | rfl <;> simp [Op.tranId])
  exact ⟨t', h1, h2⟩

end Gsu.Props.C02
