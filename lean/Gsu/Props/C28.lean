/-
C28 — Value comparison is a consistent total order.

"Comparison of any two values is antisymmetric and transitive, ordering booleans before numbers
before strings before dates before objects, values that are equal compare as equal and hash
equally, and object members are found by any key equal to the one used to store them."

Model: `Gsu.Model.Value` (the definitions `Drive/C28.lean` executes), mirroring the repaired
number hash (fixes/02) and object hash (fixes/11). Lemmas: `Gsu/Proofs/Value.lean`.
-/
import Gsu.Proofs.Value
namespace Gsu.Props.C28
open Gsu.Val Gsu.Num Gsu.Dnum

/-- Compare is antisymmetric for all values of all types and representations, nested objects
included: `Compare(a, b) = -Compare(b, a)` (as signs). FULL. -/
theorem compare_antisymm (a b : Value) : Val.compare a b = - Val.compare b a :=
  Val.compare_antisymm a b

/-- booleans < numbers < strings (SuStr, SuConcat, SuExcept) < dates (SuDate, SuTimestamp) <
objects (SuObject, SuRecord): values of different classes compare by class. FULL. -/
theorem type_order (a b : Value) (h : order a ≠ order b) :
    Val.compare a b = cmpNat (order a) (order b) :=
  Val.compare_of_order a b h

example : order (.str .except [97]) ≠ order (.ts 1034273 0 1) ∧
    Val.compare (.str .except [97]) (.ts 1034273 0 1) = -1 := by decide

/-- Equal numbers hash equally whatever their representations (smi, SuInt64, SuDnum). FULL
(for the repaired `SuDnum.Hash` / `SuDnum.Equal`). -/
theorem hash_respects_equal_num (a b : Num) (h : Num.equal a b = true) : Num.hash a = Num.hash b :=
  Num.hash_of_equal a b h

example : Num.equal (.i64 100000) (.dn ⟨1000000000000000, 1, 6⟩) = true := by decide

/-- Equal scalars (booleans, numbers, strings in any of the three string representations, dates,
timestamps) hash equally. FULL for scalars. -/
theorem hash_respects_equal_scalar (a b : Value) (ha : order a ≠ 4) (h : equal a b = true) :
    Val.hash a = Val.hash b :=
  Val.hash_of_equal_scalar a b ha h

/-- The shallow hash used for members of containers respects Equal for every value. FULL. -/
theorem hash2_respects_equal (a b : Value) (h : equal a b = true) : hash2 a = hash2 b :=
  Val.hash2_of_equal a b h

/-- Containers: two Equal objects whose named members are the same up to insertion order and
memberwise Equal (`NPermEq`) hash equally (repaired, order independent `SuObject.Hash`).

FULL statement wanted: `equal x y = true → hash x = hash y` for all objects. Missing: deriving
`NPermEq n1 n2` from `equal` (lookup based `namedSub` + equal sizes) needs that the keys of each
object are pairwise not Equal (map invariant) and that Equal is an equivalence on the keys
(a pigeonhole argument); the hypothesis `hp` states its conclusion. -/
theorem hash_respects_equal_obj_partial (r1 r2 : Bool) (l1 l2 : VList) (n1 n2 : NList)
    (h : equal (.obj r1 l1 n1) (.obj r2 l2 n2) = true) (hp : NPermEq n1 n2) :
    Val.hash (.obj r1 l1 n1) = Val.hash (.obj r2 l2 n2) :=
  Val.hash_of_equal_obj r1 r2 l1 l2 n1 n2 h hp

-- non-vacuity: members inserted in the other order, one key in the other representation
example : NPermEq (.cons (.num (.i64 100000)) (.bool true) (.cons (.str .str [107]) (.num (.smi 1)) .nil))
    (.cons (.str .concat [107]) (.num (.smi 1)) (.cons (.num (.dn ⟨1000000000000000, 1, 6⟩)) (.bool true) .nil)) :=
  .trans .swap (.cons (by decide) (by decide) (.cons (by decide) (by decide) .nil))

/-- Transitivity on numbers, the part of the order where representations mix: if no int of more
than 16 digits is involved, `a ≤ b ≤ c → a ≤ c`.

FULL statement wanted: transitivity for all values. It is FALSE for the current code when an int
of more than 16 digits meets a decimal (`compare_trans_counter`); transitivity for strings,
dates and nested objects is not proved yet (correspondence + direct oracle only). -/
theorem compare_trans_num_partial (a b c : Num)
    (ha : ∀ n, asInt a = some n → n.natAbs < 10 ^ 16) (hb : ∀ n, asInt b = some n → n.natAbs < 10 ^ 16)
    (hc : ∀ n, asInt c = some n → n.natAbs < 10 ^ 16)
    (h1 : Num.compare a b ≤ 0) (h2 : Num.compare b c ≤ 0) : Num.compare a c ≤ 0 :=
  Num.compare_trans_small a b c ha hb hc h1 h2

example : ∀ n, asInt (.i64 100000) = some n → n.natAbs < 10 ^ 16 := by
  intro n h; simp [asInt] at h; subst h; decide

/-- counter-witness (open finding): 10^16+1 ≤ 1e16 (decimal) ≤ 10^16 but 10^16+1 > 10^16 -/
theorem compare_trans_counter :
    Num.compare (.i64 10000000000000001) (.dn (fromInt 10000000000000000)) ≤ 0 ∧
    Num.compare (.dn (fromInt 10000000000000000)) (.i64 10000000000000000) ≤ 0 ∧
    Num.compare (.i64 10000000000000001) (.i64 10000000000000000) = 1 := by decide

/-- Equal numbers compare as equal: ints among themselves, decimals among themselves. The mixed
case (`toInt64 d = some i → Compare(i, d) = 0`) needs `fromInt i = d` for normalised `d`, which is
not proved yet — hence `_partial`; the direct oracle `equal-compare` checks it on the code. -/
theorem equal_implies_compare_eq_partial (a b : Num) (hk : (asInt a).isSome = (asInt b).isSome)
    (h : Num.equal a b = true) : Num.compare a b = 0 :=
  Num.compare_of_equal_same_kind a b hk h

example : (asInt (.smi 5)).isSome = (asInt (.i64 5)).isSome ∧ Num.equal (.smi 5) (.i64 5) = true := by decide

end Gsu.Props.C28
