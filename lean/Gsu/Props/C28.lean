/-
C28 — Value comparison is a consistent total order.

"Comparison of any two values is antisymmetric and transitive, ordering booleans before numbers
before strings before dates before objects, values that are equal compare as equal and hash
equally, and object members are found by any key equal to the one used to store them."

Model: `Gsu.Model.Value` (the definitions `Drive/C28.lean` executes), mirroring the repaired
number hash (fixes/02) and object hash (fixes/11). Lemmas: `Gsu/Proofs/Value.lean` (antisymmetry,
hashes), `Value2.lean` (transitivity), `Value3.lean` (`FromInt (ToInt64 d) = d`, Equal ⇒ Compare 0),
`Value4.lean` (Equal is an equivalence, pigeonhole for the named members, hash of containers, Get),
`Value5.lean` (`FromInt` monotone on int64; the exact extent of KF-C28-1 on numbers).

Hypotheses that appear below, and why they are not restrictions of the code:
* `ValWF v` — every decimal inside `v` is in the canonical form `dnum.New` produces (zero, an
  infinity, or a 16 digit coefficient) and the named members of every object inside `v` have
  pairwise non-Equal keys (the invariant of the hash map `named`). Both are representation
  invariants of the implementation; without the second one Equal objects need not hash equally
  (`example` below).
* `ValAll NumNorm v` — the canonical-decimal half of `ValWF`, for the members `Compare` looks at.
* `NoBigIntMeetsDec a b c` — the documented open finding KF-C28-1 (an int of more than 16 digits
  is rounded when compared with a decimal) excluded; `compare_trans_counter` is the witness.
-/
import Gsu.Proofs.Value5
namespace Gsu.Props.C28
open Gsu.Val Gsu.Num Gsu.Dnum

/-- Compare is antisymmetric for all values of all types and representations, nested objects
included: `Compare(a, b) = -Compare(b, a)` (as signs). FULL. -/
theorem compare_antisymm (a b : Value) : Val.compare a b = - Val.compare b a :=
  Val.compare_antisymm a b

/-- booleans < numbers < strings (SuStr, SuConcat, SuExcept) < dates (SuDate, SuTimestamp) <
objects (SuObject, SuRecord): values of different classes compare by class. FULL. -/
theorem type_order (a b : Value) (h : order a ≠ order b) :
    Val.compare a b = cmpNat (order a) (order b) :=
  Val.compare_of_order a b h

example : order (.str .except [97]) ≠ order (.ts 1034273 0 1) ∧
    Val.compare (.str .except [97]) (.ts 1034273 0 1) = -1 := by decide

/-! ### transitivity -/

/-- Compare is transitive on ALL values — booleans, numbers in every representation, strings,
dates and timestamps, across types, and objects nested to any depth (lexicographic on the list
members) — under the one documented exception KF-C28-1: the numbers in the three values are all
ints (of any size), or are all decimals / ints of at most 16 digits (`NoBigIntMeetsDec`).
FULL up to the open finding (it is false without the hypothesis: `compare_trans_counter`). -/
theorem compare_trans (a b c : Value) (h : NoBigIntMeetsDec a b c)
    (h1 : Val.compare a b ≤ 0) (h2 : Val.compare b c ≤ 0) : Val.compare a c ≤ 0 :=
  Val.compare_trans a b c h h1 h2

/-- the strict forms `a < b ≤ c → a < c` and `a ≤ b < c → a < c` (so `Compare = 0` is an
equivalence compatible with the order: a total preorder). Same hypothesis. -/
theorem compare_trans_strict (a b c : Value) (h : NoBigIntMeetsDec a b c)
    (h1 : Val.compare a b ≤ 0) (h2 : Val.compare b c ≤ 0)
    (hs : Val.compare a b < 0 ∨ Val.compare b c < 0) : Val.compare a c < 0 :=
  Val.compare_trans_strict a b c h h1 h2 hs

/-- generic form: Compare is transitive on every class of values whose numbers compare
transitively among themselves (the two instances used above: ints only; decimals and ints of at
most 16 digits). -/
theorem compare_trans_on {P : Num → Prop} (hP : NumTrans P) (a b c : Value)
    (pa : ValAll P a) (pb : ValAll P b) (pc : ValAll P c)
    (h1 : Val.compare a b ≤ 0) (h2 : Val.compare b c ≤ 0) : Val.compare a c ≤ 0 :=
  Val.compare_trans_on hP a b c pa pb pc h1 h2

/-- the number instance (the former `compare_trans_num_partial`): no int of more than 16 digits
involved -/
theorem compare_trans_num (a b c : Num)
    (ha : ∀ n, asInt a = some n → n.natAbs < 10 ^ 16) (hb : ∀ n, asInt b = some n → n.natAbs < 10 ^ 16)
    (hc : ∀ n, asInt c = some n → n.natAbs < 10 ^ 16)
    (h1 : Num.compare a b ≤ 0) (h2 : Num.compare b c ≤ 0) : Num.compare a c ≤ 0 :=
  Num.compare_trans_small a b c ha hb hc h1 h2

example : ∀ n, asInt (.i64 100000) = some n → n.natAbs < 10 ^ 16 := by
  intro n h; simp [asInt] at h; subst h; decide

-- non-vacuity: a nested object with a decimal, a 16 digit int, strings and a date satisfies the
-- hypothesis (second disjunct); a 19 digit int next to small ints the first one
example : ValAll small16 (.obj false (.cons (.num (.dn ⟨1500000000000000, 1, 1⟩))
    (.cons (.obj true (.cons (.num (.i64 9999999999999999)) (.cons (.str .concat [1]) .nil)) .nil)
      (.cons (.date 1034273 0) .nil))) .nil) := by
  simp only [ValAll, ListAll, small16, asInt, Option.some.injEq, and_true]
  refine ⟨fun n h => by simp at h, fun n h => ?_⟩
  subst h; decide

example : ValAll isInt (.obj false (.cons (.num (.i64 9223372036854775807)) (.cons (.num (.smi 1)) .nil)) .nil) := by
  simp [ValAll, ListAll, isInt, asInt]

/-- counter-witness (open finding KF-C28-1): 10^16+1 ≤ 1e16 (decimal) ≤ 10^16 but 10^16+1 > 10^16 -/
theorem compare_trans_counter :
    Num.compare (.i64 10000000000000001) (.dn (fromInt 10000000000000000)) ≤ 0 ∧
    Num.compare (.dn (fromInt 10000000000000000)) (.i64 10000000000000000) ≤ 0 ∧
    Num.compare (.i64 10000000000000001) (.i64 10000000000000000) = 1 := by decide

/-- `FromInt` is monotone on the whole int64 range, the 17–19 digit ints that go through the
rounding loop of `New` included: rounding can merge neighbours but never swaps them. FULL. -/
theorem fromInt_monotone (x y : Int) (hx : inInt64 x) (hy : inInt64 y) (h : x ≤ y) :
    Dnum.compare (fromInt x) (fromInt y) ≤ 0 :=
  Dnum.fromInt_mono x y hx hy h

/-- The exact extent of KF-C28-1 on numbers: `Compare` is transitive for EVERY triple of numbers
(any representation, ints of any size in the int64 range, any decimals) except the pattern
int ≤ decimal ≤ int of `compare_trans_counter`. FULL (characterisation of the finding). -/
theorem compare_trans_num_unless (a b c : Num) (ha : InRange a) (hb : InRange b) (hc : InRange c)
    (hx : ¬((asInt a).isSome = true ∧ (asInt b).isSome = false ∧ (asInt c).isSome = true))
    (h1 : Num.compare a b ≤ 0) (h2 : Num.compare b c ≤ 0) : Num.compare a c ≤ 0 :=
  Num.compare_trans_unless a b c ha hb hc hx h1 h2

-- non-vacuity: a 19 digit int, a 17 digit int and a decimal in the other two orders
example : InRange (.i64 9223372036854775807) ∧ InRange (.dn ⟨1000000000000000, 1, 17⟩) ∧
    ¬((asInt (.dn ⟨1000000000000000, 1, 17⟩)).isSome = true ∧ (asInt (.i64 10000000000000001)).isSome = false ∧
      (asInt (.i64 9223372036854775807)).isSome = true) := by
  refine ⟨?_, ?_, by decide⟩
  · intro n h; simp only [asInt, Option.some.injEq] at h; subst h; decide
  · intro n h; simp [asInt] at h

/-! ### Equal ⇒ Compare 0 -/

/-- `FromInt (ToInt64 d) = d` for every canonical decimal that converts to an int64 (1 to 19
digits, the 17–19 digit ones through the rounding loop of `New`): the fact behind int-vs-decimal
Equal/Compare consistency. FULL. -/
theorem fromInt_toInt64 (d : Dnum) (hd : Norm d) (i : Int) (h : toInt64 d = some i) : fromInt i = d :=
  Dnum.fromInt_toInt64 d hd i h

example : Norm ⟨9223372036854775, 1, 19⟩ ∧ toInt64 ⟨9223372036854775, 1, 19⟩ = some 9223372036854775000 :=
  ⟨Or.inr (Or.inr (Or.inr ⟨Or.inl rfl, by decide, by decide⟩)), by decide⟩

/-- Equal numbers compare as equal in all nine combinations of smi / SuInt64 / SuDnum
(decimals canonical). FULL. -/
theorem equal_implies_compare_eq_num (a b : Num) (ha : NumNorm a) (hb : NumNorm b)
    (h : Num.equal a b = true) : Num.compare a b = 0 :=
  Num.compare_of_equal a b ha hb h

/-- the same without the canonical-form hypothesis when both are ints or both are decimals
(the former `equal_implies_compare_eq_partial`) -/
theorem equal_implies_compare_eq_same_kind (a b : Num) (hk : (asInt a).isSome = (asInt b).isSome)
    (h : Num.equal a b = true) : Num.compare a b = 0 :=
  Num.compare_of_equal_same_kind a b hk h

example : (asInt (.smi 5)).isSome = (asInt (.i64 5)).isSome ∧ Num.equal (.smi 5) (.i64 5) = true := by decide

/-- Equal values compare as equal: every type, every representation, nested objects. FULL. -/
theorem equal_implies_compare_eq (a b : Value) (pa : ValAll NumNorm a) (pb : ValAll NumNorm b)
    (h : equal a b = true) : Val.compare a b = 0 :=
  Val.compare_of_equal a b pa pb h

-- the canonical-form hypothesis is needed (and is an invariant of `dnum.New`): the non-canonical
-- 0.0000000000000005e16 is Equal to the int 5 but does not compare 0 with it
example : Num.equal (.dn ⟨5, 1, 16⟩) (.smi 5) = true ∧ Num.compare (.dn ⟨5, 1, 16⟩) (.smi 5) = 1 := by decide

/-! ### Equal is an equivalence -/

/-- Equal is reflexive (all values). FULL. -/
theorem equal_refl (a : Value) : equal a a = true := Val.equal_refl a

/-- Equal is symmetric on well-formed values — for objects this is the pigeonhole argument:
`deepEqual` looks the members of `x` up in `y` only. FULL. -/
theorem equal_symm (a b : Value) (wa : ValWF a) (wb : ValWF b) (h : equal a b = true) :
    equal b a = true := Val.equal_symm a b wa wb h

/-- Equal is transitive on well-formed values (int ~ decimal ~ int included). FULL. -/
theorem equal_trans (a b c : Value) (wa : ValWF a) (wb : ValWF b) (wc : ValWF c)
    (h1 : equal a b = true) (h2 : equal b c = true) : equal a c = true :=
  Val.equal_trans a b c wa wb wc h1 h2

/-! ### Equal ⇒ same Hash -/

/-- Equal numbers hash equally whatever their representations (smi, SuInt64, SuDnum). FULL
(for the repaired `SuDnum.Hash` / `SuDnum.Equal`). -/
theorem hash_respects_equal_num (a b : Num) (h : Num.equal a b = true) : Num.hash a = Num.hash b :=
  Num.hash_of_equal a b h

example : Num.equal (.i64 100000) (.dn ⟨1000000000000000, 1, 6⟩) = true := by decide

/-- Equal scalars (booleans, numbers, strings in any of the three string representations, dates,
timestamps) hash equally. FULL for scalars. -/
theorem hash_respects_equal_scalar (a b : Value) (ha : order a ≠ 4) (h : equal a b = true) :
    Val.hash a = Val.hash b :=
  Val.hash_of_equal_scalar a b ha h

/-- The shallow hash used for members of containers respects Equal for every value. FULL. -/
theorem hash2_respects_equal (a b : Value) (h : equal a b = true) : hash2 a = hash2 b :=
  Val.hash2_of_equal a b h

/-- The named members of two Equal well-formed objects are the same up to insertion order and
memberwise Equal: `NPermEq` is DERIVED from the lookup based `deepEqual` (equal sizes + every
member of x found in y) by a pigeonhole argument using the map invariant of x. FULL. -/
theorem named_perm_of_equal (r1 r2 : Bool) (l1 l2 : VList) (n1 n2 : NList)
    (w1 : ValWF (.obj r1 l1 n1)) (w2 : ValWF (.obj r2 l2 n2))
    (h : equal (.obj r1 l1 n1) (.obj r2 l2 n2) = true) : NPermEq n1 n2 :=
  Val.NPermEq_of_equal r1 r2 l1 l2 n1 n2 w1 w2 h

/-- Containers: Equal well-formed objects hash equally (repaired, order independent
`SuObject.Hash`). FULL — the former hypothesis `NPermEq n1 n2` is now a consequence. -/
theorem hash_respects_equal_obj (r1 r2 : Bool) (l1 l2 : VList) (n1 n2 : NList)
    (w1 : ValWF (.obj r1 l1 n1)) (w2 : ValWF (.obj r2 l2 n2))
    (h : equal (.obj r1 l1 n1) (.obj r2 l2 n2) = true) :
    Val.hash (.obj r1 l1 n1) = Val.hash (.obj r2 l2 n2) :=
  Val.hash_of_equal _ _ w1 w2 h

/-- Equal well-formed values hash equally: all types, representations and containers. FULL. -/
theorem hash_respects_equal (a b : Value) (wa : ValWF a) (wb : ValWF b) (h : equal a b = true) :
    Val.hash a = Val.hash b :=
  Val.hash_of_equal a b wa wb h

/-- the former `hash_respects_equal_obj_partial` (permutation given instead of derived; no
well-formedness needed) -/
theorem hash_respects_equal_obj_perm (r1 r2 : Bool) (l1 l2 : VList) (n1 n2 : NList)
    (h : equal (.obj r1 l1 n1) (.obj r2 l2 n2) = true) (hp : NPermEq n1 n2) :
    Val.hash (.obj r1 l1 n1) = Val.hash (.obj r2 l2 n2) :=
  Val.hash_of_equal_obj r1 r2 l1 l2 n1 n2 h hp

-- non-vacuity: members inserted in the other order, one key in the other representation
example : NPermEq (.cons (.num (.i64 100000)) (.bool true) (.cons (.str .str [107]) (.num (.smi 1)) .nil))
    (.cons (.str .concat [107]) (.num (.smi 1)) (.cons (.num (.dn ⟨1000000000000000, 1, 6⟩)) (.bool true) .nil)) :=
  .trans .swap (.cons (by decide) (by decide) (.cons (by decide) (by decide) .nil))

-- non-vacuity of `ValWF`: the two objects above (a decimal key, distinct keys) are well-formed
-- and Equal
example :
    ValWF (.obj false .nil (.cons (.num (.i64 100000)) (.bool true) (.cons (.str .str [107]) (.num (.smi 1)) .nil))) ∧
    ValWF (.obj true .nil (.cons (.str .concat [107]) (.num (.smi 1)) (.cons (.num (.dn ⟨1000000000000000, 1, 6⟩)) (.bool true) .nil))) ∧
    equal (.obj false .nil (.cons (.num (.i64 100000)) (.bool true) (.cons (.str .str [107]) (.num (.smi 1)) .nil)))
      (.obj true .nil (.cons (.str .concat [107]) (.num (.smi 1)) (.cons (.num (.dn ⟨1000000000000000, 1, 6⟩)) (.bool true) .nil))) = true := by
  refine ⟨?_, ?_, by decide⟩
  · simp only [ValWF, ListWF, NamedWF, KeysDistinct, NumNorm, true_and, and_true]
    decide
  · simp only [ValWF, ListWF, NamedWF, KeysDistinct, NumNorm, true_and, and_true]
    exact ⟨Or.inr (Or.inr (Or.inr ⟨Or.inl rfl, by decide, by decide⟩)), by decide⟩

-- the map invariant is needed: with a duplicated key on the left, `deepEqual` holds and the
-- hashes differ
example : equal dupLeft dupRight = true ∧ Val.hash dupLeft ≠ Val.hash dupRight := by decide

/-! ### Get -/

/-- "object members are found by any key equal to the one used to store them": `Get` with Equal
keys (another number or string representation, an Equal object) gives the same result. FULL. -/
theorem get_by_equal_key (ob key key' : Value) (wo : ValWF ob) (wk : ValWF key) (wk' : ValWF key')
    (h : equal key key' = true) : get ob key = get ob key' :=
  Val.get_congr ob key key' wo wk wk' h

/-- a named member stored under `k` is what the lookup returns for every key Equal to `k` -/
theorem named_get_stored (n : NList) (k v key : Value) (wk : ValWF key) (wn : NamedWF n)
    (hd : KeysDistinct n) (hm : (k, v) ∈ n.toList) (he : equal k key = true) :
    namedGet key n = some v :=
  Val.namedGet_stored key wk n k v wn hd hm he

example : get (.obj false .nil (.cons (.num (.i64 100000)) (.bool true) .nil)) (.num (.dn ⟨1000000000000000, 1, 6⟩))
    = some (.bool true) := by rfl

end Gsu.Props.C28
