/-
C30 — Constant folding and propagation preserve program meaning.

"Compiling a program whose constant subexpressions are evaluated at compile time, or whose final
local values are propagated, gives the same result or the same exception as evaluating the same
operations at run time."

Stated over `Gsu.Model.LangFold`: `eval` is the run-time meaning (codegen order + core/ops.go on the
boolean / integer / string fragment, `none` = an exception), `fUnary … fNary` / `foldE` mirror
compile/ast/folder.go. Every theorem is about these definitions, which the driver executes.

The property is FALSE of the current code as a whole-program statement (DESIGN §6 findings 8, 23
and two further classes found here): the `…_counter` theorems are decided witnesses on the mirror,
the `…_sound` theorems are the per-rule statements that do hold (n-ary: `+`/`-`, `*` without
reciprocals, `|`, `^`, `&`, `and`/`or` on boolean operands, `$`; missing: reciprocal operands of
`*`, `&` with `0xffffffff` / all-constant operands; the flattening of nested parenthesised operands
is covered for `+ | & ^ and or`). Exception *identity* (which
message) is not modelled (`none` is any exception); of PropFold (final locals) only the substitution step is modelled
(`propfold_subst_sound_partial`) — both are otherwise covered by the metamorphic direct oracle.
-/
import Gsu.Proofs.LangFold
import Gsu.Proofs.LangFold2
import Gsu.Proofs.LangProp
import Gsu.Gen.Folder
import Gsu.Model.Dnum
namespace Gsu.Props.C30
open Gsu.LangFold

/-- Unary rule: whatever `Folder.Unary` returns evaluates like the unfolded operator, in every
environment (constant operand evaluated at compile time; `not` pushed into a comparison). -/
theorem fold_unary_sound (A : Arith) (env : List Val) (op : UOp) (e e' : Expr)
    (h : fUnary op e = .ok e') : eval A env e' = eval A env (.unary op e) :=
  fUnary_sound A env op e e' h

/-- Binary rule, value case: constant/constant evaluated, constant moved to the right with the
comparison reversed, otherwise unchanged. -/
theorem fold_binary_sound (A : Arith) (env : List Val) (op : BOp) (l r e' : Expr)
    (h : fBinary op l r = .ok e') : eval A env e' = eval A env (.binary op l r) :=
  fBinary_sound A env op l r e' h

/-- Binary rule, exception case: when the compile-time evaluation throws, so does the run time
(both operands of a binary operator are always evaluated). -/
theorem fold_binary_exception (A : Arith) (env : List Val) (op : BOp) (l r : Expr)
    (h : fBinary op l r = .error .eval) : eval A env (.binary op l r) = none :=
  fBinary_error A env op l r h

/-- `?:` with a constant condition. -/
theorem fold_trinary_sound (A : Arith) (env : List Val) (c t f e' : Expr)
    (h : fTrinary c t f = .ok e') : eval A env e' = eval A env (.trinary c t f) :=
  fTrinary_sound A env c t f e' h

theorem fold_trinary_exception (A : Arith) (env : List Val) (c t f : Expr) (x : FoldErr)
    (h : fTrinary c t f = .error x) : eval A env (.trinary c t f) = none :=
  fTrinary_error A env c t f x h

/-- `in`: empty list, single element (→ `is`), constant lhs against a constant prefix. -/
theorem fold_in_sound (A : Arith) (env : List Val) (e : Expr) (es : List Expr) (e' : Expr)
    (h : fIn e es = .ok e') : eval A env e' = eval A env (.inn e es) :=
  fIn_sound A env e es e' h

/-- N-ary `+`/`-`, the full rule of `commutative`: merging *all* constant operands into the first
one, dropping zeros, the one-operand fix-ups and the flattening of parenthesised nested `+` lists
(`x + (y + 1) + 2` → `x + y + 1 + 2`; the spliced operands are not examined again) preserve the
run-time result in every environment — provided the addition is associative, commutative and has 0
as identity (`LawfulAdd`: true of exact integers, see `exact_add_lawful`; false of the 16-digit
decimal, see `fold_nary_reassoc_counter`). `hnn` is well-formedness: a nested `+` list has at
least two operands (every parsed or folded n-ary list has; the model's `eval` of a shorter list
differs from its operands); it holds vacuously when no operand is a nested `+`.
(Replaces the former `fold_nary_add_sound_partial`, which excluded nested operands.)
The other operators have their own theorems below: `*` without reciprocals
(`fold_nary_mul_sound_partial`), `|` `^` (`fold_nary_bit_sound_partial`), `&`
(`fold_nary_bitand_sound_partial`), `and`/`or` on boolean operands
(`fold_nary_andor_sound_partial`), `$` (`fold_cat_sound`); for `* | & and or` the unconditional
statement is false (counter theorems below), the hypotheses of those theorems say where. -/
theorem fold_nary_add_sound (A : Arith) (h : LawfulAdd A) (env : List Val)
    (es : List Expr) (e' : Expr) (h2 : 2 ≤ es.length)
    (hnn : ∀ e ∈ es, ∀ es2, nestedNary .add e = some es2 → 2 ≤ es2.length)
    (hf : fNary A .add es = .ok e') : eval A env e' = eval A env (.nary .add es) :=
  fNary_add_sound_flat h env es e' h2 hnn hf

theorem exact_add_lawful : LawfulAdd exactA := exactA_lawful

-- non-vacuity: `x + (y + 1) + 2` is flattened to `x + y + 1 + 2` (the 1 is not merged)
example : fNary exactA .add [.var 0, .unary .paren (.nary .add [.var 1, .const (.int 1)]),
    .const (.int 2)] = .ok (.nary .add [.var 0, .var 1, .const (.int 1), .const (.int 2)]) := rfl

-- non-vacuity: `x + 1 + y + 2` meets the hypotheses and is really rewritten (to `x + 3 + y`)
example : fNary exactA .add [.var 0, .const (.int 1), .var 1, .const (.int 2)] =
    .ok (.nary .add [.var 0, .const (.int 3), .var 1]) := rfl
example : ∀ e ∈ [Expr.var 0, .const (.int 1), .var 1, .const (.int 2)], nestedNary .add e = none := by
  decide

/-- N-ary `*` (`foldMul`) without reciprocal operands: multiplying the constant factors together,
moving the product to the end, dropping a product of 1, the `x * 1` fix-up and the constant-zero
short cut preserve the run-time result in every environment — for every multiplication that is
associative, commutative, has identity 1 and absorbing 0 (`LawfulMul`, true of exact integers:
`exact_mul_lawful`), provided that
  * `hr`: no operand is a reciprocal `/ e` or a unary operator applied to a constant (`noRecip`;
    with reciprocals the statement is false for the decimal division, `fold_muldiv_reassoc_counter`),
  * `hz`: when a constant `0` is among the operands, every operand evaluates to a number
    (needed: `fold_absorb_nonnumber_counter`).
PARTIAL: reciprocal operands (`a / b`) are not covered. Nested `*` needs no hypothesis (foldMul
does not flatten). -/
theorem fold_nary_mul_sound_partial (A : Arith) (h : LawfulMul A) (env : List Val)
    (es : List Expr) (e' : Expr) (h2 : 2 ≤ es.length)
    (hr : ∀ e ∈ es, noRecip e = true)
    (hz : Expr.const (.int 0) ∈ es → ∀ e ∈ es, ∃ n, numOf A env e = some n)
    (hf : fNary A .mul es = .ok e') : eval A env e' = eval A env (.nary .mul es) :=
  fNary_mul_sound h env es e' h2 hr hz hf

theorem exact_mul_lawful : LawfulMul exactA := exactA_lawfulMul

-- non-vacuity: `2 * x * 3 * y` meets the hypotheses and is rewritten to `x * y * 6`
example : fNary exactA .mul [.const (.int 2), .var 0, .const (.int 3), .var 1] =
    .ok (.nary .mul [.var 0, .var 1, .const (.int 6)]) := rfl
example : ∀ e ∈ [Expr.const (.int 2), .var 0, .const (.int 3), .var 1], noRecip e = true := by
  decide

/-- N-ary `|` and `^` (`commutative` with the 64-bit run-time operators of `nop`): merging the
constants, dropping zeros and the one-operand fix-ups preserve the run-time result in every
environment, provided the constant `0xffffffff` — which the folder takes for the absorbing element
of `|` although the run-time operators are 64 bits wide (KF-C30-5) — is not an operand (`h32`;
needed for `|`: `fold_bitor_32bit_counter`; for `^` it only excludes that one constant).
The flattening of parenthesised nested operands of the same operator is covered; `hnn` only asks
that such a nested list has at least two operands (every parsed n-ary list has; a one- or
zero-operand `Nary` evaluates differently from its spliced operands).
PARTIAL: `&` has its own theorem `fold_nary_bitand_sound_partial` (its fold identity `0xffffffff`
is not an identity of the 64-bit `&`); `0xffffffff` inside a nested list is spliced unexamined, so
`h32` is about the top-level operands only. -/
theorem fold_nary_bit_sound_partial (A : Arith) (op : NOp) (hop : op = .bitor ∨ op = .bitxor)
    (env : List Val) (es : List Expr) (e' : Expr) (h2 : 2 ≤ es.length)
    (hnn : ∀ e ∈ es, ∀ es2, nestedNary op e = some es2 → 2 ≤ es2.length)
    (h32 : Expr.const (.int allones) ∉ es)
    (hf : fNary A op es = .ok e') : eval A env e' = eval A env (.nary op es) :=
  fNary_bit_sound A op hop env es e' h2 hnn h32 hf

-- non-vacuity: `x | 1 | y | 6` is rewritten to `x | 7 | y`
example : fNary exactA .bitor [.var 0, .const (.int 1), .var 1, .const (.int 6)] =
    .ok (.nary .bitor [.var 0, .const (.int 7), .var 1]) := rfl

/-- N-ary `&` against the 64-bit run-time operator: merging the constants and the constant-0 short
cut preserve the run-time result in every environment, provided
  * `h32`: the constant `0xffffffff` — which the folder takes for the identity of `&` although the
    identity of the 64-bit `&` is -1 (KF-C30-5) — is not an operand (needed:
    `fold_bitand_32bit_counter`, `x & y & 0xffffffff` at `x = y = 2^32`),
  * `hnc`: not all operands are constants (needed: `fold_bitand_const_counter`, the all-constant
    fix-up applies the operator to `0xffffffff`),
  * `hz`: when a constant `0` is among the operands, every operand evaluates to a number (KF-C30-4,
    `fold_absorb_nonnumber_counter`).
Under `h32` and `hnc` the proof shows that no fix-up of `commutative` that uses `0xffffffff` is
reachable (`commGo_len`: at least two operands are kept).
The flattening of parenthesised nested `&` lists is covered (`hnn`: such a list has at least two
operands, as every parsed list has; a spliced list only increases the number of kept operands);
`h32`, `hnc`, `hz` are about the top-level operands, which are the only ones `commutative` examines.
PARTIAL: operands `0xffffffff` with 32-bit run-time values and all-constant lists are not covered
(the statement is false for them in general, see the two counter theorems). -/
theorem fold_nary_bitand_sound_partial (A : Arith) (env : List Val) (es : List Expr) (e' : Expr)
    (h2 : 2 ≤ es.length)
    (hnn : ∀ e ∈ es, ∀ es2, nestedNary .bitand e = some es2 → 2 ≤ es2.length)
    (h32 : Expr.const (.int allones) ∉ es) (hnc : ∃ e ∈ es, isConst e = false)
    (hz : Expr.const (.int 0) ∈ es → ∀ e ∈ es, ∃ n, numOf A env e = some n)
    (hf : fNary A .bitand es = .ok e') : eval A env e' = eval A env (.nary .bitand es) :=
  fNary_bitand_sound A env es e' h2 hnn h32 hnc hz hf

-- non-vacuity: `x & 7 & y & 5` is rewritten to `x & 5 & y`
example : fNary exactA .bitand [.var 0, .const (.int 7), .var 1, .const (.int 5)] =
    .ok (.nary .bitand [.var 0, .const (.int 5), .var 1]) := rfl

/-- N-ary `and` / `or` (`commutative` with the short-circuit evaluation of the run time): dropping
the identity constants (`true` of `and`, `false` of `or`), replacing the whole list by an absorbing
constant (`false` of `and`, `true` of `or`) and the one-operand fix-ups preserve the run-time result,
provided every operand — constants included — evaluates to a boolean in the environment (`hb`).
The hypothesis is the KF-C30-4 defect made explicit and it is needed: with a non-boolean (or
throwing) operand next to an absorbing constant the run time throws and the folded program does
not (`fold_absorb_nonboolean_counter`: `x and false` at `x = 1`), and non-boolean constants behind
a short circuit become compile errors (`fold_eager_counter`).
The flattening of parenthesised nested lists of the same operator is covered: `hnn` asks that such
a list has at least two operands (as every parsed list has) and that its operands evaluate to
booleans too (they are spliced in and evaluated by the folded program).
PARTIAL: foldRanges / foldOrToIn (applied after `commutative`, outside the model) are not covered,
and the boolean-operand hypothesis is stronger than necessary when no absorbing constant occurs. -/
theorem fold_nary_andor_sound_partial (A : Arith) (op : NOp) (hop : op = .and ∨ op = .or)
    (env : List Val) (es : List Expr) (e' : Expr) (h2 : 2 ≤ es.length)
    (hnn : ∀ e ∈ es, ∀ es2, nestedNary op e = some es2 →
      2 ≤ es2.length ∧ ∀ x ∈ es2, ∃ b, eval A env x = some (.bool b))
    (hb : ∀ e ∈ es, ∃ b, eval A env e = some (.bool b))
    (hf : fNary A op es = .ok e') : eval A env e' = eval A env (.nary op es) :=
  fNary_andor_sound A op hop env es e' h2 hnn hb hf

-- non-vacuity: `x and (y and z) and true` is flattened to `x and y and z`
example : fNary exactA .and [.var 0, .unary .paren (.nary .and [.var 1, .var 2]),
    .const (.bool true)] = .ok (.nary .and [.var 0, .var 1, .var 2]) := rfl
-- non-vacuity: `x and true and y` is rewritten to `x and y`, `x or true or y` to `true`
example : fNary exactA .and [.var 0, .const (.bool true), .var 1] =
    .ok (.nary .and [.var 0, .var 1]) := rfl
example : fNary exactA .or [.var 0, .const (.bool true), .var 1] = .ok (.const (.bool true)) := rfl
example : ∀ e ∈ [Expr.var 0, .const (.bool true), .var 1],
    ∃ b, eval exactA [.bool true, .bool false] e = some (.bool b) := by
  intro e he
  simp at he
  rcases he with rfl | rfl | rfl
  · exact ⟨true, rfl⟩
  · exact ⟨true, rfl⟩
  · exact ⟨false, rfl⟩

/-- N-ary `$` (`foldCat`): concatenating adjacent constant operands at compile time (and
replacing an all-constant list by the one string) leaves the run-time result — value or exception —
unchanged in every environment. Full for the model: no hypothesis beyond the two operands every
parsed `$` list has. -/
theorem fold_cat_sound (A : Arith) (env : List Val) (es : List Expr) (e' : Expr)
    (h2 : 2 ≤ es.length) (hf : fNary A .cat es = .ok e') :
    eval A env e' = eval A env (.nary .cat es) :=
  fNary_cat_sound A env es e' h2 hf

-- non-vacuity: `x $ "a" $ "b" $ y` is rewritten to `x $ "ab" $ y`
example : fNary exactA .cat [.var 0, .const (.str [97]), .const (.str [98]), .var 1] =
    .ok (.nary .cat [.var 0, .const (.str [97, 98]), .var 1]) := rfl

/-- KF-C30-5, all-constant variant: the one-operand fix-up applies the operator to the fold
identity `0xffffffff`: `0x100000000 & 0x100000000` is `0x100000000` at run time and `0` folded. -/
theorem fold_bitand_const_counter :
    let e := Expr.nary .bitand [.const (.int 4294967296), .const (.int 4294967296)]
    eval exactA [] e = some (.int 4294967296) ∧ evalFolded exactA [] e = some (.int 0) := by
  decide

/-- Finding 8 (decimal re-association): with the 16-digit decimal addition (`dec16`, values in
tenths) `x + .5 + .5` at `x = 1e15` is `…000` at run time and `…001` once the two constants have
been merged. -/
theorem fold_nary_reassoc_counter :
    let e := Expr.nary .add [.var 0, .const (.int 5), .const (.int 5)]
    let env := [Val.int 10000000000000000]
    eval dec16 env e = some (.int 10000000000000000) ∧
    evalFolded dec16 env e = some (.int 10000000000000010) := by decide

/-- …and the law that fails is associativity. -/
theorem dec16_not_associative :
    dec16.add (dec16.add 10000000000000000 5) 5 ≠ dec16.add 10000000000000000 (dec16.add 5 5) := by
  decide

/-- `*` / `/` re-association (`foldMul`): `7 / 7 / x` is a `*` list with two reciprocal operands.
At run time it is `7 / (7 * x)` (codegen divides the product of the factors by the product of the
divisors); the folder first divides the constant factor by the constant divisor (`7 / 7 = 1`),
drops the resulting `1` and leaves the reciprocal `1 / x` — for every arithmetic `A` with
`A.div 7 7 = 1`. -/
theorem fold_muldiv_reassoc_shape (A : Arith) (x : Int) (h1 : A.mul 1 7 = 7) (h7 : A.div 7 7 = 1) :
    let e := Expr.nary .mul [.const (.int 7), .unary .div (.const (.int 7)), .unary .div (.var 0)]
    eval A [.int x] e = some (.int (A.div 7 (A.mul 7 x))) ∧
    foldErr (fNary A .mul [.const (.int 7), .unary .div (.const (.int 7)), .unary .div (.var 0)]) = none ∧
    (∀ e', fNary A .mul [.const (.int 7), .unary .div (.const (.int 7)), .unary .div (.var 0)] = .ok e' →
      eval A [.int x] e' = some (.int (A.div 1 x))) := by
  refine ⟨by simp [eval, evalMulDiv, nbin, toNum, nop], ?_, ?_⟩
  · simp [fNary, ckMath, constNonNum, isNum, foldMul, mulGo, toNum, h1, h7, foldErr, unaryDivOrConstant]
  · intro e' he
    simp [fNary, ckMath, constNonNum, isNum, foldMul, mulGo, toNum, h1, h7, unaryDivOrConstant] at he
    subst he
    simp [eval, evalU, toNum]

/-- …and the 16-digit decimal division (the `Gsu.Model.Dnum` mirror of util/dnum) does not
satisfy `7 / (7 * 7) = 1 / 7`: …429 against …428. Together with `fold_muldiv_reassoc_shape` this is
the witness `function(x){ 7 / 7 / x }`, x = 7: .1428571428571429 at run time, .1428571428571428
folded. -/
theorem fold_muldiv_reassoc_counter :
    Gsu.Dnum.div (Gsu.Dnum.fromInt 7) (Gsu.Dnum.mul (Gsu.Dnum.fromInt 7) (Gsu.Dnum.fromInt 7)) ≠
      Gsu.Dnum.div (Gsu.Dnum.fromInt 1) (Gsu.Dnum.fromInt 7) := by decide

-- non-vacuity: exact integers meet the two hypotheses
example : exactA.mul 1 7 = 7 ∧ exactA.div 7 7 = 1 := by decide

/-- Finding 23a: the "cannot do math on … literal" check fires on a folded intermediate:
`~(1 in (2, 3))` is `-1` at run time and a compile error when folded. -/
theorem fold_literal_check_counter :
    let e := Expr.unary .bitnot (.unary .paren (.inn (.const (.int 1)) [.const (.int 2), .const (.int 3)]))
    eval exactA [] e = some (.int (-1)) ∧ foldErr (foldE exactA e) = some .literal := by decide

/-- Finding 23b: operands behind a short circuit are folded eagerly:
`(1 is 10) and (not 5) and 2` is `false` at run time and a compile error when folded. -/
theorem fold_eager_counter :
    let e := Expr.nary .and [.unary .paren (.binary .is (.const (.int 1)) (.const (.int 10))),
      .unary .paren (.unary .not (.const (.int 5))), .const (.int 2)]
    eval exactA [] e = some (.bool false) ∧ foldErr (foldE exactA e) = some .eval := by decide

/-- Finding 23c: a short-circuit constant absorbs a non-boolean operand:
`x and false` with `x = 1` throws at run time and is `false` when folded. -/
theorem fold_absorb_nonboolean_counter :
    let e := Expr.nary .and [.var 0, .const (.bool false)]
    eval exactA [.int 1] e = none ∧ evalFolded exactA [.int 1] e = some (.bool false) := by decide

/-- New class: `x * 0` (and `x & 0`) with a non-number `x` throws at run time, is `0` folded. -/
theorem fold_absorb_nonnumber_counter :
    let e := Expr.nary .mul [.var 0, .const (.int 0)]
    eval exactA [.str [97]] e = none ∧ evalFolded exactA [.str [97]] e = some (.int 0) := by decide

/-- New class: the folder treats `0xffffffff` as the absorbing element of `|` (and the identity
of `&`), but the run-time operators work on 64-bit integers: `x | 0xffffffff` at `x = 2^32`. -/
theorem fold_bitor_32bit_counter :
    let e := Expr.nary .bitor [.var 0, .const (.int 4294967295)]
    eval exactA [.int 4294967296] e = some (.int 8589934591) ∧
    evalFolded exactA [.int 4294967296] e = some (.int 4294967295) := by decide

theorem fold_bitand_32bit_counter :
    let e := Expr.nary .bitand [.var 0, .var 1, .const (.int 4294967295)]
    let env := [Val.int 4294967296, Val.int 4294967296]
    eval exactA env e = some (.int 0) ∧ evalFolded exactA env e = some (.int 4294967296) := by decide

/-- Constant propagation (PropFold): replacing every read of a local by the constant it holds
(`Agrees`: the invariant single assignment gives — the local is assigned that constant and never
modified) leaves the value or exception of any expression unchanged, in every environment.
PARTIAL w.r.t. "programs with single-assignment locals": the statement-level part — that the
parser's `final` table only contains locals for which `Agrees` holds at every read (no other
assignment, not a loop or catch variable, not modified by ++ / op=) — is not modelled; it is
covered by the PropFold programs of the suite (loops of every form, try/catch, ++, op=, =~). -/
theorem propfold_subst_sound_partial (A : Arith) (σ : Nat → Option Val) (env : List Val)
    (h : Agrees σ env) (e : Expr) : eval A env (subst σ e) = eval A env e :=
  subst_sound h e

-- non-vacuity: a = 5 propagated into `x + a`
example : Agrees (fun i => if i = 1 then some (.int 5) else none) [.int 2, .int 5] := by
  intro i c h
  by_cases hi : i = 1
  · subst hi; simp at h; subst h; rfl
  · simp [hi] at h

/-! (G) the tables of folder.go as they are today -/

/-- the model's `inverseB` is the generated `inverseBinary` map on the model's operators -/
theorem gen_inverse_table (op : BOp) :
    (inverseB op).map bopName = Gsu.Gen.Folder.inverseBinary.lookup (bopName op) := by
  cases op <;> decide

/-- `reverseB` on the raw (comparison) operators is the generated `reverseBinary` map, and the
map has no entry for the others -/
theorem gen_reverse_table (op : BOp) :
    Gsu.Gen.Folder.reverseBinary.lookup (bopName op) =
      if rawOp op then some (bopName (reverseB op)) else none := by
  cases op <;> decide

/-- literal checks: unary `+ - ~` (and `/`), binary `%` (shifts and assignment operators are
outside the model) -/
theorem gen_math_tokens :
    Gsu.Gen.Folder.unaryMathToks = ["Add", "Sub", "BitNot", "Div"] ∧
    (∀ op : BOp, mathB op = Gsu.Gen.Folder.binaryMathToks.contains (bopName op)) := by
  refine ⟨by decide, ?_⟩
  intro op; cases op <;> decide

/-- per n-ary operator: whether ckMath runs, which routine folds it and with which
(function, zero, identity) — exactly the rows the mirror implements -/
theorem gen_nary_rules :
    Gsu.Gen.Folder.naryRules =
      [("Add", true, "commutative(n,OpAdd,nil,Zero)"),
       ("Mul", true, "foldMul(exprs)"),
       ("BitOr", true, "commutative(n,OpBitOr,allones,Zero)"),
       ("BitAnd", true, "commutative(n,OpBitAnd,Zero,allones)"),
       ("BitXor", true, "commutative(n,OpBitXor,nil,Zero)"),
       ("Or", false, "commutative(n,or,True,False);foldOrToIn(exprs)"),
       ("And", false, "commutative(n,and,False,True);foldRanges(exprs)"),
       ("Cat", false, "foldCat(exprs)")] ∧
    Gsu.Gen.Folder.allones = allones ∧
    zeroOf .bitor = some (.int allones) ∧ identOf .bitor = .int 0 ∧
    zeroOf .bitand = some (.int 0) ∧ identOf .bitand = .int allones ∧
    zeroOf .add = none ∧ identOf .add = .int 0 ∧ zeroOf .bitxor = none ∧ identOf .bitxor = .int 0 ∧
    zeroOf .or = some (.bool true) ∧ identOf .or = .bool false ∧
    zeroOf .and = some (.bool false) ∧ identOf .and = .bool true := by decide

end Gsu.Props.C30
