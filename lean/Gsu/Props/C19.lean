/-
C19 — Historical reads show the state as of the requested time.

"Moving a read transaction to a past time shows exactly the most recent persisted state at or
before that time, stepping to the previous or next persisted state visits persisted states in
order, and a time before the first state shows the initial state."
Quantifier: any history of persisted states with increasing timestamps and any requested time or
step sequence.

The theorems are about `Gsu.Model.Asof` (the definitions `Drive/C19.lean` executes): the file is
its list of state candidates (`magic1` occurrences with what `readState` returns), `WF` says they
are non-overlapping, in file order, not at offset 0 and inside the used size. `valid` = the
candidates `readState` accepts = the persisted states. `stateAsof` is the code as repaired by
fixes/10-asof-before-first.patch (`gen_off_of_valid_state` fails on the unrepaired source).
Helper lemmas: `Gsu/Proofs/Asof.lean`.
-/
import Gsu.Proofs.Asof
import Gsu.Gen.Asof
namespace Gsu.Props.C19
open Gsu.Asof

/-- A time request shows the most recent persisted state at or before that time: if the valid
states are `pre ++ c :: post` with `c.t ≤ asof` and every later state newer than `asof`
(which, for nondecreasing times, says `c` is the latest state with `t ≤ asof`), `stateAsof`
returns exactly `c` (offset, time and contents id). Invalid candidates anywhere are skipped. -/
theorem asof_latest_le (s : Store) (h : WF s) (asof : Int) (pre post : List Cand) (c : Cand)
    (hs : valid s.cands = pre ++ c :: post) (hc : c.t ≤ asof) (hpost : ∀ p ∈ post, asof < p.t) :
    stateAsof s asof = some c :=
  asof_split h asof pre post c hs hc hpost

/-- A time before the first state shows the first (initial) persisted state — with the offset
of that state (this is what finding 10 violates in the unrepaired code). -/
theorem asof_before_first (s : Store) (h : WF s) (asof : Int) (c : Cand) (rest : List Cand)
    (hs : valid s.cands = c :: rest) (hall : ∀ v ∈ valid s.cands, asof < v.t) :
    stateAsof s asof = some c :=
  asof_first h asof c rest hs hall

/-- Stepping from the `i`-th persisted state: `PrevState` is the `(i-1)`-th (none at the first),
`NextState` the `(i+1)`-th (none at the last); from "current" (`off = 0`) `PrevState` is the
newest and `NextState` the oldest persisted state. -/
theorem prev_next_order (s : Store) (h : WF s) :
    (∀ i c, (valid s.cands)[i]? = some c →
      prevState s c.off = (if i = 0 then none else (valid s.cands)[i - 1]?) ∧
      nextState s c.off = (valid s.cands)[i + 1]?) ∧
    prevState s 0 = (valid s.cands).getLast? ∧
    nextState s 0 = (valid s.cands).head? :=
  ⟨fun _ _ hi => ⟨prev_at h hi, next_at h hi⟩, prev_cur h, next_cur h⟩

/-- Any sequence of requests (−1, +1, 0, times, future times) on a read transaction is simulated
by the index machine `specStep` over the valid states (−1: `i ↦ i-1`, staying at 0; +1:
`i ↦ i+1`, staying at the last; time: the index of the last state with `t ≤ time`, 0 when there
is none; future: the position of the current state): after every prefix of the sequence the
transaction's offset is the offset of the state at the machine's index. In particular steps
visit the persisted states in file order without skipping or repeating. -/
theorem step_sequence_visits_in_order (s : Store) (h : WF s) (curPos : Option Nat)
    (hcur : Rel s curPos s.cur.off) (qs : List Req) (pos : Option Nat) (tr : Tran)
    (hr : Rel s pos tr.off) :
    Rel s (specRun ((valid s.cands).map (·.t)) curPos pos qs) (run s tr qs).off :=
  run_sim h curPos hcur qs pos tr hr

/-- What a request shows is always a persisted state of the file with its own time and contents
(or the current state, for a future time), or the transaction does not move. -/
theorem shown_is_persisted_state (s : Store) (tr : Tran) (a : Int) (fut : Bool) :
    (tranAsof s tr a fut).1 = tr ∨
    (∃ c ∈ valid s.cands, tranAsof s tr a fut = (⟨c.t, c.off, c.mid⟩, .ret c.t)) ∨
    (fut = true ∧ tranAsof s tr a fut = (⟨s.cur.t, s.cur.off, s.cur.mid⟩, .ret s.cur.t)) :=
  shown_is_state s tr a fut

-- non-vacuity: a three-state file with an invalid candidate in the middle is well-formed,
-- a fresh transaction is related to position `none`, and the theorems compute on it.
example : WF exStore := by
  refine ⟨by simp [exStore, Gap, magicLen], ?_⟩
  intro c hc
  simp only [exStore, List.mem_cons, List.not_mem_nil, or_false] at hc
  rcases hc with rfl | rfl | rfl | rfl <;> simp [magicLen, exStore]

example : Rel exStore (some 2) exStore.cur.off ∧ Rel exStore none (newTran exStore).off :=
  ⟨⟨⟨900, 30, 3⟩, by decide, rfl⟩, rfl⟩
example : stateAsof exStore 5 = some ⟨100, 10, 1⟩ := by decide
example : (run exStore (newTran exStore) [(5, false), (-1, false), (1, false), (1, false)]).off = 900 := by
  decide

/-- (G) the facts of state.go / tran.go the model builds in, re-read from the source: the search
string has the length `below` uses; the `Off` returned by `stateAsof` is NOT the `LastOffset`
loop variable (finding 10 repaired); the loop stops on `t <= asof`; `NextState` searches from
`off+1`; `PrevState` treats 0 as "end of file"; the `Asof` switch constants. -/
theorem gen_off_of_valid_state : Gsu.Gen.Asof.offIsLoopVar = false := rfl

theorem gen_shape :
    Gsu.Gen.Asof.magicLen = magicLen ∧
    (∀ t a, Gsu.Gen.Asof.asofStop t a = decide (t ≤ a)) ∧
    (∀ off, Gsu.Gen.Asof.nextFrom off = off + 1) ∧
    Gsu.Gen.Asof.prevZeroMeansEnd = true ∧
    Gsu.Gen.Asof.caseSame = 0 ∧ Gsu.Gen.Asof.casePrev = -1 ∧ Gsu.Gen.Asof.caseNext = 1 :=
  ⟨rfl, fun _ _ => rfl, fun _ => rfl, rfl, rfl, rfl, rfl⟩

end Gsu.Props.C19
