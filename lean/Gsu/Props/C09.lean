/-
C09 — Index iteration returns exactly the live keys in order.

"Iterating an index forwards or backwards over any range returns exactly the keys currently
present in that range, in sorted (respectively reverse) order, regardless of how the index is
split between stored tree, merged buffers and the transaction's own changes. Skip-scan iteration
returns exactly the keys whose prefix and suffix fall in the requested ranges, and after the
index changes an iterator continues from its current key as if it re-sought the next greater
(or smaller) key."

The theorems are about `Gsu.Iter.next` & co. (`Gsu/Model/Iter.lean`), the mirror of
`db19/index/overiter.go` that `drv_c09` executes against the real `OverIter`.

Specification: `sem Ls k` = the offset the top-most layer mentioning `k` gives it (none if that
layer deletes it); `IsNext Ls r bd res` = `res` is the least key `k` with `bd.ok k`, `k < r.end`,
`sem Ls k ≠ none` (with its offset), or no such key exists and `res = none`.
`Good oi` is the invariant of the mirror (layers sorted with keys below `ixkey.Max`, iterators
canonical w.r.t. curKey, fuel never exhausted).

PROVED (stage 1): every forward step that runs the slow path — first step after Rewind/Range,
every step after the transaction's own layer changed (`reseek_after_mod`), every step after the
overlay was replaced, and same-direction steps when the fast path is not available — returns
exactly the next live key, keeps the invariant, and the skip loop of `minIter` terminates.
NOT PROVED (kept visible below, tied to the code by the correspondence run only):
  * FULL `overiter_next_spec`: the same conclusion without `hslow`/`hdir`, i.e. also for steps
    that take `fastNext` (needs the companion invariant "every upd/del entry has an entry with the
    same key in a lower layer" and the `fastIdx/secondMin` bookkeeping) and for the first `Next`
    after a `Prev`;
  * `overiter_prev_spec`: the mirror image for `prev`/`maxIter`/`modPrev`/`fastPrev`
    (`IsPrev`: greatest live key below the bound);
  * `iterate_sorted_exact`: follows from the two by induction over the steps;
  * skip-scan: the per-layer skip-scan iterators (`skipAdvanceToMatch` …) are modelled as plain
    iterators over the visibility-filtered layer, not mirrored; `skipscan_sem` below is the
    OverIter-level half of the statement.
-/
import Gsu.Proofs.Iter
import Gsu.Gen.Iter
import Gsu.Gen.Ixkey
namespace Gsu.Props.C09
open Gsu.Iter

/-- A forward step on the slow path returns exactly the next live key of the range (with the
offset of the top-most layer), or eof when there is none, and re-establishes the invariant.
`hslow`: the fast path is not taken; `hdir`: the previous step was not a `Prev`.
(partial: see the header for the full statement) -/
theorem overiter_next_spec_partial (oi : OI) (hg : Good oi) (hne : oi.st ≠ .eof)
    (hdir : oi.st = .within → oi.pend = none → oi.lastDir = .next)
    (hslow : oi.st = .within → canFast (update oi).1 (update oi).2 .next = false) :
    Good (next oi) ∧ IsNext (curLayers oi) oi.rng (nextBd oi) (next oi).result ∧
      ((next oi).st = .within → (next oi).curOp = .add) :=
  next_slow oi hg hne hdir hslow

/-- eof is sticky -/
theorem next_eof_sticks (oi : OI) (h : oi.st = .eof) : next oi = oi := by
  simp [next, h]

/-- First step after `Rewind`: the least live key of the range. -/
theorem rewind_next_first (oi : OI) (hg : Good oi) :
    IsNext (curLayers oi) oi.rng (.ge oi.rng.org) (next (rewind oi)).result :=
  rewind_next oi hg

/-- First step after `Range r`: the least live key of `r`. -/
theorem range_next_first (oi : OI) (hg : Good oi) (r : Rng) :
    IsNext (curLayers oi) r (.ge r.org) (next (range oi r)).result :=
  range_next oi hg r

/-- Re-seek after modification: after the transaction's own (top) layer has been replaced by any
well-formed content `L`, the next forward step returns the least live key greater than curKey of
the *new* index content — as a fresh seek past curKey would. Full for the forward direction. -/
theorem reseek_after_mod (oi : OI) (hg : Good oi) (hst : oi.st = .within)
    (hdir : oi.pend = none → oi.lastDir = .next) (hne : curLayers oi ≠ [])
    (L : Layer) (hL : LWF L) :
    Good (next (mutate oi L)) ∧
    IsNext (curLayers (mutate oi L)) oi.rng (.gt oi.curKey) (next (mutate oi L)).result :=
  mutate_next oi hg hst hdir hne L hL

/-- The same when the transaction presents a different overlay (`update` builds new iterators
and every one of them is re-sought). -/
theorem reseek_after_new_overlay (oi : OI) (hg : Good oi) (hst : oi.st = .within)
    (Ls : List Layer) (hwf : WF Ls) :
    Good (next (newOverlay oi Ls)) ∧
    IsNext Ls oi.rng (.gt oi.curKey) (next (newOverlay oi Ls)).result :=
  newOverlay_next oi hg hst Ls hwf

/-- Keys come out strictly increasing (forward, slow path). -/
theorem next_increasing_partial (oi : OI) (hg : Good oi) (hst : oi.st = .within)
    (hdir : oi.pend = none → oi.lastDir = .next)
    (hslow : canFast (update oi).1 (update oi).2 .next = false)
    (hw : (next oi).st = .within) : oi.curKey < (next oi).curKey :=
  next_increasing oi hg hst hdir hslow hw

/-- The other operations keep the invariant, so the theorems above apply along any history of
Rewind / Range / mutation / overlay replacement / slow-path Next. -/
theorem good_preserved (oi : OI) (hg : Good oi) :
    Good (rewind oi) ∧ (∀ r, Good (range oi r)) ∧
    (∀ Ls, WF Ls → Good (newOverlay oi Ls)) ∧
    (∀ L, LWF L → curLayers oi ≠ [] → Good (mutate oi L)) :=
  ⟨good_rewind hg, good_range hg, fun _ h => good_newOverlay hg h, fun _ hL hne => good_mutate hg hne hL⟩

/-- Skip-scan at the OverIter level: the content of the visibility-filtered layers is the content
of the index restricted to the keys whose prefix and suffix fall in the requested ranges; the
mirror runs `next` on these layers, so `overiter_next_spec_partial` gives "exactly the visible
live keys in order". (partial: the per-layer skip-scan iterators are not mirrored) -/
theorem skipscan_sem_partial (pr sr : Rng) (n : Nat) (Ls : List Layer) (k : Key) :
    sem (Ls.map (filterL pr sr n)) k = if visible pr sr n k then sem Ls k else none :=
  sem_filter pr sr n Ls k

-- non-vacuity: a concrete three-layer stack (btree, layer with an update and a tombstone, mut)
def exLayers : List Layer :=
  [[⟨[1], .add, 10⟩, ⟨[2], .add, 11⟩, ⟨[3], .add, 12⟩],
   [⟨[2], .upd, 20⟩, ⟨[3], .del, 12⟩],
   [⟨[0, 0], .add, 30⟩]]

/-- non-vacuity: the example stack satisfies the well-formedness hypothesis -/
theorem example_layers_wf : WF exLayers := by
  intro L hL
  simp only [exLayers, List.mem_cons, List.mem_nil_iff, or_false] at hL
  rcases hL with rfl | rfl | rfl <;> exact ⟨by unfold SortedL; decide, by decide⟩

example : Good (newOverlay {} exLayers) := good_start example_layers_wf

-- the mirror on that stack: [0,0]/30, [1]/10, [2]/20, then eof ([3] is deleted)
example : (next (newOverlay {} exLayers)).result = some ([0, 0], 30) := by decide
example : (next (next (next (newOverlay {} exLayers)))).result = some ([2], 20) := by decide
example : (next (next (next (next (newOverlay {} exLayers))))).st = .eof := by decide

/-- (G) the flag bits the mirror decodes raw offsets with, the `ixkey.Max` sentinel `minIter`
compares with, and the state / direction constants are those of the Go source today. -/
theorem gen_constants :
    Gsu.Gen.Iter.cUpdate = updBit ∧ Gsu.Gen.Iter.cDelete = delBit ∧ Gsu.Gen.Iter.cInsert = 0 ∧
    Gsu.Gen.Ixkey.cMax = maxKey ∧ Gsu.Gen.Ixkey.cMin = Rng.all.org ∧
    (Gsu.Gen.Iter.st_rewound, Gsu.Gen.Iter.st_within, Gsu.Gen.Iter.st_eof) = (0, 1, 2) ∧
    (Gsu.Gen.Iter.dir_next, Gsu.Gen.Iter.dir_prev) = (1, -1) := by
  refine ⟨by decide, by decide, rfl, rfl, rfl, rfl, rfl⟩

end Gsu.Props.C09
