/-
C09 — Index iteration returns exactly the live keys in order.

"Iterating an index forwards or backwards over any range returns exactly the keys currently
present in that range, in sorted (respectively reverse) order, regardless of how the index is
split between stored tree, merged buffers and the transaction's own changes. Skip-scan iteration
returns exactly the keys whose prefix and suffix fall in the requested ranges, and after the
index changes an iterator continues from its current key as if it re-sought the next greater
(or smaller) key."

The theorems are about `Gsu.Iter.next`/`prev` & co. (`Gsu/Model/Iter.lean`), the mirror of
`db19/index/overiter.go` that `drv_c09` executes against the real `OverIter`.

Specification: `sem Ls k` = the offset the top-most layer mentioning `k` gives it (none if that
layer deletes it); `IsNext Ls r bd res` = `res` is the least key `k` with `bd.ok k`, `k < r.end`,
`sem Ls k ≠ none` (with its offset), or no such key exists and `res = none`; `IsPrev Ls r bu res`
the mirror image (greatest key with `bu.ok k`, `r.org ≤ k`).
`GoodB oi` is the invariant of the mirror (layers sorted with keys below `ixkey.Max`, iterators
canonical w.r.t. curKey for the direction of the last step, `fastIdx`/`secondMin`/`secondMax`
describe the iterators, fuel never exhausted); `Good oi` is its forward part (stage 1).
`Comp Ls` is the companion invariant `overiter.go` relies on for its fast path ("any tombstone or
update in this iter has a companion in another iter"): every entry that is not a plain add with a
non-zero offset has an entry with the same key in a lower layer. It is only needed for steps that
take the fast path (`fastpath_without_companion_counter` shows it cannot be dropped).

PROVED: `overiter_next_spec` / `overiter_prev_spec` — EVERY step of `Next`/`Prev` (first step after
Rewind/Range, slow path, fast path and its fall-back, first step after a step in the other
direction, after the transaction's own layer changed, after the overlay was replaced) returns
exactly the next/previous live key of the range with the offset of the top-most layer, without
flag bits, and re-establishes the invariant; `fastpath_refines_slow`; direction reversal;
re-seek after modification in both directions; `iterate_sorted_exact` (forward and backward:
iterating from Rewind to eof yields exactly the list of live keys of the range, in order, and
then eof); the executable specification printed by the driver (`specNext`/`specPrev`) equals
the relational one, so `Next`/`Prev` return exactly what it computes.
NOT PROVED (tied to the code by the correspondence run only):
  * skip-scan: the per-layer skip-scan iterators (`skipAdvanceToMatch` …) are modelled as plain
    iterators over the visibility-filtered layer, not mirrored; `skipscan_sem_partial` below is
    the OverIter-level half of the statement (all the theorems above apply to the filtered
    layers).
-/
import Gsu.Proofs.Iter9
import Gsu.Gen.Iter
import Gsu.Gen.Ixkey
namespace Gsu.Props.C09
open Gsu.Iter

/-- **Every** forward step returns exactly the next live key of the range (with the offset of the
top-most layer, flag bits removed), or eof when there is none, and re-establishes the invariant:
first step after Rewind/Range (`nextBd` = from `org`), slow path, fast path and its fall-back,
first `Next` after a `Prev`, after a modification or a new overlay. The companion invariant is
only needed when the fast path may be taken. -/
theorem overiter_next_spec (oi : OI) (hg : GoodB oi) (hne : oi.st ≠ .eof)
    (hcomp : canFast (update oi).1 (update oi).2 .next = true → Comp (curLayers oi)) :
    GoodB (next oi) ∧ IsNext (curLayers oi) oi.rng (nextBd oi) (next oi).result ∧
      ((next oi).st = .within → (next oi).curOp = .add) :=
  next_full oi hg hne hcomp

/-- The symmetric statement for every backward step (`prevBd` = below `end` after a rewind, else
below curKey). -/
theorem overiter_prev_spec (oi : OI) (hg : GoodB oi) (hne : oi.st ≠ .eof)
    (hcomp : canFast (update oi).1 (update oi).2 .prev = true → Comp (curLayers oi)) :
    GoodB (prev oi) ∧ IsPrev (curLayers oi) oi.rng (prevBd oi) (prev oi).result ∧
      ((prev oi).st = .within → (prev oi).curOp = .add) :=
  prev_full oi hg hne hcomp

/-- (stage 1, kept) A forward step on the slow path needs neither the companion invariant nor the
backward/fast-path part of the invariant. `hslow`: the fast path is not taken; `hdir`: the
previous step was not a `Prev`. -/
theorem next_slow_spec (oi : OI) (hg : Good oi) (hne : oi.st ≠ .eof)
    (hdir : oi.st = .within → oi.pend = none → oi.lastDir = .next)
    (hslow : oi.st = .within → canFast (update oi).1 (update oi).2 .next = false) :
    Good (next oi) ∧ IsNext (curLayers oi) oi.rng (nextBd oi) (next oi).result ∧
      ((next oi).st = .within → (next oi).curOp = .add) :=
  next_slow oi hg hne hdir hslow

/-- The fast path refines the slow path: whenever `canFast` holds, what `Next` returns (from
`fastNext`, or from its fall-back) is what `modNext; minIter` returns from the same state; the
same for `Prev`. -/
theorem fastpath_refines_slow (oi : OI) (hg : GoodB oi) (hp : oi.pend = none)
    (hst : oi.st = .within) (hcomp : Comp oi.layers) :
    (canFast oi false .next = true → (nextCore oi false).result = (nextSlow oi false).result) ∧
    (canFast oi false .prev = true → (prevCore oi false).result = (prevSlow oi false).result) :=
  ⟨fastNext_refines oi hg hp hst hcomp, fastPrev_refines oi hg hp hst hcomp⟩

/-- The companion invariant cannot be dropped: on a (well-formed) single layer holding a tombstone
without companion the fast path returns the deleted key. (`overiter.go` documents the invariant;
a btree never holds tombstones and ixbuf layers only delete keys present below.) -/
theorem fastpath_without_companion_counter :
    let Ls : List Layer := [[⟨[1], .add, 10⟩, ⟨[2], .del, 5⟩]]
    WF Ls ∧ ¬ Comp Ls ∧
    (next (next (newOverlay {} Ls))).result = some ([2], 5) ∧ sem Ls [2] = none := by
  refine ⟨?_, by unfold Comp; decide, by decide, by decide⟩
  intro L hL
  simp only [List.mem_cons, List.mem_nil_iff, or_false] at hL
  subst hL
  exact ⟨by unfold SortedL; decide, by decide⟩

/-- Direction reversal: a `Next` directly after a `Prev` that landed on key `k` returns the least
live key above `k`; a `Prev` directly after a `Next` that landed on `k` the greatest live key below
`k` (both also after the fast path was used for the first step). -/
theorem direction_reversal (oi : OI) (hg : GoodB oi) (hne : oi.st ≠ .eof)
    (hcomp : Comp (curLayers oi)) :
    ((prev oi).st = .within → GoodB (next (prev oi)) ∧
      IsNext (curLayers oi) oi.rng (.gt (prev oi).curKey) (next (prev oi)).result) ∧
    ((next oi).st = .within → GoodB (prev (next oi)) ∧
      IsPrev (curLayers oi) oi.rng (.lt (next oi).curKey) (prev (next oi)).result) :=
  ⟨next_after_prev oi hg hne hcomp, prev_after_next oi hg hne hcomp⟩

/-- Iterating forward from `Rewind` until eof returns exactly the live keys of the range with their
offsets, in increasing order — as a list equality with any list `spec` that is strictly increasing
and contains exactly the pairs `(k, off)` with `org ≤ k < end`, `sem Ls k = some off` — and the
step after the last key is eof. Backward: the same with the decreasing list. -/
theorem iterate_sorted_exact (oi : OI) (hg : GoodB oi) (hcomp : Comp (curLayers oi)) (n : Nat)
    (hn : totalLen (curLayers oi) < n) (spec : List (Key × Nat)) :
    (LiveAsc (curLayers oi) oi.rng spec →
      collectNext (rewind oi) n = spec ∧ (nextN (rewind oi) (spec.length + 1)).st = .eof) ∧
    (LiveDesc (curLayers oi) oi.rng spec →
      collectPrev (rewind oi) n = spec ∧ (prevN (rewind oi) (spec.length + 1)).st = .eof) :=
  ⟨iterate_fwd oi hg hcomp n hn spec, iterate_bwd oi hg hcomp n hn spec⟩

/-- From any state (not only after `Rewind`): the keys collected by repeated `Next` are strictly
increasing and are exactly the live keys past the bound; the mirror image for `Prev`. -/
theorem iterate_from_any_state (oi : OI) (hg : GoodB oi) (hne : oi.st ≠ .eof)
    (hcomp : Comp (curLayers oi)) (n : Nat) (hn : totalLen (curLayers oi) < n) :
    ((collectNext oi n).Pairwise (fun a b => a.1 < b.1) ∧
      ∀ k off, (k, off) ∈ collectNext oi n ↔
        ((nextBd oi).ok k = true ∧ k < oi.rng.end_ ∧ sem (curLayers oi) k = some off)) ∧
    ((collectPrev oi n).Pairwise (fun a b => b.1 < a.1) ∧
      ∀ k off, (k, off) ∈ collectPrev oi n ↔
        ((prevBd oi).ok k = true ∧ ¬ k < oi.rng.org ∧ sem (curLayers oi) k = some off)) :=
  ⟨collectNext_spec n oi hg hne hcomp
      (by have := cnt_le_total (nextBd oi) (curLayers oi); omega),
   collectPrev_spec n oi hg hne hcomp
      (by have := cntP_le_total (prevBd oi) (curLayers oi); omega)⟩

/-- `specNext = IsNext`: the executable specification the driver prints next to every step (and
the correspondence run compares with the real `OverIter` and with the Go sorted-map oracle) is the
relational specification, hence `Next`/`Prev` return exactly what it computes. -/
theorem spec_exec_eq_rel (oi : OI) (hg : GoodB oi) (hne : oi.st ≠ .eof)
    (hcomp : Comp (curLayers oi)) :
    (next oi).result = specNext (curLayers oi) oi.rng (nextBd oi) ∧
    (prev oi).result = specPrev (curLayers oi) oi.rng (prevUb oi) ∧
    (∀ Ls r bd, (∀ k, bd.ok k = true → ¬ k < r.org) → IsNext Ls r bd (specNext Ls r bd)) ∧
    (∀ Ls r ub, (∀ u, ub = some u → ¬ r.end_ < u) → IsPrev Ls r (ubBu r ub) (specPrev Ls r ub)) :=
  ⟨next_eq_spec oi hg hne (fun _ => hcomp), prev_eq_spec oi hg hne (fun _ => hcomp),
   specNext_isNext, specPrev_isPrev⟩

/-- eof is sticky -/
theorem next_eof_sticks (oi : OI) (h : oi.st = .eof) : next oi = oi := by
  simp [next, h]

/-- First step after `Rewind`: the least live key of the range. -/
theorem rewind_next_first (oi : OI) (hg : Good oi) :
    IsNext (curLayers oi) oi.rng (.ge oi.rng.org) (next (rewind oi)).result :=
  rewind_next oi hg

/-- First step after `Range r`: the least live key of `r`. -/
theorem range_next_first (oi : OI) (hg : Good oi) (r : Rng) :
    IsNext (curLayers oi) r (.ge r.org) (next (range oi r)).result :=
  range_next oi hg r

/-- Re-seek after modification: after the transaction's own (top) layer has been replaced by any
well-formed content `L`, the next forward step returns the least live key greater than curKey of
the *new* index content — as a fresh seek past curKey would. Full for the forward direction. -/
theorem reseek_after_mod (oi : OI) (hg : Good oi) (hst : oi.st = .within)
    (hdir : oi.pend = none → oi.lastDir = .next) (hne : curLayers oi ≠ [])
    (L : Layer) (hL : LWF L) :
    Good (next (mutate oi L)) ∧
    IsNext (curLayers (mutate oi L)) oi.rng (.gt oi.curKey) (next (mutate oi L)).result :=
  mutate_next oi hg hst hdir hne L hL

/-- The same when the transaction presents a different overlay (`update` builds new iterators
and every one of them is re-sought). -/
theorem reseek_after_new_overlay (oi : OI) (hg : Good oi) (hst : oi.st = .within)
    (Ls : List Layer) (hwf : WF Ls) :
    Good (next (newOverlay oi Ls)) ∧
    IsNext Ls oi.rng (.gt oi.curKey) (next (newOverlay oi Ls)).result :=
  newOverlay_next oi hg hst Ls hwf

/-- Re-seek after modification, both directions, from any previous direction: after the
transaction's own (top) layer has been replaced by any well-formed content `L`, the next step
returns the least live key greater (the greatest live key smaller) than curKey of the *new* index
content. No companion invariant needed (the fast path is never taken after a modification). -/
theorem reseek_after_mod_both (oi : OI) (hg : GoodB oi) (hst : oi.st = .within)
    (hne : curLayers oi ≠ []) (L : Layer) (hL : LWF L) :
    (GoodB (next (mutate oi L)) ∧
      IsNext (curLayers (mutate oi L)) oi.rng (.gt oi.curKey) (next (mutate oi L)).result) ∧
    (GoodB (prev (mutate oi L)) ∧
      IsPrev (curLayers (mutate oi L)) oi.rng (.lt oi.curKey) (prev (mutate oi L)).result) :=
  ⟨mutate_nextB oi hg hst hne L hL, mutate_prevB oi hg hst hne L hL⟩

/-- The same when the transaction presents a different overlay, both directions. -/
theorem reseek_after_new_overlay_both (oi : OI) (hg : GoodB oi) (hst : oi.st = .within)
    (Ls : List Layer) (hwf : WF Ls) :
    (GoodB (next (newOverlay oi Ls)) ∧
      IsNext Ls oi.rng (.gt oi.curKey) (next (newOverlay oi Ls)).result) ∧
    (GoodB (prev (newOverlay oi Ls)) ∧
      IsPrev Ls oi.rng (.lt oi.curKey) (prev (newOverlay oi Ls)).result) :=
  ⟨newOverlay_nextB oi hg hst Ls hwf, newOverlay_prevB oi hg hst Ls hwf⟩

/-- Keys come out strictly increasing under `Next` and strictly decreasing under `Prev`
(every path). -/
theorem next_increasing (oi : OI) (hg : GoodB oi) (hst : oi.st = .within)
    (hcomp : Comp (curLayers oi)) :
    ((next oi).st = .within → oi.curKey < (next oi).curKey) ∧
    ((prev oi).st = .within → (prev oi).curKey < oi.curKey) :=
  ⟨next_increasing_full oi hg hst (fun _ => hcomp), prev_decreasing_full oi hg hst (fun _ => hcomp)⟩

/-- The other operations keep the invariant, so the theorems above apply along any history of
Rewind / Range / mutation / overlay replacement / slow-path Next. -/
theorem good_preserved (oi : OI) (hg : Good oi) :
    Good (rewind oi) ∧ (∀ r, Good (range oi r)) ∧
    (∀ Ls, WF Ls → Good (newOverlay oi Ls)) ∧
    (∀ L, LWF L → curLayers oi ≠ [] → Good (mutate oi L)) :=
  ⟨good_rewind hg, good_range hg, fun _ h => good_newOverlay hg h, fun _ hL hne => good_mutate hg hne hL⟩

/-- The same for the two-directional invariant `GoodB` (which implies `Good`), so
`overiter_next_spec`/`overiter_prev_spec` apply along any history of Next / Prev / Rewind / Range /
mutation / overlay replacement starting from a fresh iterator. -/
theorem goodB_preserved (oi : OI) (hg : GoodB oi) :
    Good oi ∧ GoodB (rewind oi) ∧ (∀ r, GoodB (range oi r)) ∧
    (∀ Ls, WF Ls → GoodB (newOverlay oi Ls)) ∧
    (∀ L, LWF L → curLayers oi ≠ [] → GoodB (mutate oi L)) ∧
    (∀ Ls, WF Ls → GoodB (newOverlay {} Ls)) :=
  ⟨hg.good, goodB_rewind hg, goodB_range hg, fun _ h => goodB_newOverlay hg h,
   fun _ hL hne => goodB_mutate hg hne hL, fun _ h => goodB_start h⟩

/-- Skip-scan at the OverIter level: the content of the visibility-filtered layers is the content
of the index restricted to the keys whose prefix and suffix fall in the requested ranges; the
mirror runs `next` on these layers, so `overiter_next_spec_partial` gives "exactly the visible
live keys in order". (partial: the per-layer skip-scan iterators are not mirrored) -/
theorem skipscan_sem_partial (pr sr : Rng) (n : Nat) (Ls : List Layer) (k : Key) :
    sem (Ls.map (filterL pr sr n)) k = if visible pr sr n k then sem Ls k else none :=
  sem_filter pr sr n Ls k

-- non-vacuity: a concrete three-layer stack (btree, layer with an update and a tombstone, mut)
def exLayers : List Layer :=
  [[⟨[1], .add, 10⟩, ⟨[2], .add, 11⟩, ⟨[3], .add, 12⟩],
   [⟨[2], .upd, 20⟩, ⟨[3], .del, 12⟩],
   [⟨[0, 0], .add, 30⟩]]

/-- non-vacuity: the example stack satisfies the well-formedness hypothesis -/
theorem example_layers_wf : WF exLayers := by
  intro L hL
  simp only [exLayers, List.mem_cons, List.mem_nil_iff, or_false] at hL
  rcases hL with rfl | rfl | rfl <;> exact ⟨by unfold SortedL; decide, by decide⟩

example : Good (newOverlay {} exLayers) := good_start example_layers_wf
example : GoodB (newOverlay {} exLayers) := goodB_start example_layers_wf
/-- non-vacuity: the example stack satisfies the companion invariant -/
theorem example_layers_comp : Comp exLayers := by unfold Comp; decide

-- the mirror on that stack: [0,0]/30, [1]/10, [2]/20, then eof ([3] is deleted)
example : (next (newOverlay {} exLayers)).result = some ([0, 0], 30) := by decide
example : (next (next (next (newOverlay {} exLayers)))).result = some ([2], 20) := by decide
example : (next (next (next (next (newOverlay {} exLayers))))).st = .eof := by decide
-- backwards: [2]/20, [1]/10, [0,0]/30, eof; and a reversal
example : (prev (newOverlay {} exLayers)).result = some ([2], 20) := by decide
example : (prev (prev (prev (newOverlay {} exLayers)))).result = some ([0, 0], 30) := by decide
example : (prev (prev (prev (prev (newOverlay {} exLayers))))).st = .eof := by decide
example : (next (prev (prev (newOverlay {} exLayers)))).result = some ([2], 20) := by decide
example : collectNext (rewind (newOverlay {} exLayers)) 7 = [([0, 0], 30), ([1], 10), ([2], 20)] := by
  decide

/-- (G) the flag bits the mirror decodes raw offsets with, the `ixkey.Max` sentinel `minIter`
compares with, and the state / direction constants are those of the Go source today. -/
theorem gen_constants :
    Gsu.Gen.Iter.cUpdate = updBit ∧ Gsu.Gen.Iter.cDelete = delBit ∧ Gsu.Gen.Iter.cInsert = 0 ∧
    Gsu.Gen.Ixkey.cMax = maxKey ∧ Gsu.Gen.Ixkey.cMin = Rng.all.org ∧
    (Gsu.Gen.Iter.st_rewound, Gsu.Gen.Iter.st_within, Gsu.Gen.Iter.st_eof) = (0, 1, 2) ∧
    (Gsu.Gen.Iter.dir_next, Gsu.Gen.Iter.dir_prev) = (1, -1) := by
  refine ⟨by decide, by decide, rfl, rfl, rfl, rfl, rfl⟩

end Gsu.Props.C09
