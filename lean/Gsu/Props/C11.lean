/-
C11 — Index buffer merging is equivalent to applying changes in order.

"Merging any sequence of index change buffers yields the same key-to-change mapping as applying
each buffer's changes one after another, with add/update/delete combinations resolved
identically, keys kept sorted and unique, and input buffers left unchanged."
Quantifier: any list of buffers each holding valid sequences of adds/updates/deletes for
arbitrary keys, of any sizes (chunk pass-through boundaries included).

Property theorems only; helper lemmas live in `Gsu/Proofs/Ixbuf.lean`.  All theorems are about
the definitions of `Gsu.Model.Ixbuf` that `Drive/C11.lean` executes against `ixbuf.go`;
`combine` is defined through the regenerated decision table `Gsu.Gen.Ixbuf.combineTab`, chunk
sizes through the regenerated `Gsu.Gen.Ixbuf.goal`.
-/
import Gsu.Proofs.Ixbuf
import Gsu.Proofs.IxbufMerge3
import Gsu.Proofs.IxbufIns2
import Gsu.Proofs.IxbufAll
import Gsu.Gen.Ixbuf
namespace Gsu.Props.C11
open Gsu.Proto Gsu.Ixbuf

/-! ## (G) the regenerated parts -/

/-- The decision table read from `Combine`'s `switch ops`, interpreted on changes, is exactly the
five legal cases (with `oldoff` = the first offset for update·update and update·delete);
every other pair panics. -/
theorem combine_table (c1 c2 : Chg) :
    combineOld c1 c2 =
      match c1, c2 with
      | .add _, .upd o2 => some (some (.add o2), 0)
      | .add _, .del _ => some (none, 0)
      | .upd o1, .upd o2 => some (some (.upd o2), o1)
      | .upd o1, .del o2 => some (some (.del o2), o1)
      | .del _, .add o2 => some (some (.upd o2), 0)
      | _, _ => none :=
  Gsu.Ixbuf.combineOld_table c1 c2

/-- flag constants and shift amounts are the ones the encoding `code * 2^62 + off` assumes -/
theorem gen_consts :
    Gsu.Gen.Ixbuf.cUpdate = 2 ^ 62 ∧ Gsu.Gen.Ixbuf.cDelete = 2 ^ 63 ∧ Gsu.Gen.Ixbuf.cInsert = 0 ∧
    Gsu.Gen.Ixbuf.cMask = 2 ^ 40 - 1 ∧ Gsu.Gen.Ixbuf.shift1 = 60 ∧ Gsu.Gen.Ixbuf.shift2 = 62 :=
  Gsu.Ixbuf.gen_consts

/-- `ops := off1>>60 | off2>>62` on encoded offsets is the table index `4*code1 + code2` the model uses -/
theorem gen_ops_code (c1 c2 : Chg) (h1 : c1.off ≤ Gsu.Gen.Ixbuf.cMask) (h2 : c2.off ≤ Gsu.Gen.Ixbuf.cMask) :
    ((c1.code * Gsu.Gen.Ixbuf.cUpdate + c1.off) >>> Gsu.Gen.Ixbuf.shift1) |||
      ((c2.code * Gsu.Gen.Ixbuf.cUpdate + c2.off) >>> Gsu.Gen.Ixbuf.shift2) = 4 * c1.code + c2.code :=
  Gsu.Ixbuf.gen_ops_code c1 c2 h1 h2

/-- the regenerated `goal` is the step function 24/48/96/192/384/768 with thresholds
256, 1K, 4K, 16K, 64K -/
theorem gen_goal (n : Nat) : goalN n =
    if n < 256 then 24 else if n < 1024 then 48 else if n < 4096 then 96
    else if n < 16384 then 192 else if n < 65536 then 384 else 768 :=
  Gsu.Ixbuf.goalN_vals n

/-- `goal` is monotone and at least 24 (so `goal/2 ≥ 12` and a split leaves both halves non-empty) -/
theorem gen_goal_mono (a b : Nat) (h : a ≤ b) : 24 ≤ goalN a ∧ goalN a ≤ goalN b :=
  ⟨Gsu.Ixbuf.goalN_ge a, Gsu.Ixbuf.goalN_mono a b h⟩

/-! ## add/update/delete combinations are resolved identically -/

/-- Whenever applying `c1` then `c2` to a key's state is valid, `Combine` is defined and the
combined change (or the removal of the entry) has the same effect. -/
theorem combine_sound (s : KS) (c1 c2 : Chg) (s1 s2 : KS)
    (h1 : app s c1 = some s1) (h2 : app s1 c2 = some s2) :
    ∃ c, combine c1 c2 = some c ∧ appO s c = some s2 :=
  Gsu.Ixbuf.combine_sound s c1 c2 s1 s2 h1 h2

example : app none (.add 5) = some (some 5) ∧ app (some 5) (.del 5) = some none := ⟨rfl, rfl⟩

/-- `Combine` panics exactly on the pairs that are not a valid sequence from any state. -/
theorem combine_defined_iff (c1 c2 : Chg) :
    (combine c1 c2).isSome ↔ ∃ s s1 s2, app s c1 = some s1 ∧ app s1 c2 = some s2 :=
  Gsu.Ixbuf.combine_defined_iff c1 c2

/-- Folding any valid sequence of changes of one key with `Combine` (restarting after an
add·delete removal, as `Insert` and `outputSlot` do) never panics and leaves one change with
the effect of the whole sequence. -/
theorem mergeKey_sound (s : KS) (cs : List Chg) (s' : KS) (h : appAll s cs = some s') :
    ∃ m, mergeKey cs = some m ∧ appO s m = some s' :=
  Gsu.Ixbuf.mergeKey_sound s cs s' h

example : appAll none [.add 1, .upd 2, .del 2, .add 3] = some (some 3) := rfl
example : mergeKey [.add 1, .upd 2, .del 2, .add 3] = some (some (.add 3)) := by decide

/-! ## merging = applying in order (flat layers) -/

/-- For layers with strictly sorted keys that are valid when applied one after another to `m`,
the merge is defined, applying it to `m` gives the same map as applying the layers in order,
and its keys are strictly sorted. -/
theorem mergeFlat_spec (ls : List Layer) (m m' : Map) (hs : ∀ l ∈ ls, Sorted l)
    (h : applyLayers m ls = some m') :
    ∃ out, mergeFlat ls = some out ∧ applyLayer m out = some m' ∧ Sorted out :=
  Gsu.Ixbuf.mergeFlat_spec ls m m' hs h

/-- strictly sorted means unique keys -/
theorem sorted_unique (l : Layer) (h : Sorted l) : (l.map (·.1)).Nodup :=
  Gsu.Ixbuf.sorted_nodup l h

-- non-vacuity: three sorted layers, valid in order from the empty map, with every legal combination
example : let ls : List Layer := [[([1], .add 1), ([2], .add 2)], [([1], .upd 3), ([2], .del 2), ([3], .add 4)],
                                  [([2], .add 5), ([3], .del 4)]]
    (∀ l ∈ ls, Sorted l) ∧ (applyLayers (fun _ => none) ls).isSome ∧
      mergeFlat ls = some [([1], .add 3), ([2], .add 5)] := by
  refine ⟨?_, ?_, ?_⟩
  · simp [Sorted]; decide
  · simp [applyLayers, applyLayer, app, setKey]
  · simp [mergeFlat, merge2, combine, combineOld, Gsu.Gen.Ixbuf.combineTab, Chg.code, interpRes, interpOld, Chg.off]
    decide

/-! ## the chunked mirror (`Merge`, `merge.merge`, `passthru`, `outputSlot`, `outputChunk`, `flushbuf`)

`mergeChunks_flat` (FULL): the k-way merge with minimum selection (earliest input wins ties), chunk
pass-through, the `goal/2` rule and buffer flushing flattens to the flat left fold `mergeFlat` of
`mergeFlat_spec`, as an equation of `Option`s: it panics exactly when the flat fold does, and the
fuel of the mirror's loop always suffices.  Proof: `Gsu/Proofs/IxbufMerge{,2,3}.lean` (loop
invariant: output chunks strictly below, buffer not above, every remaining key; each iteration
leaves `foldlM merge2 (out.flatten ++ buf) remaining` unchanged and consumes a slot).
`merge_spec` combines it with `mergeFlat_spec`: merge = apply in order, sorted, unique, well formed.
The same equation is still *executed* by the driver on every merge line of the correspondence run
(output flag `flat=t`), and the direct oracles `merge-not-sequential` / `merge-unsorted` check it
on the implementation.

`inputs_unchanged`: not a theorem — the model is functional, inputs cannot change.  It is checked
only by the harness oracle `merge-input-mutated` (deep snapshot of every input before `Merge`,
compared afterwards, also when the result shares chunks with an input). -/

/-- `Merge` of at least two well-formed buffers (no empty chunk, `size` = number of slots) with
strictly sorted keys: the flattened result of the chunked k-way merge *is* the flat merge of the
flattened non-empty inputs — including the panic case (`none` on both sides). No validity
assumption on the changes. -/
theorem mergeChunks_flat (bs : List Buf) (hlen : 2 ≤ bs.length) (hwf : ∀ b ∈ bs, b.WF)
    (hs : ∀ b ∈ bs, Sorted b.flatten) :
    (merge bs).map Buf.flatten = mergeFlat ((bs.filter (fun b => b.size ≠ 0)).map Buf.flatten) :=
  Gsu.Ixbuf.merge_flat bs hlen hwf hs

/-- The property for the chunked mirror the driver runs: merging at least two well-formed, sorted
buffers whose changes are valid when applied one buffer after another to `m` never panics, and
the result is well formed, has strictly sorted (hence unique, `sorted_unique`) keys, and applying
it to `m` yields the same key→state map as applying the buffers in order. -/
theorem merge_spec (bs : List Buf) (m m' : Map) (hlen : 2 ≤ bs.length) (hwf : ∀ b ∈ bs, b.WF)
    (hs : ∀ b ∈ bs, Sorted b.flatten) (h : applyLayers m (bs.map Buf.flatten) = some m') :
    ∃ r, merge bs = some r ∧ r.WF ∧ Sorted r.flatten ∧ applyLayer m r.flatten = some m' :=
  Gsu.Ixbuf.merge_spec bs m m' hlen hwf hs h

/-- Closure: whenever `Merge` of at least two well-formed sorted buffers does not panic (valid
changes or not), the result is again well formed with strictly sorted keys — it satisfies the
hypotheses of `mergeChunks_flat` / `merge_spec` as an input of a later merge. -/
theorem merge_closed (bs : List Buf) (r : Buf) (hlen : 2 ≤ bs.length) (hwf : ∀ b ∈ bs, b.WF)
    (hs : ∀ b ∈ bs, Sorted b.flatten) (h : merge bs = some r) : r.WF ∧ Sorted r.flatten :=
  Gsu.Ixbuf.merge_inv bs r hlen hwf hs h

/-- Independently of sortedness and validity: merging well-formed buffers gives a well-formed
buffer (no empty chunk, `size` = number of slots) whenever `merge` does not panic.
(Formerly `mergeChunks_flat_partial`.) -/
theorem merge_wellformed (bs : List Buf) (r : Buf) (hb : ∀ b ∈ bs, b.WF)
    (h : merge bs = some r) : r.WF :=
  Gsu.Ixbuf.merge_wf bs r hb h

-- non-vacuity: a merge that combines (upd·del) across two well-formed sorted buffers, valid from
-- a map in which key [2] is present
example : let a : Buf := { chunks := [[([1], .add 1), ([2], .upd 2)]], size := 2 }
          let b : Buf := { chunks := [[([2], .del 2), ([3], .add 4)]], size := 2 }
    merge [a, b] = some { chunks := [[([1], .add 1), ([2], .del 2), ([3], .add 4)]], size := 3 } ∧
    (∀ x ∈ [a, b], x.WF) ∧ (∀ x ∈ [a, b], Sorted x.flatten) ∧
    (applyLayers (setKey (fun _ => none) [2] (some 7)) ([a, b].map Buf.flatten)).isSome := by
  refine ⟨by decide, ?_, ?_, ?_⟩
  · simp [Buf.WF, Buf.flatten]
  · simp [Buf.flatten, Sorted]; decide
  · simp [applyLayers, applyLayer, app, setKey, Buf.flatten]

/-! ## `ixbuf.Insert`

`insert_split_inv` (FULL): one `Insert`/`Update`/`Delete` (= `insert` with an `add`/`upd`/`del`
change) on a buffer satisfying the invariant `BufInv` (no empty chunk, `size` = number of slots,
keys strictly sorted over the whole chunk list) and a chunk-size bound keeps both, and is
functionally the flat two-way merge with the one-slot layer `[(k, c)]` — i.e. the binary searches
`searchChunks`/`search` find the sorted position, an existing key is combined (old change on the
left) or removed when the combination is 0, a new key is inserted in place and the chunk split
when it exceeds the regenerated `goal`.  `insert_flat` is the same as an equation of `Option`s
(panic ⟺ the flat merge panics ⟺ `Combine` of the existing change with the new one panics).
`insertAll_spec`: every history of valid changes from the empty buffer.
Proofs: `Gsu/Proofs/IxbufIns{,2}.lean`.
Chunk-size bound: "every chunk ≤ goal(size)" is NOT an invariant of the code (removals shrink
`size` and `goal` is a step function); what is preserved is `ChunkBound M` (1 ≤ len ≤ goal(M)) for
every `M` ≥ the largest size reached, hence ≤ 768 always. -/

/-- the split point lies strictly inside the chunk (both halves non-empty) -/
theorem split_point_inside (n i : Nat) (hn : 4 ≤ n) : 0 < splitAt n i ∧ splitAt n i < n :=
  Gsu.Ixbuf.splitAt_bounds n i hn

/-- One `Insert` that does not panic on a buffer with the invariant and chunk lengths in
`[1, goal(M)]`, `size + 1 ≤ M`: the invariant (well formed, strictly sorted = unique keys) and the
chunk bound hold afterwards; the new content is the flat merge of the old content with `[(k, c)]`;
`oldoff` is the one `Combine` returns for the existing change of `k`, and 0 when `k` was absent. -/
theorem insert_split_inv (b b' : Buf) (k : Bytes) (c : Chg) (old M : Nat) (hinv : BufInv b)
    (hb : ChunkBound M b) (hM : b.size + 1 ≤ M) (h : insert b k c = some (b', old)) :
    BufInv b' ∧ merge2 b.flatten [(k, c)] = some b'.flatten ∧
    (∀ c1, (k, c1) ∈ b.flatten → (combineOld c1 c).map (·.2) = some old) ∧
    ((∀ c1, (k, c1) ∉ b.flatten) → old = 0) ∧ ChunkBound M b' :=
  Gsu.Ixbuf.insert_split_inv b b' k c old M hinv hb hM h

/-- `Insert` = flat merge with a one-slot layer, panic case included (offset 0 excluded: Go panics
on `off == 0` before looking at the buffer). -/
theorem insert_flat (b : Buf) (k : Bytes) (c : Chg) (hinv : BufInv b) (hc : c ≠ .add 0) :
    (insert b k c).map (fun r => r.1.flatten) = merge2 b.flatten [(k, c)] :=
  Gsu.Ixbuf.insert_flat b k c hinv hc

/-- `Insert` panics exactly when the key is present with a change that `Combine` rejects -/
theorem insert_panics_iff (b : Buf) (k : Bytes) (c : Chg) (hinv : BufInv b) (hc : c ≠ .add 0) :
    insert b k c = none ↔ ∃ c1, (k, c1) ∈ b.flatten ∧ combine c1 c = none :=
  Gsu.Ixbuf.insert_none_iff b k c hinv hc

/-- Every history of `Insert`/`Update`/`Delete` from the empty buffer that is a valid change
sequence from `m`: no `Insert` panics; the buffer is the flat merge of the one-slot layers, has the
effect of applying the changes one by one, satisfies the invariant, chunk lengths in
`[1, goal(#ops)]`. -/
theorem insertAll_spec (ops : List (Bytes × Chg)) (n : Nat) (m m' : Map)
    (hops : ∀ o ∈ ops, o.2 ≠ .add 0)
    (h : applyLayers m (ops.map (fun o => [o])) = some m') :
    ∃ b olds, insertAll { chunks := [], size := 0 } n ops = some (b, olds) ∧
      mergeFlat (ops.map (fun o => [o])) = some b.flatten ∧
      applyLayer m b.flatten = some m' ∧ BufInv b ∧ ChunkBound ops.length b ∧ b.size ≤ ops.length :=
  Gsu.Ixbuf.insertAll_spec ops n m m' hops h

/-- Any history (valid or not) that does not panic leaves the invariant and the bound, and never
a chunk longer than 768. -/
theorem insertAll_inv (ops : List (Bytes × Chg)) (b : Buf) (n : Nat) (olds : List (Nat × Nat))
    (h : insertAll { chunks := [], size := 0 } n ops = some (b, olds)) :
    BufInv b ∧ ChunkBound ops.length b ∧ ∀ ch ∈ b.chunks, 1 ≤ ch.length ∧ ch.length ≤ 768 := by
  have hinv0 : BufInv { chunks := [], size := 0 } := ⟨⟨by simp, rfl⟩, Gsu.Ixbuf.sorted_nil⟩
  have hb := (Gsu.Ixbuf.insertAll_chunkBound ops _ b n ops.length olds hinv0
    (by intro ch hch; cases hch) (by simp) h).1
  exact ⟨Gsu.Ixbuf.insertAll_inv ops _ b n olds hinv0 h, hb, Gsu.Ixbuf.chunkBound_768 hb⟩

/-- The in-place step for an arbitrary position (formerly `insert_split_inv_partial`): inserting a
new slot at position `i` of chunk `ci` (splitting the chunk when it exceeds the generated `goal`)
keeps all chunks non-empty, adds one to `size`, and changes the flattened content only by that slot. -/
theorem insertNew_step (b : Buf) (ci i : Nat) (ch : Chunk) (k : Bytes) (c : Chg)
    (hci : ci < b.chunks.length) (hi : i ≤ ch.length) (hne : ∀ x ∈ b.chunks, x ≠ []) :
    (∀ x ∈ (insertNew b ci i ch k c).chunks, x ≠ []) ∧
    (insertNew b ci i ch k c).size = b.size + 1 ∧
    (insertNew b ci i ch k c).flatten =
      (b.chunks.take ci).flatten ++ (ch.take i ++ (k, c) :: ch.drop i) ++ (b.chunks.drop (ci + 1)).flatten :=
  ⟨Gsu.Ixbuf.insertNew_nonempty b ci i ch k c hne hi, Gsu.Ixbuf.insertNew_size b ci i ch k c,
   Gsu.Ixbuf.insertNew_flatten b ci i ch k c hci⟩

-- non-vacuity: Inserts that combine (add·upd) and order keys
example : (insertAll { chunks := [], size := 0 } 0 [([2], .add 1), ([1], .add 2), ([2], .upd 3)]).map (·.1) =
    some { chunks := [[([1], .add 2), ([2], .add 3)]], size := 2 } := by decide

/-! ## Insert-built buffers merged: the whole property for the mirror the driver runs -/

/-- For at least two op sequences that are valid when applied one after another to `m` (add only
on absent, update/delete only on present keys, across the sequences): building one buffer per
sequence with `Insert` never panics, `Merge` of these buffers never panics, and the merged buffer
is well formed, has strictly sorted unique keys and, applied to `m`, gives the same key→state map
as applying every change in order. -/
theorem build_merge_spec (opss : List (List (Bytes × Chg))) (m m' : Map) (hlen : 2 ≤ opss.length)
    (hops : ∀ ops ∈ opss, ∀ o ∈ ops, o.2 ≠ .add 0)
    (h : applyLayers m (opss.flatten.map (fun o => [o])) = some m') :
    ∃ (bs : List Buf) (r : Buf), opss.map built = bs.map some ∧ merge bs = some r ∧ BufInv r ∧
      applyLayer m r.flatten = some m' :=
  Gsu.Ixbuf.build_merge_spec opss m m' hlen hops h

-- non-vacuity: two valid sequences with add·upd inside a buffer and upd·del / del·add across
example : let opss : List (List (Bytes × Chg)) :=
      [[([2], .add 1), ([1], .add 2), ([2], .upd 3)], [([2], .del 3), ([2], .add 4), ([1], .upd 5)]]
    (applyLayers (fun _ => none) (opss.flatten.map (fun o => [o]))).isSome ∧
      (∀ ops ∈ opss, ∀ o ∈ ops, o.2 ≠ .add 0) := by
  refine ⟨?_, ?_⟩
  · simp [applyLayers, applyLayer, app, setKey]
  · simp only [List.mem_cons, List.not_mem_nil, or_false]
    rintro ops (rfl | rfl) o ho <;> simp only [List.mem_cons, List.not_mem_nil, or_false] at ho <;>
      rcases ho with rfl | rfl | rfl <;> simp

end Gsu.Props.C11
