/-
C11 — Index buffer merging is equivalent to applying changes in order.

"Merging any sequence of index change buffers yields the same key-to-change mapping as applying
each buffer's changes one after another, with add/update/delete combinations resolved
identically, keys kept sorted and unique, and input buffers left unchanged."
Quantifier: any list of buffers each holding valid sequences of adds/updates/deletes for
arbitrary keys, of any sizes (chunk pass-through boundaries included).

Property theorems only; helper lemmas live in `Gsu/Proofs/Ixbuf.lean`.  All theorems are about
the definitions of `Gsu.Model.Ixbuf` that `Drive/C11.lean` executes against `ixbuf.go`;
`combine` is defined through the regenerated decision table `Gsu.Gen.Ixbuf.combineTab`, chunk
sizes through the regenerated `Gsu.Gen.Ixbuf.goal`.
-/
import Gsu.Proofs.Ixbuf
import Gsu.Gen.Ixbuf
namespace Gsu.Props.C11
open Gsu.Proto Gsu.Ixbuf

/-! ## (G) the regenerated parts -/

/-- The decision table read from `Combine`'s `switch ops`, interpreted on changes, is exactly the
five legal cases (with `oldoff` = the first offset for update·update and update·delete);
every other pair panics. -/
theorem combine_table (c1 c2 : Chg) :
    combineOld c1 c2 =
      match c1, c2 with
      | .add _, .upd o2 => some (some (.add o2), 0)
      | .add _, .del _ => some (none, 0)
      | .upd o1, .upd o2 => some (some (.upd o2), o1)
      | .upd o1, .del o2 => some (some (.del o2), o1)
      | .del _, .add o2 => some (some (.upd o2), 0)
      | _, _ => none :=
  Gsu.Ixbuf.combineOld_table c1 c2

/-- flag constants and shift amounts are the ones the encoding `code * 2^62 + off` assumes -/
theorem gen_consts :
    Gsu.Gen.Ixbuf.cUpdate = 2 ^ 62 ∧ Gsu.Gen.Ixbuf.cDelete = 2 ^ 63 ∧ Gsu.Gen.Ixbuf.cInsert = 0 ∧
    Gsu.Gen.Ixbuf.cMask = 2 ^ 40 - 1 ∧ Gsu.Gen.Ixbuf.shift1 = 60 ∧ Gsu.Gen.Ixbuf.shift2 = 62 :=
  Gsu.Ixbuf.gen_consts

/-- `ops := off1>>60 | off2>>62` on encoded offsets is the table index `4*code1 + code2` the model uses -/
theorem gen_ops_code (c1 c2 : Chg) (h1 : c1.off ≤ Gsu.Gen.Ixbuf.cMask) (h2 : c2.off ≤ Gsu.Gen.Ixbuf.cMask) :
    ((c1.code * Gsu.Gen.Ixbuf.cUpdate + c1.off) >>> Gsu.Gen.Ixbuf.shift1) |||
      ((c2.code * Gsu.Gen.Ixbuf.cUpdate + c2.off) >>> Gsu.Gen.Ixbuf.shift2) = 4 * c1.code + c2.code :=
  Gsu.Ixbuf.gen_ops_code c1 c2 h1 h2

/-- the regenerated `goal` is the step function 24/48/96/192/384/768 with thresholds
256, 1K, 4K, 16K, 64K -/
theorem gen_goal (n : Nat) : goalN n =
    if n < 256 then 24 else if n < 1024 then 48 else if n < 4096 then 96
    else if n < 16384 then 192 else if n < 65536 then 384 else 768 :=
  Gsu.Ixbuf.goalN_vals n

/-- `goal` is monotone and at least 24 (so `goal/2 ≥ 12` and a split leaves both halves non-empty) -/
theorem gen_goal_mono (a b : Nat) (h : a ≤ b) : 24 ≤ goalN a ∧ goalN a ≤ goalN b :=
  ⟨Gsu.Ixbuf.goalN_ge a, Gsu.Ixbuf.goalN_mono a b h⟩

/-! ## add/update/delete combinations are resolved identically -/

/-- Whenever applying `c1` then `c2` to a key's state is valid, `Combine` is defined and the
combined change (or the removal of the entry) has the same effect. -/
theorem combine_sound (s : KS) (c1 c2 : Chg) (s1 s2 : KS)
    (h1 : app s c1 = some s1) (h2 : app s1 c2 = some s2) :
    ∃ c, combine c1 c2 = some c ∧ appO s c = some s2 :=
  Gsu.Ixbuf.combine_sound s c1 c2 s1 s2 h1 h2

example : app none (.add 5) = some (some 5) ∧ app (some 5) (.del 5) = some none := ⟨rfl, rfl⟩

/-- `Combine` panics exactly on the pairs that are not a valid sequence from any state. -/
theorem combine_defined_iff (c1 c2 : Chg) :
    (combine c1 c2).isSome ↔ ∃ s s1 s2, app s c1 = some s1 ∧ app s1 c2 = some s2 :=
  Gsu.Ixbuf.combine_defined_iff c1 c2

/-- Folding any valid sequence of changes of one key with `Combine` (restarting after an
add·delete removal, as `Insert` and `outputSlot` do) never panics and leaves one change with
the effect of the whole sequence. -/
theorem mergeKey_sound (s : KS) (cs : List Chg) (s' : KS) (h : appAll s cs = some s') :
    ∃ m, mergeKey cs = some m ∧ appO s m = some s' :=
  Gsu.Ixbuf.mergeKey_sound s cs s' h

example : appAll none [.add 1, .upd 2, .del 2, .add 3] = some (some 3) := rfl
example : mergeKey [.add 1, .upd 2, .del 2, .add 3] = some (some (.add 3)) := by decide

/-! ## merging = applying in order (flat layers) -/

/-- For layers with strictly sorted keys that are valid when applied one after another to `m`,
the merge is defined, applying it to `m` gives the same map as applying the layers in order,
and its keys are strictly sorted. -/
theorem mergeFlat_spec (ls : List Layer) (m m' : Map) (hs : ∀ l ∈ ls, Sorted l)
    (h : applyLayers m ls = some m') :
    ∃ out, mergeFlat ls = some out ∧ applyLayer m out = some m' ∧ Sorted out :=
  Gsu.Ixbuf.mergeFlat_spec ls m m' hs h

/-- strictly sorted means unique keys -/
theorem sorted_unique (l : Layer) (h : Sorted l) : (l.map (·.1)).Nodup :=
  Gsu.Ixbuf.sorted_nodup l h

-- non-vacuity: three sorted layers, valid in order from the empty map, with every legal combination
example : let ls : List Layer := [[([1], .add 1), ([2], .add 2)], [([1], .upd 3), ([2], .del 2), ([3], .add 4)],
                                  [([2], .add 5), ([3], .del 4)]]
    (∀ l ∈ ls, Sorted l) ∧ (applyLayers (fun _ => none) ls).isSome ∧
      mergeFlat ls = some [([1], .add 3), ([2], .add 5)] := by
  refine ⟨?_, ?_, ?_⟩
  · simp [Sorted]; decide
  · simp [applyLayers, applyLayer, app, setKey]
  · simp [mergeFlat, merge2, combine, combineOld, Gsu.Gen.Ixbuf.combineTab, Chg.code, interpRes, interpOld, Chg.off]
    decide

/-! ## the chunked mirror (`Merge`, `merge.merge`, `passthru`, `outputSlot`, `outputChunk`, `flushbuf`)

FULL STATEMENT `mergeChunks_flat` (NOT proved):
  for buffers `bs` (at least two) that are well formed (`Buf.WF`), have strictly sorted keys and
  are valid when applied in order,
    `∃ r, merge bs = some r ∧ mergeFlat ((bs.filter (·.size ≠ 0)).map Buf.flatten) = some r.flatten`
  i.e. the k-way merge with chunk pass-through, the `goal/2` rule and buffer flushing flattens to
  the flat merge of `mergeFlat_spec` (hence: is sorted/unique and equals applying in order).
Proved below is only the part "no empty chunk, `size` = number of slots".  Missing: the loop
invariant relating the k-way minimum selection / pass-through to the left fold of `merge2`
(and that the fuel suffices).  The equation itself is *executed* by the driver on every merge
line of the correspondence run (output flag `flat=t`), and the direct oracles
`merge-not-sequential` / `merge-unsorted` check it on the implementation.

`inputs_unchanged`: not a theorem — the model is functional, inputs cannot change.  It is checked
only by the harness oracle `merge-input-mutated` (deep snapshot of every input before `Merge`,
compared afterwards, also when the result shares chunks with an input). -/

/-- Part of `mergeChunks_flat`: merging well-formed buffers (no empty chunk, `size` = number of
slots) gives a well-formed buffer, for any inputs on which `merge` does not panic. -/
theorem mergeChunks_flat_partial (bs : List Buf) (r : Buf) (hb : ∀ b ∈ bs, b.WF)
    (h : merge bs = some r) : r.WF :=
  Gsu.Ixbuf.merge_wf bs r hb h

-- non-vacuity: a merge that combines (upd·del) across two well-formed buffers
example : let a : Buf := { chunks := [[([1], .add 1), ([2], .upd 2)]], size := 2 }
          let b : Buf := { chunks := [[([2], .del 2), ([3], .add 4)]], size := 2 }
    merge [a, b] = some { chunks := [[([1], .add 1), ([2], .del 2), ([3], .add 4)]], size := 3 } := by
  decide

/-! ## `ixbuf.Insert`

FULL STATEMENT `insert_split_inv` (NOT proved): for a well-formed buffer `b` with strictly sorted
keys, `insert b k c = some (b', old)` implies `b'` is well formed, strictly sorted, and
`b'.flatten` is `b.flatten` with key `k` updated by the per-key step `mergeStep`.
Proved below: the "insert in place" + chunk split step, for any position.  Missing: that
`searchChunks`/`search` (binary searches) return the sorted position, and the branch that
combines with an existing key / removes the slot (`remove`).  Both are exercised by the
correspondence run (one Q line per Insert-built buffer) and the oracles `insert-not-sequential`,
`insert-unsorted`. -/

/-- the split point lies strictly inside the chunk (both halves non-empty) -/
theorem split_point_inside (n i : Nat) (hn : 4 ≤ n) : 0 < splitAt n i ∧ splitAt n i < n :=
  Gsu.Ixbuf.splitAt_bounds n i hn

/-- Part of `insert_split_inv`: inserting a new slot at position `i` of chunk `ci` (splitting the
chunk when it exceeds the generated `goal`) keeps all chunks non-empty, adds one to `size`, and
changes the flattened content only by that one slot. -/
theorem insert_split_inv_partial (b : Buf) (ci i : Nat) (ch : Chunk) (k : Bytes) (c : Chg)
    (hci : ci < b.chunks.length) (hi : i ≤ ch.length) (hne : ∀ x ∈ b.chunks, x ≠ []) :
    (∀ x ∈ (insertNew b ci i ch k c).chunks, x ≠ []) ∧
    (insertNew b ci i ch k c).size = b.size + 1 ∧
    (insertNew b ci i ch k c).flatten =
      (b.chunks.take ci).flatten ++ (ch.take i ++ (k, c) :: ch.drop i) ++ (b.chunks.drop (ci + 1)).flatten :=
  ⟨Gsu.Ixbuf.insertNew_nonempty b ci i ch k c hne hi, Gsu.Ixbuf.insertNew_size b ci i ch k c,
   Gsu.Ixbuf.insertNew_flatten b ci i ch k c hci⟩

-- non-vacuity: Inserts that combine (add·upd) and order keys
example : (insertAll { chunks := [], size := 0 } 0 [([2], .add 1), ([1], .add 2), ([2], .upd 3)]).map (·.1) =
    some { chunks := [[([1], .add 2), ([2], .add 3)]], size := 2 } := by decide

end Gsu.Props.C11
