/-
C26 — Numeric operations follow decimal number semantics.

"Arithmetic on numbers gives the same result whether the operands happen to be represented as
small integers, 64-bit integers or decimals: integer results are exact when they fit and
otherwise fall back to decimal arithmetic instead of wrapping around. Comparisons and equality
of numbers agree across representations."

The model (`Gsu.Model.NumOps`, the definitions the driver `Drive/C26.lean` executes) mirrors the
REPAIRED fast paths (fixes/05-int-overflow.patch). The theorems say that the overflow tests of
that code are exact for every pair of int64 values. Helper lemmas: `Gsu/Proofs/NumOps.lean`.
-/
import Gsu.Proofs.NumOps
import Gsu.Proofs.DnumInt
namespace Gsu.Props.C26
open Gsu.Num Gsu.Dnum

/-- `+` on two int operands (either representation): the exact sum if it fits int64, otherwise
the decimal sum of the converted operands — never a wrapped value. -/
theorem intfast_exact_add (a b : Num) (x y : Int) (ha : asInt a = some x) (hb : asInt b = some y)
    (hx : inInt64 x) (hy : inInt64 y) :
    opAdd a b = if inInt64 (x + y) then intVal (x + y) else .dn (Dnum.add (toDnum a) (toDnum b)) :=
  opAdd_int a b x y ha hb hx hy

theorem intfast_exact_sub (a b : Num) (x y : Int) (ha : asInt a = some x) (hb : asInt b = some y)
    (hx : inInt64 x) (hy : inInt64 y) :
    opSub a b = if inInt64 (x - y) then intVal (x - y) else .dn (Dnum.sub (toDnum a) (toDnum b)) :=
  opSub_int a b x y ha hb hx hy

/-- `*`: the division test on the wrapped product (`z/x == y && !(x == -1 && y == MinInt)`)
accepts exactly the products that fit. -/
theorem intfast_exact_mul (a b : Num) (x y : Int) (ha : asInt a = some x) (hb : asInt b = some y)
    (hx : inInt64 x) (hy : inInt64 y) :
    opMul a b = if inInt64 (x * y) then intVal (x * y) else .dn (Dnum.mul (toDnum a) (toDnum b)) :=
  opMul_int a b x y ha hb hx hy

/-- `/`: an int result only for an exact quotient that fits (`MinInt / -1` does not). -/
theorem intfast_exact_div (a b : Num) (x y : Int) (ha : asInt a = some x) (hb : asInt b = some y)
    (hx : inInt64 x) (hy : inInt64 y) :
    opDiv a b = if y ≠ 0 ∧ Int.tmod x y = 0 ∧ inInt64 (Int.tdiv x y) then intVal (Int.tdiv x y)
      else .dn (Dnum.div (toDnum a) (toDnum b)) :=
  opDiv_int a b x y ha hb hx hy

theorem intfast_exact_neg (a : Num) (x : Int) (ha : asInt a = some x) (hx : inInt64 x) :
    opNeg a = if inInt64 (-x) then intVal (-x) else .dn (Dnum.neg (toDnum a)) :=
  opNeg_int a x ha hx

/-- `++` / `+ 1` (`OpAdd1`) -/
theorem intfast_exact_add1 (a : Num) (x : Int) (ha : asInt a = some x) (hx : inInt64 x) :
    opAdd1 a = if inInt64 (x + 1) then intVal (x + 1) else .dn (Dnum.add (toDnum a) Dnum.one) :=
  opAdd1_int a x ha hx

-- non-vacuity: the boundary inputs of finding 5 satisfy the hypotheses, and take the else branch
example : asInt (.i64 4294967296) = some 4294967296 ∧ inInt64 4294967296 ∧
    ¬ inInt64 (4294967296 * 4294967296) := by decide
example : opMul (.i64 4294967296) (.i64 4294967296) = .dn ⟨1844674407370955, 1, 20⟩ := by decide
example : opAdd (.i64 9223372036854775807) (.smi 1) = .dn ⟨9223372036854776, 1, 19⟩ := by decide
example : opAdd (.i64 9223372036854775806) (.smi 1) = .i64 9223372036854775807 := by decide

/-- with a decimal operand every operation is the decimal operation on the converted operands -/
theorem dnum_path (a b : Num) (h : asInt a = none ∨ asInt b = none) :
    opAdd a b = .dn (Dnum.add (toDnum a) (toDnum b)) ∧ opSub a b = .dn (Dnum.sub (toDnum a) (toDnum b)) ∧
    opMul a b = .dn (Dnum.mul (toDnum a) (toDnum b)) ∧ opDiv a b = .dn (Dnum.div (toDnum a) (toDnum b)) :=
  ⟨opAdd_dnum a b h, opSub_dnum a b h, opMul_dnum a b h, opDiv_dnum a b h⟩

/-- Equal across representations: symmetric; two ints (smi / SuInt64 in any mix) are equal iff
the integers are; an int equals a decimal iff the decimal converts to exactly that int64. -/
theorem cross_rep_equal (a b : Num) :
    equal a b = equal b a ∧
    (∀ x y, asInt a = some x → asInt b = some y → (equal a b = true ↔ x = y)) ∧
    (∀ x d, asInt a = some x → b = .dn d → (equal a b = true ↔ toInt64 d = some x)) :=
  ⟨equal_comm a b, fun x y ha hb => equal_ints a b x y ha hb,
   fun x d ha hb => hb ▸ equal_int_dnum a x d ha⟩

example : equal (.smi 32767) (.i64 32767) = true ∧ equal (.i64 100000) (.dn ⟨1000000000000000, 1, 6⟩) = true ∧
    equal (.dn ⟨1000000000000000, 1, 17⟩) (.i64 10000000000000001) = false := by decide

/-- Compare across representations, part 1: between ints (smi / SuInt64 in any mix) it is the
integer order, whatever the representation. -/
theorem cross_rep_compare_ints (a b : Num) (x y : Int) (ha : asInt a = some x) (hb : asInt b = some y) :
    Num.compare a b = cmpInt x y :=
  compare_ints a b x y ha hb

/-- Compare across representations, part 2: an int of at most 16 digits compares with any number
exactly like its decimal twin `FromInt n` (in either argument position).

FULL statement wanted: the same for every int64. It is FALSE for ints of more than 16 digits:
`SuInt64.Compare(SuDnum)` rounds the int to 16 digits first (see `cross_rep_compare_counter`,
findings/C26.md) — hence `_partial` with the hypothesis `|n| < 10^16` on the ints involved. -/
theorem cross_rep_compare_partial (a b : Num) (n : Int) (ha : asInt a = some n)
    (hn : n.natAbs < 10 ^ 16) (hb : ∀ m, asInt b = some m → m.natAbs < 10 ^ 16) :
    Num.compare a b = Num.compare (.dn (fromInt n)) b ∧ Num.compare b a = Num.compare b (.dn (fromInt n)) :=
  compare_twin a b n ha hn hb

example : asInt (.i64 100000) = some 100000 ∧ (100000 : Int).natAbs < 10 ^ 16 := by decide

/-- counter-witness for ints of 17 digits: `10^16 + 1` compares equal to the decimal `1e16`
although `10^16 + 1 > 10^16` as ints — Compare is not representation independent there. -/
theorem cross_rep_compare_counter :
    Num.compare (.i64 10000000000000001) (.dn (fromInt 10000000000000000)) = 0 ∧
    Num.compare (.i64 10000000000000001) (.i64 10000000000000000) = 1 := by decide

end Gsu.Props.C26
