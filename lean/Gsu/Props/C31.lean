/-
C31 — Displayed constants evaluate back to equal values.

"For any constant value (strings with any bytes, numbers, dates, booleans, and objects or
records of these), evaluating its displayed text yields a value equal to the original. An
unterminated string literal, with or without escape sequences, is always reported as an error
by the code and query compilers rather than silently accepted."

Proved here (for all byte strings): the string part — what sustr.escapeStr writes, Lexer.next
reads back, for every quote choice incl. the back quote chosen by bestQuote, for both lexers
and whatever follows the literal; unterminated literals are errors. The lexer mirrored is the
REPAIRED one (DESIGN §6 finding 6, fixes/06-unterminated-string.patch); `IsIdentifier` /
`Unquoted` are the REPAIRED ones (finding 22, fixes/22-isidentifier.patch); the `_counter`
theorems show the code as it is today violates the property.

NOT proved (tied by the correspondence suites only): numbers (C27) and dates (C33) display
round trip, and the container round trip
  ∀ v : nested object/record of strings, numbers, dates, booleans with named and unnamed
    members, compile.Constant (v.String()) = v
which needs a mirror of the constant parser.
-/
import Gsu.Proofs.Display
namespace Gsu.Props.C31
open Gsu.Proto Gsu.Ascii Gsu.Lexer Gsu.Display

/-- `lex_escape_roundtrip`: for every byte string, every quote mode of SuStr.Display
(0 = bestQuote or DefaultSingleQuotes, 1 = single, 2 = double), the lexer (code or query),
positioned at the displayed text and followed by anything, returns one String item with
exactly the original bytes and consumes exactly the displayed text -/
theorem lex_escape_roundtrip (query : Bool) (s : Bytes) (which : Nat) (dsq : Bool) (tail : Bytes) :
    next query (escapeStr s which dsq ++ tail) =
      (⟨"String", s⟩, (escapeStr s which dsq).length) := by
  unfold escapeStr
  have hraw : ∀ h : 96 ∉ s, next query (96 :: (s ++ [96]) ++ tail) =
      (⟨"String", s⟩, (96 :: (s ++ [96])).length) := by
    intro h; rw [next_raw query s tail h]; simp
  by_cases h0 : which = 0
  · subst h0
    cases dsq
    · simp only [if_true, Bool.false_eq_true, if_false]
      rcases bestQuote_cases s with h | h | ⟨h, hn⟩
      · rw [h]; exact next_escape query 34 (Or.inl rfl) s tail
      · rw [h]; exact next_escape query 39 (Or.inr rfl) s tail
      · rw [h]; exact hraw hn
    · exact next_escape query 39 (Or.inr rfl) s tail
  · by_cases h1 : which = 1
    · subst h1; exact next_escape query 39 (Or.inr rfl) s tail
    · simp only [h0, h1, if_false]
      exact next_escape query 34 (Or.inl rfl) s tail

-- non-vacuity: a string with both quotes, a backslash, NUL, newline and 0xff, double quoted
example : next false (escapeStr [97, 34, 39, 92, 0, 10, 255] 2 false ++ [44]) =
    (⟨"String", [97, 34, 39, 92, 0, 10, 255]⟩, 18) := by decide

/-- `unterminated_is_error`: a quote followed by any bytes that do not contain that quote —
with or without escape sequences — is an Error item ("missing closing quote") spanning the
rest of the input, never a String (code and query lexer, all three quote characters) -/
theorem unterminated_is_error (query : Bool) (q : UInt8) (hq : q = 34 ∨ q = 39 ∨ q = 96)
    (body : Bytes) (h : q ∉ body) :
    next query (q :: body) = (⟨"Error", msgQuote⟩, body.length + 1) := by
  rcases hq with rfl | rfl | rfl
  · have := quotedString_unterminated 34 (Or.inl rfl) body h
    unfold next; simpa [rd] using this
  · have := quotedString_unterminated 39 (Or.inr rfl) body h
    unfold next; simpa [rd] using this
  · unfold next
    have e1 : rd 96 = 96 := rfl
    simp only [e1]
    have a1 : ((96 : UInt8) = 35) = False := by decide
    have a2 : ((96 : UInt8) = 47) = False := by decide
    simp only [a1, a2, if_false, if_true, rawString, List.tail_cons, List.length_cons]
    have : ¬ (spanWhile (fun c => c != 96) body < body.length) := by
      have : ∀ l : Bytes, 96 ∉ l → spanWhile (fun c => c != 96) l = l.length := by
        intro l hl
        induction l with
        | nil => rfl
        | cons c r ih =>
          simp only [List.mem_cons, not_or] at hl
          have hc : (c != 96) = true := by simp; exact fun e => hl.1 e.symm
          simp only [spanWhile, hc, if_true, ih hl.2, List.length_cons]; omega
      rw [this body h]; omega
    simp only [this, if_false]

/-- a String item that starts at a `"` or `'` spans at least the two quotes, stays inside the
input and its last byte is the quote: the lexer never returns a String for a literal that is
cut off by the end of the input -/
theorem string_token_closed (query : Bool) (q : UInt8) (hq : q = 34 ∨ q = 39) (body t : Bytes) (n : Nat)
    (h : next query (q :: body) = (⟨"String", t⟩, n)) :
    2 ≤ n ∧ n ≤ body.length + 1 ∧ (q :: body).getD (n - 1) 0 = q := by
  apply quotedString_closed q hq body t n
  rcases hq with rfl | rfl
  · unfold next at h; simpa [rd] using h
  · unfold next at h; simpa [rd] using h

example : next false [39, 97, 92, 39, 39, 120] = (⟨"String", [97, 39]⟩, 5) := by decide

-- non-vacuity: the input of finding 6, `"abc\n` (escape, no closing quote)
example : next false [34, 97, 98, 99, 92, 110] = (⟨"Error", msgQuote⟩, 6) := by decide

/-- finding 6: the lexer as it is in /repo today accepts `"abc\n` as the string `abc⏎` -/
theorem unterminated_is_error_counter :
    quotedStringOld [34, 97, 98, 99, 92, 110] 34 = (⟨"String", [97, 98, 99, 10]⟩, 6) := by decide

/-- finding 22 (repaired): the names `?`, `!` are not identifiers, `_` is not written bare;
a bare `_` would be read back as the identifier `unused` and `?` as the operator QMark -/
theorem member_names_repaired :
    isIdentifier [63] = false ∧ isIdentifier [33] = false ∧ unquoted [95] = false ∧
    (next false [95, 58]).1 = ⟨"Identifier", txtUnused⟩ ∧
    (next false [63, 58]).1.tok = "QMark" ∧ (next false [33, 58]).1.tok = "Error" := by decide

/-- finding 22: today's IsIdentifier accepts all three -/
theorem member_names_counter :
    isIdentifierOld [63] = true ∧ isIdentifierOld [33] = true ∧ isIdentifierOld [95] = true := by
  decide

end Gsu.Props.C31
