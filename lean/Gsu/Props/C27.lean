/-
C27 — Decimal numbers are correct to their precision.

"Decimal addition and subtraction are exact to one unit in the 16th significant digit of the
larger operand, and multiplication and division to one unit in the 16th significant digit of the
result, with overflow to infinity and underflow to zero. Comparison orders numbers by exact
value, and converting a number to text and back yields the same number."

Model: `Gsu.Model.Dnum`, the mirror of util/dnum that `Drive/C27.lean` executes with exact
Nat/Int arithmetic (repaired: String exponent (finding 14), ToInt64 limit (fixes/27), underflow
check after the normalising shift (fixes/C27-new-underflow.patch)). Lemmas: `Gsu/Proofs/Dnum.lean`.

What is proved are the building blocks of the precision bounds, each for ALL inputs; the
composed statements `add_ulp`, `sub_ulp`, `mul_ulp`, `div_ulp` (error ≤ one unit of the 16th digit
of max(|x|,|y|,|result|) resp. of the result) and `string_roundtrip` are NOT proved — they are
checked on every run by the exact-rational direct oracles of harness/c27. Hence `_partial`.
-/
import Gsu.Proofs.Dnum
namespace Gsu.Props.C27
open Gsu.Dnum Gsu.Num

/-- compare_exact: Compare orders finite normalised decimals by exact value. FULL (finite values;
zero and the infinities are ordered by their sign field, see `compare`). -/
theorem compare_exact (x y : Dnum) (hx : WF x) (hy : WF y) :
    Dnum.compare x y = cmpInt (scaled x (min x.exp y.exp)) (scaled y (min x.exp y.exp)) :=
  Dnum.compare_exact x y hx hy

example : WF ⟨1500000000000000, 1, 1⟩ ∧ WF ⟨1550000000000000, -1, 1⟩ := by
  simp only [WF]; decide

/-- Compare is antisymmetric and its `≤` transitive for ALL triples (also zero, infinities) -/
theorem compare_total_preorder (x y z : Dnum) :
    Dnum.compare x y = - Dnum.compare y x ∧
    (Dnum.compare x y ≤ 0 → Dnum.compare y z ≤ 0 → Dnum.compare x z ≤ 0) :=
  ⟨Dnum.compare_antisymm x y, Dnum.compare_trans x y z⟩

/-- new_round, part 1: a coefficient of at most 16 digits is only shifted — the value is
unchanged and the result is normalised (exponent range −113 … 127 so that the shift cannot
underflow). -/
theorem new_round_exact_partial (sign : Int) (c : Nat) (e : Int) (hs : sign = 1 ∨ sign = -1)
    (hc0 : 0 < c) (hc : c < 10 ^ 16) (he1 : -113 ≤ e) (he2 : e ≤ 127) :
    ∃ p : Nat, new sign c e = ⟨c * 10 ^ p, sign, e - p⟩ ∧ WF (new sign c e) :=
  Dnum.new_exact sign c e hs hc0 hc he1 he2

example : (0 : Nat) < 12345 ∧ 12345 < 10 ^ 16 := by decide

/-- new_round, part 2: a 17 digit coefficient (what Add/Sub and most of Div produce) is rounded
half-up by one digit: `|10·c' − c| ≤ 5`, exponent + 1; a carry to 10^16 renormalises exactly.
Missing for the full `new_round`: 18–20 digit coefficients (repeated half-up rounding; bound 5/9 ulp,
checked by the oracle), overflow → inf and underflow → 0 as separate statements. -/
theorem new_round17_partial (sign : Int) (c : Nat) (e : Int) (hs : sign = 1 ∨ sign = -1)
    (hc1 : 10 ^ 16 ≤ c) (hc2 : c < 10 ^ 17) (he1 : -128 ≤ e) (he2 : e ≤ 124) :
    ∃ c' : Nat, (10 * c' ≤ c + 5 ∧ c < 10 * c' + 5 + 1) ∧
      (new sign c e = ⟨c', sign, e + 1⟩ ∨ (c' = 10 ^ 16 ∧ new sign c e = ⟨10 ^ 15, sign, e + 2⟩)) :=
  Dnum.new_round17 sign c e hs hc1 hc2 he1 he2

example : (10 : Nat) ^ 16 ≤ 19999999999999998 ∧ 19999999999999998 < 10 ^ 17 := by decide

/-- underflow goes to zero, overflow to infinity (concrete boundary cases of the repaired New) -/
theorem new_underflow_overflow :
    new 1 7 (-128) = zero ∧ new 1 1000000000000000 (-129) = zero ∧
    new 1 99999999999999995 126 = posInf ∧ new (-1) 99999999999999995 126 = negInf := by decide

/-- add_ulp / sub_ulp, the rounding step of the alignment: `(c + P/2) / P` is within half a unit -/
theorem add_align_half_partial (c e : Nat) (h1 : 1 ≤ e) (h2 : e < 19) :
    (c + halfpow10 e) / pow10 e * pow10 e ≤ c + halfpow10 e ∧
    c < (c + halfpow10 e) / pow10 e * pow10 e + halfpow10 e + 1 :=
  Dnum.round_half c (pow10 e) (halfpow10 e) (Dnum.halfpow10_spec e h1 h2).1 (Dnum.halfpow10_spec e h1 h2).2

/-- mul_ulp, the truncation step: the 9/7-digit split product (dropping `xlo·ylo` and the low part
of the cross terms) is below the exact product by less than two units of its own last digit. -/
theorem mul_trunc_partial (xc yc : Nat) :
    mulCoef xc yc * 10 ^ 14 ≤ xc * yc ∧ xc * yc < (mulCoef xc yc + 2) * 10 ^ 14 :=
  Dnum.mul_trunc xc yc

/-- the coefficient `Mul` hands to `New` is `mulCoef` -/
theorem mul_uses_mulCoef (x y : Dnum) (h0 : x.sign * y.sign ≠ 0) (hx : isInf x = false) (hy : isInf y = false) :
    mul x y = new (x.sign * y.sign) (mulCoef x.coef y.coef) (x.exp + y.exp - 2) := by
  simp [mul, mulCoef, h0, hx, hy, signZero]

/-- div_ulp, CONDITIONAL on the div128 equation (the model's definition `a·10^16 / b`, tied to
div128.go by the in-package differential suite): the coefficient is the floor quotient. -/
theorem div_floor_partial (a b : Nat) (hb : 0 < b) :
    div128 a b * b ≤ 10 ^ 16 * a ∧ 10 ^ 16 * a < (div128 a b + 1) * b :=
  Dnum.div_floor a b hb

/-- `ilog10` (Hacker's Delight, via leading zeros) is the number of decimal digits minus one -/
theorem ilog10_digits (x : Nat) (h0 : 0 < x) (h1 : x < 10 ^ 19) :
    10 ^ ilog10 x ≤ x ∧ x < 10 ^ (ilog10 x + 1) :=
  Dnum.ilog10_spec x h0 h1

/-- string_roundtrip on concrete values of the four formats, incl. the exponent −128 case of
finding 14 (the full statement for all decimals is not proved; direct oracle). -/
theorem string_roundtrip_samples :
    fromChars (toChars ⟨1234500000000000, 1, -3⟩) = some ⟨1234500000000000, 1, -3⟩ ∧
    fromChars (toChars ⟨1234500000000000, -1, 3⟩) = some ⟨1234500000000000, -1, 3⟩ ∧
    fromChars (toChars ⟨1234500000000000, 1, 12⟩) = some ⟨1234500000000000, 1, 12⟩ ∧
    fromChars (toChars ⟨9865050782236370, 1, -128⟩) = some ⟨9865050782236370, 1, -128⟩ ∧
    toChars ⟨9865050782236370, 1, -128⟩ = "9.86505078223637e-129".toList := by decide

end Gsu.Props.C27
