/-
C27 — Decimal numbers are correct to their precision.

"Decimal addition and subtraction are exact to one unit in the 16th significant digit of the
larger operand, and multiplication and division to one unit in the 16th significant digit of the
result, with overflow to infinity and underflow to zero. Comparison orders numbers by exact
value, and converting a number to text and back yields the same number."

Model: `Gsu.Model.Dnum` + `Gsu.Model.Div128`, the mirror of util/dnum that `Drive/C27.lean`
executes with exact Nat/Int arithmetic (repaired: String exponent (finding 14), ToInt64 limit
(fixes/27), underflow check after the normalising shift (fixes/C27-new-underflow.patch)).

Proved for ALL inputs (Gsu/Proofs/Dnum2, Dnum3 integer level; DnumQ, DnumQ2, DnumQ3 over ℚ):
`compare_exact`, `new_round` (all coefficients with c + 5 < 2^64), `add_ulp`, `sub_ulp`, `mul_ulp`,
`div_ulp` on the exact rational values `val d = sign·coef·10^(exp−16)`, with overflow and underflow
clauses; `string_roundtrip` (Proofs/DnumStr) for every finite normalised decimal, zero and the
infinities; `divide128_spec` (Model/Div128 + Proofs/Div128): the mirrored div128/divide128
algorithm equals `a·10^16 / b` on all coefficients, so `div_ulp` holds for the implementation
mirror `divM` without the div128 hypothesis.
Statements of the property that turned out FALSE of the code have counter-witnesses (all
reproduced with the Go code): half-ulp rounding of 18–20 digit coefficients
(`new_half_ulp_counter`, true bound 5/9), premature underflow of Mul/Div
(`mul_premature_underflow_counter`, `div_premature_underflow_counter`), uint64 wrap in New
(`new_wrap_counter`).
-/
import Gsu.Proofs.DnumQ4
import Gsu.Proofs.DnumQ5
import Gsu.Proofs.DnumStr
import Gsu.Proofs.Div128
namespace Gsu.Props.C27
open Gsu.Dnum Gsu.Num

/-- compare_exact: Compare orders finite normalised decimals by exact value. FULL (finite values;
zero and the infinities are ordered by their sign field, see `compare`). -/
theorem compare_exact (x y : Dnum) (hx : WF x) (hy : WF y) :
    Dnum.compare x y = cmpInt (scaled x (min x.exp y.exp)) (scaled y (min x.exp y.exp)) :=
  Dnum.compare_exact x y hx hy

example : WF ⟨1500000000000000, 1, 1⟩ ∧ WF ⟨1550000000000000, -1, 1⟩ := by
  simp only [WF]; decide

/-- compare_exact over ℚ: Compare is the order of the exact rational values
`val d = sign·coef·10^(exp−16)` -/
theorem compare_exact_val (x y : Dnum) (hx : WF x) (hy : WF y) :
    Dnum.compare x y = if val x < val y then -1 else if val y < val x then 1 else 0 :=
  Dnum.compare_val x y hx hy

/-- Compare is antisymmetric and its `≤` transitive for ALL triples (also zero, infinities) -/
theorem compare_total_preorder (x y z : Dnum) :
    Dnum.compare x y = - Dnum.compare y x ∧
    (Dnum.compare x y ≤ 0 → Dnum.compare y z ≤ 0 → Dnum.compare x z ≤ 0) :=
  ⟨Dnum.compare_antisymm x y, Dnum.compare_trans x y z⟩

/-- new_round — FULL. `New(sign, c, e)` for a finite sign, `0 < c`, `c + 5 < 2^64` (every
coefficient of up to 19 digits and the 20 digit ones up to 18446744073709551610) and `e ≥ −128`,
with `v = ±c·10^(e−16)` the exact value of the arguments:
* the result is infinity only if `|v|` exceeds the largest finite decimal (`≥ 10^127` when `c` has
  at most 17 digits), and then it is the infinity of that sign;
* the result is zero only if `c` has at most 16 digits and `|v| < 10^−129`, the smallest positive
  normalised decimal (this includes the REPAIRED underflow after the normalising shift);
* otherwise the result is finite, normalised (16 digit coefficient, exponent in −128…127), has the
  sign `sign`, and `|result − v| ≤ 5/9 ulp` (repeated half-up rounding of 18–20 digit
  coefficients; `new_half_ulp_counter` shows 1/2 is exceeded), `≤ 1/2 ulp` when `c` has at most 17
  digits (all coefficients that Add/Sub/Div produce), exact when `c` has at most 16 digits;
  the exponent is `≥ e − 15`, `≥ e` for `c ≥ 10^15`, `≥ e + 1` for `c ≥ 10^16`.
Outside these hypotheses: `e < −128` gives zero (`new_below_min`), `c ≥ 2^64 − 5` wraps around in
uint64 (`new_wrap_counter`). -/
theorem new_round (sign : Int) (c : Nat) (e : Int) (hs : sign = 1 ∨ sign = -1)
    (hc0 : 0 < c) (hc : c + 5 < 2 ^ 64) (he : -128 ≤ e) :
    (isInf (new sign c e) = true →
        new sign c e = inf sign ∧ maxFinite < |(sign : ℚ) * (c : ℚ) * (10 : ℚ) ^ (e - 16)| ∧
        (c + 5 < 10 ^ 17 → (10 : ℚ) ^ (127 : Int) ≤ |(sign : ℚ) * (c : ℚ) * (10 : ℚ) ^ (e - 16)|)) ∧
    (new sign c e = zero → c ≤ coefMax ∧ |(sign : ℚ) * (c : ℚ) * (10 : ℚ) ^ (e - 16)| < minPos) ∧
    (isInf (new sign c e) = false → new sign c e ≠ zero →
        FinN (new sign c e) ∧ (new sign c e).sign = sign ∧
        9 * |val (new sign c e) - (sign : ℚ) * (c : ℚ) * (10 : ℚ) ^ (e - 16)| ≤ 5 * ulp (new sign c e) ∧
        (c < 10 ^ 17 →
          2 * |val (new sign c e) - (sign : ℚ) * (c : ℚ) * (10 : ℚ) ^ (e - 16)| ≤ ulp (new sign c e)) ∧
        (c < 10 ^ 16 → val (new sign c e) = (sign : ℚ) * (c : ℚ) * (10 : ℚ) ^ (e - 16)) ∧
        e - 15 ≤ (new sign c e).exp ∧ (10 ^ 15 ≤ c → e ≤ (new sign c e).exp) ∧
        (c > coefMax → e + 1 ≤ (new sign c e).exp)) :=
  Dnum.new_round_q sign c e hs hc0 (by simp only [two64]; omega) he

example : (1 : Int) = 1 ∨ (1 : Int) = -1 := Or.inl rfl
example : (0 : Nat) < 18446744073709551610 ∧ 18446744073709551610 + 5 < 2 ^ 64 := by decide

/-- new_round, integer form (no rationals): there are `k` (digits rounded away, ≤ 5), `p`
(normalising shift, ≤ 15; one of the two is 0) and a 16 digit `c'` with
`|c'·10^k − c·10^p| ≤ 5·(10^k − 1)/9`, at most `10^k/2` when `c < 10^17`, and the result is
zero / infinity / `⟨c', sign, e + k − p⟩` according to the final exponent. Subsumes the former
`new_round_exact_partial` (k = 0: `c' = c·10^p`) and `new_round17_partial` (k = 1, or 2 on carry). -/
theorem new_round_int (sign : Int) (c : Nat) (e : Int) (hs : sign = 1 ∨ sign = -1)
    (hc0 : 0 < c) (hc : c + 5 < 2 ^ 64) (he : -128 ≤ e) :
    ∃ k p c' : Nat, (k = 0 ∨ p = 0) ∧ k ≤ 5 ∧ p ≤ 15 ∧ 10 ^ 15 ≤ c' ∧ c' ≤ coefMax ∧
      9 * (c * 10 ^ p) ≤ 9 * (c' * 10 ^ k) + 5 * (10 ^ k - 1) ∧
      9 * (c' * 10 ^ k) ≤ 9 * (c * 10 ^ p) + 5 * (10 ^ k - 1) ∧
      (0 < k → 90 * c + 5 * 10 ^ k ≥ 9 * 10 ^ 16 * 10 ^ k + 50) ∧
      (c < 10 ^ 17 → 2 * (c * 10 ^ p) ≤ 2 * (c' * 10 ^ k) + 10 ^ k ∧
                     2 * (c' * 10 ^ k) ≤ 2 * (c * 10 ^ p) + 10 ^ k) ∧
      (c ≤ coefMax ↔ k = 0) ∧ (10 ^ 15 ≤ c → p = 0) ∧
      new sign c e =
        (if e + (k : Int) - (p : Int) < expMin then zero
         else if e + (k : Int) - (p : Int) > expMax then inf sign
         else ⟨c', sign, e + (k : Int) - (p : Int)⟩) :=
  Dnum.new_spec sign c e hs hc0 (by simp only [two64]; omega) (by simp only [expMin]; omega)

/-- an exponent below −128 gives zero whatever the coefficient (also when the value is
representable after rounding, e.g. New(+1, 25·10^16, −129) = 0.25e-126: premature underflow) -/
theorem new_below_min (sign : Int) (c : Nat) (e : Int) (he : e < -128) : new sign c e = zero :=
  Dnum.new_below sign c e (by simp only [expMin]; omega)

/-- COUNTER-WITNESS to "|error| ≤ 1/2 ulp" for 18 digit coefficients: 100000000000000045 is
rounded twice half-up (…045 → …05 → …1) to 1000000000000001e2, off by 55 > 50 = 1/2 ulp
(the nearest 16 digit value is 1000000000000000e2). Same in the Go code. -/
theorem new_half_ulp_counter :
    new 1 100000000000000045 0 = ⟨1000000000000001, 1, 2⟩ ∧
    2 * (1000000000000001 * 10 ^ 2 - 100000000000000045) > 10 ^ 2 := by decide

/-- COUNTER-WITNESS (defect of `New`, reproduced in Go: `dnum.New(1, 18446744073709551615, 0)` is
`{coef 0, sign +1, exp 1}`): for `c ≥ 2^64 − 5` the `coef + 5` of the rounding loop wraps around
in uint64 and the result is a non-normalised "positive" number with coefficient 0. Not reachable
through Add/Sub/Mul/Div/FromInt/FromStr (their coefficients are below 2·10^18). -/
theorem new_wrap_counter :
    new 1 18446744073709551615 0 = ⟨0, 1, 1⟩ ∧ new 1 18446744073709551611 0 = ⟨0, 1, 1⟩ ∧
    new 1 18446744073709551610 0 = ⟨1844674407370955, 1, 4⟩ := by decide

/-- underflow goes to zero, overflow to infinity (concrete boundary cases of the repaired New) -/
theorem new_underflow_overflow :
    new 1 7 (-128) = zero ∧ new 1 1000000000000000 (-129) = zero ∧
    new 1 99999999999999995 126 = posInf ∧ new (-1) 99999999999999995 126 = negInf := by decide

/-- add_ulp — FULL (finite normalised operands; zero and infinite operands are returned / absorbed
unchanged by `add`). With `s = x + y` the exact rational sum:
* infinity only if `|s|` exceeds the largest finite decimal, with the sign of `s`;
* zero only if `|s| ≤ 1/2` unit of the 16th digit of the larger operand (cancellation) or
  `|s| < 10^−129` (underflow);
* otherwise the result is finite normalised and `|result − s| ≤` one unit of the 16th digit of
  max(|x|, |y|, |result|) (`ulpE e = 10^(e−16)`), including the branch where the smaller operand
  is negligible (exponents differ by more than 15). -/
theorem add_ulp (x y : Dnum) (hx : FinN x) (hy : FinN y) :
    (isInf (add x y) = true →
        (add x y = posInf ∧ maxFinite < val x + val y) ∨
        (add x y = negInf ∧ val x + val y < -maxFinite)) ∧
    (add x y = zero →
        2 * |val x + val y| ≤ ulpE (max x.exp y.exp) ∨ |val x + val y| < minPos) ∧
    (isInf (add x y) = false → add x y ≠ zero →
        FinN (add x y) ∧
        |val (add x y) - (val x + val y)| ≤ ulpE (max (max x.exp y.exp) (add x y).exp)) :=
  Dnum.add_ulp_q x y hx hy

example : FinN ⟨1500000000000000, 1, 1⟩ ∧ FinN ⟨9999999999999999, -1, -14⟩ := by
  simp only [FinN, WF]; decide

/-- sub_ulp — FULL: the same for `Sub(x, y) = Add(x, Neg(y))` and the exact difference. -/
theorem sub_ulp (x y : Dnum) (hx : FinN x) (hy : FinN y) :
    (isInf (sub x y) = true →
        (sub x y = posInf ∧ maxFinite < val x - val y) ∨
        (sub x y = negInf ∧ val x - val y < -maxFinite)) ∧
    (sub x y = zero →
        2 * |val x - val y| ≤ ulpE (max x.exp y.exp) ∨ |val x - val y| < minPos) ∧
    (isInf (sub x y) = false → sub x y ≠ zero →
        FinN (sub x y) ∧
        |val (sub x y) - (val x - val y)| ≤ ulpE (max (max x.exp y.exp) (sub x y).exp)) :=
  Dnum.sub_ulp_q x y hx hy

/-- zero and infinite operands of Add (all remaining cases of `add`) -/
theorem add_special (x y : Dnum) :
    (x.sign = 0 → add x y = y) ∧ (x.sign ≠ 0 → y.sign = 0 → add x y = x) ∧
    (x.sign ≠ 0 → y.sign ≠ 0 → isInf x = true → add x y = if y.sign = -x.sign then zero else x) ∧
    (x.sign ≠ 0 → y.sign ≠ 0 → isInf x = false → isInf y = true → add x y = y) := by
  refine ⟨fun h => ?_, fun h1 h2 => ?_, fun h1 h2 h3 => ?_, fun h1 h2 h3 h4 => ?_⟩ <;>
    simp_all [add, signZero]

/-- mul_ulp — FULL (finite normalised operands). With `p = x·y` the exact product:
* infinity only if `|p|` exceeds the largest finite decimal, with the sign of `p`;
* zero only if `|p| < 10^−127` — NOT `10^−129`: `New` is called with exponent
  `x.exp + y.exp − 2` and a 17–18 digit coefficient and returns zero when that exponent is below
  −128 although rounding would bring it back into range (`mul_premature_underflow_counter`);
* otherwise the result is finite normalised and within one unit of ITS 16th digit of `p`
  (truncation of the 9/7 split < 0.2 ulp + rounding ≤ 5/9 ulp). -/
theorem mul_ulp (x y : Dnum) (hx : FinN x) (hy : FinN y) :
    (isInf (mul x y) = true →
        (mul x y = posInf ∧ maxFinite < val x * val y) ∨
        (mul x y = negInf ∧ val x * val y < -maxFinite)) ∧
    (mul x y = zero → |val x * val y| < (10 : ℚ) ^ (-127 : Int)) ∧
    (isInf (mul x y) = false → mul x y ≠ zero →
        FinN (mul x y) ∧ |val (mul x y) - val x * val y| ≤ ulp (mul x y)) :=
  Dnum.mul_ulp_q x y hx hy

/-- COUNTER-WITNESS to "underflow to zero only below the smallest decimal" (reproduced in Go:
`Mul(5e-64, 5e-65) = 0`): the exact product 2.5e-128 is a normalised decimal. -/
theorem mul_premature_underflow_counter :
    FinN ⟨5000000000000000, 1, -63⟩ ∧ FinN ⟨5000000000000000, 1, -64⟩ ∧
    FinN ⟨2500000000000000, 1, -127⟩ ∧
    mul ⟨5000000000000000, 1, -63⟩ ⟨5000000000000000, 1, -64⟩ = zero ∧
    val ⟨5000000000000000, 1, -63⟩ * val ⟨5000000000000000, 1, -64⟩
      = val ⟨2500000000000000, 1, -127⟩ :=
  Dnum.mul_premature_underflow

/-- divide128_spec — FULL: the mirrored implementation of div128.go (`div128m`: the 128 bit
product `a·10^16` on 32 bit halves, the normalising shift, two rounds of quotient digit estimate
from the high half of the divisor / correction loop / multiply-subtract, with every uint64 and
uint32 wrap-around mirrored; `Drive/C27.lean` executes it for the `div128` and `div` lines of the
trace) equals the specification `a·10^16 / b` for all 16 digit coefficients. This removes the
"div128 equation" hypothesis of `div_floor` / `div_ulp`. -/
theorem divide128_spec (a b : Nat) (ha1 : 10 ^ 15 ≤ a) (ha2 : a < 10 ^ 16)
    (hb1 : 10 ^ 15 ≤ b) (hb2 : b < 10 ^ 16) : div128m a b = div128 a b :=
  Dnum.divide128_spec a b ha1 ha2 hb1 hb2

example : div128m 7399277442958125 1124878057708072 = 65778484985599951 := by
  rw [Dnum.divide128_spec _ _ (by decide) (by decide) (by decide) (by decide)]; decide

/-- the quotient-digit correction loop, for ANY operands (not only coefficients): from an estimate
`q ≥ ⌊T/V⌋` with partial remainder `r = tmp − q·v1 < 2^32` it returns exactly `⌊T/V⌋`,
`T = tmp·2^32 + u`, `V = v1·2^32 + v0`; leaving the loop when the remainder exceeds 32 bits
is correct (the seeded defect C27-2 drops that `break`). -/
theorem divide128_correction (v1 v0 u tmp q r : Nat)
    (hv1 : v1 < two32) (hv0 : v0 < two32) (hu : u < two32) (hr : r < two32)
    (hinv : r + q * v1 = tmp) (hov : q * v0 < two64) (hpos : 0 < v1)
    (hge : (two32 * tmp + u) / (two32 * v1 + v0) ≤ q) :
    (corrLoop v1 v0 u q r).1 = (two32 * tmp + u) / (two32 * v1 + v0) :=
  Dnum.corrLoop_spec q v1 v0 u tmp q r (Nat.le_refl _) hv1 hv0 hu hr hinv hov hpos hge

/-- `Div` as the driver executes it (`divM`, with the mirrored div128 algorithm) is the model's
`div` (with the specification of div128) -/
theorem divM_eq_div (x y : Dnum)
    (h : (WF x ∧ WF y) ∨ x.sign = 0 ∨ y.sign = 0 ∨ isInf x = true ∨ isInf y = true) :
    divM x y = div x y :=
  Dnum.divM_eq_div x y h

/-- div_ulp — FULL and UNCONDITIONAL (finite normalised operands; `divM` is Div with the mirrored
div128 algorithm, `divide128_spec`). With `q = x / y` the exact quotient:
* infinity only if `|q|` exceeds the largest finite decimal, with the sign of `q`;
* zero only if `|q| < 10^−128` (`x.exp − y.exp < −128`; premature by one decade when the 17 digit
  quotient would round back into range, `div_premature_underflow_counter`);
* otherwise finite normalised and within one unit of the 16th digit of the result. -/
theorem div_ulp (x y : Dnum) (hx : FinN x) (hy : FinN y) :
    (isInf (divM x y) = true →
        (divM x y = posInf ∧ maxFinite < val x / val y) ∨
        (divM x y = negInf ∧ val x / val y < -maxFinite)) ∧
    (divM x y = zero → |val x / val y| < (10 : ℚ) ^ (-128 : Int)) ∧
    (isInf (divM x y) = false → divM x y ≠ zero →
        FinN (divM x y) ∧ |val (divM x y) - val x / val y| ≤ ulp (divM x y)) := by
  rw [Dnum.divM_eq_div x y (Or.inl ⟨hx.1, hy.1⟩)]
  exact Dnum.div_ulp_q x y hx hy

/-- the same for the model's `div` (coefficient `div128 a b = a·10^16 / b` by definition), which
is what `Gsu.Model.NumOps` (C26) composes -/
theorem div_ulp_spec (x y : Dnum) (hx : FinN x) (hy : FinN y) :
    (isInf (div x y) = true →
        (div x y = posInf ∧ maxFinite < val x / val y) ∨
        (div x y = negInf ∧ val x / val y < -maxFinite)) ∧
    (div x y = zero → |val x / val y| < (10 : ℚ) ^ (-128 : Int)) ∧
    (isInf (div x y) = false → div x y ≠ zero →
        FinN (div x y) ∧ |val (div x y) - val x / val y| ≤ ulp (div x y)) :=
  Dnum.div_ulp_q x y hx hy

/-- COUNTER-WITNESS (reproduced in Go: `Div(5e-65, 2e64) = 0`): the exact quotient 2.5e-129 is a
normalised decimal (0.25e-128). -/
theorem div_premature_underflow_counter :
    FinN ⟨5000000000000000, 1, -64⟩ ∧ FinN ⟨2000000000000000, 1, 65⟩ ∧
    FinN ⟨2500000000000000, 1, -128⟩ ∧
    div ⟨5000000000000000, 1, -64⟩ ⟨2000000000000000, 1, 65⟩ = zero ∧
    val ⟨5000000000000000, 1, -64⟩ / val ⟨2000000000000000, 1, 65⟩
      = val ⟨2500000000000000, 1, -128⟩ :=
  Dnum.div_premature_underflow

/-- building block of add_ulp: the alignment `(c + P/2) / P` is within half a unit -/
theorem add_align_half (c e : Nat) (h1 : 1 ≤ e) (h2 : e < 19) :
    (c + halfpow10 e) / pow10 e * pow10 e ≤ c + halfpow10 e ∧
    c < (c + halfpow10 e) / pow10 e * pow10 e + halfpow10 e + 1 :=
  Dnum.round_half c (pow10 e) (halfpow10 e) (Dnum.halfpow10_spec e h1 h2).1 (Dnum.halfpow10_spec e h1 h2).2

/-- building block of mul_ulp: the 9/7-digit split product (dropping `xlo·ylo` and the low part
of the cross terms) is below the exact product by less than two units of its own last digit. -/
theorem mul_trunc (xc yc : Nat) :
    mulCoef xc yc * 10 ^ 14 ≤ xc * yc ∧ xc * yc < (mulCoef xc yc + 2) * 10 ^ 14 :=
  Dnum.mul_trunc xc yc

/-- the coefficient `Mul` hands to `New` is `mulCoef` -/
theorem mul_uses_mulCoef (x y : Dnum) (h0 : x.sign * y.sign ≠ 0) (hx : isInf x = false) (hy : isInf y = false) :
    mul x y = new (x.sign * y.sign) (mulCoef x.coef y.coef) (x.exp + y.exp - 2) := by
  simp [mul, mulCoef, h0, hx, hy, signZero]

/-- building block of div_ulp: the model's div128 is the floor quotient -/
theorem div_floor (a b : Nat) (hb : 0 < b) :
    div128 a b * b ≤ 10 ^ 16 * a ∧ 10 ^ 16 * a < (div128 a b + 1) * b :=
  Dnum.div_floor a b hb

/-- `ilog10` (Hacker's Delight, via leading zeros) is the number of decimal digits minus one -/
theorem ilog10_digits (x : Nat) (h0 : 0 < x) (h1 : x < 10 ^ 19) :
    10 ^ ilog10 x ≤ x ∧ x < 10 ^ (ilog10 x + 1) :=
  Dnum.ilog10_spec x h0 h1

/-- string_roundtrip — FULL: `FromStr(String(d)) = d` for every finite normalised decimal (16
digit coefficient, exponent −128 … 127, either sign), through whichever of the four output
formats `String` chooses (`.000ddd`, `dd.ddd`, `ddd000`, `d.ddde±x`), and for zero and the two
infinities. Model: the REPAIRED `String` (finding 14, exponent text `int(exp) − 1`). -/
theorem string_roundtrip (d : Dnum) (h : FinN d ∨ d = zero ∨ d = posInf ∨ d = negInf) :
    fromStr (toStr d) = some d := by
  simp only [fromStr, toStr, String.toList_ofList]
  rcases h with h | rfl | rfl | rfl
  · exact Dnum.roundtrip_finite d h.1 h.2.1 h.2.2
  · exact Dnum.roundtrip_special.1
  · exact Dnum.roundtrip_special.2.1
  · exact Dnum.roundtrip_special.2.2

/-- string_roundtrip on concrete values of the four formats, incl. the exponent −128 case of
finding 14 (also pins the text that is produced). -/
theorem string_roundtrip_samples :
    fromChars (toChars ⟨1234500000000000, 1, -3⟩) = some ⟨1234500000000000, 1, -3⟩ ∧
    fromChars (toChars ⟨1234500000000000, -1, 3⟩) = some ⟨1234500000000000, -1, 3⟩ ∧
    fromChars (toChars ⟨1234500000000000, 1, 12⟩) = some ⟨1234500000000000, 1, 12⟩ ∧
    fromChars (toChars ⟨9865050782236370, 1, -128⟩) = some ⟨9865050782236370, 1, -128⟩ ∧
    toChars ⟨9865050782236370, 1, -128⟩ = "9.86505078223637e-129".toList := by decide

end Gsu.Props.C27
