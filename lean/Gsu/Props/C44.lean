/-
C44 — Triggers see every row change of their table.

"When a table has an enabled trigger, it is called once, inside the changing transaction, for
every row inserted, updated (with a different value) or deleted in that table, including changes
made by cascades, with the old and new row; an exception thrown by the trigger stops the change
from being committed. A disabled trigger is not called until it is re-enabled as many times as
it was disabled."

The theorems are about `Gsu.Model.LDb` (shared with C08): the definitions the driver `drv_c44`
executes and the correspondence suite compares with `db19/tran.go` + `db19/triggers.go`, with
DESIGN §6 finding 24 repaired (a trigger exception aborts the transaction).
Helper lemmas: `Gsu/Proofs/LTrig.lean`.
-/
import Gsu.Proofs.LTrig
import Gsu.Gen.FkModes
namespace Gsu.Props.C44
open Gsu.Proto Gsu.LDb

/-- Every successful row operation (insert, delete with all its cascades, update with all its
cascades; any schema): the trigger calls it made, in order, are calls of enabled triggers only,
and replaying their (old, new) rows on the state before the operation gives exactly the state
after it on every table whose trigger is enabled. So every row change of such a table was
reported once, with its old and new row, and nothing else was reported. (An update with the same
value changes nothing and reports nothing: `opUpdate` returns the transaction unchanged.) -/
theorem trigger_once_per_change (s : St) (op : Op) (w' : W) (h : opRes s op = some (.ok w')) :
    ∃ calls, w'.log = s.w.log ++ calls ∧ (∀ e ∈ calls, enabled s.env e.table = true) ∧
      ∀ t, enabled s.env t = true → replay s.w.db calls t = w'.db t :=
  opRes_Rep h

/-- a state with a recording trigger on table 0: t0 (c0, c1) key(c0) index(c1) in t0(c0) cascade -/
def exEnv : Env := ⟨[⟨2, [⟨0, [0], none⟩, ⟨1, [1], some ⟨0, 0, 3⟩⟩]⟩], fun _ => 1, fun _ => 0⟩
def exSt : St := ⟨exEnv, fun _ => [], ⟨fun t => if t = 0 then [[[1], []], [[2], [1]]] else [], []⟩, true⟩

-- non-vacuity: deleting row 1 cascades to row 2, both calls are logged (child first)
example : (match opRes exSt (.del 0 [[1], []]) with
    | some (.ok w') => w'.log == [⟨0, some [[2], [1]], none⟩, ⟨0, some [[1], []], none⟩] && w'.db 0 == []
    | _ => false) = true := by decide

/-- An exception thrown by a trigger (in the operation itself or in any of its cascades) ends the
transaction: the operation's result is never "error, transaction still usable"; whatever the
caller does next without starting a new transaction — further operations, `commit` — the
committed state stays what it was. -/
theorem trigger_exception_aborts (s : St) (op : Op) (alive : Bool) (rest : List Op)
    (h : opRes s op = some (.err .trig alive)) (hs : s.alive = true)
    (hrest : ∀ o ∈ rest, isBegin o = false) :
    alive = false ∧ (run (step s op) rest).committed = s.committed := by
  have ha := trig_err_dead h
  subst ha
  refine ⟨rfl, ?_⟩
  have hstep : step s op = { s with alive := false } := by
    cases op <;> simp_all [step, opRes, applyRes]
  rw [hstep]
  exact (dead_run rest _ rfl hrest).2

/-- … and a throwing trigger does produce that error: the change is not applied -/
theorem trigger_exception_raised (env : Env) (w : W) (t : Nat) (o n : Option Row)
    (hen : enabled env t = true) (hk : env.trig t = 2) (ht : throws o n = true) :
    change env w t o n = .error .trig := by
  simp [change, hen, hk, ht]

-- non-vacuity: a throwing trigger on table 0, inserting a row with the field "!"
example : (match opRes { exSt with env := { exEnv with trig := fun _ => 2 } } (.out 0 [marker, []]) with
    | some (.err .trig false) => true
    | _ => false) = true := by decide

/-- The disable counter of a table after any history is the fold of its `dis` (+1) and `ena`
(−1) operations over the initial counter — nothing else touches it — … -/
theorem disable_counts (s : St) (ops : List Op) (t : Nat) :
    (run s ops).env.dis t = ops.foldl (swCount t) (s.env.dis t) :=
  run_dis ops s t

/-- … and while it is not zero a change of that table calls nothing. -/
theorem disabled_not_called (env : Env) (w : W) (t : Nat) (o n : Option Row) (h : env.dis t ≠ 0) :
    change env w t o n = .ok ⟨applyChange w.db t o n, w.log⟩ :=
  change_disabled h

-- n disables followed by k < n enables leave the trigger disabled; n enables re-enable it
example : (List.replicate 3 (Op.dis 0) ++ List.replicate 2 (Op.ena 0)).foldl (swCount 0) 0 = 1 ∧
    (List.replicate 3 (Op.dis 0) ++ List.replicate 3 (Op.ena 0)).foldl (swCount 0) 0 = 0 := by decide

/-- `DoWithoutTriggers(tables, block)` as the property requires it: each listed table disabled
(a table listed twice: twice), the block, each listed table enabled again — whatever the block
did, as long as its own switches are balanced, and however it ended (the enables are not
conditional on how the block is left): every counter is back where it was, … -/
theorem dowithout_restores (s : St) (tables : List Nat) (body : List Op) (t : Nat)
    (hbody : ∀ c, body.foldl (swCount t) c = c) :
    (run s (tables.map Op.dis ++ body ++ tables.map Op.ena)).env.dis t = s.env.dis t :=
  without_restores s tables body t hbody

/-- … and inside the block the trigger of every listed table is disabled. -/
theorem dowithout_inside (s : St) (tables : List Nat) (t : Nat) (ht : t ∈ tables) :
    (run s (tables.map Op.dis)).env.dis t ≠ 0 :=
  without_inside s tables t ht

-- a body with balanced switches (a nested DoWithoutTriggers of the same table) and row operations
example : ∀ c, ([Op.dis 0, Op.out 0 [[1]], Op.ena 0] : List Op).foldl (swCount 0) c = c := by
  intro c; simp [swCount]

/-- (G) in today's `tran.go` the trigger call at the end of `Output`, `Delete` and `update` runs
under recover + Abort, as the model assumes. Fails on a tree without the fix for finding 24. -/
theorem gen_trigger_protected :
    Gsu.Gen.FkModes.triggerProtectedOutput = true ∧ Gsu.Gen.FkModes.triggerProtectedDelete = true ∧
    Gsu.Gen.FkModes.triggerProtectedUpdate = true := by
  decide

end Gsu.Props.C44
