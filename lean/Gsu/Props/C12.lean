/-
C12 — Composite index keys preserve value order and are unambiguous.

"For any records, comparing their encoded keys for an index byte-wise gives the same result as
comparing the indexed fields in order, distinct field tuples give distinct keys, and decoding a
key recovers its fields. Prefix, range-end and prefix/suffix split helpers select exactly the
keys whose leading fields match."

Property theorems only; helper lemmas live in `Gsu/Proofs/Ixkey.lean`.
-/
import Gsu.Proofs.Ixkey12
import Gsu.Gen.Ixkey
namespace Gsu.Props.C12
open Gsu.Proto Gsu.Ixkey

/-- Escaping preserves order, field by field: comparing `enc a ++ tail` with `enc b ++ tail'`
(each tail empty or starting with a separator) is comparing `a` with `b` and then the tails. -/
theorem enc_cmp (a b sa sb : Bytes) (ha : IsTail sa) (hb : IsTail sb) :
    cmpB (enc a ++ sa) (enc b ++ sb) =
      (match cmpB a b with | .eq => cmpB sa sb | o => o) :=
  Gsu.Ixkey.enc_cmp a b sa sb ha hb

-- non-vacuity: the hypotheses are met by a real two-field key
example : IsTail ([] : Bytes) ∧ IsTail (0 :: 0 :: enc [7]) := ⟨Or.inl rfl, Or.inr ⟨_, rfl⟩⟩

/-- An encoded field never contains the separator (two adjacent zero bytes) … -/
theorem encode_no_sep (a : Bytes) : ∀ p s : Bytes, enc a ≠ p ++ 0 :: 0 :: s :=
  Gsu.Ixkey.enc_no_sep a

/-- … and never ends in a zero byte (so field ++ separator cannot create an earlier separator). -/
theorem encode_no_trailing_zero (a : Bytes) : ∀ p : Bytes, enc a ≠ p ++ [0] :=
  Gsu.Ixkey.enc_not_end_zero a

-- the raw value may well contain separators; its encoding does not
example : enc [5, 0, 0, 0] = [5, 0, 1, 0, 1, 0, 1] := by decide

/-- un-escaping an escaped field gives the field back -/
theorem unenc_enc (a : Bytes) : unenc (enc a) = a := Gsu.Ixkey.unenc_enc a

/-- splitting a joined key at separators yields exactly the encoded fields -/
theorem splitSep_joinEnc (vs : List Bytes) (h : vs ≠ []) : splitSep (joinEnc vs) = vs.map enc :=
  Gsu.Ixkey.splitSep_joinEnc h

example : ([[0, 0], [], [1, 0]] : List Bytes) ≠ [] := by decide

/-- Decoding a key recovers its fields. `joinEnc [[]] = [] = joinEnc []` is the only ambiguity
(a key made of one empty field is the empty key). -/
theorem decode_key (vs : List Bytes) (h : vs ≠ [[]]) : decode (joinEnc vs) = vs :=
  Gsu.Ixkey.decode_joinEnc h

example : ([[0, 0], [], [1, 0]] : List Bytes) ≠ [[]] := by decide

/-- Decoding the key a multi-field spec builds for a record gives the record's indexed fields with
trailing empty ones dropped. -/
theorem decode_key_spec (fields : List Nat) (rec : List Bytes) (h : fields.length > 1) :
    decode (key fields [] rec) = trimEmpty (fields.map (getRaw rec)) :=
  Gsu.Ixkey.decode_key_spec fields rec h

example : ([2, 0, 1] : List Nat).length > 1 := by decide

/-- Headline: comparing the encoded keys of two records byte-wise is comparing their indexed
fields in order (`Spec.Compare`), for every spec shape: single field (no encoding), several
fields (escaped, joined, trailing empties trimmed), and Fields2 (unique-index fallback when all
Fields are empty).

The hypothesis excludes `Fields = []` with `Fields2 ≠ []`: there Go's `Key` returns "" while
`Compare` looks at Fields2; such a spec is never built (Fields2 only exists alongside Fields). -/
theorem key_cmp (fields fields2 : List Nat) (r1 r2 : List Bytes) (h : fields ≠ [] ∨ fields2 = []) :
    cmpB (key fields fields2 r1) (key fields fields2 r2) = compare fields fields2 r1 r2 :=
  Gsu.Ixkey.key_cmp fields fields2 r1 r2 h

example : ([1, 0] : List Nat) ≠ [] ∨ ([2] : List Nat) = [] := by decide

/-- Distinct field tuples give distinct keys (both tuples are read through the same spec, hence
have equal arity); the Fields2 values are part of the key exactly when all Fields are empty. -/
theorem key_injective (fields fields2 : List Nat) (r1 r2 : List Bytes)
    (hk : key fields fields2 r1 = key fields fields2 r2) (h : fields ≠ [] ∨ fields2 = []) :
    fields.map (getRaw r1) = fields.map (getRaw r2) ∧
      ((fields.map (getRaw r1)).all (· = []) = true →
        fields2.map (getRaw r1) = fields2.map (getRaw r2)) :=
  Gsu.Ixkey.key_injective fields fields2 r1 r2 hk h

example : key [1, 0] [2] [[], [], [7]] = key [1, 0] [2] [[], [], [7], [9]] ∧
    (([1, 0] : List Nat) ≠ [] ∨ ([2] : List Nat) = []) := by decide

/-- List-level form: trimmed joined keys of equal-arity tuples are equal only for equal tuples. -/
theorem joinTrim_injective (a b : List Bytes) (hl : a.length = b.length)
    (h : joinEnc (trimEmpty a) = joinEnc (trimEmpty b)) : a = b :=
  Gsu.Ixkey.joinTrim_inj a b hl h

example : ([[1], [], []] : List Bytes).length = ([[1], [], []] : List Bytes).length ∧
    joinEnc (trimEmpty [[1], [], []]) = joinEnc (trimEmpty ([[1], [], []] : List Bytes)) := by decide

/-- `HasPrefix` on raw strings: `s` is `p` itself or `p` followed by a separator. -/
theorem hasPrefix_raw (s p : Bytes) :
    hasPrefix s p = true ↔ s = p ∨ ∃ r, s = p ++ 0 :: 0 :: r :=
  Gsu.Ixkey.hasPrefix_iff_raw s p

/-- `HasPrefix` selects exactly the keys whose leading fields are the fields of the prefix key. -/
theorem hasPrefix_iff (vs ps : List Bytes) (hv : vs ≠ []) (hp : ps ≠ []) :
    hasPrefix (joinEnc vs) (joinEnc ps) = true ↔ ps <+: vs :=
  Gsu.Ixkey.hasPrefix_iff vs ps hv hp

example : ([[1, 0], [], [3]] : List Bytes) ≠ [] ∧ ([[1, 0], []] : List Bytes) ≠ [] ∧
    hasPrefix (joinEnc [[1, 0], [], [3]]) (joinEnc [[1, 0], []]) = true := by decide

/-- degenerate: the empty prefix key matches the empty key and keys whose first field is empty -/
theorem hasPrefix_nil (s : Bytes) : hasPrefix s [] = true ↔ s = [] ∨ ∃ r, s = 0 :: 0 :: r :=
  Gsu.Ixkey.hasPrefix_nil s

example : hasPrefix [0, 0, 5] [] = true ∧ hasPrefix [5] [] = false := by decide

/-- `SplitPrefixSuffix` of a key with more than `n` fields: the prefix is the first `n` fields with
trailing empty ones (and their separators) stripped, the suffix is the remaining fields. -/
theorem splitPS_joinEnc (vs : List Bytes) (n : Nat) (hn : 1 ≤ n) (hl : n < vs.length) :
    splitPS (joinEnc vs) n = (joinEnc (trimEmpty (vs.take n)), joinEnc (vs.drop n)) :=
  Gsu.Ixkey.splitPS_joinEnc vs n hn hl

/-- `JoinPrefixSuffix` is the inverse of `SplitPrefixSuffix` whenever the key has more than `n`
fields (and its precondition `countSep p < n` holds for the prefix produced by the split). -/
theorem splitPS_joinPS (vs : List Bytes) (n : Nat) (hn : 1 ≤ n) (hl : n < vs.length) :
    let (p, s) := splitPS (joinEnc vs) n
    countSep p < n ∧ joinPS p n s = joinEnc vs ∧ s = joinEnc (vs.drop n) :=
  Gsu.Ixkey.splitPS_joinPS vs n hn hl

example : 1 ≤ 2 ∧ 2 < ([[1, 0], [], [], [0, 3]] : List Bytes).length ∧
    splitPS (joinEnc [[1, 0], [], [], [0, 3]]) 2 = ([1, 0, 1], [0, 0, 0, 1, 3]) := by decide

/-- `rangeEnd` of the (trimmed) key of an `n`-field prefix tuple `P` is the key of `P` followed by
one more field equal to Max: missing separators are padded before Max is appended. -/
theorem rangeEnd_value (P : List Bytes) (n : Nat) (hn : 1 ≤ n) (hP : P.length = n) :
    rangeEnd (joinEnc (trimEmpty P)) n = joinEnc (P ++ [maxKey]) :=
  Gsu.Ixkey.rangeEnd_joinTrim P n hn hP

example : rangeEnd (joinEnc (trimEmpty [[1], []])) 2 = [1, 0, 0, 0, 0] ++ maxKey := by decide

/-- The range `[pk, rangeEnd pk n]` selects exactly the keys whose first `n` fields are the prefix
tuple `P`. Here `pk = joinEnc (trimEmpty P)` is the prefix key as `Spec.Key` builds it (trailing
empty fields trimmed; for `P` without trailing empties this is `joinEnc P`), `k` is the key of a
tuple `V` with more than `n` fields, and `hmax` says the first field after the prefix sorts strictly
below Max (always true of packed values, whose first byte is a tag below 0xff).

With an *untrimmed* prefix key the statement would be false: for `P = [[1], []]`,
`V = [[1], [], []]` the key of `V` is `[1]`, which is below `joinEnc P = [1, 0, 0]`
(see the example below). -/
theorem rangeEnd_exact (P V : List Bytes) (n : Nat) (hn : 1 ≤ n) (hP : P.length = n)
    (hV : n < V.length) (hmax : cmpB (V.getD n []) maxKey = .lt) :
    (cmpB (joinEnc (trimEmpty P)) (joinEnc (trimEmpty V)) ≠ .gt ∧
      cmpB (joinEnc (trimEmpty V)) (rangeEnd (joinEnc (trimEmpty P)) n) ≠ .gt) ↔ V.take n = P :=
  Gsu.Ixkey.rangeEnd_exact P V n hn hP hV hmax

example : 1 ≤ 2 ∧ ([[1], []] : List Bytes).length = 2 ∧ 2 < ([[1], [], [0xff, 3], []] : List Bytes).length ∧
    cmpB (([[1], [], [0xff, 3], []] : List Bytes).getD 2 []) maxKey = .lt := by decide

-- the untrimmed prefix key is above the key of a matching tuple whose remaining fields are empty
example : cmpB (joinEnc [[1], []]) (joinEnc (trimEmpty [[1], [], []])) = .gt := by decide

/-- `Decode1` returns the `i`-th field of a key (empty when there is no such field); holds for
every tuple, including `[]` and `[[]]` whose key is empty. -/
theorem decode1_spec (vs : List Bytes) (i : Nat) : decode1 (joinEnc vs) i = vs.getD i [] :=
  Gsu.Ixkey.decode1_spec vs i

example : decode1 (joinEnc [[1, 0], [], [0, 0, 2]]) 2 = [0, 0, 2] := by decide

/-- `TruncFunc(spec1, spec2)` (specs without Fields2, `spec2` the first `nf2` fields of `spec1`)
maps the untrimmed `spec1` key of a tuple to the untrimmed `spec2` key of its first `nf2` fields;
a single-field spec stores the raw value. -/
theorem truncFn_spec (vs : List Bytes) (nf1 nf2 : Nat) (hl : vs.length = nf1) (h1 : 1 ≤ nf2)
    (h2 : nf2 ≤ nf1) :
    truncFn nf1 nf2 (decide (nf1 > 1)) (decide (nf2 > 1))
        (if nf1 > 1 then joinEnc vs else vs.getD 0 []) =
      (if nf2 > 1 then joinEnc (vs.take nf2) else vs.getD 0 []) :=
  Gsu.Ixkey.truncFn_spec vs nf1 nf2 hl h1 h2

example : ([[1, 0], [], [3]] : List Bytes).length = 3 ∧ 1 ≤ 2 ∧ 2 ≤ 3 ∧
    truncFn 3 2 true true (joinEnc [[1, 0], [], [3]]) = [1, 0, 1, 0, 0] := by decide

/-- `_lower!` index fields (negative field numbers): the byte order of the keys, which contain the
case-folded packed strings (`PackedToLower`), is `Spec.Compare`, which compares the raw fields with
`PackedCmpLower` — for every mix of plain and `_lower!` fields, with and without the
secondary-field rule (Fields2 is consulted exactly when all raw indexed fields are empty). -/
theorem key_cmp_lower (fields : List Fld) (fields2 : List Nat) (r1 r2 : List Bytes)
    (h : fields ≠ [] ∨ fields2 = []) :
    cmpB (keyL fields fields2 r1) (keyL fields fields2 r2) = compareL fields fields2 r1 r2 :=
  Gsu.Ixkey.key_cmp_lower fields fields2 r1 r2 h

-- a unique index on a `_lower!` column: equal up to case, so Fields2 must NOT be consulted
example : compareL [⟨0, true⟩] [1] [[4, 65], [1]] [[4, 97], [2]] = .eq ∧
    keyL [⟨0, true⟩] [1] [[4, 65], [1]] = keyL [⟨0, true⟩] [1] [[4, 97], [2]] := by decide

/-- case folding is what the comparison uses: `cmpB` of the folded values = `PackedCmpLower` of the raw -/
theorem packedToLower_cmp (a b : Bytes) : cmpB (packedToLower a) (packedToLower b) = packedCmpLower a b :=
  Gsu.Ixkey.cmpB_packedToLower a b

/-- without `_lower!` fields the general key is the plain one (so `key_cmp` … apply to it) -/
theorem keyL_plain (fields fields2 : List Nat) (rec : List Bytes) :
    keyL (fields.map fun i => ⟨i, false⟩) fields2 rec = key fields fields2 rec :=
  Gsu.Ixkey.keyL_plain fields fields2 rec

/-- (G) the separator and Max constants the model uses are the ones in `ixkey.go` today -/
theorem gen_constants : Gsu.Gen.Ixkey.cSep = sep ∧ Gsu.Gen.Ixkey.cMax = maxKey ∧ Gsu.Gen.Ixkey.cMin = [] :=
  ⟨rfl, rfl, rfl⟩

end Gsu.Props.C12
