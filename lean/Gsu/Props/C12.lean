/-
C12 — Composite index keys preserve value order and are unambiguous.

"For any records, comparing their encoded keys for an index byte-wise gives the same result as
comparing the indexed fields in order, distinct field tuples give distinct keys, and decoding a
key recovers its fields. Prefix, range-end and prefix/suffix split helpers select exactly the
keys whose leading fields match."

Property theorems only; helper lemmas live in `Gsu/Proofs/Ixkey.lean`.
-/
import Gsu.Proofs.Ixkey
import Gsu.Gen.Ixkey
namespace Gsu.Props.C12
open Gsu.Proto Gsu.Ixkey

/-- Escaping preserves order, field by field: comparing `enc a ++ tail` with `enc b ++ tail'`
(each tail empty or starting with a separator) is comparing `a` with `b` and then the tails. -/
theorem enc_cmp (a b sa sb : Bytes) (ha : IsTail sa) (hb : IsTail sb) :
    cmpB (enc a ++ sa) (enc b ++ sb) =
      (match cmpB a b with | .eq => cmpB sa sb | o => o) :=
  Gsu.Ixkey.enc_cmp a b sa sb ha hb

-- non-vacuity: the hypotheses are met by a real two-field key
example : IsTail ([] : Bytes) ∧ IsTail (0 :: 0 :: enc [7]) := ⟨Or.inl rfl, Or.inr ⟨_, rfl⟩⟩

/-- (G) the separator and Max constants the model uses are the ones in `ixkey.go` today -/
theorem gen_constants : Gsu.Gen.Ixkey.cSep = sep ∧ Gsu.Gen.Ixkey.cMax = maxKey ∧ Gsu.Gen.Ixkey.cMin = [] :=
  ⟨rfl, rfl, rfl⟩

end Gsu.Props.C12
