/-
C10 — Stored btrees behave as ordered maps.

"For any sequence of batched inserts, updates and deletes applied to a stored index tree, and for
any bulk-built tree, looking up a key returns exactly its current offset (or nothing), iteration
yields exactly the current keys in order, range fraction estimates are between 0 and 1, and every
tree node respects the ordering and size invariants."

LEVEL: specification side only (partial). The Lean model (`Gsu/Model/Btree.lean`, executed by
`drv_c10`) is the CONTENT of a tree — the strictly sorted list of (key, offset) that iteration
yields — with the map-level effect of `MergeAndSave` (`state.modify`: insert asserts absent,
update/delete assert present) and the greedy bottom-up chunking of the bulk `Builder`.
The theorems say this content behaves as an ordered map under batches and that bulk build keeps
the input sequence. NOT modelled, hence not proved (tied to the code only by the correspondence
run and the direct oracles Lookup / iteration both ways / Check() / RangeFrac ∈ [0,1]):
  * FULL `tree_inv` preserved by `mergeBatch` with node split at `splitCount`/`maxNodeSize` and
    empty-node removal, separators bounding children, `lookup` by descent = `toMap` lookup;
  * `leaf_codec_roundtrip` (prefix compressed leaf layout);
  * `rangeFrac_bounds` (no model of `rangeFrac`; the direct oracle checks 0 ≤ f ≤ 1 and found a
    violation on the unchanged code, see findings/C10.md).
-/
import Gsu.Proofs.Btree
import Gsu.Model.BtreeLeaf
import Gsu.Gen.Btree
namespace Gsu.Props.C10
open Gsu.Btree

/-- tree_sem (map level, partial): an accepted batch turns a sorted content into a sorted content
whose lookups are those of the abstract map after applying the entries in order
(`add`/`upd` bind the key, `del` unbinds it). Iteration = the content list, so "iteration yields
exactly the current keys in order" is `Sorted m'` plus these lookups. -/
theorem tree_sem_partial (m m' : List KV) (b : List (Key × Op × Nat)) (hs : Sorted m)
    (h : applyBatch m b = some m') :
    Sorted m' ∧ ∀ x, lookup m' x = specBatch (lookup m) b x :=
  applyBatch_spec hs h

/-- a batch entry is accepted exactly when the Go assert holds: insert of an absent key,
update/delete of a present key (otherwise `MergeAndSave` panics: `!assert` in the driver) -/
theorem batch_entry_accepted_iff (m : List KV) (k : Key) (op : Op) (o : Nat) (hs : Sorted m) :
    (applyOne m k op o).isSome ↔
      (match op with | .add => lookup m k = none | _ => (lookup m k).isSome) :=
  applyOne_defined hs

/-- bulk build (partial: count limit only, no byte-size limit, no separators): the in-order
content of the tree built bottom-up from greedy chunks is the input sequence, for every node
capacity `n` (`splitCount`) -/
theorem bulk_build_content_partial (n : Nat) (l : List KV) : (build n l).toList = l :=
  build_toList n l

/-- size invariant of bulk-built leaves (mirror of `leafBuilder.tryAdd/add/size` + `Builder.addLeaf`,
compared leaf by leaf — key count and byte size — with the real Builder by the suite): for the
production split (any `1 ≤ split ≤ 100`) and keys that fit a node on their own, every leaf the
Builder finishes holds at most `split` keys and is at most `maxNodeSize` bytes.
This is about the REPAIRED `fieldsLimit` (see `builder_fieldsLimit_counter`). -/
theorem builder_leaf_size_bound (split : Nat) (hs : split ≤ 100) (h1 : 1 ≤ split) (keys : List Key)
    (hk : ∀ k ∈ keys, k.length + 11 ≤ maxNodeSizeM) :
    ∀ p ∈ leaves split keys, p.2 ≤ maxNodeSizeM ∧ p.1 ≤ split :=
  leaves_fit hs h1 keys hk

/-- the packing neither loses nor duplicates keys -/
theorem builder_leaf_count (split : Nat) (keys : List Key) :
    ((leaves split keys).map (·.1)).sum = keys.length := by
  have := packLeaves_count split keys {}
  simpa [leaves] using this

/-- counter-witness for the code before fixes/10-builder-fieldslimit-header.patch
(`fieldsLimit = maxNodeSize - splitCount*7`, header bytes forgotten): 100 keys without a common
prefix and 7492 key bytes pass `fieldsLen > fieldsLimit` unchecked and make a leaf of 8196 bytes.
(Found on the real Builder by the suite: `builder-oversize-node`, 100 keys of 74/75 bytes.) -/
theorem builder_fieldsLimit_counter :
    ¬ (7492 > 8192 - 100 * 7) ∧ leafSize 100 0 7492 = 8196 ∧ 8196 > maxNodeSizeM := by decide

example : ∀ k ∈ ([[1, 2, 3], [1, 2, 4], [9]] : List Key), k.length + 11 ≤ maxNodeSizeM := by decide
example : leaves 2 [[1, 2, 3], [1, 2, 4], [9]] = [(2, 4 + 14 + 2 + 6 - 4), (1, 12)] := by decide

-- non-vacuity
example : Sorted [([1], 5), ([1, 0], 6), ([2], 7)] := by unfold Sorted; decide
example : applyBatch [([1], 5), ([2], 7)] [([1], .upd, 9), ([1, 0], .add, 6), ([2], .del, 7)]
    = some [([1], 9), ([1, 0], 6)] := by decide
example : applyBatch [([1], 5)] [([1], .add, 6)] = none := by decide
example : (build 2 [([1], 1), ([2], 2), ([3], 3), ([4], 4), ([5], 5)]).toList.length = 5 := by decide

/-- (G) the flag bits the model decodes batch entries with and the size constants are those of
the Go source today (`splitCount` default, `maxNodeSize`, `maxLevels`, `smallRoot`) -/
theorem gen_constants :
    Gsu.Gen.Btree.cUpdate = updBit ∧ Gsu.Gen.Btree.cDelete = delBit ∧ Gsu.Gen.Btree.cInsert = 0 ∧
    Gsu.Gen.Btree.cMask = mask ∧ Gsu.Gen.Btree.splitCount = 100 ∧
    Gsu.Gen.Btree.maxNodeSize = 8192 ∧ Gsu.Gen.Btree.maxLevels = 8 ∧ Gsu.Gen.Btree.smallRoot = 8 ∧
    -- a full tree of `treeHeight` levels above the leaves cannot exceed the iterator's stack
    Gsu.Gen.Btree.treeHeight < Gsu.Gen.Btree.maxLevels := by
  refine ⟨by decide, by decide, rfl, by decide, rfl, rfl, rfl, rfl, by decide⟩

/-- (G) the leaf builder's limit, size estimate and prefix cap as written in leafnode.go today are
the ones the mirror uses (the extractor also fails when `tryAdd` no longer tests the count, then
`fieldsLen > fieldsLimit`, then the estimate with the common prefix INCLUDING the new key) -/
theorem gen_leaf_builder :
    Gsu.Gen.Btree.fieldsLimit = fieldsLimitM ∧ Gsu.Gen.Btree.maxNodeSize = maxNodeSizeM ∧
    Gsu.Gen.Btree.prefixCap = 255 ∧
    (∀ n p f, Gsu.Gen.Btree.leafSizeEst n p f = leafSize n p f) :=
  ⟨by decide, rfl, rfl, fun _ _ _ => rfl⟩

end Gsu.Props.C10
