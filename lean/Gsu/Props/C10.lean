/-
C10 — Stored btrees behave as ordered maps.

"For any sequence of batched inserts, updates and deletes applied to a stored index tree, and for
any bulk-built tree, looking up a key returns exactly its current offset (or nothing), iteration
yields exactly the current keys in order, range fraction estimates are between 0 and 1, and every
tree node respects the ordering and size invariants."

LEVEL: proof about executable models of the STRUCTURE of the btree, above and at the byte level
of leaf nodes. Five models, all executed by `drv_c10` against the real code:
  * `Model/Btree.lean` — the CONTENT of a tree (strictly sorted (key, offset) list) with the
    map-level effect of `MergeAndSave` (`state.modify`'s asserts);
  * `Model/BtreeTree.lean` — the abstract B+-tree (leaves with their stored prefix length, tree
    nodes = children with separators, uniform height), `Lookup` by descent, and the bulk `Builder`
    (leaf packing by count and byte size, `Builder.sep`, `addTree`, `Finish`);
  * `Model/BtreeMerge.lean` — `MergeAndSave` on the abstract tree: descent, `state.modify` with the
    exact prefix bookkeeping of `leafNode.insert/delete`, `split` at `nkeys/2` with the code's
    separators, `dropLeaf` with empty-node removal and root popping;
  * `Model/BtreeCodec.lean` — the prefix-compressed leaf node byte layout;
  * `Model/BtreeRangeFrac.lean` — `RangeFrac` with exact rational arithmetic (the two `math.Pow`
    fanouts are inputs).
Modelling choices tied only by the correspondence (complete tree shape after every build and
merge): the Builder's levels are run one after the other instead of as a pipeline; every batch
entry descends from the root instead of reusing the cached path; binary searches are linear scans.
Proved: `tree_inv_bulk`, `lookup_bulk`, `lookup_descent`, `bulk_build_content`, `tree_sem`,
`tree_inv_merge`, `tree_inv_merge_sizes` (+ `_size_counter`), `leaf_codec_roundtrip`,
`rangeFrac_bounds` (+ the older leaf-packing theorems).
NOT proved / not modelled: the byte-SIZE limit after merges for LONG keys (false of the code:
KF-C10-2, KF-C10-4 stay open findings; `tree_inv_merge` has the count clauses only,
`tree_inv_merge_sizes` the size clause under the short-key hypothesis), the tree-node byte
codec, path copying / which nodes are rewritten, the float arithmetic of `RangeFrac`
(see `rangeFrac_*` below for what is modelled).
-/
import Gsu.Proofs.Btree
import Gsu.Proofs.BtreeBulk2
import Gsu.Proofs.BtreeCodec
import Gsu.Proofs.BtreeMerge4
import Gsu.Proofs.BtreeMerge6
import Gsu.Proofs.BtreeMerge7
import Gsu.Proofs.BtreeRangeFrac
import Gsu.Model.BtreeLeaf
import Gsu.Gen.Btree
namespace Gsu.Props.C10
open Gsu.Btree

/-- tree_sem at the map level (what `applyBatch` means; the name is kept, the tree-level statement
is `tree_sem` below): an accepted batch turns a sorted content into a sorted content whose lookups are those of the abstract map after applying the entries in order
(`add`/`upd` bind the key, `del` unbinds it). Iteration = the content list, so "iteration yields
exactly the current keys in order" is `Sorted m'` plus these lookups. -/
theorem tree_sem_partial (m m' : List KV) (b : List (Key × Op × Nat)) (hs : Sorted m)
    (h : applyBatch m b = some m') :
    Sorted m' ∧ ∀ x, lookup m' x = specBatch (lookup m) b x :=
  applyBatch_spec hs h

/-- a batch entry is accepted exactly when the Go assert holds: insert of an absent key,
update/delete of a present key (otherwise `MergeAndSave` panics: `!assert` in the driver) -/
theorem batch_entry_accepted_iff (m : List KV) (k : Key) (op : Op) (o : Nat) (hs : Sorted m) :
    (applyOne m k op o).isSome ↔
      (match op with | .add => lookup m k = none | _ => (lookup m k).isSome) :=
  applyOne_defined hs

/-- bulk build, content: the in-order content of the abstract B+-tree the Builder makes
(`bulkBuild`: leaves closed by `leafBuilder.tryAdd` — count and byte size —, separators
`Builder.sep`, tree levels closed by `addTree`) is the input sequence, for every `splitCount`.
(Replaces `bulk_build_content_partial`, which was about count-limited chunks without separators.) -/
theorem bulk_build_content (split : Nat) (kvs : List KV) : (bulkBuild split kvs).toList = kvs :=
  bulkBuild_toList split kvs

/-- tree_inv after a bulk build: for sorted input the tree is ORDERED — every leaf strictly
sorted, every separator strictly above everything to its left and not above anything to its
right, separators strictly increasing (`BT.Bounded`, the invariant `btree.Check` asserts) — and,
for the production splits `2 ≤ split ≤ 100` and keys that fit a tree node as a separator, within
the LIMITS (`BT.RootLimits`): no leaf below the root is empty, every leaf holds at most `split`
keys in at most `maxNodeSize` bytes with a genuine common prefix of at most 255 bytes, every tree
node has at most `split` offsets in at most `maxNodeSize` bytes, the root tree node at least two. -/
theorem tree_inv_bulk (split : Nat) (kvs : List KV) (hsort : Sorted kvs) (h2 : 2 ≤ split)
    (hs : split ≤ 100) (hk : ∀ e ∈ kvs, e.1.length + 15 ≤ maxNodeSizeM) :
    BT.Bounded (bulkBuild split kvs).h none none (bulkBuild split kvs).root ∧
    BT.RootLimits split (bulkBuild split kvs).h (bulkBuild split kvs).root :=
  ⟨bulkBuild_bounded split kvs hsort, bulkBuild_limits hs h2 kvs hk⟩

/-- `Lookup` by descent (`treeNode.search` down to the leaf) returns exactly what the content
holds, in every tree that satisfies the ordering invariant -/
theorem lookup_descent (t : BTree) (hb : BT.Bounded t.h none none t.root) (k : Key) :
    t.lookup k = lookup t.toList k :=
  BT_lookup_bounded t.h none none t.root k hb

/-- lookup in a bulk-built tree: descending through the separators finds exactly the offset the
input binds to the key (or nothing), for every `splitCount` and every sorted input -/
theorem lookup_bulk (split : Nat) (kvs : List KV) (hsort : Sorted kvs) (k : Key) :
    (bulkBuild split kvs).lookup k = lookup kvs k := by
  rw [lookup_descent _ (bulkBuild_bounded split kvs hsort), bulk_build_content]

/-- leaf_codec_roundtrip: the prefix-compressed node `leafBuilder.finishInto` writes for a leaf
(fewer than 256 keys, a genuine common prefix of at most 255 bytes, 40-bit offsets, size below
64 KiB so that the 2-byte positions do not wrap) decodes — through the accessors `nkeys`,
`prefix`, `key(i)`, `offset(i)`, `size()` — to the same leaf, and has exactly `Leaf.size` bytes.
Every leaf of a bulk-built tree satisfies the hypotheses (`tree_inv_bulk`: `LeafOK`). -/
theorem leaf_codec_roundtrip (l : Leaf) (hn : l.es.length < 256) (hpre : l.PreOK)
    (hoff : ∀ e ∈ l.es, e.2 < 1099511627776) (hsz : l.size < 65536) :
    decodeLeaf (encodeLeaf l) = l ∧ leafNodeSize (encodeLeaf l) = l.size ∧
      (encodeLeaf l).length = l.size :=
  ⟨(leaf_roundtrip l hn hpre hoff hsz).1, (leaf_roundtrip l hn hpre hoff hsz).2,
    encodeLeaf_length l hpre⟩

/-- tree_sem: `MergeAndSave` of a batch on a tree that satisfies the ordering invariant
(`BTree.Bounded`; established by `tree_inv_bulk`, kept by this theorem) — descent to the leaf,
insert / update / delete there, node splits at `nkeys/2`, removal of emptied nodes, root growth and
root popping — has on the CONTENT exactly the effect of the batch on the ordered map
(`applyBatch`, cf. `tree_sem_partial` for what that is), the new tree is ordered again, and
`Lookup` by descent in the new tree is the abstract map after the entries in order. -/
theorem tree_sem (split : Nat) (t t' : BTree) (b : List (Key × Op × Nat)) (hb : t.Bounded)
    (h : t.mergeBatch split b = some t') :
    applyBatch t.toList b = some t'.toList ∧ t'.Bounded ∧
      ∀ x, t'.lookup x = specBatch t.lookup b x := by
  obtain ⟨hc, hb'⟩ := (mergeBatch_spec split b t hb).1 t' h
  refine ⟨hc, hb', fun x => ?_⟩
  rw [lookup_descent t' hb' x,
    (applyBatch_spec (BT_Bounded_sorted t.h none none t.root hb) hc).2 x]
  exact specBatch_congr (fun y => (lookup_descent t hb y).symm) b x

/-- a batch with an entry whose Go assert fails (insert of a present key, update/delete of an
absent one — `applyBatch` refuses it, `batch_entry_accepted_iff`) is refused by the tree merge too
(`none` = the Go panic) -/
theorem tree_merge_refuses (split : Nat) (t : BTree) (b : List (Key × Op × Nat)) (hb : t.Bounded)
    (h : applyBatch t.toList b = none) : t.mergeBatch split b = none :=
  (mergeBatch_spec split b t hb).2 h

/-- tree_inv is preserved by `MergeAndSave` (for `splitCount ≥ 2`): ORDER (`BTree.Bounded`: leaves
strictly sorted with a genuine stored prefix, separators strictly increasing and bounding their
children) and COUNTS (`BTree.Counts`: no empty node below the root, at most `split` keys per leaf
and offsets per tree node, a root tree node has at least two children).
The byte-size clause is NOT preserved by the code (open findings KF-C10-2 / KF-C10-4: leaves and
tree nodes above `maxNodeSize` are stored after merges with long keys / collapsing prefixes), so
it is not part of this statement. -/
theorem tree_inv_merge (split : Nat) (h2 : 2 ≤ split) (t t' : BTree) (b : List (Key × Op × Nat))
    (hb : t.Bounded) (hc : t.Counts split) (h : t.mergeBatch split b = some t') :
    t'.Bounded ∧ t'.Counts split :=
  ⟨((mergeBatch_spec split b t hb).1 t' h).2, mergeBatch_counts h2 b t t' hc h⟩

/-- the byte-size clause of tree_inv under `MergeAndSave`, with the hypothesis that excludes the
open findings KF-C10-2 / KF-C10-4: if every key of the tree and of the batch has at most `L` bytes
with `8 + split·(L + 7) ≤ maxNodeSize` (`L ≤ 74` for the production split 100) then — starting from
a tree that satisfies `BTree.ShortKeys` (ordered, counts, keys and separators at most `L` bytes;
the empty tree `CreateBtree` does, and every bulk-built tree with such keys: `bulk_short_keys`)
— the merged tree satisfies it again and EVERY leaf and tree
node has at most `maxNodeSize` bytes (separators are never longer than keys). -/
theorem tree_inv_merge_sizes (split L : Nat) (h2 : 2 ≤ split)
    (hL : 8 + split * (L + 7) ≤ maxNodeSizeM) (t t' : BTree) (b : List (Key × Op × Nat))
    (hk : ∀ e ∈ b, e.1.length ≤ L) (hc : t.ShortKeys split L)
    (h : t.mergeBatch split b = some t') : t'.ShortKeys split L ∧ BT.Sizes t'.h t'.root :=
  ⟨mergeBatch_short h2 b t t' hk hc h, ShortKeys_sizes hL t' (mergeBatch_short h2 b t t' hk hc h)⟩

/-- a bulk-built tree with short keys satisfies the hypothesis of `tree_inv_merge_sizes` -/
theorem bulk_short_keys (split L : Nat) (h2 : 2 ≤ split) (hs : split ≤ 100) (kvs : List KV)
    (hsort : Sorted kvs) (hk : ∀ e ∈ kvs, e.1.length ≤ L)
    (hk2 : ∀ e ∈ kvs, e.1.length + 15 ≤ maxNodeSizeM) : (bulkBuild split kvs).ShortKeys split L :=
  bulkBuild_short h2 hs kvs hsort hk hk2

/-- the keys the counter-witness uses: 250 × 'p', three digits, 47 × 'f' -/
def kf4key (i : Nat) : Key :=
  List.replicate 250 112 ++ [UInt8.ofNat (48 + i / 100), UInt8.ofNat (48 + i / 10 % 10),
    UInt8.ofNat (48 + i % 10)] ++ List.replicate 47 102

/-- the leaf the bulk Builder makes of 60 such keys: one node, prefix 250 -/
def kf4leaf : Leaf := ⟨250, (List.range 60).map fun i => (kf4key i, i + 1)⟩

def resSizes : Res Leaf → List Nat
  | .one l => [l.size]
  | .two a _ b => [a.size, b.size]
  | .gone => []

set_option maxRecDepth 100000 in
/-- counter-witness for the size clause WITHOUT the short-key hypothesis (open finding KF-C10-4,
first seen on the real tree by the direct oracle, reproduced here by the model with the very same
sizes): a leaf of 60 keys of 300 bytes sharing 250 bytes takes 3674 bytes; the single insert of
`"zzz"`, which does not share the prefix, makes `leafNode.insert` drop the prefix and
`state.split` store two leaves of 9214 and 9224 bytes (> `maxNodeSize` = 8192). -/
theorem tree_inv_merge_size_counter :
    kf4leaf.size = 3674 ∧
    (Leaf.merge 100 kf4leaf [122, 122, 122] .add 7).map resSizes = some [9214, 9224] ∧
    9214 > maxNodeSizeM := by
  decide

/-- end to end: a bulk-built tree (sorted input, production split range, keys that fit) followed
by any number of accepted batches is ordered, within the count limits, and holds exactly the
content of the ordered-map model -/
theorem bulk_then_merge (split : Nat) (kvs : List KV) (bs : List (List (Key × Op × Nat)))
    (hsort : Sorted kvs) (h2 : 2 ≤ split) (hs : split ≤ 100)
    (hk : ∀ e ∈ kvs, e.1.length + 15 ≤ maxNodeSizeM) (t' : BTree)
    (h : bs.foldlM (fun t b => BTree.mergeBatch split t b) (bulkBuild split kvs) = some t') :
    t'.Bounded ∧ t'.Counts split ∧ bs.foldlM applyBatch kvs = some t'.toList := by
  have h0 := tree_inv_bulk split kvs hsort h2 hs hk
  have := foldl_merge_spec h2 bs (bulkBuild split kvs) t' h0.1 (RootLimits_counts _ h0.2) h
  rw [bulk_build_content] at this
  exact this

/-- rangeFrac_bounds: the range fraction estimate (rational mirror of rangefrac.go with the
two-sided clamp of the repaired code) is between 0 and 1 for every tree, count, range and fanout
values. (By the final clamp; before fixes/10-rangefrac-clamp-upper.patch the code clamped below
only and the direct oracle found results up to 1.04.) -/
theorem rangeFrac_bounds (t : BTree) (count : Nat) (org end_ : Key) (fanA fanB : Rat) :
    0 ≤ rangeFracQ t count org end_ fanA fanB ∧ rangeFracQ t count org end_ fanA fanB ≤ 1 :=
  rangeFracQ_bounds t count org end_ fanA fanB

/-- an empty range has fraction 0, the whole key space fraction 1 -/
theorem rangeFrac_trivial (t : BTree) (count : Nat) (org end_ : Key) (fanA fanB : Rat) :
    (org ≥ end_ → rangeFracQ t count org end_ fanA fanB = 0) ∧
    rangeFracQ t count keyMin keyMax fanA fanB = 1 := by
  constructor
  · intro h; simp [rangeFracQ, h]
  · have : ¬ keyMin ≥ keyMax := by decide
    simp [rangeFracQ, this]

/-- inside one leaf the estimate is exact: for a single-leaf tree the value before the clamp is
the number of keys in `[org, end)` divided by the count -/
theorem rangeFrac_exact_leaf (l : Leaf) (count : Nat) (org end_ : Key) (fanA fanB : Rat)
    (hs : Sorted l.es) (h : org ≤ end_) :
    rangeFracRaw ⟨0, l⟩ count org end_ fanA fanB =
      ((l.es.countP (fun e => org ≤ e.1 ∧ e.1 < end_) : Nat) : Int) / ratOfNat count :=
  rangeFracRaw_leaf l count org end_ fanA fanB hs h

/-- size invariant of bulk-built leaves (mirror of `leafBuilder.tryAdd/add/size` + `Builder.addLeaf`,
compared leaf by leaf — key count and byte size — with the real Builder by the suite): for the
production split (any `1 ≤ split ≤ 100`) and keys that fit a node on their own, every leaf the
Builder finishes holds at most `split` keys and is at most `maxNodeSize` bytes.
This is about the REPAIRED `fieldsLimit` (see `builder_fieldsLimit_counter`). -/
theorem builder_leaf_size_bound (split : Nat) (hs : split ≤ 100) (h1 : 1 ≤ split) (keys : List Key)
    (hk : ∀ k ∈ keys, k.length + 11 ≤ maxNodeSizeM) :
    ∀ p ∈ leaves split keys, p.2 ≤ maxNodeSizeM ∧ p.1 ≤ split :=
  leaves_fit hs h1 keys hk

/-- the packing neither loses nor duplicates keys -/
theorem builder_leaf_count (split : Nat) (keys : List Key) :
    ((leaves split keys).map (·.1)).sum = keys.length := by
  have := packLeaves_count split keys {}
  simpa [leaves] using this

/-- counter-witness for the code before fixes/10-builder-fieldslimit-header.patch
(`fieldsLimit = maxNodeSize - splitCount*7`, header bytes forgotten): 100 keys without a common
prefix and 7492 key bytes pass `fieldsLen > fieldsLimit` unchecked and make a leaf of 8196 bytes.
(Found on the real Builder by the suite: `builder-oversize-node`, 100 keys of 74/75 bytes.) -/
theorem builder_fieldsLimit_counter :
    ¬ (7492 > 8192 - 100 * 7) ∧ leafSize 100 0 7492 = 8196 ∧ 8196 > maxNodeSizeM := by decide

example : ∀ k ∈ ([[1, 2, 3], [1, 2, 4], [9]] : List Key), k.length + 11 ≤ maxNodeSizeM := by decide
example : leaves 2 [[1, 2, 3], [1, 2, 4], [9]] = [(2, 4 + 14 + 2 + 6 - 4), (1, 12)] := by decide

-- non-vacuity
example : Sorted [([1], 5), ([1, 0], 6), ([2], 7)] := by unfold Sorted; decide
example : applyBatch [([1], 5), ([2], 7)] [([1], .upd, 9), ([1, 0], .add, 6), ([2], .del, 7)]
    = some [([1], 9), ([1, 0], 6)] := by decide
example : applyBatch [([1], 5)] [([1], .add, 6)] = none := by decide
example : (bulkBuild 2 [([1], 1), ([2], 2), ([3], 3), ([4], 4), ([5], 5)]).h = 2 := by decide
example : (bulkBuild 2 [([1], 1), ([2], 2), ([3], 3), ([4], 4), ([5], 5)]).lookup [4] = some 4 := by
  decide
example : ((bulkBuild 2 [([1], 1), ([2], 2), ([3], 3), ([4], 4), ([5], 5)]).mergeBatch 2
    [([1], .del, 1), ([2], .del, 2), ([3, 0], .add, 9), ([3, 1], .add, 8)]).map (·.toList) =
    some [([3], 3), ([3, 0], 9), ([3, 1], 8), ([4], 4), ([5], 5)] := by decide
example : emptyTree.ShortKeys 100 74 := emptyTree_short 100 74
example : 8 + 100 * (74 + 7) ≤ maxNodeSizeM := by decide
example : encodeLeaf ⟨1, [([7, 1], 5), ([7, 2, 3], 258)]⟩ =
    [2, 1, 0, 19, 0, 0, 0, 0, 5, 0, 20, 0, 0, 0, 1, 2, 0, 22, 7, 1, 2, 3] := by decide

/-- (G) the flag bits the model decodes batch entries with and the size constants are those of
the Go source today (`splitCount` default, `maxNodeSize`, `maxLevels`, `smallRoot`) -/
theorem gen_constants :
    Gsu.Gen.Btree.cUpdate = updBit ∧ Gsu.Gen.Btree.cDelete = delBit ∧ Gsu.Gen.Btree.cInsert = 0 ∧
    Gsu.Gen.Btree.cMask = mask ∧ Gsu.Gen.Btree.splitCount = 100 ∧
    Gsu.Gen.Btree.maxNodeSize = 8192 ∧ Gsu.Gen.Btree.maxLevels = 8 ∧ Gsu.Gen.Btree.smallRoot = 8 ∧
    -- a full tree of `treeHeight` levels above the leaves cannot exceed the iterator's stack
    Gsu.Gen.Btree.treeHeight < Gsu.Gen.Btree.maxLevels := by
  refine ⟨by decide, by decide, rfl, by decide, rfl, rfl, rfl, rfl, by decide⟩

/-- (G) the tree model mirrors today's source: the extractor checked the 17 statements the abstract
tree / merge / codec models mirror (`Builder.sep`, the `addTree` close condition, `shouldSplit`, the
split positions and separators, the prefix rules of `insert` / `delete` / `finishInto`, root popping)
and the constants of `rangeFrac` (`smallRoot`, the spread limit, `maxToRead`, the two-sided clamp) -/
theorem gen_tree_model :
    Gsu.Gen.Btree.treeShapes = 17 ∧ Gsu.Gen.Btree.maxNodeSize = maxNodeSizeM ∧
    Gsu.Gen.Btree.smallRoot = smallRootM ∧ Gsu.Gen.Btree.rfSpread = spreadM ∧
    Gsu.Gen.Btree.rfMaxToRead = maxToReadM ∧ Gsu.Gen.Btree.rfClampBoth = 1 :=
  ⟨rfl, rfl, rfl, rfl, rfl, rfl⟩

/-- (G) the leaf builder's limit, size estimate and prefix cap as written in leafnode.go today are
the ones the mirror uses (the extractor also fails when `tryAdd` no longer tests the count, then
`fieldsLen > fieldsLimit`, then the estimate with the common prefix INCLUDING the new key) -/
theorem gen_leaf_builder :
    Gsu.Gen.Btree.fieldsLimit = fieldsLimitM ∧ Gsu.Gen.Btree.maxNodeSize = maxNodeSizeM ∧
    Gsu.Gen.Btree.prefixCap = 255 ∧
    (∀ n p f, Gsu.Gen.Btree.leafSizeEst n p f = leafSize n p f) :=
  ⟨by decide, rfl, rfl, fun _ _ _ => rfl⟩

end Gsu.Props.C10
