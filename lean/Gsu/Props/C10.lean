/-
C10 — Stored btrees behave as ordered maps.

"For any sequence of batched inserts, updates and deletes applied to a stored index tree, and for
any bulk-built tree, looking up a key returns exactly its current offset (or nothing), iteration
yields exactly the current keys in order, range fraction estimates are between 0 and 1, and every
tree node respects the ordering and size invariants."

LEVEL: specification side only (partial). The Lean model (`Gsu/Model/Btree.lean`, executed by
`drv_c10`) is the CONTENT of a tree — the strictly sorted list of (key, offset) that iteration
yields — with the map-level effect of `MergeAndSave` (`state.modify`: insert asserts absent,
update/delete assert present) and the greedy bottom-up chunking of the bulk `Builder`.
The theorems say this content behaves as an ordered map under batches and that bulk build keeps
the input sequence. NOT modelled, hence not proved (tied to the code only by the correspondence
run and the direct oracles Lookup / iteration both ways / Check() / RangeFrac ∈ [0,1]):
  * FULL `tree_inv` preserved by `mergeBatch` with node split at `splitCount`/`maxNodeSize` and
    empty-node removal, separators bounding children, `lookup` by descent = `toMap` lookup;
  * `leaf_codec_roundtrip` (prefix compressed leaf layout);
  * `rangeFrac_bounds` (no model of `rangeFrac`; the direct oracle checks 0 ≤ f ≤ 1 and found a
    violation on the unchanged code, see findings/C10.md).
-/
import Gsu.Proofs.Btree
import Gsu.Gen.Btree
namespace Gsu.Props.C10
open Gsu.Btree

/-- tree_sem (map level, partial): an accepted batch turns a sorted content into a sorted content
whose lookups are those of the abstract map after applying the entries in order
(`add`/`upd` bind the key, `del` unbinds it). Iteration = the content list, so "iteration yields
exactly the current keys in order" is `Sorted m'` plus these lookups. -/
theorem tree_sem_partial (m m' : List KV) (b : List (Key × Op × Nat)) (hs : Sorted m)
    (h : applyBatch m b = some m') :
    Sorted m' ∧ ∀ x, lookup m' x = specBatch (lookup m) b x :=
  applyBatch_spec hs h

/-- a batch entry is accepted exactly when the Go assert holds: insert of an absent key,
update/delete of a present key (otherwise `MergeAndSave` panics: `!assert` in the driver) -/
theorem batch_entry_accepted_iff (m : List KV) (k : Key) (op : Op) (o : Nat) (hs : Sorted m) :
    (applyOne m k op o).isSome ↔
      (match op with | .add => lookup m k = none | _ => (lookup m k).isSome) :=
  applyOne_defined hs

/-- bulk build (partial: count limit only, no byte-size limit, no separators): the in-order
content of the tree built bottom-up from greedy chunks is the input sequence, for every node
capacity `n` (`splitCount`) -/
theorem bulk_build_content_partial (n : Nat) (l : List KV) : (build n l).toList = l :=
  build_toList n l

-- non-vacuity
example : Sorted [([1], 5), ([1, 0], 6), ([2], 7)] := by unfold Sorted; decide
example : applyBatch [([1], 5), ([2], 7)] [([1], .upd, 9), ([1, 0], .add, 6), ([2], .del, 7)]
    = some [([1], 9), ([1, 0], 6)] := by decide
example : applyBatch [([1], 5)] [([1], .add, 6)] = none := by decide
example : (build 2 [([1], 1), ([2], 2), ([3], 3), ([4], 4), ([5], 5)]).toList.length = 5 := by decide

/-- (G) the flag bits the model decodes batch entries with and the size constants are those of
the Go source today (`splitCount` default, `maxNodeSize`, `maxLevels`, `smallRoot`) -/
theorem gen_constants :
    Gsu.Gen.Btree.cUpdate = updBit ∧ Gsu.Gen.Btree.cDelete = delBit ∧ Gsu.Gen.Btree.cInsert = 0 ∧
    Gsu.Gen.Btree.cMask = mask ∧ Gsu.Gen.Btree.splitCount = 100 ∧
    Gsu.Gen.Btree.maxNodeSize = 8192 ∧ Gsu.Gen.Btree.maxLevels = 8 ∧ Gsu.Gen.Btree.smallRoot = 8 ∧
    -- a full tree of `treeHeight` levels above the leaves cannot exceed the iterator's stack
    Gsu.Gen.Btree.treeHeight < Gsu.Gen.Btree.maxLevels := by
  refine ⟨by decide, by decide, rfl, by decide, rfl, rfl, rfl, rfl, by decide⟩

end Gsu.Props.C10
