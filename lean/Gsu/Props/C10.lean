import Gsu.Model.Btree
namespace Gsu.Props.C10
end Gsu.Props.C10
