/-
C25 — Query expressions evaluate like language expressions.

"A where or extend expression evaluated by the query engine, including the optimized comparison
on stored encodings, gives the same result as the same expression evaluated by the language on
the row's values. The only exception is the documented ordering of the empty string relative to
non-string values on stored encodings."

Model: `Gsu.QExpr` — `eval` (language meaning on values), `canRaw`/`evalRaw` (`CanEvalRaw`/
`EvalRaw` on stored encodings), `evalX` (what the engine runs: raw where a node's flag is set).
The expression language covered: constants, columns, `is isnt < <= > >=`, `not and or`, `?:`,
`in (constants)`, `+ - *`, unary minus, over booleans / int64 / byte strings. Calls, `=~`, ranges,
dates, objects and non-integral numbers are outside the model (the suite compares the three Go
evaluation paths on them only through the direct oracle).

The facts about the encoding that belong to C13 are explicit hypotheses: `PackInj` (distinct
values have distinct encodings) and the order of two *numbers* (`hint`, which C13 proves outside
the negative-prefix case, known finding 9). Everything else — order across types, strings,
booleans, the logic of `in`/`?:`/`and`/`or`/`not` — is proved here.
-/
import Gsu.Proofs.QExpr
import Gsu.Gen.QryRaw
namespace Gsu.Props.C25
open Gsu.Proto Gsu.QVal Gsu.QExpr

/-- `EvalRaw` yields the encoding of the language value whenever `CanEvalRaw`, provided every
order comparison met has operands whose encodings order like the values (`OrdOk`) -/
theorem evalRaw_eq_eval (hinj : PackInj) (flds : List Col) (r : Row) (e : Expr)
    (hc : canRaw flds e = true) (ho : OrdOk r e) : evalRaw r e = pack (eval r e) :=
  Gsu.QExpr.evalRaw_eq_eval hinj flds r e hc ho

/-- the engine's evaluation (raw where flagged, language operations elsewhere) is the language
evaluation, for every expression of the model -/
theorem evalX_eq_eval (hinj : PackInj) (flds : List Col) (r : Row) (e : Expr) (ho : OrdOk r e) :
    evalX flds r e = eval r e :=
  Gsu.QExpr.evalX_eq_eval hinj flds r e ho

/-- byte order of encodings = language order for every pair of values except the documented
`""`-against-non-string case; number against number is C13's theorem (hypothesis `hint`) -/
theorem rawCmp_eq_compare (a b : Val) (hne : ¬ EmptyExc a b)
    (hint : ∀ m n, a = Val.int m → b = Val.int n →
      rawCmp (Val.int m) (Val.int n) = QVal.compare (Val.int m) (Val.int n)) :
    rawCmp a b = QVal.compare a b :=
  Gsu.QExpr.rawCmp_eq_compare a b hne hint

/-- no order comparison in `e` on `r` meets the `""` exception or a pair of numbers outside
`IntOk` (C13: not prefix-related negative numbers) -/
def NoExc (IntOk : Int → Int → Prop) (r : Row) : Expr → Prop
  | .const _ => True
  | .col _ => True
  | .cmp op a b =>
    (op ≠ .is → op ≠ .isnt → ¬ EmptyExc (eval r a) (eval r b) ∧
      ∀ m n, eval r a = Val.int m → eval r b = Val.int n → IntOk m n) ∧
      NoExc IntOk r a ∧ NoExc IntOk r b
  | .not a => NoExc IntOk r a
  | .and a b => NoExc IntOk r a ∧ NoExc IntOk r b
  | .or a b => NoExc IntOk r a ∧ NoExc IntOk r b
  | .cond c a b => NoExc IntOk r c ∧ NoExc IntOk r a ∧ NoExc IntOk r b
  | .inl a _ => NoExc IntOk r a
  | .ar _ a b => NoExc IntOk r a ∧ NoExc IntOk r b
  | .neg a => NoExc IntOk r a

theorem ordOk_of_noExc (IntOk : Int → Int → Prop)
    (hint : ∀ m n, IntOk m n → rawCmp (Val.int m) (Val.int n) = QVal.compare (Val.int m) (Val.int n))
    (r : Row) : ∀ e : Expr, NoExc IntOk r e → OrdOk r e
  | .const _, _ => trivial
  | .col _, _ => trivial
  | .cmp op a b, h =>
    ⟨fun h1 h2 => Gsu.QExpr.rawCmp_eq_compare _ _ (h.1 h1 h2).1
        (fun m n hm hn => hint m n ((h.1 h1 h2).2 m n hm hn)),
      ordOk_of_noExc IntOk hint r a h.2.1, ordOk_of_noExc IntOk hint r b h.2.2⟩
  | .not a, h => ordOk_of_noExc IntOk hint r a h
  | .and a b, h => ⟨ordOk_of_noExc IntOk hint r a h.1, ordOk_of_noExc IntOk hint r b h.2⟩
  | .or a b, h => ⟨ordOk_of_noExc IntOk hint r a h.1, ordOk_of_noExc IntOk hint r b h.2⟩
  | .cond c a b, h => ⟨ordOk_of_noExc IntOk hint r c h.1, ordOk_of_noExc IntOk hint r a h.2.1,
      ordOk_of_noExc IntOk hint r b h.2.2⟩
  | .inl a _, h => ordOk_of_noExc IntOk hint r a h
  | .ar _ a b, h => ⟨ordOk_of_noExc IntOk hint r a h.1, ordOk_of_noExc IntOk hint r b h.2⟩
  | .neg a, h => ordOk_of_noExc IntOk hint r a h

/-- the property: outside the documented `""` exception (and the number pairs C13 excludes) the
engine's result is the language's result -/
theorem engine_eq_language (IntOk : Int → Int → Prop) (hinj : PackInj)
    (hint : ∀ m n, IntOk m n → rawCmp (Val.int m) (Val.int n) = QVal.compare (Val.int m) (Val.int n))
    (flds : List Col) (r : Row) (e : Expr) (h : NoExc IntOk r e) : evalX flds r e = eval r e :=
  Gsu.QExpr.evalX_eq_eval hinj flds r e (ordOk_of_noExc IntOk hint r e h)

/-- the documented exception is real: `"" < 5` is false in the language, true on encodings -/
theorem empty_exception_counter :
    eval [] (.cmp .lt (.const (.str [])) (.const (.int 5))) = .bool false ∧
    evalRaw [] (.cmp .lt (.const (.str [])) (.const (.int 5))) = pack (.bool true) := by
  decide

/-- known finding 9 (C13) at this level: `-155 < -150` in the language, not on the encodings
(the digit string of -150 is a prefix of that of -155 and the exponents are equal) -/
theorem neg_prefix_counter :
    QVal.compare (.int (-155)) (.int (-150)) = .lt ∧ rawCmp (.int (-155)) (.int (-150)) = .gt := by
  decide

/-! ### (G) -/

def CmpOp.tokName : CmpOp → String
  | .is => "Is" | .isnt => "Isnt" | .lt => "Lt" | .lte => "Lte" | .gt => "Gt" | .gte => "Gte"

/-- the comparison tokens `Binary.RawOp` accepts are exactly the model's `CmpOp`s; `Unary`
accepts `not` and parentheses, `Nary` accepts `and`/`or` — the node kinds `canRaw` treats as raw -/
theorem gen_raw_ops :
    (∀ op : CmpOp, CmpOp.tokName op ∈ Gsu.Gen.QryRaw.rawBinaryOps) ∧
    Gsu.Gen.QryRaw.rawBinaryOps.length = 6 ∧
    Gsu.Gen.QryRaw.rawUnaryOps = ["LParen", "Not"] ∧
    Gsu.Gen.QryRaw.rawNaryOps = ["And", "Or"] := by
  refine ⟨fun op => by cases op <;> decide, by decide, by decide, by decide⟩

/-- the pack tags (their order decides the order of values of different types) -/
theorem gen_tags :
    Gsu.Gen.QryRaw.tagFalse = tagFalse.toNat ∧ Gsu.Gen.QryRaw.tagTrue = tagTrue.toNat ∧
    Gsu.Gen.QryRaw.tagMinus = tagMinus.toNat ∧ Gsu.Gen.QryRaw.tagPlus = tagPlus.toNat ∧
    Gsu.Gen.QryRaw.tagString = tagString.toNat := by
  decide

-- non-vacuity: an expression with a raw order comparison, a row, no exception
example : NoExc (fun _ _ => True) [(0, .int 3), (1, .str [97])]
    (.and (.cmp .lt (.col 0) (.const (.int 5))) (.cmp .gte (.col 1) (.const (.str [])))) := by
  refine ⟨⟨fun _ _ => ⟨?_, fun _ _ _ _ => trivial⟩, trivial, trivial⟩,
    ⟨fun _ _ => ⟨?_, fun _ _ _ _ => trivial⟩, trivial, trivial⟩⟩
  · rintro (⟨h, _⟩ | ⟨h, _⟩)
    · exact absurd h (by decide)
    · exact absurd h (by decide)
  · rintro (⟨_, h⟩ | ⟨_, h⟩)
    · exact absurd h (by decide)
    · exact absurd h (by decide)

-- `PackInj` holds on a sample of values (C13 proves it for all)
example : ∀ a ∈ [Val.bool true, .int 0, .int 5, .int (-5), .int 50, .int 500, .str [], .str [0], .str [3]],
    ∀ b ∈ [Val.bool true, .int 0, .int 5, .int (-5), .int 50, .int 500, .str [], .str [0], .str [3]],
      pack a = pack b → a = b := by
  decide

end Gsu.Props.C25
