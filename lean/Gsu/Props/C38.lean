/-
C38 — String helpers match their reference semantics.

"Character translation, replacement, case folding and case-insensitive comparison, splitting
and joining behave as their reference definitions for all inputs."
Quantifier: all byte strings and translation sets (including ranges, negation, and deletion).

The mirrors (`Gsu.Str.replace`, `trNew`, `expandRanges`, `toLowerStr`, `cmpLower`, `split`,
`join` …) are the definitions the driver `drv_c38` executes against util/tr, util/str and
util/ascii; the reference definitions (`trSpec`, `parseItems`/`denote`, `List.map toLower`,
`cmpBytes`) are in the same file. Helper lemmas: `Gsu/Proofs/Str.lean`, `Gsu/Proofs/Str2.lean`.
-/
import Gsu.Proofs.Str
import Gsu.Proofs.Str2
import Gsu.Gen.Ascii
namespace Gsu.Props.C38
open Gsu.Proto Gsu.Ascii Gsu.Str

/-- tr.Replace (first loop + scan loop with its inner squeeze loop) is the declarative
"classify each source byte as keep / delete / map / squeeze, then emit, writing the padded last
`to` byte only once per run": for all sources and all from/to sets incl. `^` complement,
deletion (empty `to`) and short `to`. -/
theorem tr_replace_spec (src frm to : Bytes) : replace src frm to = trSpec src frm to :=
  replace_spec src frm to

-- non-vacuity: translate + squeeze ("hello" l,o→x), complement + squeeze, delete
example : replace [104, 101, 108, 108, 111] [108, 111] [120] = [104, 101, 120] ∧
    replace [97, 32, 32, 98] [94, 97, 98] [95] = [97, 95, 98] ∧
    replace [97, 98, 97] [97] [] = [98] ∧
    trSpec [97, 98, 99, 99] [97, 98, 99] [120, 121] = [120, 121] := by decide

/-- the expansion loop of tr.expandRanges is "parse into single characters and `a-b` items
left to right, denote each": a range denotes the increasing bytes a..b (nothing if a > b) -/
theorem expandRanges_spec (s : Bytes) :
    expandLoop s = (parseItems s).flatMap Item.denote :=
  expandLoop_spec s

/-- a range contains exactly the bytes between its ends (0xff does not wrap around) -/
theorem expandRanges_range_mem (a b c : UInt8) : c ∈ rangeBytes a b ↔ a ≤ c ∧ c ≤ b :=
  mem_rangeBytes a b c

/-- tr.New's shortcuts (short sets, no interior `-`) never change the result: New is
expandRanges on every input -/
theorem trNew_spec (s : Bytes) : trNew s = expandRanges s := trNew_eq_expandRanges s

/-- str.ToLower / ToUpper (scan to the first letter to convert, then convert the rest) are
the bytewise maps of ascii.ToLower / ToUpper -/
theorem toLower_spec (s : Bytes) : toLowerStr s = s.map toLower := toLowerStr_spec s
theorem toUpper_spec (s : Bytes) : toUpperStr s = s.map toUpper := toUpperStr_spec s

/-- str.CmpLower is the lexicographic byte comparison of the lower-cased strings -/
theorem cmpLower_eq_compare_lower (s t : Bytes) :
    cmpLower s t = cmpBytes (s.map toLower) (t.map toLower) := cmpLower_spec s t

/-- the reference comparison is a total order's comparison: 0 exactly on equal strings,
antisymmetric -/
theorem cmpBytes_zero_iff (a b : Bytes) : cmpBytes a b = 0 ↔ a = b := cmpBytes_eq_zero a b
theorem cmpBytes_antisymm (a b : Bytes) : cmpBytes b a = - cmpBytes a b := cmpBytes_swap a b

/-- str.EqualCI is equality of the lower-cased strings, i.e. CmpLower = 0 -/
theorem equalCI_iff (x y : Bytes) : equalCI x y = true ↔ cmpLower x y = 0 := by
  rw [cmpLower_spec, cmpBytes_eq_zero]; exact equalCI_spec x y

/-- Join(sep, Split(s, sep)) = s for every s and every separator (Join's writing loop applied
to Split's result) -/
theorem split_join_inverse (s sep : Bytes) : joinLoop sep true (split s sep) = s := by
  unfold split
  split
  · rename_i h; have : s = [] := by simpa using h
    subst this; rfl
  · rw [joinLoop_splitGo]; simp

/-- Split completeness: for every non-empty separator (any length), no piece of `split s sep`
contains `sep` as a contiguous substring. (Loop invariant `CurFree` in `Gsu/Proofs/Str2.lean`: no
position inside the current piece starts an occurrence of `sep` in the remaining text, so the
pieces are those of the greedy leftmost split; `hasPrefix` is the prefix relation by
`hasPrefix_iff`.) -/
theorem split_pieces_free (s sep : Bytes) (hsep : sep ≠ []) :
    ∀ p ∈ split s sep, ¬ sep <:+: p := by
  unfold split
  split
  · simp
  · exact splitGo_free sep hsep _ [] s (by omega) (curFree_nil sep s)

/-- the one byte instance in terms of membership (the former `split_pieces_free_partial`):
no piece contains the separator byte -/
theorem split_pieces_free_byte (s : Bytes) (b : UInt8) : ∀ p ∈ split s [b], b ∉ p := by
  intro p hp hb
  exact split_pieces_free s [b] (by simp) p hp ((singleton_infix_iff b p).mpr hb)

/-- Split is exactly the greedy leftmost split, and nothing else is: for a non-empty text and a
non-empty separator (any length), `split s sep = ps` iff `ps` is non-empty, joins back to `s`, and
is `Greedy` (declarative definition in `Gsu/Proofs/Str2.lean`: in the joined text no occurrence of
`sep` starts at a position inside a piece). So Split is the unique inverse of Join on greedy
piece lists. -/
theorem split_eq_iff_greedy (s sep : Bytes) (hs : s ≠ []) (hsep : sep ≠ []) (ps : List Bytes) :
    split s sep = ps ↔ ps ≠ [] ∧ joinLoop sep true ps = s ∧ Greedy sep ps := by
  unfold split
  have : s.isEmpty = false := by cases s <;> simp_all
  simp only [this, Bool.false_eq_true, if_false]
  exact splitGo_eq_iff sep hsep s ps

/-- for a one byte separator "greedy" is just "no piece contains the byte": Split undoes Join on
every non-empty list of separator free pieces (with a non-empty joined text; Split("") is nil) -/
theorem split_join_byte_inverse (b : UInt8) (ps : List Bytes) (hne : ps ≠ [])
    (hfree : ∀ p ∈ ps, b ∉ p) (hs : joinLoop [b] true ps ≠ []) :
    split (joinLoop [b] true ps) [b] = ps :=
  (split_eq_iff_greedy _ [b] hs (by simp) ps).mpr ⟨hne, rfl, (greedy_byte b ps).mpr hfree⟩

-- for longer separators separator free pieces are not enough (this is strings.Split's
-- documented leftmost behaviour, not a defect): Join("aa", ["a","b"]) = "aaab" splits to ["","ab"]
example : joinLoop [97, 97] true [[97], [98]] = [97, 97, 97, 98] ∧
    split [97, 97, 97, 98] [97, 97] = [[], [97, 98]] := by decide

example : split [97, 44, 98, 44] [44] = [[97], [98], []] := by decide
-- two byte separator, overlapping occurrences: "a,,,b" split on ",," is ["a", ",b"]
example : split [97, 44, 44, 44, 98] [44, 44] = [[97], [44, 98]] := by decide

/-! (G) util/ascii/ascii.go, regenerated: every function agrees with the model on all bytes -/

set_option maxRecDepth 100000 in
theorem gen_ascii_case : ∀ n : Nat, n < 256 →
    Gsu.Gen.Ascii.ToLower n = (toLower (UInt8.ofNat n)).toNat ∧
    Gsu.Gen.Ascii.ToUpper n = (toUpper (UInt8.ofNat n)).toNat ∧
    Gsu.Gen.Ascii.IsLower n = isLower (UInt8.ofNat n) ∧
    Gsu.Gen.Ascii.IsUpper n = isUpper (UInt8.ofNat n) := by decide

set_option maxRecDepth 100000 in
theorem gen_ascii_classes : ∀ n : Nat, n < 256 →
    Gsu.Gen.Ascii.IsLetter n = isLetter (UInt8.ofNat n) ∧
    Gsu.Gen.Ascii.IsDigit n = isDigit (UInt8.ofNat n) ∧
    Gsu.Gen.Ascii.IsSpace n = isSpace (UInt8.ofNat n) ∧
    Gsu.Gen.Ascii.IsHexDigit n = isHexDigit (UInt8.ofNat n) := by decide

set_option maxRecDepth 100000 in
theorem gen_ascii_digit : ∀ n : Nat, n < 256 →
    Gsu.Gen.Ascii.Digit n 16 = digit (UInt8.ofNat n) 16 ∧
    Gsu.Gen.Ascii.Digit n 10 = digit (UInt8.ofNat n) 10 := by decide

end Gsu.Props.C38
