/-
C16 — Background merge and persist never lose or duplicate committed changes.

"While transactions commit concurrently, the background merging of per-transaction index buffers
and the periodic persisting of merged changes never drop, duplicate or reorder a committed change,
and per-table row and size statistics stay equal to the sum of the committed changes. Every state
observed between these steps has the same logical index contents as the serial application of
the committed transactions."

Model: Gsu/Model/Db.lean (the definitions `drv_c16` executes). `ov.sem k` is the meaning of an
overlay for key k (btree value, then every layer's change in order; `none` = invalid sequence),
`IAgree ti` = every index has exactly the meaning `keymap i ti.rows` (the serial application of the
committed transactions, `Info.rows`). `Extends snap latest` = latest is snap after any number of
commits. Property theorems only; lemmas in Gsu/Proofs/Db.lean and Gsu/Proofs/DbInv1–9.lean (the
global invariant `DbInv`, kept by every `Op` of `step`; `no_loss_no_dup` is its corollary for all
histories; hypotheses `OpsOK` as in C06).
-/
import Gsu.Proofs.DbInv10
import Gsu.Gen.Dbphys
namespace Gsu.Props.C16
open Gsu.Db

/-- prefix_stable (one commit): LayeredOnto appends one layer to every index of the latest info and
touches neither the btrees nor any existing layer. -/
theorem prefix_stable_commit (d : TDif) (lti : Info) (h : d.muts.length = lti.idx.length) :
    Extends lti (lay d lti) := extends_lay d lti h

/-- prefix_stable (any number of commits between compute and apply): the relation is a preorder,
so whatever sequence of commits runs between the compute step (on `snap`) and the apply step (on
`latest`), `snap`'s layers are a prefix of `latest`'s and the btrees are the same. -/
theorem prefix_stable (a b c : Info) (h1 : Extends a b) (h2 : Extends b c) : Extends a c ∧ Extends a a :=
  ⟨h1.trans h2, Extends.refl a⟩

/-- merge_apply_sem: WithMerged applied to the latest overlay, with the merge computed on an older
snapshot, does not change the meaning of any key. -/
theorem merge_apply_sem (latest snap : Overlay) (new : List Layer) (n : Nat) (k : Key) (v : KS)
    (hpre : latest.layers = snap.layers ++ new) (hn : n + 1 ≤ snap.layers.length)
    (h : latest.sem k = some v) :
    (latest.withMerged (snap.merge n) n).sem k = some v :=
  sem_withMerged latest snap new n k v hpre hn h

/-- the merge of a valid sequence never meets an invalid Combine (no merger panic), and its
entry has exactly the effect of the merged layers -/
theorem merge_never_invalid (pre : List Layer) (k : Key) (b s1 : KS)
    (h : appAll b (chgs pre k) = some s1) :
    (mergeKey (chgs pre k)).isSome ∧ appO b ((mergeL pre).get k) = some s1 :=
  ⟨mergeKey_defined pre k b s1 h, appO_mergeL pre k b s1 h⟩

/-- persist_apply_sem: WithSaved applied to the latest overlay, with the btree saved from an older
snapshot, does not change the meaning of any key. -/
theorem persist_apply_sem (latest snap : Overlay) (new : List Layer) (k : Key) (v : KS)
    (hbt : latest.bt = snap.bt) (hpre : latest.layers = snap.layers ++ new)
    (hne : snap.layers ≠ []) (h : latest.sem k = some v) :
    (latest.withSaved snap.save).sem k = some v :=
  sem_withSaved latest snap new k v hbt hpre hne h

/-- no_loss_no_dup, merge: for every interleaving "compute on snap; commits…; apply on latest" the
applied table still has every index equal to the serial application of the committed rows. -/
theorem no_loss_no_dup_merge (snap latest : Info) (n : Nat)
    (hext : Extends snap latest) (hn : ∀ ov ∈ snap.idx, n + 1 ≤ ov.layers.length)
    (h : IAgree latest) : IAgree (latest.applyMerge n (snap.mergeCompute n)) :=
  iagree_applyMerge snap latest n hext hn h

/-- no_loss_no_dup, persist -/
theorem no_loss_no_dup_persist (snap latest : Info)
    (hext : Extends snap latest) (hne : ∀ ov ∈ snap.idx, ov.layers ≠ [])
    (h : IAgree latest) : IAgree (latest.applyPersist snap.persistCompute) :=
  iagree_applyPersist snap latest hext hne h

/-- deltas_sum: `BtreeNrows + Σ Deltas.Nrows = Nrows` (and sizes) is kept by commit, merge apply
and persist apply, and every index keeps as many layers as there are deltas (Info.Check). -/
theorem deltas_sum (ti : Info) (d : TDif) (n : Nat) (res : List Layer) (bts : List Bt)
    (h : DeltasOK ti) (hl : LayersOK ti) (hn : n + 1 ≤ ti.deltas.length) :
    DeltasOK (lay d ti) ∧ DeltasOK (ti.applyMerge n res) ∧ DeltasOK (ti.applyPersist bts) ∧
    LayersOK (lay d ti) ∧ LayersOK (ti.applyMerge n res) ∧ LayersOK (ti.applyPersist bts) :=
  ⟨deltasOK_lay d ti h, deltasOK_applyMerge ti n res h, deltasOK_applyPersist ti bts h,
   layersOK_lay d ti hl, layersOK_applyMerge ti n res hn hl,
   layersOK_applyPersist ti bts (by intro e; simp [e] at hn) hl⟩

/-- merge applied after one more commit than it was computed on (was `no_loss_no_dup_partial`;
the statement over whole histories is `no_loss_no_dup` below) -/
theorem no_loss_no_dup_merge_after_commit (snap mid latest : Info) (n : Nat) (d : TDif)
    (h1 : Extends snap mid) (hd : d.muts.length = mid.idx.length) (hlat : latest = lay d mid)
    (hn : ∀ ov ∈ snap.idx, n + 1 ≤ ov.layers.length) (h : IAgree latest) :
    IAgree (latest.applyMerge n (snap.mergeCompute n)) :=
  iagree_applyMerge snap latest n (h1.trans (hlat ▸ extends_lay d mid hd)) hn h

/-- the pending-result invariant is kept by a commit: what Meta.Merge / Meta.Persist computed on a
snapshot is exactly what they would compute on the state after any commit (commits only append
layers and deltas), so the result stored between compute and apply is always "the merge / the
save of a prefix of the current layers" -/
theorem pending_stable_commit (ti : Info) (d : TDif) (n : Nat) (h : TblInv ti)
    (hm : d.muts.length = ti.idx.length) (hn : n + 1 ≤ ti.deltas.length) :
    (lay d ti).mergeCompute n = ti.mergeCompute n ∧ n + 1 ≤ (lay d ti).deltas.length ∧
    (lay d ti).persistCompute = ti.persistCompute :=
  ⟨((pstable_lay h d hm).1 n hn).1, ((pstable_lay h d hm).1 n hn).2, (pstable_lay h d hm).2⟩

/-- the apply steps on the current state, with the result the compute step returns for it -/
theorem apply_keeps_table_invariant (ti : Info) (n : Nat) (h : TblInv ti) (hn : n + 1 ≤ ti.deltas.length) :
    TblInv (ti.applyMerge n (ti.mergeCompute n)) ∧ TblInv (ti.applyPersist ti.persistCompute) :=
  ⟨tblinv_applyMerge h n hn, tblinv_applyPersist h⟩

/-- the assembled step: every operation of `Gsu.Db.step` keeps the global invariant `DbInv`, which
threads the pending merge / persist result (`PendInv`: it equals the compute step on the CURRENT
state) and the pending index build through `State.pend` / `State.build` -/
theorem invariant_step (s : State) (op : Op) (h : DbInv s) (hok : OpOK s op) : DbInv (step s op).1 :=
  dbinv_step h op hok

/-- no_loss_no_dup — FULL, over whole histories: for every history `ops` of well-formed operations
(any interleaving of transactions' writes, commits, aborts, merge compute / apply, persist
compute / apply, index builds), every table of `run State.init ops` satisfies
`IAgree ∧ DeltasOK ∧ LayersOK`: every index has exactly the logical contents of the serial
application of the committed transactions (`Info.rows`), nothing lost, duplicated or reordered;
`BtreeNrows + Σ deltas = Nrows` (sizes too); every index has as many layers as there are deltas.
Also: the rows have unique offsets and unique keys on every index, and `nrows = |rows|`. -/
theorem no_loss_no_dup (ops : List Op) (hok : OpsOK State.init ops) (j : Nat) (ti : Info)
    (hj : (run State.init ops).mt[j]? = some ti) :
    IAgree ti ∧ DeltasOK ti ∧ LayersOK ti ∧ TblInv ti :=
  have h := (dbinv_reachable ops hok).tbl j ti hj
  ⟨h.agree, h.deltas, h.layers, h⟩

/-- in every reachable state the stored merge result is the merge of the current state's first
n+1 layers of every index, and the stored persist results are the saves of the current base
layers — whatever was committed since they were computed -/
theorem pending_result_current (ops : List Op) (hok : OpsOK State.init ops) :
    PendInv (run State.init ops).mt (run State.init ops).pend :=
  (dbinv_reachable ops hok).pend

/-- persist loses nothing: in every reachable state, a table with nothing unsaved (every layer of
every index empty, all deltas zero — the state after merging everything and persisting) is read
back by a reopen (`Info.disk`: btrees + one empty layer, counts from the btrees) with every index
still holding exactly the committed rows and the exact row count -/
theorem reopen_reads_committed (ops : List Op) (hok : OpsOK State.init ops) (j : Nat) (ti : Info)
    (hj : (run State.init ops).mt[j]? = some ti) (hc : ti.clean = true) :
    IAgree ti.disk ∧ ti.disk.rows = ti.rows ∧ ti.disk.nrows = ti.rows.length :=
  reopen_reachable ops hok j ti hj hc

/-- statistics over whole histories: with fresh record offsets (append-only store) `size` is the
sum of the committed rows' sizes and `nrows` their number, in every reachable state -/
theorem stats_exact (ops : List Op) (hok : OpsOK State.init ops) (hfr : (okOffs State.init ops).Nodup)
    (j : Nat) (ti : Info) (hj : (run State.init ops).mt[j]? = some ti) :
    ti.nrows = ti.rows.length ∧ ti.size = rowsSize ti.rows :=
  info_exact_reachable ops hok hfr j ti hj

/-- persist never leaves a committed change unsaved by skipping its table: a skipped table has an
empty base layer in every index (test of fixes/15b), and (G) the code uses that test -/
theorem persist_skips_only_clean (ti : Info) (h : ti.modifiedWith true = false) :
    ∀ ov ∈ ti.idx, ∀ k, (ov.layers.headD FMap.empty).get k = none :=
  clean_of_not_modified ti h

theorem gen_persist_checks_all_indexes : Gsu.Gen.Dbphys.persistChecksAllIndexes = true := rfl

/-- (G) LayeredOnto stamps the committed table info with the clock of the LATEST state
(`ti.lastMod = latest.info.Clock`), so `lastMod` never goes backwards; with the clock of the
transaction's older snapshot a persist that runs before the commit is merged can merge away the
chunk holding the table's current persisted version and writes a state that cannot be read back
(findings/C16.md, fixes/46). The metadata chain itself is C15's model; here only the fact is
regenerated and the suites' `reopen-metadata-cksum` oracle + scripted schedule tie the behaviour. -/
theorem gen_layered_onto_stamps_latest_clock : Gsu.Gen.Dbphys.layeredOntoStampsLatestClock = true := rfl

-- non-vacuity: a snapshot with two layers, one more commit, merge of the two older layers
example : ∃ (latest snap : Overlay) (new : List Layer),
    latest.layers = snap.layers ++ new ∧ 1 + 1 ≤ snap.layers.length ∧ new ≠ [] ∧
    latest.sem [1] = some (some 7) :=
  ⟨⟨FMap.empty, [FMap.empty, Layer.ins FMap.empty [1] (.add 5), Layer.ins FMap.empty [1] (.upd 7)]⟩,
   ⟨FMap.empty, [FMap.empty, Layer.ins FMap.empty [1] (.add 5)]⟩,
   [Layer.ins FMap.empty [1] (.upd 7)], rfl, by decide, by simp, by decide⟩

/-- a concrete history: a merge computed on the state after t0, applied after t1 committed; a
persist computed before and applied after the commit of t2, whose snapshot is older than t1's
commit and the merge; then an index build and a commit onto the new index -/
def hist : List Op := [.table 2,
  .begin_ 0, .out 0 0 ⟨20, 5, [[1], [7]]⟩, .out 0 0 ⟨30, 6, [[2], [8]]⟩, .commit 0,
  .begin_ 1, .begin_ 2,
  .upd 1 0 20 ⟨40, 9, [[1], [9]]⟩,
  .mergeC 0 1, .commit 1, .mergeA,
  .del 2 0 30,
  .persistC, .commit 2, .persistA,
  .buildC 0 [(40, [3])], .buildA,
  .begin_ 3, .out 3 0 ⟨50, 4, [[4], [4], [4]]⟩, .commit 3]

-- non-vacuity of `no_loss_no_dup`: the history is well-formed; the merge and the persist really
-- are pending across a successful commit; the final state has the rows of the serial application
example : OpsOK State.init hist := opsOKb_sound _ _ (by decide)
example : (match (run State.init (hist.take 10)).pend with | .merge 0 1 _ => true | _ => false) = true ∧
    (step (run State.init (hist.take 9)) (.commit 1)).2 = "ok" := by decide
example : (match (run State.init (hist.take 14)).pend with | .persist [(0, _)] => true | _ => false) = true ∧
    (step (run State.init (hist.take 13)) (.commit 2)).2 = "ok" := by decide
example : ((run State.init hist).mt.map fun ti => (ti.rows.map (·.off), ti.nrows, ti.deltas.length,
    ti.idx.map (·.layers.length))) = [([40, 50], 2, 4, [4, 4, 4])] := by decide

-- non-vacuity of `reopen_reads_committed`: a history that ends merged and persisted is clean
example : ((run State.init [.table 2,
    .begin_ 0, .out 0 0 ⟨20, 5, [[1], [7]]⟩, .out 0 0 ⟨30, 6, [[2], [8]]⟩, .commit 0,
    .begin_ 1, .del 1 0 20, .mergeC 0 1, .commit 1, .mergeA, .mergeC 0 1, .mergeA, .persistC, .persistA]).mt.map
      fun ti => (ti.clean, ti.rows.map (·.off), ti.btNrows)) = [(true, [30], 1)] := by decide

end Gsu.Props.C16
