/-
C01 — Committed update transactions are serializable.

"Every update transaction that commits successfully behaves as if it ran alone at its commit
point: every row, lookup and range it read would have returned the same result if all
transactions that committed before it had run serially in commit order. Conflicting concurrent
work makes one of the transactions fail instead of silently losing an update or admitting a
phantom."

The theorems are about `Gsu.Ck.step`, the executable mirror of `db19/check.go` that the driver
`drv_c01` replays against the real `Check` (suite `check`).  They hold for every operation
sequence, every visiting order of `bytable[table]` and every outcome of the coin in `abort1of`
(both are arguments of the operations).  Helper lemmas: `Gsu/Proofs/Ck.lean`.
-/
import Gsu.Proofs.CkLog
import Gsu.Proofs.CkExcl
import Gsu.Gen.Check
namespace Gsu.Props.C01
open Gsu.Ck

/-- `ck_inv`: the invariant of DESIGN Appendix A.1 holds in every reachable checker state:
`readConflict` implies no updates; writes imply `hasUpdates`; an active reader whose read range
contains a write key of another transaction it overlaps is flagged (`conf`); starts are unique and
bounded by the sequence counter; `oldest` is a lower bound of the active starts (so `cleanEnded`
never drops a committed transaction that an active one overlaps, see `ck_retained`). -/
theorem ck_inv (ops : List Op) : CkInv (run {} ops) := run_inv ops inv_init

/-- `ck_first_committer`: in no reachable state does a transaction with updates that can still
commit hold a read range containing a write key of another transaction it overlaps
(active, or committed after it started): one of the two has been aborted, or the reader is
condemned to stay read-only. -/
theorem ck_first_committer (ops : List Op) (A B : Tran)
    (hA : A ∈ (run {} ops).trans) (hB : B ∈ (run {} ops).trans) (hne : A.start ≠ B.start)
    (hact : A.active = true) (hupd : A.hasUpdates = true)
    (hov : overlap A.start A.end_ B.start B.end_ = true)
    (tbl idx : Nat) (f t k : Key) (hr : A.hasRead tbl idx f t) (hw : B.hasWrite tbl idx k)
    (hin : inRange f t k = true) : False := by
  have i := ck_inv ops
  have h1 := i.conf A hA B hB hne hact hov tbl idx f t k hr hw hin
  have h2 := i.rcNoUpd A hA h1
  rw [hupd] at h2; simp at h2

/-- `ck_serializable`: over the ghost history of ALL committed update transactions
(`runG` = the executed `step` plus a log entry `logOf T end` at every successful commit of a
transaction with updates — final read ranges and write keys, which the code itself forgets):
for committed `T`, `T'` with `T.start < T'.end < T.end`, no write key of `T'` on a table and index
lies in a read range of `T` on the same table and index.  Hence replaying `T`'s reads on the state
after all earlier commits returns what `T` saw. -/
theorem ck_serializable (ops : List Op) (T T' : Logged)
    (hT : T ∈ (runG ({}, []) ops).2) (hT' : T' ∈ (runG ({}, []) ops).2)
    (h1 : T.start < T'.end_) (h2 : T'.end_ < T.end_)
    (tbl idx : Nat) (f t k : Key) (hr : (tbl, idx, f, t) ∈ T.reads) (hw : (tbl, idx, k) ∈ T'.writes) :
    inRange f t k = false :=
  (runG_inv ops ({}, []) inv_init logInv_init).ser T hT T' hT' h1 h2 tbl idx f t k hr hw

/-- the ghost run executes exactly the model the driver executes … -/
theorem ghost_state (ops : List Op) : (runG ({}, []) ops).1 = run {} ops := runG_fst ops _

/-- … and logs exactly the successful commits of transactions with updates -/
theorem ghost_log (g : State × List Logged) (tn : Nat) :
    (stepG g (.commit tn)).2 =
      match g.1.trans.find? (fun t => t.start == tn && t.active) with
      | some T => if T.hasUpdates then logOf T (g.1.seq + 2) :: g.2 else g.2
      | none => g.2 := rfl

/-- the same at the commit point, in state form: when `T` (active, with updates) is about to
commit, no write key of a committed `T'` still held with `T.start < T'.end` lies in a read range
of `T`. -/
theorem ck_serializable_commit (ops : List Op) (T T' : Tran) (e : Nat)
    (hT : T ∈ (run {} ops).trans) (hT' : T' ∈ (run {} ops).trans)
    (hact : T.active = true) (hupd : T.hasUpdates = true)
    (he : T'.end_ = some e) (hlt : T.start < e)
    (tbl idx : Nat) (f t k : Key) (hr : T.hasRead tbl idx f t) (hw : T'.hasWrite tbl idx k) :
    inRange f t k = false := by
  cases h : inRange f t k with
  | false => rfl
  | true =>
    exfalso
    have hne : T.start ≠ T'.start := by
      intro e2
      have := uniq_start (ck_inv ops).sorted hT hT' e2
      subst this
      simp [Tran.active, he] at hact
    have hov : overlap T.start T.end_ T'.start T'.end_ = true := by
      have : T.end_ = none := by simpa [Tran.active] using hact
      simp [overlap, this, he, hlt]
    exact ck_first_committer ops T T' hT hT' hne hact hupd hov tbl idx f t k hr hw h

/-- `ck_retained`: the conflict loop of any operation, `abort` and `cleanEnded` keep every
committed transaction unchanged unless its end is below the start of every transaction that
is still active afterwards. -/
theorem ck_retained (ops : List Op) (tn : Nat) (T : Tran)
    (hT : T ∈ (run {} ops).trans) (hna : T.active = false) :
    (∃ T' ∈ (abort (run {} ops) tn).1.trans, T'.start = T.start ∧ T'.end_ = T.end_ ∧ T'.acts = T.acts) ∨
    (∀ A ∈ (abort (run {} ops) tn).1.trans, A.active = true → ∀ e, T.end_ = some e → e < A.start) :=
  (frame_abort (ck_inv ops) tn).keep T hT hna

/-- `ck_exclusive`: exclusive schema operations keep every writer out.  After a successful
`AddExclusive(tbl)` in ANY checker state, whatever operations follow — commits and aborts of
other transactions (also when they leave no update transaction active), ticks, other tables'
exclusives, `cleanEnded` — as long as `EndExclusive(tbl)` is not among them, every
Output/Delete/Update on `tbl` is refused. -/
theorem ck_exclusive (s : State) (tbl : Nat) (h : (addExcl s tbl).2 = true) (ops : List Op)
    (hn : ∀ op ∈ ops, op ≠ .endExcl tbl) (tn : Nat) (ks nk : List Key) (o p : List Nat) :
    (output (run (addExcl s tbl).1 ops) tn tbl ks o p).2 = false ∧
    (delete (run (addExcl s tbl).1 ops) tn tbl ks o p).2 = false ∧
    (update (run (addExcl s tbl).1 ops) tn tbl ks nk o p).2 = false := by
  have hx := exclOn_run ops _ (addExcl_on h) hn
  exact ⟨write_blocked hx tn _ _ _ o p, write_blocked hx tn _ _ _ o p, write_blocked hx tn _ _ _ o p⟩

-- non-vacuity: table 0 exclusive, an unrelated transaction on table 1 commits leaving nobody
-- active, then a new transaction's insert into table 0 is refused
example : (step (run {} [.addExcl 0, .start, .output 3 1 [[97]] [] [], .commit 3, .start])
    (.output 7 0 [[98]] [] [])).2 = .bool false := by decide
example : (addExcl {} 0).2 = true := by decide

/-! ### regenerated definitions (G) -/

def endv : Option Nat → Int
  | none => 9223372036854775807
  | some e => e

/-- the generated `overlap` of check.go is the model's `overlap` (MaxInt = `none`) as long as
the sequence numbers stay below `math.MaxInt` -/
theorem gen_overlap (s1 s2 : Nat) (e1 e2 : Option Nat)
    (h1 : s1 < 9223372036854775807) (h2 : s2 < 9223372036854775807)
    (h3 : ∀ e, e1 = some e → e < 9223372036854775807) (h4 : ∀ e, e2 = some e → e < 9223372036854775807) :
    Gsu.Gen.Check.overlap s1 (endv e1) s2 (endv e2) = overlap s1 e1 s2 e2 := by
  cases e1 <;> cases e2 <;> simp [Gsu.Gen.Check.overlap, overlap, endv] <;> omega

theorem gen_readMax : Gsu.Gen.Check.readMax = readMax := rfl

theorem gen_seq (s : State) : (start s).2 = s.seq + Gsu.Gen.Check.seqInc ∧
    ({} : State).seq = Gsu.Gen.Check.seqInit := ⟨rfl, rfl⟩

/-! ### non-vacuity -/

/-- ut3 reads key `a` on table 0 index 0, ut5 outputs key `a`: ut3 is flagged, then loses its
first write; the same history with the read after the write ends the same way -/
def demo : List Op :=
  [.start, .start, .read 3 0 0 [97] [97] [] [], .output 5 0 [[97]] [] [], .output 3 0 [[98]] [] []]

example : (run {} demo).trans.map (·.start) = [5] := by decide
example : (step (run {} (demo.take 4)) (.output 3 0 [[98]] [] [])).2 = .bool false := by decide
example : ((run {} (demo.take 4)).trans.map fun t => (t.start, t.rc)) = [(3, true), (5, false)] := by decide
-- the hypotheses of ck_serializable_commit are met: ut3 writes `a` and commits at 7 while ut5
-- (started at 5 < 7, has updates, read `b`) is still active
def demo2 : List Op :=
  [.start, .start, .output 3 0 [[97]] [] [], .output 5 0 [[99]] [] [], .read 5 0 0 [98] [98] [] [], .commit 3]

example : ((run {} demo2).trans.map fun t => (t.start, t.end_, t.hasUpdates, t.rc)) =
    [(3, some 7, true, false), (5, none, true, false)] := by decide
example : ((run {} demo2).trans.map fun t => t.acts.map fun a => (a.reads.length, a.outs.length)) =
    [[(0, 1)], [(1, 1)]] := by decide
-- ... and of ck_serializable: after ut5 commits too the log holds ut5 = [5,9] and ut3 = [3,7], 5 < 7 < 9
example : ((runG ({}, []) (demo2 ++ [.commit 5])).2.map fun L =>
    (L.start, L.end_, L.reads.length, L.writes.length)) = [(5, 9, 1, 1), (3, 7, 0, 1)] := by decide

end Gsu.Props.C01
