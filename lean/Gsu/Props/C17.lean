/-
C17 — Checker message queue preserves per-transaction order.

"Messages from one transaction to the conflict checker are delivered in the order they were
sent, so a commit or abort is never processed before that transaction's earlier reads and
writes. Among the oldest pending message of each transaction the highest-priority one is
delivered first, and every message sent is delivered exactly once."
Quantifier: all interleavings of concurrent producers putting messages with arbitrary priorities
and transaction ids into the bounded queue, including a full queue, with a single consumer.

Model: `Gsu.Pq` (sequential mirror of `PriorityQueue.Put/Get/isOldest`, replayed by `drv_c17`
against the real queue) and `Gsu.PqConc` (the same `put`/`get` under a mutex and two condition
variables, any number of producers, one consumer). Regenerated: `Gsu.Gen.Pq` (`bufSize`, the
statement lists of `Put`/`Get`/`isOldest`, the priorities and `pq.Put` call sites of
`db19/checkco.go`).

Property theorems only; lemmas are in `Gsu/Proofs/Pq.lean` and `Gsu/Proofs/PqConc.lean`.
-/
import Gsu.Proofs.Pq
import Gsu.Proofs.PqConc
import Gsu.Gen.Pq
namespace Gsu.Props.C17
open Gsu.Pq Gsu.PqConc

/-- `Get` on a non-empty queue hands out the element at `pick`, which is the oldest pending
element of its transaction, has maximal priority among all such elements, and is the earliest
of those with that priority. (full) -/
theorem get_picks (items : List Elem) (hne : items ≠ []) :
    ∃ e rest, get items = some (e, rest) ∧ rest = items.eraseIdx (pick items) ∧
      HeadAt items (pick items) e ∧
      (∀ j e', HeadAt items j e' → e'.prio ≤ e.prio) ∧
      (∀ j e', j < pick items → HeadAt items j e' → e'.prio < e.prio) := by
  obtain ⟨ek, hk, hmax, hfirst⟩ := pick_spec items hne
  cases hg : get items with
  | none => exact absurd ((get_none items).mp hg) hne
  | some pr =>
    obtain ⟨e, rest⟩ := pr
    obtain ⟨_, hk', hr⟩ := get_eq items e rest hg
    have : e = ek := by have := hk'.1; rw [hk.1] at this; exact (Option.some.inj this).symm
    subst this
    exact ⟨e, rest, rfl, hr, hk, hmax, hfirst⟩

/-- For every sequence of put/get operations and every transaction `t`: what has been delivered
for `t`, followed by what is still queued for `t`, is exactly what was put for `t`, in put
order — the delivered messages of a transaction are a prefix of its sent messages. (full) -/
theorem per_tran_fifo (ops : List Op) (t : Int) :
    (runOps ops).delivered.filter (fun x => x.tran = t) ++ (runOps ops).items.filter (fun x => x.tran = t)
      = (runOps ops).puts.filter (fun x => x.tran = t) :=
  fifo_run ops t

/-- For every sequence of put/get operations every message is accounted for exactly once:
(times delivered) + (times still queued) = (times put). (full) -/
theorem exactly_once (ops : List Op) (x : Elem) :
    (runOps ops).delivered.count x + (runOps ops).items.count x = (runOps ops).puts.count x :=
  count_of_fifo _ (fifo_run ops) x

/-- Sequential machine: the queue never holds more than `bufSize` elements. -/
theorem seq_bounded (ops : List Op) : (runOps ops).items.length ≤ bufSize := by
  unfold runOps
  suffices ∀ h : Hist, h.items.length ≤ bufSize → (ops.foldl Hist.step h).items.length ≤ bufSize from
    this {} (Nat.zero_le _)
  induction ops with
  | nil => intro h hb; exact hb
  | cons op ops ih => intro h hb; exact ih _ (bounded_step h op hb)

/-- All interleavings, any number `n` of producers, one consumer: `len(items) ≤ bufSize`. (full
on the interleaving model) -/
theorem bounded (n : Nat) (s : St) (h : Reach n s) : s.h.items.length ≤ bufSize :=
  (inv_reach n s h).bound

/-- All interleavings: the lock is held by at most one goroutine inside its critical section
(so the test `len < bufSize` / `len > 0` is still true at the append / removal). -/
theorem mutual_exclusion (n : Nat) (s : St) (h : Reach n s) :
    (∀ (i j : Nat) (p q : PPc), s.pp[i]? = some p → s.pp[j]? = some q → p.crit = true → q.crit = true → i = j) ∧
    (∀ (i : Nat) (p : PPc), s.pp[i]? = some p → p.crit = true → s.cp.crit = false) := by
  have inv := inv_reach n s h
  constructor
  · intro i j p q hp hq hcp hcq
    have h1 := inv.m1 i p hp hcp
    have h2 := inv.m1 j q hq hcq
    rw [h1] at h2; cases h2; rfl
  · intro i p hp hcp
    have h1 := inv.m1 i p hp hcp
    cases hc : s.cp.crit with
    | false => rfl
    | true => have h2 := inv.m2 hc; rw [h1] at h2; cases h2

/-- No lost wake-up, all interleavings. A producer is parked in `notFull.Wait()` only while the
queue is full, unless a wake-up is already on its way (some producer is heading for the test, or
the consumer has removed an element and not yet signalled); the consumer is parked in
`notEmpty.Wait()` only while the queue is empty, unless a producer has appended and not yet
signalled. (full on the interleaving model) -/
theorem no_lost_wakeup (n : Nat) (s : St) (h : Reach n s) :
    ((∃ (i : Nat) (e : Elem), s.pp[i]? = some (PPc.wait e)) →
       (∀ (j : Nat) (p : PPc), s.pp[j]? = some p → p.active = false) → s.cp ≠ CPc.removed →
       s.h.items.length = bufSize) ∧
    (s.cp = CPc.wait → (∀ j : Nat, s.pp[j]? ≠ some PPc.appended) → s.h.items = []) := by
  have inv := inv_reach n s h
  constructor
  · intro hw hna hc
    have h1 := inv.credit hw
    have h2 : nActive s = 0 := by
      simp only [nActive, List.countP_eq_zero]
      intro a ha
      obtain ⟨j, hj⟩ := List.mem_iff_getElem?.mp ha
      simp [hna j a hj]
    have h3 : midGet s = 0 := by simp [midGet, hc]
    have := inv.bound
    omega
  · intro hc hna
    rcases inv.cwait hc with h | ⟨i, hi⟩
    · exact h
    · exact absurd hi (hna i)

/-- No deadlock, all interleavings: it never happens that the consumer and a producer are both
parked while every other producer is parked or outside a call. (full on the interleaving model) -/
theorem no_deadlock (n : Nat) (s : St) (h : Reach n s)
    (hc : s.cp = CPc.wait) (hw : ∃ (i : Nat) (e : Elem), s.pp[i]? = some (PPc.wait e)) :
    ∃ (j : Nat) (p : PPc), s.pp[j]? = some p ∧ p ≠ PPc.idle ∧ p.waiting = false := by
  apply Classical.byContradiction
  intro hno
  have hall : ∀ (j : Nat) (p : PPc), s.pp[j]? = some p → p = PPc.idle ∨ p.waiting = true := by
    intro j p hp
    by_cases h1 : p = PPc.idle
    · exact Or.inl h1
    · right
      cases hw' : p.waiting with
      | true => rfl
      | false => exact absurd ⟨j, p, hp, h1, hw'⟩ hno
  obtain ⟨h1, h2⟩ := no_lost_wakeup n s h
  have hfull := h1 hw (by
    intro j p hp
    rcases hall j p hp with h | h
    · subst h; rfl
    · cases p <;> simp_all [PPc.waiting, PPc.active]) (by rw [hc]; simp)
  have hempty := h2 hc (by
    intro j hj
    rcases hall j _ hj with h | h
    · cases h
    · simp [PPc.waiting] at h)
  rw [hempty] at hfull
  exact absurd hfull (by decide)

/-- All interleavings: per-transaction FIFO and exactly-once hold of the history of every
reachable state of the concurrent model (the appends and removals are the sequential
`put`/`get`). (full on the interleaving model) -/
theorem conc_fifo_exactly_once (n : Nat) (s : St) (h : Reach n s) :
    (∀ t : Int, s.h.delivered.filter (fun x => x.tran = t) ++ s.h.items.filter (fun x => x.tran = t)
        = s.h.puts.filter (fun x => x.tran = t)) ∧
    (∀ x : Elem, s.h.delivered.count x + s.h.items.count x = s.h.puts.count x) :=
  ⟨(inv_reach n s h).fifo, count_of_fifo _ (inv_reach n s h).fifo⟩

/-- (G) `Put`, `Get`, `isOldest` and `element` still have the statement order the models mirror:
lock; deferred unlock; wait loop on the condition; append / select+delete; signal the other
condition. -/
theorem gen_put_get_shape :
    Gsu.Gen.Pq.putBody = [
      "pq.lock.Lock()", "defer pq.lock.Unlock()",
      "for len(pq.items) >= bufSize {", "pq.notFull.Wait()", "}",
      "pq.items = append(pq.items, element{priority, tran, value})",
      "pq.notEmpty.Signal()"] ∧
    Gsu.Gen.Pq.getBody = [
      "pq.lock.Lock()", "defer pq.lock.Unlock()",
      "for len(pq.items) == 0 {", "pq.notEmpty.Wait()", "}",
      "bestIdx := 0", "bestPriority := pq.items[0].priority",
      "for i := 1; i < len(pq.items); i++ {",
      "e := &pq.items[i]",
      "if e.priority > bestPriority && pq.isOldest(i, e) {",
      "bestIdx = i", "bestPriority = e.priority", "}", "}",
      "result := pq.items[bestIdx].value",
      "pq.items = slices.Delete(pq.items, bestIdx, bestIdx+1)",
      "pq.notFull.Signal()", "return result"] ∧
    Gsu.Gen.Pq.isOldestBody = [
      "for j := range i {", "if pq.items[j].tran == e.tran {", "return false", "}", "}",
      "return true"] ∧
    Gsu.Gen.Pq.elementFields = ["priority int", "tran int", "value any"] := by
  decide

/-- (G) the queue has room for at least one element (used by `no_deadlock`) and the checker
priorities are ordered stop < low < medium < high -/
theorem gen_constants :
    0 < Gsu.Gen.Pq.bufSize ∧
    Gsu.Gen.Pq.stopPriority < Gsu.Gen.Pq.lowPriority ∧
    Gsu.Gen.Pq.lowPriority < Gsu.Gen.Pq.mediumPriority ∧
    Gsu.Gen.Pq.mediumPriority < Gsu.Gen.Pq.highPriority := by
  decide

/-- (G) every message of a transaction (`Read`, `Output`, `Delete`, `Update`, `ReadCount`,
`Commit`, `Abort`) is put with the transaction's `start` as its queue `tran`; reads/writes go
at medium, commit/abort at high priority -/
theorem gen_tran_keyed :
    (∀ m ∈ ["Read", "Output", "Delete", "Update"], site m = some (Gsu.Gen.Pq.mediumPriority, true)) ∧
    (∀ m ∈ ["Commit", "Abort"], site m = some (Gsu.Gen.Pq.highPriority, true)) ∧
    site "ReadCount" = some (Gsu.Gen.Pq.lowPriority, true) := by
  decide

/-- A commit or abort of a transaction is never delivered before that transaction's earlier
reads and writes: for every put/get sequence, if `a` is the element `CheckCo.<action>` puts for
the transaction with `start`, `b` the one `CheckCo.Commit/Abort` puts for the same transaction
(priorities and tran keys taken from the regenerated call-site table), `a` was put before `b`
and `b` has been delivered, then `a` was delivered before `b` — although `b` has the higher
priority. Message ids are distinct (`Nodup`). (full) -/
theorem commit_after_actions (ops : List Op) (start : Int) (va vb : Nat) (ma mb : String) (a b : Elem)
    (hma : ma ∈ ["Read", "Output", "Delete", "Update", "ReadCount"]) (hmb : mb ∈ ["Commit", "Abort"])
    (ha : msg ma start va = some a) (hb : msg mb start vb = some b)
    (hn : (runOps ops).puts.Nodup)
    (hp : Before (runOps ops).puts a b) (hd : b ∈ (runOps ops).delivered) :
    Before (runOps ops).delivered a b := by
  have hta : a.tran = start := by
    simp only [List.mem_cons, List.not_mem_nil, or_false] at hma
    rcases hma with h | h | h | h | h <;> subst h
    · exact msg_tran _ _ _ _ _ (gen_tran_keyed.1 _ (by simp)) ha
    · exact msg_tran _ _ _ _ _ (gen_tran_keyed.1 _ (by simp)) ha
    · exact msg_tran _ _ _ _ _ (gen_tran_keyed.1 _ (by simp)) ha
    · exact msg_tran _ _ _ _ _ (gen_tran_keyed.1 _ (by simp)) ha
    · exact msg_tran _ _ _ _ _ gen_tran_keyed.2.2 ha
  have htb : b.tran = start := by
    simp only [List.mem_cons, List.not_mem_nil, or_false] at hmb
    rcases hmb with h | h <;> subst h
    · exact msg_tran _ _ _ _ _ (gen_tran_keyed.2.1 _ (by simp)) hb
    · exact msg_tran _ _ _ _ _ (gen_tran_keyed.2.1 _ (by simp)) hb
  exact delivered_before _ (fifo_run ops) hn a b (hta.trans htb.symm) hp hd

-- non-vacuity: a concrete history in which the commit (priority 3) of transaction 7 was put
-- after its read (priority 2) while a higher-priority message of another transaction is queued
example :
    let ops := [Op.put ⟨2, 7, 1⟩, .put ⟨3, 9, 2⟩, .put ⟨3, 7, 3⟩, .get, .get, .get]
    (runOps ops).delivered = [⟨3, 9, 2⟩, ⟨2, 7, 1⟩, ⟨3, 7, 3⟩] ∧ (runOps ops).puts.Nodup ∧
    msg "Read" 7 1 = some ⟨2, 7, 1⟩ ∧ msg "Commit" 7 3 = some ⟨3, 7, 3⟩ := by decide

-- non-vacuity of the interleaving theorems: the consumer parks on the empty queue, then a
-- producer runs Put(⟨2,7,1⟩) up to the append (the state `no_lost_wakeup` speaks about: consumer
-- parked, queue non-empty, a producer between append and Signal)
example : ∃ s, Reach 2 s ∧ s.h.items = [⟨2, 7, 1⟩] ∧ s.cp = CPc.wait ∧ s.pp[0]? = some PPc.appended := by
  have r0 : Reach 2 (init 2) := Reach.init
  have r1 := Reach.step _ _ r0 (Step.cCall _ rfl)
  have r2 := Reach.step _ _ r1 (Step.cLock _ rfl rfl)
  have r3 := Reach.step _ _ r2 (Step.cEmpty _ rfl rfl)
  have r4 := Reach.step _ _ r3 (Step.pCall _ 0 ⟨2, 7, 1⟩ rfl)
  have r5 := Reach.step _ _ r4 (Step.pLock _ 0 ⟨2, 7, 1⟩ rfl rfl)
  have r6 := Reach.step _ _ r5 (Step.pReady _ 0 ⟨2, 7, 1⟩ rfl (by decide))
  have r7 := Reach.step _ _ r6 (Step.pAppend _ 0 ⟨2, 7, 1⟩ rfl)
  exact ⟨_, r7, rfl, rfl, rfl⟩

end Gsu.Props.C17
