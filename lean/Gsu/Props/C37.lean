/-
C37 — Regular expressions match according to their semantics.

"For any pattern in the supported syntax and any subject string, whether and where the pattern
matches (and the captured groups) agree with the standard semantics of that pattern as implemented
by a reference engine on the common subset, and matching never hangs or crashes."

SPEC LEVEL. `Gsu.Model.LangRegex.m` / `search` *define* the standard (leftmost, left-biased
alternation, greedy/lazy, last-participation captures) semantics as a total function; the theorems
below are the internal laws of that definition. The Suneido compiler and matchers (util/regex
compile.go, match.go: Pike VM, one-pass, literal fast paths) are not mirrored: whether they agree
with this semantics is decided by the correspondence suite only (engine vs this matcher vs Go's
regexp, three ways), as is "never hangs or crashes" (time bound and panic capture per match).
-/
import Gsu.Proofs.LangRegex
namespace Gsu.Props.C37
open Gsu.LangRegex

/-- Concatenation: `ab` matches where `a` matches and `b` matches the rest (continuation form),
and concatenation is associative. -/
theorem match_concat (ic : Bool) (s : Bytes) (a b d : Re) (i : Nat) (c : Caps) (k : K) :
    m ic s (.seq a b) i c k = m ic s a i c (fun j c' => m ic s b j c' k) ∧
    m ic s (.seq (.seq a b) d) i c k = m ic s (.seq a (.seq b d)) i c k :=
  ⟨rfl, rfl⟩

/-- Alternation is left-biased: if the left branch leads to an overall match that match is the
result; only otherwise is the right branch tried. -/
theorem alt_left_biased (ic : Bool) (s : Bytes) (a b : Re) (i : Nat) (c : Caps) (k : K) :
    (∀ r, m ic s a i c k = some r → m ic s (.alt a b) i c k = some r) ∧
    (m ic s a i c k = none → m ic s (.alt a b) i c k = m ic s b i c k) :=
  ⟨fun r h => orElse_some _ _ r h, fun h => orElse_none _ _ h⟩

/-- Star unfolding: a greedy `r*` first tries one more (non-empty) iteration followed by `r*`
again and only then the empty match; the lazy `r*?` tries them in the other order. Stated on the
loop the matcher uses (`fuel` = remaining iterations). -/
theorem star_unfold (body : Nat → Caps → K → Res) (fuel i : Nat) (c : Caps) (k : K) :
    starLoop body true (fuel + 1) i c k =
      orElse (body i c (fun j c' => if j > i then starLoop body true fuel j c' k else none))
        (fun _ => k i c) ∧
    starLoop body false (fuel + 1) i c k =
      orElse (k i c)
        (fun _ => body i c (fun j c' => if j > i then starLoop body false fuel j c' k else none)) :=
  ⟨rfl, rfl⟩

/-- `r+` is `r` followed by `r*`; `r?` is `r` or nothing, in the order greediness dictates. -/
theorem plus_opt_unfold (ic : Bool) (s : Bytes) (r : Re) (g : Bool) (i : Nat) (c : Caps) (k : K) :
    m ic s (.plus r g) i c k =
      m ic s r i c (fun j c' => starLoop (fun i c k' => m ic s r i c k') g (s.length - j + 1) j c' k) ∧
    m ic s (.opt r true) i c k = orElse (m ic s r i c k) (fun _ => k i c) ∧
    m ic s (.opt r false) i c k = orElse (k i c) (fun _ => m ic s r i c k) :=
  ⟨rfl, rfl, rfl⟩

/-- A group records the span of its latest participation. -/
theorem group_records_span (ic : Bool) (s : Bytes) (n : Nat) (r : Re) (i : Nat) (c : Caps) (k : K) :
    m ic s (.group n r) i c k = m ic s r i c (fun j c' => k j ((n, i, j) :: c')) := rfl

/-- Leftmost: the reported match starts at the first position at which the pattern matches at
all, and the reported end/captures are those of the matcher at that position. -/
theorem search_leftmost (ic : Bool) (s : Bytes) (re : Re) (a b : Nat) (c : Caps)
    (h : search ic s re = some (a, b, c)) :
    m ic s re a [] ret = some (b, c) ∧ ∀ i, i < a → m ic s re i [] ret = none := by
  have := searchFrom_leftmost ic s re (s.length + 1) 0 a b c h
  exact ⟨this.2.1, fun i hi => this.2.2 i (Nat.zero_le _) hi⟩

/-- `FirstMatch(s, pos)` reports the first position at or after `pos` at which the pattern
matches (anchors are evaluated against the whole subject, not against the suffix). -/
theorem first_match_from_pos (ic : Bool) (s : Bytes) (re : Re) (pos a b : Nat) (c : Caps)
    (h : searchAt ic s re pos = some (a, b, c)) :
    pos ≤ a ∧ m ic s re a [] ret = some (b, c) ∧ ∀ i, pos ≤ i → i < a → m ic s re i [] ret = none :=
  searchFrom_leftmost ic s re _ pos a b c h

/-- `LastMatch(s, pos)` reports the largest start position not after `pos` at which it matches. -/
theorem last_match_upto_pos (ic : Bool) (s : Bytes) (re : Re) (pos a b : Nat) (c : Caps)
    (h : lastFrom ic s re pos = some (a, b, c)) :
    a ≤ pos ∧ m ic s re a [] ret = some (b, c) ∧ ∀ j, a < j → j ≤ pos → m ic s re j [] ret = none :=
  lastFrom_last ic s re pos a b c h

/-- A start-of-subject anchor only ever matches at offset 0, an end anchor only at the end —
wherever the search was started. -/
theorem anchors_absolute (ic : Bool) (s : Bytes) (i : Nat) (c : Caps) (k : K) :
    (i ≠ 0 → m ic s .bos i c k = none) ∧ (i < s.length → m ic s .eos i c k = none) := by
  constructor
  · intro h; simp [m, h]
  · intro h; simp only [m]; split
    · omega
    · rfl

/-- Termination: the matcher is a total function (structural recursion on the pattern, loop fuel
bounded by the remaining subject), so `search` yields an answer for every pattern and subject. -/
theorem search_total (ic : Bool) (s : Bytes) (re : Re) : search ic s re = none ∨ ∃ r, search ic s re = some r := by
  cases search ic s re with
  | none => exact Or.inl rfl
  | some r => exact Or.inr ⟨r, rfl⟩

-- non-vacuity: \Aab does not match again at offset 2 of "abab"; (?i)[x-z] matches Z
example : searchAt false [97, 98, 97, 98] (.seq .bos (.seq (.chr 97) (.chr 98))) 2 = none ∧
    all false [97, 98, 97, 98] (.seq .bos (.seq (.chr 97) (.chr 98))) = [(0, 2)] ∧
    search true [90] (.cls false [(120, 122)]) = some (0, 1, []) ∧
    search false [90] (.cls false [(120, 122)]) = none := by decide

-- non-vacuity: (a|ab)(c|bcd)* on "xabcd": leftmost at 1, left-biased alternative `a`, group 2 unset
example : search false [120, 97, 98, 99, 100]
    (.seq (.group 1 (.alt (.chr 97) (.seq (.chr 97) (.chr 98))))
      (.star (.group 2 (.alt (.chr 99) (.seq (.chr 98) (.seq (.chr 99) (.chr 100))))) true)) =
    some (1, 5, [(2, 2, 5), (1, 1, 2)]) := by decide

end Gsu.Props.C37
