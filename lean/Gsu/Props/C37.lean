/-
C37 — Regular expressions match according to their semantics.

"For any pattern in the supported syntax and any subject string, whether and where the pattern
matches (and the captured groups) agree with the standard semantics of that pattern as implemented
by a reference engine on the common subset, and matching never hangs or crashes."

SPEC LEVEL. `Gsu.Model.LangRegex.m` / `search` *define* the standard (leftmost, left-biased
alternation, greedy/lazy, last-participation captures) semantics as a total function; the theorems
below are the internal laws of that definition. The Suneido compiler and matchers (util/regex
compile.go, match.go: Pike VM, one-pass, literal fast paths) are not mirrored: whether they agree
with this semantics is decided by the correspondence suite only (engine vs this matcher vs Go's
regexp, three ways), as is "never hangs or crashes" (time bound and panic capture per match).
-/
import Gsu.Proofs.LangRegex
namespace Gsu.Props.C37
open Gsu.LangRegex

/-- Concatenation: `ab` matches where `a` matches and `b` matches the rest (continuation form),
and concatenation is associative. -/
theorem match_concat (s : Bytes) (a b d : Re) (i : Nat) (c : Caps) (k : K) :
    m s (.seq a b) i c k = m s a i c (fun j c' => m s b j c' k) ∧
    m s (.seq (.seq a b) d) i c k = m s (.seq a (.seq b d)) i c k :=
  ⟨rfl, rfl⟩

/-- Alternation is left-biased: if the left branch leads to an overall match that match is the
result; only otherwise is the right branch tried. -/
theorem alt_left_biased (s : Bytes) (a b : Re) (i : Nat) (c : Caps) (k : K) :
    (∀ r, m s a i c k = some r → m s (.alt a b) i c k = some r) ∧
    (m s a i c k = none → m s (.alt a b) i c k = m s b i c k) :=
  ⟨fun r h => orElse_some _ _ r h, fun h => orElse_none _ _ h⟩

/-- Star unfolding: a greedy `r*` first tries one more (non-empty) iteration followed by `r*`
again and only then the empty match; the lazy `r*?` tries them in the other order. Stated on the
loop the matcher uses (`fuel` = remaining iterations). -/
theorem star_unfold (body : Nat → Caps → K → Res) (fuel i : Nat) (c : Caps) (k : K) :
    starLoop body true (fuel + 1) i c k =
      orElse (body i c (fun j c' => if j > i then starLoop body true fuel j c' k else none))
        (fun _ => k i c) ∧
    starLoop body false (fuel + 1) i c k =
      orElse (k i c)
        (fun _ => body i c (fun j c' => if j > i then starLoop body false fuel j c' k else none)) :=
  ⟨rfl, rfl⟩

/-- `r+` is `r` followed by `r*`; `r?` is `r` or nothing, in the order greediness dictates. -/
theorem plus_opt_unfold (s : Bytes) (r : Re) (g : Bool) (i : Nat) (c : Caps) (k : K) :
    m s (.plus r g) i c k =
      m s r i c (fun j c' => starLoop (fun i c k' => m s r i c k') g (s.length - j + 1) j c' k) ∧
    m s (.opt r true) i c k = orElse (m s r i c k) (fun _ => k i c) ∧
    m s (.opt r false) i c k = orElse (k i c) (fun _ => m s r i c k) :=
  ⟨rfl, rfl, rfl⟩

/-- A group records the span of its latest participation. -/
theorem group_records_span (s : Bytes) (n : Nat) (r : Re) (i : Nat) (c : Caps) (k : K) :
    m s (.group n r) i c k = m s r i c (fun j c' => k j ((n, i, j) :: c')) := rfl

/-- Leftmost: the reported match starts at the first position at which the pattern matches at
all, and the reported end/captures are those of the matcher at that position. -/
theorem search_leftmost (s : Bytes) (re : Re) (a b : Nat) (c : Caps)
    (h : search s re = some (a, b, c)) :
    m s re a [] ret = some (b, c) ∧ ∀ i, i < a → m s re i [] ret = none := by
  have := searchFrom_leftmost s re (s.length + 1) 0 a b c h
  exact ⟨this.2.1, fun i hi => this.2.2 i (Nat.zero_le _) hi⟩

/-- Termination: the matcher is a total function (structural recursion on the pattern, loop fuel
bounded by the remaining subject), so `search` yields an answer for every pattern and subject. -/
theorem search_total (s : Bytes) (re : Re) : search s re = none ∨ ∃ r, search s re = some r := by
  cases search s re with
  | none => exact Or.inl rfl
  | some r => exact Or.inr ⟨r, rfl⟩

-- non-vacuity: (a|ab)(c|bcd)* on "xabcd": leftmost at 1, left-biased alternative `a`, group 2 unset
example : search [120, 97, 98, 99, 100]
    (.seq (.group 1 (.alt (.chr 97) (.seq (.chr 97) (.chr 98))))
      (.star (.group 2 (.alt (.chr 99) (.seq (.chr 98) (.seq (.chr 99) (.chr 100))))) true)) =
    some (1, 5, [(2, 2, 5), (1, 1, 2)]) := by decide

end Gsu.Props.C37
