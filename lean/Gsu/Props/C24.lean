/-
C24 — Query update statements change exactly the selected rows.

"An insert, update or delete statement run through the query language changes exactly the rows
that the corresponding query selects, in the way the statement specifies, and reports that
number of rows; the table afterwards equals the model result."

Spec-level theorems about the reference model `Gsu.Model.Act` that the driver `drv_c24`
executes and the correspondence suite compares with `dbms/query/action.go` (ParseAction +
DoAction), with DESIGN §6 finding 25 repaired (the selected rows are collected before any is
changed). The link between the code and this model is the correspondence + direct oracles only
(level: spec). Helper lemmas: `Gsu/Proofs/Act.lean`.
-/
import Gsu.Proofs.Act
namespace Gsu.Props.C24
open Gsu.Act

/-- delete: afterwards the table holds exactly the rows the predicate does not select; the other
table is untouched; the reported number is the number of selected rows. -/
theorem delete_action_spec (d d' : Db) (i n : Nat) (p : Pred) (h : delete d i p = some (d', n)) :
    (∀ r, r ∈ d'.get i ↔ r ∈ d.get i ∧ p.eval r = false) ∧
    (∀ j, (i = 0) ≠ (j = 0) → d'.get j = d.get j) ∧
    n = ((d.get i).filter p.eval).length :=
  delete_spec h

/-- update: every selected row is replaced by the row the `set` list specifies (all expressions
evaluated on the row as selected), every other row is unchanged, row by row and in place — in
particular a row is changed once even when the statement changes the column it selects or
iterates by; keys stay unique; the other table is untouched. -/
theorem update_action_spec (d d' : Db) (i n : Nat) (p : Pred) (asg : Asg)
    (h : update d i p asg = some (d', n)) :
    d'.get i = (d.get i).map (fun r => if p.eval r then applyAsg asg r else r) ∧
    (∀ x, x ∈ d'.get i ↔
      (x ∈ d.get i ∧ p.eval x = false) ∨ ∃ r ∈ d.get i, p.eval r = true ∧ x = applyAsg asg r) ∧
    (∀ j, (i = 0) ≠ (j = 0) → d'.get j = d.get j) ∧ dupFree (keys (d'.get i)) = true :=
  ⟨(update_spec h).1, update_mem h, (update_spec h).2.1, (update_spec h).2.2.2⟩

-- non-vacuity, the Halloween case: `update t where k < 50 set k = k + 20` on k = 1, 2, 3
example : (match update ⟨[⟨1, 1, 0⟩, ⟨2, 1, 0⟩, ⟨3, 1, 0⟩], [], []⟩ 0 (.cmp .k .lt 50) [(.k, .plus .k 20)] with
    | some (d', n) => d'.t == [⟨21, 1, 0⟩, ⟨22, 1, 0⟩, ⟨23, 1, 0⟩] && n == 3
    | none => false) = true := by decide

/-- "in the way the statement specifies": a changed row differs from the selected row only in the
columns the `set` list names — a column that is not assigned keeps its value (also when the
statement goes through a `project` that does not show it, or a `rename`), and a column assigned
once gets its expression evaluated on the row as selected. -/
theorem update_only_assigned (asg : Asg) (r : R) (c : Col) (h : ∀ ce ∈ asg, ce.1 ≠ c) :
    (applyAsg asg r).get c = r.get c :=
  applyAsg_other asg r c h

theorem update_assigned_value (r : R) (c : Col) (e : SetE) (pre post : Asg)
    (h : ∀ ce ∈ post, ce.1 ≠ c) :
    (applyAsg (pre ++ (c, e) :: post) r).get c = e.eval r :=
  applyAsg_single r c e pre post h

-- `set a = b, b = a` (a swap): the hypothesis holds for column a (assigned first, b after it)
example : ∀ ce ∈ ([(Col.b, SetE.plus .a 0)] : Asg), ce.1 ≠ Col.a := by
  intro ce h; simp_all

/-- insert of a query: the selected rows of t are added to u, t is unchanged, keys of u stay unique -/
theorem insert_query_spec (d d' : Db) (n : Nat) (p : Pred) (join : Bool)
    (h : insertQuery d p join = some (d', n)) :
    d'.u = d.u ++ d.t.filter (selQ d p join) ∧ d'.t = d.t ∧ dupFree (keys d'.u) = true :=
  ⟨(insertQuery_spec h).1, (insertQuery_spec h).2.1, (insertQuery_spec h).2.2.2⟩

/-- insert of a record: the row is added, only when its key is new -/
theorem insert_record_spec (d d' : Db) (i n : Nat) (r : R) (h : insert d i r = some (d', n)) :
    d'.get i = d.get i ++ [r] ∧ (keys (d.get i)).contains r.k = false :=
  ⟨(insert_spec h).1, (insert_spec h).2.2.2⟩

/-- every statement reports the number of rows its query selects (1 for a record insert) -/
theorem count_reported (d d' : Db) (i n : Nat) (p : Pred) (asg : Asg) (r : R) :
    (delete d i p = some (d', n) → n = ((d.get i).filter p.eval).length) ∧
    (update d i p asg = some (d', n) → n = ((d.get i).filter p.eval).length) ∧
    (∀ j, insertQuery d p j = some (d', n) → n = (d.t.filter (selQ d p j)).length) ∧
    (insert d i r = some (d', n) → n = 1) :=
  ⟨fun h => (delete_spec h).2.2, fun h => (update_spec h).2.2.1,
   fun _ h => (insertQuery_spec h).2.2.1, fun h => (insert_spec h).2.2.1⟩

end Gsu.Props.C24
