/- Lemmas about the action model `Gsu.Model.Act` (C24). Core only. -/
import Gsu.Model.Act
namespace Gsu.Act

theorem get_put_same (d : Db) (i : Nat) (rows : List R) : (d.put i rows).get i = rows := by
  unfold Db.put Db.get
  by_cases h : i = 0 <;> simp [h]

theorem get_put_other (d : Db) (i j : Nat) (rows : List R) (h : (i = 0) ≠ (j = 0)) :
    (d.put i rows).get j = d.get j := by
  unfold Db.put Db.get
  by_cases hi : i = 0 <;> by_cases hj : j = 0 <;> simp_all

theorem delete_spec {d d' : Db} {i n : Nat} {p : Pred} (h : delete d i p = some (d', n)) :
    (∀ r, r ∈ d'.get i ↔ r ∈ d.get i ∧ p.eval r = false) ∧
    (∀ j, (i = 0) ≠ (j = 0) → d'.get j = d.get j) ∧
    n = ((d.get i).filter p.eval).length := by
  simp only [delete, Option.some.injEq, Prod.mk.injEq] at h
  obtain ⟨h1, h2⟩ := h
  subst h1 h2
  refine ⟨?_, fun j hj => get_put_other _ _ _ _ hj, rfl⟩
  intro r
  rw [get_put_same]
  simp [List.mem_filter]

theorem update_spec {d d' : Db} {i n : Nat} {p : Pred} {asg : Asg} (h : update d i p asg = some (d', n)) :
    d'.get i = (d.get i).map (fun r => if p.eval r then applyAsg asg r else r) ∧
    (∀ j, (i = 0) ≠ (j = 0) → d'.get j = d.get j) ∧
    n = ((d.get i).filter p.eval).length ∧ dupFree (keys (d'.get i)) = true := by
  simp only [update] at h
  split at h
  · rename_i hd
    simp only [Option.some.injEq, Prod.mk.injEq] at h
    obtain ⟨h1, h2⟩ := h
    subst h1 h2
    refine ⟨get_put_same _ _ _, fun j hj => get_put_other _ _ _ _ hj, rfl, ?_⟩
    rw [get_put_same]; exact hd
  · cases h

theorem insertQuery_spec {d d' : Db} {n : Nat} {p : Pred} (h : insertQuery d p = some (d', n)) :
    d'.u = d.u ++ d.t.filter p.eval ∧ d'.t = d.t ∧ n = (d.t.filter p.eval).length ∧
    dupFree (keys d'.u) = true := by
  simp only [insertQuery] at h
  split at h
  · rename_i hd
    simp only [Option.some.injEq, Prod.mk.injEq] at h
    obtain ⟨h1, h2⟩ := h
    subst h1 h2
    exact ⟨rfl, rfl, rfl, hd⟩
  · cases h

theorem insert_spec {d d' : Db} {i n : Nat} {r : R} (h : insert d i r = some (d', n)) :
    d'.get i = d.get i ++ [r] ∧ (∀ j, (i = 0) ≠ (j = 0) → d'.get j = d.get j) ∧ n = 1 ∧
    (keys (d.get i)).contains r.k = false := by
  simp only [insert] at h
  split at h
  · cases h
  · rename_i hc
    simp only [Option.some.injEq, Prod.mk.injEq] at h
    obtain ⟨h1, h2⟩ := h
    subst h1 h2
    exact ⟨get_put_same _ _ _, fun j hj => get_put_other _ _ _ _ hj, rfl, by simpa using hc⟩

/-- an unselected row, and a selected row as changed by the `set` list, and nothing else -/
theorem update_mem {d d' : Db} {i n : Nat} {p : Pred} {asg : Asg} (h : update d i p asg = some (d', n)) (x : R) :
    x ∈ d'.get i ↔ (x ∈ d.get i ∧ p.eval x = false) ∨ ∃ r ∈ d.get i, p.eval r = true ∧ x = applyAsg asg r := by
  rw [(update_spec h).1, List.mem_map]
  constructor
  · rintro ⟨r, hr, hx⟩
    by_cases hp : p.eval r = true
    · right; exact ⟨r, hr, hp, by simp [hp] at hx; exact hx.symm⟩
    · left
      simp only [hp, Bool.false_eq_true, if_false] at hx
      subst hx
      exact ⟨hr, by simpa using hp⟩
  · rintro (⟨hx, hp⟩ | ⟨r, hr, hp, rfl⟩)
    · exact ⟨x, hx, by simp [hp]⟩
    · exact ⟨r, hr, by simp [hp]⟩

end Gsu.Act
