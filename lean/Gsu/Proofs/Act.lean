/- Lemmas about the action model `Gsu.Model.Act` (C24). Core only. -/
import Gsu.Model.Act
namespace Gsu.Act

theorem get_put_same (d : Db) (i : Nat) (rows : List R) : (d.put i rows).get i = rows := by
  unfold Db.put Db.get
  by_cases h : i = 0 <;> simp [h]

theorem get_put_other (d : Db) (i j : Nat) (rows : List R) (h : (i = 0) ≠ (j = 0)) :
    (d.put i rows).get j = d.get j := by
  unfold Db.put Db.get
  by_cases hi : i = 0 <;> by_cases hj : j = 0 <;> simp_all

theorem delete_spec {d d' : Db} {i n : Nat} {p : Pred} (h : delete d i p = some (d', n)) :
    (∀ r, r ∈ d'.get i ↔ r ∈ d.get i ∧ p.eval r = false) ∧
    (∀ j, (i = 0) ≠ (j = 0) → d'.get j = d.get j) ∧
    n = ((d.get i).filter p.eval).length := by
  simp only [delete, Option.some.injEq, Prod.mk.injEq] at h
  obtain ⟨h1, h2⟩ := h
  subst h1 h2
  refine ⟨?_, fun j hj => get_put_other _ _ _ _ hj, rfl⟩
  intro r
  rw [get_put_same]
  simp [List.mem_filter]

theorem update_spec {d d' : Db} {i n : Nat} {p : Pred} {asg : Asg} (h : update d i p asg = some (d', n)) :
    d'.get i = (d.get i).map (fun r => if p.eval r then applyAsg asg r else r) ∧
    (∀ j, (i = 0) ≠ (j = 0) → d'.get j = d.get j) ∧
    n = ((d.get i).filter p.eval).length ∧ dupFree (keys (d'.get i)) = true := by
  simp only [update] at h
  split at h
  · rename_i hd
    simp only [Option.some.injEq, Prod.mk.injEq] at h
    obtain ⟨h1, h2⟩ := h
    subst h1 h2
    refine ⟨get_put_same _ _ _, fun j hj => get_put_other _ _ _ _ hj, rfl, ?_⟩
    rw [get_put_same]; exact hd
  · cases h

theorem insertQuery_spec {d d' : Db} {n : Nat} {p : Pred} {j : Bool} (h : insertQuery d p j = some (d', n)) :
    d'.u = d.u ++ d.t.filter (selQ d p j) ∧ d'.t = d.t ∧ n = (d.t.filter (selQ d p j)).length ∧
    dupFree (keys d'.u) = true := by
  simp only [insertQuery] at h
  split at h
  · rename_i hd
    simp only [Option.some.injEq, Prod.mk.injEq] at h
    obtain ⟨h1, h2⟩ := h
    subst h1 h2
    exact ⟨rfl, rfl, rfl, hd⟩
  · cases h

theorem insert_spec {d d' : Db} {i n : Nat} {r : R} (h : insert d i r = some (d', n)) :
    d'.get i = d.get i ++ [r] ∧ (∀ j, (i = 0) ≠ (j = 0) → d'.get j = d.get j) ∧ n = 1 ∧
    (keys (d.get i)).contains r.k = false := by
  simp only [insert] at h
  split at h
  · cases h
  · rename_i hc
    simp only [Option.some.injEq, Prod.mk.injEq] at h
    obtain ⟨h1, h2⟩ := h
    subst h1 h2
    exact ⟨get_put_same _ _ _, fun j hj => get_put_other _ _ _ _ hj, rfl, by simpa using hc⟩

/-- an unselected row, and a selected row as changed by the `set` list, and nothing else -/
theorem update_mem {d d' : Db} {i n : Nat} {p : Pred} {asg : Asg} (h : update d i p asg = some (d', n)) (x : R) :
    x ∈ d'.get i ↔ (x ∈ d.get i ∧ p.eval x = false) ∨ ∃ r ∈ d.get i, p.eval r = true ∧ x = applyAsg asg r := by
  rw [(update_spec h).1, List.mem_map]
  constructor
  · rintro ⟨r, hr, hx⟩
    by_cases hp : p.eval r = true
    · right; exact ⟨r, hr, hp, by simp [hp] at hx; exact hx.symm⟩
    · left
      simp only [hp, Bool.false_eq_true, if_false] at hx
      subst hx
      exact ⟨hr, by simpa using hp⟩
  · rintro (⟨hx, hp⟩ | ⟨r, hr, hp, rfl⟩)
    · exact ⟨x, hx, by simp [hp]⟩
    · exact ⟨r, hr, by simp [hp]⟩

theorem set_get_ne (r : R) (c c' : Col) (v : Int) (h : c ≠ c') : (r.set c' v).get c = r.get c := by
  cases c <;> cases c' <;> simp_all [R.set, R.get]

theorem set_get_eq (r : R) (c : Col) (v : Int) : (r.set c v).get c = v := by
  cases c <;> rfl

theorem foldl_other (r : R) (c : Col) : ∀ (asg : Asg) (acc : R), (∀ ce ∈ asg, ce.1 ≠ c) →
    (asg.foldl (fun acc ce => acc.set ce.1 (ce.2.eval r)) acc).get c = acc.get c := by
  intro asg
  induction asg with
  | nil => intro acc _; rfl
  | cons x xs ih =>
    intro acc h
    simp only [List.foldl_cons]
    rw [ih _ (fun ce hce => h ce (List.mem_cons_of_mem _ hce))]
    exact set_get_ne _ _ _ _ (fun he => h x List.mem_cons_self he.symm)

/-- a column that the `set` list does not mention keeps its value -/
theorem applyAsg_other (asg : Asg) (r : R) (c : Col) (h : ∀ ce ∈ asg, ce.1 ≠ c) :
    (applyAsg asg r).get c = r.get c :=
  foldl_other r c asg r h

/-- the last assignment of a column decides: its expression evaluated on the selected row -/
theorem applyAsg_single (r : R) (c : Col) (e : SetE) (pre post : Asg)
    (h2 : ∀ ce ∈ post, ce.1 ≠ c) :
    (applyAsg (pre ++ (c, e) :: post) r).get c = e.eval r := by
  unfold applyAsg
  rw [List.foldl_append, List.foldl_cons, foldl_other r c post _ h2]
  exact set_get_eq _ _ _

end Gsu.Act
