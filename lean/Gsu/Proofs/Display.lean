/-
Lemmas for C31: the lexer mirror reads back what the Display mirror writes.
-/
import Gsu.Model.Display
import Gsu.Proofs.Lexer
namespace Gsu.Display
open Gsu.Proto Gsu.Ascii Gsu.Lexer

theorem forall_uint8 (P : UInt8 → Prop) (h : ∀ n : Nat, n < 256 → P (UInt8.ofNat n)) : ∀ c, P c := by
  intro c
  have := h c.toNat c.toNat_lt
  simpa using this

/-- hex2 always writes two digits which lexer.doesc decodes back -/
def hexOk (c : UInt8) : Prop :=
  ∃ h1 h2, hex2 c = [h1, h2] ∧ digit (rd h1) 16 ≠ -1 ∧ digit (rd h2) 16 ≠ -1 ∧
    UInt8.ofNat (16 * digit (rd h1) 16 + digit (rd h2) 16).toNat = c

instance (c : UInt8) : Decidable (hexOk c) := by
  unfold hexOk
  exact
    match h : hex2 c with
    | [h1, h2] =>
      if h' : digit (rd h1) 16 ≠ -1 ∧ digit (rd h2) 16 ≠ -1 ∧
          UInt8.ofNat (16 * digit (rd h1) 16 + digit (rd h2) 16).toNat = c then
        isTrue ⟨h1, h2, rfl, h'.1, h'.2.1, h'.2.2⟩
      else isFalse (by
        rintro ⟨a, b, e, r1, r2, r3⟩
        simp only [List.cons.injEq, and_true] at e
        obtain ⟨rfl, rfl⟩ := e
        exact h' ⟨r1, r2, r3⟩)
    | [] => isFalse (by rintro ⟨a, b, e, _⟩; simp at e)
    | [_] => isFalse (by rintro ⟨a, b, e, _⟩; simp at e)
    | _ :: _ :: _ :: _ => isFalse (by rintro ⟨a, b, e, _⟩; simp at e)

set_option maxRecDepth 100000 in
theorem hex_roundtrip : ∀ c : UInt8, hexOk c :=
  forall_uint8 _ (by decide)

/-- one step of the round trip: the escape loop reads back one escaped byte -/
theorem escLoop_escByte (q : UInt8) (hq : q = 34 ∨ q = 39) (c : UInt8) (rest acc : Bytes) (n : Nat) :
    escLoop q 0 (escByte q c ++ rest) acc n =
      escLoop q 0 rest (c :: acc) (n + (escByte q c).length) := by
  unfold escByte
  by_cases h1 : c = q
  · subst h1
    rcases hq with rfl | rfl <;> simp [escLoop, rd, doesc]
  · simp only [h1, if_false]
    by_cases h2 : c = 9
    · subst h2; rcases hq with rfl | rfl <;> simp [escLoop, rd, doesc]
    · simp only [h2, if_false]
      by_cases h3 : c = 13
      · subst h3; rcases hq with rfl | rfl <;> simp [escLoop, rd, doesc]
      · simp only [h3, if_false]
        by_cases h4 : c = 10
        · subst h4; rcases hq with rfl | rfl <;> simp [escLoop, rd, doesc]
        · simp only [h4, if_false]
          by_cases h5 : c = 92
          · subst h5; rcases hq with rfl | rfl <;> simp [escLoop, rd, doesc]
          · simp only [h5, if_false]
            by_cases h6 : c < 32 ∨ 126 < c
            · simp only [h6, if_true]
              obtain ⟨a, b, e, r1, r2, r3⟩ := hex_roundtrip c
              rw [e]
              have hq92 : (92 : UInt8) ≠ q := by rcases hq with rfl | rfl <;> decide
              simp only [List.cons_append, List.nil_append, escLoop, rd, List.length_cons,
                List.length_nil]
              have : ((92 : UInt8) = 0) = False := by decide
              simp only [this, if_false, hq92, if_true, doesc, rd]
              have e120 : ((120 : UInt8) = 0) = False := by decide
              simp only [e120, if_false]
              have : ((120 : UInt8) = 110) = False := by decide
              simp only [this, if_false]
              have : ((120 : UInt8) = 116) = False := by decide
              simp only [this, if_false]
              have : ((120 : UInt8) = 114) = False := by decide
              simp only [this, if_false, if_true, List.getD_cons_zero, List.getD_cons_succ]
              simp only [rd] at r1 r2 r3
              simp only [r1, r2, ne_eq, not_false_eq_true, and_self, if_true, r3, escLoop]
            · simp only [h6, if_false, List.cons_append, List.nil_append, List.length_cons,
                List.length_nil, escLoop]
              have hc0 : c ≠ 0 := by
                intro e; subst e; exact h6 (Or.inl (by decide))
              simp only [rd, hc0, if_false, h1, h5]

theorem escLoop_flatMap (q : UInt8) (hq : q = 34 ∨ q = 39) (s tail acc : Bytes) (n : Nat) :
    escLoop q 0 (s.flatMap (escByte q) ++ q :: tail) acc n =
      some (acc.reverse ++ s, n + (s.flatMap (escByte q)).length + 1) := by
  induction s generalizing acc n with
  | nil =>
    have : rd q = q := by rcases hq with rfl | rfl <;> rfl
    simp [escLoop, this]
  | cons c r ih =>
    simp only [List.flatMap_cons, List.append_assoc]
    rw [escLoop_escByte q hq, ih]
    simp only [List.reverse_cons, List.append_assoc, List.singleton_append, List.length_append]
    congr 2; omega

theorem escBody_eq (q : UInt8) (s : Bytes) : escBody q s = s.flatMap (escByte q) := by
  induction s with
  | nil => rfl
  | cons c r ih =>
    simp only [escBody]
    split
    · rfl
    · rename_i h
      simp only [not_or] at h
      have : escByte q c = [c] := by
        unfold escByte
        have h9 : c ≠ 9 := by intro e; subst e; exact h.2.2.1 (by decide)
        have h13 : c ≠ 13 := by intro e; subst e; exact h.2.2.1 (by decide)
        have h10 : c ≠ 10 := by intro e; subst e; exact h.2.2.1 (by decide)
        have h6 : ¬ (c < 32 ∨ 126 < c) := by
          intro e; rcases e with e | e
          · exact h.2.2.1 e
          · exact h.2.2.2 e
        simp [h.1, h.2.1, h9, h13, h10, h6]
      simp only [List.flatMap_cons, this, ih, List.singleton_append]

/-- the escaped form of a byte starts with a backslash or is the byte itself, which then is
neither the quote nor a backslash -/
theorem escByte_head (q c : UInt8) :
    (∃ t, escByte q c = 92 :: t) ∨ (escByte q c = [c] ∧ c ≠ 92 ∧ c ≠ q) := by
  unfold escByte
  by_cases h1 : c = q
  · left; rw [if_pos h1]; exact ⟨_, rfl⟩
  · rw [if_neg h1]
    by_cases h2 : c = 9
    · left; rw [if_pos h2]; exact ⟨_, rfl⟩
    · rw [if_neg h2]
      by_cases h3 : c = 13
      · left; rw [if_pos h3]; exact ⟨_, rfl⟩
      · rw [if_neg h3]
        by_cases h4 : c = 10
        · left; rw [if_pos h4]; exact ⟨_, rfl⟩
        · rw [if_neg h4]
          by_cases h5 : c = 92
          · left; rw [if_pos h5]; exact ⟨_, rfl⟩
          · rw [if_neg h5]
            by_cases h6 : c < 32 ∨ 126 < c
            · left; rw [if_pos h6]; exact ⟨_, rfl⟩
            · right; rw [if_neg h6]; exact ⟨rfl, h5, h1⟩

/-- the fast scan of quotedString on a displayed string: it stops inside the string (at the
first backslash) or at the closing quote, and in the latter case the body is the string itself -/
theorem fast_scan (q : UInt8) (s tail : Bytes) :
    let src := s.flatMap (escByte q) ++ q :: tail
    let i := spanWhile (fun c => c != 92 && c != q) src
    i < src.length ∧ (src.getD i 0 = 92 ∨
      (src.getD i 0 ≠ 92 ∧ src.take i = s ∧ i = s.length ∧ s.flatMap (escByte q) = s)) := by
  induction s with
  | nil =>
    simp only [List.flatMap_nil, List.nil_append, spanWhile, bne_self_eq_false, Bool.and_false,
      Bool.false_eq_true, if_false, List.length_cons, List.getD_cons_zero, List.take_zero,
      List.length_nil, and_self, and_true]
    refine ⟨by omega, ?_⟩
    by_cases h : q = 92
    · left; exact h
    · right; exact h
  | cons c r ih =>
    simp only [List.flatMap_cons, List.append_assoc]
    rcases escByte_head q c with ⟨t, ht⟩ | ⟨h1, h2, h3⟩
    · rw [ht]
      simp only [List.cons_append, spanWhile, bne_self_eq_false, Bool.false_and, Bool.false_eq_true,
        if_false, List.length_cons, List.getD_cons_zero, true_or, and_true]
      omega
    · rw [h1]
      have hp : (c != 92 && c != q) = true := by simp [h2, h3]
      simp only [List.singleton_append, spanWhile, hp, if_true, List.length_cons]
      have ⟨i1, i2⟩ := ih
      refine ⟨by omega, ?_⟩
      have e : ∀ l : Bytes, ∀ k, (c :: l).getD (1 + k) 0 = l.getD k 0 := by
        intro l k; rw [Nat.add_comm]; simp
      rw [e]
      rcases i2 with i2 | ⟨a, b, d, f⟩
      · left; exact i2
      · right
        refine ⟨a, ?_, by omega, by rw [f]⟩
        rw [Nat.add_comm, List.take_succ_cons, b]

theorem quotedString_core (q : UInt8) (src : Bytes)
    (hlt : spanWhile (fun c => c != 92 && c != q) src < src.length) :
    (src.getD (spanWhile (fun c => c != 92 && c != q) src) 0 = 92 →
      ∀ t n, escLoop q 0 src [] 1 = some (t, n) → quotedString (q :: src) q = (⟨"String", t⟩, n)) ∧
    (src.getD (spanWhile (fun c => c != 92 && c != q) src) 0 ≠ 92 →
      quotedString (q :: src) q =
        (⟨"String", src.take (spanWhile (fun c => c != 92 && c != q) src)⟩,
          spanWhile (fun c => c != 92 && c != q) src + 2)) := by
  have hn : ¬ (spanWhile (fun c => c != 92 && c != q) src ≥ src.length) := by omega
  constructor
  · intro h92 t n he
    unfold quotedString
    simp only [List.tail_cons, hn, if_false, h92, if_true, he]
  · intro h92
    unfold quotedString
    simp only [List.tail_cons, hn, if_false, h92]

theorem quotedString_escape (q : UInt8) (hq : q = 34 ∨ q = 39) (s tail : Bytes) :
    quotedString (escape s q ++ tail) q = (⟨"String", s⟩, (escape s q).length) := by
  have e : escape s q ++ tail = q :: (s.flatMap (escByte q) ++ q :: tail) := by
    simp [escape, escBody_eq]
  have el : (escape s q).length = (s.flatMap (escByte q)).length + 2 := by
    simp [escape, escBody_eq]
  rw [e, el]
  have ⟨h1, h2⟩ := fast_scan q s tail
  have ⟨c1, c2⟩ := quotedString_core q _ h1
  rcases h2 with h2 | ⟨a, b, c, d⟩
  · rw [c1 h2 _ _ (escLoop_flatMap q hq s tail [] 1)]
    simp only [List.reverse_nil, List.nil_append]
    congr 1; omega
  · rw [c2 a, b, c, d]

theorem next_escape (query : Bool) (q : UInt8) (hq : q = 34 ∨ q = 39) (s tail : Bytes) :
    next query (escape s q ++ tail) = (⟨"String", s⟩, (escape s q).length) := by
  have h := quotedString_escape q hq s tail
  have hrd : rd q = q := by rcases hq with rfl | rfl <;> rfl
  have e : escape s q ++ tail = q :: (escBody q s ++ [q] ++ tail) := by simp [escape]
  rw [e] at h ⊢
  unfold next
  simp only [hrd]
  rcases hq with rfl | rfl
  · simpa using h
  · simpa using h

/-! ### back quotes -/

theorem countQuotes_canBack (s : Bytes) (k : Counts) (h : (countQuotes s k).canBack = true) :
    k.canBack = true ∧ 96 ∉ s := by
  induction s generalizing k with
  | nil => exact ⟨h, by simp⟩
  | cons c r ih =>
    simp only [countQuotes] at h
    have := ih _ h
    by_cases h1 : c = 39
    · subst h1; simp only [if_true] at this
      exact ⟨this.1, by simp [this.2]⟩
    · by_cases h2 : c = 34
      · subst h2; simp only [if_true, h1, if_false] at this
        exact ⟨this.1, by simp [this.2]⟩
      · by_cases h3 : c = 92
        · subst h3; simp only [if_true, h1, h2, if_false] at this
          exact ⟨this.1, by simp [this.2]⟩
        · simp only [h1, h2, h3, if_false] at this
          by_cases h4 : c = 96
          · subst h4
            exfalso
            have h5 : ¬ ((96 : UInt8) < 32 ∨ (126 : UInt8) < 96) := by decide
            simp [h5] at this
          · simp only [h4, if_false] at this
            by_cases h5 : c < 32 ∨ 126 < c
            · simp [h5] at this
            · simp only [h5, if_false] at this
              refine ⟨this.1, ?_⟩
              simp only [List.mem_cons, not_or]
              exact ⟨fun e => h4 e.symm, this.2⟩

theorem bestQuote_cases (s : Bytes) :
    bestQuote s = 34 ∨ bestQuote s = 39 ∨ (bestQuote s = 96 ∧ 96 ∉ s) := by
  unfold bestQuote
  simp only
  split
  · right; left; rfl
  · split
    · left; rfl
    · split
      · right; left; rfl
      · split
        · rename_i h
          right; right
          exact ⟨rfl, (countQuotes_canBack s {} h).2⟩
        · split
          · right; left; rfl
          · left; rfl

theorem spanWhile_notin (b : UInt8) (s tail : Bytes) (h : b ∉ s) :
    spanWhile (fun c => c != b) (s ++ b :: tail) = s.length := by
  induction s with
  | nil => simp [spanWhile]
  | cons c r ih =>
    simp only [List.mem_cons, not_or] at h
    have : (c != b) = true := by simp; exact fun e => h.1 e.symm
    simp only [List.cons_append, spanWhile, this, if_true, ih h.2, List.length_cons]
    omega

theorem next_raw (query : Bool) (s tail : Bytes) (h : 96 ∉ s) :
    next query (96 :: (s ++ [96]) ++ tail) = (⟨"String", s⟩, s.length + 2) := by
  unfold next
  have : rd 96 = 96 := rfl
  simp only [List.cons_append, this]
  have e1 : ((96 : UInt8) = 35) = False := by decide
  have e2 : ((96 : UInt8) = 47) = False := by decide
  simp only [e1, e2, if_false, if_true, rawString, List.tail_cons, List.append_assoc,
    List.singleton_append]
  rw [spanWhile_notin 96 s tail h]
  simp

/-! ### unterminated literals -/

theorem escLoop_none (q : UInt8) (k : Nat) (r acc : Bytes) (n : Nat) (h : ∀ c ∈ r, rd c ≠ q) :
    escLoop q k r acc n = none := by
  induction r generalizing k acc n with
  | nil => simp [escLoop]
  | cons c r ih =>
    have hr : ∀ c ∈ r, rd c ≠ q := fun c hc => h c (List.mem_cons_of_mem _ hc)
    cases k with
    | succ k => simp only [escLoop]; exact ih _ _ _ hr
    | zero =>
      simp only [escLoop]
      have hc : rd c ≠ q := h c (List.mem_cons_self ..)
      simp only [hc, if_false]
      split <;> exact ih _ _ _ hr

theorem rd_eq_quote (q : UInt8) (hq : q = 34 ∨ q = 39) (c : UInt8) : rd c = q ↔ c = q := by
  unfold rd
  split
  · rename_i h; subst h; rcases hq with rfl | rfl <;> decide
  · rfl

theorem scan_stop (q : UInt8) (l : Bytes) :
    spanWhile (fun c => c != 92 && c != q) l < l.length →
      l.getD (spanWhile (fun c => c != 92 && c != q) l) 0 = 92 ∨
      l.getD (spanWhile (fun c => c != 92 && c != q) l) 0 = q ∧ q ∈ l := by
  induction l with
  | nil => simp [spanWhile]
  | cons c r ih =>
    intro hl
    simp only [spanWhile] at hl ⊢
    by_cases hp : (c != 92 && c != q) = true
    · simp only [hp, if_true, List.length_cons] at hl ⊢
      have e : (c :: r).getD (1 + spanWhile (fun c => c != 92 && c != q) r) 0 =
          r.getD (spanWhile (fun c => c != 92 && c != q) r) 0 := by
        rw [Nat.add_comm]; simp
      rw [e]
      rcases ih (by omega) with a | ⟨a, b⟩
      · left; exact a
      · right; exact ⟨a, List.mem_cons_of_mem _ b⟩
    · simp only [hp, Bool.false_eq_true, if_false, List.getD_cons_zero]
      simp only [Bool.and_eq_true, bne_iff_ne, ne_eq, not_and, Decidable.not_not] at hp
      by_cases h92 : c = 92
      · left; exact h92
      · right; have := hp h92; exact ⟨this, by simp [this]⟩

theorem quotedString_unterminated (q : UInt8) (hq : q = 34 ∨ q = 39) (body : Bytes) (h : q ∉ body) :
    quotedString (q :: body) q = (⟨"Error", msgQuote⟩, body.length + 1) := by
  unfold quotedString
  simp only [List.tail_cons, List.length_cons]
  by_cases h1 : spanWhile (fun c => c != 92 && c != q) body ≥ body.length
  · simp only [h1, if_true]
  · simp only [h1, if_false]
    rcases scan_stop q body (by omega) with a | ⟨_, b⟩
    · have hnone : escLoop q 0 body [] 1 = none := by
        apply escLoop_none
        intro c hc
        rw [ne_eq, rd_eq_quote q hq]
        intro e; subst e; exact h hc
      simp only [a, if_true, hnone]
    · exact absurd b h

/-! ### a String item is a closed literal -/

theorem escLoop_closed (q : UInt8) (k : Nat) (r acc : Bytes) (n : Nat) (t : Bytes) (m : Nat)
    (h : escLoop q k r acc n = some (t, m)) : rd (r.getD (m - n - 1) 0) = q := by
  induction r generalizing k acc n with
  | nil => simp [escLoop] at h
  | cons c r ih =>
    have step : ∀ k' acc', escLoop q k' r acc' (n + 1) = some (t, m) →
        rd ((c :: r).getD (m - n - 1) 0) = q := by
      intro k' acc' h'
      have hb := escLoop_bounds _ _ _ _ _ _ _ h'
      have := ih k' acc' (n + 1) h'
      have e : m - n - 1 = (m - (n + 1) - 1) + 1 := by omega
      rw [e, List.getD_cons_succ]; exact this
    cases k with
    | succ k => simp only [escLoop] at h; exact step _ _ h
    | zero =>
      simp only [escLoop] at h
      split at h
      · rename_i hq
        simp only [Option.some.injEq, Prod.mk.injEq] at h
        have : m - n - 1 = 0 := by omega
        rw [this]; simpa using hq
      · split at h
        · exact step _ _ h
        · exact step _ _ h

theorem quotedString_closed (q : UInt8) (hq : q = 34 ∨ q = 39) (body t : Bytes) (n : Nat)
    (h : quotedString (q :: body) q = (⟨"String", t⟩, n)) :
    2 ≤ n ∧ n ≤ body.length + 1 ∧ (q :: body).getD (n - 1) 0 = q := by
  unfold quotedString at h
  simp only [List.tail_cons, List.length_cons] at h
  by_cases h1 : spanWhile (fun c => c != 92 && c != q) body ≥ body.length
  · simp only [h1, if_true, Prod.mk.injEq, Item.mk.injEq] at h
    exact absurd h.1.1 (by decide)
  · simp only [h1, if_false] at h
    by_cases h2 : body.getD (spanWhile (fun c => c != 92 && c != q) body) 0 = 92
    · simp only [h2, if_true] at h
      cases he : escLoop q 0 body [] 1 with
      | none =>
        rw [he] at h
        simp only [Prod.mk.injEq, Item.mk.injEq] at h
        exact absurd h.1.1 (by decide)
      | some tn =>
        obtain ⟨t', m⟩ := tn
        rw [he] at h
        simp only [Prod.mk.injEq, Item.mk.injEq, true_and] at h
        obtain ⟨_, rfl⟩ := h
        have hb := escLoop_bounds _ _ _ _ _ _ _ he
        have hc := escLoop_closed _ _ _ _ _ _ _ he
        refine ⟨by omega, by omega, ?_⟩
        have e : m - 1 = (m - 1 - 1) + 1 := by omega
        rw [e, List.getD_cons_succ]
        exact (rd_eq_quote q hq _).mp hc
    · simp only [h2, if_false, Prod.mk.injEq, Item.mk.injEq, true_and] at h
      obtain ⟨_, rfl⟩ := h
      refine ⟨by omega, by omega, ?_⟩
      rcases scan_stop q body (by omega) with a | ⟨a, _⟩
      · exact absurd a h2
      · simpa using a

end Gsu.Display
