/-
C13: container round trip. `unpackObj (packObj tag list named) = some (list, named)` for EVERY
list of packed members and every list of packed key/value pairs (member framing with
`Encoder.VarUint` lengths; the only side condition is that counts and member lengths fit the
10 byte varint, i.e. are below 2^70 — a Go `int` always is). Members are arbitrary byte strings,
so in particular packed objects: the statement composes through every nesting depth. Core-only.
-/
import Gsu.Model.Pack
namespace Gsu.Pack
open Gsu.Proto

theorem unvaruintF_varuintF : ∀ (f n : Nat) (rest : Bytes), 0 < f → n < 128 ^ f →
    unvaruintF f (varuintF f n ++ rest) = some (n, rest)
  | 0, _, _, h, _ => absurd h (Nat.lt_irrefl 0)
  | f + 1, n, rest, _, h => by
    by_cases hn : n < 128
    · have hb : (UInt8.ofNat n).toNat = n := by rw [UInt8.toNat_ofNat']; omega
      simp only [varuintF, hn, if_true, List.cons_append, List.nil_append, unvaruintF, hb]
    · have hb : (UInt8.ofNat (n % 128 + 128)).toNat = n % 128 + 128 := by
        rw [UInt8.toNat_ofNat']; omega
      have hf : 0 < f := by
        apply Nat.pos_of_ne_zero
        intro h0; subst h0
        simp at h; omega
      have hd : n / 128 < 128 ^ f := by
        apply Nat.div_lt_of_lt_mul
        rw [Nat.pow_succ, Nat.mul_comm] at h; exact h
      have ih := unvaruintF_varuintF f (n / 128) rest hf hd
      simp only [varuintF, hn, if_false, List.cons_append, unvaruintF, hb, ih]
      rw [if_neg (by omega)]
      congr 2
      omega

theorem unvaruint_varuint (n : Nat) (rest : Bytes) (h : n < 128 ^ 10) :
    unvaruint (varuint n ++ rest) = some (n, rest) :=
  unvaruintF_varuintF 10 n rest (by decide) h

theorem varuintF_ne_nil (f n : Nat) : varuintF (f + 1) n ≠ [] := by
  simp only [varuintF]; split <;> simp

theorem frames_cons (m : Bytes) (ms : List Bytes) : frames (m :: ms) = varuint m.length ++ (m ++ frames ms) := by
  simp only [frames, List.flatMap_cons, frame, List.append_assoc]

/-- `unpackValue` repeated over the framed members gives the members back -/
theorem unframeN_frames : ∀ (ms : List Bytes) (rest : Bytes), (∀ m ∈ ms, m.length < 128 ^ 10) →
    unframeN ms.length (frames ms ++ rest) = some (ms, rest)
  | [], rest, _ => by simp [unframeN, frames]
  | m :: ms, rest, h => by
    have hm := h m List.mem_cons_self
    have ih := unframeN_frames ms rest (fun x hx => h x (List.mem_cons_of_mem _ hx))
    rw [frames_cons, List.append_assoc, List.append_assoc]
    simp only [List.length_cons, unframeN, unvaruint_varuint _ _ hm]
    rw [if_neg (by simp only [List.length_append]; omega)]
    simp only [List.drop_left, List.take_left, ih]

theorem pairUp_flat : ∀ named : List (Bytes × Bytes),
    pairUp (named.flatMap fun kv => [kv.1, kv.2]) = named
  | [] => rfl
  | (k, v) :: r => by
    simp only [List.flatMap_cons, List.cons_append, List.nil_append, pairUp, pairUp_flat r]

theorem length_flat : ∀ named : List (Bytes × Bytes),
    (named.flatMap fun kv => [kv.1, kv.2]).length = 2 * named.length
  | [] => rfl
  | (k, v) :: r => by
    simp only [List.flatMap_cons, List.length_append, List.length_cons, List.length_nil, length_flat r]
    omega

/-- the container round trip, one framing level, all member lists -/
theorem unpackObj_packObj (tag : UInt8) (list : List Bytes) (named : List (Bytes × Bytes))
    (hl : list.length < 128 ^ 10) (hn : named.length < 128 ^ 10)
    (hml : ∀ m ∈ list, m.length < 128 ^ 10)
    (hmn : ∀ kv ∈ named, kv.1.length < 128 ^ 10 ∧ kv.2.length < 128 ^ 10) :
    unpackObj (packObj tag list named) = some (list, named) := by
  by_cases he : list = [] ∧ named = []
  · obtain ⟨rfl, rfl⟩ := he
    simp [packObj, unpackObj]
  · have hflat : ∀ m ∈ (named.flatMap fun kv => [kv.1, kv.2]), m.length < 128 ^ 10 := by
      intro m hm
      simp only [List.mem_flatMap, List.mem_cons, List.not_mem_nil, or_false] at hm
      obtain ⟨kv, hkv, rfl | rfl⟩ := hm
      · exact (hmn kv hkv).1
      · exact (hmn kv hkv).2
    have h2 := unframeN_frames (named.flatMap fun kv => [kv.1, kv.2]) [] hflat
    rw [length_flat, List.append_nil] at h2
    have h1 := unframeN_frames list
      (varuint named.length ++ frames (named.flatMap fun kv => [kv.1, kv.2])) hml
    simp only [packObj, he, if_false]
    -- the body is not empty: the second pattern of `unpackObj` does not apply
    have hbody : varuint list.length ++ frames list ++ varuint named.length ++
        frames (named.flatMap fun kv => [kv.1, kv.2]) =
        varuint list.length ++ (frames list ++ (varuint named.length ++
          frames (named.flatMap fun kv => [kv.1, kv.2]))) := by
      simp only [List.append_assoc]
    rw [hbody]
    cases hv : varuint list.length with
    | nil => exact absurd hv (varuintF_ne_nil 9 _)
    | cons b bs =>
      simp only [List.cons_append, unpackObj]
      rw [← List.cons_append, ← hv, unvaruint_varuint _ _ hl]
      simp only [h1, unvaruint_varuint _ _ hn, h2, pairUp_flat]

end Gsu.Pack
