/-
C29: a block that the analysis compiles as a plain function denotes only private cells
(static lemma behind the dynamic closure-vs-function equivalence). Core Lean only.
-/
import Gsu.Proofs.LangBlocks
import Gsu.Proofs.LangBlocks2
import Gsu.Proofs.LangBlocksFold
namespace Gsu.LangBlocks

theorem binding_skip_mid (mid : List Scope) (s : Scope) (chain : List Scope) (c : Scope) (v : Nat)
    (hc : isParam c v = false) (hmid : ∀ x ∈ mid, usesD x v = false) :
    bindingGo (mid ++ s :: chain) c v = bindingGo (s :: chain) c v := by
  induction mid with
  | nil => rfl
  | cons x rest ih =>
    rw [List.cons_append, binding_skip_nonuser x _ c v hc (hmid x (List.mem_cons_self ..))]
    exact ih (fun y hy => hmid y (List.mem_cons_of_mem _ hy))

theorem isClosure_false_succ {n : Nat} {chain : List Scope} {k : Scope}
    (h : isClosure n chain k = false) : ∃ m, n = m + 1 := by
  cases n with
  | zero => simp [isClosure] at h
  | succ m => exact ⟨m, rfl⟩

/-- a function-block nested below the function-block `s` (which uses `v`, with only non-users in
between) does not use `v`, unless `v` is its parameter -/
theorem kid_not_user (s : Scope) (chain : List Scope) (v : Nat)
    (hs : usesD s v = true) (hb : bindingGo chain s v = s)
    (k : Scope) (mid : List Scope) (n : Nat) (hmid : ∀ x ∈ mid, usesD x v = false)
    (hkc : isClosure n (mid ++ s :: chain) k = false) (hkne : k.id ≠ s.id)
    (hkp : isParam k v = false) : usesD k v = false := by
  cases hku : usesD k v with
  | false => rfl
  | true =>
    exfalso
    obtain ⟨n', rfl⟩ := isClosure_false_succ hkc
    have h1 := function_block_binds_itself n' _ k hkc v (usesD_namesD k v hku)
    rw [binding_skip_mid _ s chain k v hkp hmid, binding_nearest_user s chain k v hkp hs, hb] at h1
    exact hkne h1.symm

/-- below a function-block `s` that uses `v` itself, no nested block reaches `v` -/
theorem reach_false_desc (s : Scope) (chain : List Scope) (v : Nat)
    (hs : usesD s v = true) (hb : bindingGo chain s v = s) :
    ∀ (m : Nat) (c : Scope) (mid : List Scope) (n : Nat),
      (∀ x ∈ mid, usesD x v = false) → usesD c v = false →
      isClosure n (mid ++ s :: chain) c = false →
      noKidId s.id m c = true → reach v m c = false := by
  intro m
  induction m with
  | zero => intros; rfl
  | succ m ih =>
    intro c mid n hmid hcu hcl hno
    simp only [reach, List.any_eq_false]
    intro k hk
    obtain ⟨n', rfl⟩ := isClosure_false_succ hcl
    have hkc := (function_block_kids n' _ c hcl).2 k hk
    simp only [noKidId, List.all_eq_true, Bool.and_eq_true] at hno
    have hkid := hno k hk
    have hkne : k.id ≠ s.id := by simpa using hkid.1
    have hmid' : ∀ x ∈ c :: mid, usesD x v = false := by
      intro x hx
      rcases List.mem_cons.1 hx with hx | hx
      · rw [hx]; exact hcu
      · exact hmid x hx
    by_cases hkp : isParam k v = true
    · simp [hkp]
    · have hkp' : isParam k v = false := by simpa using hkp
      have hku := kid_not_user s chain v hs hb k (c :: mid) n' hmid' hkc hkne hkp'
      have := ih k (c :: mid) n' hmid' hku hkc hkid.2
      simp [hkp', hku, this]

theorem reach_false_top (s : Scope) (chain : List Scope) (v : Nat)
    (hs : usesD s v = true) (hb : bindingGo chain s v = s) (m n : Nat)
    (hcl : isClosure n chain s = false) (hno : noKidId s.id m s = true) :
    reach v m s = false := by
  cases m with
  | zero => rfl
  | succ m =>
    simp only [reach, List.any_eq_false]
    intro k hk
    obtain ⟨n', rfl⟩ := isClosure_false_succ hcl
    have hkc := (function_block_kids n' _ s hcl).2 k hk
    simp only [noKidId, List.all_eq_true, Bool.and_eq_true] at hno
    have hkid := hno k hk
    have hkne : k.id ≠ s.id := by simpa using hkid.1
    by_cases hkp : isParam k v = true
    · simp [hkp]
    · have hkp' : isParam k v = false := by simpa using hkp
      have hku := kid_not_user s chain v hs hb k [] n' (by simp) hkc hkne hkp'
      have := reach_false_desc s chain v hs hb m k [] n' (by simp) hku hkc hkid.2
      simp [hkp', hku, this]

/-- every name of a block run as a plain function is a private cell in the reference semantics -/
theorem plain_cells (chain : List Scope) (s : Scope) (h : cfAll chain s = true) :
    ∀ v ∈ namesD s, cellOf s chain v = .priv v := by
  intro v hv
  simp only [cfAll, idsOK, Bool.and_eq_true, Bool.not_eq_true', List.all_eq_true] at h
  obtain ⟨hcl, hch, hno⟩ := h
  have hid := function_block_binds_itself 15 chain s hcl v hv
  have hb : bindingGo chain s v = s := by
    rcases binding_lexical chain s v with h | ⟨h, _⟩
    · exact h
    · have := hch _ h
      simp [hid] at this
  have hs := namesD_usesD s v hv
  simp only [cellOf, hb]
  have hr : reach v reachFuel s = false :=
    reach_false_top s chain v hs hb reachFuel reachFuel hcl hno
  simp [hr]

end Gsu.LangBlocks
