/-
C12: `_lower!` index fields — byte order of `keyL` = `compareL`. Core-only.
-/
import Gsu.Proofs.Ixkey11
namespace Gsu.Ixkey
open Gsu.Proto

theorem cmpLower_eq (a b : Bytes) : cmpLower a b = cmpB (a.map toLowerB) (b.map toLowerB) := by
  induction a generalizing b with
  | nil => cases b <;> simp [cmpLower, cmpB]
  | cons x a ih =>
    cases b with
    | nil => simp [cmpLower, cmpB]
    | cons y b => simp only [cmpLower, List.map_cons, cmpB, ih]

theorem toLowerB_pack : toLowerB packString = packString := by decide

theorem packedToLower_eq_nil (a : Bytes) : packedToLower a = [] ↔ a = [] := by
  cases a with
  | nil => simp [packedToLower]
  | cons t r =>
    simp only [packedToLower]
    split <;> simp

theorem packedToLower_str (r : Bytes) :
    packedToLower (packString :: r) = packString :: r.map toLowerB := by
  simp [packedToLower, toLowerB_pack]

theorem packedToLower_other (t : UInt8) (r : Bytes) (h : t ≠ packString) :
    packedToLower (t :: r) = t :: r := by
  simp [packedToLower, h]

theorem cmpB_head_ne (x y : UInt8) (a b a' b' : Bytes) (h : x ≠ y) :
    cmpB (x :: a) (y :: b) = cmpB (x :: a') (y :: b') := by
  simp only [cmpB]
  by_cases h1 : x < y
  · simp [h1]
  · by_cases h2 : y < x
    · simp [h1, h2]
    · exfalso
      apply h
      have := UInt8.le_antisymm (UInt8.not_lt.mp h2) (UInt8.not_lt.mp h1)
      exact this

/-- comparing the case-folded values byte-wise is `PackedCmpLower` of the raw values -/
theorem cmpB_packedToLower (a b : Bytes) :
    cmpB (packedToLower a) (packedToLower b) = packedCmpLower a b := by
  cases a with
  | nil =>
    cases b with
    | nil => simp [packedToLower, packedCmpLower]
    | cons u s =>
      simp only [packedCmpLower, packedToLower]
      split <;> simp [cmpB]
  | cons t r =>
    cases b with
    | nil =>
      simp only [packedCmpLower, packedToLower]
      split <;> simp [cmpB]
    | cons u s =>
      simp only [packedCmpLower]
      by_cases ht : t = packString <;> by_cases hu : u = packString
      · subst ht; subst hu
        simp only [and_self, if_true, packedToLower_str, cmpLower_eq, List.map_cons, toLowerB_pack]
      · subst ht
        simp only [hu, and_false, if_false, packedToLower_str, packedToLower_other u s hu]
        exact cmpB_head_ne _ _ _ _ _ _ (fun h => hu h.symm)
      · subst hu
        simp only [ht, false_and, if_false, packedToLower_str, packedToLower_other t r ht]
        exact cmpB_head_ne _ _ _ _ _ _ ht
      · have : ¬ (t = packString ∧ u = packString) := fun h => ht h.1
        simp only [this, if_false, packedToLower_other t r ht, packedToLower_other u s hu]

theorem cmpFld_eq (f : Fld) (r1 r2 : List Bytes) : cmpFld f r1 r2 = cmpB (getL r1 f) (getL r2 f) := by
  unfold cmpFld getL
  cases f.lower
  · simp
  · simp [cmpB_packedToLower]

theorem cmpFlds_eq (fields : List Fld) (r1 r2 : List Bytes) :
    cmpFlds fields r1 r2 = cmpFields (fields.map (getL r1)) (fields.map (getL r2)) := by
  induction fields with
  | nil => simp [cmpFlds, cmpFields]
  | cons f fs ih => simp only [cmpFlds, List.map_cons, cmpFields, cmpFld_eq, ih]

theorem getL_eq_nil (r : List Bytes) (f : Fld) : getL r f = [] ↔ getRaw r f.idx = [] := by
  unfold getL
  cases f.lower
  · simp
  · simp [packedToLower_eq_nil]

theorem allE_getL (fields : List Fld) (r : List Bytes) :
    (fields.map fun f => getRaw r f.idx).all (· = []) = (fields.map (getL r)).all (· = []) := by
  induction fields with
  | nil => rfl
  | cons f fs ih =>
    simp only [List.map_cons, List.all_cons, ih]
    congr 1
    simp only [decide_eq_decide]
    exact (getL_eq_nil r f).symm

/-- value-level form of the key comparison (the body of `key_cmp_enc`) -/
theorem key_cmp_val {α : Type} (fields : List α) (fields2 : List Nat) (v1 v2 r1 r2 : List Bytes)
    (hf1 : fields.length = v1.length) (hf2 : fields.length = v2.length) :
    cmpB
      (if v1.all (· = []) then
        if fields2 = [] then [] else (fields.flatMap fun _ => sep) ++ joinEnc (fields2.map (getRaw r1))
       else joinEnc (trimEmpty v1))
      (if v2.all (· = []) then
        if fields2 = [] then [] else (fields.flatMap fun _ => sep) ++ joinEnc (fields2.map (getRaw r2))
       else joinEnc (trimEmpty v2)) =
    (match cmpFields v1 v2 with
     | .eq => if v1.all (· = []) && v2.all (· = []) then
         cmpFields (fields2.map (getRaw r1)) (fields2.map (getRaw r2)) else .eq
     | o => o) := by
  have hl : v1.length = v2.length := by omega
  have hl2 : (fields2.map (getRaw r1)).length = (fields2.map (getRaw r2)).length := by simp
  by_cases a1 : v1.all (· = []) = true <;> by_cases a2 : v2.all (· = []) = true
  · simp only [a1, a2, if_true, cmpFields_allE_eq v1 v2 a1 a2, Bool.and_self]
    by_cases h2 : fields2 = []
    · subst h2; simp [cmpB, cmpFields]
    · simp only [h2, if_false]
      rw [cmpB_refl_append, cmpB_joinEnc _ _ hl2]
  · have t2 : trimEmpty v2 ≠ [] := fun h => a2 ((trimEmpty_eq_nil v2).mp h)
    simp only [a1, a2, if_true, cmpFields_allE_lt v1 v2 hl a1 a2]
    by_cases h2 : fields2 = []
    · simp [h2, cmpB_nil_left, joinEnc_trim_ne_nil t2]
    · simp only [h2, if_false]
      exact cmpB_seps_lt fields v2 hf2 t2 _
  · have t1 : trimEmpty v1 ≠ [] := fun h => a1 ((trimEmpty_eq_nil v1).mp h)
    simp only [a1, a2, if_true, cmpFields_allE_gt v1 v2 hl a1 a2]
    by_cases h2 : fields2 = []
    · simp [h2, cmpB_nil_right, joinEnc_trim_ne_nil t1]
    · simp only [h2, if_false]
      exact cmpB_seps_gt fields v1 hf1 t1 _
  · simp only [a1, a2, Bool.false_eq_true, if_false, Bool.and_self]
    rw [cmpB_joinTrim v1 v2 hl]
    cases cmpFields v1 v2 <;> simp

/-- byte order of keys with `_lower!` fields = `Spec.Compare` -/
theorem key_cmp_lower (fields : List Fld) (fields2 : List Nat) (r1 r2 : List Bytes)
    (h : fields ≠ [] ∨ fields2 = []) :
    cmpB (keyL fields fields2 r1) (keyL fields fields2 r2) = compareL fields fields2 r1 r2 := by
  unfold compareL
  rw [cmpFlds_eq, allE_getL, allE_getL]
  cases fields with
  | nil =>
    have h2 : fields2 = [] := by rcases h with h | h; exact absurd rfl h; exact h
    subst h2; simp [keyL, cmpFields, cmpB]
  | cons f0 fs =>
    by_cases he : encodes ((f0 :: fs).map (·.idx)) fields2 = true
    · simp only [keyL, he, Bool.not_true, Bool.false_eq_true, if_false, allE_getL]
      exact key_cmp_val (f0 :: fs) fields2 _ _ r1 r2 (by simp) (by simp)
    · have hfs : fs = [] := by
        cases fs with
        | nil => rfl
        | cons _ _ => simp [encodes] at he
      have h2 : fields2 = [] := by
        cases fields2 with
        | nil => rfl
        | cons _ _ => simp [encodes] at he
      subst hfs; subst h2
      have he' : encodes [f0.idx] [] = false := rfl
      simp only [keyL, List.map_cons, List.map_nil, he', Bool.not_false, if_true, cmpFields]
      cases cmpB (getL r1 f0) (getL r2 f0) <;> simp

/-- without `_lower!` fields `keyL` / `compareL` are `key` / `compare` -/
theorem keyL_plain (fields fields2 : List Nat) (rec : List Bytes) :
    keyL (fields.map fun i => ⟨i, false⟩) fields2 rec = key fields fields2 rec := by
  cases fields with
  | nil => rfl
  | cons f0 fs =>
    have hseps : ∀ l : List Nat, (l.map fun i => (⟨i, false⟩ : Fld)).flatMap (fun _ => sep) =
        l.flatMap (fun _ => sep) := by
      intro l; induction l with
      | nil => rfl
      | cons a l ih => simp only [List.map_cons, List.flatMap_cons, ih]
    have h := hseps (f0 :: fs)
    simp only [List.map_cons] at h
    simp only [keyL, key, List.map_cons, List.map_map, getL, Function.comp_def, h]
    simp

end Gsu.Ixkey
