import Gsu.Model.Dup
namespace Gsu.Dup
open Gsu.Ck

theorem dup_ok_reads (upd : Bool) : ∀ (xs : List IxIn) (i : Nat), (dupChecks upd i xs).2 = true →
    ∀ j x, xs[j]? = some x → checked upd x = true →
      (i + j, readKey upd x, readKey upd x) ∈ (dupChecks upd i xs).1 ∧ x.present = false
  | [], _, _, j, x, h, _ => by simp at h
  | y :: r, i, hok, j, x, hj, hc => by
    simp only [dupChecks] at hok ⊢
    cases j with
    | zero =>
      simp at hj; subst hj
      simp only [hc, if_true] at hok ⊢
      cases hp : y.present
      · simp
      · simp [hp] at hok
    | succ j =>
      simp at hj
      by_cases c : checked upd y = true
      · simp only [c, if_true] at hok ⊢
        cases hp : y.present
        · simp only [hp] at hok ⊢
          have := dup_ok_reads upd r (i + 1) (by simpa using hok) j x hj hc
          refine ⟨?_, this.2⟩
          simp only [Bool.false_eq_true, if_false]
          exact List.mem_cons_of_mem _ (by have := this.1; rwa [Nat.add_assoc, Nat.add_comm 1 j] at this)
        · simp [hp] at hok
      · simp only [c] at hok ⊢
        have := dup_ok_reads upd r (i + 1) hok j x hj hc
        exact ⟨by have := this.1; rwa [Nat.add_assoc, Nat.add_comm 1 j] at this, this.2⟩

theorem dup_err_read (upd : Bool) : ∀ (xs : List IxIn) (i : Nat), (dupChecks upd i xs).2 = false →
    ∃ j x, xs[j]? = some x ∧ checked upd x = true ∧ x.present = true ∧
      (i + j, readKey upd x, readKey upd x) ∈ (dupChecks upd i xs).1
  | [], _, h => by simp [dupChecks] at h
  | y :: r, i, h => by
    simp only [dupChecks] at h ⊢
    by_cases c : checked upd y = true
    · simp only [c, if_true] at h ⊢
      cases hp : y.present
      · simp only [hp, Bool.false_eq_true, if_false] at h ⊢
        obtain ⟨j, x, h1, h2, h3, h4⟩ := dup_err_read upd r (i + 1) h
        exact ⟨j + 1, x, by simpa using h1, h2, h3,
          List.mem_cons_of_mem _ (by rwa [Nat.add_assoc, Nat.add_comm 1 j] at h4)⟩
      · exact ⟨0, y, rfl, c, hp, by simp⟩
    · simp only [c] at h ⊢
      obtain ⟨j, x, h1, h2, h3, h4⟩ := dup_err_read upd r (i + 1) h
      exact ⟨j + 1, x, by simpa using h1, h2, h3, by rwa [Nat.add_assoc, Nat.add_comm 1 j] at h4⟩

end Gsu.Dup
