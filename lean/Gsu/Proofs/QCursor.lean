import Gsu.Model.QCursor
import Gsu.Proofs.Qry
namespace Gsu.QCursor
open Gsu.Proto Gsu.QVal Gsu.QExpr Gsu.Qry

theorem run_eof (n : Nat) : ∀ ops : List (Option Bool), (∀ o, o ∈ ops → o ≠ none) →
    ∀ x, x ∈ run n .eof ops → x = none
  | [], _, x, hx => by cases hx
  | none :: ops, h, _, _ => absurd rfl (h none (List.mem_cons_self ..))
  | some d :: ops, h, x, hx => by
    simp only [run, get, List.mem_cons] at hx
    rcases hx with hx | hx
    · exact hx
    · exact run_eof n ops (fun o ho => h o (List.mem_cons_of_mem _ ho)) x hx

/-- forward from position `i`: the rows after `i`, in order -/
theorem drain_next_at (n : Nat) : ∀ (k i fuel : Nat), i + 1 + k = n → k ≤ fuel →
    drain n true fuel (.at i) = List.range' (i + 1) k
  | 0, i, fuel, h, _ => by
    cases fuel with
    | zero => rfl
    | succ f =>
      have : ¬ i + 1 < n := by omega
      simp only [drain, get, if_true, if_neg this, List.range'_zero]
  | k + 1, i, fuel, h, hf => by
    cases fuel with
    | zero => omega
    | succ f =>
      have : i + 1 < n := by omega
      simp only [drain, get, if_true, if_pos this, List.range'_succ]
      rw [drain_next_at n k (i + 1) f (by omega) (by omega)]

theorem drain_succ (n : Nat) (next : Bool) (fuel : Nat) (p : Pos) :
    drain n next (fuel + 1) p =
      match get n p next with
      | (p', some i) => i :: drain n next fuel p'
      | (_, none) => [] := rfl

theorem drain_next_rewound (n : Nat) : drain n true (n + 1) .rewound = List.range n := by
  cases n with
  | zero => rfl
  | succ m =>
    rw [drain_succ]
    simp only [get, Nat.succ_ne_zero, if_false, if_true]
    rw [drain_next_at (m + 1) m 0 (m + 1) (by omega) (by omega), List.range_eq_range',
      List.range'_succ]

/-- backward from position `i`: the rows before `i`, last first -/
theorem drain_prev_at (n : Nat) : ∀ (i fuel : Nat), i ≤ fuel →
    drain n false fuel (.at i) = (List.range i).reverse
  | 0, fuel, _ => by
    cases fuel with
    | zero => rfl
    | succ f => simp [drain, get]
  | i + 1, fuel, hf => by
    cases fuel with
    | zero => omega
    | succ f =>
      simp only [drain, get, Bool.false_eq_true, if_false, Nat.succ_ne_zero, Nat.add_sub_cancel]
      rw [drain_prev_at n i f (by omega), List.range_succ, List.reverse_append]
      rfl

theorem drain_prev_rewound (n : Nat) : drain n false (n + 1) .rewound = (List.range n).reverse := by
  cases n with
  | zero => rfl
  | succ m =>
    rw [drain_succ]
    simp only [get, Nat.succ_ne_zero, if_false, Bool.false_eq_true, Nat.add_sub_cancel]
    rw [drain_prev_at (m + 1) m (m + 1) (by omega), List.range_succ, List.reverse_append]
    rfl

theorem mem_select (rows : List Row) (sels : List (Col × Val)) (r : Row) :
    r ∈ select rows sels ↔ r ∈ rows ∧ ∀ s, s ∈ sels → QExpr.get r s.1 = s.2 := by
  simp only [select, List.mem_filter, matchesSel, List.all_eq_true, beq_iff_eq]

theorem lookup_some (rows : List Row) (sels : List (Col × Val)) (r : Row)
    (h : lookup rows sels = some r) : r ∈ rows ∧ ∀ s, s ∈ sels → QExpr.get r s.1 = s.2 := by
  have h1 := List.find?_some h
  have h2 := List.mem_of_find?_eq_some h
  exact ⟨h2, by simpa only [matchesSel, List.all_eq_true, beq_iff_eq] using h1⟩

theorem lookup_none (rows : List Row) (sels : List (Col × Val)) (h : lookup rows sels = none) :
    ∀ r, r ∈ rows → ¬ ∀ s, s ∈ sels → QExpr.get r s.1 = s.2 := by
  intro r hr hall
  have := List.find?_eq_none.1 h r hr
  apply this
  simpa only [matchesSel, List.all_eq_true, beq_iff_eq] using hall

/-- a lookup on (a superset of) a key finds the only matching row -/
theorem lookup_unique (rows : List Row) (key : List Col) (sels : List (Col × Val))
    (hk : IsKey key rows) (hs : ∀ c, c ∈ key → ∃ v, (c, v) ∈ sels) (r r' : Row)
    (h : lookup rows sels = some r) (hr' : r' ∈ rows)
    (hm : ∀ s, s ∈ sels → QExpr.get r' s.1 = s.2) : r' = r := by
  obtain ⟨hr, hmr⟩ := lookup_some rows sels r h
  apply hk r' hr' r hr
  simp only [eqOn, List.all_eq_true, beq_iff_eq]
  intro c hc
  obtain ⟨v, hv⟩ := hs c hc
  rw [hm (c, v) hv, hmr (c, v) hv]

/-! ### keys and fixed values through the operators -/

theorem key_where (db : Db) (q : Query) (e : Expr) (cs : List Col) (h : IsKey cs (evalQ db q)) :
    IsKey cs (evalQ db (.where_ q e)) := by
  intro r1 h1 r2 h2 heq
  exact h r1 ((mem_where db q e r1).1 h1).1 r2 ((mem_where db q e r2).1 h2).1 heq

theorem key_minus (db : Db) (a b : Query) (cs : List Col) (h : IsKey cs (evalQ db a)) :
    IsKey cs (evalQ db (.minus a b)) := by
  intro r1 h1 r2 h2 heq
  simp only [evalQ, List.mem_filter] at h1 h2
  exact h r1 h1.1 r2 h2.1 heq

/-- the `by` columns are a key of a (grouping) summarize -/
theorem key_summarize (db : Db) (q : Query) (by_ : List Col) (aggs : List (Col × Agg × Col)) :
    IsKey by_ (evalQ db (.summarize q false by_ aggs)) := by
  intro g1 h1 g2 h2 heq
  simp only [evalQ, Bool.false_eq_true, if_false] at h1 h2
  obtain ⟨r1, hr1, hg1⟩ := (mem_groupRows by_ aggs _ g1).1 h1
  obtain ⟨r2, hr2, hg2⟩ := (mem_groupRows by_ aggs _ g2).1 h2
  obtain ⟨rest1, e1⟩ := grp_shape hg1
  obtain ⟨rest2, e2⟩ := grp_shape hg2
  have hk : keyOf by_ r1 = keyOf by_ r2 := by
    simp only [keyOf]
    apply List.map_congr_left
    intro c hc
    have := (List.all_eq_true.1 heq) c hc
    simp only [beq_iff_eq] at this
    rw [e1, e2, get_restrict_append r1 rest1 c by_ hc, get_restrict_append r2 rest2 c by_ hc] at this
    exact this
  rw [hk] at hg1
  rw [hg1] at hg2
  exact Option.some.inj hg2

/-- a restriction `c is v` fixes `c` -/
theorem fixed_where_is (db : Db) (q : Query) (c : Col) (v : Val) :
    FixedIn c [v] (evalQ db (.where_ q (.cmp .is (.col c) (.const v)))) := by
  intro r hr
  have := ((mem_where db q _ r).1 hr).2
  simp only [eval, cmpVal, isTrue_bool, beq_iff_eq] at this
  simp [this]

theorem fixed_where_in (db : Db) (q : Query) (c : Col) (vs : List Val) :
    FixedIn c vs (evalQ db (.where_ q (.inl (.col c) vs))) := by
  intro r hr
  have := ((mem_where db q _ r).1 hr).2
  simp only [eval, isTrue_bool, List.contains_iff_mem] at this
  exact this

theorem fixed_where_mono (db : Db) (q : Query) (e : Expr) (c : Col) (vs : List Val)
    (h : FixedIn c vs (evalQ db q)) : FixedIn c vs (evalQ db (.where_ q e)) :=
  fun r hr => h r ((mem_where db q e r).1 hr).1

/-! ### sort -/

theorem mem_insertSorted (le : Row → Row → Bool) (x y : Row) :
    ∀ l : List Row, y ∈ insertSorted le x l ↔ y = x ∨ y ∈ l
  | [] => by simp [insertSorted]
  | z :: l => by
    simp only [insertSorted]
    split
    · simp only [List.mem_cons]
    · simp only [List.mem_cons, mem_insertSorted le x y l]
      constructor
      · rintro (h | h | h)
        · exact Or.inr (Or.inl h)
        · exact Or.inl h
        · exact Or.inr (Or.inr h)
      · rintro (h | h | h)
        · exact Or.inr (Or.inl h)
        · exact Or.inl h
        · exact Or.inr (Or.inr h)

theorem mem_sortRows (le : Row → Row → Bool) (y : Row) : ∀ l : List Row, y ∈ sortRows le l ↔ y ∈ l
  | [] => Iff.rfl
  | x :: l => by
    simp only [sortRows, mem_insertSorted, mem_sortRows le y l, List.mem_cons]

theorem length_insertSorted (le : Row → Row → Bool) (x : Row) :
    ∀ l : List Row, (insertSorted le x l).length = l.length + 1
  | [] => rfl
  | z :: l => by
    simp only [insertSorted]
    split
    · rfl
    · simp only [List.length_cons, length_insertSorted le x l]

theorem length_sortRows (le : Row → Row → Bool) : ∀ l : List Row, (sortRows le l).length = l.length
  | [] => rfl
  | x :: l => by simp only [sortRows, length_insertSorted, length_sortRows le l, List.length_cons]

/-- insertion into a sorted list keeps it sorted, for a total and transitive `le` -/
theorem sorted_insert (le : Row → Row → Bool)
    (total : ∀ a b, le a b = true ∨ le b a = true)
    (trans : ∀ a b c, le a b = true → le b c = true → le a c = true) (x : Row) :
    ∀ l : List Row, Sorted le l → Sorted le (insertSorted le x l)
  | [], _ => ⟨fun _ h => (by cases h), trivial⟩
  | z :: l, hs => by
    simp only [insertSorted]
    split
    · rename_i hxz
      refine ⟨fun y hy => ?_, hs⟩
      rcases List.mem_cons.1 hy with rfl | hy
      · exact hxz
      · exact trans _ _ _ hxz (hs.1 y hy)
    · rename_i hxz
      have hzx : le z x = true := by
        rcases total x z with h | h
        · exact absurd h hxz
        · exact h
      refine ⟨fun y hy => ?_, sorted_insert le total trans x l hs.2⟩
      rcases (mem_insertSorted le x y l).1 hy with rfl | hy
      · exact hzx
      · exact hs.1 y hy

theorem sorted_sortRows (le : Row → Row → Bool)
    (total : ∀ a b, le a b = true ∨ le b a = true)
    (trans : ∀ a b c, le a b = true → le b c = true → le a c = true) :
    ∀ l : List Row, Sorted le (sortRows le l)
  | [] => trivial
  | x :: l => sorted_insert le total trans x _ (sorted_sortRows le total trans l)

/-! ### the order `sort` establishes -/

theorem cmpB_eq_iff : ∀ a b : Bytes, cmpB a b = .eq ↔ a = b
  | [], [] => by simp [cmpB]
  | [], _ :: _ => by simp [cmpB]
  | _ :: _, [] => by simp [cmpB]
  | x :: a, y :: b => by
    simp only [cmpB]
    split
    · rename_i h; simp; intro e; subst e; exact absurd h (UInt8.lt_irrefl _)
    · split
      · rename_i h; simp; intro e; subst e; exact absurd h (UInt8.lt_irrefl _)
      · rename_i h1 h2
        have : x = y := UInt8.le_antisymm (UInt8.not_lt.1 h2) (UInt8.not_lt.1 h1)
        subst this
        simp [cmpB_eq_iff a b]

theorem cmpB_swap : ∀ a b : Bytes, cmpB b a = (cmpB a b).swap
  | [], [] => rfl
  | [], _ :: _ => rfl
  | _ :: _, [] => rfl
  | x :: a, y :: b => by
    simp only [cmpB]
    by_cases h1 : x < y
    · have h2 : ¬ y < x := fun h => absurd (UInt8.lt_trans h1 h) (UInt8.lt_irrefl _)
      simp [h1, h2]
    · by_cases h2 : y < x
      · simp [h1, h2]
      · simp [h1, h2, cmpB_swap a b]

/-- `cmpB a b ≠ gt` is transitive -/
theorem cmpB_trans : ∀ a b c : Bytes, cmpB a b ≠ .gt → cmpB b c ≠ .gt → cmpB a c ≠ .gt
  | [], _, [], _, _ => by simp [cmpB]
  | [], _, _ :: _, _, _ => by simp [cmpB]
  | _ :: _, [], _, h, _ => by simp [cmpB] at h
  | _ :: _, _ :: _, [], _, h => by simp [cmpB] at h
  | x :: a, y :: b, z :: c, h1, h2 => by
    simp only [cmpB] at h1 h2 ⊢
    by_cases hxy : x < y
    · by_cases hyz : y < z
      · simp [UInt8.lt_trans hxy hyz]
      · by_cases hzy : z < y
        · simp [hyz, hzy] at h2
        · have : y = z := UInt8.le_antisymm (UInt8.not_lt.1 hzy) (UInt8.not_lt.1 hyz)
          subst this; simp [hxy]
    · by_cases hyx : y < x
      · simp [hxy, hyx] at h1
      · have : x = y := UInt8.le_antisymm (UInt8.not_lt.1 hyx) (UInt8.not_lt.1 hxy)
        subst this
        by_cases hyz : x < z
        · simp [hyz]
        · by_cases hzy : z < x
          · simp [hyz, hzy] at h2
          · simp only [hxy, if_false] at h1
            simp only [hyz, hzy, if_false] at h2 ⊢
            exact cmpB_trans a b c h1 h2

theorem rowCmp_swap (x y : Row) : ∀ cs : List Col, rowCmp cs y x = (rowCmp cs x y).swap
  | [] => rfl
  | c :: cs => by
    simp only [rowCmp, rawCmp]
    rw [cmpB_swap (pack (QExpr.get x c)) (pack (QExpr.get y c))]
    cases h : cmpB (pack (QExpr.get x c)) (pack (QExpr.get y c)) with
    | eq => simp only [Ordering.swap]; exact rowCmp_swap x y cs
    | lt => rfl
    | gt => rfl

theorem rowCmp_trans (x y z : Row) : ∀ cs : List Col,
    rowCmp cs x y ≠ .gt → rowCmp cs y z ≠ .gt → rowCmp cs x z ≠ .gt
  | [], _, _ => by simp [rowCmp]
  | c :: cs, h1, h2 => by
    simp only [rowCmp, rawCmp] at h1 h2 ⊢
    cases hxy : cmpB (pack (QExpr.get x c)) (pack (QExpr.get y c)) with
    | gt => rw [hxy] at h1; exact absurd rfl h1
    | eq =>
      rw [hxy] at h1
      rw [(cmpB_eq_iff _ _).1 hxy]
      cases hyz : cmpB (pack (QExpr.get y c)) (pack (QExpr.get z c)) with
      | gt => rw [hyz] at h2; exact absurd rfl h2
      | lt => simp
      | eq => rw [hyz] at h2; exact rowCmp_trans x y z cs h1 h2
    | lt =>
      cases hyz : cmpB (pack (QExpr.get y c)) (pack (QExpr.get z c)) with
      | gt => rw [hyz] at h2; exact absurd rfl h2
      | eq => rw [← (cmpB_eq_iff _ _).1 hyz, hxy]; simp
      | lt =>
        have hne : cmpB (pack (QExpr.get x c)) (pack (QExpr.get z c)) ≠ .gt :=
          cmpB_trans _ _ _ (by rw [hxy]; simp) (by rw [hyz]; simp)
        cases hxz : cmpB (pack (QExpr.get x c)) (pack (QExpr.get z c)) with
        | gt => exact absurd hxz hne
        | lt => simp
        | eq =>
          have e := (cmpB_eq_iff _ _).1 hxz
          rw [e, cmpB_swap, hyz] at hxy
          cases hxy

/-- the comparison `sort` uses (forwards or reversed) -/
def sortLe (rev : Bool) (cs : List Col) (x y : Row) : Bool :=
  if rev then rowCmp cs x y != .lt else rowCmp cs x y != .gt

theorem sortLe_total (rev : Bool) (cs : List Col) (a b : Row) :
    sortLe rev cs a b = true ∨ sortLe rev cs b a = true := by
  have hs := rowCmp_swap a b cs
  cases rev <;> simp only [sortLe, Bool.false_eq_true, if_false, if_true] <;> rw [hs] <;>
    cases rowCmp cs a b <;> simp [Ordering.swap]

theorem sortLe_trans (rev : Bool) (cs : List Col) (a b c : Row)
    (h1 : sortLe rev cs a b = true) (h2 : sortLe rev cs b c = true) : sortLe rev cs a c = true := by
  cases rev with
  | false =>
    simp only [sortLe, Bool.false_eq_true, if_false, bne_iff_ne] at h1 h2 ⊢
    exact rowCmp_trans a b c cs h1 h2
  | true =>
    simp only [sortLe, if_true, bne_iff_ne] at h1 h2 ⊢
    have s1 := rowCmp_swap a b cs
    have s2 := rowCmp_swap b c cs
    have s3 := rowCmp_swap a c cs
    have t := rowCmp_trans c b a cs
      (by rw [s2]; cases h : rowCmp cs b c <;> simp_all [Ordering.swap])
      (by rw [s1]; cases h : rowCmp cs a b <;> simp_all [Ordering.swap])
    rw [s3] at t
    cases h : rowCmp cs a c <;> simp_all [Ordering.swap]

/-- `sort` returns its rows in the requested order -/
theorem sorted_sort (db : Db) (q : Query) (rev : Bool) (cs : List Col) :
    Sorted (sortLe rev cs) (evalQ db (.sort q rev cs)) := by
  have : evalQ db (.sort q rev cs) = sortRows (sortLe rev cs) (evalQ db q) := by
    simp only [evalQ]; rfl
  rw [this]
  exact sorted_sortRows _ (sortLe_total rev cs) (sortLe_trans rev cs) _

end Gsu.QCursor
