/-
C11, goal `mergeChunks_flat`, part 2: the loop of `merge.merge` (minimum selection, `passthru`,
`outputSlot`, `outputChunk`, `flushbuf`, advancing / removing inputs) against the flat fold.
Core Lean only.
-/
import Gsu.Proofs.IxbufMerge
namespace Gsu.Ixbuf
open Gsu.Proto

/-! ## minimum selection -/

theorem minFrom_spec (l : List Bytes) : ∀ (pre : List Bytes) (key : Bytes) (mid : List Bytes),
    (∀ x ∈ pre, key < x) → (∀ x ∈ mid, ¬ x < key) →
    ∃ pre' k' post', pre ++ key :: mid ++ l = pre' ++ k' :: post' ∧
      minFrom pre.length key (pre.length + 1 + mid.length) l = pre'.length ∧
      (∀ x ∈ pre', k' < x) ∧ (∀ x ∈ post', ¬ x < k') := by
  induction l with
  | nil =>
    intro pre key mid h1 h2
    exact ⟨pre, key, mid, by simp, rfl, h1, h2⟩
  | cons k2 r ih =>
    intro pre key mid h1 h2
    simp only [minFrom]
    split
    · rename_i hlt
      have := ih (pre ++ key :: mid) k2 [] (by
        intro x hx
        rcases List.mem_append.1 hx with hx | hx
        · have := h1 x hx; grind
        · rcases List.mem_cons.1 hx with rfl | hx
          · exact hlt
          · have := h2 x hx; grind) (by simp)
      obtain ⟨pre', k', post', e1, e2, h3, h4⟩ := this
      refine ⟨pre', k', post', ?_, ?_, h3, h4⟩
      · rw [← e1]; simp
      · rw [← e2]; simp only [List.length_append, List.length_cons, List.length_nil]; congr 1 <;> omega
    · rename_i hlt
      have := ih pre key (mid ++ [k2]) h1 (by
        intro x hx
        rcases List.mem_append.1 hx with hx | hx
        · exact h2 x hx
        · simp only [List.mem_singleton] at hx; subst hx; exact hlt)
      obtain ⟨pre', k', post', e1, e2, h3, h4⟩ := this
      refine ⟨pre', k', post', ?_, ?_, h3, h4⟩
      · rw [← e1]; simp
      · rw [← e2]; simp only [List.length_append, List.length_cons, List.length_nil]; congr 1 <;> omega

theorem minIdx_spec (ks : List Bytes) (h : ks ≠ []) :
    ∃ pre k post, ks = pre ++ k :: post ∧ minIdx ks = pre.length ∧
      (∀ x ∈ pre, k < x) ∧ (∀ x ∈ post, ¬ x < k) := by
  cases ks with
  | nil => exact absurd rfl h
  | cons k r =>
    obtain ⟨pre', k', post', e1, e2, h3, h4⟩ := minFrom_spec r [] k [] (by simp) (by simp)
    exact ⟨pre', k', post', by simpa using e1, by simpa [minIdx] using e2, h3, h4⟩

/-! ## the abstract view of a merge state -/

/-- what is left of one input: rest of its current chunk, then its remaining chunks -/
def rem (p : Chunk × List Chunk) : Layer := p.1 ++ p.2.flatten
abbrev rems (ins : List (Chunk × List Chunk)) : List Layer := ins.map rem
/-- what has been produced: the output chunks, then the buffer -/
def doneOf (st : MS) : Layer := st.out.flatten ++ st.buf
/-- the flat meaning of a state: fold the remaining inputs into what has been produced -/
def Spec (st : MS) : Option Layer := F (doneOf st) (rems st.ins)

/-- every slot of `L` is strictly below every remaining key -/
def AB (L : Layer) (R : List Layer) : Prop := ∀ x ∈ L, ∀ l ∈ R, ∀ y ∈ l, x.1 < y.1
/-- no remaining key is below `k` -/
def KeysGE (k : Bytes) (R : List Layer) : Prop := ∀ l ∈ R, ∀ y ∈ l, ¬ y.1 < k

/-- the produced part is below the remaining keys; only the last buffered slot may be equal -/
def Below (out : List Chunk) (buf : Chunk) (R : List Layer) : Prop :=
  AB (out.flatten ++ buf.dropLast) R ∧ ∀ x ∈ buf.getLast?, KeysGE x.1 R

def InsOK (ins : List (Chunk × List Chunk)) : Prop :=
  ∀ p ∈ ins, p.1 ≠ [] ∧ (∀ c ∈ p.2, c ≠ []) ∧ Sorted (rem p)

def slots (ins : List (Chunk × List Chunk)) : Nat := (rems ins).flatten.length

theorem AB_mono {L : Layer} {R R' : List Layer} (h : AB L R)
    (hs : ∀ l ∈ R', ∀ y ∈ l, ∃ l0 ∈ R, y ∈ l0) : AB L R' := by
  intro x hx l hl y hy
  obtain ⟨l0, h0, hy0⟩ := hs l hl y hy
  exact h x hx l0 h0 y hy0

theorem below_of_AB {out : List Chunk} {buf : Chunk} {R : List Layer}
    (h : AB (out.flatten ++ buf) R) : Below out buf R := by
  refine ⟨?_, ?_⟩
  · intro x hx
    apply h x
    rcases List.mem_append.1 hx with hx | hx
    · exact List.mem_append_left _ hx
    · exact List.mem_append_right _ (List.dropLast_subset _ hx)
  · intro x hx l hl y hy
    have hm : x ∈ buf := by
      obtain ⟨ys, e⟩ := List.getLast?_eq_some_iff.1 (Option.mem_def.1 hx)
      rw [e]; simp
    have := h x (List.mem_append_right _ hm) l hl y hy
    grind

theorem flushbuf_done (st : MS) : doneOf (flushbuf st) = doneOf st := by
  unfold flushbuf
  split
  · rfl
  · simp [doneOf]

theorem flushbuf_buf (st : MS) : (flushbuf st).buf = [] := by
  unfold flushbuf
  split
  · rename_i h; simpa using h
  · rfl

theorem flushbuf_pass (st : MS) : (flushbuf st).pass = st.pass := by
  unfold flushbuf; split <;> rfl

theorem pushSlot_done (g : Nat) (st : MS) (s : Slot) : doneOf (pushSlot g st s) = doneOf st ++ [s] := by
  unfold pushSlot
  split
  · simp only [doneOf, ← List.append_assoc]
    congr 1
    exact flushbuf_done st
  · simp [doneOf]

theorem pushSlot_ins (g : Nat) (st : MS) (s : Slot) : (pushSlot g st s).ins = st.ins := by
  unfold pushSlot; split
  · exact flushbuf_ins st
  · rfl

theorem pushSlot_pass (g : Nat) (st : MS) (s : Slot) : (pushSlot g st s).pass = st.pass := by
  unfold pushSlot; split
  · exact flushbuf_pass st
  · rfl

theorem pushSlot_below (g : Nat) (st : MS) (s : Slot) (R : List Layer)
    (h1 : AB (doneOf st) R) (h2 : KeysGE s.1 R) :
    Below (pushSlot g st s).out (pushSlot g st s).buf R := by
  have key : ∀ (st1 : MS), doneOf st1 = doneOf st →
      Below st1.out (st1.buf ++ [s]) R := by
    intro st1 e
    refine ⟨?_, ?_⟩
    · rw [List.dropLast_concat]
      have : st1.out.flatten ++ st1.buf = doneOf st := e
      rw [this]; exact h1
    · intro x hx
      rw [List.getLast?_concat] at hx
      cases hx; exact h2
  unfold pushSlot
  split
  · exact key (flushbuf st) (flushbuf_done st)
  · exact key st rfl

/-- `outputSlot` of a slot with the minimal remaining key `k`: what has been produced is
`D ++ [k ↦ e]` with `D` below `k`; the result is one `mergeStep` on `e`. -/
theorem outputSlot_spec (g : Nat) (st : MS) (k : Bytes) (c : Chg) (R : List Layer)
    (hB : Below st.out st.buf R) (hk : ∃ l ∈ R, ∃ y ∈ l, y.1 = k) :
    ∃ D e, doneOf st = D ++ eL k e ∧ (∀ x ∈ D, x.1 < k) ∧
      (mergeStep e c = none → outputSlot g st (k, c) = none) ∧
      (∀ m, mergeStep e c = some m → ∃ st1, outputSlot g st (k, c) = some st1 ∧
        doneOf st1 = D ++ eL k m ∧ st1.ins = st.ins ∧ st1.pass = st.pass ∧
        ∀ R', (∀ l ∈ R', ∀ y ∈ l, ∃ l0 ∈ R, y ∈ l0) → KeysGE k R' → Below st1.out st1.buf R') := by
  obtain ⟨lk, hlk, yk, hyk, rfl⟩ := hk
  -- the non-combining case
  have push : (∀ x ∈ doneOf st, x.1 < yk.1) → outputSlot g st (yk.1, c) = some (pushSlot g st (yk.1, c)) →
      ∃ D e, doneOf st = D ++ eL yk.1 e ∧ (∀ x ∈ D, x.1 < yk.1) ∧
      (mergeStep e c = none → outputSlot g st (yk.1, c) = none) ∧
      (∀ m, mergeStep e c = some m → ∃ st1, outputSlot g st (yk.1, c) = some st1 ∧
        doneOf st1 = D ++ eL yk.1 m ∧ st1.ins = st.ins ∧ st1.pass = st.pass ∧
        ∀ R', (∀ l ∈ R', ∀ y ∈ l, ∃ l0 ∈ R, y ∈ l0) → KeysGE yk.1 R' → Below st1.out st1.buf R') := by
    intro hD ho
    refine ⟨doneOf st, none, by simp [eL], hD, by simp [mergeStep], ?_⟩
    intro m hm
    simp only [mergeStep, Option.some.injEq] at hm
    subst hm
    refine ⟨_, ho, by simp [pushSlot_done, eL], pushSlot_ins .., pushSlot_pass .., ?_⟩
    intro R' hsub hge
    refine pushSlot_below g st _ R' ?_ hge
    intro x hx l hl y hy
    have h1 := hD x hx
    have h2 := hge l hl y hy
    grind
  rcases List.eq_nil_or_concat st.buf with hb | ⟨bd, s1, hb⟩
  · -- empty buffer
    apply push
    · intro x hx
      simp only [doneOf, hb, List.append_nil] at hx
      exact hB.1 x (by simp [hb, hx]) lk hlk yk hyk
    · simp [outputSlot, hb]
  · rw [List.concat_eq_append] at hb
    by_cases hkey : yk.1 = s1.1
    · -- combine with the last buffered slot
      have hdone : doneOf st = (st.out.flatten ++ bd) ++ eL yk.1 (some s1.2) := by
        simp [doneOf, hb, eL, hkey]
      have hDlt : ∀ x ∈ st.out.flatten ++ bd, x.1 < yk.1 := by
        intro x hx
        exact hB.1 x (by rw [hb, List.dropLast_concat]; exact hx) lk hlk yk hyk
      refine ⟨st.out.flatten ++ bd, some s1.2, hdone, hDlt, ?_, ?_⟩
      · intro hm
        simp only [mergeStep] at hm
        simp [outputSlot, hb, hkey, hm]
      · intro m hm
        simp only [mergeStep] at hm
        cases m with
        | none =>
          refine ⟨{ st with buf := bd }, by simp [outputSlot, hb, hkey, hm], by simp [doneOf, eL], rfl, rfl, ?_⟩
          intro R' hsub _
          apply below_of_AB
          have := AB_mono hB.1 hsub
          rw [hb, List.dropLast_concat] at this
          exact this
        | some c' =>
          refine ⟨{ st with buf := bd ++ [(s1.1, c')] }, by simp [outputSlot, hb, hkey, hm],
            by simp [doneOf, eL, hkey], rfl, rfl, ?_⟩
          intro R' hsub hge
          refine ⟨?_, ?_⟩
          · have := AB_mono hB.1 hsub
            rw [hb, List.dropLast_concat] at this
            simpa [List.dropLast_concat] using this
          · intro x hx
            simp only [List.getLast?_concat, Option.mem_def, Option.some.injEq] at hx
            subst hx
            simpa [hkey] using hge
    · -- different key: push
      apply push
      · intro x hx
        simp only [doneOf, hb, ← List.append_assoc] at hx
        rcases List.mem_append.1 hx with hx | hx
        · exact hB.1 x (by rw [hb, List.dropLast_concat]; exact hx) lk hlk yk hyk
        · simp only [List.mem_singleton] at hx
          subst hx
          have := hB.2 x (by simp [hb]) lk hlk yk hyk
          grind
      · simp [outputSlot, hb, hkey]

theorem outputChunk_done (g : Nat) (st : MS) (c : Chunk) : doneOf (outputChunk g st c) = doneOf st ++ c := by
  unfold outputChunk
  split
  · have := flushbuf_done st
    simp only [doneOf, flushbuf_buf, List.append_nil] at this ⊢
    simp [this]
  · simp [doneOf]

theorem outputChunk_ins (g : Nat) (st : MS) (c : Chunk) : (outputChunk g st c).ins = st.ins := by
  unfold outputChunk; split
  · exact flushbuf_ins st
  · rfl

theorem tryPass_spec (g : Nat) (st st1 : MS) (cur : Chunk) (rest : List Chunk)
    (pre post : List (Chunk × List Chunk)) (hins : st.ins = pre ++ (cur, rest) :: post)
    (h : tryPass g st pre.length cur = some st1) :
    (∀ p ∈ pre ++ post, lastKey cur < firstKey p.1) ∧ (∀ s1 ∈ st.buf.getLast?, firstKey cur ≠ s1.1) ∧
      st1 = outputChunk g st cur := by
  have he : (st.ins.eraseIdx pre.length) = pre ++ post := by
    rw [hins, List.eraseIdx_append_of_length_le (Nat.le_refl _)]; simp
  simp only [tryPass, otherFirstKeys, he] at h
  split at h
  · cases h
  · rename_i hany
    refine ⟨?_, ?_, ?_⟩
    · intro p hp
      simp only [List.any_map, List.any_eq_true, Function.comp, not_exists, not_and] at hany
      have := hany p hp
      simpa using this
    · intro s1 hs1
      rw [Option.mem_def] at hs1
      rw [hs1] at h
      simp only at h
      split at h
      · cases h
      · assumption
    · cases hl : st.buf.getLast? with
      | none => rw [hl] at h; simp only at h; cases h; rfl
      | some s1 =>
        rw [hl] at h; simp only at h
        split at h
        · cases h
        · cases h; rfl

/-! ## sortedness helpers -/

theorem sorted_first (s : Slot) (t : Layer) (h : Sorted (s :: t)) : ∀ y ∈ s :: t, ¬ y.1 < s.1 := by
  intro y hy
  rcases List.mem_cons.1 hy with rfl | hy
  · grind
  · have := ((sorted_cons _ _).1 h).1 y hy
    grind

theorem sorted_append {a b : Layer} : Sorted (a ++ b) ↔ Sorted a ∧ Sorted b ∧ ∀ x ∈ a, ∀ y ∈ b, x.1 < y.1 := by
  simp only [Sorted, List.pairwise_append]

theorem sorted_last (l : Layer) (h : Sorted l) : ∀ x ∈ l, ¬ lastKey l < x.1 := by
  intro x hx
  rcases List.eq_nil_or_concat l with rfl | ⟨ys, a, rfl⟩
  · cases hx
  · rw [List.concat_eq_append] at h hx ⊢
    simp only [lastKey, List.getLast?_concat]
    rcases List.mem_append.1 hx with hx | hx
    · have := (sorted_append.1 h).2.2 x hx a (by simp)
      grind
    · simp only [List.mem_singleton] at hx; subst hx; grind

theorem firstKey_cons (s : Slot) (t : Chunk) : firstKey (s :: t) = s.1 := rfl

/-! ## replacing / removing the selected input -/

inductive NewIns (pre post : List (Chunk × List Chunk)) (r : Layer) (ins' : List (Chunk × List Chunk)) : Prop
  | erase : ins' = pre ++ post → r = [] → NewIns pre post r ins'
  | repl (q : Chunk × List Chunk) : ins' = pre ++ q :: post → rem q = r → q.1 ≠ [] →
      (∀ c ∈ q.2, c ≠ []) → NewIns pre post r ins'

theorem newins_F {pre post r ins'} (h : NewIns pre post r ins') (acc : Layer) :
    F acc (rems ins') = F acc (rems pre ++ r :: rems post) := by
  cases h with
  | erase e hr => subst e hr; rw [fold_erase_nil]; simp [rems]
  | repl q e hq _ _ => subst e hq; simp [rems]

theorem newins_sub {pre post r ins'} (h : NewIns pre post r ins') :
    ∀ l ∈ rems ins', l ∈ rems pre ++ r :: rems post := by
  cases h with
  | erase e hr =>
    subst e hr; intro l hl
    simp only [rems, List.map_append, List.mem_append, List.mem_cons] at hl ⊢
    rcases hl with hl | hl
    · exact Or.inl hl
    · exact Or.inr (Or.inr hl)
  | repl q e hq _ _ => subst e hq; intro l hl; simpa [rems] using hl

theorem newins_ok {pre post r ins'} (h : NewIns pre post r ins') (p : Chunk × List Chunk)
    (hok : InsOK (pre ++ p :: post)) (hr : Sorted r) : InsOK ins' := by
  cases h with
  | erase e _ =>
    subst e; intro x hx
    apply hok x
    rcases List.mem_append.1 hx with hx | hx
    · exact List.mem_append_left _ hx
    · exact List.mem_append_right _ (List.mem_cons_of_mem _ hx)
  | repl q e hq h1 h2 =>
    subst e; intro x hx
    rcases List.mem_append.1 hx with hx | hx
    · exact hok x (List.mem_append_left _ hx)
    · rcases List.mem_cons.1 hx with rfl | hx
      · exact ⟨h1, h2, by rw [hq]; exact hr⟩
      · exact hok x (List.mem_append_right _ (List.mem_cons_of_mem _ hx))

theorem newins_slots {pre post r ins'} (h : NewIns pre post r ins') :
    slots ins' = slots pre + r.length + slots post := by
  cases h with
  | erase e hr => subst e hr; simp [slots, rems]
  | repl q e hq _ _ => subst e hq; simp [slots, rems]; omega

theorem advance_new (st1 : MS) (cur : Chunk) (rest : List Chunk) (pre post : List (Chunk × List Chunk))
    (hins : st1.ins = pre ++ (cur, rest) :: post) (hne : ∀ c ∈ rest, c ≠ []) :
    NewIns pre post rest.flatten (advance st1 pre.length rest).ins ∧
      (advance st1 pre.length rest).out = st1.out ∧ (advance st1 pre.length rest).buf = st1.buf := by
  cases rest with
  | nil =>
    refine ⟨.erase ?_ rfl, rfl, rfl⟩
    simp only [advance, hins]
    rw [List.eraseIdx_append_of_length_le (Nat.le_refl _)]; simp
  | cons c rest' =>
    refine ⟨.repl (c, rest') ?_ (by simp [rem]) (hne c (List.mem_cons_self ..))
      (fun x hx => hne x (List.mem_cons_of_mem _ hx)), rfl, rfl⟩
    simp only [advance, hins]
    rw [List.set_append_right _ _ (Nat.le_refl _)]; simp

theorem set_new (cur tl : Chunk) (rest : List Chunk) (pre post : List (Chunk × List Chunk))
    (htl : tl ≠ []) (hne : ∀ c ∈ rest, c ≠ []) :
    NewIns pre post (tl ++ rest.flatten) ((pre ++ (cur, rest) :: post).set pre.length (tl, rest)) := by
  refine .repl (tl, rest) ?_ rfl htl hne
  rw [List.set_append_right _ _ (Nat.le_refl _)]; simp

/-- the state after replacing the selected input, once the produced part is known to be below
the new remaining keys -/
theorem finish (st' : MS) (out : List Chunk) (buf : Chunk) (pre post : List (Chunk × List Chunk))
    (p : Chunk × List Chunk) (r : Layer)
    (ho : st'.out = out) (hb : st'.buf = buf) (hn : NewIns pre post r st'.ins)
    (hok : InsOK (pre ++ p :: post)) (hr : Sorted r)
    (hB : Below out buf (rems pre ++ r :: rems post)) :
    Spec st' = F (out.flatten ++ buf) (rems pre ++ r :: rems post) ∧ InsOK st'.ins ∧
      Below st'.out st'.buf (rems st'.ins) ∧ slots st'.ins = slots pre + r.length + slots post := by
  refine ⟨?_, newins_ok hn p hok hr, ?_, newins_slots hn⟩
  · simp only [Spec, doneOf, ho, hb]; exact newins_F hn _
  · rw [ho, hb]
    have hsub := newins_sub hn
    refine ⟨AB_mono hB.1 (fun l hl y hy => ⟨l, hsub l hl, hy⟩), ?_⟩
    intro x hx l hl y hy
    exact hB.2 x hx l (hsub l hl) y hy

theorem step_eq (g : Nat) (st : MS) (s : Slot) (tl : Chunk) (rest : List Chunk)
    (pre post : List (Chunk × List Chunk)) (hins : st.ins = pre ++ (s :: tl, rest) :: post)
    (hi : minIdx (st.ins.map (fun p => firstKey p.1)) = pre.length) :
    step g st =
      match (if st.pass then tryPass g st pre.length (s :: tl) else none) with
      | some st' => some (advance st' pre.length rest)
      | none =>
        match outputSlot g st s with
        | none => none
        | some st' =>
          if tl.isEmpty then some (advance st' pre.length rest)
          else some { st' with ins := st'.ins.set pre.length (tl, rest) } := by
  have : st.ins[pre.length]? = some (s :: tl, rest) := by
    rw [hins, List.getElem?_append_right (Nat.le_refl _)]; simp
  simp only [step, hi, this]
  rfl

end Gsu.Ixbuf
