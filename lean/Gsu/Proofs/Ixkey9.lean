import Gsu.Proofs.Ixkey8
namespace Gsu.Ixkey
open Gsu.Proto

theorem reScan_nz {b : UInt8} (hb : b ≠ 0) (r : Bytes) (n : Nat) (acc : Bytes) :
    rangeEndScan (b :: r) n acc = rangeEndScan r n (b :: acc) :=
  rangeEndScan.eq_3 n acc b r (fun _ h _ => hb h)
theorem reScan_z_nz {c : UInt8} (hc : c ≠ 0) (r : Bytes) (n : Nat) (acc : Bytes) :
    rangeEndScan (0 :: c :: r) n acc = rangeEndScan (c :: r) n (0 :: acc) :=
  rangeEndScan.eq_3 n acc 0 (c :: r) (fun _ _ h => hc (by simp_all))

theorem reScan_enc (a : Bytes) (n : Nat) (acc : Bytes) :
    rangeEndScan (enc a) n acc = (acc.reverse ++ enc a, n) := by
  induction a generalizing acc with
  | nil => simp [enc, rangeEndScan]
  | cons b bs ih =>
    by_cases hb : b = 0
    · subst hb; rw [enc_zero, reScan_z_nz (by decide), reScan_nz (by decide), ih]; simp
    · rw [enc_nz hb, reScan_nz hb, ih]; simp

theorem reScan_enc_sep (a rest : Bytes) (n : Nat) (acc : Bytes) :
    rangeEndScan (enc a ++ 0 :: 0 :: rest) n acc =
      if n = 1 then (acc.reverse ++ enc a ++ [0, 0], 0)
      else rangeEndScan rest (n - 1) (0 :: 0 :: ((enc a).reverse ++ acc)) := by
  induction a generalizing acc with
  | nil => simp [enc, rangeEndScan.eq_2]
  | cons b bs ih =>
    by_cases hb : b = 0
    · subst hb; rw [enc_zero]; simp only [List.cons_append]
      rw [reScan_z_nz (by decide), reScan_nz (by decide), ih]; simp
    · rw [enc_nz hb]; simp only [List.cons_append]; rw [reScan_nz hb, ih]; simp

theorem reScan_joinEnc (t : List Bytes) (n : Nat) (acc : Bytes) (ht : t ≠ []) (hl : t.length ≤ n) :
    rangeEndScan (joinEnc t) n acc = (acc.reverse ++ joinEnc t, n - (t.length - 1)) := by
  induction t generalizing n acc with
  | nil => exact absurd rfl ht
  | cons f fs ih =>
    cases fs with
    | nil => simp [joinEnc, reScan_enc]
    | cons g fs =>
      have h1 : n ≠ 1 := by simp at hl; omega
      rw [joinEnc_cons2, reScan_enc_sep, if_neg h1, ih (n - 1) _ (by simp) (by simp at hl ⊢; omega)]
      simp only [List.length_cons, List.reverse_cons, List.reverse_append, List.reverse_reverse,
        List.append_assoc, List.cons_append, List.nil_append, Prod.mk.injEq]
      exact ⟨trivial, by omega⟩

theorem rangeEnd_eq_joinPS (P : List Bytes) (n : Nat) (hP : P.length = n) :
    rangeEnd (joinEnc (trimEmpty P)) n = joinPS (joinEnc (trimEmpty P)) n maxKey := by
  obtain ⟨k, hk⟩ := trim_decomp P
  have hlen : (trimEmpty P).length ≤ n := by
    have := congrArg List.length hk; simp only [List.length_append, List.length_replicate] at this; omega
  by_cases ht : trimEmpty P = []
  · rw [ht]; simp [rangeEnd, rangeEndScan, joinPS, joinEnc, countSep]
  · simp only [rangeEnd, reScan_joinEnc _ n [] ht hlen, joinPS, countSep_joinEnc]
    simp

theorem enc_maxKey : enc maxKey = maxKey := by decide

theorem rangeEnd_joinTrim (P : List Bytes) (n : Nat) (hn : 1 ≤ n) (hP : P.length = n) :
    rangeEnd (joinEnc (trimEmpty P)) n = joinEnc (P ++ [maxKey]) := by
  rw [rangeEnd_eq_joinPS P n hP]
  have h := splitPS_joinPS (P ++ [maxKey]) n hn (by simp; omega)
  rw [splitPS_joinEnc (P ++ [maxKey]) n hn (by simp; omega)] at h
  have h2 := h.2.1
  simp only [List.take_left' hP, List.drop_left' hP, joinEnc_single, enc_maxKey] at h2
  exact h2

end Gsu.Ixkey
