/-
C09 (OverIter), part 3: the scan and loop of `maxIter`, specification of one backward step.
Core-only.
-/
import Gsu.Proofs.Iter2
namespace Gsu.Iter

/-! ### the scan of `maxIter` -/

theorem maxStep_eof (s : Scan) (i : Nat) (c : Cur) (h : c.st = .eof) : maxStep s i c = s := by
  simp [maxStep, h]

theorem maxStep_found (s : Scan) (i : Nat) (c : Cur) (h : c.st ≠ .eof) :
    (maxStep s i c).found = true := by
  unfold maxStep; simp only [h, if_false]; grind

theorem maxStep_km (s : Scan) (i : Nat) (c : Cur) (h : c.st ≠ .eof) :
    (maxStep s i c).km = if s.found = false ∨ s.km < c.key then c.key else s.km := by
  unfold maxStep; simp only [h, if_false]; grind

theorem maxStep_res (s : Scan) (i : Nat) (c : Cur) (h : c.st ≠ .eof) :
    (maxStep s i c).res =
      if (s.found = false ∨ s.km < c.key) ∨ c.key = s.km then val c.op c.off else s.res := by
  unfold maxStep; simp only [h, if_false]; grind

/-- value recorded for key `k` by a left-to-right pass over the non-eof iterators -/
def resOfP (k : Key) : Option Nat → List Cur → Option Nat
  | r0, [] => r0
  | r0, c :: cs => resOfP k (if c.st ≠ .eof ∧ c.key = k then val c.op c.off else r0) cs

theorem scanP_km (s : Scan) (i : Nat) (cs : List Cur) :
    ((scanFrom maxStep s i cs).found = true ↔ s.found = true ∨ ∃ c ∈ cs, c.st ≠ .eof) ∧
    (s.found = true → ¬ (scanFrom maxStep s i cs).km < s.km) ∧
    (∀ c ∈ cs, c.st ≠ .eof → ¬ (scanFrom maxStep s i cs).km < c.key) ∧
    (((scanFrom maxStep s i cs).km = s.km ∧ (scanFrom maxStep s i cs).found = s.found) ∨
      ∃ c ∈ cs, c.st ≠ .eof ∧ c.key = (scanFrom maxStep s i cs).km) := by
  induction cs generalizing s i with
  | nil => simp [scanFrom]
  | cons c cs ih =>
    simp only [scanFrom]
    have h := ih (maxStep s i c) (i + 1)
    by_cases hc : c.st = .eof
    · rw [maxStep_eof s i c hc] at h ⊢
      obtain ⟨h1, h2, h3, h4⟩ := h
      refine ⟨?_, h2, ?_, ?_⟩
      · rw [h1]; constructor
        · rintro (h | ⟨d, hd, hd2⟩)
          · exact Or.inl h
          · exact Or.inr ⟨d, List.mem_cons_of_mem _ hd, hd2⟩
        · rintro (h | ⟨d, hd, hd2⟩)
          · exact Or.inl h
          · rcases List.mem_cons.mp hd with rfl | hd
            · exact absurd hc hd2
            · exact Or.inr ⟨d, hd, hd2⟩
      · intro d hd hd2
        rcases List.mem_cons.mp hd with rfl | hd
        · exact absurd hc hd2
        · exact h3 d hd hd2
      · rcases h4 with h4 | ⟨d, hd, hd2⟩
        · exact Or.inl h4
        · exact Or.inr ⟨d, List.mem_cons_of_mem _ hd, hd2⟩
    · have hf := maxStep_found s i c hc
      have hk := maxStep_km s i c hc
      obtain ⟨h1, h2, h3, h4⟩ := h
      have h2' := h2 hf
      rw [hk] at h2'
      refine ⟨?_, ?_, ?_, ?_⟩
      · rw [h1]; constructor
        · intro _; exact Or.inr ⟨c, List.mem_cons_self, hc⟩
        · intro _; exact Or.inl hf
      · intro hsf; grind
      · intro d hd hd2
        rcases List.mem_cons.mp hd with rfl | hd
        · grind
        · exact h3 d hd hd2
      · rcases h4 with ⟨h4, _⟩ | ⟨d, hd, hd2⟩
        · rw [hk] at h4
          by_cases hnew : s.found = false ∨ s.km < c.key
          · right; exact ⟨c, List.mem_cons_self, hc, by grind⟩
          · by_cases hsf : s.found = true
            · left; refine ⟨by grind, ?_⟩
              rw [hsf]; exact h1.mpr (Or.inl hf)
            · exact absurd (Or.inl (by simpa using hsf)) hnew
        · right; exact ⟨d, List.mem_cons_of_mem _ hd, hd2⟩

theorem scanP_res (s : Scan) (i : Nat) (cs : List Cur) (hres : s.found = false → s.res = none) :
    (scanFrom maxStep s i cs).res =
      resOfP (scanFrom maxStep s i cs).km
        (if s.found = true ∧ (scanFrom maxStep s i cs).km = s.km then s.res else none) cs := by
  induction cs generalizing s i with
  | nil => simp only [scanFrom, resOfP]; grind
  | cons c cs ih =>
    simp only [scanFrom, resOfP]
    by_cases hc : c.st = .eof
    · simp only [maxStep_eof s i c hc]
      rw [ih s (i + 1) hres]; simp [hc]
    · rw [ih (maxStep s i c) (i + 1) (by simp [maxStep_found s i c hc])]
      have h := (scanP_km (maxStep s i c) (i + 1) cs).2.1 (maxStep_found s i c hc)
      rw [maxStep_km s i c hc] at h
      rw [maxStep_km s i c hc, maxStep_res s i c hc, maxStep_found s i c hc]
      congr 1
      grind

theorem maxScan_spec (cs : List Cur) :
    ((maxScan cs).found = true ↔ ∃ c ∈ cs, c.st ≠ .eof) ∧
    (∀ c ∈ cs, c.st ≠ .eof → ¬ (maxScan cs).km < c.key) ∧
    ((maxScan cs).found = true → ∃ c ∈ cs, c.st ≠ .eof ∧ c.key = (maxScan cs).km) ∧
    (maxScan cs).res = resOfP (maxScan cs).km none cs := by
  unfold maxScan
  have h := scanP_km ⟨[], [], none, none, false⟩ 0 cs
  have h2 := scanP_res ⟨[], [], none, none, false⟩ 0 cs (fun _ => rfl)
  refine ⟨by simpa using h.1, h.2.2.1, ?_, by simpa using h2⟩
  intro hf
  rcases h.2.2.2 with ⟨_, h3⟩ | h3
  · rw [hf] at h3; simp at h3
  · exact h3

/-! ### link with `top`/`sem` -/

/-- a canonical backward cursor that is not above `m` sits on `m` exactly when the layer
mentions `m` -/
theorem cP_at {L : Layer} (hL : LWF L) (r : Rng) (bu : Bu) (m : Key)
    (hok : bu.ok m = true) (horg : ¬ m < r.org)
    (hle : (cP L r bu).st = .within → ¬ m < (cP L r bu).key) :
    match lookupL L m with
    | some e => cP L r bu = atE e ∧ e.key = m
    | none => ¬ ((cP L r bu).st ≠ .eof ∧ (cP L r bu).key = m) := by
  unfold lookupL
  split
  · next e he =>
    have hem : e ∈ L := List.mem_of_find?_eq_some he
    have hek : e.key = m := by simpa using List.find?_some he
    have h1 := cP_greatest hL r bu e hem (by rw [hek]; exact hok) (by rw [hek]; exact horg)
    have h2 := hle h1.1
    rcases cP_cases hL r bu with h | ⟨e', he', h, _, _⟩
    · rw [h] at h1; simp [eofC] at h1
    · rw [h] at h1 h2 ⊢
      simp only [atE_key] at h1 h2
      have : e'.key = e.key := by grind
      have := sorted_key_inj hL.sorted he' hem this
      subst this
      exact ⟨rfl, hek⟩
  · next hn =>
    have hn' : ∀ e ∈ L, e.key ≠ m := by
      intro e he; simpa using List.find?_eq_none.mp hn e he
    rcases cP_cases hL r bu with h | ⟨e', he', h, _, _⟩
    · rw [h]; simp [eofC]
    · rw [h]; simp only [atE_key]; intro hh; exact hn' e' he' hh.2

theorem resOfP_top {Ls : List Layer} (hwf : WF Ls) (r : Rng) (bu : Bu) (m : Key)
    (hok : bu.ok m = true) (horg : ¬ m < r.org)
    (hle : ∀ L ∈ Ls, (cP L r bu).st = .within → ¬ m < (cP L r bu).key) (r0 : Option Nat) :
    resOfP m r0 (Ls.map (fun L => cP L r bu)) =
      match top Ls m with
      | some e => val e.op e.off
      | none => r0 := by
  induction Ls generalizing r0 with
  | nil => simp [resOfP, top]
  | cons L Ls ih =>
    simp only [List.map_cons, resOfP, top]
    rw [ih hwf.tail (fun M hM => hle M (List.mem_cons_of_mem _ hM))]
    have h := cP_at (hwf L List.mem_cons_self) r bu m hok horg (hle L List.mem_cons_self)
    cases ht : top Ls m with
    | some e => rfl
    | none =>
      simp only
      cases hl : lookupL L m with
      | some e => rw [hl] at h; simp [h.1, atE, h.2]
      | none => rw [hl] at h; simp only at h; rw [if_neg h]

theorem retAt_cP {Ls : List Layer} (hwf : WF Ls) (r : Rng) (bu : Bu) (m : Key)
    (hok : bu.ok m = true) (horg : ¬ m < r.org) (hend : ¬ r.end_ < m) (hmax : m < maxKey)
    (hle : ∀ L ∈ Ls, (cP L r bu).st = .within → ¬ m < (cP L r bu).key) :
    retAt r m Ls (Ls.map (fun L => cP L r bu)) = Ls.map (fun L => cP L r (.lt m)) := by
  induction Ls with
  | nil => simp [retAt]
  | cons L Ls ih =>
    simp only [List.map_cons, retAt]
    rw [ih hwf.tail (fun M hM => hle M (List.mem_cons_of_mem _ hM))]
    congr 1
    have hL := hwf L List.mem_cons_self
    by_cases h : (cP L r bu).st ≠ .eof ∧ (cP L r bu).key = m
    · rw [if_pos h]; exact curPrev_cP hL r bu m hmax hend h.2
    · rw [if_neg h]
      apply cP_congr
      intro x hx
      simp only [lt_ok]
      by_cases hx1 : x.key < m
      · simp [hx1, bu_mono hok hx1]
      · by_cases hx2 : bu.ok x.key = true
        · exfalso
          have h1 := cP_greatest hL r bu x hx hx2 (by grind)
          have h2 := hle L List.mem_cons_self h1.1
          apply h
          exact ⟨by rw [h1.1]; simp, by grind⟩
        · simp [hx1, hx2]

/-! ### termination measure of the `maxIter` loop -/

def cntP (bu : Bu) : List Layer → Nat
  | [] => 0
  | L :: Ls => (L.filter (fun e => bu.ok e.key)).length + cntP bu Ls

theorem cntP_le_total (bu : Bu) (Ls : List Layer) : cntP bu Ls ≤ totalLen Ls := by
  induction Ls with
  | nil => simp [cntP, totalLen]
  | cons L Ls ih =>
    simp only [cntP, totalLen, List.map_cons, List.sum_cons] at ih ⊢
    have := List.length_filter_le (fun e : Ent => bu.ok e.key) L
    omega

theorem filter_len_le {α} (p q : α → Bool) (h : ∀ x, q x = true → p x = true) (l : List α) :
    (l.filter q).length ≤ (l.filter p).length := by
  induction l with
  | nil => simp
  | cons x xs ih =>
    simp only [List.filter_cons]
    by_cases h1 : q x = true
    · simp [h1, h x h1]; exact ih
    · by_cases h2 : p x = true <;> simp [h1, h2] <;> omega

theorem filter_len_lt {α} (p q : α → Bool) (h : ∀ x, q x = true → p x = true) (l : List α)
    (hex : ∃ x ∈ l, p x = true ∧ q x = false) :
    (l.filter q).length < (l.filter p).length := by
  induction l with
  | nil => obtain ⟨x, hx, _⟩ := hex; cases hx
  | cons y ys ih =>
    simp only [List.filter_cons]
    obtain ⟨x, hx, hp, hq⟩ := hex
    rcases List.mem_cons.mp hx with rfl | hx'
    · have := filter_len_le p q h ys
      simp [hp, hq]; omega
    · have := ih ⟨x, hx', hp, hq⟩
      by_cases h1 : q y = true
      · simp [h1, h y h1]; omega
      · by_cases h2 : p y = true <;> simp [h1, h2] <;> omega

theorem cntP_le (bu : Bu) (m : Key) (hok : bu.ok m = true) (Ls : List Layer) :
    cntP (.lt m) Ls ≤ cntP bu Ls := by
  induction Ls with
  | nil => simp [cntP]
  | cons L Ls ih =>
    simp only [cntP]
    have := filter_len_le (fun e : Ent => bu.ok e.key) (fun e => (Bu.lt m).ok e.key)
      (fun x hx => bu_mono hok (by simpa [Bu.ok] using hx)) L
    omega

theorem cntP_lt (bu : Bu) (m : Key) (hok : bu.ok m = true) (Ls : List Layer)
    (hex : ∃ L ∈ Ls, ∃ e ∈ L, e.key = m) : cntP (.lt m) Ls < cntP bu Ls := by
  induction Ls with
  | nil => obtain ⟨L, hL, _⟩ := hex; cases hL
  | cons L Ls ih =>
    simp only [cntP]
    obtain ⟨M, hM, e, he, hem⟩ := hex
    have hle := filter_len_le (fun e : Ent => bu.ok e.key) (fun e => (Bu.lt m).ok e.key)
      (fun x hx => bu_mono hok (by simpa [Bu.ok] using hx)) L
    rcases List.mem_cons.mp hM with rfl | hM'
    · have := filter_len_lt (fun e : Ent => bu.ok e.key) (fun e => (Bu.lt m).ok e.key)
        (fun x hx => bu_mono hok (by simpa [Bu.ok] using hx)) M
        ⟨e, he, by rw [hem]; exact hok, by simp [Bu.ok, hem]⟩
      have := cntP_le bu m hok Ls
      omega
    · have := ih ⟨M, hM', e, he, hem⟩
      omega

/-! ### specification of one backward step -/

/-- `res` is the greatest live key of the range satisfying the bound (with its offset), or there
is none -/
def IsPrev (Ls : List Layer) (r : Rng) (bu : Bu) : Option (Key × Nat) → Prop
  | none => ∀ k, bu.ok k = true → ¬ k < r.org → sem Ls k = none
  | some (k, off) => bu.ok k = true ∧ ¬ k < r.org ∧ sem Ls k = some off ∧
      ∀ k', bu.ok k' = true → ¬ k' < r.org → (sem Ls k').isSome → ¬ k < k'

theorem cP_cover {Ls : List Layer} (hwf : WF Ls) (r : Rng) (bu : Bu) (m : Key)
    (hle : ∀ L ∈ Ls, (cP L r bu).st = .within → ¬ m < (cP L r bu).key)
    (k : Key) (hk : bu.ok k = true) (hko : ¬ k < r.org) (hs : (sem Ls k).isSome) : ¬ m < k := by
  unfold sem at hs
  cases ht : top Ls k with
  | none => rw [ht] at hs; simp at hs
  | some e =>
    obtain ⟨L, hL, heL, hek⟩ := top_some_mem ht
    have h1 := cP_greatest (hwf L hL) r bu e heL (by rw [hek]; exact hk) (by rw [hek]; exact hko)
    have h2 := hle L hL h1.1
    grind

theorem maxIter_spec {Ls : List Layer} (hwf : WF Ls) (r : Rng) :
    ∀ (fuel : Nat) (bu : Bu), cntP bu Ls < fuel → (∀ k, bu.ok k = true → k < r.end_) →
      let m := maxIter r Ls fuel (Ls.map (fun L => cP L r bu))
      m.stuck = false ∧ IsPrev Ls r bu m.out ∧
      (m.found = true → m.curs = Ls.map (fun L => cP L r (.le m.key)) ∧
          bu.ok m.key = true ∧ ¬ m.key < r.org ∧ m.key < maxKey) := by
  intro fuel
  induction fuel with
  | zero => intro bu h; omega
  | succ fuel ih =>
    intro bu hfuel hbe
    simp only [maxIter]
    have hs := maxScan_spec (Ls.map (fun L => cP L r bu))
    generalize hsd : maxScan (Ls.map (fun L => cP L r bu)) = s at hs
    obtain ⟨hfound, hmaxk, hex, hres⟩ := hs
    by_cases hf : s.found = true
    · simp only [hf, Bool.not_true, Bool.false_eq_true, if_false]
      have hle : ∀ L ∈ Ls, (cP L r bu).st = .within → ¬ s.km < (cP L r bu).key := fun L hL hw =>
        hmaxk _ (List.mem_map.mpr ⟨L, hL, rfl⟩) (by rw [hw]; simp)
      obtain ⟨c, hc, hcne, hck⟩ := hex hf
      obtain ⟨L0, hL0, rfl⟩ := List.mem_map.mp hc
      have hfacts : bu.ok s.km = true ∧ ¬ s.km < r.org ∧ s.km < maxKey ∧ ∃ e ∈ L0, e.key = s.km := by
        rcases cP_cases (hwf L0 hL0) r bu with h | ⟨e, he, h, h1, h2⟩
        · rw [h] at hcne; simp [eofC] at hcne
        · rw [h] at hck; simp only [atE_key] at hck
          rw [← hck]
          exact ⟨h1, h2, (hwf L0 hL0).ltmax e he, e, he, rfl⟩
      obtain ⟨hok, horg, hmax, hmem⟩ := hfacts
      have hend : s.km < r.end_ := hbe _ hok
      have hsem : sem Ls s.km = s.res := by
        rw [hres, resOfP_top hwf r bu s.km hok horg hle none]
        unfold sem; cases top Ls s.km <;> rfl
      cases hr : s.res with
      | some off =>
        simp only
        refine ⟨trivial, ?_, ?_⟩
        · simp only [MRes.out, if_true]
          refine ⟨hok, horg, by rw [hsem, hr], ?_⟩
          intro k' hk' hko' hs'
          exact cP_cover hwf r bu s.km hle k' hk' hko' hs'
        · intro _
          refine ⟨?_, hok, horg, hmax⟩
          apply List.map_congr_left
          intro L hL
          apply cP_congr
          intro x hx
          simp only [le_ok]
          by_cases hx1 : s.km < x.key
          · have : bu.ok x.key = false := by
              cases hb : bu.ok x.key with
              | false => rfl
              | true =>
                have h1 := cP_greatest (hwf L hL) r bu x hx hb (by grind)
                have h2 := hle L hL h1.1
                grind
            simp [hx1, this]
          · have : bu.ok x.key = true := by
              by_cases hx2 : x.key = s.km
              · rw [hx2]; exact hok
              · exact bu_mono hok (by grind)
            simp [hx1, this]
      | none =>
        simp only
        rw [retAt_cP hwf r bu s.km hok horg (by grind) hmax hle]
        have hlt := cntP_lt bu s.km hok Ls ⟨L0, hL0, hmem⟩
        have h := ih (.lt s.km) (by omega) (by intro k hk; simp [Bu.ok] at hk; grind)
        simp only at h
        obtain ⟨h1, h2, h3⟩ := h
        refine ⟨h1, ?_, ?_⟩
        · generalize (maxIter r Ls fuel (Ls.map fun L => cP L r (.lt s.km))).out = res at h2
          have hlive : ∀ k, bu.ok k = true → ¬ k < r.org → (sem Ls k).isSome →
              (Bu.lt s.km).ok k = true := by
            intro k hk hko hs
            have := cP_cover hwf r bu s.km hle k hk hko hs
            have hne : k ≠ s.km := by
              intro h; rw [h, hsem, hr] at hs; simp at hs
            simp [Bu.ok]; grind
          cases res with
          | none =>
            intro k hk hko
            cases hsk : sem Ls k with
            | none => rfl
            | some v =>
              have := h2 k (hlive k hk hko (by simp [hsk])) hko
              rw [this] at hsk; cases hsk
          | some p =>
            obtain ⟨k, off⟩ := p
            obtain ⟨a, b, c, d⟩ := h2
            refine ⟨bu_mono hok (by simpa [Bu.ok] using a), b, c, ?_⟩
            intro k' hk' hko' hs'
            exact d k' (hlive k' hk' hko' hs') hko' hs'
        · intro hf
          obtain ⟨a, b, c, d⟩ := h3 hf
          exact ⟨a, bu_mono hok (by simpa [Bu.ok] using b), c, d⟩
    · -- nothing left
      have hf' : s.found = false := by simpa using hf
      simp only [hf', Bool.not_false, if_true]
      refine ⟨trivial, ?_, by simp⟩
      simp only [MRes.out]
      intro k hk hko
      cases hsem : sem Ls k with
      | none => rfl
      | some v =>
        exfalso
        unfold sem at hsem
        cases ht : top Ls k with
        | none => rw [ht] at hsem; simp at hsem
        | some e =>
          obtain ⟨L, hL, heL, hek⟩ := top_some_mem ht
          have h1 := cP_greatest (hwf L hL) r bu e heL (by rw [hek]; exact hk) (by rw [hek]; exact hko)
          apply hf
          exact hfound.mpr ⟨_, List.mem_map.mpr ⟨L, hL, rfl⟩, by rw [h1.1]; simp⟩

end Gsu.Iter
