/-
Lemmas for C05 about `Gsu.Model.Repair` (core Lean only).
-/
import Gsu.Model.Repair
namespace Gsu.Repair
open Gsu.Proto

/-- `good` is monotone in state age on the indexes `search` can look at: once a state is good,
every older state (larger index) is good too — "good and bad states are NOT mixed" -/
def MonoOn (good : Nat → Bool) (n : Nat) : Prop :=
  ∀ i j, i ≤ j → j < n → good i = true → good j = true

/-! ### bisect -/

theorem mid_bounds {lo hi : Nat} (h : lo + 1 < hi) :
    lo < lo + (hi - lo) / 2 ∧ lo + (hi - lo) / 2 < hi := by omega

theorem bisect_le (good : Nat → Bool) (fuel lo hi : Nat) : bisect good fuel lo hi ≤ hi := by
  induction fuel generalizing lo hi with
  | zero => simp [bisect]
  | succ f ih =>
    unfold bisect
    by_cases h : lo + 1 < hi
    · simp only [h, if_true]
      have hm := mid_bounds h
      split
      · exact Nat.le_trans (ih _ _) (Nat.le_of_lt hm.2)
      · exact ih _ _
    · simp [h]

theorem bisect_good (good : Nat → Bool) (fuel lo hi : Nat) (hg : good hi = true) :
    good (bisect good fuel lo hi) = true := by
  induction fuel generalizing lo hi with
  | zero => simpa [bisect] using hg
  | succ f ih =>
    unfold bisect
    by_cases h : lo + 1 < hi
    · simp only [h, if_true]
      split
      · next hm => exact ih _ _ hm
      · exact ih _ _ hg
    · simpa [h] using hg

theorem bisect_newest (good : Nat → Bool) (N : Nat) (hmono : MonoOn good N)
    (fuel lo hi : Nat) (hN : hi < N) (hlo : good lo = false) (hlt : lo < hi) (hf : hi - lo ≤ fuel) :
    ∀ j, j < bisect good fuel lo hi → good j = false := by
  induction fuel generalizing lo hi with
  | zero => omega
  | succ f ih =>
    unfold bisect
    by_cases h : lo + 1 < hi
    · simp only [h, if_true]
      have hm := mid_bounds h
      split
      · exact ih _ _ (by omega) hlo hm.1 (by omega)
      · next hb =>
        have hb' : good (lo + (hi - lo) / 2) = false := by simpa using hb
        exact ih _ _ hN hb' hm.2 (by omega)
    · simp only [h, if_false]
      intro j hj
      cases hgj : good j with
      | false => rfl
      | true =>
        have := hmono j lo (by omega) (by omega) hgj
        rw [hlo] at this; cases this

/-! ### probe -/

theorem probe_not_oob (good : Nat → Bool) (n fuel i prev skip : Nat) :
    probe true good n fuel i prev skip ≠ .oob := by
  induction fuel generalizing i prev skip with
  | zero => simp [probe]
  | succ f ih =>
    unfold probe
    by_cases hd : n ≤ i
    · simp only [hd, if_true]
      by_cases h0 : n = 0
      · simp [h0]
      · simp only [h0, if_false]
        split
        · simp
        · split <;> simp
    · simp only [hd, if_false]
      split
      · simp
      · exact ih _ _ _

theorem probe_good_bounds (g : Bool) (good : Nat → Bool) (n fuel i prev skip p k : Nat)
    (h : probe g good n fuel i prev skip = .good p k) : k < n ∧ good k = true := by
  induction fuel generalizing i prev skip with
  | zero => simp [probe] at h
  | succ f ih =>
    unfold probe at h
    by_cases hd : n ≤ i
    · simp only [hd, if_true] at h
      by_cases h0 : n = 0
      · simp only [h0, if_true] at h
        cases g <;> simp at h
      · simp only [h0, if_false] at h
        split at h
        · cases h
        · split at h
          · next hg =>
            injection h with h1 h2
            subst h2
            exact ⟨by omega, hg⟩
          · cases h
    · simp only [hd, if_false] at h
      split at h
      · next hg =>
        injection h with h1 h2
        subst h2
        exact ⟨by omega, hg⟩
      · exact ih _ _ _ h

/-- state of the first loop: nothing probed yet, or `prev` is a probed bad index below `i` -/
def PInv (good : Nat → Bool) (n i prev : Nat) : Prop :=
  (i = 0 ∧ prev = 0) ∨ (prev < i ∧ prev < n ∧ good prev = false)

theorem probe_good_inv (g : Bool) (good : Nat → Bool) (n fuel i prev skip p k : Nat)
    (hs : 0 < skip) (hi : PInv good n i prev)
    (h : probe g good n fuel i prev skip = .good p k) :
    (k = 0 ∧ p = 0) ∨ (p < k ∧ good p = false) := by
  induction fuel generalizing i prev skip with
  | zero => simp [probe] at h
  | succ f ih =>
    unfold probe at h
    by_cases hd : n ≤ i
    · simp only [hd, if_true] at h
      by_cases h0 : n = 0
      · simp only [h0, if_true] at h
        cases g <;> simp at h
      · simp only [h0, if_false] at h
        split at h
        · cases h
        · next hne =>
          split at h
          · injection h with h1 h2
            subst h1; subst h2
            rcases hi with ⟨hi0, _⟩ | ⟨_, hpn, hpb⟩
            · omega
            · exact Or.inr ⟨by omega, hpb⟩
          · cases h
    · simp only [hd, if_false] at h
      split at h
      · injection h with h1 h2
        subst h1; subst h2
        rcases hi with ⟨hi0, hp0⟩ | ⟨hpi, _, hpb⟩
        · exact Or.inl ⟨hi0, hp0⟩
        · exact Or.inr ⟨hpi, hpb⟩
      · next hb =>
        have hb' : good i = false := by simpa using hb
        exact ih _ _ _ (by omega) (Or.inr ⟨by omega, by omega, hb'⟩) h

theorem probe_none_all_bad (good : Nat → Bool) (n : Nat) (hmono : MonoOn good n)
    (fuel i prev skip : Nat) (hs : 0 < skip) (hi : PInv good n i prev)
    (hf1 : 1 ≤ fuel) (hf : i < n → n + 1 ≤ fuel + i)
    (h : probe true good n fuel i prev skip = .none) : ∀ j, j < n → good j = false := by
  induction fuel generalizing i prev skip with
  | zero => omega
  | succ f ih =>
    intro j hj
    unfold probe at h
    have bad_below : ∀ m, m < n → good m = false → j ≤ m → good j = false := by
      intro m hm hmb hjm
      cases hgj : good j with
      | false => rfl
      | true => have := hmono j m hjm hm hgj; rw [hmb] at this; cases this
    by_cases hd : n ≤ i
    · simp only [hd, if_true] at h
      have h0 : n ≠ 0 := by omega
      simp only [h0, if_false] at h
      rcases hi with ⟨hi0, _⟩ | ⟨_, hpn, hpb⟩
      · omega
      · split at h
        · next he => exact bad_below prev hpn hpb (by omega)
        · split at h
          · cases h
          · next hb =>
            have hb' : good (n - 1) = false := by simpa using hb
            exact bad_below (n - 1) (by omega) hb' (by omega)
    · simp only [hd, if_false] at h
      split at h
      · cases h
      · next hb =>
        have hb' : good i = false := by simpa using hb
        have hin : i < n := by omega
        have := hf hin
        exact ih _ _ _ (by omega) (Or.inr ⟨by omega, hin, hb'⟩) (by omega) (by intro _; omega) h j hj

/-! ### search -/

theorem search_ne_oob (good : Nat → Bool) (n : Nat) : search good n ≠ .oob := by
  unfold search searchG
  have := probe_not_oob good n (n + 1) 0 0 1
  split <;> simp_all

theorem search_found_sound (good : Nat → Bool) (n k : Nat) (h : search good n = .found k) :
    k < n ∧ good k = true := by
  unfold search searchG at h
  split at h
  · cases h
  · cases h
  · next p i hp =>
    injection h with h
    subst h
    have hb := probe_good_bounds true good n (n + 1) 0 0 1 p i hp
    exact ⟨Nat.lt_of_le_of_lt (bisect_le _ _ _ _) hb.1, bisect_good _ _ _ _ hb.2⟩

theorem search_found_newest (good : Nat → Bool) (n k : Nat) (hmono : MonoOn good n)
    (h : search good n = .found k) : ∀ j, j < k → good j = false := by
  unfold search searchG at h
  split at h
  · cases h
  · cases h
  · next p i hp =>
    injection h with h
    subst h
    have hb := probe_good_bounds true good n (n + 1) 0 0 1 p i hp
    rcases probe_good_inv true good n (n + 1) 0 0 1 p i (by omega) (Or.inl ⟨rfl, rfl⟩) hp with
      ⟨hk0, hp0⟩ | ⟨hpk, hpb⟩
    · intro j hj
      have := bisect_le good (i - p) p i
      omega
    · exact bisect_newest good n hmono (i - p) p i hb.1 hpb hpk (Nat.le_refl _)

theorem search_none_all_bad (good : Nat → Bool) (n : Nat) (hmono : MonoOn good n)
    (h : search good n = .none) : ∀ j, j < n → good j = false := by
  unfold search searchG at h
  split at h
  · next hp =>
    exact probe_none_all_bad good n hmono (n + 1) 0 0 1 (by omega) (Or.inl ⟨rfl, rfl⟩) (by omega)
      (by intro _; omega) hp
  · cases h
  · cases h

/-! ### tail marker, fix -/

theorem strip_append_shutdown (l : Bytes) : stripZeros (l ++ shutdown) = l ++ shutdown := by
  simp [stripZeros, shutdown]

theorem tail_append_shutdown (l : Bytes) : tailOf (l ++ shutdown) = shutdown := by
  unfold tailOf
  have : (l ++ shutdown).length - tailSize = l.length := by simp [shutdown, tailSize]
  rw [this, List.drop_left]

theorem openTail_fix (file : Bytes) (off : Nat) (h : off + stateLen ≤ file.length) :
    openTail (fix file off) = .state off := by
  unfold openTail fix
  simp only [strip_append_shutdown, tail_append_shutdown, if_true]
  congr 1
  simp [shutdown, tailSize, List.length_take, Nat.min_eq_left h]

/-! ### crash cuts -/

theorem rev_desc {ends : List Nat} (hs : ends.Pairwise (· < ·)) {i j : Nat} {a b : Nat}
    (hij : i < j) (ha : ends.reverse[i]? = some a) (hb : ends.reverse[j]? = some b) : b < a := by
  have hr : ends.reverse.Pairwise (fun x y => y < x) := List.pairwise_reverse.mpr hs
  rw [List.pairwise_iff_getElem] at hr
  obtain ⟨hi', rfl⟩ := List.getElem?_eq_some_iff.mp ha
  obtain ⟨hj', rfl⟩ := List.getElem?_eq_some_iff.mp hb
  exact hr i j hi' hj' hij

theorem goodCut_mono (ends : List Nat) (cut : Nat) (hs : ends.Pairwise (· < ·)) :
    MonoOn (goodCut ends cut) ends.length := by
  intro i j hij hj hg
  unfold goodCut at hg ⊢
  have hjl : j < ends.reverse.length := by simpa using hj
  have hil : i < ends.reverse.length := by omega
  rw [List.getElem?_eq_getElem hil] at hg
  rw [List.getElem?_eq_getElem hjl]
  simp only [decide_eq_true_eq] at hg ⊢
  rcases Nat.lt_or_ge i j with hlt | hge
  · have := rev_desc hs hlt (List.getElem?_eq_getElem hil) (List.getElem?_eq_getElem hjl)
    omega
  · have : i = j := by omega
    subst this; exact hg

theorem goodCut_at (ends : List Nat) (cut s e : Nat) (hs : ends[s]? = some e) :
    goodCut ends cut (ends.length - 1 - s) = decide (e ≤ cut) := by
  have hsl : s < ends.length := (List.getElem?_eq_some_iff.mp hs).1
  unfold goodCut
  rw [List.getElem?_reverse (by omega)]
  have : ends.length - 1 - (ends.length - 1 - s) = s := by omega
  rw [this, hs]

/-- the state restored is the latest state that ends at or below the cut -/
theorem recovered_some (ends : List Nat) (cut s : Nat) (hs : ends.Pairwise (· < ·))
    (h : recovered ends cut = some s) :
    ∃ e, ends[s]? = some e ∧ e ≤ cut ∧
      ∀ s' e', s < s' → ends[s']? = some e' → cut < e' := by
  unfold recovered at h
  split at h
  · next k hk =>
    injection h with h
    have hb := search_found_sound _ _ _ hk
    have hnew := search_found_newest _ _ _ (goodCut_mono ends cut hs) hk
    have hsl : s < ends.length := by omega
    have hks : k = ends.length - 1 - s := by omega
    refine ⟨ends[s], List.getElem?_eq_getElem hsl, ?_, ?_⟩
    · have := goodCut_at ends cut s ends[s] (List.getElem?_eq_getElem hsl)
      rw [← hks, hb.2] at this
      simpa using this.symm
    · intro s' e' hss' he'
      have hs'l : s' < ends.length := (List.getElem?_eq_some_iff.mp he').1
      have := goodCut_at ends cut s' e' he'
      rw [hnew (ends.length - 1 - s') (by omega)] at this
      have : ¬ e' ≤ cut := by simpa using this.symm
      omega
  · cases h

theorem recovered_none (ends : List Nat) (cut : Nat) (hs : ends.Pairwise (· < ·))
    (h : recovered ends cut = none) : ∀ e ∈ ends, cut < e := by
  unfold recovered at h
  split at h
  · cases h
  · next hne =>
    have hnone : search (goodCut ends cut) ends.length = .none := by
      cases hsr : search (goodCut ends cut) ends.length with
      | none => rfl
      | found k => exact absurd hsr (hne k)
      | oob => exact absurd hsr (search_ne_oob _ _)
    have hall := search_none_all_bad _ _ (goodCut_mono ends cut hs) hnone
    intro e he
    obtain ⟨s, hsl, rfl⟩ := List.getElem_of_mem he
    have := goodCut_at ends cut s ends[s] (List.getElem?_eq_getElem hsl)
    rw [hall (ends.length - 1 - s) (by omega)] at this
    have : ¬ ends[s] ≤ cut := by simpa using this.symm
    omega

end Gsu.Repair
