/-
Lemmas for C39 (ordset): binary search, leaf insert, tree routing, the invariant. Core-only.
-/
import Gsu.Model.Ordset
namespace Gsu.Ordset

/-! ### binary search -/

theorem bsearch_inv (p : Nat → Bool) (n : Nat)
    (mono : ∀ a b, a ≤ b → b < n → p b = true → p a = true) (i j : Nat)
    (hij : i ≤ j) (hjn : j ≤ n)
    (hlo : ∀ x, x < i → p x = true) (hhi : ∀ x, j ≤ x → x < n → p x = false) :
    i ≤ bsearch p i j ∧ bsearch p i j ≤ j ∧
      (∀ x, x < bsearch p i j → p x = true) ∧ (∀ x, bsearch p i j ≤ x → x < n → p x = false) := by
  fun_induction bsearch p i j with
  | case1 i j h m hp ih =>
    have hm : m < j := by omega
    have hm2 : i ≤ m := by omega
    have h1 := ih (by omega) hjn
      (fun x hx => mono x m (by omega) (by omega) hp) hhi
    exact ⟨by omega, h1.2⟩
  | case2 i j h m hp ih =>
    have hm : m < j := by omega
    have hm2 : i ≤ m := by omega
    have h1 := ih hm2 (by omega) hlo (fun x hx hxn => by
      cases hpx : p x with
      | false => rfl
      | true => have := mono m x hx hxn hpx; simp [this] at hp)
    exact ⟨h1.1, by omega, h1.2.2⟩
  | case3 i j h =>
    have : i = j := by omega
    subst this
    exact ⟨Nat.le_refl _, Nat.le_refl _, hlo, hhi⟩

/-- the result of a binary search over `[0, n)` with a downward-closed test -/
theorem bsearch_spec (p : Nat → Bool) (n : Nat)
    (mono : ∀ a b, a ≤ b → b < n → p b = true → p a = true) :
    bsearch p 0 n ≤ n ∧ (∀ x, x < bsearch p 0 n → p x = true) ∧
      (∀ x, bsearch p 0 n ≤ x → x < n → p x = false) := by
  have h := bsearch_inv p n mono 0 n (Nat.zero_le _) (Nat.le_refl _)
    (fun x hx => absurd hx (Nat.not_lt_zero _)) (fun x h1 h2 => by omega)
  exact ⟨h.2.1, h.2.2⟩

theorem bsearch_congr (p q : Nat → Bool) (i j : Nat)
    (h : ∀ x, i ≤ x → x < j → p x = q x) : bsearch p i j = bsearch q i j := by
  fun_induction bsearch p i j with
  | case1 i j hij m hp ih =>
    have hm : i ≤ m ∧ m < j := by omega
    rw [bsearch.eq_def q i j]
    simp only [hij, ↓reduceDIte]
    have : q ((i + j) / 2) = true := by rw [← h _ hm.1 hm.2]; exact hp
    simp only [this, ↓reduceIte]
    exact ih (fun x h1 h2 => h x (by omega) h2)
  | case2 i j hij m hp ih =>
    have hm : i ≤ m ∧ m < j := by omega
    rw [bsearch.eq_def q i j]
    simp only [hij, ↓reduceDIte]
    have : q ((i + j) / 2) = false := by rw [← h _ hm.1 hm.2]; simpa using hp
    simp only [this, Bool.false_eq_true, ↓reduceIte]
    exact ih (fun x h1 h2 => h x h1 (by omega))
  | case3 i j hij =>
    rw [bsearch.eq_def q i j]
    simp [hij]

/-! ### sorted key lists -/

/-- strictly ascending -/
def Sorted (l : List Key) : Prop := l.Pairwise (· < ·)

/-- lower bound of `key` in a list: what `leafNode.searchBinary` computes on the live slots -/
def lb (l : List Key) (key : Key) : Nat :=
  bsearch (fun h => decide (l[h]?.getD [] < key)) 0 l.length

theorem lb_spec (l : List Key) (key : Key) (hs : Sorted l) :
    lb l key ≤ l.length ∧ (∀ y ∈ l.take (lb l key), y < key) ∧ (∀ y ∈ l.drop (lb l key), key ≤ y) := by
  have mono : ∀ a b, a ≤ b → b < l.length →
      (fun h => decide (l[h]?.getD [] < key)) b = true →
      (fun h => decide (l[h]?.getD [] < key)) a = true := by
    intro a b hab hb hpb
    have ha : a < l.length := by omega
    simp only [List.getElem?_eq_getElem hb, List.getElem?_eq_getElem ha, Option.getD_some,
      decide_eq_true_eq] at hpb ⊢
    rcases Nat.lt_or_eq_of_le hab with h | h
    · have := (List.pairwise_iff_getElem.mp hs) a b ha hb h
      grind
    · subst h; exact hpb
  have hb := bsearch_spec _ l.length mono
  have hlb : bsearch (fun h => decide (l[h]?.getD [] < key)) 0 l.length = lb l key := rfl
  rw [hlb] at hb
  obtain ⟨h1, h2, h3⟩ := hb
  refine ⟨h1, ?_, ?_⟩
  · intro y hy
    obtain ⟨x, hx, rfl⟩ := List.mem_iff_getElem.mp hy
    have hx' : x < min (lb l key) l.length := by rw [← List.length_take]; exact hx
    have hx1 : x < lb l key := by omega
    have := h2 x hx1
    have hxl : x < l.length := by omega
    simpa [List.getElem?_eq_getElem hxl, List.getElem_take] using this
  · intro y hy
    obtain ⟨x, hx, rfl⟩ := List.mem_iff_getElem.mp hy
    have hx' : x < l.length - lb l key := by rw [← List.length_drop]; exact hx
    have hxl : lb l key + x < l.length := by omega
    have := h3 (lb l key + x) (by omega) hxl
    simp only [List.getElem?_eq_getElem hxl, Option.getD_some, decide_eq_false_iff_not] at this
    simp only [List.getElem_drop]
    grind

/-- `copy(a[i+1:], a[i:]); a[i] = x` on the live part -/
def ins (l : List Key) (i : Nat) (key : Key) : List Key := l.take i ++ key :: l.drop i

theorem mem_ins (l : List Key) (i : Nat) (key x : Key) : x ∈ ins l i key ↔ x = key ∨ x ∈ l := by
  have := List.take_append_drop i l
  constructor
  · intro h
    simp only [ins, List.mem_append, List.mem_cons] at h
    rcases h with h | h | h
    · exact Or.inr (List.mem_of_mem_take h)
    · exact Or.inl h
    · exact Or.inr (List.mem_of_mem_drop h)
  · intro h
    simp only [ins, List.mem_append, List.mem_cons]
    rcases h with h | h
    · exact Or.inr (Or.inl h)
    · rw [← this, List.mem_append] at h
      rcases h with h | h
      · exact Or.inl h
      · exact Or.inr (Or.inr h)

theorem sorted_ins (l : List Key) (key : Key) (hs : Sorted l) (hn : key ∉ l) :
    Sorted (ins l (lb l key) key) := by
  obtain ⟨h1, h2, h3⟩ := lb_spec l key hs
  unfold Sorted ins
  rw [List.pairwise_append]
  refine ⟨hs.sublist (List.take_sublist _ _), ?_, ?_⟩
  · rw [List.pairwise_cons]
    refine ⟨?_, hs.sublist (List.drop_sublist _ _)⟩
    intro y hy
    have hyl : y ∈ l := List.mem_of_mem_drop hy
    have := h3 y hy
    have hne : y ≠ key := fun h => hn (h ▸ hyl)
    grind
  · intro a ha b hb
    have := h2 a ha
    rcases List.mem_cons.mp hb with rfl | hb
    · exact this
    · have := h3 b hb
      grind

/-- the slot at the lower bound decides membership -/
theorem mem_iff_lb (l : List Key) (key : Key) (hs : Sorted l) :
    key ∈ l ↔ (lb l key < l.length ∧ l[lb l key]?.getD [] = key) := by
  obtain ⟨h1, h2, h3⟩ := lb_spec l key hs
  constructor
  · intro hm
    rw [← List.take_append_drop (lb l key) l, List.mem_append] at hm
    rcases hm with hm | hm
    · have := h2 key hm; grind
    · have hlt : lb l key < l.length := by
        have := List.length_pos_of_mem hm
        simp only [List.length_drop] at this; omega
      refine ⟨hlt, ?_⟩
      rw [List.drop_eq_getElem_cons hlt] at hm
      have hs2 : Sorted (l[lb l key] :: l.drop (lb l key + 1)) := by
        rw [← List.drop_eq_getElem_cons hlt]; exact hs.sublist (List.drop_sublist _ _)
      have hle := h3 l[lb l key] (by rw [List.drop_eq_getElem_cons hlt]; exact List.mem_cons_self)
      simp only [List.getElem?_eq_getElem hlt, Option.getD_some]
      rcases List.mem_cons.mp hm with h | h
      · exact h.symm
      · have := (List.pairwise_cons.mp hs2).1 key h
        grind
  · rintro ⟨hlt, he⟩
    simp only [List.getElem?_eq_getElem hlt, Option.getD_some] at he
    exact he ▸ List.getElem_mem hlt

/-! ### leaves -/

theorem live_insertAt (n : Nat) (a : List Key) (i sz : Nat) (key : Key)
    (hl : a.length = n) (hsz : sz < n) (hi : i ≤ sz) :
    (insertAt n a i key).take (sz + 1) = ins (a.take sz) i key := by
  have hia : i ≤ a.length := by omega
  have hA : (a.take i).length = i := by simp [List.length_take]; omega
  simp only [insertAt, ins, List.take_take]
  have e1 : min (sz + 1) n = sz + 1 := by omega
  have e2 : min i sz = i := by omega
  have e3 : sz + 1 - i = (sz - i) + 1 := by omega
  rw [e1, List.take_append, hA, List.take_of_length_le (by omega), e3, List.take_succ_cons,
    e2, List.drop_take]

theorem length_insertAt {α} (n : Nat) (a : List α) (i : Nat) (x : α) (hl : a.length = n) :
    (insertAt n a i x).length = n := by
  simp only [insertAt, List.length_take, List.length_append, List.length_cons, List.length_drop]
  omega

/-- what the code maintains for every leaf: a full-length array, `size` within it, live part strictly ascending.
Nothing is assumed about the stale slots. -/
structure LeafOK (P : Params) (l : Leaf) : Prop where
  len : l.slots.length = P.nodeSize
  sz : l.size ≤ P.nodeSize
  sorted : Sorted l.live

theorem live_length {P : Params} {l : Leaf} (h : LeafOK P l) : l.live.length = l.size := by
  simp only [Leaf.live, List.length_take, h.len]; have := h.sz; omega

theorem get_eq_live (l : Leaf) (x : Nat) (hx : x < l.size) : l.get x = l.live[x]?.getD [] := by
  simp only [Leaf.get, Leaf.live, List.getElem?_take, hx, ↓reduceIte]

theorem search_eq_lb {P : Params} {l : Leaf} (h : LeafOK P l) (key : Key) :
    l.search key = lb l.live key := by
  unfold Leaf.search lb
  rw [live_length h]
  apply bsearch_congr
  intro x _ hx
  rw [get_eq_live l x hx]

theorem leaf_insert_full (P : Params) (l : Leaf) (key : Key) (h : l.size ≥ P.nodeSize) :
    l.insert P key = (l, false) := by
  simp [Leaf.insert, h]

theorem leaf_insert_spec (P : Params) (hg : P.guarded = true) (l : Leaf) (key : Key)
    (h : LeafOK P l) (hsz : l.size < P.nodeSize) :
    (l.insert P key).2 = true ∧ LeafOK P (l.insert P key).1 ∧
      (∀ x, x ∈ (l.insert P key).1.live ↔ x = key ∨ x ∈ l.live) ∧
      l.size ≤ (l.insert P key).1.size ∧ (l.insert P key).1.size ≤ l.size + 1 := by
  have hlen := live_length h
  have hlb := lb_spec l.live key h.sorted
  have hmem := mem_iff_lb l.live key h.sorted
  rw [hlen] at hlb hmem
  have hs := search_eq_lb h key
  unfold Leaf.insert
  have hnf : ¬ l.size ≥ P.nodeSize := by omega
  simp only [hnf, ↓reduceIte, hg, Bool.not_true, Bool.false_or]
  by_cases hc : (decide (l.search key < l.size) && l.get (l.search key) == key) = true
  · -- already there
    simp only [hc, ↓reduceIte]
    have hin : key ∈ l.live := by
      simp only [Bool.and_eq_true, decide_eq_true_eq, beq_iff_eq] at hc
      rw [hmem, ← hs]
      exact ⟨hc.1, by rw [← get_eq_live l _ hc.1]; exact hc.2⟩
    refine ⟨trivial, h, ?_, Nat.le_refl _, Nat.le_succ _⟩
    intro x; constructor
    · exact Or.inr
    · rintro (rfl | hx)
      · exact hin
      · exact hx
  · simp only [hc, Bool.false_eq_true, ↓reduceIte]
    have hnin : key ∉ l.live := by
      intro hin
      apply hc
      rw [hmem, ← hs] at hin
      simp only [Bool.and_eq_true, decide_eq_true_eq, beq_iff_eq]
      exact ⟨hin.1, by rw [get_eq_live l _ hin.1]; exact hin.2⟩
    have hlive : (Leaf.mk (insertAt P.nodeSize l.slots (l.search key) key) (l.size + 1)).live
        = ins l.live (lb l.live key) key := by
      show (insertAt P.nodeSize l.slots (l.search key) key).take (l.size + 1) = _
      rw [live_insertAt P.nodeSize l.slots (l.search key) l.size key h.len hsz (by rw [hs]; exact hlb.1), hs]
      rfl
    refine ⟨trivial, ⟨?_, by show l.size + 1 ≤ _; omega, ?_⟩, ?_, by show l.size ≤ l.size + 1; omega, by show l.size + 1 ≤ _; omega⟩
    · exact length_insertAt _ _ _ _ h.len
    · rw [hlive]; exact sorted_ins _ _ h.sorted hnin
    · intro x; rw [hlive]; exact mem_ins _ _ _ _

/-- the test of `Contains` on the routed leaf -/
theorem leaf_contains_spec {P : Params} {l : Leaf} (h : LeafOK P l) (key : Key) :
    (decide (l.search key < l.size) && l.get (l.search key) == key) = true ↔ key ∈ l.live := by
  have hmem := mem_iff_lb l.live key h.sorted
  rw [live_length h, ← search_eq_lb h] at hmem
  rw [hmem]
  simp only [Bool.and_eq_true, decide_eq_true_eq, beq_iff_eq]
  constructor
  · rintro ⟨h1, h2⟩; exact ⟨h1, by rw [← get_eq_live l _ h1]; exact h2⟩
  · rintro ⟨h1, h2⟩; exact ⟨h1, by rw [get_eq_live l _ h1]; exact h2⟩

/-! ### generic search over a strictly ascending key list with a downward-closed test -/

def bs (ks : List Key) (c : Key → Bool) : Nat :=
  bsearch (fun h => c (ks[h]?.getD [])) 0 ks.length

theorem bs_spec (ks : List Key) (c : Key → Bool) (hs : Sorted ks)
    (hc : ∀ a b, a < b → c b = true → c a = true) :
    bs ks c ≤ ks.length ∧ (∀ y ∈ ks.take (bs ks c), c y = true) ∧ (∀ y ∈ ks.drop (bs ks c), c y = false) := by
  have mono : ∀ a b, a ≤ b → b < ks.length →
      (fun h => c (ks[h]?.getD [])) b = true → (fun h => c (ks[h]?.getD [])) a = true := by
    intro a b hab hb hpb
    have ha : a < ks.length := by omega
    simp only [List.getElem?_eq_getElem hb, List.getElem?_eq_getElem ha, Option.getD_some] at hpb ⊢
    rcases Nat.lt_or_eq_of_le hab with h | h
    · exact hc _ _ ((List.pairwise_iff_getElem.mp hs) a b ha hb h) hpb
    · subst h; exact hpb
  have hb := bsearch_spec _ ks.length mono
  have hlb : bsearch (fun h => c (ks[h]?.getD [])) 0 ks.length = bs ks c := rfl
  rw [hlb] at hb
  obtain ⟨h1, h2, h3⟩ := hb
  refine ⟨h1, ?_, ?_⟩
  · intro y hy
    obtain ⟨x, hx, rfl⟩ := List.mem_iff_getElem.mp hy
    have hx' : x < min (bs ks c) ks.length := by rw [← List.length_take]; exact hx
    have hx1 : x < bs ks c := by omega
    have := h2 x hx1
    have hxl : x < ks.length := by omega
    simpa [List.getElem?_eq_getElem hxl, List.getElem_take] using this
  · intro y hy
    obtain ⟨x, hx, rfl⟩ := List.mem_iff_getElem.mp hy
    have hx' : x < ks.length - bs ks c := by rw [← List.length_drop]; exact hx
    have hxl : bs ks c + x < ks.length := by omega
    have := h3 (bs ks c + x) (by omega) hxl
    simpa [List.getElem?_eq_getElem hxl, List.getElem_drop] using this

/-- the search result is determined by any split of the list into a part passing and a part failing the test -/
theorem bs_unique (ks : List Key) (c : Key → Bool) (hs : Sorted ks)
    (hc : ∀ a b, a < b → c b = true → c a = true) (a b : List Key) (hab : ks = a ++ b)
    (ha : ∀ y ∈ a, c y = true) (hb : ∀ y ∈ b, c y = false) : bs ks c = a.length := by
  obtain ⟨h1, h2, h3⟩ := bs_spec ks c hs hc
  subst hab
  generalize bs (a ++ b) c = r at *
  rw [List.length_append] at h1
  rcases Nat.lt_trichotomy r a.length with h | h | h
  · -- (a++b)[r] is in a (passes) and in drop (fails)
    exfalso
    have hl : r < (a ++ b).length := by rw [List.length_append]; omega
    have hm1 : (a ++ b)[r] ∈ a := by
      rw [List.getElem_append_left h]; exact List.getElem_mem h
    have hm2 : (a ++ b)[r] ∈ (a ++ b).drop r := by
      rw [List.drop_eq_getElem_cons hl]; exact List.mem_cons_self
    have := ha _ hm1; have := h3 _ hm2; simp_all
  · exact h
  · exfalso
    have hl : a.length < (a ++ b).length := by rw [List.length_append]; omega
    have hm1 : (a ++ b)[a.length] ∈ b := by
      rw [List.getElem_append_right (Nat.le_refl _)]; exact List.getElem_mem _
    have hm2 : (a ++ b)[a.length] ∈ (a ++ b).take r := by
      rw [List.mem_take_iff_getElem]
      exact ⟨a.length, by rw [List.length_append]; omega, rfl⟩
    have := hb _ hm1; have := h2 _ hm2; simp_all

/-! ### the tree node -/

def keys (t : Tree) : List Key := t.map (·.key)

theorem tsearch_eq_bs (t : Tree) (k : Key) : t.search k = bs (keys t) (fun y => decide (y ≤ k)) := by
  unfold Tree.search bs keys
  rw [List.length_map]
  apply bsearch_congr
  intro x _ _
  simp only [Tree.keyAt, List.getElem?_map]
  rfl

theorem le_closed (k : Key) : ∀ a b : Key, a < b → decide (b ≤ k) = true → decide (a ≤ k) = true := by
  intro a b hab hb
  simp only [decide_eq_true_eq] at hb ⊢
  grind

/-- routing: the slot `tree.slots[searchBinary(key)-1]` exists, its separator is ≤ key and all later separators are > key -/
theorem route (t : Tree) (hs : Sorted (keys t)) (hne : t ≠ [])
    (hf : ∀ s, t.head? = some s → s.key = []) (k : Key) :
    ∃ pre s post, t = pre ++ s :: post ∧ t.search k = pre.length + 1 ∧ s.key ≤ k ∧
      ∀ s' ∈ post, k < s'.key := by
  obtain ⟨h1, h2, h3⟩ := bs_spec (keys t) (fun y => decide (y ≤ k)) hs (le_closed k)
  rw [← tsearch_eq_bs] at h1 h2 h3
  have hlen : (keys t).length = t.length := by simp [keys]
  rw [hlen] at h1
  have hr : t.search k ≠ 0 := by
    intro h0
    rw [h0] at h3
    cases t with
    | nil => exact hne rfl
    | cons s0 rest =>
      have := hf s0 rfl
      have h := h3 s0.key (by simp [keys])
      rw [this] at h
      simp at h
  obtain ⟨m, hm⟩ : ∃ m, t.search k = m + 1 := ⟨t.search k - 1, by omega⟩
  rw [hm] at h1 h2 h3
  rw [hm]
  have hlt : m < t.length := by omega
  refine ⟨t.take m, t[m], t.drop (m + 1), ?_, ?_, ?_, ?_⟩
  · rw [← List.drop_eq_getElem_cons hlt, List.take_append_drop]
  · rw [List.length_take]; omega
  · have hmm : t[m].key ∈ (keys t).take (m + 1) := by
      simp only [keys, ← List.map_take]
      apply List.mem_map_of_mem
      rw [List.mem_take_iff_getElem]
      exact ⟨m, by omega, rfl⟩
    simpa using h2 _ hmm
  · intro s' hs'
    have hmm : s'.key ∈ (keys t).drop (m + 1) := by
      simp only [keys, ← List.map_drop]
      exact List.mem_map_of_mem hs'
    have := h3 _ hmm
    simp only [decide_eq_false_iff_not] at this
    grind

theorem leafAt_mid (P : Params) (pre : Tree) (s : TSlot) (post : Tree) :
    Tree.leafAt P (pre ++ s :: post) pre.length = s.leaf := by
  simp [Tree.leafAt]

theorem setLeaf_mid (pre : Tree) (s : TSlot) (post : Tree) (l : Leaf) :
    Tree.setLeaf (pre ++ s :: post) pre.length l = pre ++ ⟨s.key, l⟩ :: post := by
  induction pre with
  | nil => simp [Tree.setLeaf]
  | cons a pre ih =>
    simp only [Tree.setLeaf, List.cons_append, List.length_cons, List.modify_succ_cons] at ih ⊢
    rw [ih]

/-! ### the invariant (DESIGN Appendix A.4) -/

/-- slot `a` precedes slot `b`: separators ascend and every key of `a`'s leaf is below `b`'s separator -/
def Before (a b : TSlot) : Prop := a.key < b.key ∧ ∀ k ∈ a.leaf.live, k < b.key

structure SlotOK (P : Params) (s : TSlot) : Prop where
  leaf : LeafOK P s.leaf
  pos : 0 < s.leaf.size
  lower : ∀ k ∈ s.leaf.live, s.key ≤ k

structure TreeOK (P : Params) (t : Tree) : Prop where
  ne : t ≠ []
  len : t.length ≤ P.nodeSize
  first : ∀ s, t.head? = some s → s.key = []
  slots : ∀ s ∈ t, SlotOK P s
  ordered : t.Pairwise Before

def telems (t : Tree) : List Key := t.flatMap (·.leaf.live)

theorem keys_sorted {t : Tree} (h : t.Pairwise Before) : Sorted (keys t) := by
  unfold Sorted keys
  rw [List.pairwise_map]
  exact h.imp (fun h => h.1)

/-- facts about the neighbours of a slot in an ordered tree -/
theorem mid_facts {P : Params} {pre : Tree} {s : TSlot} {post : Tree} (hT : TreeOK P (pre ++ s :: post)) :
    (∀ a ∈ pre, a.key < s.key ∧ ∀ x ∈ a.leaf.live, x < s.key) ∧
    (∀ b ∈ post, s.key < b.key ∧ ∀ x ∈ s.leaf.live, x < b.key) ∧
    (∀ a ∈ pre, ∀ b ∈ post, Before a b) ∧ pre.Pairwise Before ∧ post.Pairwise Before := by
  have h := hT.ordered
  rw [List.pairwise_append, List.pairwise_cons] at h
  obtain ⟨hp, ⟨hs, hpost⟩, hx⟩ := h
  exact ⟨fun a ha => hx a ha s List.mem_cons_self, hs,
    fun a ha b hb => hx a ha b (List.mem_cons_of_mem _ hb), hp, hpost⟩

/-- replace the slot `s` by the non-empty run `mid` of slots covering the same key range -/
theorem replace_mid (P : Params) (pre : Tree) (s : TSlot) (post mid : Tree)
    (hT : TreeOK P (pre ++ s :: post))
    (hne : mid ≠ []) (hhead : ∀ m, mid.head? = some m → m.key = s.key)
    (hkeys : ∀ m ∈ mid, s.key ≤ m.key)
    (hslots : ∀ m ∈ mid, SlotOK P m) (hord : mid.Pairwise Before)
    (hbound : ∀ m ∈ mid, ∀ b ∈ post, Before m b)
    (hlen : (pre ++ mid ++ post).length ≤ P.nodeSize) : TreeOK P (pre ++ mid ++ post) := by
  obtain ⟨f1, f2, f3, f4, f5⟩ := mid_facts hT
  refine ⟨by simp [hne], hlen, ?_, ?_, ?_⟩
  · intro s0 h0
    cases pre with
    | nil =>
      cases mid with
      | nil => exact absurd rfl hne
      | cons m rest =>
        simp only [List.nil_append, List.cons_append, List.head?_cons, Option.some.injEq] at h0
        subst h0
        rw [hhead m rfl]
        exact hT.first s rfl
    | cons a pre =>
      simp only [List.cons_append, List.head?_cons, Option.some.injEq] at h0
      subst h0
      exact hT.first a rfl
  · intro x hx
    simp only [List.mem_append] at hx
    rcases hx with (hx | hx) | hx
    · exact hT.slots x (by simp [hx])
    · exact hslots x hx
    · exact hT.slots x (by simp [hx])
  · rw [List.pairwise_append, List.pairwise_append]
    refine ⟨⟨f4, hord, ?_⟩, f5, ?_⟩
    · intro a ha m hm
      have := f1 a ha
      have := hkeys m hm
      exact ⟨by grind, fun x hx => by have := (f1 a ha).2 x hx; grind⟩
    · intro a ha b hb
      rcases List.mem_append.mp ha with ha | ha
      · exact f3 a ha b hb
      · exact hbound a ha b hb

theorem insertLeaf_spec (P : Params) (hg : P.guarded = true) (t : Tree) (k : Key) (hT : TreeOK P t)
    (hnf : (t.leafAt P (t.search k - 1)).size < P.nodeSize) :
    (t.insertLeaf P k).2 = true ∧ TreeOK P (t.insertLeaf P k).1 ∧
      (∀ x, x ∈ telems (t.insertLeaf P k).1 ↔ x = k ∨ x ∈ telems t) := by
  obtain ⟨pre, s, post, rfl, hr, hk1, hk2⟩ := route t (keys_sorted hT.ordered) hT.ne hT.first k
  have hti : Tree.search (pre ++ s :: post) k - 1 = pre.length := by omega
  simp only [Tree.insertLeaf, hti, leafAt_mid, setLeaf_mid] at hnf ⊢
  have hS := hT.slots s (by simp)
  obtain ⟨h1, h2, h3, h4, h5⟩ := leaf_insert_spec P hg s.leaf k hS.leaf hnf
  obtain ⟨f1, f2, f3, f4, f5⟩ := mid_facts hT
  refine ⟨h1, ?_, ?_⟩
  · have := replace_mid P pre s post [⟨s.key, (s.leaf.insert P k).1⟩] hT (by simp)
      (by intro m hm; simp at hm; subst hm; rfl)
      (by intro m hm; simp at hm; subst hm; exact Std.le_refl _)
      (by
        intro m hm; simp at hm; subst hm
        refine ⟨h2, by have := hS.pos; show 0 < (Leaf.insert P s.leaf k).1.size; omega, ?_⟩
        intro x hx
        rcases (h3 x).mp hx with rfl | hx
        · exact hk1
        · exact hS.lower x hx)
      (by simp)
      (by
        intro m hm b hb; simp at hm; subst hm
        refine ⟨(f2 b hb).1, ?_⟩
        intro x hx
        rcases (h3 x).mp hx with rfl | hx
        · exact hk2 b hb
        · exact (f2 b hb).2 x hx)
      (by have := hT.len; simpa using this)
    simpa using this
  · intro x
    simp only [telems, List.flatMap_append, List.flatMap_cons, List.mem_append, h3]
    constructor
    · rintro (h | (h | h) | h)
      · exact Or.inr (Or.inl h)
      · exact Or.inl h
      · exact Or.inr (Or.inr (Or.inl h))
      · exact Or.inr (Or.inr (Or.inr h))
    · rintro (h | h | h | h)
      · exact Or.inr (Or.inl (Or.inl h))
      · exact Or.inl h
      · exact Or.inr (Or.inl (Or.inr h))
      · exact Or.inr (Or.inr h)

/-! ### split -/

/-- the constants satisfy what the algorithm needs (checked for the regenerated values in Props) -/
structure Params.Valid (P : Params) : Prop where
  guarded : P.guarded = true
  lo : 0 < P.leftLo ∧ P.leftLo < P.nodeSize
  mid : 0 < P.leftMid ∧ P.leftMid < P.nodeSize
  hi : 0 < P.leftHi ∧ P.leftHi < P.nodeSize

theorem splitPoint_bounds {P : Params} (hP : P.Valid) (l : Leaf) (k : Key) :
    0 < splitPoint P l k ∧ splitPoint P l k < P.nodeSize := by
  unfold splitPoint
  split
  · exact hP.hi
  · split
    · exact hP.lo
    · exact hP.mid

theorem tsearch_mid (pre : Tree) (s : TSlot) (post : Tree) (k : Key)
    (hs : Sorted (keys (pre ++ s :: post))) (h1 : ∀ a ∈ pre, a.key ≤ k) (h1' : s.key ≤ k)
    (h2 : ∀ b ∈ post, k < b.key) : Tree.search (pre ++ s :: post) k = pre.length + 1 := by
  rw [tsearch_eq_bs]
  have := bs_unique (keys (pre ++ s :: post)) (fun y => decide (y ≤ k)) hs (le_closed k)
    (keys pre ++ [s.key]) (keys post) (by simp [keys])
    (by
      intro y hy
      simp only [keys, List.mem_append, List.mem_map, List.mem_singleton] at hy
      rcases hy with ⟨a, ha, rfl⟩ | rfl
      · simpa using h1 a ha
      · simpa using h1')
    (by
      intro y hy
      simp only [keys, List.mem_map] at hy
      obtain ⟨b, hb, rfl⟩ := hy
      have := h2 b hb
      simp only [decide_eq_false_iff_not]
      grind)
  rw [this]; simp [keys]

theorem tinsert_mid (pre : Tree) (s1 : TSlot) (post : Tree) (sep : Key) (l2 : Leaf)
    (hs : Sorted (keys (pre ++ s1 :: post))) (h1 : ∀ a ∈ pre, a.key ≤ sep) (h1' : s1.key ≤ sep)
    (h2 : ∀ b ∈ post, sep < b.key) :
    Tree.insert (pre ++ s1 :: post) sep l2 = pre ++ s1 :: ⟨sep, l2⟩ :: post := by
  have e : pre ++ s1 :: post = (pre ++ [s1]) ++ post := by simp
  have hl : (pre ++ [s1]).length = pre.length + 1 := by simp
  show List.take (Tree.search (pre ++ s1 :: post) sep) (pre ++ s1 :: post) ++
      ⟨sep, l2⟩ :: List.drop (Tree.search (pre ++ s1 :: post) sep) (pre ++ s1 :: post) = _
  rw [tsearch_mid pre s1 post sep hs h1 h1' h2, e, ← hl, List.take_left' rfl, List.drop_left' rfl]
  simp

theorem keys_setLeaf (pre : Tree) (s : TSlot) (post : Tree) (l : Leaf) :
    keys (pre ++ ⟨s.key, l⟩ :: post) = keys (pre ++ s :: post) := by simp [keys]

/-- splitting the full routed leaf keeps the invariant and the keys, and leaves room in the leaf the key routes to -/
theorem splitAt_spec (P : Params) (hP : P.Valid) (t : Tree) (k : Key) (hT : TreeOK P t)
    (hfull : (t.leafAt P (t.search k - 1)).size ≥ P.nodeSize) (hlen : t.length < P.nodeSize) :
    TreeOK P (t.splitAt P (t.search k - 1) k) ∧
      (∀ x, x ∈ telems (t.splitAt P (t.search k - 1) k) ↔ x ∈ telems t) ∧
      ((t.splitAt P (t.search k - 1) k).leafAt P ((t.splitAt P (t.search k - 1) k).search k - 1)).size
        < P.nodeSize := by
  obtain ⟨pre, s, post, rfl, hr, hk1, hk2⟩ := route t (keys_sorted hT.ordered) hT.ne hT.first k
  have hti : Tree.search (pre ++ s :: post) k - 1 = pre.length := by omega
  rw [hti] at hfull ⊢
  rw [leafAt_mid] at hfull
  have hS := hT.slots s (by simp)
  obtain ⟨f1, f2, f3, f4, f5⟩ := mid_facts hT
  obtain ⟨hl0, hl1⟩ := splitPoint_bounds hP s.leaf k
  have hsz : s.leaf.size = P.nodeSize := by have := hS.leaf.sz; omega
  have hlive : s.leaf.live = s.leaf.slots := by
    simp only [Leaf.live]; exact List.take_of_length_le (by rw [hS.leaf.len, hsz]; exact Nat.le_refl _)
  generalize hleft : splitPoint P s.leaf k = left at hl0 hl1
  have hdl : left < s.leaf.slots.length := by rw [hS.leaf.len]; exact hl1
  -- the right leaf starts with `sep`
  obtain ⟨sep, tl, hdrop⟩ : ∃ sep tl, s.leaf.slots.drop left = sep :: tl :=
    ⟨_, _, List.drop_eq_getElem_cons hdl⟩
  have hsplit : s.leaf.slots = s.leaf.slots.take left ++ sep :: tl := by
    rw [← hdrop, List.take_append_drop]
  have hsorted : Sorted (s.leaf.slots.take left ++ sep :: tl) := by
    rw [← hsplit, ← hlive]; exact hS.leaf.sorted
  unfold Sorted at hsorted
  rw [List.pairwise_append, List.pairwise_cons] at hsorted
  obtain ⟨so1, ⟨so2, so3⟩, so4⟩ := hsorted
  -- the two leaves
  have hl2live : (Leaf.mk (s.leaf.slots.drop left ++ List.replicate left []) (P.nodeSize - left)).live
      = sep :: tl := by
    simp only [Leaf.live]
    rw [List.take_left' (by rw [List.length_drop, hS.leaf.len]), hdrop]
  have hl1live : (Leaf.mk s.leaf.slots left).live = s.leaf.slots.take left := rfl
  have hget : (Leaf.mk (s.leaf.slots.drop left ++ List.replicate left []) (P.nodeSize - left)).get 0 = sep := by
    simp [Leaf.get, hdrop]
  have hsepmem : sep ∈ s.leaf.live := by rw [hlive, hsplit]; simp
  have hmem1 : ∀ x ∈ s.leaf.slots.take left, x ∈ s.leaf.live := by
    intro x hx; rw [hlive]; exact List.mem_of_mem_take hx
  have hmem2 : ∀ x ∈ sep :: tl, x ∈ s.leaf.live := by
    intro x hx; rw [hlive, hsplit]; exact List.mem_append_right _ hx
  have hne1 : s.leaf.slots.take left ≠ [] := by
    intro h
    have := congrArg List.length h
    simp only [List.length_take, List.length_nil] at this
    omega
  have hkeysep : s.key < sep := by
    cases hx : s.leaf.slots.take left with
    | nil => exact absurd hx hne1
    | cons x0 rest =>
      have hx0 : x0 ∈ s.leaf.slots.take left := by rw [hx]; simp
      have h1 := hS.lower x0 (hmem1 x0 hx0)
      have h2 := so4 x0 hx0 sep (by simp)
      grind
  -- unfold the split
  have hsplitAt : Tree.splitAt P (pre ++ s :: post) pre.length k =
      pre ++ ⟨s.key, ⟨s.leaf.slots, left⟩⟩ ::
        ⟨sep, ⟨s.leaf.slots.drop left ++ List.replicate left [], P.nodeSize - left⟩⟩ :: post := by
    simp only [Tree.splitAt, leafAt_mid, splitLeaf, hleft, setLeaf_mid, hget]
    apply tinsert_mid
    · rw [keys_setLeaf]; exact keys_sorted hT.ordered
    · intro a ha; have := (f1 a ha).1; grind
    · grind
    · intro b hb; exact (f2 b hb).2 sep hsepmem
  rw [hsplitAt]
  have hslot1 : SlotOK P ⟨s.key, ⟨s.leaf.slots, left⟩⟩ :=
    ⟨⟨hS.leaf.len, Nat.le_of_lt hl1, by rw [hl1live]; exact so1⟩, hl0,
      fun x hx => hS.lower x (hmem1 x hx)⟩
  have hslot2 : SlotOK P ⟨sep, ⟨s.leaf.slots.drop left ++ List.replicate left [], P.nodeSize - left⟩⟩ := by
    refine ⟨⟨?_, Nat.sub_le _ _, ?_⟩, by show 0 < P.nodeSize - left; omega, ?_⟩
    · simp only [List.length_append, List.length_drop, List.length_replicate, hS.leaf.len]; omega
    · rw [hl2live]; exact List.pairwise_cons.mpr ⟨so2, so3⟩
    · intro x hx
      rw [hl2live] at hx
      rcases List.mem_cons.mp hx with rfl | hx
      · exact Std.le_refl _
      · have := so2 x hx; grind
  have hT2 := replace_mid P pre s post
    [⟨s.key, ⟨s.leaf.slots, left⟩⟩,
     ⟨sep, ⟨s.leaf.slots.drop left ++ List.replicate left [], P.nodeSize - left⟩⟩] hT (by simp)
    (by intro m hm; simp at hm; subst hm; rfl)
    (by
      intro m hm; simp at hm
      rcases hm with rfl | rfl
      · exact Std.le_refl _
      · show s.key ≤ sep; grind)
    (by
      intro m hm; simp at hm
      rcases hm with rfl | rfl
      · exact hslot1
      · exact hslot2)
    (by
      simp only [List.pairwise_cons, List.mem_singleton, List.not_mem_nil, false_imp_iff, implies_true,
        List.Pairwise.nil, and_true, forall_eq]
      exact ⟨hkeysep, fun x hx => so4 x hx sep (by simp)⟩)
    (by
      intro m hm b hb; simp at hm
      rcases hm with rfl | rfl
      · exact ⟨(f2 b hb).1, fun x hx => (f2 b hb).2 x (hmem1 x hx)⟩
      · refine ⟨(f2 b hb).2 sep hsepmem, fun x hx => (f2 b hb).2 x (hmem2 x ?_)⟩
        rw [hl2live] at hx; exact hx)
    (by simp only [List.length_append, List.length_cons, List.length_nil] at hlen ⊢; omega)
  have hT2' : TreeOK P (pre ++ ⟨s.key, ⟨s.leaf.slots, left⟩⟩ ::
      ⟨sep, ⟨s.leaf.slots.drop left ++ List.replicate left [], P.nodeSize - left⟩⟩ :: post) := by
    simpa using hT2
  refine ⟨hT2', ?_, ?_⟩
  · intro x
    simp only [telems, List.flatMap_append, List.flatMap_cons, List.mem_append, hl2live, hl1live]
    rw [hlive]
    have : x ∈ s.leaf.slots ↔ x ∈ s.leaf.slots.take left ∨ x ∈ sep :: tl := by
      conv => lhs; rw [hsplit]
      exact List.mem_append
    rw [this]
    constructor
    · rintro (h | h | h | h)
      · exact Or.inl h
      · exact Or.inr (Or.inl (Or.inl h))
      · exact Or.inr (Or.inl (Or.inr h))
      · exact Or.inr (Or.inr h)
    · rintro (h | (h | h) | h)
      · exact Or.inl h
      · exact Or.inr (Or.inl h)
      · exact Or.inr (Or.inr (Or.inl h))
      · exact Or.inr (Or.inr (Or.inr h))
  · -- where does k route now?
    have hks := keys_sorted hT2'.ordered
    by_cases hc : k < sep
    · rw [tsearch_mid pre _ _ k hks (fun a ha => by have := (f1 a ha).1; grind) hk1
        (by
          intro b hb
          rcases List.mem_cons.mp hb with rfl | hb
          · exact hc
          · exact hk2 b hb)]
      simp only [Nat.add_sub_cancel, leafAt_mid]
      exact hl1
    · have e : pre ++ ⟨s.key, ⟨s.leaf.slots, left⟩⟩ ::
          ⟨sep, ⟨s.leaf.slots.drop left ++ List.replicate left [], P.nodeSize - left⟩⟩ :: post =
          (pre ++ [⟨s.key, ⟨s.leaf.slots, left⟩⟩]) ++
          ⟨sep, ⟨s.leaf.slots.drop left ++ List.replicate left [], P.nodeSize - left⟩⟩ :: post := by simp
      rw [e] at hks ⊢
      rw [tsearch_mid _ _ _ k hks
        (by
          intro a ha
          rcases List.mem_append.mp ha with ha | ha
          · have := (f1 a ha).1; grind
          · simp at ha; subst ha; exact hk1)
        (by show sep ≤ k; grind) hk2]
      simp only [Nat.add_sub_cancel, leafAt_mid]
      show P.nodeSize - left < P.nodeSize
      omega

/-! ### queries -/

/-- the slot found by `searchBinary(from)` in a leaf: the least key ≥ from of that leaf, if any -/
theorem leaf_any_spec {P : Params} {l : Leaf} (h : LeafOK P l) (f : Key) :
    (l.search f < l.size → l.get (l.search f) ∈ l.live ∧ f ≤ l.get (l.search f) ∧
        ∀ x ∈ l.live, f ≤ x → l.get (l.search f) ≤ x) ∧
    (l.search f ≥ l.size → ∀ x ∈ l.live, x < f) := by
  have hlen := live_length h
  obtain ⟨h1, h2, h3⟩ := lb_spec l.live f h.sorted
  rw [← search_eq_lb h] at h1 h2 h3
  constructor
  · intro hlt
    have hlt' : l.search f < l.live.length := by omega
    have hg : l.get (l.search f) = l.live[l.search f] := by
      rw [get_eq_live l _ hlt, List.getElem?_eq_getElem hlt', Option.getD_some]
    have hd : l.live.drop (l.search f) = l.live[l.search f] :: l.live.drop (l.search f + 1) :=
      List.drop_eq_getElem_cons hlt'
    rw [hg]
    refine ⟨List.getElem_mem _, h3 _ (by rw [hd]; exact List.mem_cons_self), ?_⟩
    intro x hx hfx
    rw [← List.take_append_drop (l.search f) l.live, List.mem_append] at hx
    rcases hx with hx | hx
    · have := h2 x hx; grind
    · rw [hd] at hx
      rcases List.mem_cons.mp hx with rfl | hx
      · exact Std.le_refl _
      · have hs2 : Sorted (l.live[l.search f] :: l.live.drop (l.search f + 1)) := by
          rw [← hd]; exact h.sorted.sublist (List.drop_sublist _ _)
        have := (List.pairwise_cons.mp hs2).1 x hx
        grind
  · intro hge x hx
    have : l.live.take (l.search f) = l.live := List.take_of_length_le (by omega)
    rw [← this] at hx
    exact h2 x hx

theorem mem_telems_mid (pre : Tree) (s : TSlot) (post : Tree) (x : Key) :
    x ∈ telems (pre ++ s :: post) ↔ x ∈ telems pre ∨ x ∈ s.leaf.live ∨ x ∈ telems post := by
  simp [telems, List.flatMap_append]

/-- keys in slots before the routed one are below its separator; keys after are above the probe -/
theorem routed_facts {P : Params} {pre : Tree} {s : TSlot} {post : Tree} (hT : TreeOK P (pre ++ s :: post))
    (k : Key) (hk1 : s.key ≤ k) (hk2 : ∀ b ∈ post, k < b.key) :
    (∀ x ∈ telems pre, x < k) ∧ (∀ x ∈ telems post, k < x ∧ ∀ y ∈ s.leaf.live, y < x) := by
  obtain ⟨f1, f2, f3, f4, f5⟩ := mid_facts hT
  constructor
  · intro x hx
    obtain ⟨a, ha, hxa⟩ := List.mem_flatMap.mp hx
    have := (f1 a ha).2 x hxa
    grind
  · intro x hx
    obtain ⟨b, hb, hxb⟩ := List.mem_flatMap.mp hx
    have h1 := (hT.slots b (by simp [hb])).lower x hxb
    have h2 := hk2 b hb
    refine ⟨by grind, fun y hy => ?_⟩
    have := (f2 b hb).2 y hy
    grind

/-- the invariant of a set -/
def SetOK (P : Params) : Set → Prop
  | .small l => LeafOK P l
  | .big t => TreeOK P t

theorem empty_ok (P : Params) : SetOK P (Set.empty P) := by
  refine ⟨by simp [Leaf.empty], Nat.zero_le _, ?_⟩
  simp [Leaf.live, Leaf.empty, Sorted]

theorem singleton_tree_ok {P : Params} (hP : P.Valid) {l : Leaf} (h : LeafOK P l)
    (hfull : l.size ≥ P.nodeSize) : TreeOK P [⟨[], l⟩] := by
  have := hP.lo
  refine ⟨by simp, by simp; omega, by intro s hs; simp at hs; subst hs; rfl, ?_, by simp⟩
  intro s hs
  simp at hs; subst hs
  exact ⟨h, by show 0 < l.size; omega, fun k _ => by simp⟩

theorem set_insert_spec (P : Params) (hP : P.Valid) (s : Set) (k : Key) (h : SetOK P s) :
    SetOK P (s.insert P k).1 ∧
      ((s.insert P k).2 = true → ∀ x, x ∈ (s.insert P k).1.elems ↔ x = k ∨ x ∈ s.elems) ∧
      ((s.insert P k).2 = false → (s.insert P k).1 = s) := by
  cases s with
  | small l =>
    simp only [Set.insert]
    by_cases hfull : l.size ≥ P.nodeSize
    · simp only [hfull, ↓reduceIte]
      have hT0 := singleton_tree_ok hP h hfull
      have hs0 : Tree.search [⟨[], l⟩] k = 1 :=
        tsearch_mid [] ⟨[], l⟩ [] k (keys_sorted hT0.ordered) (by simp) (by simp) (by simp)
      have e0 : (0 : Nat) = Tree.search [⟨[], l⟩] k - 1 := by rw [hs0]
      rw [e0]
      obtain ⟨a1, a2, a3⟩ := splitAt_spec P hP [⟨[], l⟩] k hT0
        (by rw [hs0]; simpa [Tree.leafAt] using hfull) (by have := hP.lo; simp; omega)
      obtain ⟨b1, b2, b3⟩ := insertLeaf_spec P hP.guarded _ k a1 a3
      refine ⟨b2, fun _ x => ?_, fun hf => by rw [b1] at hf; cases hf⟩
      show x ∈ telems _ ↔ _
      rw [b3 x, a2 x]
      simp [telems, Set.elems]
    · simp only [hfull, ↓reduceIte]
      obtain ⟨b1, b2, b3, _, _⟩ := leaf_insert_spec P hP.guarded l k h (by omega)
      exact ⟨b2, fun _ x => b3 x, fun hf => by rw [b1] at hf; cases hf⟩
  | big t =>
    simp only [Set.insert]
    by_cases hfull : (Tree.leafAt P t (Tree.search t k - 1)).size ≥ P.nodeSize
    · simp only [hfull, ↓reduceIte]
      by_cases hlen : t.length ≥ P.nodeSize
      · simp only [hlen, ↓reduceIte]
        exact ⟨h, fun hf => Bool.noConfusion hf, fun _ => trivial⟩
      · simp only [hlen, ↓reduceIte]
        obtain ⟨a1, a2, a3⟩ := splitAt_spec P hP t k h hfull (by omega)
        obtain ⟨b1, b2, b3⟩ := insertLeaf_spec P hP.guarded _ k a1 a3
        refine ⟨b2, fun _ x => ?_, fun hf => by rw [b1] at hf; cases hf⟩
        show x ∈ telems _ ↔ _
        rw [b3 x, a2 x]; rfl
    · simp only [hfull, ↓reduceIte]
      obtain ⟨b1, b2, b3⟩ := insertLeaf_spec P hP.guarded t k h (by omega)
      exact ⟨b2, fun _ x => b3 x, fun hf => by rw [b1] at hf; cases hf⟩

theorem set_contains_iff (P : Params) (s : Set) (k : Key) (h : SetOK P s) :
    s.contains P k = true ↔ k ∈ s.elems := by
  cases s with
  | small l => exact leaf_contains_spec h k
  | big t =>
    obtain ⟨pre, sl, post, rfl, hr, hk1, hk2⟩ := route t (keys_sorted h.ordered) h.ne h.first k
    have hti : Tree.search (pre ++ sl :: post) k - 1 = pre.length := by omega
    simp only [Set.contains, Set.search, hti, leafAt_mid, Set.elems]
    rw [leaf_contains_spec (h.slots sl (by simp)).leaf k]
    show _ ↔ k ∈ telems _
    rw [mem_telems_mid]
    obtain ⟨r1, r2⟩ := routed_facts h k hk1 hk2
    constructor
    · exact fun hm => Or.inr (Or.inl hm)
    · rintro (hm | hm | hm)
      · have := r1 k hm; grind
      · exact hm
      · have := (r2 k hm).1; grind

theorem set_anyInRange_iff (P : Params) (s : Set) (f to : Key) (h : SetOK P s) :
    s.anyInRange P f to = true ↔ ∃ x ∈ s.elems, f ≤ x ∧ x ≤ to := by
  cases s with
  | small l =>
    obtain ⟨c1, c2⟩ := leaf_any_spec h f
    simp only [Set.anyInRange, Set.search, Set.elems]
    by_cases hge : l.search f ≥ l.size
    · simp only [hge, ↓reduceIte, Bool.false_eq_true, false_iff]
      rintro ⟨x, hx, hfx, _⟩
      have := c2 hge x hx; grind
    · simp only [hge, ↓reduceIte]
      obtain ⟨d1, d2, d3⟩ := c1 (by omega)
      constructor
      · exact fun hle => ⟨_, d1, d2, of_decide_eq_true hle⟩
      · rintro ⟨x, hx, hfx, hxt⟩
        apply decide_eq_true
        have := d3 x hx hfx; grind
  | big t =>
    obtain ⟨pre, sl, post, rfl, hr, hk1, hk2⟩ := route t (keys_sorted h.ordered) h.ne h.first f
    have hti : Tree.search (pre ++ sl :: post) f - 1 = pre.length := by omega
    have hS := h.slots sl (by simp)
    obtain ⟨c1, c2⟩ := leaf_any_spec hS.leaf f
    obtain ⟨r1, r2⟩ := routed_facts h f hk1 hk2
    simp only [Set.anyInRange, Set.search, hti, leafAt_mid, Set.elems]
    show _ ↔ ∃ x ∈ telems _, _
    by_cases hge : sl.leaf.search f ≥ sl.leaf.size
    · simp only [hge, ↓reduceIte]
      cases post with
      | nil =>
        have : pre.length + 1 ≥ (pre ++ [sl]).length := by simp
        simp only [this, ↓reduceIte, Bool.false_eq_true, false_iff]
        rintro ⟨x, hx, hfx, _⟩
        rw [mem_telems_mid] at hx
        rcases hx with hx | hx | hx
        · have := r1 x hx; grind
        · have := c2 hge x hx; grind
        · simp [telems] at hx
      | cons b post' =>
        have hnl : ¬ pre.length + 1 ≥ (pre ++ sl :: b :: post').length := by simp
        simp only [hnl, ↓reduceIte]
        have e : pre ++ sl :: b :: post' = (pre ++ [sl]) ++ b :: post' := by simp
        have el : pre.length + 1 = (pre ++ [sl]).length := by simp
        have hleaf : Tree.leafAt P (pre ++ sl :: b :: post') (pre.length + 1) = b.leaf := by
          rw [e, el, leafAt_mid]
        rw [hleaf]
        have hB := h.slots b (by simp)
        have hBlen := live_length hB.leaf
        -- the first key of the next leaf
        have hb0 : 0 < b.leaf.live.length := by have := hB.pos; omega
        have hg : b.leaf.get 0 = b.leaf.live[0] := by
          rw [get_eq_live _ _ hB.pos, List.getElem?_eq_getElem hb0, Option.getD_some]
        have hmem0 : b.leaf.live[0] ∈ b.leaf.live := List.getElem_mem _
        have hmin : ∀ x ∈ b.leaf.live, b.leaf.live[0] ≤ x := by
          intro x hx
          obtain ⟨i, hi, rfl⟩ := List.mem_iff_getElem.mp hx
          rcases Nat.eq_zero_or_pos i with rfl | hpos
          · exact Std.le_refl _
          · have := (List.pairwise_iff_getElem.mp hB.leaf.sorted) 0 i hb0 hi hpos
            grind
        have hTb : TreeOK P ((pre ++ [sl]) ++ b :: post') := by rw [← e]; exact h
        obtain ⟨g1, g2, g3, g4, g5⟩ := mid_facts hTb
        rw [hg]
        constructor
        · intro hle
          refine ⟨_, ?_, ?_, of_decide_eq_true hle⟩
          · rw [mem_telems_mid]; right; right
            simp only [telems, List.flatMap_cons, List.mem_append]
            exact Or.inl hmem0
          · have := (r2 b.leaf.live[0] (by
              simp only [telems, List.flatMap_cons, List.mem_append]; exact Or.inl hmem0)).1
            grind
        · rintro ⟨x, hx, hfx, hxt⟩
          apply decide_eq_true
          rw [mem_telems_mid] at hx
          rcases hx with hx | hx | hx
          · have := r1 x hx; grind
          · have := c2 hge x hx; grind
          · simp only [telems, List.flatMap_cons, List.mem_append] at hx
            rcases hx with hx | hx
            · have := hmin x hx; grind
            · obtain ⟨b', hb', hxb'⟩ := List.mem_flatMap.mp hx
              have h1 := (g2 b' hb').2 _ hmem0
              have h2 := (h.slots b' (by simp [hb'])).lower x hxb'
              grind
    · simp only [hge, ↓reduceIte]
      obtain ⟨d1, d2, d3⟩ := c1 (by omega)
      constructor
      · intro hle
        exact ⟨_, by rw [mem_telems_mid]; exact Or.inr (Or.inl d1), d2, of_decide_eq_true hle⟩
      · rintro ⟨x, hx, hfx, hxt⟩
        apply decide_eq_true
        rw [mem_telems_mid] at hx
        rcases hx with hx | hx | hx
        · have := r1 x hx; grind
        · have := d3 x hx hfx; grind
        · have := (r2 x hx).2 _ d1; grind

/-! ### histories -/

/-- one `Insert` of a history: the set and the keys whose `Insert` returned true so far -/
def stepInsert (P : Params) (st : Set × List Key) (k : Key) : Set × List Key :=
  ((st.1.insert P k).1, if (st.1.insert P k).2 then k :: st.2 else st.2)

/-- any sequence of `Insert`s from the empty set -/
def runInserts (P : Params) (ks : List Key) : Set × List Key :=
  ks.foldl (stepInsert P) (Set.empty P, [])

theorem run_inv (P : Params) (hP : P.Valid) (ks : List Key) (st : Set × List Key)
    (h : SetOK P st.1) (hm : ∀ x, x ∈ st.1.elems ↔ x ∈ st.2) :
    SetOK P (ks.foldl (stepInsert P) st).1 ∧
      ∀ x, x ∈ (ks.foldl (stepInsert P) st).1.elems ↔ x ∈ (ks.foldl (stepInsert P) st).2 := by
  induction ks generalizing st with
  | nil => exact ⟨h, hm⟩
  | cons k ks ih =>
    simp only [List.foldl_cons]
    obtain ⟨a1, a2, a3⟩ := set_insert_spec P hP st.1 k h
    apply ih
    · exact a1
    · intro x
      simp only [stepInsert]
      cases hok : (st.1.insert P k).2 with
      | true => simp only [↓reduceIte, List.mem_cons]; rw [a2 hok x, hm x]
      | false => simp only [Bool.false_eq_true, ↓reduceIte]; rw [a3 hok, hm x]

theorem reachable_ok (P : Params) (hP : P.Valid) (ks : List Key) :
    SetOK P (runInserts P ks).1 ∧ ∀ x, x ∈ (runInserts P ks).1.elems ↔ x ∈ (runInserts P ks).2 :=
  run_inv P hP ks _ (empty_ok P) (by simp [Set.empty, Set.elems, Leaf.live, Leaf.empty])

/-- `Insert` refuses only when the tree node is full (and then changes nothing, `set_insert_spec`) -/
theorem set_insert_false (P : Params) (hP : P.Valid) (s : Set) (k : Key) (h : SetOK P s)
    (hf : (s.insert P k).2 = false) : ∃ t, s = .big t ∧ P.nodeSize ≤ t.length := by
  cases s with
  | small l =>
    exfalso
    simp only [Set.insert] at hf
    by_cases hfull : l.size ≥ P.nodeSize
    · simp only [hfull, ↓reduceIte] at hf
      have hT0 := singleton_tree_ok hP h hfull
      have hs0 : Tree.search [⟨[], l⟩] k = 1 :=
        tsearch_mid [] ⟨[], l⟩ [] k (keys_sorted hT0.ordered) (by simp) (by simp) (by simp)
      have e0 : (0 : Nat) = Tree.search [⟨[], l⟩] k - 1 := by rw [hs0]
      rw [e0] at hf
      obtain ⟨a1, a2, a3⟩ := splitAt_spec P hP [⟨[], l⟩] k hT0
        (by rw [hs0]; simpa [Tree.leafAt] using hfull) (by have := hP.lo; simp; omega)
      obtain ⟨b1, _, _⟩ := insertLeaf_spec P hP.guarded _ k a1 a3
      rw [b1] at hf; cases hf
    · simp only [hfull, ↓reduceIte] at hf
      obtain ⟨b1, _⟩ := leaf_insert_spec P hP.guarded l k h (by omega)
      rw [b1] at hf; cases hf
  | big t =>
    refine ⟨t, rfl, ?_⟩
    simp only [Set.insert] at hf
    by_cases hfull : (Tree.leafAt P t (Tree.search t k - 1)).size ≥ P.nodeSize
    · simp only [hfull, ↓reduceIte] at hf
      by_cases hlen : t.length ≥ P.nodeSize
      · exact hlen
      · exfalso
        simp only [hlen, ↓reduceIte] at hf
        obtain ⟨a1, a2, a3⟩ := splitAt_spec P hP t k h hfull (by omega)
        obtain ⟨b1, _, _⟩ := insertLeaf_spec P hP.guarded _ k a1 a3
        rw [b1] at hf; cases hf
    · exfalso
      simp only [hfull, ↓reduceIte] at hf
      obtain ⟨b1, _, _⟩ := insertLeaf_spec P hP.guarded t k h (by omega)
      rw [b1] at hf; cases hf

/-- a full tree node holds at least `nodeSize` keys -/
theorem full_tree_count (P : Params) (t : Tree) (h : TreeOK P t) : t.length ≤ (telems t).length := by
  have : ∀ (u : Tree), (∀ s ∈ u, SlotOK P s) → u.length ≤ (telems u).length := by
    intro u
    induction u with
    | nil => intro _; simp
    | cons a u ih =>
      intro hu
      have h1 := ih (fun s hs => hu s (List.mem_cons_of_mem _ hs))
      have h2 := hu a List.mem_cons_self
      have h3 := live_length h2.leaf
      have h4 := h2.pos
      simp only [telems, List.flatMap_cons, List.length_append, List.length_cons] at h1 ⊢
      omega
  exact this t h.slots

end Gsu.Ordset
