/-
M-DB global invariant, part 6: the remaining steps (create, begin, abort, merge compute/apply,
persist compute/apply, index build compute/apply) and the main theorems
`dbinv_step : DbInv s → OpOK s op → DbInv (step s op).1` and `dbinv_run`. Core only.
-/
import Gsu.Proofs.DbInv5
namespace Gsu.Db

theorem modTbl_get (mt : Meta) (tbl : Nat) (f : Info → Info) (j : Nat) :
    (modTbl mt tbl f)[j]? = if tbl = j then (mt[j]?).map f else mt[j]? := by
  simp only [modTbl, List.getElem?_modify]
  by_cases h : tbl = j
  · simp [h]
  · simp only [h, if_false]; cases mt[j]? <;> rfl

/-- a table-wise update that keeps the rows keeps a pending build valid -/
theorem BuildInv.modTbl {mt : Meta} {excl : List Nat} {b : Option Build} (h : BuildInv mt excl b)
    (tbl : Nat) (f : Info → Info) (hf : ∀ ti, (f ti).rows = ti.rows) :
    BuildInv (Gsu.Db.modTbl mt tbl f) excl b := by
  apply h.mono
  intro j _ ti hj
  rw [modTbl_get, hj]
  by_cases e : tbl = j
  · exact ⟨f ti, by simp [e], hf ti⟩
  · exact ⟨ti, by simp [e], rfl⟩

/-! ## create, begin, abort -/

theorem dbinv_table {s : State} (h : DbInv s) (n : Nat) (hn : 1 ≤ n) : DbInv (step s (.table n)).1 := by
  simp only [step]
  have hold : ∀ (j : Nat) (ti : Info), s.mt[j]? = some ti → (s.mt ++ [newInfo n])[j]? = some ti := by
    intro j ti hj
    rw [List.getElem?_append_left (List.getElem?_eq_some_iff.mp hj).1]; exact hj
  refine ⟨?_, ?_, ?_, h.tran⟩
  · intro j ti hj
    by_cases hlt : j < s.mt.length
    · rw [show (_ : State).mt = s.mt ++ [newInfo n] from rfl, List.getElem?_append_left hlt] at hj
      exact h.tbl j ti hj
    · rw [show (_ : State).mt = s.mt ++ [newInfo n] from rfl,
        List.getElem?_append_right (Nat.le_of_not_lt hlt)] at hj
      cases hd : j - s.mt.length with
      | zero =>
        simp only [hd, List.getElem?_cons_zero, Option.some.injEq] at hj
        rw [← hj]; exact tblinv_newInfo n hn
      | succ x => simp [hd] at hj
  · exact h.pend.mono (fun j ti hj => ⟨ti, hold j ti hj, PStable.refl ti⟩)
  · exact h.build.mono (fun j _ ti hj => ⟨ti, hold j ti hj, rfl⟩)

theorem dbinv_begin {s : State} (h : DbInv s) (id : Nat) : DbInv (step s (.begin_ id)).1 := by
  simp only [step]
  refine ⟨h.tbl, h.pend, h.build, ?_⟩
  intro t ht
  rcases List.mem_append.mp ht with ht | ht
  · exact h.tran t ht
  · rw [List.mem_singleton.mp ht]
    intro j sti d hs hd
    simp only [List.getElem?_map, hs, Option.map_some, Option.some.injEq] at hd
    subst hd
    exact ⟨h.tbl j sti hs, tvinv_start sti (h.tbl j sti hs)⟩

theorem dbinv_abort {s : State} (h : DbInv s) (id : Nat) : DbInv (step s (.abort id)).1 := by
  simp only [step]
  cases ht : s.tran? id with
  | none => exact h
  | some t => exact dbinv_setTran h _ (h.tran t (List.mem_of_find?_eq_some ht))

/-! ## merge -/

theorem dbinv_mergeC {s : State} (h : DbInv s) (tbl n : Nat) : DbInv (step s (.mergeC tbl n)).1 := by
  simp only [step]
  split
  · next ti hp hti =>
    split
    · next hc => exact ⟨h.tbl, ⟨ti, hti, rfl, hc.2.1⟩, h.build, h.tran⟩
    · exact h
  · exact h

theorem dbinv_mergeA {s : State} (h : DbInv s) : DbInv (step s .mergeA).1 := by
  simp only [step]
  split
  · next tbl n res hp =>
    have hpi := h.pend
    rw [hp] at hpi
    obtain ⟨ti, h1, h2, h3⟩ := hpi
    refine ⟨?_, trivial, h.build.modTbl tbl _ (fun _ => rfl), h.tran⟩
    intro j ti' hj
    rw [show (_ : State).mt = modTbl s.mt tbl (fun ti => ti.applyMerge n res) from rfl, modTbl_get] at hj
    by_cases e : tbl = j
    · subst e
      simp only [if_true, h1, Option.map_some, Option.some.injEq] at hj
      rw [← hj, h2]
      exact tblinv_applyMerge (h.tbl tbl ti h1) n h3
    · simp only [e, if_false] at hj
      exact h.tbl j ti' hj
  · exact h

/-! ## persist -/

theorem nodup_fst_filterMap (l : List Nat) (hl : l.Nodup) {β : Type} (c : Nat → Bool) (f : Nat → β) :
    ((l.filterMap fun j => if c j then some (j, f j) else none).map (·.1)).Nodup := by
  induction l with
  | nil => simp
  | cons x xs ih =>
    have hx := List.nodup_cons.mp hl
    simp only [List.filterMap_cons]
    by_cases hc : c x = true
    · simp only [hc, if_true, List.map_cons, List.nodup_cons]
      refine ⟨?_, ih hx.2⟩
      intro hm
      obtain ⟨p, hp, hpx⟩ := List.mem_map.mp hm
      obtain ⟨j, hj, hjp⟩ := List.mem_filterMap.mp hp
      split at hjp
      · cases hjp; exact hx.1 (hpx ▸ hj)
      · cases hjp
    · simp only [hc]; exact ih hx.2

theorem dbinv_persistC {s : State} (h : DbInv s) : DbInv (step s .persistC).1 := by
  simp only [step]
  split
  · refine ⟨h.tbl, ⟨?_, ?_⟩, h.build, h.tran⟩
    · have := nodup_fst_filterMap (List.range s.mt.length) List.nodup_range
        (fun j => decide ((s.mt.getD j default).idx.length ≥ 1 ∧ (s.mt.getD j default).modified = true))
        (fun j => (s.mt.getD j default).persistCompute)
      simpa using this
    · intro p hp
      obtain ⟨j, hj, hjp⟩ := List.mem_filterMap.mp hp
      have hlt : j < s.mt.length := List.mem_range.mp hj
      split at hjp
      · cases hjp
        refine ⟨s.mt[j], List.getElem?_eq_getElem hlt, ?_⟩
        simp [List.getD_eq_getElem?_getD, List.getElem?_eq_getElem hlt]
      · cases hjp
  · exact h

/-- PersistUpdate of several tables, one after the other -/
theorem persist_fold (res : List (Nat × List Bt)) : ∀ (mt : Meta),
    (∀ (j : Nat) (ti : Info), mt[j]? = some ti → TblInv ti) → (res.map (·.1)).Nodup →
    (∀ p ∈ res, ∃ ti, mt[p.1]? = some ti ∧ p.2 = ti.persistCompute) →
    (∀ (j : Nat) (ti : Info),
      (res.foldl (fun m (p : Nat × List Bt) => modTbl m p.1 fun ti => ti.applyPersist p.2) mt)[j]? = some ti →
        TblInv ti) ∧
    (∀ (j : Nat) (ti : Info), mt[j]? = some ti →
      ∃ ti', (res.foldl (fun m (p : Nat × List Bt) => modTbl m p.1 fun ti => ti.applyPersist p.2) mt)[j]? = some ti' ∧
        ti'.rows = ti.rows) := by
  induction res with
  | nil => intro mt h _ _; exact ⟨h, fun j ti hj => ⟨ti, hj, rfl⟩⟩
  | cons p res ih =>
    intro mt h hnd hres
    have hnd' : p.1 ∉ res.map (·.1) ∧ (res.map (·.1)).Nodup := List.nodup_cons.mp hnd
    obtain ⟨ti0, h0, h0c⟩ := hres p (List.mem_cons_self ..)
    simp only [List.foldl_cons]
    have h1 : ∀ (j : Nat) (ti : Info), (modTbl mt p.1 fun ti => ti.applyPersist p.2)[j]? = some ti → TblInv ti := by
      intro j ti hj
      rw [modTbl_get] at hj
      by_cases e : p.1 = j
      · subst e
        simp only [if_true, h0, Option.map_some, Option.some.injEq] at hj
        rw [← hj, h0c]
        exact tblinv_applyPersist (h p.1 ti0 h0)
      · simp only [e, if_false] at hj; exact h j ti hj
    have h2 : ∀ q ∈ res, ∃ ti, (modTbl mt p.1 fun ti => ti.applyPersist p.2)[q.1]? = some ti ∧
        q.2 = ti.persistCompute := by
      intro q hq
      obtain ⟨ti, hq1, hq2⟩ := hres q (List.mem_cons_of_mem _ hq)
      have hne : p.1 ≠ q.1 := fun e => hnd'.1 (e ▸ List.mem_map.mpr ⟨q, hq, rfl⟩)
      exact ⟨ti, by rw [modTbl_get, if_neg hne]; exact hq1, hq2⟩
    obtain ⟨r1, r2⟩ := ih _ h1 hnd'.2 h2
    refine ⟨r1, ?_⟩
    intro j ti hj
    by_cases e : p.1 = j
    · obtain ⟨ti', a, b⟩ := r2 j (ti.applyPersist p.2) (by rw [modTbl_get, if_pos e, hj]; rfl)
      exact ⟨ti', a, b⟩
    · exact r2 j ti (by rw [modTbl_get, if_neg e]; exact hj)

theorem dbinv_persistA {s : State} (h : DbInv s) : DbInv (step s .persistA).1 := by
  simp only [step]
  split
  · next res hp =>
    have hpi := h.pend
    rw [hp] at hpi
    obtain ⟨r1, r2⟩ := persist_fold res s.mt h.tbl hpi.1 hpi.2
    exact ⟨r1, trivial, h.build.mono (fun j _ ti hj => r2 j ti hj), h.tran⟩
  · exact h

/-! ## index build -/

theorem dbinv_buildC {s : State} (h : DbInv s) (tbl : Nat) (nk : List (Off × Key))
    (hok : ∀ ti, s.mt[tbl]? = some ti → PW (fun r => nkLookup nk r.off) ti.rows) :
    DbInv (step s (.buildC tbl nk)).1 := by
  simp only [step]
  split
  · next ti hb hti =>
    have hex : s.excl = [] := by have := h.build; rw [hb] at this; exact this
    refine ⟨h.tbl, h.pend, ⟨by simp [hex], ti, hti, rfl, hok ti hti⟩, ?_⟩
    intro t ht
    obtain ⟨x, hx, rfl⟩ := List.mem_map.mp ht
    split
    · exact h.tran x hx
    · exact h.tran x hx
  · exact h

theorem dbinv_buildA {s : State} (h : DbInv s) : DbInv (step s .buildA).1 := by
  simp only [step]
  split
  · next b hb hp =>
    have hbi := h.build
    rw [hb] at hbi
    obtain ⟨hex, ti, h1, h2, h3⟩ := hbi
    refine ⟨?_, by rw [show (_ : State).pend = s.pend from rfl, hp]; trivial, by simp [BuildInv, hex], h.tran⟩
    intro j ti' hj
    rw [show (_ : State).mt = modTbl s.mt b.tbl (fun ti => ti.applyBuild b (buildLayers b ti)) from rfl,
      modTbl_get] at hj
    by_cases e : b.tbl = j
    · subst e
      simp only [if_true, h1, Option.map_some, Option.some.injEq] at hj
      rw [← hj]
      exact tblinv_applyBuild (h.tbl b.tbl ti h1) b h2 h3
    · simp only [e, if_false] at hj
      exact h.tbl j ti' hj
  · exact h

/-! ## every step, every history -/

/-- THE invariant step: every operation of `Gsu.Db.step` keeps `DbInv` -/
theorem dbinv_step {s : State} (h : DbInv s) (op : Op) (hok : OpOK s op) : DbInv (step s op).1 := by
  cases op with
  | table n => exact dbinv_table h n hok
  | begin_ id => exact dbinv_begin h id
  | out id tbl row =>
    exact dbinv_tranWrite h id tbl _ (fun t sti d d' ht hs _ _ hv hf => tvinv_out row hv (hok t sti ht hs) hf)
  | del id tbl off =>
    exact dbinv_tranWrite h id tbl _ (fun t sti d d' _ _ _ hT hv hf => tvinv_del off hT hv hf)
  | upd id tbl off row =>
    exact dbinv_tranWrite h id tbl _
      (fun t sti d d' ht hs _ hT hv hf => tvinv_upd off row hT hv (hok t sti ht hs) hf)
  | abort id => exact dbinv_abort h id
  | commit id => exact dbinv_commit h id
  | mergeC tbl n => exact dbinv_mergeC h tbl n
  | mergeA => exact dbinv_mergeA h
  | persistC => exact dbinv_persistC h
  | persistA => exact dbinv_persistA h
  | buildC tbl nk => exact dbinv_buildC h tbl nk hok
  | buildA => exact dbinv_buildA h

/-- every operation of the history is well-formed in the state it runs in -/
def OpsOK : State → List Op → Prop
  | _, [] => True
  | s, op :: ops => OpOK s op ∧ OpsOK (step s op).1 ops

theorem dbinv_run {s : State} (h : DbInv s) (ops : List Op) (hok : OpsOK s ops) : DbInv (run s ops) := by
  induction ops generalizing s with
  | nil => exact h
  | cons op ops ih => exact ih (dbinv_step h op hok.1) hok.2

/-- every reachable state satisfies the invariant -/
theorem dbinv_reachable (ops : List Op) (hok : OpsOK State.init ops) : DbInv (run State.init ops) :=
  dbinv_run dbinv_init ops hok

end Gsu.Db
