/-
C29: the two semantics agree when the decision function is only required to be sound on the
lexical positions `G` of the program (run-time invariant `inv_all` supplies that every called block
is such a position). Core Lean only.
-/
import Gsu.Proofs.LangBlocks6
namespace Gsu.LangBlocks

section
variable (G : List Scope → Scope → Prop) (cf : List Scope → Scope → Bool)

def AgreeG (fuel : Nat) : Prop :=
  (∀ pl fr st e, GoodFr G fr → GoodSt G st → GoodE G fr e → (∀ v ∈ exprNames e, Priv pl fr v) →
      evalE₂ cf fuel pl fr st e = evalE fuel fr st e) ∧
  (∀ pl fr st acc es, GoodFr G fr → GoodSt G st → GoodVal G acc → (∀ e ∈ es, GoodE G fr e) →
      (∀ e ∈ es, ∀ v ∈ exprNames e, Priv pl fr v) →
      evalAdds₂ cf fuel pl fr st acc es = evalAdds fuel fr st acc es) ∧
  (∀ pl fr st b, GoodFr G fr → GoodSt G st → (∀ t ∈ b, GoodS G fr t) →
      (∀ t ∈ b, ∀ v ∈ stmtNames t, Priv pl fr v) →
      runBody₂ cf fuel pl fr st b = runBody fuel fr st b)

variable {G cf}

theorem goodFr_fresh {s : Scope} {chain : List Scope} (act : Nat) (h : G chain s) :
    GoodFr G ⟨s, chain, act, []⟩ :=
  ⟨h, fun k v hv => by simp [lget] at hv⟩

theorem agreeG_callee (hG : Closed G) (n : Nat) (ih : AgreeG G cf n)
    (pl : Bool) (s : Scope) (chain : List Scope) (act : Nat) (st : State) (arg : Val)
    (hP : ∀ v ∈ namesD s, Priv pl ⟨s, chain, act, []⟩ v) :
    bindParams₂ pl ⟨s, chain, act, []⟩ st s.params [arg] = bindParams ⟨s, chain, act, []⟩ st s.params [arg] ∧
    (∀ fr0 st0, fr0.s = s → fr0.chain = chain → GoodFr G fr0 → GoodSt G st0 →
      runBody₂ cf n pl fr0 st0 s.body = runBody n fr0 st0 s.body ∧
      evalE₂ cf n pl fr0 st0 s.result = evalE n fr0 st0 s.result) := by
  refine ⟨bindParams₂_eq pl _ _ _ _ (fun v hv => hP v (mem_namesD_param hv)), ?_⟩
  intro fr0 st0 h1 h2 gfr gst
  have hP' : ∀ v ∈ namesD s, Priv pl fr0 v := fun v hv =>
    Priv_congr (fr := ⟨s, chain, act, []⟩) h1 h2 (hP v hv)
  have hparts := good_scope_parts hG fr0 gfr.1
  rw [h1] at hparts
  exact ⟨ih.2.2 pl fr0 st0 s.body gfr gst hparts.1
      (fun t ht v hv => hP' v (mem_namesD_body ht hv)),
    ih.1 pl fr0 st0 s.result gfr gst hparts.2 (fun v hv => hP' v (mem_namesD_result hv))⟩

theorem agreeG_evalE (hG : Closed G)
    (hcf : ∀ chain s, G chain s → cf chain s = true → cfAll chain s = true)
    (n : Nat) (ih : AgreeG G cf n) :
    ∀ pl fr st e, GoodFr G fr → GoodSt G st → GoodE G fr e → (∀ v ∈ exprNames e, Priv pl fr v) →
      evalE₂ cf (n + 1) pl fr st e = evalE (n + 1) fr st e := by
  intro pl fr st e gfr gst ge H
  have inv := inv_all G hG n
  cases e with
  | num k => simp only [evalE₂, evalE]
  | var x =>
    simp only [evalE₂, evalE]
    rw [readVar₂_eq pl fr st x (H x (by simp [exprNames]))]
    cases readVar fr st x <;> rfl
  | block s => simp only [evalE₂, evalE]
  | fn s => simp only [evalE₂, evalE]
  | add a b =>
    simp only [evalE₂, evalE]
    have hf := foldAddList_names (.add a b)
    have hk := foldAddList_kids (.add a b)
    have hn := foldAddList_fns (.add a b)
    generalize foldAddList (.add a b) = l at hf hk hn
    have gl : ∀ e' ∈ l, GoodE G fr e' := fun e' he' =>
      ⟨fun k hk' => ge.1 k (hk e' he' k hk'), fun f hf' => ge.2 f (hn e' he' f hf')⟩
    cases l with
    | nil => rfl
    | cons e1 rest =>
      simp only
      rw [ih.1 pl fr st e1 gfr gst (gl e1 (List.mem_cons_self ..))
        (fun v hv => H v (hf e1 (List.mem_cons_self ..) v hv))]
      have hg := inv.1 fr st e1 gfr gst (gl e1 (List.mem_cons_self ..))
      cases hE : evalE n fr st e1 with
      | err s => rfl
      | ret a v s => rfl
      | ok v fr1 st1 =>
        have := evalE_frame n fr st e1 v fr1 st1 hE
        subst this
        rw [hE] at hg
        simp only
        exact ih.2.1 pl fr1 st1 v rest hg.2.1 hg.2.2 hg.1
          (fun e he => gl e (List.mem_cons_of_mem _ he))
          (fun e he v hv => H v (hf e (List.mem_cons_of_mem _ he) v hv))
  | call f a =>
    simp only [evalE₂, evalE]
    have ga : GoodE G fr a := ge
    rw [ih.1 pl fr st a gfr gst ga (fun v hv => H v (by simp [exprNames, hv]))]
    have hg := inv.1 fr st a gfr gst ga
    cases hE : evalE n fr st a with
    | err s => rfl
    | ret a v s => rfl
    | ok arg fr1 st1 =>
      have := evalE_frame n fr st a arg fr1 st1 hE
      subst this
      rw [hE] at hg
      obtain ⟨garg, gfr1, gst1⟩ := hg
      simp only
      rw [readVar₂_eq pl fr1 st1 f (H f (by simp [exprNames]))]
      cases hr : readVar fr1 st1 f with
      | none => rfl
      | some val =>
        have gval := readVar_good fr1 st1 f val gfr1 gst1 hr
        cases val with
        | int i => rfl
        | str => rfl
        | clo s chain act =>
          have gs : G chain s := gval
          simp only
          by_cases hl : s.params.length = 1
          · simp only [hl, if_true]
            have hP : ∀ v ∈ namesD s, Priv (cf chain s) ⟨s, chain, act, []⟩ v :=
              fun v hv hp => plain_cells chain s (hcf _ _ gs hp) v hv
            obtain ⟨hb, hrest⟩ := agreeG_callee hG n ih (cf chain s) s chain act st1 arg hP
            rw [hb]
            have hfr := bindParams_frame s.params [arg] ⟨s, chain, act, []⟩ st1
            have gb := bindParams_good s.params [arg] ⟨s, chain, act, []⟩ st1
              (goodFr_fresh act gs) gst1 (fun a ha => by
                rw [List.mem_singleton.1 ha]; exact garg)
            obtain ⟨hB, _⟩ := hrest _ _ hfr.1 hfr.2 gb.1 gb.2
            rw [hB]
            have hparts := good_scope_parts hG _ gb.1.1
            rw [hfr.1] at hparts
            have hgb := inv.2.2 _ _ s.body gb.1 gb.2 hparts.1
            cases hR : runBody n (bindParams ⟨s, chain, act, []⟩ st1 s.params [arg]).1
                (bindParams ⟨s, chain, act, []⟩ st1 s.params [arg]).2 s.body with
            | err s => rfl
            | ret a v s => rfl
            | ok u frb stb =>
              have hfb := runBody_frame n _ _ _ u frb stb hR
              rw [hR] at hgb
              simp only
              rw [(hrest frb stb (hfb.1.trans hfr.1) (hfb.2.1.trans hfr.2) hgb.2.1 hgb.2.2).2]
              cases evalE n frb stb s.result <;> rfl
          · simp only [hl, if_false]
        | fnv s =>
          have gs : G [] s := gval
          simp only
          by_cases hl : s.params.length = 1
          · simp only [hl, if_true]
            have hP : ∀ v ∈ namesD s, Priv false ⟨s, [], st1.next, []⟩ v :=
              fun v _ => Priv_false _ v
            have gst1' : GoodSt G { st1 with next := st1.next + 1 } := gst1
            obtain ⟨hb, hrest⟩ := agreeG_callee hG n ih false s [] st1.next
              { st1 with next := st1.next + 1 } arg hP
            rw [hb]
            have hfr := bindParams_frame s.params [arg] ⟨s, [], st1.next, []⟩
              { st1 with next := st1.next + 1 }
            have gb := bindParams_good s.params [arg] ⟨s, [], st1.next, []⟩
              { st1 with next := st1.next + 1 }
              (goodFr_fresh st1.next gs) gst1' (fun a ha => by
                rw [List.mem_singleton.1 ha]; exact garg)
            obtain ⟨hB, _⟩ := hrest _ _ hfr.1 hfr.2 gb.1 gb.2
            rw [hB]
            have hparts := good_scope_parts hG _ gb.1.1
            rw [hfr.1] at hparts
            have hgb := inv.2.2 _ _ s.body gb.1 gb.2 hparts.1
            cases hR : runBody n (bindParams ⟨s, [], st1.next, []⟩
                { st1 with next := st1.next + 1 } s.params [arg]).1
                (bindParams ⟨s, [], st1.next, []⟩
                { st1 with next := st1.next + 1 } s.params [arg]).2 s.body with
            | err s => rfl
            | ret a v s => rfl
            | ok u frb stb =>
              have hfb := runBody_frame n _ _ _ u frb stb hR
              rw [hR] at hgb
              simp only
              rw [(hrest frb stb (hfb.1.trans hfr.1) (hfb.2.1.trans hfr.2) hgb.2.1 hgb.2.2).2]
              cases evalE n frb stb s.result <;> rfl
          · simp only [hl, if_false]

theorem agreeG_evalAdds (hG : Closed G) (n : Nat) (ih : AgreeG G cf n) :
    ∀ pl fr st acc es, GoodFr G fr → GoodSt G st → GoodVal G acc → (∀ e ∈ es, GoodE G fr e) →
      (∀ e ∈ es, ∀ v ∈ exprNames e, Priv pl fr v) →
      evalAdds₂ cf (n + 1) pl fr st acc es = evalAdds (n + 1) fr st acc es := by
  intro pl fr st acc es gfr gst _ ges H
  cases es with
  | nil => simp only [evalAdds₂, evalAdds]
  | cons e rest =>
    simp only [evalAdds₂, evalAdds]
    rw [ih.1 pl fr st e gfr gst (ges e (List.mem_cons_self ..)) (H e (List.mem_cons_self ..))]
    have hg := (inv_all G hG n).1 fr st e gfr gst (ges e (List.mem_cons_self ..))
    cases hE : evalE n fr st e with
    | err s => rfl
    | ret a v s => rfl
    | ok v fr1 st1 =>
      have := evalE_frame n fr st e v fr1 st1 hE
      subst this
      rw [hE] at hg
      simp only
      cases acc <;> cases v <;> try rfl
      simp only
      exact ih.2.1 pl fr1 st1 _ rest hg.2.1 hg.2.2 trivial
        (fun e he => ges e (List.mem_cons_of_mem _ he))
        (fun e he => H e (List.mem_cons_of_mem _ he))

theorem agreeG_write (n : Nat) (ih : AgreeG G cf n)
    (pl : Bool) (fr : Frame) (st : State) (x : Nat) (v : Val) (rest : List Stmt)
    (gfr : GoodFr G fr) (gst : GoodSt G st) (gv : GoodVal G v)
    (grest : ∀ t ∈ rest, GoodS G fr t)
    (hx : Priv pl fr x) (hrest : ∀ t ∈ rest, ∀ v ∈ stmtNames t, Priv pl fr v) :
    runBody₂ cf n pl (writeVar₂ pl fr st x v).1 (writeVar₂ pl fr st x v).2 rest =
      runBody n (writeVar fr st x v).1 (writeVar fr st x v).2 rest := by
  rw [writeVar₂_eq pl fr st x v hx]
  have hw := writeVar_frame fr st x v
  have gw := writeVar_good fr st x v gfr gst gv
  exact ih.2.2 pl _ _ rest gw.1 gw.2 (fun t ht => GoodS_congr hw.1 hw.2.1 (grest t ht))
    (fun t ht w hw' => Priv_congr hw.1 hw.2.1 (hrest t ht w hw'))

theorem goodS_ifz_c {fr : Frame} {c e : Expr} {x : Nat} (h : GoodS G fr (.ifz c x e)) :
    GoodE G fr c :=
  ⟨fun k hk => h.1 k (by simp [stmtKids, hk]), fun f hf => h.2 f (by simp [stmtFns, hf])⟩

theorem goodS_ifz_e {fr : Frame} {c e : Expr} {x : Nat} (h : GoodS G fr (.ifz c x e)) :
    GoodE G fr e :=
  ⟨fun k hk => h.1 k (by simp [stmtKids, hk]), fun f hf => h.2 f (by simp [stmtFns, hf])⟩

theorem agreeG_runBody (hG : Closed G) (n : Nat) (ih : AgreeG G cf n) :
    ∀ pl fr st b, GoodFr G fr → GoodSt G st → (∀ t ∈ b, GoodS G fr t) →
      (∀ t ∈ b, ∀ v ∈ stmtNames t, Priv pl fr v) →
      runBody₂ cf (n + 1) pl fr st b = runBody (n + 1) fr st b := by
  intro pl fr st b gfr gst gb H
  have inv := inv_all G hG n
  cases b with
  | nil => simp only [runBody₂, runBody]
  | cons t rest =>
    have Ht := H t (List.mem_cons_self ..)
    have Hrest : ∀ t ∈ rest, ∀ v ∈ stmtNames t, Priv pl fr v :=
      fun t ht => H t (List.mem_cons_of_mem _ ht)
    have gt := gb t (List.mem_cons_self ..)
    have grest : ∀ t ∈ rest, GoodS G fr t := fun t ht => gb t (List.mem_cons_of_mem _ ht)
    cases t with
    | assign x e =>
      have ge : GoodE G fr e := gt
      simp only [runBody₂, runBody]
      rw [ih.1 pl fr st e gfr gst ge (fun v hv => Ht v (by simp [stmtNames, hv]))]
      have hg := inv.1 fr st e gfr gst ge
      cases hE : evalE n fr st e with
      | err s => rfl
      | ret a v s => rfl
      | ok v fr1 st1 =>
        have := evalE_frame n fr st e v fr1 st1 hE
        subst this
        rw [hE] at hg
        simp only
        exact agreeG_write n ih pl fr1 st1 x v rest hg.2.1 hg.2.2 hg.1 grest
          (Ht x (by simp [stmtNames])) Hrest
    | ret e =>
      have ge : GoodE G fr e := gt
      simp only [runBody₂, runBody]
      rw [ih.1 pl fr st e gfr gst ge (fun v hv => Ht v (by simp [stmtNames, hv]))]
      cases evalE n fr st e <;> rfl
    | tryc x e w =>
      have ge : GoodE G fr e := gt
      simp only [runBody₂, runBody]
      rw [ih.1 pl fr st e gfr gst ge (fun v hv => Ht v (by simp [stmtNames, hv]))]
      have hg := inv.1 fr st e gfr gst ge
      cases hE : evalE n fr st e with
      | err s =>
        rw [hE] at hg
        simp only
        exact agreeG_write n ih pl fr s w .str rest gfr hg trivial grest
          (Ht w (by simp [stmtNames])) Hrest
      | ret a v s => rfl
      | ok v fr1 st1 =>
        have := evalE_frame n fr st e v fr1 st1 hE
        subst this
        rw [hE] at hg
        simp only
        exact agreeG_write n ih pl fr1 st1 x v rest hg.2.1 hg.2.2 hg.1 grest
          (Ht x (by simp [stmtNames])) Hrest
    | ifz c x e =>
      have gc : GoodE G fr c := goodS_ifz_c gt
      have ge : GoodE G fr e := goodS_ifz_e gt
      simp only [runBody₂, runBody]
      rw [ih.1 pl fr st c gfr gst gc (fun v hv => Ht v (by simp [stmtNames, hv]))]
      have hgc := inv.1 fr st c gfr gst gc
      cases hC : evalE n fr st c with
      | err s => rfl
      | ret a v s => rfl
      | ok cv fr1 st1 =>
        have := evalE_frame n fr st c cv fr1 st1 hC
        subst this
        rw [hC] at hgc
        obtain ⟨_, gfr1, gst1⟩ := hgc
        have hrest' := ih.2.2 pl fr1 st1 rest gfr1 gst1 grest Hrest
        have hthen : (match evalE₂ cf n pl fr1 st1 e with
            | .ok v fr' st' => runBody₂ cf n pl (writeVar₂ pl fr' st' x v).1 (writeVar₂ pl fr' st' x v).2 rest
            | .err s => Res.err s
            | .ret a v s => Res.ret a v s) =
            (match evalE n fr1 st1 e with
            | .ok v fr' st' => runBody n (writeVar fr' st' x v).1 (writeVar fr' st' x v).2 rest
            | .err s => Res.err s
            | .ret a v s => Res.ret a v s) := by
          rw [ih.1 pl fr1 st1 e gfr1 gst1 ge (fun v hv => Ht v (by simp [stmtNames, hv]))]
          have hg := inv.1 fr1 st1 e gfr1 gst1 ge
          cases hE : evalE n fr1 st1 e with
          | err s => rfl
          | ret a v s => rfl
          | ok v fr2 st2 =>
            have := evalE_frame n fr1 st1 e v fr2 st2 hE
            subst this
            rw [hE] at hg
            simp only
            exact agreeG_write n ih pl fr2 st2 x v rest hg.2.1 hg.2.2 hg.1 grest
              (Ht x (by simp [stmtNames])) Hrest
        by_cases h0 : cv = .int 0
        · subst h0
          exact hthen
        · split
          · next heq => exact absurd (by cases heq; rfl) h0
          · split
            · next heq => exact absurd (by cases heq; rfl) h0
            · rename_i _ _ _ _ _ heq1 _ _ _ _ _ heq2
              cases heq1; cases heq2; exact hrest'
            · next heq => cases heq
            · next heq => cases heq
          · next heq => cases heq
          · next heq => cases heq

theorem agreeG_all (hG : Closed G)
    (hcf : ∀ chain s, G chain s → cf chain s = true → cfAll chain s = true) :
    ∀ fuel, AgreeG G cf fuel := by
  intro fuel
  induction fuel with
  | zero =>
    refine ⟨?_, ?_, ?_⟩
    · intro pl fr st e _ _ _ _; simp only [evalE₂, evalE]
    · intro pl fr st acc es _ _ _ _ _; simp only [evalAdds₂, evalAdds]
    · intro pl fr st b _ _ _ _; simp only [runBody₂, runBody]
  | succ n ih =>
    exact ⟨agreeG_evalE hG hcf n ih, agreeG_evalAdds hG n ih, agreeG_runBody hG n ih⟩

theorem runTop₂_eq_G (hG : Closed G)
    (hcf : ∀ chain s, G chain s → cf chain s = true → cfAll chain s = true)
    (fuel : Nat) (s : Scope) (hroot : G [] s) (arg : Int) :
    runTop₂ cf fuel s arg = runTop fuel s arg := by
  obtain ⟨hE, _, hB⟩ := agreeG_all hG hcf fuel
  have inv := inv_all G hG fuel
  simp only [runTop₂, runTop]
  rw [bindParams₂_eq false _ _ _ _ (fun v _ => Priv_false _ v)]
  have gst0 : GoodSt G ⟨[], 1⟩ := fun k v hv => by simp [sget] at hv
  have gb := bindParams_good s.params (s.params.map fun _ => Val.int arg) ⟨s, [], 0, []⟩ ⟨[], 1⟩
    (goodFr_fresh 0 hroot) gst0 (fun a ha => by
      obtain ⟨_, _, rfl⟩ := List.mem_map.1 ha; trivial)
  have hfr := bindParams_frame s.params (s.params.map fun _ => Val.int arg) ⟨s, [], 0, []⟩ ⟨[], 1⟩
  have hparts := good_scope_parts hG _ gb.1.1
  rw [hfr.1] at hparts
  rw [hB false _ _ _ gb.1 gb.2 hparts.1 (fun _ _ v _ => Priv_false _ v)]
  have hgb := inv.2.2 _ _ s.body gb.1 gb.2 hparts.1
  cases hR : runBody fuel
      (bindParams ⟨s, [], 0, []⟩ ⟨[], 1⟩ s.params (s.params.map fun _ => Val.int arg)).1
      (bindParams ⟨s, [], 0, []⟩ ⟨[], 1⟩ s.params (s.params.map fun _ => Val.int arg)).2 s.body with
  | err _ => rfl
  | ret a v _ => rfl
  | ok u frb stb =>
    have hfb := runBody_frame fuel _ _ _ u frb stb hR
    rw [hR] at hgb
    have hres : GoodE G frb s.result :=
      GoodE_congr (fr := (bindParams ⟨s, [], 0, []⟩ ⟨[], 1⟩ s.params
        (s.params.map fun _ => Val.int arg)).1) hfb.1 hfb.2.1 hparts.2
    simp only
    rw [hE false _ _ _ hgb.2.1 hgb.2.2 hres (fun v _ => Priv_false _ v)]
    cases evalE fuel frb stb s.result <;> rfl

end

/-- the positions of a program are closed -/
theorem pos_closed (root : Scope) : Closed (Pos root) :=
  ⟨fun _ _ h _ hk => Pos.kid h hk, fun _ _ h _ hf => Pos.fn h hf⟩

end Gsu.LangBlocks
