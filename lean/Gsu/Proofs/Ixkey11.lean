/-
Helper lemmas for C12: `Decode1` and `TruncFunc` (core-only).
-/
import Gsu.Proofs.Ixkey10
namespace Gsu.Ixkey
open Gsu.Proto

theorem cutSep_nz {b : UInt8} (h : b ≠ 0) (r : Bytes) :
    cutSep (b :: r) = match cutSep r with | none => none | some (p, s) => some (b :: p, s) :=
  cutSep.eq_3 b r (fun _ h1 _ => h h1)
theorem cutSep_z_nz {c : UInt8} (h : c ≠ 0) (r : Bytes) :
    cutSep (0 :: c :: r) = match cutSep (c :: r) with | none => none | some (p, s) => some (0 :: p, s) :=
  cutSep.eq_3 0 (c :: r) (fun _ _ h2 => h (by simp_all))

theorem cutSep_enc (a : Bytes) : cutSep (enc a) = none := by
  induction a with
  | nil => rfl
  | cons b bs ih =>
    by_cases hb : b = 0
    · subst hb; rw [enc_zero, cutSep_z_nz (by decide), cutSep_nz (by decide), ih]
    · rw [enc_nz hb, cutSep_nz hb, ih]

theorem cutSep_enc_sep (a r : Bytes) : cutSep (enc a ++ 0 :: 0 :: r) = some (enc a, r) := by
  induction a with
  | nil => exact cutSep.eq_2 r
  | cons b bs ih =>
    by_cases hb : b = 0
    · subst hb; rw [enc_zero]; simp only [List.cons_append]
      rw [cutSep_z_nz (by decide), cutSep_nz (by decide), ih]
    · rw [enc_nz hb]; simp only [List.cons_append]; rw [cutSep_nz hb, ih]

/-- `Decode1` after the empty-key test -/
def d1 (s : Bytes) (i : Nat) : Bytes :=
  match skipSeps s i with
  | none => []
  | some r =>
    match cutSep r with
    | none => unenc r
    | some (f, _) => unenc f

theorem d1_joinEnc (vs : List Bytes) (i : Nat) (h : vs ≠ []) : d1 (joinEnc vs) i = vs.getD i [] := by
  induction vs generalizing i with
  | nil => exact absurd rfl h
  | cons v rest ih =>
    cases rest with
    | nil =>
      cases i with
      | zero => simp [d1, skipSeps, joinEnc, cutSep_enc, unenc_enc]
      | succ i => simp [d1, skipSeps, joinEnc, cutSep_enc]
    | cons w rest =>
      rw [joinEnc_cons2]
      cases i with
      | zero => simp [d1, skipSeps, cutSep_enc_sep, unenc_enc]
      | succ i =>
        have := ih i (by simp)
        simp only [d1, skipSeps, cutSep_enc_sep] at this ⊢
        rw [this]; simp

theorem decode1_spec (vs : List Bytes) (i : Nat) : decode1 (joinEnc vs) i = vs.getD i [] := by
  by_cases hn : joinEnc vs = []
  · rcases (joinEnc_eq_nil vs).mp hn with h | h
    · subst h; simp [decode1, joinEnc]
    · subst h; cases i <;> simp [decode1, joinEnc, enc]
  · have hv : vs ≠ [] := by intro h; subst h; exact hn rfl
    have := d1_joinEnc vs i hv
    simp only [d1] at this
    simp only [decode1, hn, if_false]
    exact this

theorem cutBefore_joinEnc (vs : List Bytes) (k : Nat) (h : k + 1 < vs.length) :
    cutBefore (joinEnc vs) k = some (joinEnc (vs.take (k + 1))) := by
  induction vs generalizing k with
  | nil => simp at h
  | cons v rest ih =>
    cases rest with
    | nil => simp at h
    | cons w rest =>
      rw [joinEnc_cons2]
      cases k with
      | zero => simp [cutBefore, cutSep_enc_sep, joinEnc]
      | succ k =>
        have h' : k + 1 < (w :: rest).length := by simp at h ⊢; omega
        simp only [cutBefore, cutSep_enc_sep, ih k h', Option.map_some]
        simp only [List.take_succ_cons]
        rw [joinEnc_cons2]

theorem truncFn_spec (vs : List Bytes) (nf1 nf2 : Nat) (hl : vs.length = nf1) (h1 : 1 ≤ nf2)
    (h2 : nf2 ≤ nf1) :
    truncFn nf1 nf2 (decide (nf1 > 1)) (decide (nf2 > 1))
        (if nf1 > 1 then joinEnc vs else vs.getD 0 []) =
      (if nf2 > 1 then joinEnc (vs.take nf2) else vs.getD 0 []) := by
  unfold truncFn
  by_cases a : nf1 > 1 <;> by_cases b : nf2 > 1
  · by_cases e : nf1 = nf2
    · subst e; subst hl; simp [a, List.take_length]
    · obtain ⟨k, rfl⟩ : ∃ k, nf2 = k + 1 := ⟨nf2 - 1, by omega⟩
      simp only [a, b, e, decide_true, Bool.not_true, Bool.false_and, Bool.false_eq_true, if_false,
        if_true, Nat.add_sub_cancel]
      rw [cutBefore_joinEnc vs k (by omega)]; rfl
  · simp [a, b, decode1_spec]
  · omega
  · simp [a, b]
