/-
C14 (G): the regenerated definitions (Gsu.Gen.RecEnc / StorEnc / MuxEnc) agree with the hand
models the driver executes. Core-only.
-/
import Gsu.Model.RecEnc
import Gsu.Model.StorEnc
import Gsu.Model.MuxEnc
import Gsu.Gen.RecEnc
import Gsu.Gen.StorEnc
import Gsu.Gen.MuxEnc
open Gsu.Proto

namespace Gsu.RecEnc

theorem gen_tblength (n d : Nat) : Gsu.Gen.RecEnc.tblength n d = (tblength n d : Int) := by
  simp only [Gsu.Gen.RecEnc.tblength, tblength, hdrlen]
  by_cases h0 : n = 0
  · simp [h0]
  · have : ¬ ((n : Int) = 0) := by omega
    simp only [beq_iff_eq, this, if_false, h0, decide_eq_true_eq]
    by_cases h1 : 2 + (1 + n) + d < 256
    · have h1' : (2 : Int) + (1 + (n : Int)) + (d : Int) < 256 := by omega
      simp only [h1, h1', if_true]; omega
    · have h1' : ¬ (2 : Int) + (1 + (n : Int)) + (d : Int) < 256 := by omega
      by_cases h2 : 2 + 2 * (1 + n) + d < 65536
      · have h2' : (2 : Int) + 2 * (1 + (n : Int)) + (d : Int) < 65536 := by omega
        simp only [h1, h1', h2, h2', if_true, if_false]; omega
      · have h2' : ¬ (2 : Int) + 2 * (1 + (n : Int)) + (d : Int) < 65536 := by omega
        simp only [h1, h1', h2, h2', if_false]; omega

theorem gen_mode (l : Nat) : Gsu.Gen.RecEnc.mode l = (mode l : Int) := by
  simp only [Gsu.Gen.RecEnc.mode, mode]
  by_cases h0 : l = 0
  · simp [h0]
  · have : ¬ ((l : Int) = 0) := by omega
    simp only [beq_iff_eq, this, if_false, h0, decide_eq_true_eq]
    by_cases h1 : l < 256
    · have h1' : (l : Int) < 256 := by omega
      simp only [h1, h1', if_true]; rfl
    · have h1' : ¬ (l : Int) < 256 := by omega
      by_cases h2 : l < 65536
      · have h2' : (l : Int) < 65536 := by omega
        simp only [h1, h1', h2, h2', if_true, if_false]; rfl
      · have h2' : ¬ (l : Int) < 65536 := by omega
        simp only [h1, h1', h2, h2', if_false]; rfl

end Gsu.RecEnc
