/-
Helper lemmas for C14 (zig-zag, varint, size-prefixed strings of dbms/mux/readwrite.go). Core-only.
-/
import Gsu.Model.MuxEnc
open Gsu.Proto
namespace Gsu.MuxEnc

theorem lo7 (m : Nat) : m &&& 0x7f = m % 128 := Nat.and_two_pow_sub_one_eq_mod m 7

theorem hi_small : ∀ m, m < 128 → m &&& 0x80 = 0 := by decide
theorem hi_big : ∀ m, m < 128 → (m + 128) &&& 0x80 = 128 := by decide
set_option maxRecDepth 8000 in
theorem or80 : ∀ m, m < 256 → m ||| 0x80 = m % 128 + 128 := by decide

theorem cont_byte (n : Nat) : (UInt8.ofNat (n ||| 0x80)).toNat = n % 128 + 128 := by
  rw [UInt8.toNat_ofNat']
  have h : (n ||| 0x80) % 2 ^ 8 = n % 2 ^ 8 ||| 0x80 % 2 ^ 8 := Nat.or_mod_two_pow
  simp only [Nat.reducePow, Nat.reduceMod] at h ⊢
  rw [h, or80 _ (Nat.mod_lt _ (by decide))]
  omega

theorem or_shift (acc x shift : Nat) (h : acc < 2 ^ shift) : acc ||| x * 2 ^ shift = acc + x * 2 ^ shift := by
  have := Nat.shiftLeft_add_eq_or_of_lt h x
  rw [Nat.shiftLeft_eq] at this
  rw [Nat.or_comm, ← this, Nat.add_comm]

theorem getVarintF_putVarint (n : Nat) : ∀ (shift acc : Nat) (rest : Bytes), acc < 2 ^ shift →
    n * 2 ^ shift + acc < 2 ^ 64 →
    getVarintF shift acc (putVarint n ++ rest) = some (acc + n * 2 ^ shift, rest) := by
  induction n using Nat.strongRecOn with
  | _ n ih =>
    intro shift acc rest hacc hn
    rw [putVarint]
    by_cases hbig : n > 0x7f
    · simp only [hbig, dite_true, List.cons_append, getVarintF, cont_byte, lo7]
      have hm : (n % 128 + 128) % 128 = n % 128 := by omega
      have hlt : n % 128 < 128 := Nat.mod_lt _ (by decide)
      rw [hm, hi_big _ hlt, Nat.shiftLeft_eq]
      have hP : 0 < 2 ^ shift := Nat.pow_pos (by decide)
      have hle : n % 128 * 2 ^ shift ≤ n * 2 ^ shift := Nat.mul_le_mul_right _ (Nat.mod_le _ _)
      rw [Nat.mod_eq_of_lt (by omega), or_shift _ _ _ hacc]
      simp only [show (128 : Nat) = 0 ↔ False from by decide, if_false]
      have hdec : n >>> 7 < n := by simp only [Nat.shiftRight_eq_div_pow]; omega
      have hq : n >>> 7 = n / 128 := by simp [Nat.shiftRight_eq_div_pow]
      have hpow : 2 ^ (shift + 7) = 128 * 2 ^ shift := by rw [Nat.pow_add]; omega
      have h127 : n % 128 * 2 ^ shift ≤ 127 * 2 ^ shift := Nat.mul_le_mul_right _ (by omega)
      have hsplit : n / 128 * (128 * 2 ^ shift) + n % 128 * 2 ^ shift = n * 2 ^ shift := by
        have e := Nat.div_add_mod n 128
        calc n / 128 * (128 * 2 ^ shift) + n % 128 * 2 ^ shift
            = (128 * (n / 128) + n % 128) * 2 ^ shift := by
              rw [Nat.add_mul, Nat.mul_comm 128 (n / 128), Nat.mul_assoc]
          _ = n * 2 ^ shift := by rw [e]
      rw [ih _ hdec (shift + 7) _ rest (by rw [hpow]; omega) (by rw [hq, hpow]; omega)]
      rw [hq, hpow]
      congr 2
      omega
    · have hn127 : n < 128 := by omega
      simp only [hbig, dite_false, List.cons_append, List.nil_append, getVarintF, lo7, UInt8.toNat_ofNat']
      have h256 : n % 2 ^ 8 = n := Nat.mod_eq_of_lt (by omega)
      rw [h256, Nat.mod_eq_of_lt hn127, hi_small _ hn127, Nat.shiftLeft_eq,
        Nat.mod_eq_of_lt (by omega), or_shift _ _ _ hacc]
      simp

theorem varint_roundtrip (n : Nat) (rest : Bytes) (h : n < 2 ^ 64) :
    getVarint (putVarint n ++ rest) = some (n, rest) := by
  have := getVarintF_putVarint n 0 0 rest (by decide) (by simpa using h)
  simpa [getVarint] using this


theorem bit63 (k : Nat) (hk : k < 64) : (9223372036854775808#64)[k] = decide (k = 63) := by
  have : (9223372036854775808#64) = BitVec.twoPow 64 63 := by decide
  rw [this, BitVec.getElem_twoPow]

theorem zz_roundtrip (i : BitVec 64) : unzz (zz i) = i := by
  unfold unzz zz
  ext k hk
  simp [BitVec.msb_eq_getLsbD_last, BitVec.getElem_sshiftRight, bit63]
  rcases Nat.lt_or_ge k 63 with h | h
  · have h1 : 1 + k < 64 := by omega
    have h2 : ¬ (63 + (1 + k) < 64) := by omega
    have h3 : ¬ (63 + k < 64) ∨ k = 0 := by omega
    have h4 : k ≠ 63 := by omega
    simp [h1, h2, h4]
    cases i[k] <;> cases i[63] <;> rfl
  · have : k = 63 := by omega
    subst this
    simp

theorem getInt64_putInt64 (i : BitVec 64) (rest : Bytes) :
    getInt64 (putInt64 i ++ rest) = some (i, rest) := by
  unfold getInt64 putInt64
  rw [varint_roundtrip _ rest (zz i).isLt]
  simp [zz_roundtrip]

theorem ofNat_len (n : Nat) (h : n ≤ maxio) :
    (BitVec.ofNat 64 n).toNat = n ∧ ¬ (BitVec.ofNat 64 n).toInt < 0 := by
  have hm : n < 2 ^ 63 := by unfold maxio at h; omega
  have h1 : (BitVec.ofNat 64 n).toNat = n := by
    rw [BitVec.toNat_ofNat]; exact Nat.mod_eq_of_lt (by omega)
  refine ⟨h1, ?_⟩
  rw [BitVec.toInt_eq_toNat_cond, h1]
  have : 2 * n < 2 ^ 64 := by omega
  simp only [this, if_true]
  omega

theorem getStr_putStr (s rest : Bytes) (h : s.length ≤ maxio) :
    ∃ b, putStr s = .ok b ∧ getStr (b ++ rest) = .ok (s, rest) := by
  refine ⟨putInt64 (BitVec.ofNat 64 s.length) ++ s, ?_, ?_⟩
  · unfold putStr
    have : ¬ s.length > maxio := by omega
    simp only [this, if_false]
  · obtain ⟨h1, h2⟩ := ofNat_len s.length h
    unfold getStr getSize
    rw [List.append_assoc, getInt64_putInt64]
    have h3 : ¬ maxio < s.length := by omega
    simp only [h2, if_false, h1, GT.gt, h3]
    simp

theorem putStr_error (s : Bytes) (h : s.length > maxio) : putStr s = .error .tooLarge := by
  unfold putStr; simp only [h, if_true]

theorem getStrsN_putStrsBody (ss : List Bytes) (rest : Bytes) (h : ∀ s ∈ ss, s.length ≤ maxio) :
    ∃ b, putStrsBody ss = .ok b ∧ getStrsN ss.length (b ++ rest) = .ok (ss, rest) := by
  induction ss with
  | nil => exact ⟨[], rfl, rfl⟩
  | cons s ss ih =>
    obtain ⟨c, hc1, hc2⟩ := ih (fun x hx => h x (List.mem_cons_of_mem _ hx))
    obtain ⟨a, ha1, ha2⟩ := getStr_putStr s (c ++ rest) (h s List.mem_cons_self)
    refine ⟨a ++ c, by simp only [putStrsBody, ha1, hc1], ?_⟩
    simp only [List.length_cons, getStrsN, List.append_assoc, ha2, hc2]

theorem getStrs_putStrs (ss : List Bytes) (rest : Bytes) (hn : ss.length ≤ maxio)
    (h : ∀ s ∈ ss, s.length ≤ maxio) :
    ∃ b, putStrs ss = .ok b ∧ getStrs (b ++ rest) = .ok (ss, rest) := by
  obtain ⟨c, hc1, hc2⟩ := getStrsN_putStrsBody ss rest h
  refine ⟨putInt64 (BitVec.ofNat 64 ss.length) ++ c, by simp only [putStrs, hc1], ?_⟩
  obtain ⟨h1, h2⟩ := ofNat_len ss.length hn
  unfold getStrs
  rw [List.append_assoc, getInt64_putInt64]
  simp only [h2, if_false, h1, hc2]

end Gsu.MuxEnc
