/-
Lemmas about the definitions regenerated from util/hamt/hamt.go (`Gsu.Gen.Hamt`). Core only.
-/
import Gsu.Model.Hamt
import Gsu.Gen.Hamt
namespace Gsu.Hamt
open Gsu.Gen.Hamt

theorem trailingOnesFuel_nonneg (f : Nat) (x : Int) : 0 ≤ trailingOnesFuel f x := by
  induction f generalizing x with
  | zero => simp [trailingOnesFuel]
  | succ f ih =>
    simp only [trailingOnesFuel]
    split
    · have := ih (x / 2); omega
    · omega

theorem trailingOnes_nonneg (x : Int) : 0 ≤ TrailingOnes x := trailingOnesFuel_nonneg 64 x

/-- `nmerge` never asks for more chunks than the chain has, and flattens at `maxChain` -/
theorem nmerge_bounds (no clock : Int) (h : 0 ≤ no) :
    0 ≤ nmerge no clock ∧ nmerge no clock ≤ no ∧ (maxChain ≤ no → nmerge no clock = no) := by
  have ht := trailingOnes_nonneg clock
  simp only [nmerge, maxChain]
  split
  · exact ⟨h, Int.le_refl _, fun _ => rfl⟩
  · rename_i hlt
    simp only [ge_iff_le, decide_eq_true_eq] at hlt
    refine ⟨by omega, by omega, fun h7 => absurd h7 hlt⟩

/-- the slot of a key at a level is the 5-bit digit of its hash -/
theorem hashbit_eq (h s : Nat) : hashbit h s = 2 ^ ((h / 2 ^ s) % 32) := by
  simp only [hashbit, Nat.shiftRight_eq_div_pow, Nat.one_shiftLeft]
  congr 1
  exact Nat.and_two_pow_sub_one_eq_mod _ 5

/-- the model's digit list is `hashbit` at shifts 0, 5, …, 30 -/
theorem digits_eq (h : Nat) :
    digits h = (List.range nLevels).map fun i => (h / 2 ^ (bitsPerItemNode * i)) % 32 := by
  simp only [digits, bitsPerItemNode]
  apply List.map_congr_left
  intro i _
  rw [Nat.pow_mul]

end Gsu.Hamt
