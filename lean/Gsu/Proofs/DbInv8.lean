/-
M-DB global invariant, part 8: `SzInv` (sizes exact, every row's size is the size of the record
at its offset) is kept by every step whose new record has a fresh offset. Core only.
-/
import Gsu.Proofs.DbInv7
namespace Gsu.Db

theorem szinv_mono {g g' : Ghost} {s : State} (h : SzInv g s)
    (hm : ∀ rows, RowsIn g rows → RowsIn g' rows) : SzInv g' s :=
  ⟨fun j ti hj => ⟨(h.tbl j ti hj).1, hm _ (h.tbl j ti hj).2⟩,
   fun t ht j sti d hs hd => ⟨(h.tran t ht j sti d hs hd).1, hm _ (h.tran t ht j sti d hs hd).2.1,
     hm _ (h.tran t ht j sti d hs hd).2.2⟩⟩

def TranSz (g : Ghost) (t : Tran) : Prop :=
  ∀ (j : Nat) (sti : Info) (d : TDif), t.snap[j]? = some sti → t.dif[j]? = some d →
    sti.size = rowsSize sti.rows ∧ RowsIn g sti.rows ∧ RowsIn g d.adds

theorem szinv_setTran {g : Ghost} {s : State} (h : SzInv g s) (t' : Tran) (ht : TranSz g t') :
    SzInv g (s.setTran t') := by
  refine ⟨h.tbl, ?_⟩
  intro t hm
  simp only [State.setTran, List.mem_map] at hm
  obtain ⟨x, hx, rfl⟩ := hm
  split
  · exact ht
  · exact h.tran x hx

theorem tranSz_set {g : Ghost} {t : Tran} (h : TranSz g t) (tbl : Nat) (sti : Info) (d' : TDif)
    (_hs : t.snap[tbl]? = some sti) (hv : RowsIn g d'.adds) (wc : Nat) :
    TranSz g { t with wc := wc, dif := t.dif.set tbl d' } := by
  intro j sti2 d2 hs2 hd2
  simp only [List.getElem?_set] at hd2
  by_cases hj : tbl = j
  · subst hj
    simp only [if_true] at hd2
    split at hd2
    · next hlt =>
      cases hd2
      have := h tbl sti2 _ hs2 (List.getElem?_eq_getElem hlt)
      exact ⟨this.1, this.2.1, hv⟩
    · cases hd2
  · simp only [hj, if_false] at hd2
    exact h j sti2 d2 hs2 hd2

theorem szinv_tranWrite {g : Ghost} {s : State} (h : SzInv g s) (id tbl : Nat)
    (f : Info → TDif → Except String TDif)
    (hf : ∀ sti d d', f sti d = .ok d' → RowsIn g d.adds → RowsIn g d'.adds) :
    SzInv g (tranWrite s id tbl f).1 := by
  unfold tranWrite
  cases ht : s.tran? id with
  | none => exact h
  | some t =>
    have hti : TranSz g t := h.tran t (List.mem_of_find?_eq_some ht)
    simp only
    split
    · exact h
    · split
      · exact szinv_setTran h _ hti
      · split
        · next sti d hs hd =>
          split
          · next d' hfd =>
            split
            · exact h
            · exact szinv_setTran h _ (tranSz_set hti tbl sti d' hs (hf sti d d' hfd (hti tbl sti d hs hd).2.2) _)
          · exact szinv_setTran h _ hti
        · exact h

/-- a write that does not report "ok" installs nothing -/
theorem szinv_tranWrite_fail {g : Ghost} {s : State} (h : SzInv g s) (id tbl : Nat)
    (f : Info → TDif → Except String TDif) (hne : (tranWrite s id tbl f).2 ≠ "ok") :
    SzInv g (tranWrite s id tbl f).1 := by
  unfold tranWrite at hne ⊢
  cases ht : s.tran? id with
  | none => exact h
  | some t =>
    have hti : TranSz g t := h.tran t (List.mem_of_find?_eq_some ht)
    simp only [ht] at hne ⊢
    split
    · exact h
    · next he =>
      split
      · exact szinv_setTran h _ hti
      · next hw =>
        split
        · next sti d hs hd =>
          split
          · next d' hfd =>
            split
            · exact h
            · next hex =>
              have hex' : tbl ∉ s.excl := by simpa using hex
              exfalso; apply hne
              simp [he, hw, hs, hd, hfd, hex']
          · exact szinv_setTran h _ hti
        · exact h

theorem tOut_adds {sti : Info} {d d' : TDif} {row : Row} (h : tOut sti d row = .ok d') :
    d'.adds = d.adds ++ [row] := by
  unfold tOut at h
  split at h
  · cases h
  · split at h
    · cases h
    · injection h with h; rw [← h]

theorem tDel_adds {sti : Info} {d d' : TDif} {off : Off} (h : tDel sti d off = .ok d') :
    ∀ a ∈ d'.adds, a ∈ d.adds := by
  unfold tDel at h
  split at h
  · cases h
  · simp only at h
    injection h with h
    intro a ha
    rw [← h] at ha
    exact (mem_dropRow_adds d off a ha).1

theorem tUpd_adds {sti : Info} {d d' : TDif} {off : Off} {row : Row} (h : tUpd sti d off row = .ok d') :
    ∀ a ∈ d'.adds, a ∈ d.adds ++ [row] := by
  unfold tUpd at h
  split at h
  · cases h
  · split at h
    · cases h
    · split at h
      · cases h
      · simp only at h
        injection h with h
        intro a ha
        rw [← h] at ha
        rcases List.mem_append.mp ha with ha' | ha'
        · exact List.mem_append_left _ (mem_dropRow_adds d off a ha').1
        · exact List.mem_append_right _ ha'

/-! ## commit -/

theorem szinv_commit_ok {g : Ghost} {s : State} (h : DbInv s) (hz : SzInv g s) (t : Tran) (ht : t ∈ s.trans)
    (hind : indepAll t.dif t.snap s.mt = true) :
    SzInv g { (s.setTran { t with ended := true }) with mt := layeredOnto t.dif s.mt } := by
  have hti : TranInv t := h.tran t ht
  have htz : TranSz g t := hz.tran t ht
  refine ⟨?_, (szinv_setTran hz { t with ended := true } htz).tran⟩
  intro j ti' hj'
  obtain ⟨ti, hj⟩ := commit_table_inv _ _ j ti' hj'
  rcases commit_table t.dif t.snap s.mt hind j ti hj with h1 | ⟨d, sti, h1, h2, h3, h4, h5⟩
  · change (layeredOnto t.dif s.mt)[j]? = some ti' at hj'
    rw [h1] at hj'
    rw [← Option.some.inj hj']; exact hz.tbl j ti hj
  · change (layeredOnto t.dif s.mt)[j]? = some ti' at hj'
    rw [h5] at hj'
    rw [← Option.some.inj hj']
    obtain ⟨hsz, hgL⟩ := hz.tbl j ti hj
    obtain ⟨_, hgS, hgA⟩ := htz j sti d h3 h1
    refine ⟨commit_size (h.tbl j ti hj) (hti j sti d h3 h1).1 (hti j sti d h3 h1).2 h4 g hgL hgS hsz, ?_⟩
    rw [lay_rows]
    exact RowsIn.append (hgL.sub (fun r hr => (List.mem_filter.mp hr).1)) hgA

theorem szinv_commit {g : Ghost} {s : State} (h : DbInv s) (hz : SzInv g s) (id : Nat) :
    SzInv g (step s (.commit id)).1 := by
  simp only [step]
  cases ht : s.tran? id with
  | none => exact hz
  | some t =>
    have htm : t ∈ s.trans := List.mem_of_find?_eq_some ht
    have hti : TranSz g t := hz.tran t htm
    simp only
    split
    · exact hz
    · split
      · exact szinv_setTran hz _ hti
      · split
        · exact szinv_setTran hz _ hti
        · next hind => exact szinv_commit_ok h hz t htm (by simpa using hind)

/-! ## the other steps -/

/-- table-wise updates that keep size and (offset, size) of every row -/
theorem szinv_modTbl_get {g : Ghost} {mt : Meta}
    (h : ∀ (j : Nat) (ti : Info), mt[j]? = some ti → ti.size = rowsSize ti.rows ∧ RowsIn g ti.rows)
    (tbl : Nat) (f : Info → Info)
    (hf : ∀ ti, ti.size = rowsSize ti.rows ∧ RowsIn g ti.rows → (f ti).size = rowsSize (f ti).rows ∧ RowsIn g (f ti).rows) :
    ∀ (j : Nat) (ti : Info), (modTbl mt tbl f)[j]? = some ti → ti.size = rowsSize ti.rows ∧ RowsIn g ti.rows := by
  intro j ti' hj
  rw [modTbl_get] at hj
  by_cases e : tbl = j
  · subst e
    simp only [if_true, Option.map_eq_some_iff] at hj
    obtain ⟨ti, h1, rfl⟩ := hj
    exact hf ti (h tbl ti h1)
  · simp only [e, if_false] at hj
    exact h j ti' hj

theorem persist_fold_sz {g : Ghost} (res : List (Nat × List Bt)) : ∀ (mt : Meta),
    (∀ (j : Nat) (ti : Info), mt[j]? = some ti → ti.size = rowsSize ti.rows ∧ RowsIn g ti.rows) →
    ∀ (j : Nat) (ti : Info),
      (res.foldl (fun m (p : Nat × List Bt) => modTbl m p.1 fun ti => ti.applyPersist p.2) mt)[j]? = some ti →
        ti.size = rowsSize ti.rows ∧ RowsIn g ti.rows := by
  induction res with
  | nil => intro mt h; exact h
  | cons p res ih =>
    intro mt h
    simp only [List.foldl_cons]
    exact ih _ (szinv_modTbl_get h p.1 _ (fun ti hti => hti))

theorem rowsSize_ext (nk : List (Off × Key)) (rows : List Row) :
    rowsSize (rows.map (extRow nk)) = rowsSize rows := by
  simp [rowsSize, List.map_map, Function.comp_def, extRow]

theorem rowsIn_ext {g : Ghost} (nk : List (Off × Key)) {rows : List Row} (h : RowsIn g rows) :
    RowsIn g (rows.map (extRow nk)) := by
  intro r hr
  obtain ⟨r0, hr0, rfl⟩ := List.mem_map.mp hr
  exact h r0 hr0

theorem okRow_none_of_newRow {s : State} {op : Op} (h : op.newRow = none) : okRow s op = none := by
  simp [okRow, h]

theorem gstep_of_none {g : Ghost} {s : State} {op : Op} (h : okRow s op = none) : gstep g s op = g := by
  simp [gstep, h]

/-- every step keeps `SzInv`, given `DbInv` and a fresh offset for the record a successful write adds -/
theorem szinv_step {g : Ghost} {s : State} (h : DbInv s) (hz : SzInv g s) (op : Op)
    (hf : OpFresh g s op) : SzInv (gstep g s op) (step s op).1 := by
  have hz' : SzInv (gstep g s op) s := szinv_mono hz (fun rows hr => hr.step s op hf)
  cases op with
  | table n =>
    rw [gstep_of_none (okRow_none_of_newRow rfl)]
    refine ⟨?_, hz.tran⟩
    intro j ti hj
    simp only [step] at hj
    by_cases hlt : j < s.mt.length
    · rw [List.getElem?_append_left hlt] at hj; exact hz.tbl j ti hj
    · rw [List.getElem?_append_right (Nat.le_of_not_lt hlt)] at hj
      cases hd : j - s.mt.length with
      | zero =>
        simp only [hd, List.getElem?_cons_zero, Option.some.injEq] at hj
        rw [← hj]; exact ⟨by simp [newInfo, rowsSize], by simp [newInfo, RowsIn.nil]⟩
      | succ x => simp [hd] at hj
  | begin_ id =>
    rw [gstep_of_none (okRow_none_of_newRow rfl)]
    refine ⟨hz.tbl, ?_⟩
    intro t ht
    simp only [step] at ht
    rcases List.mem_append.mp ht with ht | ht
    · exact hz.tran t ht
    · rw [List.mem_singleton.mp ht]
      intro j sti d hs hd
      simp only [List.getElem?_map, hs, Option.map_some, Option.some.injEq] at hd
      subst hd
      exact ⟨(hz.tbl j sti hs).1, (hz.tbl j sti hs).2, by simp [TDif.start, RowsIn.nil]⟩
  | out id tbl row =>
    cases hk : okRow s (.out id tbl row) with
    | none =>
      have hne : (step s (.out id tbl row)).2 ≠ "ok" := by
        intro e; simp [okRow, Op.newRow, e] at hk
      rw [gstep_of_none hk]
      exact szinv_tranWrite_fail hz id tbl _ hne
    | some row' =>
      have hr : row' = row := by
        simp only [okRow, Op.newRow] at hk
        split at hk
        · exact (Option.some.inj hk).symm
        · cases hk
      subst hr
      exact szinv_tranWrite hz' id tbl _ (fun sti d d' hfd hA => by
        rw [tOut_adds hfd]; exact hA.append (RowsIn.new g s _ row' hk))
  | del id tbl off =>
    rw [gstep_of_none (okRow_none_of_newRow rfl)]
    exact szinv_tranWrite hz id tbl _ (fun sti d d' hfd hA => hA.sub (tDel_adds hfd))
  | upd id tbl off row =>
    cases hk : okRow s (.upd id tbl off row) with
    | none =>
      have hne : (step s (.upd id tbl off row)).2 ≠ "ok" := by
        intro e; simp [okRow, Op.newRow, e] at hk
      rw [gstep_of_none hk]
      exact szinv_tranWrite_fail hz id tbl _ hne
    | some row' =>
      have hr : row' = row := by
        simp only [okRow, Op.newRow] at hk
        split at hk
        · exact (Option.some.inj hk).symm
        · cases hk
      subst hr
      exact szinv_tranWrite hz' id tbl _ (fun sti d d' hfd hA =>
        (hA.append (RowsIn.new g s _ row' hk)).sub (tUpd_adds hfd))
  | abort id =>
    rw [gstep_of_none (okRow_none_of_newRow rfl)]
    simp only [step]
    cases ht : s.tran? id with
    | none => exact hz
    | some t => exact szinv_setTran hz _ (hz.tran t (List.mem_of_find?_eq_some ht))
  | commit id => exact szinv_commit h hz id
  | mergeC tbl n =>
    rw [gstep_of_none (okRow_none_of_newRow rfl)]
    simp only [step]
    split
    · split
      · exact ⟨hz.tbl, hz.tran⟩
      · exact hz
    · exact hz
  | mergeA =>
    rw [gstep_of_none (okRow_none_of_newRow rfl)]
    simp only [step]
    split
    · exact ⟨szinv_modTbl_get hz.tbl _ _ (fun ti hti => hti), hz.tran⟩
    · exact hz
  | persistC =>
    rw [gstep_of_none (okRow_none_of_newRow rfl)]
    simp only [step]
    split
    · exact ⟨hz.tbl, hz.tran⟩
    · exact hz
  | persistA =>
    rw [gstep_of_none (okRow_none_of_newRow rfl)]
    simp only [step]
    split
    · next res _ => exact ⟨persist_fold_sz res s.mt hz.tbl, hz.tran⟩
    · exact hz
  | buildC tbl nk =>
    rw [gstep_of_none (okRow_none_of_newRow rfl)]
    simp only [step]
    split
    · refine ⟨hz.tbl, ?_⟩
      intro t ht
      obtain ⟨x, hx, rfl⟩ := List.mem_map.mp ht
      split
      · exact hz.tran x hx
      · exact hz.tran x hx
    · exact hz
  | buildA =>
    rw [gstep_of_none (okRow_none_of_newRow rfl)]
    simp only [step]
    split
    · next b _ _ =>
      refine ⟨szinv_modTbl_get hz.tbl _ _ (fun ti hti => ?_), hz.tran⟩
      exact ⟨by rw [applyBuild_rows, rowsSize_ext]; exact hti.1, by rw [applyBuild_rows]; exact rowsIn_ext _ hti.2⟩
    · exact hz

/-! ## every history whose records get fresh offsets -/

/-- the offsets of the records the successful writes of the history add, in order -/
def okOffs : State → List Op → List Off
  | _, [] => []
  | s, op :: ops => ((okRow s op).map (·.off)).toList ++ okOffs (step s op).1 ops

def grun : Ghost → State → List Op → Ghost
  | g, _, [] => g
  | g, s, op :: ops => grun (gstep g s op) (step s op).1 ops

theorem dbsz_run : ∀ (ops : List Op) (g : Ghost) (s : State), DbInv s → SzInv g s → OpsOK s ops →
    (okOffs s ops).Nodup → (∀ o ∈ okOffs s ops, o ∉ g.used) →
    DbInv (run s ops) ∧ SzInv (grun g s ops) (run s ops) := by
  intro ops
  induction ops with
  | nil => intro g s h hz _ _ _; exact ⟨h, hz⟩
  | cons op ops ih =>
    intro g s h hz hok hnd hfr
    have hfresh : OpFresh g s op := by
      intro row hr
      exact hfr row.off (by simp [okOffs, hr])
    refine ih (gstep g s op) (step s op).1 (dbinv_step h op hok.1) (szinv_step h hz op hfresh) hok.2 ?_ ?_
    · cases hr : okRow s op with
      | none => simpa [okOffs, hr] using hnd
      | some row =>
        have : (row.off :: okOffs (step s op).1 ops).Nodup := by simpa [okOffs, hr] using hnd
        exact (List.nodup_cons.mp this).2
    · intro o ho
      cases hr : okRow s op with
      | none =>
        simp only [gstep, hr]
        exact hfr o (by simpa [okOffs, hr] using ho)
      | some row =>
        have hnd' : (row.off :: okOffs (step s op).1 ops).Nodup := by simpa [okOffs, hr] using hnd
        simp only [gstep, hr, List.mem_cons, not_or]
        refine ⟨fun e => (List.nodup_cons.mp hnd').1 (e ▸ ho), ?_⟩
        exact hfr o (by simp only [okOffs, hr, Option.map_some, Option.toList_some]; exact List.mem_append_right _ ho)

/-- every reachable state: counts and sizes are exact -/
theorem info_exact_reachable (ops : List Op) (hok : OpsOK State.init ops) (hfr : (okOffs State.init ops).Nodup)
    (j : Nat) (ti : Info) (hj : (run State.init ops).mt[j]? = some ti) :
    ti.nrows = ti.rows.length ∧ ti.size = rowsSize ti.rows := by
  obtain ⟨h, hz⟩ := dbsz_run ops Ghost.init State.init dbinv_init szinv_init hok hfr (by simp [Ghost.init])
  exact ⟨(h.tbl j ti hj).cnt, (hz.tbl j ti hj).1⟩

/-- … and so is what every transaction reports about its own view -/
theorem info_exact_tran_reachable (ops : List Op) (hok : OpsOK State.init ops) (hfr : (okOffs State.init ops).Nodup)
    (t : Tran) (ht : t ∈ (run State.init ops).trans) (j : Nat) (sti : Info) (d : TDif)
    (hs : t.snap[j]? = some sti) (hd : t.dif[j]? = some d) :
    sti.nrows + d.dn = (d.view sti.rows).length ∧ sti.size + d.ds = rowsSize (d.view sti.rows) := by
  obtain ⟨h, hz⟩ := dbsz_run ops Ghost.init State.init dbinv_init szinv_init hok hfr (by simp [Ghost.init])
  obtain ⟨hT, hV⟩ := h.tran t ht j sti d hs hd
  exact ⟨hT.cnt ▸ hV.cnt, (hz.tran t ht j sti d hs hd).1 ▸ hV.sz⟩

end Gsu.Db
