/-
Lemmas for C10 (btree content as an ordered map). Core-only.
-/
import Gsu.Model.Btree
import Gsu.Model.BtreeLeaf
namespace Gsu.Btree

def Sorted (m : List KV) : Prop := m.Pairwise (fun a b => a.1 < b.1)

theorem lookup_none_of_lt {m : List KV} {k : Key} (h : ∀ e ∈ m, k < e.1) : lookup m k = none := by
  induction m with
  | nil => rfl
  | cons x xs ih =>
    obtain ⟨k', o'⟩ := x
    have h1 := h (k', o') List.mem_cons_self
    have : k' ≠ k := by intro e; subst e; simp at h1; grind
    simp only [lookup, this, if_false]
    exact ih (fun e he => h e (List.mem_cons_of_mem _ he))

theorem ins_spec {m m' : List KV} {k : Key} {o : Nat} (hs : Sorted m) (h : ins m k o = some m') :
    Sorted m' ∧ lookup m k = none ∧ (∀ x, lookup m' x = if x = k then some o else lookup m x) ∧
    (∀ e ∈ m', e = (k, o) ∨ e ∈ m) := by
  induction m generalizing m' with
  | nil =>
    simp only [ins, Option.some.injEq] at h; subst h
    refine ⟨by simp [Sorted], rfl, ?_, by simp⟩
    intro x; simp only [lookup]
    by_cases hx : x = k
    · subst hx; simp
    · have : ¬ k = x := fun e => hx e.symm
      simp [hx, this]
  | cons y ys ih =>
    obtain ⟨k', o'⟩ := y
    have hp := List.pairwise_cons.mp hs
    simp only [ins] at h
    by_cases h1 : k < k'
    · simp only [h1, if_true, Option.some.injEq] at h; subst h
      refine ⟨?_, ?_, ?_, ?_⟩
      · apply List.pairwise_cons.mpr
        refine ⟨?_, hs⟩
        intro e he
        rcases List.mem_cons.mp he with rfl | he'
        · exact h1
        · have := hp.1 e he'; simp only at this ⊢; grind
      · apply lookup_none_of_lt
        intro e he
        rcases List.mem_cons.mp he with rfl | he'
        · exact h1
        · have := hp.1 e he'; simp only at this; grind
      · intro x; simp only [lookup]
        by_cases hx : x = k
        · subst hx; simp
        · have : ¬ k = x := fun e => hx e.symm
          simp [hx, this]
      · intro e he; rcases List.mem_cons.mp he with rfl | he' <;> simp_all
    · simp only [h1, if_false] at h
      by_cases h2 : k = k'
      · simp [h2] at h
      · simp only [h2, if_false] at h
        cases hr : ins ys k o with
        | none => simp [hr] at h
        | some r =>
          simp only [hr, Option.map_some, Option.some.injEq] at h; subst h
          obtain ⟨a, b, c, d⟩ := ih hp.2 hr
          refine ⟨?_, ?_, ?_, ?_⟩
          · apply List.pairwise_cons.mpr
            refine ⟨?_, a⟩
            intro e he
            rcases d e he with rfl | he'
            · simp only; grind
            · exact hp.1 e he'
          · have : ¬ k' = k := fun e => h2 e.symm
            simp only [lookup, this, if_false]; exact b
          · intro x; simp only [lookup]
            by_cases hx : k' = x
            · subst hx; have : ¬ k' = k := fun e => h2 e.symm; simp [this]
            · simp only [hx, if_false]; exact c x
          · intro e he
            rcases List.mem_cons.mp he with rfl | he'
            · right; exact List.mem_cons_self
            · rcases d e he' with h | h
              · left; exact h
              · right; exact List.mem_cons_of_mem _ h

theorem upd_spec {m m' : List KV} {k : Key} {o : Nat} (hs : Sorted m) (h : upd m k o = some m') :
    Sorted m' ∧ (lookup m k).isSome ∧ (∀ x, lookup m' x = if x = k then some o else lookup m x) ∧
    (∀ e ∈ m', ∃ e' ∈ m, e.1 = e'.1) := by
  induction m generalizing m' with
  | nil => simp [upd] at h
  | cons y ys ih =>
    obtain ⟨k', o'⟩ := y
    have hp := List.pairwise_cons.mp hs
    simp only [upd] at h
    by_cases h1 : k = k'
    · subst h1
      simp only [if_true, Option.some.injEq] at h; subst h
      refine ⟨?_, by simp [lookup], ?_, ?_⟩
      · exact List.pairwise_cons.mpr ⟨hp.1, hp.2⟩
      · intro x; simp only [lookup]
        by_cases hx : k = x
        · subst hx; simp
        · have : ¬ x = k := fun e => hx e.symm
          simp [hx, this]
      · intro e he
        rcases List.mem_cons.mp he with rfl | he'
        · exact ⟨_, List.mem_cons_self, rfl⟩
        · exact ⟨e, List.mem_cons_of_mem _ he', rfl⟩
    · simp only [h1, if_false] at h
      cases hr : upd ys k o with
      | none => simp [hr] at h
      | some r =>
        simp only [hr, Option.map_some, Option.some.injEq] at h; subst h
        obtain ⟨a, b, c, d⟩ := ih hp.2 hr
        have hne : ¬ k' = k := fun e => h1 e.symm
        refine ⟨?_, ?_, ?_, ?_⟩
        · apply List.pairwise_cons.mpr
          refine ⟨?_, a⟩
          intro e he
          obtain ⟨e', he', hk⟩ := d e he
          have := hp.1 e' he'
          simp only at this ⊢; rw [hk]; exact this
        · simp only [lookup, hne, if_false]; exact b
        · intro x; simp only [lookup]
          by_cases hx : k' = x
          · subst hx; simp [hne]
          · simp only [hx, if_false]; exact c x
        · intro e he
          rcases List.mem_cons.mp he with rfl | he'
          · exact ⟨_, List.mem_cons_self, rfl⟩
          · obtain ⟨e', h1', h2'⟩ := d e he'
            exact ⟨e', List.mem_cons_of_mem _ h1', h2'⟩

theorem del_spec {m m' : List KV} {k : Key} (hs : Sorted m) (h : del m k = some m') :
    Sorted m' ∧ (lookup m k).isSome ∧ (∀ x, lookup m' x = if x = k then none else lookup m x) ∧
    (∀ e ∈ m', e ∈ m) := by
  induction m generalizing m' with
  | nil => simp [del] at h
  | cons y ys ih =>
    obtain ⟨k', o'⟩ := y
    have hp := List.pairwise_cons.mp hs
    simp only [del] at h
    by_cases h1 : k = k'
    · subst h1
      simp only [if_true, Option.some.injEq] at h; subst h
      refine ⟨hp.2, by simp [lookup], ?_, fun e he => List.mem_cons_of_mem _ he⟩
      intro x; simp only [lookup]
      by_cases hx : k = x
      · subst hx
        simp only [if_true]
        apply lookup_none_of_lt
        intro e he; exact hp.1 e he
      · have : ¬ x = k := fun e => hx e.symm
        simp [hx, this]
    · simp only [h1, if_false] at h
      cases hr : del ys k with
      | none => simp [hr] at h
      | some r =>
        simp only [hr, Option.map_some, Option.some.injEq] at h; subst h
        obtain ⟨a, b, c, d⟩ := ih hp.2 hr
        have hne : ¬ k' = k := fun e => h1 e.symm
        refine ⟨?_, ?_, ?_, ?_⟩
        · exact List.pairwise_cons.mpr ⟨fun e he => hp.1 e (d e he), a⟩
        · simp only [lookup, hne, if_false]; exact b
        · intro x; simp only [lookup]
          by_cases hx : k' = x
          · subst hx; simp [hne]
          · simp only [hx, if_false]; exact c x
        · intro e he
          rcases List.mem_cons.mp he with rfl | he'
          · exact List.mem_cons_self
          · exact List.mem_cons_of_mem _ (d e he')

/-- the abstract map operation a batch entry stands for -/
def specOne (f : Key → Option Nat) (k : Key) (op : Op) (o : Nat) : Key → Option Nat :=
  fun x => if x = k then (match op with | .del => none | _ => some o) else f x

def specBatch (f : Key → Option Nat) : List (Key × Op × Nat) → Key → Option Nat
  | [] => f
  | (k, op, o) :: b => specBatch (specOne f k op o) b

theorem applyOne_spec {m m' : List KV} {k : Key} {op : Op} {o : Nat} (hs : Sorted m)
    (h : applyOne m k op o = some m') :
    Sorted m' ∧ (∀ x, lookup m' x = specOne (lookup m) k op o x) := by
  cases op with
  | add => obtain ⟨a, _, c, _⟩ := ins_spec hs h; exact ⟨a, fun x => by simp [specOne, c x]⟩
  | upd => obtain ⟨a, _, c, _⟩ := upd_spec hs h; exact ⟨a, fun x => by simp [specOne, c x]⟩
  | del => obtain ⟨a, _, c, _⟩ := del_spec hs h; exact ⟨a, fun x => by simp [specOne, c x]⟩

theorem specBatch_congr {f g : Key → Option Nat} (h : ∀ x, f x = g x) (b : List (Key × Op × Nat)) :
    ∀ x, specBatch f b x = specBatch g b x := by
  induction b generalizing f g with
  | nil => exact h
  | cons e b ih =>
    obtain ⟨k, op, o⟩ := e
    simp only [specBatch]
    apply ih
    intro x; simp [specOne, h x]

theorem applyBatch_spec {m m' : List KV} {b : List (Key × Op × Nat)} (hs : Sorted m)
    (h : applyBatch m b = some m') :
    Sorted m' ∧ (∀ x, lookup m' x = specBatch (lookup m) b x) := by
  induction b generalizing m with
  | nil => simp only [applyBatch, Option.some.injEq] at h; subst h; exact ⟨hs, fun _ => rfl⟩
  | cons e b ih =>
    obtain ⟨k, op, o⟩ := e
    simp only [applyBatch] at h
    cases h1 : applyOne m k op o with
    | none => simp [h1] at h
    | some m1 =>
      simp only [h1] at h
      obtain ⟨a, c⟩ := applyOne_spec hs h1
      obtain ⟨a2, c2⟩ := ih a h
      refine ⟨a2, ?_⟩
      intro x
      rw [c2 x]
      simp only [specBatch]
      exact specBatch_congr c b x

/-- the Go asserts: a batch is accepted exactly when every entry meets its precondition -/
theorem applyOne_defined {m : List KV} {k : Key} {op : Op} {o : Nat} (hs : Sorted m) :
    (applyOne m k op o).isSome ↔ (match op with | .add => lookup m k = none | _ => (lookup m k).isSome) := by
  induction m with
  | nil => cases op <;> simp [applyOne, ins, upd, del, lookup]
  | cons y ys ih =>
    obtain ⟨k', o'⟩ := y
    have hp := List.pairwise_cons.mp hs
    have ih := ih hp.2
    cases op with
    | add =>
      simp only [applyOne, ins, lookup] at ih ⊢
      by_cases h1 : k < k'
      · have hne : ¬ k' = k := by intro e; subst e; grind
        simp only [h1, if_true, Option.isSome_some, hne, if_false, true_iff]
        apply lookup_none_of_lt
        intro e he; have := hp.1 e he; simp only at this; grind
      · by_cases h2 : k = k'
        · subst h2; simp [h1]
        · have hne : ¬ k' = k := fun e => h2 e.symm
          simp only [h1, h2, if_false, hne, Option.isSome_map]; exact ih
    | upd =>
      simp only [applyOne, upd, lookup] at ih ⊢
      by_cases h2 : k = k'
      · subst h2; simp
      · have hne : ¬ k' = k := fun e => h2 e.symm
        simp only [h2, if_false, hne, Option.isSome_map]; exact ih
    | del =>
      simp only [applyOne, del, lookup] at ih ⊢
      by_cases h2 : k = k'
      · subst h2; simp
      · have hne : ¬ k' = k := fun e => h2 e.symm
        simp only [h2, if_false, hne, Option.isSome_map]; exact ih


/-! ### bulk build -/

theorem chunkAux_flatten {α} (n : Nat) (l : List α) : ∀ (room : Nat) (cur : List α),
    (chunkAux n l room cur).flatten = cur.reverse ++ l := by
  induction l with
  | nil =>
    intro room cur
    simp only [chunkAux]
    cases cur <;> simp
  | cons x xs ih =>
    intro room cur
    simp only [chunkAux]
    by_cases h : room = 0
    · simp [h, ih]
    · simp [h, ih]

theorem chunk_flatten {α} (n : Nat) (l : List α) : (chunk n l).flatten = l := by
  simp [chunk, chunkAux_flatten]

theorem toListKids_append (a b : List Tree) : toListKids (a ++ b) = toListKids a ++ toListKids b := by
  induction a with
  | nil => simp [toListKids]
  | cons t ts ih => simp [toListKids, ih]

theorem toListKids_nodes (css : List (List Tree)) :
    toListKids (css.map Tree.node) = toListKids css.flatten := by
  induction css with
  | nil => simp [toListKids]
  | cons c cs ih => simp [toListKids, Tree.toList, toListKids_append, ih]

theorem toListKids_leaves (cs : List (List KV)) : toListKids (cs.map Tree.leaf) = cs.flatten := by
  induction cs with
  | nil => simp [toListKids]
  | cons c cs ih => simp [toListKids, Tree.toList, ih]

theorem buildUp_toList (n : Nat) : ∀ (fuel : Nat) (ts : List Tree),
    (buildUp n fuel ts).toList = toListKids ts := by
  intro fuel
  induction fuel with
  | zero => intro ts; simp [buildUp, Tree.toList]
  | succ fuel ih =>
    intro ts
    unfold buildUp
    split
    · simp [toListKids]
    · rw [ih, toListKids_nodes, chunk_flatten]

theorem build_toList (n : Nat) (l : List KV) : (build n l).toList = l := by
  unfold build
  split
  · next h =>
    have := chunk_flatten n l
    rw [h] at this
    simp at this
    simp [Tree.toList, this]
  · rw [buildUp_toList, toListKids_leaves, chunk_flatten]

end Gsu.Btree

/-! ### byte sizes of bulk-built leaves -/
namespace Gsu.Btree

theorem leafSize_le (n p f : Nat) (hn : 1 ≤ n) : leafSize n p f ≤ 4 + 7 * n + f := by
  unfold leafSize
  have : p ≤ n * p := Nat.le_mul_of_pos_left p hn
  omega

theorem leafSize_one (p f : Nat) : leafSize 1 p f = 11 + f := by
  unfold leafSize; omega

theorem add_first_size (k : Key) : (({} : LB).add k).size = 11 + k.length := by
  simp [LB.add, LB.size, LB.newPre, leafSize_one]

/-- a key accepted by `tryAdd` leaves a leaf that fits a node and holds at most `split` keys -/
theorem tryAdd_fits {split : Nat} (hs : split ≤ 100) {b b' : LB} {k : Key}
    (h : b.tryAdd split k = some b') :
    b'.size ≤ maxNodeSizeM ∧ b'.n ≤ split ∧ b'.n = b.n + 1 := by
  unfold LB.tryAdd at h
  simp only at h
  split at h
  · cases h
  · next hn =>
    split at h
    · cases h
    · next hc =>
      simp only [Option.some.injEq] at h; subst h
      refine ⟨?_, by simp [LB.add]; omega, by simp [LB.add]⟩
      simp only [LB.add, LB.size, LB.newPre]
      by_cases h0 : b.n = 0
      · -- first key: the size does not depend on the prefix
        simp only [h0, if_true, Nat.zero_add] at hc ⊢
        rw [leafSize_one] at hc ⊢
        simp only [fieldsLimitM, maxNodeSizeM] at hc ⊢
        omega
      · simp only [h0, if_false]
        by_cases hfl : b.fieldsLen + k.length > fieldsLimitM
        · have : ¬ leafSize (b.n + 1) (min 255 (commonPrefix b.pre k).length) (b.fieldsLen + k.length)
              > maxNodeSizeM := fun h2 => hc ⟨hfl, h2⟩
          omega
        · have := leafSize_le (b.n + 1) (min 255 (commonPrefix b.pre k).length)
            (b.fieldsLen + k.length) (by omega)
          simp only [fieldsLimitM, maxNodeSizeM] at hfl ⊢
          omega

theorem packLeaves_fits {split : Nat} (hs : split ≤ 100) (h1 : 1 ≤ split) :
    ∀ (keys : List Key) (b : LB), (∀ k ∈ keys, k.length + 11 ≤ maxNodeSizeM) →
      b.size ≤ maxNodeSizeM → b.n ≤ split →
      ∀ p ∈ packLeaves split keys b, p.2 ≤ maxNodeSizeM ∧ p.1 ≤ split := by
  intro keys
  induction keys with
  | nil =>
    intro b _ hb hn p hp
    simp only [packLeaves, List.mem_singleton] at hp; subst hp; exact ⟨hb, hn⟩
  | cons k ks ih =>
    intro b hk hb hn p hp
    simp only [packLeaves] at hp
    have hks : ∀ k ∈ ks, k.length + 11 ≤ maxNodeSizeM := fun x hx => hk x (List.mem_cons_of_mem _ hx)
    cases ht : b.tryAdd split k with
    | some b' =>
      rw [ht] at hp
      obtain ⟨a, c, _⟩ := tryAdd_fits hs ht
      exact ih b' hks a c p hp
    | none =>
      rw [ht] at hp
      rcases List.mem_cons.mp hp with rfl | hp'
      · exact ⟨hb, hn⟩
      · refine ih _ hks ?_ ?_ p hp'
        · rw [add_first_size]; have := hk k List.mem_cons_self; omega
        · simp [LB.add]; exact h1

theorem leaves_fit {split : Nat} (hs : split ≤ 100) (h1 : 1 ≤ split) (keys : List Key)
    (hk : ∀ k ∈ keys, k.length + 11 ≤ maxNodeSizeM) :
    ∀ p ∈ leaves split keys, p.2 ≤ maxNodeSizeM ∧ p.1 ≤ split :=
  packLeaves_fits hs h1 keys {} hk (by simp [LB.size, leafSize, maxNodeSizeM]) (by simp)

/-- no key is lost or duplicated by the packing -/
theorem packLeaves_count (split : Nat) : ∀ (keys : List Key) (b : LB),
    ((packLeaves split keys b).map (·.1)).sum = b.n + keys.length := by
  intro keys
  induction keys with
  | nil => intro b; simp [packLeaves]
  | cons k ks ih =>
    intro b
    simp only [packLeaves]
    cases ht : b.tryAdd split k with
    | some b' =>
      simp only
      have : b'.n = b.n + 1 := by
        unfold LB.tryAdd at ht; simp only at ht
        split at ht
        · cases ht
        · split at ht
          · cases ht
          · simp only [Option.some.injEq] at ht; subst ht; simp [LB.add]
      rw [ih b', this]; simp; omega
    | none =>
      simp only [List.map_cons, List.sum_cons]
      rw [ih]; simp [LB.add]; omega

end Gsu.Btree
