/-
Lemmas for C20 about `Gsu.Model.Dump` (core Lean only).
-/
import Gsu.Model.Dump
namespace Gsu.Dump
open Gsu.Proto

/-! ### framing -/

theorem rd32_be32 (n : Nat) (h : n < 4294967296) (rest : Bytes) :
    rd32 (be32 n ++ rest) = some (n, rest) := by
  simp only [be32, rd32, List.cons_append, List.nil_append, UInt8.toNat_ofNat']
  congr 2
  omega

theorem length_be32 (n : Nat) : (be32 n).length = 4 := rfl

theorem length_writeRecs_ge (rs : List Bytes) : rs.length < (writeRecs rs).length := by
  induction rs with
  | nil => simp [writeRecs, length_be32]
  | cons r rs ih => simp only [writeRecs, List.length_append, length_be32, List.length_cons]; omega

theorem readRecs_writeRecs (rs : List Bytes) (rest : Bytes)
    (h : ∀ r ∈ rs, 0 < r.length ∧ r.length < 4294967296) (fuel : Nat) (hf : rs.length < fuel) :
    readRecs fuel (writeRecs rs ++ rest) = some (rs, rest) := by
  induction rs generalizing fuel with
  | nil =>
    cases fuel with
    | zero => omega
    | succ f => simp [writeRecs, readRecs, rd32_be32 0 (by omega)]
  | cons r rs ih =>
    cases fuel with
    | zero => omega
    | succ f =>
      have hr := h r List.mem_cons_self
      have hrs : ∀ x ∈ rs, 0 < x.length ∧ x.length < 4294967296 :=
        fun x hx => h x (List.mem_cons_of_mem _ hx)
      have e : writeRecs (r :: rs) ++ rest = be32 r.length ++ (r ++ (writeRecs rs ++ rest)) := by
        simp [writeRecs, List.append_assoc]
      rw [e]
      unfold readRecs
      rw [rd32_be32 _ hr.2]
      have hne : r.length ≠ 0 := by omega
      simp only [hne, if_false, List.length_append]
      have hlt : ¬ (r.length + ((writeRecs rs).length + rest.length) < r.length) := by omega
      simp only [hlt, if_false, List.drop_left, List.take_left]
      rw [ih hrs f (by simp at hf; omega)]

/-! ### squeeze -/

theorem getRaw_nil (i : Nat) : getRaw [] i = [] := by simp [getRaw]

theorem getRaw_cons_zero (v : Bytes) (vs : Row) : getRaw (v :: vs) 0 = v := by simp [getRaw]

theorem getRaw_cons_succ (v : Bytes) (vs : Row) (i : Nat) : getRaw (v :: vs) (i + 1) = getRaw vs i := by
  simp [getRaw]

/-- `Trim` is invisible to `GetRaw` -/
theorem getRaw_trim (vs : Row) (i : Nat) : getRaw (trim vs) i = getRaw vs i := by
  induction vs generalizing i with
  | nil => rfl
  | cons v vs ih =>
    unfold trim
    split
    · next ht =>
      have hall : ∀ j, getRaw vs j = [] := fun j => by rw [← ih j, ht, getRaw_nil]
      split
      · next hv =>
        subst hv
        cases i with
        | zero => simp [getRaw]
        | succ j => rw [getRaw_cons_succ, hall j, getRaw_nil]
      · cases i with
        | zero => simp [getRaw]
        | succ j => rw [getRaw_cons_succ, getRaw_cons_succ, hall j, getRaw_nil]
    · next t hne =>
      cases i with
      | zero => simp [getRaw]
      | succ j => rw [getRaw_cons_succ, getRaw_cons_succ]; exact ih j

theorem liveIdx_cons_succ (c : String) (cs : List String) (p : Nat) :
    liveIdx (c :: cs) (p + 1) = (if c = "-" then 0 else 1) + liveIdx cs p := by
  unfold liveIdx liveCols
  by_cases h : c = "-"
  · simp [h]
  · simp [h]; omega

theorem squeezeFrom_get (rec : Row) (cs : List String) (k p : Nat) (c : String)
    (hp : cs[p]? = some c) (hc : c ≠ "-") :
    getRaw (squeezeFrom rec cs k) (liveIdx cs p) = getRaw rec (k + p) := by
  induction cs generalizing k p with
  | nil => simp at hp
  | cons d ds ih =>
    cases p with
    | zero =>
      simp only [List.getElem?_cons_zero, Option.some.injEq] at hp
      subst hp
      simp [squeezeFrom, hc, liveIdx, liveCols, getRaw_cons_zero]
    | succ q =>
      simp only [List.getElem?_cons_succ] at hp
      rw [liveIdx_cons_succ]
      unfold squeezeFrom
      by_cases hd : d = "-"
      · simp only [hd, if_true, Nat.zero_add]
        rw [ih (k + 1) q hp]; congr 1; omega
      · simp only [hd, if_false]
        rw [Nat.add_comm 1, getRaw_cons_succ, ih (k + 1) q hp]; congr 1; omega

theorem squeeze_get (rec : Row) (cols : List String) (i : Nat) (c : String)
    (hi : cols[i]? = some c) (hc : c ≠ "-") :
    getRaw (squeeze rec cols) (liveIdx cols i) = getRaw rec i := by
  unfold squeeze
  rw [getRaw_trim, squeezeFrom_get rec cols 0 i c hi hc, Nat.zero_add]

theorem liveCols_of_noDel (cols : List String) (h : hasDeleted cols = false) : liveCols cols = cols := by
  unfold liveCols
  rw [List.filter_eq_self]
  intro c hc
  simp only [hasDeleted, List.contains_eq_mem, decide_eq_false_iff_not] at h
  simp only [bne_iff_ne, ne_eq]
  intro e; subst e; exact h hc

theorem liveIdx_of_noDel (cols : List String) (h : hasDeleted cols = false) (i : Nat) (hi : i ≤ cols.length) :
    liveIdx cols i = i := by
  unfold liveIdx
  have hsub : hasDeleted (cols.take i) = false := by
    simp only [hasDeleted, List.contains_eq_mem, decide_eq_false_iff_not] at h ⊢
    exact fun hm => h (List.mem_of_mem_take hm)
  rw [liveCols_of_noDel _ hsub, List.length_take]; omega

theorem dumpRow_get (rec : Row) (cols : List String) (i : Nat) (c : String)
    (hi : cols[i]? = some c) (hc : c ≠ "-") :
    getRaw (dumpRow cols rec) (liveIdx cols i) = getRaw rec i := by
  unfold dumpRow
  cases hd : hasDeleted cols with
  | true => simp only [if_true]; exact squeeze_get rec cols i c hi hc
  | false =>
    have hil : i < cols.length := (List.getElem?_eq_some_iff.mp hi).1
    simp [liveIdx_of_noDel cols hd i (by omega)]

theorem compactRow_get (rec : Row) (cols : List String) (i : Nat) (c : String)
    (hi : cols[i]? = some c) (hc : c ≠ "-") :
    getRaw (compactRow cols rec) (liveIdx cols i) = getRaw rec i := by
  unfold compactRow
  cases hd : (hasDeleted cols || hasTrailingEmpty rec) with
  | true => simp only [if_true]; exact squeeze_get rec cols i c hi hc
  | false =>
    have hil : i < cols.length := (List.getElem?_eq_some_iff.mp hi).1
    have hd' : hasDeleted cols = false := by
      cases h : hasDeleted cols with
      | true => simp [h] at hd
      | false => rfl
    simp [liveIdx_of_noDel cols hd' i (by omega)]

/-! ### token level -/

theorem takeRecs_rows (rows : List Row) (rest : List Tok) :
    takeRecs (rows.map Tok.row ++ Tok.endRecs :: rest) = some (rows, rest) := by
  induction rows with
  | nil => rfl
  | cons r rs ih => simp [takeRecs, ih]

theorem dumpTables_length (ts : List Table) : ts.length ≤ (dumpTables ts).length := by
  induction ts with
  | nil => simp [dumpTables]
  | cons t ts ih => simp only [dumpTables, dumpTable, List.length_append, List.length_cons]; omega

theorem loadTables_dump (ts : List Table) (acc : List Table) (fuel : Nat) (hf : ts.length < fuel)
    (hok : ∀ t ∈ ts, tableOk (normTable t) = true) :
    loadTables fuel (dumpTables ts) acc = .ok ⟨acc.reverse ++ ts.map normTable, []⟩ := by
  induction ts generalizing acc fuel with
  | nil =>
    cases fuel with
    | zero => omega
    | succ f => simp [dumpTables, loadTables]
  | cons t ts ih =>
    cases fuel with
    | zero => omega
    | succ f =>
      have e : dumpTables (t :: ts) =
          Tok.table t.name (liveCols t.cols) t.idxs ::
            ((t.rows.map (dumpRow t.cols)).map Tok.row ++ Tok.endRecs :: dumpTables ts) := by
        simp [dumpTables, dumpTable, List.map_map, Function.comp_def]
      rw [e]
      unfold loadTables
      rw [takeRecs_rows]
      have h1 := hok t List.mem_cons_self
      simp only [normTable] at h1
      simp only [h1, if_true]
      rw [ih _ f (by simp at hf; omega) (fun x hx => hok x (List.mem_cons_of_mem _ hx))]
      simp [normTable]

theorem loadTables_ok_tables (fuel : Nat) (toks : List Tok) (acc : List Table) (db : Db)
    (h : loadTables fuel toks acc = .ok db) (hacc : ∀ t ∈ acc, tableOk t = true) :
    ∀ t ∈ db.tables, tableOk t = true := by
  induction fuel generalizing toks acc with
  | zero => simp [loadTables] at h
  | succ f ih =>
    cases toks with
    | nil =>
      simp only [loadTables] at h
      injection h with h; subst h
      intro t ht
      exact hacc t (List.mem_reverse.mp ht)
    | cons tok rest =>
      cases tok with
      | table name cols idxs =>
        simp only [loadTables] at h
        split at h
        · cases h
        · next rows rest' _ =>
          split at h
          · next hok =>
            exact ih _ _ h (fun t ht => by
              rcases List.mem_cons.mp ht with rfl | ht
              · exact hok
              · exact hacc t ht)
          · cases h
      | header => simp [loadTables] at h
      | views => simp [loadTables] at h
      | row r => simp [loadTables] at h
      | endRecs => simp [loadTables] at h

theorem loadDb_dumpDb (db : Db) (hok : ∀ t ∈ db.tables, tableOk (normTable t) = true) :
    loadDb (dumpDb db) = .ok ⟨db.tables.map normTable, db.views⟩ := by
  have e : dumpDb db = Tok.header :: Tok.views ::
      ((db.views.map fun v => trim [v.1, v.2]).map Tok.row ++ Tok.endRecs :: dumpTables db.tables) := by
    simp [dumpDb, dumpViews, List.map_map, Function.comp_def]
  rw [e]
  unfold loadDb
  simp only [takeRecs_rows]
  rw [loadTables_dump db.tables [] _ (by have := dumpTables_length db.tables; omega) hok]
  simp only [List.reverse_nil, List.nil_append, List.map_map]
  congr 2
  have : ((fun r => (getRaw r 0, getRaw r 1)) ∘ fun (v : Bytes × Bytes) => trim [v.1, v.2]) = id := by
    funext v
    simp only [Function.comp, getRaw_trim, id]
    rfl
  rw [this, List.map_id]

/-! ### index order -/

theorem indexOrder_mem (n first i : Nat) (hf : first < n) (hi : i < n) : i ∈ indexOrder n first := by
  unfold indexOrder
  by_cases h : i = first
  · subst h; exact List.mem_cons_self
  · exact List.mem_cons_of_mem _ (List.mem_filter.mpr ⟨List.mem_range.mpr hi, by simpa using h⟩)

theorem indexOrder_lt (n first i : Nat) (hf : first < n) (hi : i ∈ indexOrder n first) : i < n := by
  unfold indexOrder at hi
  rcases List.mem_cons.mp hi with rfl | h
  · exact hf
  · exact List.mem_range.mp (List.mem_filter.mp h).1

theorem indexOrder_nodup (n first : Nat) : (indexOrder n first).Nodup := by
  unfold indexOrder
  refine List.nodup_cons.mpr ⟨?_, (List.nodup_range).sublist (List.filter_sublist)⟩
  intro h
  have := (List.mem_filter.mp h).2
  simp at this

theorem placeByIndex_aligned {α} (n first : Nat) (hf : first < n) (built : Nat → α) :
    placeByIndex n (indexOrder n first) built = (List.range n).map fun i => some (built i) := by
  unfold placeByIndex
  apply List.map_congr_left
  intro i hi
  have hm := indexOrder_mem n first i hf (List.mem_range.mp hi)
  simp [hm]

end Gsu.Dump
