/-
C29, dynamic half of closure-vs-function: a SECOND semantics of the mini block language in which
a block may be run "as a plain function": its frame is marked `plain`, every name of a plain frame
lives in the frame's own fresh private store (`locals`, empty at each call) and the frame never
reads or writes the shared store. Which blocks run that way is a parameter `cf` ("compile as
function" decision); `cfAll` is the maximal choice: every block with `isClosure = false` (the
mirror of `Block.CompileAsFunction`) whose scope id is not reused by an enclosing or nested scope.
`evalE₂`/`evalAdds₂`/`runBody₂` are clause-for-clause copies of `evalE`/`evalAdds`/`runBody`
(Model/LangBlocks.lean) except for `readVar₂`/`writeVar₂`/`bindParams₂` and the `plain` flag.
Core Lean only.
-/
import Gsu.Model.LangBlocks
namespace Gsu.LangBlocks

/-- plain-function frame: all names private, shared store untouched -/
def readVar₂ (pl : Bool) (fr : Frame) (st : State) (v : Nat) : Option Val :=
  if pl then lget fr.locals v else readVar fr st v

def writeVar₂ (pl : Bool) (fr : Frame) (st : State) (v : Nat) (x : Val) : Frame × State :=
  if pl then ({ fr with locals := lput fr.locals v x }, st) else writeVar fr st v x

def bindParams₂ (pl : Bool) (fr : Frame) (st : State) : List Nat → List Val → Frame × State
  | p :: ps, a :: as => let (fr', st') := writeVar₂ pl fr st p a; bindParams₂ pl fr' st' ps as
  | _, _ => (fr, st)

/-- no block nested in `c` (to the depth the sharing analysis looks) has scope id `i` -/
def noKidId (i : Nat) : Nat → Scope → Bool
  | 0, _ => true
  | fuel + 1, c => (kids c).all fun k => k.id != i && noKidId i fuel k

/-- the scope id of `s` is its own: no enclosing scope and no nested block reuses it (the store is
keyed by scope id; the compiler's scopes are distinct objects, the generator numbers them) -/
def idsOK (chain : List Scope) (s : Scope) : Bool :=
  chain.all (fun p => p.id != s.id) && noKidId s.id reachFuel s

/-- the maximal decision: every block the analysis does not make a closure -/
def cfAll (chain : List Scope) (s : Scope) : Bool :=
  !isClosure reachFuel chain s && idsOK chain s

mutual
def evalE₂ (cf : List Scope → Scope → Bool) : Nat → Bool → Frame → State → Expr → Res Val
  | 0, _, _, st, _ => .err st
  | _ + 1, _, fr, st, .num n => .ok (.int n) fr st
  | _ + 1, pl, fr, st, .var x =>
    match readVar₂ pl fr st x with
    | some v => .ok v fr st
    | none => .err st
  | fuel + 1, pl, fr, st, .add a b =>
    match foldAddList (.add a b) with
    | [] => .err st
    | e1 :: rest =>
      match evalE₂ cf fuel pl fr st e1 with
      | .ok v fr1 st1 => evalAdds₂ cf fuel pl fr1 st1 v rest
      | .err s => .err s
      | .ret a v s => .ret a v s
  | fuel + 1, pl, fr, st, .call f a =>
    match evalE₂ cf fuel pl fr st a with
    | .ok arg fr1 st1 =>
      match readVar₂ pl fr1 st1 f with
      | some (.clo s chain act) =>
        if s.params.length = 1 then
          let (fr0, st0) := bindParams₂ (cf chain s) ⟨s, chain, act, []⟩ st1 s.params [arg]
          match runBody₂ cf fuel (cf chain s) fr0 st0 s.body with
          | .ok _ frb stb =>
            match evalE₂ cf fuel (cf chain s) frb stb s.result with
            | .ok v _ st2 => .ok v fr1 st2
            | .err s => .err s
            | .ret a v s => .ret a v s
          | .err s => .err s
          | .ret a v s => .ret a v s
        else .err st1
      | some (.fnv s) =>
        if s.params.length = 1 then
          let act := st1.next
          let (fr0, st0) := bindParams₂ false ⟨s, [], act, []⟩ { st1 with next := act + 1 } s.params [arg]
          match runBody₂ cf fuel false fr0 st0 s.body with
          | .ok _ frb stb =>
            match evalE₂ cf fuel false frb stb s.result with
            | .ok v _ st2 => .ok v fr1 st2
            | .err s => .err s
            | .ret a v s => if a = act then .ok v fr1 s else .ret a v s
          | .err s => .err s
          | .ret a v s => if a = act then .ok v fr1 s else .ret a v s
        else .err st1
      | _ => .err st1
    | .err s => .err s
    | .ret a v s => .ret a v s
  | _ + 1, _, fr, st, .block s => .ok (.clo s (fr.s :: fr.chain) fr.act) fr st
  | _ + 1, _, fr, st, .fn s => .ok (.fnv s) fr st

def evalAdds₂ (cf : List Scope → Scope → Bool) : Nat → Bool → Frame → State → Val → List Expr → Res Val
  | 0, _, _, st, _, _ => .err st
  | _ + 1, _, fr, st, acc, [] => .ok acc fr st
  | fuel + 1, pl, fr, st, acc, e :: rest =>
    match evalE₂ cf fuel pl fr st e with
    | .ok v fr1 st1 =>
      match acc, v with
      | .int x, .int y => evalAdds₂ cf fuel pl fr1 st1 (.int (x + y)) rest
      | _, _ => .err st1
    | .err s => .err s
    | .ret a v s => .ret a v s

def runBody₂ (cf : List Scope → Scope → Bool) : Nat → Bool → Frame → State → List Stmt → Res Unit
  | 0, _, _, st, _ => .err st
  | _ + 1, _, fr, st, [] => .ok () fr st
  | fuel + 1, pl, fr, st, .assign x e :: rest =>
    match evalE₂ cf fuel pl fr st e with
    | .ok v fr' st' =>
      let (fr'', st'') := writeVar₂ pl fr' st' x v
      runBody₂ cf fuel pl fr'' st'' rest
    | .err s => .err s
    | .ret a v s => .ret a v s
  | fuel + 1, pl, fr, st, .ifz c x e :: rest =>
    match evalE₂ cf fuel pl fr st c with
    | .ok (.int 0) fr1 st1 =>
      match evalE₂ cf fuel pl fr1 st1 e with
      | .ok v fr' st' =>
        let (fr'', st'') := writeVar₂ pl fr' st' x v
        runBody₂ cf fuel pl fr'' st'' rest
      | .err s => .err s
      | .ret a v s => .ret a v s
    | .ok _ fr1 st1 => runBody₂ cf fuel pl fr1 st1 rest
    | .err s => .err s
    | .ret a v s => .ret a v s
  | fuel + 1, pl, fr, st, .tryc x e w :: rest =>
    match evalE₂ cf fuel pl fr st e with
    | .ok v fr' st' =>
      let (fr'', st'') := writeVar₂ pl fr' st' x v
      runBody₂ cf fuel pl fr'' st'' rest
    | .err s =>
      let (fr'', st'') := writeVar₂ pl fr s w .str
      runBody₂ cf fuel pl fr'' st'' rest
    | .ret a v s => .ret a v s
  | fuel + 1, pl, fr, st, .ret e :: _ =>
    match evalE₂ cf fuel pl fr st e with
    | .ok v _ st' => .ret fr.act v st'
    | .err s => .err s
    | .ret a v s => .ret a v s
end

/-- `runTop` under the second semantics (the outermost function is a function in both) -/
def runTop₂ (cf : List Scope → Scope → Bool) (fuel : Nat) (s : Scope) (arg : Int) : Option Val :=
  let (fr0, st0) := bindParams₂ false ⟨s, [], 0, []⟩ ⟨[], 1⟩ s.params (s.params.map fun _ => Val.int arg)
  match runBody₂ cf fuel false fr0 st0 s.body with
  | .ok _ frb stb =>
    match evalE₂ cf fuel false frb stb s.result with
    | .ok v _ _ => some v
    | .ret a v _ => if a = 0 then some v else none
    | .err _ => none
  | .ret a v _ => if a = 0 then some v else none
  | .err _ => none

end Gsu.LangBlocks
