/-
Helper lemmas for C11 (Gsu.Props.C11) about the model Gsu.Model.Ixbuf. Core Lean only.
-/
import Gsu.Model.Ixbuf
namespace Gsu.Ixbuf
open Gsu.Proto
open Gsu.Gen.Ixbuf

/-! ## the generated table and the per-key algebra -/

theorem combineOld_table (c1 c2 : Chg) :
    combineOld c1 c2 =
      match c1, c2 with
      | .add _, .upd o2 => some (some (.add o2), 0)
      | .add _, .del _ => some (none, 0)
      | .upd o1, .upd o2 => some (some (.upd o2), o1)
      | .upd o1, .del o2 => some (some (.del o2), o1)
      | .del _, .add o2 => some (some (.upd o2), 0)
      | _, _ => none := by
  cases c1 <;> cases c2 <;> rfl

theorem combine_table (c1 c2 : Chg) :
    combine c1 c2 =
      match c1, c2 with
      | .add _, .upd o2 => some (some (.add o2))
      | .add _, .del _ => some none
      | .upd _, .upd o2 => some (some (.upd o2))
      | .upd _, .del o2 => some (some (.del o2))
      | .del _, .add o2 => some (some (.upd o2))
      | _, _ => none := by
  cases c1 <;> cases c2 <;> rfl

theorem combine_sound (s : KS) (c1 c2 : Chg) (s1 s2 : KS)
    (h1 : app s c1 = some s1) (h2 : app s1 c2 = some s2) :
    ∃ c, combine c1 c2 = some c ∧ appO s c = some s2 := by
  rw [combine_table]
  cases s <;> cases c1 <;> simp [app] at h1 <;> subst h1 <;> cases c2 <;> simp_all [app, appO]

theorem combine_defined_iff (c1 c2 : Chg) :
    (combine c1 c2).isSome ↔ ∃ s s1 s2, app s c1 = some s1 ∧ app s1 c2 = some s2 := by
  constructor
  · intro h
    rw [combine_table] at h
    cases c1 <;> cases c2 <;> simp at h
    · exact ⟨none, _, _, rfl, rfl⟩
    · exact ⟨none, _, _, rfl, rfl⟩
    · exact ⟨some 0, _, _, rfl, rfl⟩
    · exact ⟨some 0, _, _, rfl, rfl⟩
    · exact ⟨some 0, _, _, rfl, rfl⟩
  · rintro ⟨s, s1, s2, h1, h2⟩
    obtain ⟨c, hc, _⟩ := combine_sound s c1 c2 s1 s2 h1 h2
    simp [hc]

theorem mergeKey_sound (s : KS) (cs : List Chg) (s' : KS) (h : appAll s cs = some s') :
    ∃ m, mergeKey cs = some m ∧ appO s m = some s' := by
  cases cs with
  | nil => simp [appAll] at h; subst h; exact ⟨none, rfl, rfl⟩
  | cons c cs =>
    simp only [appAll, Option.bind_eq_some_iff] at h
    obtain ⟨s1, h1, hrest⟩ := h
    suffices H : ∀ (cs : List Chg) (acc : Option Chg) (s1 : KS),
        appO s acc = some s1 → appAll s1 cs = some s' →
        ∃ m, cs.foldlM mergeStep acc = some m ∧ appO s m = some s' by
      exact H cs (some c) s1 h1 hrest
    intro cs
    induction cs with
    | nil => intro acc s1 ha hr; simp [appAll] at hr; subst hr; exact ⟨acc, rfl, ha⟩
    | cons c2 cs ih =>
      intro acc s1 ha hr
      simp only [appAll, Option.bind_eq_some_iff] at hr
      obtain ⟨s2, h2, hr2⟩ := hr
      cases acc with
      | none =>
        simp only [appO] at ha
        cases ha
        simp only [List.foldlM_cons, mergeStep]
        exact ih (some c2) s2 h2 hr2
      | some c1 =>
        obtain ⟨m, hm, hm2⟩ := combine_sound s c1 c2 s1 s2 ha h2
        simp only [List.foldlM_cons, mergeStep, hm]
        exact ih m s2 hm2 hr2


/-! ## generated constants and `goal` -/

theorem gen_consts : cUpdate = 2 ^ 62 ∧ cDelete = 2 ^ 63 ∧ cInsert = 0 ∧ cMask = 2 ^ 40 - 1 ∧
    shift1 = 60 ∧ shift2 = 62 := by
  decide

theorem shr_code (f o : Nat) (s : Nat) (hs : s = 60 ∨ s = 62) (h : o < 2 ^ 40) :
    (f * 2 ^ 62 + o) >>> s = f * 2 ^ (62 - s) := by
  rw [Nat.shiftRight_eq_div_pow]
  rcases hs with rfl | rfl <;> omega

theorem gen_ops_code (c1 c2 : Chg) (h1 : c1.off ≤ cMask) (h2 : c2.off ≤ cMask) :
    ((c1.code * cUpdate + c1.off) >>> shift1) ||| ((c2.code * cUpdate + c2.off) >>> shift2) = 4 * c1.code + c2.code := by
  have e : cUpdate = 2 ^ 62 := by decide
  have m : cMask = 2 ^ 40 - 1 := by decide
  rw [e, shift1, shift2, shr_code _ _ 60 (Or.inl rfl) (by omega), shr_code _ _ 62 (Or.inr rfl) (by omega)]
  cases c1 <;> cases c2 <;> simp only [Chg.code] <;> decide

theorem goalN_vals (n : Nat) : goalN n =
    if n < 256 then 24 else if n < 1024 then 48 else if n < 4096 then 96
    else if n < 16384 then 192 else if n < 65536 then 384 else 768 := by
  simp only [goalN, goal, decide_eq_true_eq, Int.ofNat_eq_natCast, Int.reduceTDiv, Int.reduceAdd, Int.reduceMul]
  repeat' split
  all_goals first | rfl | omega

theorem goalN_ge (n : Nat) : 24 ≤ goalN n := by
  rw [goalN_vals]; repeat' split
  all_goals omega

theorem goalN_mono (a b : Nat) (h : a ≤ b) : goalN a ≤ goalN b := by
  rw [goalN_vals, goalN_vals]; repeat' split
  all_goals omega

/-! ## flat layers -/

def LB (k : Bytes) (l : Layer) : Prop := ∀ s ∈ l, k < s.1
def Sorted (l : Layer) : Prop := List.Pairwise (fun a b => a.1 < b.1) l

theorem sorted_cons (s : Slot) (r : Layer) : Sorted (s :: r) ↔ LB s.1 r ∧ Sorted r := by
  simp [Sorted, LB, List.pairwise_cons]

theorem LB_tail {k : Bytes} {s : Slot} {r : Layer} (h : LB k (s :: r)) : LB k r :=
  fun x hx => h x (List.mem_cons_of_mem _ hx)

theorem LB_head {k : Bytes} {s : Slot} {r : Layer} (h : LB k (s :: r)) : k < s.1 :=
  h s (List.mem_cons_self ..)

theorem LB_cons {k : Bytes} {s : Slot} {r : Layer} (h1 : k < s.1) (h2 : LB k r) : LB k (s :: r) := by
  intro x hx
  rcases List.mem_cons.1 hx with rfl | hx
  · exact h1
  · exact h2 x hx

theorem LB_trans {a b : Bytes} {l : Layer} (h : a < b) (hl : LB b l) : LB a l := by
  intro x hx
  have := hl x hx
  grind

theorem merge2_lb (k : Bytes) (l1 l2 l : Layer) (h1 : LB k l1) (h2 : LB k l2)
    (h : merge2 l1 l2 = some l) : LB k l := by
  fun_induction merge2 l1 l2 generalizing l
  case case1 => cases h; exact h2
  case case2 => cases h; exact h1
  case case3 ih =>
    simp only [Option.map_eq_some_iff] at h; obtain ⟨l', hl', rfl⟩ := h
    exact LB_cons (LB_head h1) (ih l' (LB_tail h1) h2 hl')
  case case4 ih =>
    simp only [Option.map_eq_some_iff] at h; obtain ⟨l', hl', rfl⟩ := h
    exact LB_cons (LB_head h2) (ih l' h1 (LB_tail h2) hl')
  case case5 => cases h
  case case6 ih => exact ih l (LB_tail h1) (LB_tail h2) h
  case case7 ih =>
    simp only [Option.map_eq_some_iff] at h; obtain ⟨l', hl', rfl⟩ := h
    have hk := LB_head h1
    exact LB_cons hk (ih l' (LB_tail h1) (LB_tail h2) hl')

theorem merge2_sorted (l1 l2 l : Layer) (h1 : Sorted l1) (h2 : Sorted l2)
    (h : merge2 l1 l2 = some l) : Sorted l := by
  fun_induction merge2 l1 l2 generalizing l
  case case1 => cases h; exact h2
  case case2 => cases h; exact h1
  case case3 k1 c1 r1 k2 c2 r2 hlt ih =>
    simp only [Option.map_eq_some_iff] at h; obtain ⟨l', hl', rfl⟩ := h
    rw [sorted_cons] at h1 h2 ⊢
    refine ⟨merge2_lb _ _ _ _ h1.1 (LB_cons hlt (LB_trans hlt h2.1)) hl', ih l' h1.2 ((sorted_cons _ _).2 h2) hl'⟩
  case case4 k1 c1 r1 k2 c2 r2 hnlt hlt ih =>
    simp only [Option.map_eq_some_iff] at h; obtain ⟨l', hl', rfl⟩ := h
    rw [sorted_cons] at h1 h2 ⊢
    refine ⟨merge2_lb _ _ _ _ (LB_cons hlt (LB_trans hlt h1.1)) h2.1 hl', ih l' ((sorted_cons _ _).2 h1) h2.2 hl'⟩
  case case5 => cases h
  case case6 ih => exact ih l ((sorted_cons _ _).1 h1).2 ((sorted_cons _ _).1 h2).2 h
  case case7 k1 c1 r1 k2 c2 r2 hn1 hn2 c hc ih =>
    simp only [Option.map_eq_some_iff] at h; obtain ⟨l', hl', rfl⟩ := h
    rw [sorted_cons] at h1 h2 ⊢
    have e : k1 = k2 := by grind
    subst e
    exact ⟨merge2_lb _ _ _ _ h1.1 h2.1 hl', ih l' h1.2 h2.2 hl'⟩

/-! applyLayer facts -/

theorem setKey_same (m : Map) (k : Bytes) (v : KS) : setKey m k v k = v := by simp [setKey]
theorem setKey_ne (m : Map) (k x : Bytes) (v : KS) (h : x ≠ k) : setKey m k v x = m x := by simp [setKey, h]
theorem setKey_setKey (m : Map) (k : Bytes) (a b : KS) : setKey (setKey m k a) k b = setKey m k b := by
  funext x; by_cases h : x = k <;> simp [setKey, h]
theorem setKey_self (m : Map) (k : Bytes) : setKey m k (m k) = m := by
  funext x; by_cases h : x = k <;> simp [setKey, h]
theorem setKey_comm (m : Map) (k k' : Bytes) (a b : KS) (h : k ≠ k') :
    setKey (setKey m k a) k' b = setKey (setKey m k' b) k a := by
  funext x; by_cases h1 : x = k <;> by_cases h2 : x = k' <;> simp [setKey, h1, h2] <;> grind

theorem LB_ne {k : Bytes} {l : Layer} (h : LB k l) : ∀ s ∈ l, s.1 ≠ k := by
  intro s hs; have := h s hs; grind

theorem applyLayer_cons (m : Map) (k : Bytes) (c : Chg) (r : Layer) (m' : Map) :
    applyLayer m ((k, c) :: r) = some m' ↔ ∃ s, app (m k) c = some s ∧ applyLayer (setKey m k s) r = some m' := by
  simp only [applyLayer]
  cases app (m k) c <;> simp

theorem applyLayer_notin (l : Layer) (m m' : Map) (k : Bytes) (hk : ∀ s ∈ l, s.1 ≠ k)
    (h : applyLayer m l = some m') : m' k = m k := by
  induction l generalizing m with
  | nil => simp [applyLayer] at h; rw [← h]
  | cons s r ih =>
    obtain ⟨k0, c⟩ := s
    rw [applyLayer_cons] at h
    obtain ⟨s, _, hr⟩ := h
    rw [ih _ (fun x hx => hk x (List.mem_cons_of_mem _ hx)) hr]
    exact setKey_ne _ _ _ _ (fun e => hk (k0, c) (List.mem_cons_self ..) e.symm)

theorem applyLayer_setKey (l : Layer) (m m' : Map) (k : Bytes) (v : KS) (hk : ∀ s ∈ l, s.1 ≠ k)
    (h : applyLayer m l = some m') : applyLayer (setKey m k v) l = some (setKey m' k v) := by
  induction l generalizing m with
  | nil => simp [applyLayer] at h ⊢; rw [h]
  | cons s r ih =>
    obtain ⟨k0, c⟩ := s
    have hne : k0 ≠ k := hk (k0, c) (List.mem_cons_self ..)
    rw [applyLayer_cons] at h ⊢
    obtain ⟨s, hs, hr⟩ := h
    refine ⟨s, by rw [setKey_ne _ _ _ _ hne]; exact hs, ?_⟩
    rw [setKey_comm _ _ _ _ _ hne.symm]
    exact ih _ (fun x hx => hk x (List.mem_cons_of_mem _ hx)) hr

/-- the two-way merge of two valid sorted layers is valid and has the effect of applying them in order -/
theorem merge2_apply (l1 l2 : Layer) (m m1 m2 : Map) (s1 : Sorted l1) (s2 : Sorted l2)
    (h1 : applyLayer m l1 = some m1) (h2 : applyLayer m1 l2 = some m2) :
    ∃ l, merge2 l1 l2 = some l ∧ applyLayer m l = some m2 := by
  fun_induction merge2 l1 l2 generalizing m m1 m2
  case case1 l2 => simp [applyLayer] at h1; subst h1; exact ⟨l2, rfl, h2⟩
  case case2 s r => simp [applyLayer] at h2; subst h2; exact ⟨_, rfl, h1⟩
  case case3 k1 c1 r1 k2 c2 r2 hlt ih =>
    rw [applyLayer_cons] at h1
    obtain ⟨s, hs, hr⟩ := h1
    obtain ⟨l', hl', ha⟩ := ih (setKey m k1 s) m1 m2 ((sorted_cons _ _).1 s1).2 s2 hr h2
    exact ⟨_, by rw [hl']; rfl, (applyLayer_cons ..).2 ⟨s, hs, ha⟩⟩
  case case4 k1 c1 r1 k2 c2 r2 hnlt hlt ih =>
    rw [applyLayer_cons] at h2
    obtain ⟨s, hs, hr⟩ := h2
    have hlb : LB k2 ((k1, c1) :: r1) := LB_cons hlt (LB_trans hlt ((sorted_cons _ _).1 s1).1)
    have hm : m1 k2 = m k2 := applyLayer_notin _ _ _ _ (LB_ne hlb) h1
    obtain ⟨l', hl', ha⟩ := ih (setKey m k2 s) (setKey m1 k2 s) m2 s1 ((sorted_cons _ _).1 s2).2
      (applyLayer_setKey _ _ _ _ _ (LB_ne hlb) h1) hr
    exact ⟨_, by rw [hl']; rfl, (applyLayer_cons ..).2 ⟨s, by rw [← hm]; exact hs, ha⟩⟩
  case case5 k1 c1 r1 k2 c2 r2 hn1 hn2 hc =>
    have e : k1 = k2 := by grind
    subst e
    rw [applyLayer_cons] at h1 h2
    obtain ⟨sa, hsa, hra⟩ := h1
    obtain ⟨sb, hsb, hrb⟩ := h2
    have hm : m1 k1 = sa := by
      rw [applyLayer_notin _ _ _ _ (LB_ne ((sorted_cons _ _).1 s1).1) hra, setKey_same]
    rw [hm] at hsb
    obtain ⟨c, hc', _⟩ := combine_sound (m k1) c1 c2 sa sb hsa hsb
    rw [hc] at hc'; cases hc'
  case case6 k1 c1 r1 k2 c2 r2 hn1 hn2 hc ih =>
    have e : k1 = k2 := by grind
    subst e
    rw [applyLayer_cons] at h1 h2
    obtain ⟨sa, hsa, hra⟩ := h1
    obtain ⟨sb, hsb, hrb⟩ := h2
    have hne := LB_ne ((sorted_cons _ _).1 s1).1
    have hm : m1 k1 = sa := by rw [applyLayer_notin _ _ _ _ hne hra, setKey_same]
    rw [hm] at hsb
    obtain ⟨c, hc', hcs⟩ := combine_sound (m k1) c1 c2 sa sb hsa hsb
    rw [hc] at hc'; cases hc'
    simp only [appO, Option.some.injEq] at hcs
    have hr1 := applyLayer_setKey _ _ _ _ sb hne hra
    rw [setKey_setKey, ← hcs, setKey_self] at hr1
    rw [← hcs] at hrb
    exact ih m _ m2 ((sorted_cons _ _).1 s1).2 ((sorted_cons _ _).1 s2).2 hr1 hrb
  case case7 k1 c1 r1 k2 c2 r2 hn1 hn2 c hc ih =>
    have e : k1 = k2 := by grind
    subst e
    rw [applyLayer_cons] at h1 h2
    obtain ⟨sa, hsa, hra⟩ := h1
    obtain ⟨sb, hsb, hrb⟩ := h2
    have hne := LB_ne ((sorted_cons _ _).1 s1).1
    have hm : m1 k1 = sa := by rw [applyLayer_notin _ _ _ _ hne hra, setKey_same]
    rw [hm] at hsb
    obtain ⟨c', hc', hcs⟩ := combine_sound (m k1) c1 c2 sa sb hsa hsb
    rw [hc] at hc'; cases hc'
    simp only [appO] at hcs
    have hr1 := applyLayer_setKey _ _ _ _ sb hne hra
    rw [setKey_setKey] at hr1
    obtain ⟨l', hl', ha⟩ := ih (setKey m k1 sb) _ m2 ((sorted_cons _ _).1 s1).2 ((sorted_cons _ _).1 s2).2 hr1 hrb
    exact ⟨_, by rw [hl']; rfl, (applyLayer_cons ..).2 ⟨sb, hcs, ha⟩⟩

theorem sorted_nil : Sorted [] := List.Pairwise.nil

theorem mergeFlat_aux (ls : List Layer) (m ma m' : Map) (acc : Layer) (hs : ∀ l ∈ ls, Sorted l)
    (sa : Sorted acc) (ha : applyLayer m acc = some ma) (h : ls.foldlM applyLayer ma = some m') :
    ∃ out, ls.foldlM merge2 acc = some out ∧ applyLayer m out = some m' ∧ Sorted out := by
  induction ls generalizing acc ma with
  | nil =>
    simp only [List.foldlM_nil, pure, Option.some.injEq] at h ⊢
    subst h
    exact ⟨acc, rfl, ha, sa⟩
  | cons l ls ih =>
    simp only [List.foldlM_cons, bind, Option.bind_eq_some_iff] at h ⊢
    obtain ⟨mb, hb, hrest⟩ := h
    have sl := hs l (List.mem_cons_self ..)
    obtain ⟨l', hl', ha'⟩ := merge2_apply acc l m ma mb sa sl ha hb
    have sl' := merge2_sorted _ _ _ sa sl hl'
    obtain ⟨out, ho, hr⟩ := ih mb l' (fun x hx => hs x (List.mem_cons_of_mem _ hx)) sl' ha' hrest
    exact ⟨out, ⟨l', hl', ho⟩, hr⟩

/-- merging = applying in order (flat model) -/
theorem mergeFlat_spec (ls : List Layer) (m m' : Map) (hs : ∀ l ∈ ls, Sorted l)
    (h : applyLayers m ls = some m') :
    ∃ out, mergeFlat ls = some out ∧ applyLayer m out = some m' ∧ Sorted out :=
  mergeFlat_aux ls m m m' [] hs sorted_nil rfl h

/-- strictly sorted keys are pairwise distinct -/
theorem sorted_nodup (l : Layer) (h : Sorted l) : (l.map (·.1)).Nodup := by
  simp only [Sorted] at h
  rw [List.Nodup, List.pairwise_map]
  exact h.imp (fun hab => by grind)

/-! ## invariants of the chunked `merge` mirror -/

/-- invariant of `merge.out` / `merge.size`: no empty chunk, `size` = number of slots output -/
def OutOK (st : MS) : Prop := (∀ c ∈ st.out, c ≠ []) ∧ st.sz = st.out.flatten.length

theorem flushbuf_ok (st : MS) (h : OutOK st) : OutOK (flushbuf st) := by
  unfold flushbuf
  split
  · exact h
  · rename_i hb
    refine ⟨?_, ?_⟩
    · intro c hc
      simp only [List.mem_append, List.mem_singleton] at hc
      rcases hc with hc | rfl
      · exact h.1 c hc
      · intro e; simp [e] at hb
    · simp [h.2]

theorem flushbuf_ins (st : MS) : (flushbuf st).ins = st.ins := by
  unfold flushbuf; split <;> rfl

theorem pushSlot_ok (g : Nat) (st : MS) (s : Slot) (h : OutOK st) : OutOK (pushSlot g st s) := by
  unfold pushSlot
  split
  · exact flushbuf_ok st h
  · exact h

theorem outputSlot_ok (g : Nat) (st st' : MS) (s : Slot) (h : OutOK st)
    (e : outputSlot g st s = some st') : OutOK st' := by
  unfold outputSlot at e
  split at e
  · split at e
    · split at e
      · cases e
      · cases e; exact h
      · cases e; exact h
    · cases e; exact pushSlot_ok g st s h
  · cases e; exact pushSlot_ok g st s h

theorem outputChunk_ok (g : Nat) (st : MS) (c : Chunk) (h : OutOK st) : OutOK (outputChunk g st c) := by
  unfold outputChunk
  split
  · rename_i hc
    have hf := flushbuf_ok st h
    refine ⟨?_, ?_⟩
    · intro c' hc'
      simp only [List.mem_append, List.mem_singleton] at hc'
      rcases hc' with hc' | rfl
      · exact hf.1 c' hc'
      · intro e; simp [e] at hc
    · simp [hf.2]
  · exact h

theorem tryPass_ok (g : Nat) (st st' : MS) (i : Nat) (c : Chunk) (h : OutOK st)
    (e : tryPass g st i c = some st') : OutOK st' := by
  simp only [tryPass] at e
  repeat' split at e
  all_goals first | (cases e; done) | (cases e; exact outputChunk_ok g st c h)

theorem advance_ok (st : MS) (i : Nat) (rest : List Chunk) (h : OutOK st) : OutOK (advance st i rest) := by
  unfold advance; split <;> exact h

theorem step_ok (g : Nat) (st st' : MS) (h : OutOK st) (e : step g st = some st') : OutOK st' := by
  simp only [step] at e
  generalize minIdx (st.ins.map fun p => firstKey p.1) = i at e
  cases hi : st.ins[i]? with
  | none => simp [hi] at e
  | some p =>
    obtain ⟨cur, rest⟩ := p
    simp only [hi] at e
    cases cur with
    | nil => simp at e
    | cons s tl =>
      simp only at e
      cases hp : (if st.pass then tryPass g st i (s :: tl) else none) with
      | some st1 =>
        simp only [hp] at e
        cases e
        refine advance_ok _ _ _ ?_
        split at hp
        · exact tryPass_ok _ _ _ _ _ h hp
        · cases hp
      | none =>
        simp only [hp] at e
        cases ho : outputSlot g st s with
        | none => simp [ho] at e
        | some st1 =>
          simp only [ho] at e
          have h1 := outputSlot_ok _ _ _ _ h ho
          split at e
          · cases e; exact advance_ok _ _ _ h1
          · cases e; exact h1

theorem loop_ok (g f : Nat) (st st' : MS) (h : OutOK st) (e : loop g f st = some st') : OutOK st' := by
  induction f generalizing st with
  | zero => unfold loop at e; split at e <;> cases e; exact h
  | succ f ih =>
    unfold loop at e
    split at e
    · cases e; exact h
    · simp only [Option.bind_eq_some_iff] at e
      obtain ⟨st1, h1, h2⟩ := e
      exact ih st1 (step_ok g st st1 h h1) h2

/-- well-formedness of a buffer: no empty chunk, `size` = number of slots -/
def Buf.WF (b : Buf) : Prop := (∀ c ∈ b.chunks, c ≠ []) ∧ b.size = b.flatten.length

theorem merge_wf (bs : List Buf) (r : Buf) (hb : ∀ b ∈ bs, b.WF) (h : merge bs = some r) : r.WF := by
  simp only [merge] at h
  split at h
  · cases h
  · generalize hf : bs.filter (fun b => decide (b.size ≠ 0)) = ins at h
    split at h
    · cases h; exact ⟨by simp, by simp [Buf.flatten]⟩
    · rename_i b
      cases h
      have : r ∈ bs.filter (fun b => decide (b.size ≠ 0)) := by rw [hf]; simp
      exact hb r (List.mem_filter.1 this).1
    · split at h
      · cases h
      · simp only [Option.map_eq_some_iff] at h
        obtain ⟨st, hl, rfl⟩ := h
        have := flushbuf_ok st (loop_ok _ _ _ st ⟨by simp, by simp⟩ hl)
        exact ⟨this.1, this.2⟩

/-! ## the in-place insert / split step of `Insert` -/

theorem splitAt_bounds (n i : Nat) (hn : 4 ≤ n) : 0 < splitAt n i ∧ splitAt n i < n := by
  unfold splitAt
  split
  · omega
  · split <;> omega

theorem flatten_set (cs : List Chunk) (ci : Nat) (x : Chunk) (h : ci < cs.length) :
    (cs.set ci x).flatten = (cs.take ci).flatten ++ x ++ (cs.drop (ci + 1)).flatten := by
  rw [List.set_eq_take_append_cons_drop, if_pos h]
  simp

/-- the in-place insert (with or without split) puts the new slot at position `i` of chunk `ci`
and leaves everything else as it was -/
theorem insertNew_flatten (b : Buf) (ci i : Nat) (ch : Chunk) (k : Bytes) (c : Chg)
    (h : ci < b.chunks.length) :
    (insertNew b ci i ch k c).flatten =
      (b.chunks.take ci).flatten ++ (ch.take i ++ (k, c) :: ch.drop i) ++ (b.chunks.drop (ci + 1)).flatten := by
  simp only [insertNew, Buf.flatten]
  split
  · simp only [List.flatten_append, List.flatten_cons, ← List.append_assoc]
    rw [List.append_assoc ((b.chunks.take ci).flatten), List.take_append_drop]
    simp [List.append_assoc]
  · exact flatten_set _ _ _ h

theorem insertNew_size (b : Buf) (ci i : Nat) (ch : Chunk) (k : Bytes) (c : Chg) :
    (insertNew b ci i ch k c).size = b.size + 1 := by
  simp only [insertNew]; split <;> rfl

theorem insertNew_nonempty (b : Buf) (ci i : Nat) (ch : Chunk) (k : Bytes) (c : Chg)
    (hne : ∀ x ∈ b.chunks, x ≠ []) (hi : i ≤ ch.length) :
    ∀ x ∈ (insertNew b ci i ch k c).chunks, x ≠ [] := by
  have hlen : (ch.take i ++ (k, c) :: ch.drop i).length = ch.length + 1 := by
    simp [List.length_take, List.length_drop]; omega
  simp only [insertNew]
  split
  · rename_i hg
    have hg24 := goalN_ge (b.size + 1)
    have hb := splitAt_bounds (ch.take i ++ (k, c) :: ch.drop i).length i (by omega)
    intro x hx
    simp only [List.mem_append, List.mem_cons] at hx
    rcases hx with hx | rfl | rfl | hx
    · exact hne x (List.mem_of_mem_take hx)
    · intro e
      have := congrArg List.length e
      simp only [List.length_take, List.length_nil] at this
      omega
    · intro e
      have := congrArg List.length e
      simp only [List.length_drop, List.length_nil] at this
      omega
    · exact hne x (List.mem_of_mem_drop hx)
  · intro x hx
    rcases List.mem_or_eq_of_mem_set hx with hx | rfl
    · exact hne x hx
    · simp

end Gsu.Ixbuf
