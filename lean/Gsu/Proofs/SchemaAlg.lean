import Gsu.Model.SchemaAlg
/-!
Lemmas about `Gsu.SchemaAlg` (C21; `linkFkeys_restores` is also used by C04).
-/
namespace Gsu.SchemaAlg

/-! ### well-formedness -/

/-- `schema_wf`.
* `valid`  = what `metaUpdate.validate` checks on every table (`schemaCheck`: ≥ 1 key, index
  columns exist, no duplicate index/column; `fkOk`: every `Fk` with a table names an existing
  table in which `Fk.columns` is the index at position `Fk.iindex` and that index is a key);
* `fkcols` = `Fk.columns` is explicit (the parser always fills it in);
* `inv`    = `FkToHere` of index `j` of table `t` is, as a multiset, exactly the list of links
  `⟨s, columns, i, mode⟩` of all indexes `(s,i)` whose `Fk` names `t` and resolves to `j`
  (exact inverse in both directions, self references included). -/
structure WF (db : Db) : Prop where
  valid : validate db = true
  fkcols : ∀ t ∈ db, ∀ ix ∈ t.indexes, ix.fk.table ≠ "" → ix.fk.columns ≠ []
  inv : ∀ t ∈ db, ∀ p ∈ t.indexes.zipIdx, p.1.fkToHere.Perm (expectedBack db t.name p.2)

/-! ### reading `validate` -/

theorem validate_table {db : Db} (h : validate db = true) {t : Table} (ht : t ∈ db) :
    schemaCheck t = true ∧ ∀ ix ∈ t.indexes, fkOk db ix = true := by
  have := (List.all_eq_true.mp h) t ht
  simp only [tableOk, Bool.and_eq_true, List.all_eq_true] at this
  exact this

theorem validate_hasKey {db : Db} (h : validate db = true) {t : Table} (ht : t ∈ db) :
    ∃ ix ∈ t.indexes, ix.mode = 'k' := by
  have := (validate_table h ht).1
  simp only [schemaCheck, hasKey, Bool.and_eq_true, List.any_eq_true] at this
  obtain ⟨ix, hix, hm⟩ := this.1.1.2
  exact ⟨ix, hix, by simpa using hm⟩

theorem validate_idxCols {db : Db} (h : validate db = true) {t : Table} (ht : t ∈ db)
    {ix : Index} (hix : ix ∈ t.indexes) {c : String} (hc : c ∈ ix.columns) : c ∈ t.columns := by
  have := (validate_table h ht).1
  simp only [schemaCheck, Bool.and_eq_true, List.all_eq_true] at this
  have h2 := (this.1.2 ix hix).2 c hc
  simpa using h2

theorem validate_fk {db : Db} (h : validate db = true) {t : Table} (ht : t ∈ db)
    {ix : Index} (hix : ix ∈ t.indexes) (hfk : ix.fk.table ≠ "") :
    ∃ target j, getT db ix.fk.table = some target ∧ findIdx target ix.fk.columns = some j ∧
      (getIdx target j).mode = 'k' ∧ ix.fk.iindex = j := by
  have h1 := (validate_table h ht).2 ix hix
  unfold fkOk at h1
  have hne : (ix.fk.table == "") = false := by simpa using hfk
  rw [hne, Bool.false_or] at h1
  split at h1
  · exact absurd h1 (by simp)
  · rename_i target htg
    split at h1
    · exact absurd h1 (by simp)
    · rename_i j hj
      simp only [Bool.and_eq_true, beq_iff_eq] at h1
      exact ⟨target, j, htg, hj, h1.1, h1.2⟩

/-- under `WF` the position linkFkeys resolves an `Fk` to is the stored `Fk.iindex` -/
theorem resolve_eq_iindex {db : Db} (w : WF db) {t : Table} (ht : t ∈ db)
    {ix : Index} (hix : ix ∈ t.indexes) {k : Nat} (hr : resolve db ix = some k) :
    ix.fk.iindex = k := by
  unfold resolve at hr
  split at hr
  · exact absurd hr (by simp)
  · rename_i hfk
    have hfk' : ix.fk.table ≠ "" := by simpa using hfk
    obtain ⟨target, j, htg, hj, _, hi⟩ := validate_fk w.valid ht hix hfk'
    have hc : fkCols ix = ix.fk.columns := by
      have := w.fkcols t ht ix hix hfk'
      unfold fkCols
      cases hcol : ix.fk.columns with
      | nil => exact absurd hcol this
      | cons a r => simp
    rw [htg] at hr
    simp only [hc, hj, Option.some.injEq] at hr
    omega

/-! ### every accepted operation leaves validated metadata -/

theorem create_valid {db name cols specs db'} (h : create db name cols specs = some db') :
    validate db' = true := by
  unfold create at h
  repeat' ((try dsimp only at h); split at h)
  all_goals first | (cases h; assumption) | cases h

theorem alterCreateMeta_valid {db name cols specs db'} (h : alterCreateMeta db name cols specs = some db') :
    validate db' = true := by
  unfold alterCreateMeta at h
  repeat' ((try dsimp only at h); split at h)
  all_goals first | (cases h; assumption) | cases h

theorem alterCreate_valid {db name d cols specs db'} (h : alterCreate db name d cols specs = some db') :
    validate db' = true := by
  unfold alterCreate at h
  split at h
  · exact absurd h (by simp)
  · exact alterCreateMeta_valid h

theorem ensure_valid {db name d cols specs db'} (hv : validate db = true)
    (h : ensure db name d cols specs = some db') : validate db' = true := by
  unfold ensure at h
  split at h
  · exact create_valid h
  · split at h
    · exact absurd h (by simp)
    · simp only [Option.some.injEq] at h; subst h; exact hv
    · dsimp only at h
      split at h
      · exact absurd h (by simp)
      · rename_i db2 h2
        split at h
        · exact absurd h (by simp)
        · simp only [Option.some.injEq] at h; subst h; exact alterCreateMeta_valid h2

theorem alterDrop_valid {db name cols idxs db'} (h : alterDrop db name cols idxs = some db') :
    validate db' = true := by
  unfold alterDrop at h
  repeat' ((try dsimp only at h); split at h)
  all_goals first | (cases h; assumption) | cases h

theorem drop_valid {db name db'} (h : drop db name = some db') : validate db' = true := by
  unfold drop at h
  repeat' ((try dsimp only at h); split at h)
  all_goals first | (cases h; assumption) | cases h

theorem alterRenameCol_valid {db name f t db'} (h : alterRenameCol db name f t = some db') :
    validate db' = true := by
  unfold alterRenameCol at h
  repeat' ((try dsimp only at h); split at h)
  all_goals first | (cases h; assumption) | cases h

theorem renameTable_valid {db f t db'} (h : renameTable db f t = some db') :
    validate db' = true := by
  unfold renameTable at h
  repeat' ((try dsimp only at h); split at h)
  all_goals first | (cases h; assumption) | cases h

/-! ### linkFkeys -/

/-- pointwise relation of two lists of the same length (core has no `Forall₂`) -/
inductive All2 {α β} (R : α → β → Prop) : List α → List β → Prop
  | nil : All2 R [] []
  | cons {a b l₁ l₂} : R a b → All2 R l₁ l₂ → All2 R (a :: l₁) (b :: l₂)

/-- same index up to the order of `fkToHere` -/
structure IdxEquiv (a b : Index) : Prop where
  mode : a.mode = b.mode
  columns : a.columns = b.columns
  bestKey : a.bestKey = b.bestKey
  fk : a.fk = b.fk
  back : a.fkToHere.Perm b.fkToHere

/-- same table up to the order of the `fkToHere` lists -/
structure TableEquiv (a b : Table) : Prop where
  name : a.name = b.name
  columns : a.columns = b.columns
  indexes : All2 IdxEquiv a.indexes b.indexes

/-- same metadata (same tables in the same order) up to the order of the `fkToHere` lists:
`String2`, which sorts them, cannot tell the two apart -/
def DbEquiv (a b : Db) : Prop := All2 TableEquiv a b

theorem forall2_maps {α β γ} {R : β → γ → Prop} (f : α → β) (g : α → γ) (l : List α)
    (h : ∀ x ∈ l, R (f x) (g x)) : All2 R (l.map f) (l.map g) := by
  induction l with
  | nil => exact All2.nil
  | cons a r ih =>
    exact All2.cons (h a (by simp)) (ih (fun x hx => h x (by simp [hx])))

theorem zipIdx_map_fst {α} (l : List α) (k : Nat) : (l.zipIdx k).map Prod.fst = l := by
  induction l generalizing k with
  | nil => rfl
  | cons a r ih => simp [List.zipIdx_cons, ih]

theorem mem_of_mem_zipIdx {α} {l : List α} {k : Nat} {p : α × Nat} (h : p ∈ l.zipIdx k) : p.1 ∈ l := by
  have : p.1 ∈ (l.zipIdx k).map Prod.fst := List.mem_map_of_mem (f := Prod.fst) h
  rwa [zipIdx_map_fst] at this

/-- Relinking from the `Fk` fields (what `ReadMeta` does after a reopen) rebuilds exactly the
`FkToHere` sets that the incremental maintenance kept, and changes nothing else. -/
theorem linkFkeys_restores {db : Db} (w : WF db) : DbEquiv (linkFkeys db) db := by
  unfold DbEquiv linkFkeys
  have hid : db = db.map id := by simp
  conv => rhs; rw [hid]
  apply forall2_maps
  intro t ht
  refine ⟨rfl, rfl, ?_⟩
  show All2 IdxEquiv (t.indexes.zipIdx.map _) t.indexes
  conv => rhs; rw [← zipIdx_map_fst t.indexes 0]
  apply forall2_maps
  intro p hp
  have hix : p.1 ∈ t.indexes := mem_of_mem_zipIdx hp
  refine ⟨rfl, rfl, rfl, ?_, (w.inv t ht p hp).symm⟩
  show (match resolve db p.1 with
        | some k => { p.1.fk with iindex := k }
        | none => p.1.fk) = p.1.fk
  cases hr : resolve db p.1 with
  | none => rfl
  | some k =>
    have := resolve_eq_iindex w ht hix hr
    cases hf : p.1.fk
    simp only [hf] at this
    simp [this]

/-! ### rejected requests -/

theorem keep_none (db : Db) : keep db none = db := rfl

theorem keep_some (db d : Db) : keep db (some d) = d := rfl

end Gsu.SchemaAlg
