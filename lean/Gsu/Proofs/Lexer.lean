/-
Lemmas about the lexer mirror Gsu.Model.Lexer: every sub-lexer consumes at least one and at
most the remaining bytes (C32), hence the token stream tiles the source and ends with Eof.
-/
import Gsu.Model.Lexer
namespace Gsu.Lexer
open Gsu.Proto Gsu.Ascii

/-! ### small facts -/

theorem getD_lt {l : Bytes} {k : Nat} {c : UInt8} (h : l.getD k 0 = c) (hc : c ≠ 0) : k < l.length := by
  by_cases hk : k < l.length
  · exact hk
  · exfalso
    have : l.getD k 0 = 0 := by
      rw [List.getD_eq_getElem?_getD, List.getElem?_eq_none (by omega)]; rfl
    rw [this] at h; exact hc h.symm

theorem isDigit_getD_lt {l : Bytes} {k : Nat} (h : isDigit (l.getD k 0) = true) : k < l.length := by
  by_cases hk : k < l.length
  · exact hk
  · exfalso
    have : l.getD k 0 = 0 := by
      rw [List.getD_eq_getElem?_getD, List.getElem?_eq_none (by omega)]; rfl
    rw [this] at h; revert h; decide

theorem spanWhile_le (f : UInt8 → Bool) (r : Bytes) : spanWhile f r ≤ r.length := by
  induction r with
  | nil => simp [spanWhile]
  | cons c r ih => simp only [spanWhile]; split <;> simp <;> omega

theorem spanWhile_pos (f : UInt8 → Bool) (c : UInt8) (r : Bytes) (h : f c = true) :
    1 ≤ spanWhile f (c :: r) := by
  simp [spanWhile, h]

theorem identTail_le (r : Bytes) : identTail r ≤ r.length := by
  unfold identTail
  have := spanWhile_le isIdentChar r
  simp only
  split
  · rename_i h; have := getD_lt h (by decide); omega
  · split
    · rename_i h; have := getD_lt h (by decide); omega
    · omega

theorem rd_isSpace (c : UInt8) : isSpace (rd c) = true → isSpace c = true := by
  unfold rd; split
  · intro h; exact absurd h (by decide)
  · exact id

/-! ### mwu (matchWithUnderscores) -/

theorem mwu_bounds (f : UInt8 → Bool) (ind : Bool) (r : Bytes) (n : Nat) :
    n ≤ (mwu f ind r n).2 ∧ (mwu f ind r n).2 ≤ n + r.length := by
  induction r generalizing ind n with
  | nil => simp [mwu]
  | cons c r ih =>
    simp only [mwu]
    split
    · have := ih true (n + 1); simp only [List.length_cons]; omega
    · split
      · have := ih false (n + 1); simp only [List.length_cons]; omega
      · simp

theorem mwu_first (f : UInt8 → Bool) (ind : Bool) (c : UInt8) (r : Bytes) (n : Nat)
    (h : f c = true) : n + 1 ≤ (mwu f ind (c :: r) n).2 := by
  simp only [mwu, h, if_true]
  exact (mwu_bounds f true r (n + 1)).1

/-! ### number -/

def NumRes.pos : NumRes → Nat
  | .err s => s
  | .ok s => s

theorem numItem_snd (rest : Bytes) (r : NumRes) : (numItem rest r).2 = r.pos := by
  cases r <;> rfl

theorem drop_cons_of_lt (l : Bytes) (k : Nat) (h : k < l.length) :
    l.drop k = l.getD k 0 :: l.drop (k + 1) := by
  rw [List.getD_eq_getElem?_getD, List.getElem?_eq_getElem h]
  simp

theorem mwu_drop_bounds (f : UInt8 → Bool) (rest : Bytes) (si : Nat) (hs : si ≤ rest.length) :
    si ≤ (mwu f false (rest.drop si) si).2 ∧ (mwu f false (rest.drop si) si).2 ≤ rest.length := by
  have := mwu_bounds f false (rest.drop si) si
  simp only [List.length_drop] at this
  omega

theorem mwu_drop_first (f : UInt8 → Bool) (rest : Bytes) (si : Nat)
    (hs : si < rest.length) (h : f (rest.getD si 0) = true) :
    si + 1 ≤ (mwu f false (rest.drop si) si).2 := by
  rw [drop_cons_of_lt rest si hs]
  exact mwu_first f false _ _ si h

theorem numInt_bounds (rest : Bytes) :
    (numInt rest).1.pos ≤ rest.length ∧
    (isDigit (rest.getD 0 0) = true → 1 ≤ (numInt rest).1.pos) ∧
    (rest.getD 0 0 = 46 → numInt rest = (.ok 0, false)) := by
  unfold numInt
  by_cases h : rest.getD 0 0 = 46
  · simp only [ne_eq, h, not_true_eq_false, if_false, NumRes.pos]
    exact ⟨by omega, fun hd => absurd hd (by decide), by simp⟩
  · simp only [ne_eq, h, not_false_eq_true, if_true]
    have hb := mwu_bounds isDigit false rest 0
    refine ⟨?_, ?_, ?_⟩
    · split <;> simp only [NumRes.pos] <;> omega
    · intro hd
      have hlt := isDigit_getD_lt hd
      have := mwu_drop_first isDigit rest 0 hlt hd
      simp only [List.drop_zero] at this
      split <;> simp only [NumRes.pos] <;> omega
    · intro h'; first | exact absurd h' h | exact h'.elim

theorem numFrac_bounds (rest : Bytes) (si : Nat) (b : Bool) (hs : si ≤ rest.length) :
    si ≤ (numFrac rest si b).pos ∧ (numFrac rest si b).pos ≤ rest.length ∧
    (rest.getD si 0 = 46 → isDigit (rest.getD (si + 1) 0) = true → si + 2 ≤ (numFrac rest si b).pos) := by
  unfold numFrac
  by_cases hdot : rest.getD si 0 = 46
  · have hlt := getD_lt hdot (by decide)
    simp only [hdot, if_true]
    by_cases hd : isDigit (rest.getD (si + 1) 0) = true
    · have hlt2 := isDigit_getD_lt hd
      have h1 := mwu_drop_bounds isDigit rest (si + 1) (by omega)
      have h2 := mwu_drop_first isDigit rest (si + 1) hlt2 hd
      simp only [hd, if_true]
      split <;> simp only [NumRes.pos] <;> omega
    · simp only [hd, Bool.false_eq_true, if_false]
      refine ⟨?_, ?_, fun _ h => by first | exact absurd h hd | exact h.elim⟩
      · split <;> simp only [NumRes.pos] <;> omega
      · split <;> simp only [NumRes.pos] <;> omega
  · simp only [hdot, if_false]
    by_cases hd : isDigit (rest.getD si 0) = true
    · have h1 := mwu_drop_bounds isDigit rest si hs
      simp only [hd, if_true]
      refine ⟨?_, ?_, fun h => by first | exact absurd h hdot | exact h.elim⟩
      · split <;> simp only [NumRes.pos] <;> omega
      · split <;> simp only [NumRes.pos] <;> omega
    · simp only [hd, Bool.false_eq_true, if_false]
      refine ⟨?_, ?_, fun h => by first | exact absurd h hdot | exact h.elim⟩
      · split <;> simp only [NumRes.pos] <;> omega
      · split <;> simp only [NumRes.pos] <;> omega

theorem numExp_bounds (rest : Bytes) (si : Nat) (hs : si ≤ rest.length) :
    si ≤ (numExp rest si).pos ∧ (numExp rest si).pos ≤ rest.length := by
  unfold numExp
  by_cases he : rest.getD si 0 = 101 ∨ rest.getD si 0 = 69
  · have hlt : si < rest.length := by
      rcases he with h | h <;> exact getD_lt h (by decide)
    simp only [he, if_true]
    by_cases hsg : rest.getD (si + 1) 0 = 43 ∨ rest.getD (si + 1) 0 = 45
    · have hlt2 : si + 1 < rest.length := by
        rcases hsg with h | h <;> exact getD_lt h (by decide)
      simp only [hsg, if_true]
      by_cases hd : isDigit (rest.getD (si + 1 + 1) 0) = true
      · have h1 := mwu_drop_bounds isDigit rest (si + 1 + 1) (by omega)
        simp only [hd, if_true]
        split <;> simp only [NumRes.pos] <;> omega
      · simp only [hd, Bool.false_eq_true, if_false, NumRes.pos]; omega
    · simp only [hsg, if_false]
      by_cases hd : isDigit (rest.getD (si + 1) 0) = true
      · have h1 := mwu_drop_bounds isDigit rest (si + 1) (by omega)
        simp only [hd, if_true]
        split <;> simp only [NumRes.pos] <;> omega
      · simp only [hd, Bool.false_eq_true, if_false, NumRes.pos]; omega
  · simp only [he, if_false, NumRes.pos]; omega

theorem numDot_bounds (rest : Bytes) (si : Nat) :
    si - 1 ≤ numDot rest si ∧ numDot rest si ≤ si ∧
    (rest.getD (si - 1) 0 ≠ 46 → numDot rest si = si) := by
  unfold numDot
  split
  · rename_i h; exact ⟨by omega, by omega, fun h' => absurd h.1 h'⟩
  · exact ⟨by omega, by omega, fun _ => rfl⟩

/-- Lexer.number consumes between 1 byte and the whole rest when called as the lexer calls it:
on a digit, or on a `.` followed by a digit -/
theorem number_bounds (rest : Bytes)
    (h : isDigit (rest.getD 0 0) = true ∨ (rest.getD 0 0 = 46 ∧ isDigit (rest.getD 1 0) = true)) :
    1 ≤ (number rest).2 ∧ (number rest).2 ≤ rest.length := by
  unfold number
  split
  · -- hex
    rename_i hx
    have hl1 : 1 < rest.length := by
      rcases hx.2 with h | h <;> exact getD_lt h (by decide)
    by_cases hu : rest.getD 2 0 = 95
    · have hl2 := getD_lt hu (by decide)
      have := mwu_drop_bounds isHexDigit rest 3 (by omega)
      simp only [hu, if_true, numItem_snd]
      split <;> simp only [NumRes.pos] <;> omega
    · have := mwu_drop_bounds isHexDigit rest 2 (by omega)
      simp only [hu, if_false, numItem_snd]
      split <;> simp only [NumRes.pos] <;> omega
  · have hi := numInt_bounds rest
    -- what is known after the integer part
    have key : ∀ si before, numInt rest = (NumRes.ok si, before) →
        si ≤ rest.length ∧ (isDigit (rest.getD 0 0) = true → 1 ≤ si) ∧ (rest.getD 0 0 = 46 → si = 0) := by
      intro si before he
      rw [he] at hi
      simp only [NumRes.pos] at hi
      refine ⟨hi.1, hi.2.1, fun h46 => ?_⟩
      have := hi.2.2 h46
      simp only [Prod.mk.injEq, NumRes.ok.injEq] at this
      exact this.1
    split
    · -- integer part invalid
      rename_i si _ he
      rw [he] at hi
      simp only [NumRes.pos] at hi
      simp only [numItem_snd, NumRes.pos]
      refine ⟨?_, hi.1⟩
      rcases h with h | h
      · exact hi.2.1 h
      · have := hi.2.2 h.1
        simp at this
    · rename_i si before he
      have ⟨hle, hdig, hdot⟩ := key si before he
      have hf := numFrac_bounds rest si before hle
      -- lower bound after the fraction: at least 1, and at least 2 if the number starts with '.'
      have lowf : 1 ≤ (numFrac rest si before).pos ∧
          (rest.getD 0 0 = 46 → 2 ≤ (numFrac rest si before).pos) := by
        rcases h with h | h
        · have h1 := hdig h
          refine ⟨by omega, fun h46 => ?_⟩
          rw [h46] at h; exact absurd h (by decide)
        · have h0 := hdot h.1
          subst h0
          have := hf.2.2 h.1 h.2
          exact ⟨by omega, fun _ => by omega⟩
      split
      · rename_i sf hef
        rw [hef] at hf lowf
        simp only [NumRes.pos] at hf lowf
        simp only [numItem_snd, NumRes.pos]
        omega
      · rename_i sf hef
        rw [hef] at hf lowf
        simp only [NumRes.pos] at hf lowf
        have hx := numExp_bounds rest sf hf.2.1
        split
        · rename_i se hee
          rw [hee] at hx
          simp only [NumRes.pos] at hx
          simp only [numItem_snd, NumRes.pos]
          omega
        · rename_i se hee
          rw [hee] at hx
          simp only [NumRes.pos] at hx
          simp only [numItem_snd, NumRes.pos]
          have hd := numDot_bounds rest se
          refine ⟨?_, by omega⟩
          by_cases h46 : rest.getD 0 0 = 46
          · have := lowf.2 h46; omega
          · by_cases hse : se = 1
            · subst hse
              have := hd.2.2 (by simpa using h46)
              omega
            · omega

/-! ### the other sub-lexers -/

theorem spanScan_bounds (prev : UInt8) (r : Bytes) (n m : Nat) (h : spanScan prev r n = some m) :
    n < m ∧ m ≤ n + r.length := by
  induction r generalizing prev n with
  | nil => simp [spanScan] at h
  | cons c r ih =>
    simp only [spanScan] at h
    split at h
    · simp only [Option.some.injEq] at h; subst h; simp
    · have := ih c (n + 1) h; simp only [List.length_cons]; omega

theorem escLoop_bounds (q : UInt8) (k : Nat) (r acc : Bytes) (n : Nat) (t : Bytes) (m : Nat)
    (h : escLoop q k r acc n = some (t, m)) : n < m ∧ m ≤ n + r.length := by
  induction r generalizing k acc n with
  | nil => simp [escLoop] at h
  | cons c r ih =>
    cases k with
    | succ k =>
      simp only [escLoop] at h
      have := ih k acc (n + 1) h; simp only [List.length_cons]; omega
    | zero =>
      simp only [escLoop] at h
      split at h
      · simp only [Option.some.injEq, Prod.mk.injEq] at h
        simp only [List.length_cons]; omega
      · split at h
        · have := ih _ _ (n + 1) h; simp only [List.length_cons]; omega
        · have := ih _ _ (n + 1) h; simp only [List.length_cons]; omega

theorem isPrefix_length (s r : Bytes) (h : isPrefix s r = true) : s.length ≤ r.length := by
  induction s generalizing r with
  | nil => simp
  | cons a s ih =>
    cases r with
    | nil => simp [isPrefix] at h
    | cons b r =>
      simp only [isPrefix, Bool.and_eq_true] at h
      have := ih r h.2
      simp only [List.length_cons]; omega

/-- invariant of the fold in matchOp -/
theorem matchOp_bounds (table : List (Bytes × String)) (rest : Bytes)
    (hne : ∀ e ∈ table, e.1 ≠ []) (t : String) (k : Nat)
    (h : matchOp table rest = some (t, k)) : 1 ≤ k ∧ k ≤ rest.length := by
  unfold matchOp at h
  suffices H : ∀ (tb : List (Bytes × String)) (best : Option (String × Nat)),
      (∀ e ∈ tb, e.1 ≠ []) →
      (∀ t k, best = some (t, k) → 1 ≤ k ∧ k ≤ rest.length) →
      ∀ t k, tb.foldl (fun best e =>
        if isPrefix e.1 rest then
          match best with
          | some (_, k) => if e.1.length > k then some (e.2, e.1.length) else best
          | none => some (e.2, e.1.length)
        else best) best = some (t, k) → 1 ≤ k ∧ k ≤ rest.length from
    H table none hne (by simp) t k h
  intro tb
  induction tb with
  | nil => intro best _ hb t k h; exact hb t k h
  | cons e tb ih =>
    intro best hne hb t k h
    simp only [List.foldl_cons] at h
    refine ih _ (fun e' he' => hne e' (List.mem_cons_of_mem _ he')) ?_ t k h
    intro t' k' hbest
    have he := hne e (List.mem_cons_self ..)
    have hpos : 1 ≤ e.1.length := by
      cases h1 : e.1 with
      | nil => exact absurd h1 he
      | cons _ _ => simp
    by_cases hp : isPrefix e.1 rest = true
    · have hle := isPrefix_length _ _ hp
      simp only [hp, if_true] at hbest
      cases best with
      | none =>
        simp only [Option.some.injEq, Prod.mk.injEq] at hbest
        omega
      | some b =>
        obtain ⟨bt, bk⟩ := b
        simp only at hbest
        split at hbest
        · simp only [Option.some.injEq, Prod.mk.injEq] at hbest; omega
        · exact hb _ _ hbest
    · simp only [hp, Bool.false_eq_true, if_false] at hbest
      exact hb _ _ hbest

/-! ### next: progress -/

/-- (G) no empty operator in the regenerated table -/
theorem opTable_nonempty : ∀ e ∈ Gsu.Gen.Lexer.opTable, e.1 ≠ [] := by decide

theorem identifier_bounds (query : Bool) (c0 : UInt8) (r : Bytes) :
    1 ≤ (identifier query (c0 :: r)).2 ∧ (identifier query (c0 :: r)).2 ≤ (c0 :: r).length := by
  have h := identTail_le r
  unfold identifier
  simp only [List.tail_cons, List.length_cons]
  split <;> simp only <;> omega

theorem whitespace_bounds (query : Bool) (c0 : UInt8) (r : Bytes) (h : isSpace c0 = true) :
    1 ≤ (whitespace query (c0 :: r)).2 ∧ (whitespace query (c0 :: r)).2 ≤ (c0 :: r).length := by
  unfold whitespace
  exact ⟨spanWhile_pos _ _ _ h, spanWhile_le _ _⟩

theorem lineComment_bounds (c0 c1 : UInt8) (r : Bytes) :
    1 ≤ (lineComment (c0 :: c1 :: r)).2 ∧ (lineComment (c0 :: c1 :: r)).2 ≤ (c0 :: c1 :: r).length := by
  unfold lineComment
  have := spanWhile_le (fun c => c != 10) r
  simp only [List.drop_succ_cons, List.drop_zero, List.length_cons]
  split <;> omega

theorem spanComment_bounds (c0 c1 : UInt8) (r : Bytes) :
    1 ≤ (spanComment (c0 :: c1 :: r)).2 ∧ (spanComment (c0 :: c1 :: r)).2 ≤ (c0 :: c1 :: r).length := by
  unfold spanComment
  simp only [List.drop_succ_cons, List.drop_zero, List.length_cons]
  split
  · rename_i n h; have := spanScan_bounds _ _ _ _ h; simp only; omega
  · simp only; omega

theorem rawString_bounds (c0 : UInt8) (r : Bytes) :
    1 ≤ (rawString (c0 :: r)).2 ∧ (rawString (c0 :: r)).2 ≤ (c0 :: r).length := by
  unfold rawString
  simp only [List.tail_cons, List.length_cons]
  by_cases h : spanWhile (fun c => c != 96) r < r.length
  · simp only [h, if_true]; omega
  · simp only [h, if_false]; omega

theorem quotedString_bounds (c0 : UInt8) (r : Bytes) (q : UInt8) :
    1 ≤ (quotedString (c0 :: r) q).2 ∧ (quotedString (c0 :: r) q).2 ≤ (c0 :: r).length := by
  unfold quotedString
  simp only [List.tail_cons, List.length_cons]
  by_cases h1 : spanWhile (fun c => c != 92 && c != q) r ≥ r.length
  · simp only [h1, if_true]; omega
  · simp only [h1, if_false]
    by_cases h2 : r.getD (spanWhile (fun c => c != 92 && c != q) r) 0 = 92
    · simp only [h2, if_true]
      cases he : escLoop q 0 r [] 1 with
      | none => simp only; omega
      | some tn =>
        obtain ⟨t, n⟩ := tn
        have := escLoop_bounds _ _ _ _ _ _ _ he
        simp only; omega
    · simp only [h2, if_false]; omega

theorem getD_zero_cons_lt {c1 : UInt8} {r : Bytes} {c : UInt8} (h : r.getD 0 0 = c) (hc : c ≠ 0) :
    1 ≤ r.length := by
  have := getD_lt h hc; omega

/-- `next_progress`: on a non-empty rest, `next` consumes at least one byte and at most the rest -/
theorem next_bounds (query : Bool) (c0 : UInt8) (r : Bytes) :
    1 ≤ (next query (c0 :: r)).2 ∧ (next query (c0 :: r)).2 ≤ (c0 :: r).length := by
  unfold next
  simp only [List.length_cons]
  split
  · -- '#'
    have := identTail_le r
    split <;> simp only <;> omega
  · split
    · -- '/'
      split
      · rename_i h
        have hl := getD_lt h (by decide)
        cases r with
        | nil => simp at hl
        | cons c1 r' => have := lineComment_bounds c0 c1 r'; simpa using this
      · split
        · rename_i h
          have hl := getD_lt h (by decide)
          cases r with
          | nil => simp at hl
          | cons c1 r' => have := spanComment_bounds c0 c1 r'; simpa using this
        · split
          · rename_i h; have hl := getD_lt h (by decide); simp only; omega
          · simp only; omega
    · split
      · have := rawString_bounds c0 r; simpa using this
      · split
        · have := quotedString_bounds c0 r (rd c0); simpa using this
        · split
          · -- '.'
            rename_i hdot
            split
            · rename_i h; have hl := getD_lt h (by decide); simp only; omega
            · split
              · rename_i hd
                have hc0 : c0 = 46 := by
                  unfold rd at hdot; split at hdot
                  · exact absurd hdot (by decide)
                  · exact hdot
                have := number_bounds (c0 :: r) (Or.inr ⟨by simp [hc0], by simpa using hd⟩)
                simpa using this
              · simp only; omega
          · split
            · rename_i hd
              have hc0 : isDigit c0 = true := by
                unfold rd at hd; split at hd
                · exact absurd hd (by decide)
                · exact hd
              have := number_bounds (c0 :: r) (Or.inl (by simpa using hc0))
              simpa using this
            · split
              · -- '_'
                split
                · simp only; omega
                · have := identifier_bounds query c0 r; simpa using this
              · split
                · rename_i t k h
                  have := matchOp_bounds _ _ opTable_nonempty _ _ h
                  simp only [List.length_cons] at this
                  simp only; omega
                · split
                  · rename_i hs
                    have := whitespace_bounds query c0 r (rd_isSpace c0 hs)
                    simpa using this
                  · split
                    · have := identifier_bounds query c0 r; simpa using this
                    · simp only; omega

/-! ### the token stream -/

/-- source text covered by a list of items, read off `src` by their positions -/
def spansOf (src : Bytes) (l : List (Item × Nat × Nat)) : Bytes :=
  l.flatMap fun t => (src.drop t.2.1).take (t.2.2 - t.2.1)

/-- every item starts where the previous one ended -/
def Contiguous : Nat → List (Item × Nat × Nat) → Prop
  | _, [] => True
  | p, t :: l => t.2.1 = p ∧ Contiguous t.2.2 l

/-- positions strictly increase up to Eof -/
def Increasing : List (Item × Nat × Nat) → Prop
  | [] => True
  | [_] => True
  | a :: b :: l => a.2.1 < b.2.1 ∧ Increasing (b :: l)

theorem lexFrom_tile (query : Bool) (src : Bytes) (f : Nat) (rest : Bytes) (pos : Nat)
    (hsrc : src.drop pos = rest) (hf : rest.length + 1 ≤ f) :
    spansOf src (lexFrom query f rest pos) = rest ∧
    Contiguous pos (lexFrom query f rest pos) ∧
    (lexFrom query f rest pos).getLast? =
      some (⟨"Eof", []⟩, pos + rest.length, pos + rest.length) := by
  induction f generalizing rest pos with
  | zero => omega
  | succ f ih =>
    cases rest with
    | nil =>
      simp [lexFrom, next, spansOf, Contiguous]
    | cons c0 r =>
      have hb := next_bounds query c0 r
      simp only [lexFrom, List.isEmpty_cons, Bool.false_eq_true, if_false]
      generalize hn : next query (c0 :: r) = res at hb
      obtain ⟨it, n⟩ := res
      simp only at hb
      have hdrop : src.drop (pos + n) = (c0 :: r).drop n := by
        rw [← hsrc, List.drop_drop]
      have hlen : ((c0 :: r).drop n).length + 1 ≤ f := by
        simp only [List.length_drop, List.length_cons] at *; omega
      have ⟨h1, h2, h3⟩ := ih ((c0 :: r).drop n) (pos + n) hdrop hlen
      refine ⟨?_, ?_, ?_⟩
      · simp only [spansOf, List.flatMap_cons] at h1 ⊢
        rw [h1, hsrc]
        have : pos + n - pos = n := by omega
        rw [this, List.take_append_drop]
      · exact ⟨rfl, h2⟩
      · rw [List.getLast?_cons_of_ne_nil]
        · rw [h3]
          simp only [List.length_drop, List.length_cons] at *
          have : pos + n + (r.length + 1 - n) = pos + (r.length + 1) := by omega
          rw [this]
        · intro hnil; rw [hnil] at h3; simp at h3

theorem lexFrom_increasing (query : Bool) (f : Nat) (rest : Bytes) (pos : Nat) :
    Increasing (lexFrom query f rest pos) ∧
    ∀ t, (lexFrom query f rest pos).head? = some t → t.2.1 = pos := by
  induction f generalizing rest pos with
  | zero => simp [lexFrom, Increasing]
  | succ f ih =>
    cases rest with
    | nil => simp [lexFrom, Increasing]
    | cons c0 r =>
      have hb := next_bounds query c0 r
      simp only [lexFrom, List.isEmpty_cons, Bool.false_eq_true, if_false]
      generalize hn : next query (c0 :: r) = res at hb
      obtain ⟨it, n⟩ := res
      simp only at hb
      have ⟨h1, h2⟩ := ih ((c0 :: r).drop n) (pos + n)
      refine ⟨?_, by simp⟩
      cases hl : lexFrom query f ((c0 :: r).drop n) (pos + n) with
      | nil => simp [Increasing]
      | cons b l =>
        rw [hl] at h1 h2
        have := h2 b (by simp)
        simp only [Increasing]
        exact ⟨by omega, h1⟩

/-- any two fuels above length + 1 give the same stream -/
theorem lexFrom_fuel' (query : Bool) (f1 f2 : Nat) (rest : Bytes) (pos : Nat)
    (h1 : rest.length + 1 ≤ f1) (h2 : rest.length + 1 ≤ f2) :
    lexFrom query f1 rest pos = lexFrom query f2 rest pos := by
  induction f1 generalizing f2 rest pos with
  | zero => omega
  | succ f1 ih =>
    cases f2 with
    | zero => omega
    | succ f2 =>
      cases rest with
      | nil => simp [lexFrom]
      | cons c0 r =>
        have hb := next_bounds query c0 r
        simp only [lexFrom, List.isEmpty_cons, Bool.false_eq_true, if_false]
        generalize next query (c0 :: r) = res at hb
        obtain ⟨it, n⟩ := res
        simp only at hb
        congr 1
        apply ih
        · simp only [List.length_drop, List.length_cons] at *; omega
        · simp only [List.length_drop, List.length_cons] at *; omega

/-- more fuel than length + 1 changes nothing -/
theorem lexFrom_fuel (query : Bool) (f : Nat) (rest : Bytes) (pos : Nat) (hf : rest.length + 1 ≤ f) :
    lexFrom query f rest pos = lexFrom query (rest.length + 1) rest pos :=
  lexFrom_fuel' query f _ rest pos hf (Nat.le_refl _)

end Gsu.Lexer
