/-
Lemmas about the logical database model `Gsu.Model.LDb` (foreign keys: C08).
Core only.
-/
import Gsu.Model.LDb
namespace Gsu.LDb
open Gsu.Proto

/-- every non-empty foreign key value of a live source row has a live target row -/
def FkOk (sch : Schema) (db : Db) : Prop :=
  ∀ s j fk r, fkOf sch s j = some fk → r ∈ db s →
    emptyKey (proj (colsOf sch s j) r) = false →
    hasKey (db fk.table) (colsOf sch fk.table fk.index) (proj (colsOf sch s j) r) = true

/-! ### schema links -/

theorem idxsOf_some {sch : Schema} {s j : Nat} {ix : Index} (h : (idxsOf sch s)[j]? = some ix) :
    s < sch.length ∧ j < (idxsOf sch s).length := by
  constructor
  · unfold idxsOf at h
    cases hs : sch[s]? with
    | none => simp [hs] at h
    | some tb => exact (List.getElem?_eq_some_iff.mp hs).1
  · exact (List.getElem?_eq_some_iff.mp h).1

theorem fkOf_some {sch : Schema} {s j : Nat} {fk : Fk} (h : fkOf sch s j = some fk) :
    s < sch.length ∧ j < (idxsOf sch s).length := by
  unfold fkOf at h
  cases hi : (idxsOf sch s)[j]? with
  | none => simp [hi] at h
  | some ix => exact idxsOf_some hi

/-- a foreign key is listed in the `FkToHere` of its target -/
theorem mem_fkToHere {sch : Schema} {s j : Nat} {fk : Fk} (h : fkOf sch s j = some fk) :
    (⟨s, j, fk.mode⟩ : FkTo) ∈ fkToHere sch fk.table fk.index := by
  obtain ⟨hs, hj⟩ := fkOf_some h
  unfold fkToHere
  rw [List.mem_flatMap]
  refine ⟨s, List.mem_range.mpr hs, ?_⟩
  rw [List.mem_filterMap]
  refine ⟨j, List.mem_range.mpr hj, ?_⟩
  simp [h]

theorem mem_enumIdxs {sch : Schema} {t i : Nat} {ix : Index} :
    (ix, i) ∈ enumIdxs sch t ↔ (idxsOf sch t)[i]? = some ix := by
  unfold enumIdxs
  exact List.mem_zipIdx_iff_getElem?

theorem colsOf_eq {sch : Schema} {t i : Nat} {ix : Index} (h : (idxsOf sch t)[i]? = some ix) :
    colsOf sch t i = ix.cols := by
  simp [colsOf, h]

theorem emptyKey_nil : emptyKey [] = true := rfl

/-- a non-empty key on `colsOf sch t i` means index `i` of `t` exists -/
theorem idx_of_nonempty {sch : Schema} {t i : Nat} {r : Row}
    (h : emptyKey (proj (colsOf sch t i) r) = false) : ∃ ix, (idxsOf sch t)[i]? = some ix := by
  cases hi : (idxsOf sch t)[i]? with
  | some ix => exact ⟨ix, rfl⟩
  | none => simp [colsOf, hi, proj, emptyKey] at h

/-! ### rows -/

theorem hasKey_iff {rows : List Row} {cols : List Nat} {key : Key} :
    hasKey rows cols key = true ↔ ∃ r ∈ rows, proj cols r = key := by
  simp [hasKey]

theorem hasKey_false_iff {rows : List Row} {cols : List Nat} {key : Key} :
    hasKey rows cols key = false ↔ ∀ r ∈ rows, proj cols r ≠ key := by
  simp [hasKey]

theorem find_none_refs {sch : Schema} {db : Db} {f : FkTo} {key : Key}
    (h : (db f.table).find? (fun r => proj (colsOf sch f.table f.index) r == key) = none) :
    refs sch db f key = false := by
  unfold refs
  rw [hasKey_false_iff]
  intro r hr
  have := List.find?_eq_none.mp h r hr
  simpa using this

theorem change_db {env : Env} {w w' : W} {t : Nat} {o n : Option Row}
    (h : change env w t o n = .ok w') : w'.db = applyChange w.db t o n := by
  unfold change at h
  simp only at h
  split at h
  · split at h
    · cases h
    · cases h; rfl
  · cases h; rfl

theorem deleteBlocks_or (m : Nat) : deleteBlocks m = true ∨ cascadesDeletes m = true := by
  unfold deleteBlocks cascadesDeletes
  cases h : (m &&& mCascadeDeletes == 0) <;> simp_all

theorem updateBlocks_or (m : Nat) : updateBlocks m = true ∨ cascadesUpdates m = true := by
  unfold updateBlocks cascadesUpdates
  cases h : (m &&& mCascadeUpdates == 0) <;> simp_all

/-! ### delete: the cascade keeps the invariant at every step -/

/-- what a pending removal of `row` needs: it is referenced only through keys whose cascade
(`casc`) is among the tasks `above` it -/
def FinOk (sch : Schema) (db : Db) (above : List DTask) (t : Nat) (row : Row) : Prop :=
  ∀ ix i f, (ix, i) ∈ enumIdxs sch t → f ∈ fkToHere sch t i →
    emptyKey (proj ix.cols row) = false → refs sch db f (proj ix.cols row) = true →
    DTask.casc f (proj ix.cols row) ∈ above

/-- the stack invariant of `runDel` (`above` = the tasks already passed, going down the stack) -/
def DSafe (sch : Schema) (db : Db) : List DTask → List DTask → Prop
  | _, [] => True
  | above, .fin t row :: rest => FinOk sch db above t row ∧ DSafe sch db above rest
  | above, .del t row :: rest => DSafe sch db (.del t row :: above) rest
  | above, .casc f key :: rest => DSafe sch db (.casc f key :: above) rest

theorem refs_mono {sch : Schema} {db db' : Db} {f : FkTo} {key : Key}
    (hsub : ∀ t r, r ∈ db' t → r ∈ db t) (h : refs sch db' f key = true) : refs sch db f key = true := by
  unfold refs at *
  rw [hasKey_iff] at *
  obtain ⟨r, hr, hk⟩ := h
  exact ⟨r, hsub _ _ hr, hk⟩

theorem erase_sub (db : Db) (t : Nat) (row : Row) :
    ∀ t' r, r ∈ applyChange db t (some row) none t' → r ∈ db t' := by
  intro t' r h
  unfold applyChange at h
  split at h
  · subst_vars; exact List.mem_of_mem_erase h
  · exact h

/-- weaker `above` requirements and fewer rows keep the invariant -/
theorem DSafe_mono {sch : Schema} {db db' : Db} (hsub : ∀ t r, r ∈ db' t → r ∈ db t) :
    ∀ (st a b : List DTask), (∀ f key, DTask.casc f key ∈ a → DTask.casc f key ∈ b) →
      DSafe sch db a st → DSafe sch db' b st := by
  intro st
  induction st with
  | nil => intros; trivial
  | cons x rest ih =>
    intro a b hab h
    cases x with
    | fin t row =>
      refine ⟨?_, ih a b hab h.2⟩
      intro ix i f hix hf hne hr
      exact hab _ _ (h.1 ix i f hix hf hne (refs_mono hsub hr))
    | del t row =>
      refine ih _ _ ?_ h
      intro f key hm
      rcases List.mem_cons.mp hm with h1 | h1
      · cases h1
      · exact List.mem_cons_of_mem _ (hab _ _ h1)
    | casc f0 k0 =>
      refine ih _ _ ?_ h
      intro f key hm
      rcases List.mem_cons.mp hm with h1 | h1
      · rw [h1]; exact List.mem_cons_self
      · exact List.mem_cons_of_mem _ (hab _ _ h1)

/-- a finished cascade (no referencing row left) is no longer needed above -/
theorem DSafe_drop {sch : Schema} {db : Db} {f0 : FkTo} {k0 : Key} (hno : refs sch db f0 k0 = false) :
    ∀ (st a : List DTask), DSafe sch db (.casc f0 k0 :: a) st → DSafe sch db a st := by
  intro st
  induction st with
  | nil => intros; trivial
  | cons x rest ih =>
    intro a h
    cases x with
    | fin t row =>
      refine ⟨?_, ih a h.2⟩
      intro ix i f hix hf hne hr
      rcases List.mem_cons.mp (h.1 ix i f hix hf hne hr) with h1 | h1
      · injection h1 with h2 h3
        subst h2 h3
        rw [hr] at hno; cases hno
      · exact h1
    | del t row =>
      refine ih _ (DSafe_mono (fun _ _ h => h) rest _ _ ?_ h)
      intro f key hm
      simp only [List.mem_cons] at hm ⊢
      rcases hm with h1 | h1 | h1
      · cases h1
      · exact Or.inl h1
      · exact Or.inr (Or.inr h1)
    | casc f1 k1 =>
      refine ih _ (DSafe_mono (fun _ _ h => h) rest _ _ ?_ h)
      intro f key hm
      simp only [List.mem_cons] at hm ⊢
      rcases hm with h1 | h1 | h1
      · exact Or.inr (Or.inl h1)
      · exact Or.inl h1
      · exact Or.inr (Or.inr h1)

/-- pushing cascades: they all go into `above` -/
theorem DSafe_cascs {sch : Schema} {db : Db} :
    ∀ (cs : List DTask), (∀ c ∈ cs, ∃ f k, c = DTask.casc f k) → ∀ (a rest : List DTask),
      DSafe sch db (cs.reverse ++ a) rest → DSafe sch db a (cs ++ rest) := by
  intro cs
  induction cs with
  | nil => intro _ a rest h; simpa using h
  | cons c cs ih =>
    intro hc a rest h
    obtain ⟨f, k, rfl⟩ := hc c List.mem_cons_self
    show DSafe sch db (.casc f k :: a) (cs ++ rest)
    refine ih (fun c hm => hc c (List.mem_cons_of_mem _ hm)) _ _ ?_
    simpa using h

theorem cascDel_cascs (sch : Schema) (t : Nat) (row : Row) :
    ∀ c ∈ cascDel sch t row, ∃ f k, c = DTask.casc f k := by
  intro c hc
  unfold cascDel at hc
  rw [List.mem_flatMap] at hc
  obtain ⟨⟨ix, i⟩, _, hc⟩ := hc
  simp only at hc
  split at hc
  · cases hc
  · rw [List.mem_filterMap] at hc
    obtain ⟨f, _, hf⟩ := hc
    split at hf
    · cases hf; exact ⟨_, _, rfl⟩
    · cases hf

theorem mem_cascDel {sch : Schema} {t : Nat} {row : Row} {ix : Index} {i : Nat} {f : FkTo}
    (hix : (ix, i) ∈ enumIdxs sch t) (hf : f ∈ fkToHere sch t i)
    (hne : emptyKey (proj ix.cols row) = false) (hc : cascadesDeletes f.mode = true) :
    DTask.casc f (proj ix.cols row) ∈ cascDel sch t row := by
  unfold cascDel
  rw [List.mem_flatMap]
  refine ⟨(ix, i), hix, ?_⟩
  simp only [hne, Bool.false_eq_true, if_false]
  rw [List.mem_filterMap]
  exact ⟨f, hf, by simp [hc]⟩

theorem not_delBlocked {sch : Schema} {db : Db} {t : Nat} {row : Row} {ix : Index} {i : Nat} {f : FkTo}
    (hb : delBlocked sch db t row = false)
    (hix : (ix, i) ∈ enumIdxs sch t) (hf : f ∈ fkToHere sch t i)
    (hne : emptyKey (proj ix.cols row) = false) (hm : deleteBlocks f.mode = true) :
    refs sch db f (proj ix.cols row) = false := by
  unfold delBlocked at hb
  rw [List.any_eq_false] at hb
  have h1 := hb (ix, i) hix
  simp only [blocked, hne, Bool.not_false, Bool.true_and] at h1
  have h2 : ∀ x ∈ fkToHere sch t i, deleteBlocks x.mode = true → refs sch db x (proj ix.cols row) = false := by
    simpa using h1
  exact h2 f hf hm

/-- removing a row that nothing references keeps every foreign key satisfied -/
theorem fkOk_erase {sch : Schema} {db : Db} {t : Nat} {row : Row}
    (hok : FkOk sch db) (hfin : FinOk sch db [] t row) :
    FkOk sch (applyChange db t (some row) none) := by
  intro s j fk r hfk hr hne
  have hr0 : r ∈ db s := erase_sub db t row s r hr
  have h := hok s j fk r hfk hr0 hne
  rw [hasKey_iff] at h ⊢
  obtain ⟨r2, hr2, hk⟩ := h
  by_cases hcase : fk.table = t ∧ r2 = row
  · -- the witness is the removed row: then `r` references it, which `FinOk` excludes
    exfalso
    obtain ⟨ht, rfl⟩ := hcase
    have hne2 : emptyKey (proj (colsOf sch fk.table fk.index) r2) = false := by rw [hk]; exact hne
    obtain ⟨ix, hix⟩ := idx_of_nonempty hne2
    have hcols := colsOf_eq hix
    rw [ht] at hix
    have hmem := mem_fkToHere hfk
    rw [ht] at hmem
    have hrefs : refs sch db ⟨s, j, fk.mode⟩ (proj ix.cols r2) = true := by
      unfold refs
      rw [hasKey_iff]
      exact ⟨r, hr0, by rw [← hcols, hk]⟩
    have := hfin ix fk.index ⟨s, j, fk.mode⟩ (mem_enumIdxs.mpr hix) hmem (by rw [← hcols]; exact hne2) hrefs
    cases this
  · refine ⟨r2, ?_, hk⟩
    unfold applyChange
    split
    · rename_i heq
      rw [heq] at hr2
      apply (List.mem_erase_of_ne ?_).mpr hr2
      intro h2
      exact hcase ⟨heq, h2⟩
    · exact hr2

/-- the delete cascade keeps the foreign key invariant — at every step, for every schema -/
theorem runDel_fkOk (env : Env) : ∀ (n : Nat) (w : W) (st : List DTask) (w' : W),
    runDel env n w st = .ok w' → FkOk env.sch w.db → DSafe env.sch w.db [] st → FkOk env.sch w'.db := by
  intro n
  induction n with
  | zero =>
    intro w st w' h hok _
    cases st with
    | nil => simp [runDel] at h; cases h; exact hok
    | cons x rest => simp [runDel] at h
  | succ n ih =>
    intro w st w' h hok hs
    cases st with
    | nil => simp [runDel] at h; cases h; exact hok
    | cons x rest =>
      cases x with
      | del t row =>
        simp only [runDel] at h
        split at h
        · cases h
        · split at h
          · cases h
          · split at h
            · cases h
            · rename_i _ _ hnb
              refine ih _ _ _ h hok ?_
              apply DSafe_cascs _ (cascDel_cascs _ _ _)
              refine ⟨?_, ?_⟩
              · intro ix i f hix hf hne hr
                rcases deleteBlocks_or f.mode with hm | hm
                · have := not_delBlocked (by simpa using hnb) hix hf hne hm
                  rw [hr] at this; cases this
                · simp only [List.append_nil, List.mem_reverse]
                  exact mem_cascDel hix hf hne hm
              · exact DSafe_mono (fun _ _ h => h) rest _ _ (by intro f key hm; cases hm with | tail _ h1 => cases h1) hs
      | casc f key =>
        simp only [runDel] at h
        split at h
        · rename_i hnone
          exact ih _ _ _ h hok (DSafe_drop (find_none_refs hnone) rest [] hs)
        · refine ih _ _ _ h hok ?_
          exact DSafe_mono (fun _ _ h => h) rest _ _ (by
            intro f' k' hm
            simp only [List.mem_cons] at hm ⊢
            rcases hm with h1 | h1
            · exact Or.inl h1
            · cases h1) hs
      | fin t row =>
        simp only [runDel] at h
        split at h
        · cases h
        · rename_i w1 hch
          have hdb := change_db hch
          refine ih _ _ _ h ?_ ?_
          · rw [hdb]; exact fkOk_erase hok hs.1
          · rw [hdb]; exact DSafe_mono (erase_sub _ _ _) rest _ _ (fun _ _ h => h) hs.2

theorem opDelete_fkOk {env : Env} {w w' : W} {t : Nat} {row : Row}
    (h : opDelete env w t row = .ok w') (hok : FkOk env.sch w.db) : FkOk env.sch w'.db := by
  unfold opDelete at h
  split at h
  · cases h
  · split at h
    · cases h
    · split at h
      · rename_i w1 hrun
        cases h
        exact runDel_fkOk env _ _ _ _ hrun hok (by simp [DSafe])
      · cases h

theorem firstErr_none {α} {f : α → Option Err} : ∀ {l : List α}, firstErr f l = none → ∀ a ∈ l, f a = none := by
  intro l
  induction l with
  | nil => intro _ a ha; cases ha
  | cons x xs ih =>
    intro h a ha
    unfold firstErr at h
    cases hx : f x with
    | some e => simp [hx] at h
    | none =>
      simp only [hx] at h
      rcases List.mem_cons.mp ha with rfl | h1
      · exact hx
      · exact ih h a h1

theorem firstErr_some {α} {f : α → Option Err} : ∀ {l : List α} {a : α}, a ∈ l → f a ≠ none → firstErr f l ≠ none := by
  intro l a ha hne h
  exact hne (firstErr_none h a ha)

theorem mem_idxsOf_of_fkOf {sch : Schema} {s j : Nat} {fk : Fk} (h : fkOf sch s j = some fk) :
    ∃ ix, ix ∈ idxsOf sch s ∧ ix.fk = some fk ∧ colsOf sch s j = ix.cols := by
  unfold fkOf at h
  cases hi : (idxsOf sch s)[j]? with
  | none => simp [hi] at h
  | some ix =>
    simp only [hi] at h
    exact ⟨ix, List.mem_of_getElem? hi, h, colsOf_eq hi⟩

/-- inserting a row whose foreign keys were checked keeps the invariant -/
theorem opOutput_fkOk {env : Env} {w w' : W} {t : Nat} {row : Row}
    (h : opOutput env w t row = .ok w') (hok : FkOk env.sch w.db) : FkOk env.sch w'.db := by
  unfold opOutput at h
  split at h
  · cases h
  · rename_i hchk
    split at h
    · rename_i w1 hch
      cases h
      rw [change_db hch]
      have happ : ∀ t' r, r ∈ w.db t' → r ∈ applyChange w.db t none (some row) t' := by
        intro t' r hr
        unfold applyChange
        split
        · subst_vars; exact List.mem_append_left _ hr
        · exact hr
      intro s j fk r hfk hr hne
      have hold : r ∈ w.db s ∨ (s = t ∧ r = row) := by
        unfold applyChange at hr
        split at hr
        · rename_i heq
          rcases List.mem_append.mp hr with h1 | h1
          · left; rw [heq]; exact h1
          · right; exact ⟨heq, by simpa using h1⟩
        · left; exact hr
      have hw : hasKey (w.db fk.table) (colsOf env.sch fk.table fk.index) (proj (colsOf env.sch s j) r) = true := by
        rcases hold with h1 | ⟨rfl, rfl⟩
        · exact hok s j fk r hfk h1 hne
        · obtain ⟨ix, hmem, hixfk, hcols⟩ := mem_idxsOf_of_fkOf hfk
          have h1 := firstErr_none hchk ix hmem
          unfold outCheck1 at h1
          split at h1
          · cases h1
          · split at h1
            · cases h1
            · rename_i hob
              simp only [outBlocked, hixfk] at hob
              rw [hcols] at hne ⊢
              simpa [hne] using hob
      rw [hasKey_iff] at hw ⊢
      obtain ⟨r2, hr2, hk⟩ := hw
      exact ⟨r2, happ _ _ hr2, hk⟩
    · cases h

/-! ### update of a row whose referenced keys stay the same -/

/-- the update leaves every key that some foreign key points to unchanged -/
def KeepsKeys (sch : Schema) (t : Nat) (old new : Row) : Prop :=
  ∀ ix i, (ix, i) ∈ enumIdxs sch t → fkToHere sch t i ≠ [] → proj ix.cols old = proj ix.cols new

theorem cascUpd_nil {sch : Schema} {t : Nat} {old new : Row} (hk : KeepsKeys sch t old new) :
    cascUpd sch t old new = [] := by
  unfold cascUpd
  rw [List.flatMap_eq_nil_iff]
  intro ⟨ix, i⟩ hmem
  simp only
  split
  · rfl
  · rename_i hne
    have : fkToHere sch t i = [] := by
      apply Classical.byContradiction
      intro hnn
      have := hk ix i hmem hnn
      simp [this] at hne
    rw [this]; rfl

theorem mem_replace_sub {a b x : Row} : ∀ {l : List Row}, x ∈ l.replace a b → x ∈ l ∨ x = b := by
  intro l
  induction l with
  | nil => intro h; simp at h
  | cons y ys ih =>
    intro h
    rw [List.replace_cons] at h
    split at h
    · rcases List.mem_cons.mp h with h1 | h1
      · exact Or.inr h1
      · exact Or.inl (List.mem_cons_of_mem _ h1)
    · rcases List.mem_cons.mp h with h1 | h1
      · exact Or.inl (h1 ▸ List.mem_cons_self)
      · rcases ih h1 with h2 | h2
        · exact Or.inl (List.mem_cons_of_mem _ h2)
        · exact Or.inr h2

theorem mem_replace_of_ne {a b x : Row} (hne : x ≠ a) : ∀ {l : List Row}, x ∈ l → x ∈ l.replace a b := by
  intro l
  induction l with
  | nil => intro h; cases h
  | cons y ys ih =>
    intro h
    rw [List.replace_cons]
    split
    · rename_i hya
      rcases List.mem_cons.mp h with h1 | h1
      · exfalso; apply hne; rw [h1]; exact (by simpa using hya : a = y).symm
      · exact List.mem_cons_of_mem _ h1
    · rcases List.mem_cons.mp h with h1 | h1
      · rw [h1]; exact List.mem_cons_self
      · exact List.mem_cons_of_mem _ (ih h1)

theorem mem_replace_new {a b : Row} : ∀ {l : List Row}, a ∈ l → b ∈ l.replace a b := by
  intro l
  induction l with
  | nil => intro h; cases h
  | cons y ys ih =>
    intro h
    rw [List.replace_cons]
    split
    · exact List.mem_cons_self
    · rename_i hya
      rcases List.mem_cons.mp h with h1 | h1
      · exfalso; rw [h1] at hya; simp at hya
      · exact List.mem_cons_of_mem _ (ih h1)

/-- replacing `old` by `new` keeps the invariant when the referenced keys stay and the new
foreign key values have targets -/
theorem fkOk_replace {sch : Schema} {db : Db} {t : Nat} {old new : Row}
    (hok : FkOk sch db) (hold : old ∈ db t) (hk : KeepsKeys sch t old new)
    (hnew : ∀ j fk, fkOf sch t j = some fk → emptyKey (proj (colsOf sch t j) new) = false →
      hasKey (db fk.table) (colsOf sch fk.table fk.index) (proj (colsOf sch t j) new) = true) :
    FkOk sch (applyChange db t (some old) (some new)) := by
  intro s j fk r hfk hr hne
  have hsrc : r ∈ db s ∨ (s = t ∧ r = new) := by
    unfold applyChange at hr
    split at hr
    · rename_i heq
      rcases mem_replace_sub hr with h1 | h1
      · left; rw [heq]; exact h1
      · right; exact ⟨heq, h1⟩
    · left; exact hr
  have hw : hasKey (db fk.table) (colsOf sch fk.table fk.index) (proj (colsOf sch s j) r) = true := by
    rcases hsrc with h1 | ⟨rfl, rfl⟩
    · exact hok s j fk r hfk h1 hne
    · exact hnew j fk hfk hne
  rw [hasKey_iff] at hw ⊢
  obtain ⟨r2, hr2, hkey⟩ := hw
  by_cases hcase : fk.table = t ∧ r2 = old
  · obtain ⟨ht, rfl⟩ := hcase
    have hne2 : emptyKey (proj (colsOf sch fk.table fk.index) r2) = false := by rw [hkey]; exact hne
    obtain ⟨ix, hix⟩ := idx_of_nonempty hne2
    have hcols := colsOf_eq hix
    have hmem := mem_fkToHere hfk
    rw [ht] at hix hmem
    have hsame := hk ix fk.index (mem_enumIdxs.mpr hix) (List.ne_nil_of_mem hmem)
    refine ⟨new, ?_, ?_⟩
    · unfold applyChange
      rw [if_pos ht]
      exact mem_replace_new hold
    · rw [hcols, ← hsame, ← hcols]; exact hkey
  · refine ⟨r2, ?_, hkey⟩
    unfold applyChange
    split
    · rename_i heq
      rw [heq] at hr2
      exact mem_replace_of_ne (fun h2 => hcase ⟨heq, h2⟩) hr2
    · exact hr2

theorem take_proj_append (cols k : List Nat) (r : Row) :
    (proj (cols ++ k) r).take cols.length = proj cols r := by
  simp [proj, List.map_append]

theorem ixKey_take (sch : Schema) (t : Nat) (ix : Index) (r : Row) :
    (ixKey sch t ix r).take ix.cols.length = proj ix.cols r := by
  unfold ixKey
  split
  · exact take_proj_append _ _ _
  · have := take_proj_append ix.cols [] r
    simpa using this

theorem proj_eq_of_ixKey_eq {sch : Schema} {t : Nat} {ix : Index} {a b : Row}
    (h : ixKey sch t ix a = ixKey sch t ix b) : proj ix.cols a = proj ix.cols b := by
  rw [← ixKey_take sch t ix a, ← ixKey_take sch t ix b, h]

theorem opUpdate_fkOk {env : Env} {w w' : W} {t : Nat} {old new : Row}
    (h : opUpdate env w t old new = .ok w') (hk : KeepsKeys env.sch t old new)
    (hok : FkOk env.sch w.db) : FkOk env.sch w'.db := by
  unfold opUpdate at h
  split at h
  · cases h; exact hok
  · rename_i hneq
    split at h
    · cases h
    · rename_i hcont
      split at h
      · cases h
      · rename_i hchk
        have hf : fuel0 = 999998 + 1 + 1 := rfl
        rw [hf] at h
        simp only [runUpd, hneq, pendingUpd, List.any_nil, Bool.false_eq_true, if_false, hcont, hchk,
          cascUpd_nil hk, List.nil_append] at h
        split at h
        · rename_i w1 hrun
          cases h
          split at hrun
          · cases hrun
          · rename_i w2 hch
            cases hrun
            rw [change_db hch]
            have hold : old ∈ w.db t := by simpa using hcont
            refine fkOk_replace hok hold hk ?_
            intro j fk hfk hne
            obtain ⟨ix, hix⟩ := idx_of_nonempty hne
            have hcols := colsOf_eq hix
            have hixfk : ix.fk = some fk := by simpa [fkOf, hix] using hfk
            have h1 := firstErr_none hchk (ix, j) (mem_enumIdxs.mpr hix)
            simp only [updCheck1] at h1
            split at h1
            · -- key of this index unchanged: the old row's target is still there
              rename_i hsame
              have hp := proj_eq_of_ixKey_eq (by simpa using hsame)
              rw [hcols, ← hp, ← hcols]
              exact hok t j fk old hfk hold (by rw [hcols, hp, ← hcols]; exact hne)
            · split at h1
              · cases h1
              · split at h1
                · cases h1
                · split at h1
                  · cases h1
                  · rename_i hob
                    simp only [Bool.true_and, outBlocked, hixfk] at hob
                    rw [hcols] at hne ⊢
                    simpa [hne] using hob
        · cases h

/-! ### histories -/

/-- the invariant of a history: committed state and the running transaction's view -/
def CkInv (s : St) : Prop := FkOk s.env.sch s.committed ∧ FkOk s.env.sch s.w.db

/-- the operations covered: every update leaves referenced keys unchanged -/
def OpOk (sch : Schema) : Op → Prop
  | .upd t old new => KeepsKeys sch t old new
  | _ => True

theorem applyRes_inv {s : St} {r : Res} (h : CkInv s)
    (hr : ∀ w', r = .ok w' → FkOk s.env.sch w'.db) : CkInv (applyRes s r) := by
  cases r with
  | ok w' => exact ⟨h.1, hr w' rfl⟩
  | err e alive => cases alive <;> exact h

theorem step_sch (s : St) (op : Op) : (step s op).env.sch = s.env.sch := by
  cases op <;> simp only [step] <;> (try split) <;> (try rfl)
  all_goals (simp only [opRes]; first | rfl | (generalize (opOutput _ _ _ _) = r; cases r <;> (try rename_i e a; cases a) <;> rfl) | skip)
  all_goals (first | (generalize (opDelete _ _ _ _) = r; cases r <;> (try rename_i e a; cases a) <;> rfl) | (generalize (opUpdate _ _ _ _ _) = r; cases r <;> (try rename_i e a; cases a) <;> rfl))

theorem step_inv (s : St) (op : Op) (hop : OpOk s.env.sch op) (h : CkInv s) : CkInv (step s op) := by
  cases op with
  | begin => exact ⟨h.1, h.1⟩
  | commit =>
    simp only [step]
    split
    · exact ⟨h.2, h.2⟩
    · exact h
  | abort => exact h
  | dis t => exact h
  | ena t => exact h
  | out t row =>
    simp only [step]
    split
    · exact applyRes_inv h (fun w' hw => opOutput_fkOk hw h.2)
    · exact h
  | del t row =>
    simp only [step]
    split
    · exact applyRes_inv h (fun w' hw => opDelete_fkOk hw h.2)
    · exact h
  | upd t old new =>
    simp only [step]
    split
    · exact applyRes_inv h (fun w' hw => opUpdate_fkOk hw hop h.2)
    · exact h

theorem run_inv : ∀ (ops : List Op) (s : St), (∀ op ∈ ops, OpOk s.env.sch op) → CkInv s → CkInv (run s ops) := by
  intro ops
  induction ops with
  | nil => intro s _ h; exact h
  | cons op ops ih =>
    intro s hops h
    show CkInv (run (step s op) ops)
    refine ih _ ?_ (step_inv s op (hops op List.mem_cons_self) h)
    intro o ho
    rw [step_sch]
    exact hops o (List.mem_cons_of_mem _ ho)

/-! ### refusal (the "block" part of the documentation) -/

theorem opDelete_blocked {env : Env} {w : W} {t : Nat} {row : Row} {ix : Index} {i : Nat} {f : FkTo}
    (hrow : row ∈ w.db t) (hix : (ix, i) ∈ enumIdxs env.sch t) (hf : f ∈ fkToHere env.sch t i)
    (hne : emptyKey (proj ix.cols row) = false) (hm : deleteBlocks f.mode = true)
    (hr : refs env.sch w.db f (proj ix.cols row) = true) :
    opDelete env w t row = .err .fkdel true := by
  have hb : delBlocked env.sch w.db t row = true := by
    unfold delBlocked
    rw [List.any_eq_true]
    refine ⟨(ix, i), hix, ?_⟩
    simp only [blocked, hne, Bool.not_false, Bool.true_and]
    rw [List.any_eq_true]
    exact ⟨f, hf, by simp [hm, hr]⟩
  unfold opDelete
  simp [hrow, hb]

theorem opUpdate_blocked {env : Env} {w : W} {t : Nat} {old new : Row} {ix : Index} {i : Nat} {f : FkTo}
    (hrow : old ∈ w.db t) (hix : (ix, i) ∈ enumIdxs env.sch t) (hf : f ∈ fkToHere env.sch t i)
    (hkey : ix.mode = 0) (hchg : proj ix.cols old ≠ proj ix.cols new)
    (hne : emptyKey (proj ix.cols old) = false) (hm : updateBlocks f.mode = true)
    (hr : refs env.sch w.db f (proj ix.cols old) = true) :
    ∃ e, opUpdate env w t old new = .err e true := by
  have hneq : (new == old) = false := by
    apply Bool.eq_false_iff.mpr
    intro h
    exact hchg (by rw [eq_of_beq h])
  have hb : blocked env.sch w.db t i (proj ix.cols old) updateBlocks = true := by
    simp only [blocked, hne, Bool.not_false, Bool.true_and]
    rw [List.any_eq_true]
    exact ⟨f, hf, by simp [hm, hr]⟩
  have h1 : updCheck1 env.sch w.db t old new true i ix ≠ none := by
    have hk : ∀ r, ixKey env.sch t ix r = proj ix.cols r := by
      intro r; simp [ixKey, hkey]
    simp only [updCheck1, hk]
    have : (proj ix.cols old == proj ix.cols new) = false := by
      apply Bool.eq_false_iff.mpr
      intro h
      exact hchg (eq_of_beq h)
    simp only [this, Bool.false_eq_true, if_false, hb, if_true]
    split <;> simp
  have h2 := firstErr_some (f := fun (p : Index × Nat) => updCheck1 env.sch w.db t old new true p.2 p.1)
    (a := (ix, i)) hix h1
  unfold opUpdate
  simp only [hneq, Bool.false_eq_true, if_false]
  have hc : (w.db t).contains old = true := by simpa using hrow
  simp only [hc, Bool.not_true, Bool.false_eq_true, if_false]
  cases hu : updChecks env.sch w.db t old new true with
  | some e => exact ⟨e, rfl⟩
  | none => exact absurd hu h2

end Gsu.LDb
