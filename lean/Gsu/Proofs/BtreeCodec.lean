/-
C10 — the leaf node codec round-trips (`Model/BtreeCodec.lean`). Core-only.
-/
import Gsu.Model.BtreeCodec
import Gsu.Proofs.BtreeTree
namespace Gsu.Btree

theorem be16_length (x : Nat) : (be16 x).length = 2 := rfl
theorem be40_length (x : Nat) : (be40 x).length = 5 := rfl

theorem getD_append_at (X Y : List UInt8) (j : Nat) : (X ++ Y).getD (X.length + j) 0 = Y.getD j 0 := by
  simp [List.getD_eq_getElem?_getD, List.getElem?_append_right]

theorem rd16_at (X Y : List UInt8) (v : Nat) (hv : v < 65536) :
    rd16 (X ++ (be16 v ++ Y)) X.length = v := by
  unfold rd16
  rw [show X.length = X.length + 0 from rfl, getD_append_at, Nat.add_assoc, getD_append_at]
  simp only [be16, List.cons_append, List.nil_append, List.getD_cons_zero, Nat.zero_add,
    List.getD_cons_succ, UInt8.toNat_ofNat']
  omega

theorem rd40_at (X Y : List UInt8) (v : Nat) (hv : v < 1099511627776) :
    rd40 (X ++ (be40 v ++ Y)) X.length = v := by
  unfold rd40
  rw [show X.length = X.length + 0 from rfl, getD_append_at]
  simp only [Nat.add_assoc, getD_append_at]
  simp only [be40, List.cons_append, List.nil_append, List.getD_cons_zero, Nat.zero_add,
    List.getD_cons_succ, UInt8.toNat_ofNat']
  omega

theorem slice_at (X S Y : List UInt8) : slice (X ++ (S ++ Y)) X.length (X.length + S.length) = S := by
  simp [slice]

/-- where the field data ends -/
def endPos (pre : Nat) : Nat → List KV → Nat
  | fp, [] => fp
  | fp, (k, _) :: r => endPos pre (fp + (k.length - pre)) r

theorem le_endPos (pre : Nat) : ∀ (es : List KV) (fp : Nat), fp ≤ endPos pre fp es := by
  intro es
  induction es with
  | nil => intro fp; exact Nat.le_refl _
  | cons x r ih => intro fp; exact Nat.le_trans (Nat.le_add_right _ _) (ih _)

theorem endPos_eq (pre : Nat) : ∀ (es : List KV) (fp : Nat),
    endPos pre fp es = fp + (es.map fun e => e.1.length - pre).sum := by
  intro es
  induction es with
  | nil => intro fp; simp [endPos]
  | cons x r ih => intro fp; simp [endPos, ih]; omega

theorem encTail_length (pre : Nat) : ∀ (es : List KV) (fp : Nat),
    (encTail pre fp es).length = 7 * es.length + 2 := by
  intro es
  induction es with
  | nil => intro fp; rfl
  | cons x r ih =>
    obtain ⟨k, o⟩ := x
    intro fp
    simp only [encTail, List.length_append, be16_length, be40_length, ih, List.length_cons]
    omega

theorem encTail_head (pre fp : Nat) (es : List KV) : ∃ Y, encTail pre fp es = be16 fp ++ Y := by
  cases es with
  | nil => exact ⟨[], by simp [encTail]⟩
  | cons x r => exact ⟨be40 x.2 ++ encTail pre (fp + (x.1.length - pre)) r, by simp [encTail]⟩

/-- the suffixes -/
def sufs (pre : Nat) (es : List KV) : List UInt8 := es.flatMap fun e => e.1.drop pre

theorem sufs_cons (pre : Nat) (k : Key) (o : Nat) (r : List KV) :
    sufs pre ((k, o) :: r) = k.drop pre ++ sufs pre r := by
  simp [sufs]

/-- reading the entries back: `A` = what precedes entry `i`, `D` = prefix and the field data of
the entries before `i`; the field of entry `i` starts at `fp` -/
theorem decEntries_spec (pre : Nat) (p : Key) (hp : p.length = pre) :
    ∀ (es : List KV) (A D : List UInt8) (i fp : Nat) (bs : List UInt8),
      bs = A ++ (encTail pre fp es ++ (D ++ sufs pre es)) →
      A.length = 2 + 7 * i → A.length + (7 * es.length + 2) + D.length = fp →
      endPos pre fp es < 65536 → (∀ e ∈ es, e.2 < 1099511627776) → (∀ e ∈ es, p <+: e.1) →
      decEntries bs p es.length i = es := by
  intro es
  induction es with
  | nil => intro A D i fp bs _ _ _ _ _ _; rfl
  | cons x r ih =>
    obtain ⟨k, o⟩ := x
    intro A D i fp bs hbs hA hfp hend hoff hpre
    have hfp' : fp + (k.length - pre) ≤ endPos pre (fp + (k.length - pre)) r := le_endPos _ _ _
    simp only [endPos] at hend
    have hk : p ++ k.drop pre = k := by
      obtain ⟨t, ht⟩ := hpre (k, o) List.mem_cons_self
      simp only at ht
      rw [← ht, ← hp]; simp
    have ho : o < 1099511627776 := by
      have := hoff (k, o) List.mem_cons_self
      simpa using this
    -- the three reads
    have r1 : rd16 bs (2 + 7 * i) = fp := by
      rw [hbs, ← hA]
      simp only [encTail, List.append_assoc]
      exact rd16_at A _ fp (by omega)
    have r2 : rd40 bs (2 + 7 * i + 2) = o := by
      rw [hbs]
      simp only [encTail, List.append_assoc]
      have : 2 + 7 * i + 2 = (A ++ be16 fp).length := by simp [be16_length, hA]
      rw [this, ← List.append_assoc A (be16 fp)]
      exact rd40_at _ _ o ho
    have r3 : rd16 bs (2 + 7 * (i + 1)) = fp + (k.length - pre) := by
      rw [hbs]
      simp only [encTail, List.append_assoc]
      have : 2 + 7 * (i + 1) = (A ++ (be16 fp ++ be40 o)).length := by
        simp [be16_length, be40_length, hA]; omega
      rw [this, ← List.append_assoc (be16 fp), ← List.append_assoc A]
      obtain ⟨Y, hY⟩ := encTail_head pre (fp + (k.length - pre)) r
      rw [hY, List.append_assoc (be16 _)]
      exact rd16_at _ _ _ (by omega)
    have r4 : slice bs fp (fp + (k.length - pre)) = k.drop pre := by
      rw [hbs, sufs_cons]
      have hlen : fp = (A ++ (encTail pre fp ((k, o) :: r) ++ D)).length := by
        simp only [List.length_append, encTail_length]; omega
      have : A ++ (encTail pre fp ((k, o) :: r) ++ (D ++ (k.drop pre ++ sufs pre r)))
          = (A ++ (encTail pre fp ((k, o) :: r) ++ D)) ++ (k.drop pre ++ sufs pre r) := by
        simp
      rw [this]
      have hl2 : k.length - pre = (k.drop pre).length := by simp
      rw [hl2]
      conv => lhs; arg 2; rw [hlen]
      conv => lhs; arg 3; rw [hlen]
      exact slice_at _ _ _
    simp only [List.length_cons, decEntries, r1, r2, r3, r4, hk]
    congr 1
    apply ih (A ++ (be16 fp ++ be40 o)) (D ++ k.drop pre) (i + 1) (fp + (k.length - pre)) bs
    · rw [hbs, sufs_cons]; simp [encTail]
    · simp [be16_length, be40_length, hA]; omega
    · simp only [List.length_append, be16_length, be40_length, List.length_drop, List.length_cons] at hfp ⊢
      omega
    · exact hend
    · exact fun e he => hoff e (List.mem_cons_of_mem _ he)
    · exact fun e he => hpre e (List.mem_cons_of_mem _ he)

theorem rd16_end (pre : Nat) : ∀ (es : List KV) (A R : List UInt8) (fp : Nat),
    endPos pre fp es < 65536 →
    rd16 (A ++ (encTail pre fp es ++ R)) (A.length + 7 * es.length) = endPos pre fp es := by
  intro es
  induction es with
  | nil =>
    intro A R fp h
    simp only [encTail, endPos, List.length_nil, Nat.mul_zero, Nat.add_zero] at h ⊢
    exact rd16_at A R fp h
  | cons x r ih =>
    obtain ⟨k, o⟩ := x
    intro A R fp h
    simp only [endPos] at h ⊢
    have := ih (A ++ (be16 fp ++ be40 o)) R (fp + (k.length - pre)) h
    simp only [List.length_append, be16_length, be40_length] at this
    simp only [encTail, List.length_cons]
    rw [show A.length + 7 * (r.length + 1) = A.length + (2 + 5) + 7 * r.length by omega, ← this]
    simp

theorem sufs_length (pre : Nat) (es : List KV) :
    (sufs pre es).length = (es.map fun e => e.1.length - pre).sum := by
  induction es with
  | nil => rfl
  | cons x r ih => obtain ⟨k, o⟩ := x; rw [sufs_cons]; simp [ih]

theorem encodeLeaf_eq (l : Leaf) :
    encodeLeaf l = [UInt8.ofNat l.es.length, UInt8.ofNat l.pre] ++
      (encTail l.pre (4 + 7 * l.es.length + l.pre) l.es ++
        ((headKey l.es).take l.pre ++ sufs l.pre l.es)) := by
  simp [encodeLeaf, sufs]

/-- decoding what `finishInto` wrote gives the leaf back, the recorded size is the real size -/
theorem leaf_roundtrip (l : Leaf) (hn : l.es.length < 256) (hpre : l.PreOK)
    (hoff : ∀ e ∈ l.es, e.2 < 1099511627776) (hsz : l.size < 65536) :
    decodeLeaf (encodeLeaf l) = l ∧ leafNodeSize (encodeLeaf l) = l.size := by
  have hp255 : l.pre < 256 := by have := hpre.1; omega
  have hend : endPos l.pre (4 + 7 * l.es.length + l.pre) l.es = l.size := by
    rw [endPos_eq]; simp [Leaf.size]
  have g0 : ((encodeLeaf l).getD 0 0).toNat = l.es.length := by
    rw [encodeLeaf_eq]; simp [UInt8.toNat_ofNat']; omega
  have g1 : ((encodeLeaf l).getD 1 0).toNat = l.pre := by
    rw [encodeLeaf_eq]; simp [UInt8.toNat_ofNat']; omega
  constructor
  · unfold decodeLeaf
    simp only [g0, g1]
    cases hes : l.es with
    | nil =>
      cases l with
      | mk pre es => simp only at hes; subst hes; simp [decEntries]
    | cons x r =>
      have hne : l.es ≠ [] := by rw [hes]; simp
      obtain ⟨hpl, hpall⟩ := storedPrefix l hpre hne
      have hsl : slice (encodeLeaf l) (4 + 7 * l.es.length) (4 + 7 * l.es.length + l.pre)
          = (headKey l.es).take l.pre := by
        rw [encodeLeaf_eq, ← List.append_assoc]
        generalize hX : ([UInt8.ofNat l.es.length, UInt8.ofNat l.pre] ++
            encTail l.pre (4 + 7 * l.es.length + l.pre) l.es) = X
        have hXl : X.length = 4 + 7 * l.es.length := by
          rw [← hX]; simp [encTail_length]; omega
        have := slice_at X ((headKey l.es).take l.pre) (sufs l.pre l.es)
        rw [hXl, hpl] at this
        exact this
      rw [← hes, hsl]
      have := decEntries_spec l.pre _ hpl l.es [UInt8.ofNat l.es.length, UInt8.ofNat l.pre]
        ((headKey l.es).take l.pre) 0 (4 + 7 * l.es.length + l.pre) (encodeLeaf l)
        (encodeLeaf_eq l) (by simp) (by simp only [List.length_cons, List.length_nil, hpl]; omega)
        (by rw [hend]; exact hsz) hoff hpall
      rw [this]
  · unfold leafNodeSize
    rw [g0, encodeLeaf_eq, ← hend]
    have := rd16_end l.pre l.es [UInt8.ofNat l.es.length, UInt8.ofNat l.pre]
      ((headKey l.es).take l.pre ++ sufs l.pre l.es) (4 + 7 * l.es.length + l.pre)
      (by rw [hend]; exact hsz)
    simpa using this

/-- the encoding has exactly `Leaf.size` bytes -/
theorem encodeLeaf_length (l : Leaf) (hpre : l.PreOK) :
    (encodeLeaf l).length = l.size := by
  have h0 := hpre.2.1
  rw [encodeLeaf_eq]
  simp only [List.length_append, List.length_cons, List.length_nil, encTail_length, sufs_length,
    Leaf.size]
  by_cases hne : l.es = []
  · simp [hne, h0 hne, headKey]
  · have := (storedPrefix l hpre hne).1
    rw [this]; omega

end Gsu.Btree
