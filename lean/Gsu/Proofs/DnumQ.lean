/-
C27: exact rational values of decimals and the rounding theorem of `New` over ℚ.
-/
import Gsu.Proofs.Dnum2
import Mathlib.Algebra.Order.Field.Rat
import Mathlib.Algebra.Order.Field.Power
import Mathlib.Tactic.Linarith
import Mathlib.Tactic.Positivity
import Mathlib.Tactic.NormNum
import Mathlib.Tactic.Ring
namespace Gsu.Dnum

/-- the exact value `sign · 0.coef · 10^exp = sign · coef · 10^(exp−16)` (zero has sign 0) -/
def val (d : Dnum) : ℚ := (d.sign : ℚ) * (d.coef : ℚ) * (10 : ℚ) ^ (d.exp - 16)
/-- one unit of the 16th significant digit of a number with exponent `e` -/
def ulpE (e : Int) : ℚ := (10 : ℚ) ^ (e - 16)
def ulp (d : Dnum) : ℚ := ulpE d.exp
/-- the smallest positive normalised decimal, 0.1e-128 -/
def minPos : ℚ := (10 : ℚ) ^ (-129 : Int)
/-- the largest finite decimal, 0.9999999999999999e127 -/
def maxFinite : ℚ := 9999999999999999 * (10 : ℚ) ^ (111 : Int)
/-- finite, normalised, exponent in the int8 range -/
def FinN (d : Dnum) : Prop := WF d ∧ -128 ≤ d.exp ∧ d.exp ≤ 127

theorem tpow_pos (a : Int) : (0 : ℚ) < (10 : ℚ) ^ a := zpow_pos (by norm_num) a

theorem tpow_mono {a b : Int} (h : a ≤ b) : (10 : ℚ) ^ a ≤ (10 : ℚ) ^ b :=
  zpow_le_zpow_right₀ (by norm_num) h

theorem tpow_split (a : Int) (n : Nat) : (10 : ℚ) ^ (a + (n : Int)) = (10 : ℚ) ^ n * (10 : ℚ) ^ a := by
  rw [zpow_add₀ (by norm_num), zpow_natCast, mul_comm]

theorem tpow_split' (a b : Int) (n : Nat) (h : b = a + (n : Int)) :
    (10 : ℚ) ^ b = (10 : ℚ) ^ n * (10 : ℚ) ^ a := by
  rw [h]; exact tpow_split a n

theorem abs_sign_mul (s : Int) (hs : s = 1 ∨ s = -1) (x : ℚ) : |(s : ℚ) * x| = |x| := by
  rcases hs with rfl | rfl <;> simp

theorem val_zero : val zero = 0 := by simp [val, zero]

theorem val_neg (d : Dnum) : val (neg d) = - val d := by
  simp [val, neg]

theorem FinN_neg (d : Dnum) (h : FinN d) : FinN (neg d) := by
  obtain ⟨⟨hs, h1, h2⟩, h3, h4⟩ := h
  refine ⟨⟨?_, h1, h2⟩, h3, h4⟩
  show -d.sign = 1 ∨ -d.sign = -1
  omega

theorem maxFinite_lt : maxFinite < (10 : ℚ) ^ (127 : Int) := by
  have : (10 : ℚ) ^ (127 : Int) = 10000000000000000 * (10 : ℚ) ^ (111 : Int) := by
    rw [tpow_split' 111 127 16 (by norm_num)]; norm_num
  rw [this, maxFinite]
  have := tpow_pos 111
  linarith

/-- `New` rounds correctly (the property's `new_round`): for a finite sign, `0 < c`, `c + 5 < 2^64`
and `e ≥ −128`, with `v = ±c·10^(e−16)` the exact input value:
* infinity only if `|v|` exceeds the largest finite decimal (and with the sign of `v`),
* zero only if `|v|` is below the smallest positive normalised decimal,
* otherwise the result is finite normalised with the same sign and
  `|result − v| ≤ 5/9 ulp` (repeated half-up rounding of 18–20 digit coefficients),
  `≤ 1/2 ulp` when `c` has at most 17 digits, and exact when `c` has at most 16 digits. -/
theorem new_round_q (sign : Int) (c : Nat) (e : Int) (hs : sign = 1 ∨ sign = -1)
    (hc0 : 0 < c) (hc : c + 5 < two64) (he : -128 ≤ e) :
    (isInf (new sign c e) = true →
        new sign c e = inf sign ∧ maxFinite < |(sign : ℚ) * (c : ℚ) * (10 : ℚ) ^ (e - 16)| ∧
        (c + 5 < 10 ^ 17 → (10 : ℚ) ^ (127 : Int) ≤ |(sign : ℚ) * (c : ℚ) * (10 : ℚ) ^ (e - 16)|)) ∧
    (new sign c e = zero → c ≤ coefMax ∧ |(sign : ℚ) * (c : ℚ) * (10 : ℚ) ^ (e - 16)| < minPos) ∧
    (isInf (new sign c e) = false → new sign c e ≠ zero →
        FinN (new sign c e) ∧ (new sign c e).sign = sign ∧
        9 * |val (new sign c e) - (sign : ℚ) * (c : ℚ) * (10 : ℚ) ^ (e - 16)| ≤ 5 * ulp (new sign c e) ∧
        (c < 10 ^ 17 →
          2 * |val (new sign c e) - (sign : ℚ) * (c : ℚ) * (10 : ℚ) ^ (e - 16)| ≤ ulp (new sign c e)) ∧
        (c < 10 ^ 16 → val (new sign c e) = (sign : ℚ) * (c : ℚ) * (10 : ℚ) ^ (e - 16)) ∧
        e - 15 ≤ (new sign c e).exp ∧ (10 ^ 15 ≤ c → e ≤ (new sign c e).exp) ∧
        (c > coefMax → e + 1 ≤ (new sign c e).exp)) := by
  obtain ⟨k, p, c', hkp, hk5, hp15, hc1, hc2, hb1, hb2, hlast, hhalf, hk0, hp0', hnew⟩ :=
    new_spec sign c e hs hc0 hc (by simpa [expMin] using he)
  -- common scale T = 10^(e-p-16)
  have hT := tpow_pos (e - (p : Int) - 16)
  have hv : (sign : ℚ) * (c : ℚ) * (10 : ℚ) ^ (e - 16)
      = (sign : ℚ) * (((c * 10 ^ p : Nat) : ℚ) * (10 : ℚ) ^ (e - (p : Int) - 16)) := by
    rw [tpow_split' (e - (p : Int) - 16) (e - 16) p (by omega)]
    push_cast; ring
  have hK1 : 1 ≤ 10 ^ k := Nat.pow_pos (by decide)
  have hsinf : isInf (inf sign) = true := by rcases hs with rfl | rfl <;> decide
  have hzinf : isInf zero = false := by decide
  have hinfz : inf sign ≠ zero := by rcases hs with rfl | rfl <;> decide
  have habs : |(sign : ℚ) * (c : ℚ) * (10 : ℚ) ^ (e - 16)|
      = ((c * 10 ^ p : Nat) : ℚ) * (10 : ℚ) ^ (e - (p : Int) - 16) := by
    rw [hv, abs_sign_mul sign hs, abs_of_nonneg (by positivity)]
  rw [habs]
  generalize hA : c * 10 ^ p = A at *
  generalize hB : c' * 10 ^ k = B at *
  generalize hK : 10 ^ k = K at *
  have hAB1 : (9 : ℚ) * A + 5 ≤ 9 * B + 5 * K := by
    have : 9 * A + 5 ≤ 9 * B + 5 * K := by omega
    exact_mod_cast this
  have hAB2 : (9 : ℚ) * B + 5 ≤ 9 * A + 5 * K := by
    have : 9 * B + 5 ≤ 9 * A + 5 * K := by omega
    exact_mod_cast this
  have hKpos : (1 : ℚ) ≤ K := by exact_mod_cast hK1
  have hKq : (10 : ℚ) ^ k = (K : ℚ) := by rw [← hK]; push_cast; rfl
  by_cases hu : e + (k : Int) - (p : Int) < expMin
  · -- underflow
    rw [if_pos hu] at hnew
    rw [hnew]
    refine ⟨fun h => by rw [hzinf] at h; exact absurd h (by decide), fun _ => ⟨?_, ?_⟩, fun _ h => absurd rfl h⟩
    · apply hk0.2; simp only [expMin] at hu; omega
    -- A < (c'+1) K ≤ 10^16 K
    have hBK : B ≤ 9999999999999999 * K := by
      rw [← hB, ← hK]; exact Nat.mul_le_mul_right _ (by simpa [coefMax] using hc2)
    have hBKq : (B : ℚ) ≤ 9999999999999999 * K := by exact_mod_cast hBK
    have h1 : (A : ℚ) < 10000000000000000 * K := by linarith
    have h2 : (10 : ℚ) ^ (e + (k : Int) - (p : Int)) = 10000000000000000 * K * (10 : ℚ) ^ (e - (p : Int) - 16) := by
      rw [tpow_split' (e - (p : Int) - 16) (e + (k : Int) - (p : Int)) (16 + k) (by push_cast; omega)]
      rw [pow_add, hKq]; norm_num
    have h3 : (10 : ℚ) ^ (e + (k : Int) - (p : Int)) ≤ minPos := by
      rw [minPos]; apply tpow_mono; simp only [expMin] at hu; omega
    calc (A : ℚ) * (10 : ℚ) ^ (e - (p : Int) - 16)
        < 10000000000000000 * K * (10 : ℚ) ^ (e - (p : Int) - 16) := by
          exact mul_lt_mul_of_pos_right h1 hT
      _ = (10 : ℚ) ^ (e + (k : Int) - (p : Int)) := h2.symm
      _ ≤ minPos := h3
  · rw [if_neg hu] at hnew
    by_cases ho : e + (k : Int) - (p : Int) > expMax
    · -- overflow
      rw [if_pos ho] at hnew
      rw [hnew]
      refine ⟨fun _ => ⟨rfl, ?_⟩, fun h => absurd h hinfz, fun h => by rw [hsinf] at h; exact absurd h (by decide)⟩
      suffices hmain : maxFinite < (A : ℚ) * (10 : ℚ) ^ (e - (p : Int) - 16) ∧
          (c + 5 < 10 ^ 17 → (10 : ℚ) ^ (127 : Int) ≤ (A : ℚ) * (10 : ℚ) ^ (e - (p : Int) - 16)) from hmain
      have hKT : (10 : ℚ) ^ (112 : Int) ≤ K * (10 : ℚ) ^ (e - (p : Int) - 16) := by
        have : (10 : ℚ) ^ (e + (k : Int) - (p : Int) - 16) = K * (10 : ℚ) ^ (e - (p : Int) - 16) := by
          rw [tpow_split' (e - (p : Int) - 16) (e + (k : Int) - (p : Int) - 16) k (by omega), hKq]
        rw [← this]; apply tpow_mono; simp only [expMax] at ho; omega
      have h127 : (10 : ℚ) ^ (127 : Int) = 1000000000000000 * (10 : ℚ) ^ (112 : Int) := by
        rw [tpow_split' 112 127 15 (by norm_num)]; norm_num
      have h111 : (10 : ℚ) ^ (112 : Int) = 10 * (10 : ℚ) ^ (111 : Int) := by
        rw [tpow_split' 111 112 1 (by norm_num)]; norm_num
      have hp111 := tpow_pos 111
      by_cases hkz : k = 0
      · -- no rounding: A = B ≥ 10^15
        subst hkz
        have hK1' : K = 1 := by rw [← hK]; rfl
        have hBA : (10 : ℚ) ^ 15 ≤ A := by
          have : 10 ^ 15 ≤ A := by subst hK1'; omega
          exact_mod_cast this
        have : (10 : ℚ) ^ (112 : Int) ≤ (10 : ℚ) ^ (e - (p : Int) - 16) := by
          rw [hK1'] at hKT; simpa using hKT
        have hge : (10 : ℚ) ^ (127 : Int) ≤ (A : ℚ) * (10 : ℚ) ^ (e - (p : Int) - 16) := by
          calc (10 : ℚ) ^ (127 : Int) = (10 : ℚ) ^ 15 * (10 : ℚ) ^ (112 : Int) := by rw [h127]; norm_num
            _ ≤ (A : ℚ) * (10 : ℚ) ^ (e - (p : Int) - 16) := by
              apply mul_le_mul hBA this (le_of_lt (tpow_pos 112)) (by positivity)
        exact ⟨lt_of_lt_of_le maxFinite_lt hge, fun _ => hge⟩
      · -- rounding: p = 0, 90 c + 5 K ≥ 9·10^16 K + 50
        have hp0 : p = 0 := by omega
        subst hp0
        have hl := hlast (by omega)
        have hAc : A = c := by rw [← hA]; simp
        have hlq : (9 : ℚ) * 10 ^ 16 * K + 50 ≤ 90 * A + 5 * K := by
          have : 9 * 10 ^ 16 * K + 50 ≤ 90 * A + 5 * K := by rw [hAc]; exact hl
          exact_mod_cast this
        -- 90 A T ≥ (9·10^16 − 5) K T ≥ (9·10^16 − 5) 10^112
        have h1 : ((9 : ℚ) * 10 ^ 16 - 5) * (10 : ℚ) ^ (112 : Int) ≤
            90 * ((A : ℚ) * (10 : ℚ) ^ (e - ((0 : Nat) : Int) - 16)) := by
          have hx : ((9 : ℚ) * 10 ^ 16 - 5) * (K * (10 : ℚ) ^ (e - ((0 : Nat) : Int) - 16)) ≤
              90 * ((A : ℚ) * (10 : ℚ) ^ (e - ((0 : Nat) : Int) - 16)) := by
            have : ((9 : ℚ) * 10 ^ 16 - 5) * K ≤ 90 * A := by linarith
            have := mul_le_mul_of_nonneg_right this (le_of_lt hT)
            linarith
          have hy : ((9 : ℚ) * 10 ^ 16 - 5) * (10 : ℚ) ^ (112 : Int) ≤
              ((9 : ℚ) * 10 ^ 16 - 5) * (K * (10 : ℚ) ^ (e - ((0 : Nat) : Int) - 16)) :=
            mul_le_mul_of_nonneg_left hKT (by norm_num)
          linarith
        constructor
        · rw [maxFinite]
          rw [h111] at h1
          norm_num at h1 ⊢
          linarith
        · intro h17
          have hk1 : k = 1 := by
            apply Classical.byContradiction; intro hne
            have : 10 ^ 2 ≤ 10 ^ k := Nat.pow_le_pow_right (by decide) (by omega)
            rw [hK] at this
            omega
          subst hk1
          have hK10 : K = 10 := by rw [← hK]; rfl
          subst hK10
          have hA16 : (10 : ℚ) ^ 16 ≤ A := by
            have : 10 ^ 16 ≤ A := by omega
            exact_mod_cast this
          have hT111 : (10 : ℚ) ^ (111 : Int) ≤ (10 : ℚ) ^ (e - ((0 : Nat) : Int) - 16) := by
            rw [h111] at hKT; push_cast at hKT ⊢; linarith
          calc (10 : ℚ) ^ (127 : Int) = (10 : ℚ) ^ 16 * (10 : ℚ) ^ (111 : Int) := by
                rw [tpow_split' 111 127 16 (by norm_num)]
            _ ≤ (A : ℚ) * (10 : ℚ) ^ (e - ((0 : Nat) : Int) - 16) := by
              apply mul_le_mul hA16 hT111 (le_of_lt (tpow_pos 111)) (by positivity)
    · -- finite
      rw [if_neg ho] at hnew
      rw [hnew]
      refine ⟨fun h => by simp [isInf, signPosInf, signNegInf] at h; omega, fun h => ?_, fun _ _ => ?_⟩
      · exfalso
        simp only [zero, Dnum.mk.injEq] at h
        omega
      · have hvr : val ⟨c', sign, e + (k : Int) - (p : Int)⟩
            = (sign : ℚ) * ((B : ℚ) * (10 : ℚ) ^ (e - (p : Int) - 16)) := by
          simp only [val]
          rw [tpow_split' (e - (p : Int) - 16) (e + (k : Int) - (p : Int) - 16) k (by omega), hKq, ← hB]
          push_cast; ring
        have hul : ulp ⟨c', sign, e + (k : Int) - (p : Int)⟩ = (K : ℚ) * (10 : ℚ) ^ (e - (p : Int) - 16) := by
          simp only [ulp, ulpE]
          rw [tpow_split' (e - (p : Int) - 16) (e + (k : Int) - (p : Int) - 16) k (by omega), hKq]
        have hdiff : |val ⟨c', sign, e + (k : Int) - (p : Int)⟩ -
            (sign : ℚ) * (c : ℚ) * (10 : ℚ) ^ (e - 16)| = |(B : ℚ) - A| * (10 : ℚ) ^ (e - (p : Int) - 16) := by
          rw [hvr, hv, ← mul_sub, abs_sign_mul sign hs, ← sub_mul, abs_mul, abs_of_pos hT]
        rw [hdiff, hul]
        refine ⟨⟨⟨hs, hc1, by simp only [coefMax] at hc2; show c' < 10 ^ 16; omega⟩,
          by simp only [expMin] at hu; show -128 ≤ e + (k : Int) - (p : Int); omega,
          by simp only [expMax] at ho; show e + (k : Int) - (p : Int) ≤ 127; omega⟩, rfl, ?_, ?_, ?_,
          by show e - 15 ≤ e + (k : Int) - (p : Int); omega,
          fun h => by have := hp0' h; show e ≤ e + (k : Int) - (p : Int); omega,
          fun h => by
            have : k ≠ 0 := fun h0 => by have := hk0.2 h0; omega
            show e + 1 ≤ e + (k : Int) - (p : Int); omega⟩
        · have : 9 * |(B : ℚ) - A| ≤ 5 * K := by
            have : |(B : ℚ) - A| ≤ (5 * K - 5) / 9 := by
              rw [abs_le]; constructor <;> linarith
            linarith
          have := mul_le_mul_of_nonneg_right this (le_of_lt hT)
          linarith
        · intro h17
          obtain ⟨g1, g2⟩ := hhalf h17
          have g1q : (2 : ℚ) * A ≤ 2 * B + K := by exact_mod_cast g1
          have g2q : (2 : ℚ) * B ≤ 2 * A + K := by exact_mod_cast g2
          have : 2 * |(B : ℚ) - A| ≤ K := by
            have : |(B : ℚ) - A| ≤ K / 2 := by
              rw [abs_le]; constructor <;> linarith
            linarith
          have := mul_le_mul_of_nonneg_right this (le_of_lt hT)
          linarith
        · intro h16
          have hk : k = 0 := hk0.1 (by simp only [coefMax]; omega)
          subst hk
          have hK1' : K = 1 := by rw [← hK]; rfl
          subst hK1'
          have : A = B := by omega
          rw [hvr, hv, this]

end Gsu.Dnum
