/-
C39 (ranges), tree form, part 4: `Insert` into the tree form when the routed leaf has room
(`insertTail_big`): the choice of the `prev` pointer (`iter.prev` crossing into the previous leaf
never moves it, by the separator bound), the loop, invariant + coverage + count of the result.
Core-only.
-/
import Gsu.Proofs.RangesTree3
namespace Gsu.Ranges
open Gsu.Ordset (Key insertAt)

theorem get_mem_live (l : Leaf) (j : Nat) (hj : j < l.size) (hle : l.size ≤ l.slots.length) :
    l.get j ∈ l.live := by
  have hj' : j < l.live.length := by simp only [Leaf.live, List.length_take]; omega
  rw [get_eq_live l j hj, List.getElem?_eq_getElem hj', Option.getD_some]
  exact List.getElem_mem _

/-- the new slot is the first of its leaf: `prev()` leaves the leaf (or is eof) and the slot
found there ends below `f`, so `prev` stays the new slot -/
theorem pp_first (P : Params) (pre post : Tree) (X : TSlot) (f : Key)
    (hpre : ∀ a ∈ pre, a.leaf.size ≤ a.leaf.slots.length ∧ ∀ x ∈ a.leaf.live, x.to < f) :
    choosePP P (.big (pre ++ X :: post)) ⟨pre.length, 0⟩ f = ⟨pre.length, 0⟩ := by
  unfold choosePP
  rcases List.eq_nil_or_concat pre with rfl | ⟨pre', a, rfl⟩
  · simp [Ranges.prev, Ranges.isTree]
  · rw [List.concat_eq_append] at hpre ⊢
    have hla : Ranges.leafAt P (.big (pre' ++ [a] ++ X :: post)) pre'.length = a.leaf := by
      have : pre' ++ [a] ++ X :: post = pre' ++ a :: (X :: post) := by simp
      rw [this]; exact leafAt_mid P pre' a _
    have hl : (pre' ++ [a]).length - 1 = pre'.length := by simp
    simp only [Ranges.prev, Nat.lt_irrefl, ↓reduceIte, Ranges.isTree, Bool.not_true, Bool.false_eq_true, hl, hla]
    have hne : ¬ ((pre' ++ [a]).length = 0) := by simp
    simp only [hne, ↓reduceIte]
    by_cases hsz : a.leaf.size = 0
    · simp only [hsz, ↓reduceIte]
    · simp only [hsz, ↓reduceIte]
      have hm := get_mem_live a.leaf (a.leaf.size - 1) (by omega) (hpre a (by simp)).1
      have hlt := (hpre a (by simp)).2 _ hm
      have : (Ranges.cur P (.big (pre' ++ [a] ++ X :: post)) ⟨pre'.length, a.leaf.size - 1⟩).to < f := by
        simp only [Ranges.cur, hla]; exact hlt
      simp only [this, decide_true, Bool.or_true, ↓reduceIte]

/-- the new slot has a predecessor `z` in its leaf: `prev` becomes `z` iff `z` reaches `f` -/
theorem pp_inner (P : Params) (pre post : Tree) (X : TSlot) (A' : List Slot) (z q : Slot)
    (B S : List Slot) (f : Key) (hX : X.leaf = midLeaf (A' ++ [z]) q B S) :
    choosePP P (.big (pre ++ X :: post)) ⟨pre.length, A'.length + 1⟩ f =
      if z.to < f then ⟨pre.length, A'.length + 1⟩ else ⟨pre.length, A'.length⟩ := by
  unfold choosePP
  have harr : A' ++ [z] ++ q :: (B ++ S) = A' ++ z :: (q :: (B ++ S)) := by simp
  have heof : Ranges.eof P (.big (pre ++ X :: post)) ⟨pre.length, A'.length⟩ = false := by
    simp [Ranges.eof, Ranges.nLeaves, Ranges.leafAt, leafAt_mid, hX, midLeaf]; omega
  have hcur : Ranges.cur P (.big (pre ++ X :: post)) ⟨pre.length, A'.length⟩ = z := by
    simp only [Ranges.cur, Ranges.leafAt, leafAt_mid, hX, midLeaf, Leaf.get, harr, get_mid0, Option.getD_some]
  simp only [Ranges.prev, Nat.zero_lt_succ, ↓reduceIte, Nat.add_sub_cancel, heof, hcur, Bool.false_or,
    decide_eq_true_eq]

theorem coalesceL_frm (p : Slot) (B : List Slot) (hle : ∀ b ∈ B, p.frm ≤ b.frm) :
    (coalesceL p B).1.frm = p.frm := by
  induction B generalizing p with
  | nil => rfl
  | cons n B ih =>
    rw [coalesceL_cons]
    have hm : kmin p.frm n.frm = p.frm := by
      have := hle n List.mem_cons_self
      simp only [kmin]; split <;> grind
    split
    · rw [ih _ (by intro b hb; show kmin p.frm n.frm ≤ b.frm; rw [hm]; exact hle b (List.mem_cons_of_mem _ hb))]
      exact hm
    · rfl

theorem midLeaf_shift (A' : List Slot) (z q : Slot) (B S : List Slot) :
    midLeaf (A' ++ [z]) q B S = midLeaf A' z (q :: B) S := by
  simp only [midLeaf, List.length_append, List.length_cons, List.length_nil, List.append_assoc,
    List.cons_append, List.nil_append, Leaf.mk.injEq, true_and]
  omega

theorem mid_before {P : Params} {pre post : Tree} {s : TSlot} (h : TreeOK P (pre ++ s :: post)) :
    (∀ a ∈ pre, Before a s) ∧ (∀ b ∈ post, Before s b) := by
  have hord := h.ordered
  rw [List.pairwise_append, List.pairwise_cons] at hord
  exact ⟨fun a ha => hord.2.2 a ha s List.mem_cons_self, hord.2.1.1⟩

/-- `Insert` into the tree form, the routed leaf `s` having room: invariant, coverage, count -/
theorem insertTail_big (P : Params) (pre post : Tree) (s : TSlot) (f t : Key) (hft : f ≤ t)
    (h : TreeOK P (pre ++ s :: post)) (hk1 : s.val ≤ f) (hk2 : ∀ b ∈ post, f < b.val)
    (hroom : s.leaf.size < P.nodeSize) :
    ∃ t' n, insertTail P (.big (pre ++ s :: post)) pre.length f t = (.big t', .inc n) ∧
      TreeOK P t' ∧
      (∀ v, covL (tflat t') v ↔ (covL (tflat (pre ++ s :: post)) v ∨ (f ≤ v ∧ v ≤ t))) ∧
      ((Ranges.count (.big t') : Nat) : Int) = ((Ranges.count (.big (pre ++ s :: post)) : Nat) : Int) + n ∧
      t'.length ≤ (pre ++ s :: post).length ∧ n ≤ 1 := by
  have h' := treeOK'_of_treeOK h
  obtain ⟨d1, d2, d3, d4, d5, d6, d7⟩ := disassemble_ok h'
  obtain ⟨hb1, hb2⟩ := mid_before h
  have hS := h.slots s (by simp)
  obtain ⟨h1, h2, h3⟩ := leaf_search_spec hS.leaf f
  have hlen := live_length hS.leaf
  have hflat : tflat (pre ++ s :: post) = tflat pre ++ (s.leaf.live ++ tflat post) := by
    rw [tflat_append, tflat_cons]
  by_cases hc : ((decide (s.leaf.search f < s.leaf.size) && (s.leaf.get (s.leaf.search f)).contains f t) ||
      (decide (s.leaf.search f > 0) && (s.leaf.get (s.leaf.search f - 1)).contains f t)) = true
  · -- Existed
    refine ⟨pre ++ s :: post, 0, ?_, h, ?_, by simp, Nat.le_refl _, by omega⟩
    · simp only [insertTail, Ranges.leafAt, leafAt_mid, leaf_insert_existing_eq P s.leaf f t hc]
    · obtain ⟨_, x, hx, hx1, hx2⟩ := leaf_insert_existing hS.leaf f t
        (by rw [leaf_insert_existing_eq P s.leaf f t hc])
      intro v
      constructor
      · exact Or.inl
      · rintro (hv | hv)
        · exact hv
        · refine ⟨x, ?_, by simp only [Slot.covers]; grind⟩
          rw [hflat]; simp [hx]
  · have hc' := Bool.eq_false_iff.mpr hc
    have hins := leaf_insert_at_eq P s.leaf f t hroom hc'
    have hS0 : s.leaf.slots.drop s.leaf.size ≠ [] := by
      intro h0
      have := congrArg List.length h0
      simp only [List.length_drop, hS.leaf.len, List.length_nil] at this
      omega
    have hL1 : (s.leaf.live.take (s.leaf.search f)).length = s.leaf.search f := by
      rw [List.length_take]; omega
    have hL2 : (s.leaf.live.drop (s.leaf.search f)).length = s.leaf.size - s.leaf.search f := by
      rw [List.length_drop]; omega
    have hslots : s.leaf.slots = s.leaf.live.take (s.leaf.search f) ++
        (s.leaf.live.drop (s.leaf.search f) ++ s.leaf.slots.drop s.leaf.size) := by
      rw [← List.append_assoc, List.take_append_drop]
      exact (List.take_append_drop s.leaf.size s.leaf.slots).symm
    have hshape : insertAt P.nodeSize s.leaf.slots (s.leaf.search f) ⟨f, t⟩ =
        s.leaf.live.take (s.leaf.search f) ++ ⟨f, t⟩ ::
          (s.leaf.live.drop (s.leaf.search f) ++ (s.leaf.slots.drop s.leaf.size).dropLast) := by
      have hsh := insertAt_shape P.nodeSize (s.leaf.live.take (s.leaf.search f))
        (s.leaf.live.drop (s.leaf.search f)) (s.leaf.slots.drop s.leaf.size) (⟨f, t⟩ : Slot)
        (by rw [← hslots]; exact hS.leaf.len) hS0
      rw [hL1, ← hslots] at hsh
      exact hsh
    have hSlen : ((s.leaf.slots.drop s.leaf.size).dropLast).length = P.nodeSize - s.leaf.size - 1 := by
      simp only [List.length_dropLast, List.length_drop, hS.leaf.len]
    have hleaf' : (Leaf.mk (insertAt P.nodeSize s.leaf.slots (s.leaf.search f) ⟨f, t⟩) (s.leaf.size + 1)) =
        midLeaf (s.leaf.live.take (s.leaf.search f)) ⟨f, t⟩ (s.leaf.live.drop (s.leaf.search f))
          (s.leaf.slots.drop s.leaf.size).dropLast := by
      simp only [midLeaf, hshape, Leaf.mk.injEq, true_and, hL1, hL2]; omega
    have hlive : s.leaf.live = s.leaf.live.take (s.leaf.search f) ++ s.leaf.live.drop (s.leaf.search f) :=
      (List.take_append_drop _ _).symm
    rw [hleaf'] at hins
    rw [insertTail_at P _ _ f t _ _ (by simpa only [Ranges.leafAt, leafAt_mid] using hins)]
    simp only [Ranges.setLeaf, setLeaf_mid]
    rw [hflat]
    clear hins hshape hslots hc hc' hS0 hleaf'
    generalize (s.leaf.slots.drop s.leaf.size).dropLast = Sd at *
    generalize hi : s.leaf.search f = i at *
    generalize s.leaf.live.take i = L1 at *
    generalize s.leaf.live.drop i = L2 at *
    rw [hlive] at d7 ⊢
    have hcount0 : Ranges.count (.big (pre ++ s :: post)) = (tflat pre).length + (L1.length + L2.length) +
        (tflat post).length := by
      rw [count_tflat h'.shape, hflat, hlive]
      simp only [List.length_append]; omega
    have hszs : s.leaf.size = L1.length + L2.length := by omega
    have hlenT : pre.length + 1 + post.length ≤ P.nodeSize := by
      have := h.len; simp only [List.length_append, List.length_cons] at this; omega
    have hfirst1 : pre = [] → s.val = [] := by
      intro hp; subst hp; exact d1 s rfl
    have hfirst2 : ∀ a, pre.head? = some a → a.val = [] := by
      intro a ha
      apply d1 a
      cases pre with
      | nil => cases ha
      | cons b pre' => simpa using ha
    have hpostge : ∀ x ∈ tflat post, f ≤ x.frm := by
      intro x hx
      obtain ⟨b, hb, hxb⟩ := mem_tflat.mp hx
      have := (h.slots b (by simp [hb])).lower x hxb
      have := hk2 b hb
      grind
    have hprelt : ∀ x ∈ tflat pre, x.to < f := by
      intro x hx
      obtain ⟨a, ha, hxa⟩ := mem_tflat.mp hx
      have := (hb1 a ha).2 x hxa
      grind
    have hds0 : DisjSorted ((tflat pre ++ L1) ++ (L2 ++ tflat post)) := by
      simpa using d7
    have hcount2 : ∀ (A B : List Slot) (p : Slot),
        Ranges.count (.big (pre ++ ⟨s.val, midLeaf A p B Sd⟩ :: post)) =
          (tflat pre).length + (A.length + 1 + B.length) + (tflat post).length := by
      intro A B p
      rw [count_big_mid, count_tflat d2, count_tflat (fun s hs => (d6 s hs).1)]
      rfl
    -- assemble the result from a decomposition `A ++ p :: (B ++ Sd)` of the array
    have fin : ∀ (A B : List Slot) (p : Slot) (fuel : Nat), B.length + (tflat post).length < fuel →
        (A ++ p :: (B ++ Sd)).length = P.nodeSize → A.length + B.length = L1.length + L2.length →
        (pre ≠ [] → ∃ x rest, A ++ [p] = x :: rest ∧ s.val = x.frm) →
        (coalesceL p (B ++ tflat post)).1.frm = p.frm →
        (DisjSorted ((tflat pre ++ A) ++ (coalesceL p (B ++ tflat post)).1 :: (coalesceL p (B ++ tflat post)).2) ∧
          ∀ v, covL ((tflat pre ++ A) ++ (coalesceL p (B ++ tflat post)).1 :: (coalesceL p (B ++ tflat post)).2) v ↔
            (covL ((tflat pre ++ L1) ++ (L2 ++ tflat post)) v ∨ (f ≤ v ∧ v ≤ t))) →
        ∃ t' n,
          ((Ranges.coalesce P fuel (.big (pre ++ ⟨s.val, midLeaf A p B Sd⟩ :: post))
              ⟨pre.length, A.length⟩ (itPos pre A B) 1).1,
            Res.inc (Ranges.coalesce P fuel (.big (pre ++ ⟨s.val, midLeaf A p B Sd⟩ :: post))
              ⟨pre.length, A.length⟩ (itPos pre A B) 1).2) = (Ranges.big t', Res.inc n) ∧
          TreeOK P t' ∧
          (∀ v, covL (tflat t') v ↔ (covL (tflat pre ++ (L1 ++ L2 ++ tflat post)) v ∨ (f ≤ v ∧ v ≤ t))) ∧
          ((Ranges.count (.big t') : Nat) : Int) = ((Ranges.count (.big (pre ++ s :: post)) : Nat) : Int) + n ∧
          t'.length ≤ (pre ++ s :: post).length ∧ n ≤ 1 := by
      intro A B p fuel hfuel hlenX hAB hsepX hfrm hres
      obtain ⟨t', n, e1, e2, e3, e4, e5⟩ := finish_big P pre post s.val A p B Sd fuel hfuel hlenT hfirst1
        hfirst2 d2 d3 hlenX hsepX d6 hfrm (by simpa using hres.1)
      refine ⟨t', n, by rw [e1], treeOK_of_treeOK' e2, ?_, ?_, ?_, ?_⟩
      · intro v
        rw [e3]
        have := hres.2 v
        simpa using this
      · rw [count_tflat e2.shape, e3, hcount0, e4]
        simp only [List.length_append, List.length_cons]
        omega
      · simp only [List.length_append, List.length_cons]; omega
      · have := coalesceL_length p (B ++ tflat post)
        rw [e4]
        simp only [List.length_append] at this ⊢
        omega
    have hlenArr : (L1 ++ ⟨f, t⟩ :: (L2 ++ Sd)).length = P.nodeSize := by
      simp only [List.length_append, List.length_cons, hSlen]; omega
    rcases List.eq_nil_or_concat L1 with rfl | ⟨L1', z, hz⟩
    · -- the new slot is the first of its leaf
      have hi0 : i = 0 := by simpa using hL1.symm
      subst hi0
      rw [pp_first P pre post _ f (fun a ha => ⟨by have := d2 a ha; rw [this.len]; exact this.sz,
        fun x hx => hprelt x (mem_tflat.mpr ⟨a, ha, hx⟩)⟩)]
      have := next_mid P pre post s.val [] ⟨f, t⟩ L2 Sd
      simp only [List.length_nil] at this
      rw [this]
      refine fin [] L2 ⟨f, t⟩ _ (by rw [hcount2]; simp only [List.length_nil]; omega) hlenArr rfl ?_
        (coalesceL_frm _ _ (by
          intro b hb
          rcases List.mem_append.mp hb with hb | hb
          · exact h3 b hb
          · exact hpostge b hb))
        (list_insert_here (tflat pre ++ []) (L2 ++ tflat post) f t hft hds0
          (by
            intro b hb
            rcases List.mem_append.mp hb with hb | hb
            · exact h3 b hb
            · exact hpostge b hb)
          (by simpa using hprelt))
      intro hne
      obtain ⟨x, rest, hx, hv⟩ := d5 hne
      rw [hlive] at hx
      simp only [List.nil_append] at hx
      refine ⟨⟨f, t⟩, [], rfl, ?_⟩
      have := h3 x (by rw [hx]; exact List.mem_cons_self)
      show s.val = f
      grind
    · rw [List.concat_eq_append] at hz; subst hz
      have hiL : i = L1'.length + 1 := by simpa using hL1.symm
      subst hiL
      rw [pp_inner P pre post _ L1' z ⟨f, t⟩ L2 Sd f rfl]
      have hge : ∀ b ∈ L2 ++ tflat post, f ≤ b.frm := by
        intro b hb
        rcases List.mem_append.mp hb with hb | hb
        · exact h3 b hb
        · exact hpostge b hb
      have hhead : pre ≠ [] → ∃ x rest, L1' ++ [z] = x :: rest ∧ s.val = x.frm := by
        intro hne
        obtain ⟨x, rest, hx, hv⟩ := d5 hne
        rw [hlive] at hx
        cases L1' with
        | nil =>
          simp only [List.nil_append, List.cons_append, List.cons.injEq] at hx
          exact ⟨z, [], rfl, by rw [hv, hx.1]⟩
        | cons a A' =>
          simp only [List.cons_append, List.cons.injEq] at hx
          exact ⟨a, A' ++ [z], rfl, by rw [hv, hx.1]⟩
      have e : L1'.length + 1 = (L1' ++ [z]).length := by simp
      by_cases hzt : z.to < f
      · simp only [hzt, ↓reduceIte]
        rw [e, next_mid]
        refine fin (L1' ++ [z]) L2 ⟨f, t⟩ _ (by rw [hcount2]; omega) hlenArr rfl ?_
          (coalesceL_frm _ _ hge) (list_insert_here (tflat pre ++ (L1' ++ [z])) (L2 ++ tflat post) f t hft hds0 hge ?_)
        · intro hne
          obtain ⟨x, rest, hx, hv⟩ := hhead hne
          exact ⟨x, rest ++ [⟨f, t⟩], by rw [hx]; rfl, hv⟩
        · -- every slot before ends below f
          intro a ha
          rcases List.mem_append.mp ha with ha | ha
          · exact hprelt a ha
          · rcases List.mem_append.mp ha with ha | ha
            · have := hds0.left.right.sep
              rw [List.pairwise_append] at this
              have := this.2.2 a ha z (by simp)
              have := hds0.wf z (by simp)
              grind
            · simp at ha; subst ha; exact hzt
      · simp only [hzt, ↓reduceIte]
        rw [midLeaf_shift, next_mid]
        have hds' : DisjSorted ((tflat pre ++ L1') ++ z :: (L2 ++ tflat post)) := by
          simpa using hds0
        obtain ⟨r1, r2⟩ := list_insert_prev (tflat pre ++ L1') z (L2 ++ tflat post) f t hft hds'
          (h2 z (by simp)) hge hzt
        refine fin L1' (⟨f, t⟩ :: L2) z _ (by rw [hcount2]; simp only [List.length_cons]; omega)
          (by simpa using hlenArr) (by simp only [List.length_append, List.length_cons, List.length_nil]; omega)
          hhead ?_ ⟨r1, fun v => by
            have hl : tflat pre ++ (L1' ++ [z]) ++ (L2 ++ tflat post) =
                tflat pre ++ L1' ++ z :: (L2 ++ tflat post) := by simp
            rw [hl]; exact r2 v⟩
        have ho : overlap z ⟨f, t⟩ = true := by
          have := h2 z (by simp)
          simp only [overlap, Bool.and_eq_true, decide_eq_true_eq]; grind
        rw [List.cons_append, coalesceL_cons, if_pos ho]
        have hm : kmin z.frm f = z.frm := by
          have := h2 z (by simp)
          simp only [kmin]; split <;> grind
        rw [coalesceL_frm _ _ (by
          intro b hb
          show kmin z.frm f ≤ b.frm
          rw [hm]
          have := hge b hb
          have := h2 z (by simp)
          grind)]
        exact hm

end Gsu.Ranges
