/-
C27: integer-level specifications of `align`, `add'`, `add`, `mul`, `div` on finite normalised
operands (what is handed to `New`). Core-only.
-/
import Gsu.Proofs.Dnum2
namespace Gsu.Dnum

theorem ilog10_wf (c : Nat) (h1 : 10 ^ 15 ≤ c) (h2 : c < 10 ^ 16) : ilog10 c = 15 := by
  have hk := ilog10_lt16 c (by omega) h2
  obtain ⟨_, s2⟩ := ilog10_spec c (by omega) (by omega)
  have : ¬ ilog10 c ≤ 14 := by
    intro h14
    have : 10 ^ (ilog10 c + 1) ≤ 10 ^ 15 := Nat.pow_le_pow_right (by decide) (by omega)
    omega
  omega

/-- `align`: the smaller operand is negligible when the exponents differ by more than 15,
otherwise its coefficient is rounded half-up to the larger operand's last digit -/
theorem align_spec (x y : Dnum) (hy : WF y) (he : y.exp ≤ x.exp) :
    (x.exp - y.exp > 15 ∧ align x y = none) ∨
    (x.exp - y.exp ≤ 15 ∧ ∃ yc' : Nat, align x y = some yc' ∧ yc' < 10 ^ 16 ∧
      2 * (yc' * 10 ^ (x.exp - y.exp).toNat) ≤ 2 * y.coef + 10 ^ (x.exp - y.exp).toNat ∧
      2 * y.coef ≤ 2 * (yc' * 10 ^ (x.exp - y.exp).toNat) + 10 ^ (x.exp - y.exp).toNat ∧
      (x.exp = y.exp → yc' = y.coef)) := by
  obtain ⟨_, b1, b2⟩ := hy
  by_cases heq : x.exp = y.exp
  · right
    refine ⟨by omega, y.coef, by simp [align, heq], b2, ?_, ?_, fun _ => rfl⟩
    · rw [heq]; simp
    · rw [heq]; simp
  · have hil := ilog10_wf y.coef b1 b2
    by_cases hbig : x.exp - y.exp > 15
    · left
      refine ⟨hbig, ?_⟩
      simp only [align, heq, if_false, hil]
      rw [if_pos (by omega)]
    · right
      refine ⟨by omega, (y.coef + halfpow10 (x.exp - y.exp).toNat) / pow10 (x.exp - y.exp).toNat, ?_, ?_, ?_, ?_, fun h => absurd h heq⟩
      · simp only [align, heq, if_false, hil]
        rw [if_neg (by omega)]
      all_goals
        have h1 : 1 ≤ (x.exp - y.exp).toNat := by omega
        have h2 : (x.exp - y.exp).toNat ≤ 15 := by omega
        obtain ⟨hP, hh⟩ := halfpow10_spec (x.exp - y.exp).toNat h1 (by omega)
        have hp : pow10 (x.exp - y.exp).toNat = 10 ^ (x.exp - y.exp).toNat := by
          simp only [pow10]; rw [if_pos (by omega)]
        obtain ⟨r1, r2⟩ := round_half y.coef _ _ hP hh
        rw [hp] at hP r1 r2 ⊢
        have hP10 : 10 ^ 1 ≤ 10 ^ (x.exp - y.exp).toNat := Nat.pow_le_pow_right (by decide) h1
        have hP15 : 10 ^ (x.exp - y.exp).toNat ≤ 10 ^ 15 := Nat.pow_le_pow_right (by decide) h2
        generalize 10 ^ (x.exp - y.exp).toNat = P at *
        generalize halfpow10 (x.exp - y.exp).toNat = h at *
      · have : (y.coef + h) / P ≤ (y.coef + h) / 10 := Nat.div_le_div_left (by omega) (by decide)
        omega
      · generalize (y.coef + h) / P * P = Q at *
        omega
      · generalize (y.coef + h) / P * P = Q at *
        omega

/-- unexported `add` (x.exp ≥ y.exp): either y is negligible, or the result is `New` of the exact
signed integer sum of `x.coef` and the aligned `y` coefficient -/
theorem add'_spec (x y : Dnum) (hx : WF x) (hy : WF y) (he : y.exp ≤ x.exp) :
    (x.exp - y.exp > 15 ∧ add' x y = x) ∨
    (x.exp - y.exp ≤ 15 ∧ ∃ (sg : Int) (n yc' : Nat), (sg = 1 ∨ sg = -1) ∧ n + 5 < 10 ^ 17 ∧
      sg * (n : Int) = x.sign * (x.coef : Int) + y.sign * (yc' : Int) ∧
      2 * (yc' * 10 ^ (x.exp - y.exp).toNat) ≤ 2 * y.coef + 10 ^ (x.exp - y.exp).toNat ∧
      2 * y.coef ≤ 2 * (yc' * 10 ^ (x.exp - y.exp).toNat) + 10 ^ (x.exp - y.exp).toNat ∧
      (x.exp = y.exp → yc' = y.coef) ∧
      add' x y = new sg n x.exp) := by
  rcases align_spec x y hy he with ⟨h1, h2⟩ | ⟨h1, yc', h2, h3, h4, h5, h6⟩
  · left; exact ⟨h1, by simp [add', h2]⟩
  · right
    refine ⟨h1, ?_⟩
    obtain ⟨hsx, a1, a2⟩ := hx
    obtain ⟨hsy, _, _⟩ := hy
    simp only [add', h2]
    by_cases hss : x.sign = y.sign
    · refine ⟨x.sign, x.coef + yc', yc', hsx, by omega, ?_, h4, h5, h6, by simp [hss]⟩
      rw [← hss]; rcases hsx with h | h <;> rw [h] <;> omega
    · by_cases hlt : x.coef < yc'
      · refine ⟨-x.sign, yc' - x.coef, yc', by omega, by omega, ?_, h4, h5, h6, by simp [hss, hlt]⟩
        rcases hsx with h | h <;> rcases hsy with h' | h' <;> simp only [h, h'] at hss ⊢ <;>
          first | exact absurd trivial hss | omega
      · refine ⟨x.sign, x.coef - yc', yc', hsx, by omega, ?_, h4, h5, h6, by simp [hss, hlt]⟩
        rcases hsx with h | h <;> rcases hsy with h' | h' <;> simp only [h, h'] at hss ⊢ <;>
          first | exact absurd trivial hss | omega

/-- `Add` on finite non-zero operands is `add'` with the operand of larger exponent first -/
theorem add_finite (x y : Dnum) (hx : WF x) (hy : WF y) :
    add x y = if x.exp < y.exp then add' y x else add' x y := by
  obtain ⟨hsx, _, _⟩ := hx
  obtain ⟨hsy, _, _⟩ := hy
  have h1 : ¬ x.sign = signZero := by simp only [signZero]; omega
  have h2 : ¬ y.sign = signZero := by simp only [signZero]; omega
  have h3 : isInf x = false := by
    simp only [isInf, signPosInf, signNegInf]; rcases hsx with h | h <;> rw [h] <;> decide
  have h4 : isInf y = false := by
    simp only [isInf, signPosInf, signNegInf]; rcases hsy with h | h <;> rw [h] <;> decide
  simp [add, h1, h2, h3, h4]

/-- the coefficient `Mul` hands to `New` has 17 or 18 digits -/
theorem mulCoef_range (xc yc : Nat) (hx1 : 10 ^ 15 ≤ xc) (hx2 : xc < 10 ^ 16)
    (hy1 : 10 ^ 15 ≤ yc) (hy2 : yc < 10 ^ 16) :
    10 ^ 16 ≤ mulCoef xc yc ∧ mulCoef xc yc < 10 ^ 18 := by
  obtain ⟨t1, t2⟩ := mul_trunc xc yc
  have hlt : xc * yc < 10 ^ 16 * 10 ^ 16 := Nat.mul_lt_mul'' hx2 hy2
  constructor
  · have hxh : 10 ^ 8 ≤ xc / e7 := by simp only [e7]; omega
    have hyh : 10 ^ 8 ≤ yc / e7 := by simp only [e7]; omega
    have : 10 ^ 8 * 10 ^ 8 ≤ xc / e7 * (yc / e7) := Nat.mul_le_mul hxh hyh
    clear t1 t2
    simp only [mulCoef]
    generalize xc / e7 * (yc / e7) = A at *
    by_cases hz : xc % e7 ≠ 0 ∨ yc % e7 ≠ 0
    · simp only [hz, if_true]
      generalize (xc % e7 * (yc / e7) + yc % e7 * (xc / e7)) / e7 = G
      omega
    · simp only [hz, if_false]; omega
  · omega

theorem mul_finite (x y : Dnum) (hx : WF x) (hy : WF y) :
    mul x y = new (x.sign * y.sign) (mulCoef x.coef y.coef) (x.exp + y.exp - 2) := by
  obtain ⟨hsx, _, _⟩ := hx
  obtain ⟨hsy, _, _⟩ := hy
  have h3 : isInf x = false := by
    simp only [isInf, signPosInf, signNegInf]; rcases hsx with h | h <;> rw [h] <;> decide
  have h4 : isInf y = false := by
    simp only [isInf, signPosInf, signNegInf]; rcases hsy with h | h <;> rw [h] <;> decide
  have h0 : x.sign * y.sign ≠ 0 := by
    rcases hsx with h | h <;> rcases hsy with h' | h' <;> rw [h, h'] <;> decide
  simp [mul, mulCoef, h0, h3, h4, signZero]

/-- the coefficient `Div` hands to `New` has 16 or 17 digits -/
theorem div128_range (xc yc : Nat) (hx1 : 10 ^ 15 ≤ xc) (hx2 : xc < 10 ^ 16)
    (hy1 : 10 ^ 15 ≤ yc) (hy2 : yc < 10 ^ 16) :
    10 ^ 15 ≤ div128 xc yc ∧ div128 xc yc < 10 ^ 17 := by
  obtain ⟨t1, t2⟩ := div_floor xc yc (by omega)
  constructor
  · apply Nat.le_of_not_lt; intro h
    have h' : div128 xc yc + 1 ≤ 10 ^ 15 := by omega
    have := Nat.mul_le_mul_right yc h'
    have h3 : 10 ^ 15 * yc ≤ 10 ^ 15 * 10 ^ 16 := Nat.mul_le_mul_left _ (by omega)
    have h4 : 10 ^ 16 * 10 ^ 15 ≤ 10 ^ 16 * xc := Nat.mul_le_mul_left _ hx1
    omega
  · apply Nat.lt_of_not_le; intro h
    have := Nat.mul_le_mul_right yc h
    have h3 : 10 ^ 17 * 10 ^ 15 ≤ 10 ^ 17 * yc := Nat.mul_le_mul_left _ hy1
    have h4 : 10 ^ 16 * xc < 10 ^ 16 * 10 ^ 16 := (Nat.mul_lt_mul_left (by decide)).2 hx2
    omega

theorem div_finite (x y : Dnum) (hx : WF x) (hy : WF y) :
    div x y = new (x.sign * y.sign) (div128 x.coef y.coef) (x.exp - y.exp) := by
  obtain ⟨hsx, _, _⟩ := hx
  obtain ⟨hsy, _, _⟩ := hy
  have h1 : ¬ x.sign = signZero := by simp only [signZero]; omega
  have h2 : ¬ y.sign = signZero := by simp only [signZero]; omega
  have h3 : isInf x = false := by
    simp only [isInf, signPosInf, signNegInf]; rcases hsx with h | h <;> rw [h] <;> decide
  have h4 : isInf y = false := by
    simp only [isInf, signPosInf, signNegInf]; rcases hsy with h | h <;> rw [h] <;> decide
  simp [div, h1, h2, h3, h4]

end Gsu.Dnum
