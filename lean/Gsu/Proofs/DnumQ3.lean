/-
C27: Mul and Div on the exact rational values (one unit of the 16th digit of the result).
-/
import Gsu.Proofs.DnumQ2
namespace Gsu.Dnum

theorem ulpE_succ (a : Int) : ulpE (a + 1) = 10 * ulpE a := by
  unfold ulpE; rw [tpow_split' (a - 16) (a + 1 - 16) 1 (by omega)]; norm_num

theorem new_below (sign : Int) (c : Nat) (e : Int) (h : e < expMin) : new sign c e = zero := by
  simp [new, h]

theorem sign_mul (a b : Int) (ha : a = 1 ∨ a = -1) (hb : b = 1 ∨ b = -1) : a * b = 1 ∨ a * b = -1 := by
  rcases ha with h | h <;> rcases hb with h' | h' <;> rw [h, h'] <;> decide

/-- the sign dichotomy used for the overflow clauses -/
theorem signed_gt (sg : Int) (hsg : sg = 1 ∨ sg = -1) (m a : ℚ) (_ha : 0 ≤ a) (h : m < a) :
    (inf sg = posInf ∧ m < (sg : ℚ) * a) ∨ (inf sg = negInf ∧ (sg : ℚ) * a < -m) := by
  rcases hsg with rfl | rfl
  · left; exact ⟨rfl, by push_cast; linarith⟩
  · right; exact ⟨rfl, by push_cast; linarith⟩

/-- `Mul` on finite normalised operands: within one unit of the 16th digit of the result
(truncated 9/7 product + rounding of `New`); overflow only beyond the largest finite decimal.
Zero is returned whenever `x.exp + y.exp − 2 < −128`, i.e. only for `|x·y| < 10^−127`
(this is two decades above the smallest normalised decimal: premature underflow, see
`mul_premature_underflow_counter`). -/
theorem mul_ulp_q (x y : Dnum) (hx : FinN x) (hy : FinN y) :
    (isInf (mul x y) = true →
        (mul x y = posInf ∧ maxFinite < val x * val y) ∨
        (mul x y = negInf ∧ val x * val y < -maxFinite)) ∧
    (mul x y = zero → |val x * val y| < (10 : ℚ) ^ (-127 : Int)) ∧
    (isInf (mul x y) = false → mul x y ≠ zero →
        FinN (mul x y) ∧ |val (mul x y) - val x * val y| ≤ ulp (mul x y)) := by
  obtain ⟨hwx, hx1, hx2⟩ := hx
  obtain ⟨hwy, hy1, hy2⟩ := hy
  rw [mul_finite x y hwx hwy]
  have hsg := sign_mul x.sign y.sign hwx.1 hwy.1
  obtain ⟨m1, m2⟩ := mulCoef_range x.coef y.coef hwx.2.1 hwx.2.2 hwy.2.1 hwy.2.2
  obtain ⟨t1, t2⟩ := mul_trunc x.coef y.coef
  generalize mulCoef x.coef y.coef = mc at *
  generalize hsgd : x.sign * y.sign = sg at *
  have ht := tpow_pos (x.exp + y.exp - 32)
  have hp : val x * val y = (sg : ℚ) * (((x.coef * y.coef : Nat) : ℚ) * (10 : ℚ) ^ (x.exp + y.exp - 32)) := by
    have : (10 : ℚ) ^ (x.exp + y.exp - 32) = (10 : ℚ) ^ (x.exp - 16) * (10 : ℚ) ^ (y.exp - 16) := by
      rw [← zpow_add₀ (by norm_num)]; congr 1; omega
    rw [this, ← hsgd]; unfold val; push_cast; ring
  have hP32 : x.coef * y.coef < 10 ^ 16 * 10 ^ 16 := Nat.mul_lt_mul'' hwx.2.2 hwy.2.2
  generalize x.coef * y.coef = P at *
  have hpabs : |val x * val y| = (P : ℚ) * (10 : ℚ) ^ (x.exp + y.exp - 32) := by
    rw [hp, abs_sign_mul _ hsg, abs_of_nonneg (by positivity)]
  by_cases he : x.exp + y.exp - 2 < expMin
  · -- below the exponent range before normalisation
    rw [new_below _ _ _ he]
    refine ⟨fun h => (by cases h), fun _ => ?_, fun _ h => absurd rfl h⟩
    rw [hpabs]
    have hP : (P : ℚ) < (10 : ℚ) ^ 32 := by
      have : P < 10 ^ 32 := by omega
      exact_mod_cast this
    calc (P : ℚ) * (10 : ℚ) ^ (x.exp + y.exp - 32) < (10 : ℚ) ^ 32 * (10 : ℚ) ^ (x.exp + y.exp - 32) :=
          mul_lt_mul_of_pos_right hP ht
      _ = (10 : ℚ) ^ (x.exp + y.exp) := by rw [tpow_split' (x.exp + y.exp - 32) (x.exp + y.exp) 32 (by omega)]
      _ ≤ (10 : ℚ) ^ (-127 : Int) := by apply tpow_mono; simp only [expMin] at he; omega
  · have he' : -128 ≤ x.exp + y.exp - 2 := by simp only [expMin] at he; omega
    obtain ⟨q1, q2, q3⟩ := new_round_q sg mc (x.exp + y.exp - 2) hsg (by omega) (by simp only [two64]; omega) he'
    have hu : (10 : ℚ) ^ (x.exp + y.exp - 2 - 16) = (10 : ℚ) ^ 14 * (10 : ℚ) ^ (x.exp + y.exp - 32) :=
      tpow_split' _ _ 14 (by omega)
    have hue : ulpE (x.exp + y.exp - 2) = (10 : ℚ) ^ 14 * (10 : ℚ) ^ (x.exp + y.exp - 32) := hu
    rw [hu] at q1 q2 q3
    generalize new sg mc (x.exp + y.exp - 2) = r at *
    have t1q : (mc : ℚ) * (10 : ℚ) ^ 14 ≤ P := by exact_mod_cast t1
    have t2q : (P : ℚ) < ((mc : ℚ) + 2) * (10 : ℚ) ^ 14 := by exact_mod_cast t2
    have hwabs : |(sg : ℚ) * (mc : ℚ) * ((10 : ℚ) ^ 14 * (10 : ℚ) ^ (x.exp + y.exp - 32))|
        = (mc : ℚ) * (10 : ℚ) ^ 14 * (10 : ℚ) ^ (x.exp + y.exp - 32) := by
      rw [mul_assoc, abs_sign_mul _ hsg, abs_of_nonneg (by positivity)]; ring
    refine ⟨fun hinf => ?_, fun hz => ?_, fun h1 h2 => ?_⟩
    · obtain ⟨e1, e2, _⟩ := q1 hinf
      rw [hwabs] at e2
      rw [e1, hp]
      apply signed_gt sg hsg _ _ (by positivity)
      have := mul_le_mul_of_nonneg_right t1q (le_of_lt ht)
      linarith
    · exfalso
      have := (q2 hz).1
      simp only [coefMax] at this
      omega
    · obtain ⟨f1, _, f3, _, _, _, _, f8⟩ := q3 h1 h2
      refine ⟨f1, ?_⟩
      have f8 := f8 (by simp only [coefMax]; omega)
      have hul : 10 * ulpE (x.exp + y.exp - 2) ≤ ulp r := by
        rw [← ulpE_succ]; exact ulpE_mono f8
      rw [hue] at hul
      have hwp : |(sg : ℚ) * (mc : ℚ) * ((10 : ℚ) ^ 14 * (10 : ℚ) ^ (x.exp + y.exp - 32)) - val x * val y|
          ≤ 2 * ((10 : ℚ) ^ 14 * (10 : ℚ) ^ (x.exp + y.exp - 32)) := by
        have : (sg : ℚ) * (mc : ℚ) * ((10 : ℚ) ^ 14 * (10 : ℚ) ^ (x.exp + y.exp - 32)) - val x * val y
            = (sg : ℚ) * (((mc : ℚ) * (10 : ℚ) ^ 14 - P) * (10 : ℚ) ^ (x.exp + y.exp - 32)) := by
          rw [hp]; ring
        rw [this, abs_sign_mul _ hsg, abs_mul, abs_of_pos ht]
        have : |(mc : ℚ) * (10 : ℚ) ^ 14 - P| ≤ 2 * (10 : ℚ) ^ 14 := by
          rw [abs_le]; constructor <;> linarith
        have := mul_le_mul_of_nonneg_right this (le_of_lt ht)
        linarith
      generalize (sg : ℚ) * (mc : ℚ) * ((10 : ℚ) ^ 14 * (10 : ℚ) ^ (x.exp + y.exp - 32)) = w at *
      have : |val r - val x * val y| ≤ |val r - w| + |w - val x * val y| := by
        have := abs_add_le (val r - w) (w - val x * val y)
        rwa [sub_add_sub_cancel] at this
      linarith

/-- `Div` on finite normalised operands (the coefficient is `div128 = ⌊x.coef·10^16 / y.coef⌋`):
within one unit of the 16th digit of the result; overflow only beyond the largest finite decimal.
Zero is returned whenever `x.exp − y.exp < −128`, i.e. only for `|x/y| < 10^−128` (one decade
above the smallest normalised decimal: premature underflow, see `div_premature_underflow_counter`). -/
theorem div_ulp_q (x y : Dnum) (hx : FinN x) (hy : FinN y) :
    (isInf (div x y) = true →
        (div x y = posInf ∧ maxFinite < val x / val y) ∨
        (div x y = negInf ∧ val x / val y < -maxFinite)) ∧
    (div x y = zero → |val x / val y| < (10 : ℚ) ^ (-128 : Int)) ∧
    (isInf (div x y) = false → div x y ≠ zero →
        FinN (div x y) ∧ |val (div x y) - val x / val y| ≤ ulp (div x y)) := by
  obtain ⟨hwx, hx1, hx2⟩ := hx
  obtain ⟨hwy, hy1, hy2⟩ := hy
  rw [div_finite x y hwx hwy]
  have hsg := sign_mul x.sign y.sign hwx.1 hwy.1
  obtain ⟨m1, m2⟩ := div128_range x.coef y.coef hwx.2.1 hwx.2.2 hwy.2.1 hwy.2.2
  obtain ⟨t1, t2⟩ := div_floor x.coef y.coef (by have := hwy.2.1; omega)
  generalize div128 x.coef y.coef = q at *
  have hu := tpow_pos (x.exp - y.exp - 16)
  have hb := tpow_pos (y.exp - 16)
  have hycpos : (0 : ℚ) < (y.coef : ℚ) := by
    have : 0 < y.coef := by have := hwy.2.1; omega
    exact_mod_cast this
  have hsy2 : (y.sign : ℚ) * (y.sign : ℚ) = 1 := by
    rcases hwy.1 with h | h <;> rw [h] <;> norm_num
  have hsyne : (y.sign : ℚ) ≠ 0 := by
    rcases hwy.1 with h | h <;> rw [h] <;> norm_num
  -- R = 10^16 xc / yc
  obtain ⟨R, hR⟩ : ∃ R : ℚ, R * (y.coef : ℚ) = (10 : ℚ) ^ 16 * (x.coef : ℚ) :=
    ⟨(10 : ℚ) ^ 16 * (x.coef : ℚ) / (y.coef : ℚ), div_mul_cancel₀ _ (ne_of_gt hycpos)⟩
  have hvy : val y ≠ 0 := by
    unfold val; exact mul_ne_zero (mul_ne_zero hsyne (ne_of_gt hycpos)) (ne_of_gt hb)
  have ha : (10 : ℚ) ^ (x.exp - 16) = (10 : ℚ) ^ 16 * ((10 : ℚ) ^ (x.exp - y.exp - 16) * (10 : ℚ) ^ (y.exp - 16)) := by
    rw [tpow_split' (x.exp - 16 - 16) (x.exp - 16) 16 (by omega)]
    congr 1
    rw [← zpow_add₀ (by norm_num)]
    congr 1; omega
  have hQ : val x / val y = ((x.sign * y.sign : Int) : ℚ) * (R * (10 : ℚ) ^ (x.exp - y.exp - 16)) := by
    rw [div_eq_iff hvy]; unfold val; rw [ha]; push_cast
    linear_combination (-((x.sign : ℚ) * (10 : ℚ) ^ (x.exp - y.exp - 16) * (10 : ℚ) ^ (y.exp - 16)
        * (y.sign : ℚ) * (y.sign : ℚ))) * hR
      + (-((x.sign : ℚ) * (10 : ℚ) ^ 16 * (x.coef : ℚ) * (10 : ℚ) ^ (x.exp - y.exp - 16)
        * (10 : ℚ) ^ (y.exp - 16))) * hsy2
  generalize hsgd : x.sign * y.sign = sg at *
  have hRq1 : (q : ℚ) ≤ R := by
    have : (q : ℚ) * (y.coef : ℚ) ≤ (10 : ℚ) ^ 16 * (x.coef : ℚ) := by exact_mod_cast t1
    rw [← hR] at this
    exact le_of_mul_le_mul_right this hycpos
  have hRq2 : R < (q : ℚ) + 1 := by
    have : (10 : ℚ) ^ 16 * (x.coef : ℚ) < ((q : ℚ) + 1) * (y.coef : ℚ) := by exact_mod_cast t2
    rw [← hR] at this
    exact lt_of_mul_lt_mul_right this (le_of_lt hycpos)
  have hR0 : 0 ≤ R := le_trans (by positivity) hRq1
  have hQabs : |val x / val y| = R * (10 : ℚ) ^ (x.exp - y.exp - 16) := by
    rw [hQ, abs_sign_mul _ hsg, abs_of_nonneg (by positivity)]
  by_cases he : x.exp - y.exp < expMin
  · rw [new_below _ _ _ he]
    refine ⟨fun h => (by cases h), fun _ => ?_, fun _ h => absurd rfl h⟩
    rw [hQabs]
    have hq17 : (q : ℚ) + 1 ≤ (10 : ℚ) ^ 17 := by
      have : q + 1 ≤ 10 ^ 17 := by omega
      exact_mod_cast this
    calc R * (10 : ℚ) ^ (x.exp - y.exp - 16) < (10 : ℚ) ^ 17 * (10 : ℚ) ^ (x.exp - y.exp - 16) :=
          mul_lt_mul_of_pos_right (by linarith) hu
      _ = (10 : ℚ) ^ (x.exp - y.exp + 1) := by
          rw [tpow_split' (x.exp - y.exp - 16) (x.exp - y.exp + 1) 17 (by omega)]
      _ ≤ (10 : ℚ) ^ (-128 : Int) := by apply tpow_mono; simp only [expMin] at he; omega
  · have he' : -128 ≤ x.exp - y.exp := by simp only [expMin] at he; omega
    obtain ⟨q1, q2, q3⟩ := new_round_q sg q (x.exp - y.exp) hsg (by omega) (by simp only [two64]; omega) he'
    generalize new sg q (x.exp - y.exp) = r at *
    have hwabs : |(sg : ℚ) * (q : ℚ) * (10 : ℚ) ^ (x.exp - y.exp - 16)|
        = (q : ℚ) * (10 : ℚ) ^ (x.exp - y.exp - 16) := by
      rw [mul_assoc, abs_sign_mul _ hsg, abs_of_nonneg (by positivity)]
    refine ⟨fun hinf => ?_, fun hz => ?_, fun h1 h2 => ?_⟩
    · obtain ⟨e1, e2, _⟩ := q1 hinf
      rw [hwabs] at e2
      rw [e1, hQ]
      apply signed_gt sg hsg _ _ (by positivity)
      have := mul_le_mul_of_nonneg_right hRq1 (le_of_lt hu)
      linarith
    · exfalso
      have e2 := (q2 hz).2
      rw [hwabs] at e2
      have h15 : (10 : ℚ) ^ 15 ≤ q := by exact_mod_cast m1
      have h144 : (10 : ℚ) ^ (-144 : Int) ≤ (10 : ℚ) ^ (x.exp - y.exp - 16) := by
        apply tpow_mono; omega
      have hm : minPos = (10 : ℚ) ^ 15 * (10 : ℚ) ^ (-144 : Int) := by
        unfold minPos; exact tpow_split' (-144) (-129) 15 (by norm_num)
      have : (10 : ℚ) ^ 15 * (10 : ℚ) ^ (-144 : Int) ≤ (q : ℚ) * (10 : ℚ) ^ (x.exp - y.exp - 16) :=
        mul_le_mul h15 h144 (le_of_lt (tpow_pos _)) (by positivity)
      linarith
    · obtain ⟨f1, _, _, f4, f5, _, f7, f8⟩ := q3 h1 h2
      refine ⟨f1, ?_⟩
      have hwq : |(sg : ℚ) * (q : ℚ) * (10 : ℚ) ^ (x.exp - y.exp - 16) - val x / val y|
          ≤ ulpE (x.exp - y.exp) := by
        have : (sg : ℚ) * (q : ℚ) * (10 : ℚ) ^ (x.exp - y.exp - 16) - val x / val y
            = (sg : ℚ) * (((q : ℚ) - R) * (10 : ℚ) ^ (x.exp - y.exp - 16)) := by
          rw [hQ]; ring
        rw [this, abs_sign_mul _ hsg, abs_mul, abs_of_pos hu]
        have : |(q : ℚ) - R| ≤ 1 := by
          rw [abs_le]; constructor <;> linarith
        have := mul_le_mul_of_nonneg_right this (le_of_lt hu)
        unfold ulpE; linarith
      have hue := ulpE_pos (x.exp - y.exp)
      by_cases h16 : q < 10 ^ 16
      · have f5 := f5 h16
        have f7 := f7 m1
        have : ulpE (x.exp - y.exp) ≤ ulp r := ulpE_mono f7
        rw [f5]
        linarith
      · have f4 := f4 m2
        have f8 := f8 (by simp only [coefMax]; omega)
        have hul : 10 * ulpE (x.exp - y.exp) ≤ ulp r := by
          rw [← ulpE_succ]; exact ulpE_mono f8
        generalize (sg : ℚ) * (q : ℚ) * (10 : ℚ) ^ (x.exp - y.exp - 16) = w at *
        have : |val r - val x / val y| ≤ |val r - w| + |w - val x / val y| := by
          have := abs_add_le (val r - w) (w - val x / val y)
          rwa [sub_add_sub_cancel] at this
        linarith

end Gsu.Dnum
