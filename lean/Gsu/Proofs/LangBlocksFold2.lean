import Gsu.Model.LangBlocks
namespace Gsu.LangBlocks

def glnames {β : Type} (g : Expr → List β) (l : List Expr) : List β := l.flatMap g
def gstN {β : Type} (g : Expr → List β) (st : AddSt) : List β :=
  glnames g st.pre ++ glnames g st.post

theorem mem_glnames_append {β : Type} (g : Expr → List β) {v : β} {l1 l2 : List Expr} :
    v ∈ glnames g (l1 ++ l2) ↔ v ∈ glnames g l1 ∨ v ∈ glnames g l2 := by
  simp only [glnames, List.flatMap_append, List.mem_append]

theorem gstN_keep {β : Type} (g : Expr → List β) (st : AddSt) (xs : List Expr) (v : β)
    (h : v ∈ gstN g (st.keep xs)) : v ∈ gstN g st ∨ v ∈ glnames g xs := by
  unfold AddSt.keep at h
  split at h
  · simp only [gstN, List.mem_append, mem_glnames_append] at h ⊢
    rcases h with (h | h) | h
    · exact Or.inl (Or.inl h)
    · exact Or.inr h
    · exact Or.inl (Or.inr h)
  · simp only [gstN, List.mem_append, mem_glnames_append] at h ⊢
    rcases h with h | h | h
    · exact Or.inl (Or.inl h)
    · exact Or.inl (Or.inr h)
    · exact Or.inr h

theorem gstN_lit {β : Type} (g : Expr → List β) (st : AddSt) (n : Int) (v : β)
    (h : v ∈ gstN g (st.lit n)) : v ∈ gstN g st := by
  unfold AddSt.lit at h
  split at h
  · exact h
  · split at h <;> exact h

theorem glnames_single {β : Type} (g : Expr → List β) (e : Expr) : glnames g [e] = g e := by
  simp [glnames]

theorem gstN_item {β : Type} (g : Expr → List β) (st : AddSt) (x : Expr) (xs : List Expr) (v : β)
    (h : v ∈ gstN g (st.item x xs)) : v ∈ gstN g st ∨ v ∈ glnames g xs ∨ v ∈ g x := by
  cases x with
  | add a b =>
    simp only [AddSt.item] at h
    split at h
    · exact Or.inl (gstN_lit g _ _ _ h)
    · rcases gstN_keep g _ _ _ h with h | h
      · exact Or.inl h
      · exact Or.inr (Or.inl h)
  | num n =>
    simp only [AddSt.item] at h
    exact Or.inl (gstN_lit g _ _ _ h)
  | var y =>
    simp only [AddSt.item] at h
    rcases gstN_keep g _ _ _ h with h | h
    · exact Or.inl h
    · rw [glnames_single] at h; exact Or.inr (Or.inr h)
  | call f y =>
    simp only [AddSt.item] at h
    rcases gstN_keep g _ _ _ h with h | h
    · exact Or.inl h
    · rw [glnames_single] at h; exact Or.inr (Or.inr h)
  | block s =>
    simp only [AddSt.item] at h
    rcases gstN_keep g _ _ _ h with h | h
    · exact Or.inl h
    · rw [glnames_single] at h; exact Or.inr (Or.inr h)
  | fn s =>
    simp only [AddSt.item] at h
    rcases gstN_keep g _ _ _ h with h | h
    · exact Or.inl h
    · rw [glnames_single] at h; exact Or.inr (Or.inr h)

theorem gstN_finish {β : Type} (g : Expr → List β) (hnum : ∀ n, g (.num n) = [])
    (st : AddSt) (v : β) (h : v ∈ glnames g st.finish) : v ∈ gstN g st := by
  unfold AddSt.finish at h
  split at h
  · simp only [glnames, List.flatMap_append, List.flatMap_cons, hnum, List.nil_append,
      List.mem_append] at h
    simpa only [gstN, glnames, List.mem_append] using h
  · split at h
    · simp [glnames, hnum] at h
    · rename_i e heq
      simp only [gstN, List.mem_append, heq]
      left
      simpa [glnames, hnum] using h
    · simp only [gstN, List.mem_append]
      exact Or.inl h

theorem foldAddList_glnames {β : Type} (g : Expr → List β)
    (hadd : ∀ a b, g (.add a b) = g a ++ g b) (hnum : ∀ n, g (.num n) = []) :
    (e : Expr) → ∀ v, v ∈ glnames g (foldAddList e) → v ∈ g e
  | .add a b, v, h => by
    simp only [foldAddList] at h
    have h1 := gstN_finish g hnum _ v h
    simp only [hadd, List.mem_append]
    rcases gstN_item g _ _ _ v h1 with h2 | h2 | h2
    · rcases gstN_item g _ _ _ v h2 with h3 | h3 | h3
      · simp [gstN, glnames] at h3
      · exact Or.inl (foldAddList_glnames g hadd hnum a v h3)
      · exact Or.inl h3
    · exact Or.inr (foldAddList_glnames g hadd hnum b v h2)
    · exact Or.inr h2
  | .num n, v, h => by simpa [foldAddList, glnames] using h
  | .var x, v, h => by simpa [foldAddList, glnames] using h
  | .call f a, v, h => by simpa [foldAddList, glnames] using h
  | .block s, v, h => by simpa [foldAddList, glnames] using h
  | .fn s, v, h => by simpa [foldAddList, glnames] using h

theorem foldAddList_sub {β : Type} (g : Expr → List β)
    (hadd : ∀ a b, g (.add a b) = g a ++ g b) (hnum : ∀ n, g (.num n) = []) (e : Expr) :
    ∀ e' ∈ foldAddList e, ∀ v ∈ g e', v ∈ g e := by
  intro e' he' v hv
  apply foldAddList_glnames g hadd hnum e v
  simp only [glnames, List.mem_flatMap]
  exact ⟨e', he', hv⟩

/-- nested functions written directly in an expression -/
def exprFns : Expr → List Scope
  | .num _ => []
  | .var _ => []
  | .add a b => exprFns a ++ exprFns b
  | .call _ a => exprFns a
  | .block _ => []
  | .fn s => [s]

theorem foldAddList_kids (e : Expr) :
    ∀ e' ∈ foldAddList e, ∀ k ∈ exprKids e', k ∈ exprKids e :=
  foldAddList_sub exprKids (fun _ _ => by simp [exprKids]) (fun _ => by simp [exprKids]) e

theorem foldAddList_fns (e : Expr) :
    ∀ e' ∈ foldAddList e, ∀ f ∈ exprFns e', f ∈ exprFns e :=
  foldAddList_sub exprFns (fun _ _ => by simp [exprFns]) (fun _ => by simp [exprFns]) e

end Gsu.LangBlocks
