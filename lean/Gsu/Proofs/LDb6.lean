/-
C08 — what a cascading update rewrites: the row changes of an accepted update are the user's
change plus rewritings of rows that referenced the old key of a changed row (`opUpdate_spec`).
Core only.
-/
import Gsu.Proofs.LDb5
set_option linter.unusedVariables false
namespace Gsu.LDb
open Gsu.Proto

/-! ### what a cascading update rewrites -/

/-- the row change `(s, r → r')` is the rewriting of a row that referenced the old value of a key
changed by a `parent` change, through a foreign key that cascades updates: its foreign key
columns get the key of the parent's new row, every other column is kept -/
def Rewrite (sch : Schema) (parent : Nat → Row → Row → Prop) (s : Nat) (r r' : Row) : Prop :=
  ∃ T o n ix i f, parent T o n ∧ (ix, i) ∈ enumIdxs sch T ∧ f ∈ fkToHere sch T i ∧ f.table = s ∧
    cascadesUpdates f.mode = true ∧ proj ix.cols o ≠ proj ix.cols n ∧
    emptyKey (proj ix.cols o) = false ∧ proj (colsOf sch s f.index) r = proj ix.cols o ∧
    r' = substFk (colsOf sch s f.index) ix.cols r n

/-- no row references the old value of a key that `o → n` changes -/
def NoRefsChanged (sch : Schema) (db : Db) (T : Nat) (o n : Row) : Prop :=
  ∀ ix i f, (ix, i) ∈ enumIdxs sch T → f ∈ fkToHere sch T i → proj ix.cols o ≠ proj ix.cols n →
    emptyKey (proj ix.cols o) = false → refs sch db f (proj ix.cols o) = false

/-- the user's change is at the bottom of the stack -/
def Bottom (t : Nat) (old new : Row) (st : List UTask) : Prop :=
  ∀ x, st.getLast? = some x → x = UTask.fin t old new ∨ x = UTask.upd t old new true

structure ULog (sch : Schema) (db0 : Db) (t : Nat) (old new : Row) (db : Db) (st : List UTask)
    (log : List (Nat × Row × Row)) : Prop where
  legit : ∀ e ∈ log, e = (t, old, new) ∨
    Rewrite sch (fun T o n => (T, o, n) ∈ log ∨ UTask.fin T o n ∈ st) e.1 e.2.1 e.2.2
  fwd : ∀ s x, x ∈ db0 s → x ∈ db s ∨ ∃ x', (s, x, x') ∈ log
  bwd : ∀ s x, x ∈ db s → x ∈ db0 s ∨ ∃ r, (s, r, x) ∈ log
  len : ∀ s, (db s).length = (db0 s).length
  bottom : Bottom t old new st
  gone : st = [] → NoRefsChanged sch db t old new
  top : st = [] → new ≠ old → (t, old, new) ∈ log

theorem Rewrite_mono {sch : Schema} {p q : Nat → Row → Row → Prop} (h : ∀ T o n, p T o n → q T o n)
    {s : Nat} {r r' : Row} (hr : Rewrite sch p s r r') : Rewrite sch q s r r' := by
  obtain ⟨T, o, n, ix, i, f, hp, rest⟩ := hr
  exact ⟨T, o, n, ix, i, f, h _ _ _ hp, rest⟩

theorem getLast?_cons_ne {α} (x : α) {l : List α} (h : l ≠ []) : (x :: l).getLast? = l.getLast? := by
  cases l with
  | nil => exact absurd rfl h
  | cons a r => rfl

theorem length_replace_db (db : Db) (T : Nat) (o n : Row) (s : Nat) :
    (applyChange db T (some o) (some n) s).length = (db s).length := by
  unfold applyChange
  split
  · subst_vars; exact List.length_replace
  · rfl

/-- keeping the log when the stack changes without a row change -/
theorem ULog_stack {sch : Schema} {db0 db : Db} {t : Nat} {old new : Row} {st st' : List UTask}
    {log : List (Nat × Row × Row)} (h : ULog sch db0 t old new db st log)
    (hfin : ∀ T o n, UTask.fin T o n ∈ st → UTask.fin T o n ∈ st')
    (hb : Bottom t old new st') (hne : st' = [] → st = [] ∨ new = old) :
    ULog sch db0 t old new db st' log := by
  refine ⟨?_, h.fwd, h.bwd, h.len, hb, ?_, ?_⟩
  · intro e he
    rcases h.legit e he with h1 | h1
    · exact Or.inl h1
    · exact Or.inr (Rewrite_mono (fun T o n hp => hp.imp id (hfin T o n)) h1)
  · intro he
    rcases hne he with h1 | h1
    · exact h.gone h1
    · intro ix i f _ _ hchg
      rw [h1] at hchg
      exact absurd rfl hchg
  · intro he hno
    rcases hne he with h1 | h1
    · exact h.top h1 hno
    · exact absurd h1 hno

theorem getLast?_cascs (cs : List UTask) (x : UTask) (rest : List UTask) :
    (cs ++ x :: rest).getLast? = (x :: rest).getLast? := by
  rw [List.getLast?_append]
  cases h : (x :: rest).getLast? with
  | none => simp at h
  | some y => rfl

theorem Bottom_tail {t : Nat} {old new : Row} {x : UTask} {rest : List UTask}
    (h : Bottom t old new (x :: rest)) : Bottom t old new rest := by
  intro y hy
  cases rest with
  | nil => simp at hy
  | cons a r => exact h y (by rw [getLast?_cons_ne x (by simp)]; exact hy)

theorem Bottom_push {t : Nat} {old new : Row} {x : UTask} {rest : List UTask}
    (h : Bottom t old new rest) (hne : rest ≠ []) : Bottom t old new (x :: rest) := by
  intro y hy
  rw [getLast?_cons_ne x hne] at hy
  exact h y hy

theorem runUpd_spec (env : Env) (hsch : SchOk env.sch) (db0 : Db) (t : Nat) (old new : Row) :
    ∀ (n : Nat) (w : W) (st : List UTask) (w' : W) (log : List (Nat × Row × Row)),
    runUpd env n w st = .ok w' → UInv env.sch w.db st → ULog env.sch db0 t old new w.db st log →
    ∃ log', ULog env.sch db0 t old new w'.db [] log' := by
  intro n
  induction n with
  | zero =>
    intro w st w' log h hinv hlog
    cases st with
    | nil => simp [runUpd] at h; cases h; exact ⟨log, hlog⟩
    | cons x rest => simp [runUpd] at h
  | succ n ih =>
    intro w st w' log h hinv hlog
    cases st with
    | nil => simp [runUpd] at h; cases h; exact ⟨log, hlog⟩
    | cons x rest =>
      cases x with
      | upd s r r' b =>
        simp only [runUpd] at h
        split at h
        · rename_i heq
          refine ih _ _ _ log h (step_upd_skip hinv) (ULog_stack hlog ?_ (Bottom_tail hlog.bottom) ?_)
          · intro T o n hm
            rcases List.mem_cons.mp hm with h1 | h1
            · cases h1
            · exact h1
          · intro he
            subst he
            right
            rcases hlog.bottom _ rfl with h1 | h1
            · cases h1
            · injection h1 with e1 e2 e3 e4
              subst e2 e3
              exact eq_of_beq heq
        · split at h
          · cases h
          · rename_i hpend
            split at h
            · cases h
            · rename_i hcont
              split at h
              · cases h
              · rename_i hchk
                refine ih _ _ _ log h
                  (step_upd_accept hsch hinv (by simpa using hpend) (by simpa using hcont) hchk)
                  (ULog_stack hlog ?_ ?_ ?_)
                · intro T o n hm
                  rcases List.mem_cons.mp hm with h1 | h1
                  · cases h1
                  · exact List.mem_append_right _ (List.mem_cons_of_mem _ h1)
                · intro y hy
                  rw [getLast?_cascs] at hy
                  cases rest with
                  | nil =>
                    simp only [List.getLast?_singleton, Option.some.injEq] at hy
                    rcases hlog.bottom _ rfl with h1 | h1
                    · cases h1
                    · injection h1 with e1 e2 e3 e4
                      subst e1 e2 e3
                      exact Or.inl hy.symm
                  | cons a rr =>
                    rw [getLast?_cons_ne _ (by simp)] at hy
                    exact hlog.bottom y (by rw [getLast?_cons_ne _ (by simp)]; exact hy)
                · intro he
                  exact absurd he (by simp)
      | casc f ok tc tr =>
        have hrne : rest ≠ [] := by
          intro he
          obtain ⟨T, o, ix, i, hown, _⟩ := hinv.sok.1
          rw [he] at hown
          cases hown
        simp only [runUpd] at h
        split at h
        · rename_i hnone
          refine ih _ _ _ log h (step_casc_none hinv (find_none_refs hnone))
            (ULog_stack hlog ?_ (Bottom_tail hlog.bottom) (fun he => absurd he hrne))
          intro T o n hm
          rcases List.mem_cons.mp hm with h1 | h1
          · cases h1
          · exact h1
        · rename_i r0 hsome
          obtain ⟨hm, hp⟩ := find_some_mem hsome
          refine ih _ _ _ log h (step_casc_some hinv hm (by simpa using hp))
            (ULog_stack hlog (fun T o n hm => List.mem_cons_of_mem _ hm)
              (Bottom_push hlog.bottom (by simp)) (fun he => absurd he (by simp)))
      | fin T o nn =>
        simp only [runUpd] at h
        split at h
        · cases h
        · rename_i w1 hch
          have hdb := change_db hch
          have holive : o ∈ w.db T := hinv.live T o nn List.mem_cons_self
          have hbot : rest = [] → (T, o, nn) = (t, old, new) := by
            intro he
            subst he
            rcases hlog.bottom _ rfl with h1 | h1
            · injection h1 with e1 e2 e3
              rw [e1, e2, e3]
            · cases h1
          refine ih _ _ _ ((T, o, nn) :: log) h (by rw [hdb]; exact step_fin hsch hinv) ?_
          rw [hdb]
          refine ⟨?_, ?_, ?_, ?_, Bottom_tail hlog.bottom, ?_, ?_⟩
          · intro e he
            rcases List.mem_cons.mp he with h1 | h1
            · subst h1
              rcases hinv.sok.1 with ⟨hnil, _⟩ | hcr
              · exact Or.inl (hbot hnil)
              · right
                obtain ⟨f, T1, o1, trow, ix1, i1, rest', hrest, hft, hown, hix1, hf, hfkof, hm, hp, hchg1, hne1, hr', hl⟩ :=
                  created_info hinv.sok.2.2 hcr
                refine ⟨T1, o1, trow, ix1, i1, f, Or.inr ?_, mem_enumIdxs.mpr hix1, hf, hft, hm, hchg1, hne1, hp, hr'⟩
                rw [hrest]
                exact List.mem_cons_of_mem _ (owner_mem hown)
            · rcases hlog.legit e h1 with h2 | h2
              · exact Or.inl h2
              · right
                refine Rewrite_mono ?_ h2
                intro T2 o2 n2 hp
                rcases hp with h3 | h3
                · exact Or.inl (List.mem_cons_of_mem _ h3)
                · rcases List.mem_cons.mp h3 with h4 | h4
                  · injection h4 with e1 e2 e3
                    subst e1 e2 e3
                    exact Or.inl List.mem_cons_self
                  · exact Or.inr h4
          · intro s x hx
            rcases hlog.fwd s x hx with h1 | ⟨x', h1⟩
            · by_cases h2 : s = T ∧ x = o
              · obtain ⟨rfl, rfl⟩ := h2
                exact Or.inr ⟨nn, List.mem_cons_self⟩
              · exact Or.inl (mem_db_replace h1 h2)
            · exact Or.inr ⟨x', List.mem_cons_of_mem _ h1⟩
          · intro s x hx
            rcases mem_replace_db hx with h1 | ⟨rfl, rfl⟩
            · rcases hlog.bwd s x h1 with h2 | ⟨r, h2⟩
              · exact Or.inl h2
              · exact Or.inr ⟨r, List.mem_cons_of_mem _ h2⟩
            · exact Or.inr ⟨o, List.mem_cons_self⟩
          · intro s
            rw [length_replace_db]
            exact hlog.len s
          · intro he
            have hb := hbot he
            injection hb with e1 hb
            injection hb with e2 e3
            subst e1 e2 e3
            intro ix i f hix hf hchg hne
            cases hr : refs env.sch (applyChange w.db T (some o) (some nn)) f (proj ix.cols o) with
            | false => rfl
            | true =>
              exfalso
              unfold refs at hr
              rw [hasKey_iff] at hr
              obtain ⟨x, hx, hxk⟩ := hr
              have hlive : ∀ y, y ∈ w.db f.table → proj (colsOf env.sch f.table f.index) y = proj ix.cols o → False := by
                intro y hy hyk
                have hrefs : refs env.sch w.db f (proj ix.cols o) = true := by
                  unfold refs; rw [hasKey_iff]; exact ⟨y, hy, hyk⟩
                obtain ⟨_, _, hm⟩ := hinv.safe.1 ix i f hix hf hchg hne hrefs
                cases hm
              rcases mem_replace_db hx with h1 | ⟨hT, rfl⟩
              · exact hlive x h1 hxk
              · by_cases hold : proj (colsOf env.sch f.table f.index) o = proj ix.cols o
                · exact hlive o (by rw [hT]; exact holive) hold
                · have hfk := fkOf_of_mem_fkToHere hf
                  rw [hT] at hfk hxk hold
                  exact no_new_ref hsch hinv.sok List.mem_cons_self List.mem_cons_self hfk
                    (mem_enumIdxs.mp hix) hchg hne hxk hold
          · intro he _
            rw [← hbot he]
            exact List.mem_cons_self

/-- What an accepted update that changes referenced keys does.  There is a list `log` of row
changes `(table, old row, new row)` such that: the user's change is in it; every other entry
rewrites a row that referenced the old key of a changed row (an entry of the log) through a
foreign key that cascades updates, giving its foreign key columns the key of that row's new
version and keeping every other column; the rows before and after differ exactly by these
changes (no row appears, disappears or changes otherwise); and afterwards no row references
the old value of a key the user's change replaced. -/
theorem opUpdate_spec {env : Env} {w w' : W} {t : Nat} {old new : Row} (hsch : SchOk env.sch)
    (h : opUpdate env w t old new = .ok w') (hlen : new.length = ncols env.sch t)
    (hu : UpdOk2 env.sch t old new) (hok : FkOk env.sch w.db) (hl : LenOk env.sch w.db) :
    ∃ log : List (Nat × Row × Row),
      (new ≠ old → (t, old, new) ∈ log) ∧
      (∀ e ∈ log, e = (t, old, new) ∨
        Rewrite env.sch (fun T o n => (T, o, n) ∈ log) e.1 e.2.1 e.2.2) ∧
      (∀ s x, x ∈ w.db s → x ∈ w'.db s ∨ ∃ x', (s, x, x') ∈ log) ∧
      (∀ s x, x ∈ w'.db s → x ∈ w.db s ∨ ∃ r, (s, r, x) ∈ log) ∧
      (∀ s, (w'.db s).length = (w.db s).length) ∧
      NoRefsChanged env.sch w'.db t old new := by
  unfold opUpdate at h
  split at h
  · rename_i heq
    cases h
    have : new = old := eq_of_beq heq
    refine ⟨[], fun hne => absurd this hne, fun e he => (by cases he), fun s x hx => Or.inl hx,
      fun s x hx => Or.inl hx, fun s => rfl, ?_⟩
    intro ix i f _ _ hchg
    rw [this] at hchg
    exact absurd rfl hchg
  · split at h
    · cases h
    · split at h
      · cases h
      · split at h
        · rename_i w1 hrun
          cases h
          have hinv : UInv env.sch w.db [UTask.upd t old new true] := by
            refine ⟨⟨Or.inl ⟨rfl, rfl, hlen, hu⟩, trivial⟩, hl, ?_, trivial, ?_, trivial⟩
            · intro t o n hm
              rcases List.mem_cons.mp hm with h1 | h1 <;> cases h1
            · refine ⟨fun s j fk r hfk hr hne => Or.inl (hok s j fk r hfk hr hne), ?_⟩
              intro s o n hm
              rcases List.mem_cons.mp hm with h1 | h1 <;> cases h1
          have hlog : ULog env.sch w.db t old new w.db [UTask.upd t old new true] [] := by
            refine ⟨fun e he => (by cases he), fun s x hx => Or.inl hx, fun s x hx => Or.inl hx,
              fun s => rfl, ?_, fun he => (by cases he), fun he => (by cases he)⟩
            intro x hx
            simp only [List.getLast?_singleton, Option.some.injEq] at hx
            exact Or.inr hx.symm
          obtain ⟨log, hfin⟩ := runUpd_spec env hsch w.db t old new _ _ _ _ [] hrun hinv hlog
          refine ⟨log, hfin.top rfl, ?_, hfin.fwd, hfin.bwd, hfin.len, hfin.gone rfl⟩
          intro e he
          rcases hfin.legit e he with h1 | h1
          · exact Or.inl h1
          · right
            refine Rewrite_mono ?_ h1
            intro T o n hp
            rcases hp with h2 | h2
            · exact h2
            · cases h2
        · cases h

end Gsu.LDb
