/-
C33: the literal text of a date parses back to the date (`SuDate.String` / `SuTimestamp.String`
against `DateFromLiteral`), for every valid date and all trimmed forms.
-/
import Gsu.Proofs.Date
namespace Gsu.Date
set_option linter.unusedSimpArgs false

/-! ## digits -/

theorem dig_ne_dot (n : Int) : (dig n = 46) = False := by
  simp only [dig, eq_iff_iff, iff_false]; omega

theorem dig_isDigit (n : Int) : (48 ≤ dig n ∧ dig n ≤ 57) = True := by
  simp only [dig, eq_iff_iff, iff_true]; omega

theorem dig_val (n : Int) : ((dig n : Nat) : Int) - 48 = n % 10 := by
  simp only [dig]; omega

theorem atoi_d2 (n : Int) (h0 : 0 ≤ n) (h1 : n < 100) : atoi [dig (n / 10), dig n] = some n := by
  simp only [atoi, List.foldl, dig_isDigit, if_true, dig_val]
  congr 1; omega

theorem atoi_d3 (n : Int) (h0 : 0 ≤ n) (h1 : n < 1000) :
    atoi [dig (n / 100), dig (n / 10), dig n] = some n := by
  simp only [atoi, List.foldl, dig_isDigit, if_true, dig_val]
  congr 1; omega

theorem atoi_d4 (n : Int) (h0 : 0 ≤ n) (h1 : n < 10000) :
    atoi [dig (n / 1000), dig (n / 100), dig (n / 10), dig n] = some n := by
  simp only [atoi, List.foldl, dig_isDigit, if_true, dig_val]
  congr 1; omega

/-! ## `DateFromLiteral` on the five shapes `SuDate.String`/`SuTimestamp.String` produce -/

theorem fromLiteral_date (y m d : Int) (hy0 : 0 ≤ y) (hy1 : y < 10000) (hm0 : 0 ≤ m) (hm1 : m < 100)
    (hd0 : 0 ≤ d) (hd1 : d < 100) :
    fromLiteral (35 :: (d4 y ++ d2 m ++ d2 d)) =
      if valid ⟨y, m, d, 0, 0, 0, 0⟩ then some (⟨y, m, d, 0, 0, 0, 0⟩, 0) else none := by
  simp only [fromLiteral, d4, d2, List.cons_append, List.nil_append, indexOf, dig_ne_dot, if_false,
    Option.map, Option.getD, List.length_cons, List.length_nil]
  simp (disch := omega) only [Nat.zero_add, Nat.reduceAdd, ne_eq, not_true_eq_false, reduceCtorEq,
    not_false_eq_true, and_self, and_true, or_self, ↓reduceIte, nsub, List.length_cons, List.length_nil, gt_iff_lt,
    Nat.reduceLT, Nat.sub_zero, List.drop_zero, List.take_succ_cons, List.take_zero, atoi_d4, Nat.reduceSub,
    List.drop_succ_cons, atoi_d2, Nat.lt_irrefl, List.take_nil]

theorem fromLiteral_hm (y m d h mi : Int) (hy0 : 0 ≤ y) (hy1 : y < 10000) (hm0 : 0 ≤ m) (hm1 : m < 100)
    (hd0 : 0 ≤ d) (hd1 : d < 100) (hh0 : 0 ≤ h) (hh1 : h < 100) (hmi0 : 0 ≤ mi) (hmi1 : mi < 100) :
    fromLiteral (35 :: (d4 y ++ d2 m ++ d2 d) ++ 46 :: (d2 h ++ d2 mi)) =
      if valid ⟨y, m, d, h, mi, 0, 0⟩ then some (⟨y, m, d, h, mi, 0, 0⟩, 0) else none := by
  simp only [fromLiteral, d4, d2, List.cons_append, List.nil_append, indexOf, dig_ne_dot, if_false, if_true,
    Option.map, Option.getD, List.length_cons, List.length_nil]
  simp (disch := omega) only [Nat.zero_add, Nat.reduceAdd, ne_eq, not_true_eq_false, Nat.reduceSub,
    Nat.add_one_sub_one, reduceCtorEq, not_false_eq_true, Nat.reduceEqDiff, and_self, and_true, and_false, or_self,
    ↓reduceIte, nsub, List.length_cons, List.length_nil, gt_iff_lt, Nat.reduceLT, Nat.sub_zero, List.drop_zero,
    List.take_succ_cons, List.take_zero, atoi_d4, List.drop_succ_cons, atoi_d2, Nat.lt_irrefl, List.take_nil, atoi_d3]

theorem fromLiteral_hms (y m d h mi s : Int) (hy0 : 0 ≤ y) (hy1 : y < 10000) (hm0 : 0 ≤ m) (hm1 : m < 100)
    (hd0 : 0 ≤ d) (hd1 : d < 100) (hh0 : 0 ≤ h) (hh1 : h < 100) (hmi0 : 0 ≤ mi) (hmi1 : mi < 100)
    (hs0 : 0 ≤ s) (hs1 : s < 100) :
    fromLiteral (35 :: (d4 y ++ d2 m ++ d2 d) ++ 46 :: (d2 h ++ d2 mi ++ d2 s)) =
      if valid ⟨y, m, d, h, mi, s, 0⟩ then some (⟨y, m, d, h, mi, s, 0⟩, 0) else none := by
  simp only [fromLiteral, d4, d2, List.cons_append, List.nil_append, indexOf, dig_ne_dot, if_false, if_true,
    Option.map, Option.getD, List.length_cons, List.length_nil]
  simp (disch := omega) only [Nat.zero_add, Nat.reduceAdd, ne_eq, not_true_eq_false, Nat.reduceSub,
    Nat.add_one_sub_one, reduceCtorEq, not_false_eq_true, Nat.reduceEqDiff, and_self, and_true, and_false, or_self,
    ↓reduceIte, nsub, List.length_cons, List.length_nil, gt_iff_lt, Nat.reduceLT, Nat.sub_zero, List.drop_zero,
    List.take_succ_cons, List.take_zero, atoi_d4, List.drop_succ_cons, atoi_d2, Nat.lt_irrefl, List.take_nil, atoi_d3]

theorem fromLiteral_hmsm (y m d h mi s ms : Int) (hy0 : 0 ≤ y) (hy1 : y < 10000) (hm0 : 0 ≤ m) (hm1 : m < 100)
    (hd0 : 0 ≤ d) (hd1 : d < 100) (hh0 : 0 ≤ h) (hh1 : h < 100) (hmi0 : 0 ≤ mi) (hmi1 : mi < 100)
    (hs0 : 0 ≤ s) (hs1 : s < 100) (hms0 : 0 ≤ ms) (hms1 : ms < 1000) :
    fromLiteral (35 :: (d4 y ++ d2 m ++ d2 d) ++ 46 :: (d2 h ++ d2 mi ++ d2 s ++ d3 ms)) =
      if valid ⟨y, m, d, h, mi, s, ms⟩ then some (⟨y, m, d, h, mi, s, ms⟩, 0) else none := by
  simp only [fromLiteral, d4, d2, d3, List.cons_append, List.nil_append, indexOf, dig_ne_dot, if_false, if_true,
    Option.map, Option.getD, List.length_cons, List.length_nil]
  simp (disch := omega) only [Nat.zero_add, Nat.reduceAdd, ne_eq, not_true_eq_false, Nat.reduceSub,
    Nat.add_one_sub_one, reduceCtorEq, not_false_eq_true, Nat.reduceEqDiff, and_self, and_true, and_false, or_self,
    ↓reduceIte, nsub, List.length_cons, List.length_nil, gt_iff_lt, Nat.reduceLT, Nat.sub_zero, List.drop_zero,
    List.take_succ_cons, List.take_zero, atoi_d4, List.drop_succ_cons, atoi_d2, Nat.lt_irrefl, List.take_nil, atoi_d3]

theorem fromLiteral_ts (y m d h mi s ms x : Int) (hy0 : 0 ≤ y) (hy1 : y < 10000) (hm0 : 0 ≤ m) (hm1 : m < 100)
    (hd0 : 0 ≤ d) (hd1 : d < 100) (hh0 : 0 ≤ h) (hh1 : h < 100) (hmi0 : 0 ≤ mi) (hmi1 : mi < 100)
    (hs0 : 0 ≤ s) (hs1 : s < 100) (hms0 : 0 ≤ ms) (hms1 : ms < 1000) (hx0 : 0 < x) (hx1 : x < 256) :
    fromLiteral (35 :: (d4 y ++ d2 m ++ d2 d) ++ 46 :: (d2 h ++ d2 mi ++ d2 s ++ d3 ms ++ d3 x)) =
      if valid ⟨y, m, d, h, mi, s, ms⟩ then some (⟨y, m, d, h, mi, s, ms⟩, x)
      else some (⟨0, 0, 0, 0, 0, 0, 0⟩, x) := by
  simp only [fromLiteral, d4, d2, d3, List.cons_append, List.nil_append, indexOf, dig_ne_dot, if_false, if_true,
    Option.map, Option.getD, List.length_cons, List.length_nil]
  simp (disch := omega) only [Nat.zero_add, Nat.reduceAdd, ne_eq, not_true_eq_false, Nat.reduceSub,
    Nat.add_one_sub_one, reduceCtorEq, not_false_eq_true, Nat.reduceEqDiff, and_false, or_self, ↓reduceIte, nsub,
    List.length_cons, List.length_nil, gt_iff_lt, Nat.lt_irrefl, List.drop_succ_cons, List.drop_zero,
    List.take_succ_cons, List.take_nil, atoi_d3, ge_iff_le, Nat.reduceLT, Nat.sub_zero, List.take_zero, atoi_d4,
    atoi_d2, ite_eq_right_iff]
  intro h; omega

/-! ## round trips -/

/-- `DateFromLiteral (d.String()) = d` for every valid date, whichever of the four trimmed forms
`String` chooses -/
theorem literal_roundtrip (f : Fields) (hv : valid f = true) : fromLiteral (toLiteral f) = some (f, 0) := by
  have hr := valid_inRange f hv
  have hdm := daysInMonth_le f.yr f.mon
  obtain ⟨y0, y1, m0, m1, d0, d1, h0, h1, mi0, mi1, s0, s1, ms0, ms1⟩ := hr
  obtain ⟨yr, mon, day, hr, mi, sec, ms⟩ := f
  simp only at y0 y1 m0 m1 d0 d1 h0 h1 mi0 mi1 s0 s1 ms0 ms1 hdm
  simp only [toLiteral]
  split
  · rename_i hp
    simp only [packTime] at hp
    obtain rfl : hr = 0 := by omega
    obtain rfl : mi = 0 := by omega
    obtain rfl : sec = 0 := by omega
    obtain rfl : ms = 0 := by omega
    rw [fromLiteral_date _ _ _ (by omega) (by omega) (by omega) (by omega) (by omega) (by omega), if_pos hv]
  · split
    · rename_i hp
      obtain ⟨rfl, rfl⟩ := hp
      rw [fromLiteral_hm _ _ _ _ _ (by omega) (by omega) (by omega) (by omega) (by omega) (by omega)
        (by omega) (by omega) (by omega) (by omega), if_pos hv]
    · split
      · rename_i hp
        obtain rfl := hp
        rw [fromLiteral_hms _ _ _ _ _ _ (by omega) (by omega) (by omega) (by omega) (by omega) (by omega)
          (by omega) (by omega) (by omega) (by omega) (by omega) (by omega), if_pos hv]
      · rw [fromLiteral_hmsm _ _ _ _ _ _ _ (by omega) (by omega) (by omega) (by omega) (by omega) (by omega)
          (by omega) (by omega) (by omega) (by omega) (by omega) (by omega) (by omega) (by omega), if_pos hv]

/-- `DateFromLiteral (ts.String()) = ts` for every timestamp with a valid date part and extra
counter in 1..255 -/
theorem ts_literal_roundtrip (f : Fields) (x : Int) (hv : valid f = true) (hx0 : 0 < x) (hx1 : x < 256) :
    fromLiteral (tsLiteral f x) = some (f, x) := by
  have hr := valid_inRange f hv
  have hdm := daysInMonth_le f.yr f.mon
  obtain ⟨y0, y1, m0, m1, d0, d1, h0, h1, mi0, mi1, s0, s1, ms0, ms1⟩ := hr
  obtain ⟨yr, mon, day, hr, mi, sec, ms⟩ := f
  simp only at y0 y1 m0 m1 d0 d1 h0 h1 mi0 mi1 s0 s1 ms0 ms1 hdm
  simp only [tsLiteral]
  rw [fromLiteral_ts _ _ _ _ _ _ _ _ (by omega) (by omega) (by omega) (by omega) (by omega) (by omega)
    (by omega) (by omega) (by omega) (by omega) (by omega) (by omega) (by omega) (by omega) hx0 hx1, if_pos hv]

set_option linter.auxLemma false in
/-- the leading `#` is optional for `DateFromLiteral` -/
theorem fromLiteral_hash (c : Nat) (r : List Nat) (h : c ≠ 35) :
    fromLiteral (c :: r) = fromLiteral (35 :: c :: r) := by
  have h2 : fromLiteral.match_1 (fun _ => List Nat) (c :: r) (fun r => r) (fun r => r) = c :: r := by
    split
    · rename_i heq
      cases heq
      exact absurd rfl h
    · rfl
  unfold fromLiteral
  simp only [] at h2 ⊢
  rw [h2]

theorem dig_ne_hash (n : Int) : dig n ≠ 35 := by
  simp only [dig]; omega

theorem toLiteral_cons (f : Fields) : ∃ r, toLiteral f = 35 :: dig (f.yr / 1000) :: r := by
  simp only [toLiteral, d4, List.cons_append]
  split_ifs <;> exact ⟨_, rfl⟩

/-- the same without the leading `#` (`DateFromLiteral` is called on both spellings) -/
theorem literal_roundtrip_nohash (f : Fields) (hv : valid f = true) :
    fromLiteral (toLiteral f).tail = some (f, 0) := by
  obtain ⟨r, hr⟩ := toLiteral_cons f
  have := literal_roundtrip f hv
  rw [hr] at this ⊢
  rw [List.tail_cons, fromLiteral_hash _ _ (dig_ne_hash _)]
  exact this

end Gsu.Date
