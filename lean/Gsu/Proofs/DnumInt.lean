/-
`FromInt` on integers of at most 16 digits is exact and order preserving (used by C26
cross_rep_compare, C28 compare_trans, C27 new_round). Core-only.
-/
import Gsu.Proofs.NumOps
namespace Gsu.Dnum
open Gsu.Num

theorem log2_table : ∀ k, k < 64 → 10 ^ (19 * k / 64) ≤ 2 ^ k ∧ 2 ^ (k + 1) ≤ 10 ^ (19 * k / 64 + 2) := by
  decide

/-- the Hacker's Delight `ilog10` is the decimal digit count minus one (for x < 10^19) -/
theorem ilog10_spec (x : Nat) (h0 : 0 < x) (h1 : x < 10 ^ 19) :
    10 ^ ilog10 x ≤ x ∧ x < 10 ^ (ilog10 x + 1) := by
  have hx : x ≠ 0 := by omega
  have hlo := Nat.log2_self_le hx
  have hhi := @Nat.lt_log2_self x
  have hk : x.log2 < 64 := (Nat.log2_lt hx).2 (by omega)
  obtain ⟨t1, t2⟩ := log2_table _ hk
  simp only [ilog10, hx, if_false]
  generalize x.log2 = k at *
  have hy : 19 * k / 64 ≤ 18 := by omega
  generalize 19 * k / 64 = y at *
  have e2 : 10 ^ (y + 2) = 10 ^ y * 100 := Nat.pow_add 10 y 2
  have e1 : 10 ^ (y + 1) = 10 ^ y * 10 := Nat.pow_add 10 y 1
  have e3 : 10 ^ (y + 1 + 1) = 10 ^ y * 100 := Nat.pow_add 10 y 2
  by_cases hc : y < 18 ∧ x ≥ pow10 (y + 1)
  · have hp : pow10 (y + 1) = 10 ^ (y + 1) := by simp only [pow10]; rw [if_pos (by omega)]
    simp only [hc, and_self, if_true]
    rw [hp] at hc
    exact ⟨hc.2, by omega⟩
  · simp only [hc, if_false]
    refine ⟨by omega, ?_⟩
    by_cases hy18 : y < 18
    · have hp : pow10 (y + 1) = 10 ^ (y + 1) := by simp only [pow10]; rw [if_pos (by omega)]
      rw [hp] at hc
      omega
    · have : y = 18 := by omega
      subst this; omega

theorem ilog10_lt16 (x : Nat) (h0 : 0 < x) (h1 : x < 10 ^ 16) : ilog10 x ≤ 15 := by
  have := (ilog10_spec x h0 (by omega)).1
  apply Nat.le_of_not_lt
  intro h
  have : 10 ^ 16 ≤ 10 ^ ilog10 x := Nat.pow_le_pow_right (by decide) h
  omega

/-- `New` on a coefficient of at most 16 digits only shifts (no rounding) -/
theorem new_small (sign : Int) (c : Nat) (e : Int) (hs : sign = 1 ∨ sign = -1)
    (hc0 : 0 < c) (hc : c < 10 ^ 16) (he1 : -113 ≤ e) (he2 : e ≤ 127) :
    new sign c e = ⟨c * 10 ^ (15 - ilog10 c), sign, e - (15 - ilog10 c : Nat)⟩ := by
  have hk := ilog10_lt16 c hc0 hc
  have h1 : ¬(sign = 0 ∨ c = 0 ∨ e < expMin) := by simp only [expMin]; omega
  have h2 : ¬ sign = signPosInf := by simp only [signPosInf]; omega
  have h3 : ¬ sign = signNegInf := by simp only [signNegInf]; omega
  have h4 : ¬ c > coefMax := by simp only [coefMax]; omega
  have hp : pow10 (15 - ilog10 c) = 10 ^ (15 - ilog10 c) := by
    simp only [pow10]; rw [if_pos (by omega)]
  have hms : maxShift c = 15 - ilog10 c := by
    have hn : ¬ ilog10 c > shiftMax := by show ¬ (15 < ilog10 c); omega
    simp only [maxShift]; rw [if_neg hn]; rfl
  simp only [new, h1, h2, h3, if_false, roundLoop, h4, Bool.not_false, if_true, hms, hp]
  rw [if_neg (by simp only [expMin]; omega), if_neg (by simp only [expMax]; omega)]

/-- the normal form of `FromInt` of a positive integer of at most 16 digits -/
def normal (s : Int) (m : Nat) : Dnum := ⟨m * 10 ^ (15 - ilog10 m), s, (ilog10 m : Int) + 1⟩

theorem fromInt_small (n : Int) (h0 : n ≠ 0) (h : n.natAbs < 10 ^ 16) :
    fromInt n = normal (if n < 0 then -1 else 1) n.natAbs := by
  have hk := ilog10_lt16 n.natAbs (by omega) h
  simp only [fromInt, h0, if_false, signNeg, signPos, digitsMax, normal]
  by_cases hn : n < 0
  · simp only [hn, if_true]
    rw [new_small (-1) n.natAbs ((16 : Nat) : Int) (by omega) (by omega) h (by omega) (by omega)]
    congr 1; omega
  · simp only [hn, if_false]
    rw [new_small 1 n.natAbs ((16 : Nat) : Int) (by omega) (by omega) h (by omega) (by omega)]
    congr 1; omega

/-- digit count and scaled coefficient order positive integers -/
theorem normal_order (a b : Nat) (ha0 : 0 < a) (hb0 : 0 < b) (ha : a < 10 ^ 16) (hb : b < 10 ^ 16) :
    (ilog10 a < ilog10 b → a < b) ∧
    (ilog10 a = ilog10 b → (a * 10 ^ (15 - ilog10 a) < b * 10 ^ (15 - ilog10 b) ↔ a < b)) := by
  obtain ⟨a1, a2⟩ := ilog10_spec a ha0 (by omega)
  obtain ⟨b1, b2⟩ := ilog10_spec b hb0 (by omega)
  constructor
  · intro h
    have : 10 ^ (ilog10 a + 1) ≤ 10 ^ ilog10 b := Nat.pow_le_pow_right (by decide) h
    omega
  · intro h
    rw [h]
    exact Nat.mul_lt_mul_right (Nat.pow_pos (by decide))


theorem compare_normal (s : Int) (hs : s = 1 ∨ s = -1) (a b : Nat) (ha0 : 0 < a) (hb0 : 0 < b)
    (ha : a < 10 ^ 16) (hb : b < 10 ^ 16) :
    compare (normal s a) (normal s b) = if a < b then -s else if a > b then s else 0 := by
  obtain ⟨o1, o2⟩ := normal_order a b ha0 hb0 ha hb
  obtain ⟨o3, o4⟩ := normal_order b a hb0 ha0 hb ha
  have hsn : ¬(s = 0 ∨ s = signNegInf ∨ s = signPosInf) := by
    simp only [signNegInf, signPosInf]; omega
  simp only [compare, normal, Dnum.mk.injEq, Int.lt_irrefl, if_false, hsn, gt_iff_lt]
  generalize ilog10 a = ka at *
  generalize ilog10 b = kb at *
  generalize a * 10 ^ (15 - ka) = ca at *
  generalize b * 10 ^ (15 - kb) = cb at *
  by_cases h1 : ka < kb
  · have := o1 h1
    clear o1 o2 o3 o4
    repeat' split
    all_goals omega
  · by_cases h2 : kb < ka
    · have := o3 h2
      clear o1 o2 o3 o4
      repeat' split
      all_goals omega
    · have hk : ka = kb := by omega
      have q1 := o2 hk
      have q2 := o4 hk.symm
      clear o1 o2 o3 o4
      repeat' split
      all_goals omega

theorem compare_fromInt (n m : Int) (hn : n.natAbs < 10 ^ 16) (hm : m.natAbs < 10 ^ 16) :
    compare (fromInt n) (fromInt m) = cmpInt n m := by
  by_cases hn0 : n = 0
  · subst hn0
    by_cases hm0 : m = 0
    · subst hm0; decide
    · rw [fromInt_small m hm0 hm]
      simp only [fromInt, if_true, zero, compare, normal, cmpInt]
      repeat' split
      all_goals omega
  · by_cases hm0 : m = 0
    · subst hm0
      rw [fromInt_small n hn0 hn]
      simp only [fromInt, if_true, zero, compare, normal, cmpInt]
      repeat' split
      all_goals omega
    · rw [fromInt_small n hn0 hn, fromInt_small m hm0 hm]
      by_cases h1 : n < 0 <;> by_cases h2 : m < 0 <;> simp only [h1, h2, if_true, if_false]
      · rw [compare_normal (-1) (by omega) _ _ (by omega) (by omega) hn hm]
        simp only [cmpInt]; repeat' split
        all_goals omega
      · simp only [compare, normal, cmpInt]; repeat' split
        all_goals omega
      · simp only [compare, normal, cmpInt]; repeat' split
        all_goals omega
      · rw [compare_normal 1 (by omega) _ _ (by omega) (by omega) hn hm]
        simp only [cmpInt]; repeat' split
        all_goals omega
end Gsu.Dnum

namespace Gsu.Num
open Gsu.Dnum

theorem toDnum_of_asInt (a : Num) (n : Int) (ha : asInt a = some n) : toDnum a = fromInt n := by
  cases a <;> simp_all [asInt, toDnum]

/-- an int of at most 16 digits compares like its decimal twin -/
theorem compare_twin (a b : Num) (n : Int) (ha : asInt a = some n)
    (hn : n.natAbs < 10 ^ 16) (hb : ∀ m, asInt b = some m → m.natAbs < 10 ^ 16) :
    compare a b = compare (.dn (fromInt n)) b ∧ compare b a = compare b (.dn (fromInt n)) := by
  have ht := toDnum_of_asInt a n ha
  cases hbi : asInt b with
  | none =>
    constructor
    · rw [compare_dnum a b (Or.inr hbi), compare_dnum _ b (Or.inr hbi), ht]; rfl
    · rw [compare_dnum b a (Or.inl hbi), compare_dnum b _ (Or.inl hbi), ht]; rfl
  | some m =>
    have hm := hb m hbi
    have htb := toDnum_of_asInt b m hbi
    constructor
    · rw [compare_ints a b n m ha hbi, compare_dnum _ b (Or.inl rfl), htb]
      exact (compare_fromInt n m hn hm).symm
    · rw [compare_ints b a m n hbi ha, compare_dnum b _ (Or.inr rfl), htb]
      exact (compare_fromInt m n hm hn).symm

end Gsu.Num
