/-
The byte-level reader (`Gsu.Mux.readerFuel`: io.ReadFull of a header, then of `size` bytes)
on the concatenated encodings of frames is the frame-level reader `run`.
-/
import Gsu.Proofs.Mux
namespace Gsu.Proofs.Mux
open Gsu.Mux

theorem readerFuel_stopped (a : Bool) (fuel : Nat) (s : RSt) (bs : Bytes)
    (h : s.status ≠ .running) : readerFuel a fuel s bs = s := by
  cases fuel with
  | zero => rfl
  | succ n => simp [readerFuel, h]

theorem rstep_stopped (a : Bool) (s : RSt) (f : Frame) (h : s.status ≠ .running) :
    rstep a s f = s := by
  simp [rstep, rstepRaw, h]

theorem readerFuel_frame (a : Bool) (fuel : Nat) (s : RSt) (f : Frame) (rest : Bytes)
    (h1 : f.payload.length < 4294967296) (h2 : f.sid < 4294967296) :
    readerFuel a (fuel + 1) s (encFrame f ++ rest) = readerFuel a fuel (rstep a s f) rest := by
  by_cases hs : s.status = .running
  · have e : encFrame f ++ rest =
        encHdr f.payload.length f.sid (finalByte f.final) ++ (f.payload ++ rest) := by
      simp [encFrame, List.append_assoc]
    have htake : (encFrame f ++ rest).take headerSize =
        encHdr f.payload.length f.sid (finalByte f.final) := by
      rw [e]; exact List.take_left' (encHdr_length _ _ _)
    have hdrop : (encFrame f ++ rest).drop headerSize = f.payload ++ rest := by
      rw [e]; exact List.drop_left' (encHdr_length _ _ _)
    have hnr : ¬ s.status ≠ .running := fun h => h hs
    rw [readerFuel]
    simp only [hnr, ↓reduceIte, htake, decHdr_encHdr _ _ _ h1 h2, hdrop]
    by_cases hb : (s.part f.sid).length + f.payload.length > maxSize
    · simp only [hb, ↓reduceIte]
      have : rstep a s f = { s with status := .toobig } := by
        simp [rstep, rstepRaw, hs, hb]
      rw [this, readerFuel_stopped]
      simp
    · have hl : ¬ (f.payload ++ rest).length < f.payload.length := by
        simp only [List.length_append]; omega
      simp only [hb, ↓reduceIte, hl, List.take_left' rfl, List.drop_left' rfl]
      rfl
  · rw [readerFuel_stopped a _ s _ hs, rstep_stopped a s f hs, readerFuel_stopped a _ s _ hs]

/-- the reader's state when the stream ends -/
def atEof (s : RSt) : RSt := if s.status = .running then { s with status := .eof } else s

theorem readerFuel_wire (a : Bool) (fs : List Frame) : ∀ (s : RSt) (k : Nat),
    (∀ f ∈ fs, f.payload.length < 4294967296 ∧ f.sid < 4294967296) →
    readerFuel a (fs.length + 1 + k) s (wire fs) = atEof (run a s fs) := by
  induction fs with
  | nil =>
    intro s k _
    have : ([] : List Frame).length + 1 + k = k + 1 := by simp; omega
    rw [this]
    by_cases hs : s.status = .running
    · have hnr : ¬ s.status ≠ .running := fun h => h hs
      simp [readerFuel, wire, decHdr, run, atEof, hs]
    · rw [readerFuel_stopped a _ s _ hs]
      simp [run, atEof, hs]
  | cons f r ih =>
    intro s k h
    have e : (f :: r).length + 1 + k = (r.length + 1 + k) + 1 := by simp; omega
    have hf := h f (List.mem_cons_self ..)
    rw [e, show wire (f :: r) = encFrame f ++ wire r from by simp [wire],
      readerFuel_frame a _ s f _ hf.1 hf.2,
      ih (rstep a s f) k (fun g hg => h g (List.mem_cons_of_mem _ hg))]
    rfl

theorem wire_length (fs : List Frame) : fs.length ≤ (wire fs).length := by
  induction fs with
  | nil => simp [wire]
  | cons f r ih =>
    have : wire (f :: r) = encFrame f ++ wire r := by simp [wire]
    rw [this]
    simp only [List.length_cons, List.length_append, encFrame, encHdr_length, headerSize]
    omega

theorem reader_wire (a : Bool) (fs : List Frame)
    (h : ∀ f ∈ fs, f.payload.length < 4294967296 ∧ f.sid < 4294967296) :
    reader a (wire fs) = atEof (run a RSt.init fs) := by
  unfold reader
  have hl := wire_length fs
  have : (wire fs).length + 1 = fs.length + 1 + ((wire fs).length - fs.length) := by omega
  rw [this]
  exact readerFuel_wire a fs RSt.init _ h

end Gsu.Proofs.Mux
